import UralModel.Lemmas.LruIndex
import UralModel.Lemmas.LruNetloc
import UralModel.Lemmas.LruSerial
/-!
# The stems of a URL, group by group, and what `lru_to_url` rebuilds from them
-/
namespace Ural.Lru
open Ural Ural.Py

variable (sp : Str → Option (Str × Str))

/-! ## tags -/

theorem tag_strStem {tag : Char} {x : Str} {t : TStem} (h : t ∈ strStem tag x) : t.1 = tag := by
  unfold strStem at h; split at h <;> simp_all

theorem tag_optStem {tag : Char} {o : Option Str} {t : TStem} (h : t ∈ optStem tag o) : t.1 = tag := by
  cases o with
  | none => simp [optStem] at h
  | some x => exact tag_strStem h

theorem tag_portStems {pieces : List Str} {t : TStem} (h : t ∈ portStems pieces) : t.1 = 't' := by
  match pieces, h with
  | [_, port], h => simp [portStems] at h; simp [h]

theorem tag_labelStems {s : Str} {t : TStem} (h : t ∈ labelStems s) : t.1 = 'h' := by
  simp only [labelStems, List.mem_map] at h
  obtain ⟨l, _, rfl⟩ := h; rfl

theorem tag_normalHostStems {host0 : Str} {t : TStem} (h : t ∈ normalHostStems host0) : t.1 = 'h' := by
  unfold normalHostStems at h
  split at h
  · simp at h; simp [h]
  · exact tag_labelStems h

theorem tag_hostStemsOfSplit {host0 hn : Str} {o : Option (Str × Str)} {t : TStem}
    (h : t ∈ hostStemsOfSplit host0 hn o) : t.1 = 'h' := by
  match o with
  | none => exact tag_normalHostStems h
  | some (d, s) =>
    simp only [hostStemsOfSplit, List.mem_append, List.mem_cons] at h
    rcases h with h | rfl | h
    · rw [(List.mem_replicate.1 h).2]
    · rfl
    · split at h
      · exact tag_labelStems h
      · simp at h

/-- `hostStems` without its `let` -/
theorem hostStems_eq (sa : Bool) (n host0 : Str) :
    hostStems sp sa n host0 =
      if (sa && !(host0.head? == some '[')) = true
      then hostStemsOfSplit host0 (lowerHostname n) (splitSuffixParsed sp n)
      else normalHostStems host0 := rfl

/-- the host stems in the vocabulary of the specification (`hostSplit`: a bracketed literal has
no public suffix) -/
theorem hostStems_spec (sa : Bool) (n : Str) :
    hostStems sp sa n (specHost n) =
      if sa then hostStemsOfSplit (specHost n) (lowerHostname n) (hostSplit sp n)
      else normalHostStems (specHost n) := by
  rw [hostStems_eq]
  unfold hostSplit
  cases sa <;> cases ((specHost n).head? == some '[') <;> simp [hostStemsOfSplit]

/-- the grammar host starts with `[` only if `host[:port]` does … -/
theorem hostportOf_bracket_of_specHost {n : Str} (h : ((specHost n).head? == some '[') = true) :
    ∃ r, hostportOf n = '[' :: r := by
  unfold specHost at h
  cases hs : specHostPort (hostportOf n) with
  | none => simp [hs] at h
  | some hp =>
    obtain ⟨host, op⟩ := hp
    simp only [hs] at h
    have e := specHostPort_some hs
    cases host with
    | nil => simp at h
    | cons c r =>
      simp only [List.head?_cons, beq_iff_eq, Option.some.injEq] at h
      subst h
      exact ⟨r ++ optPart ':' op, by simpa using e⟩

/-- … and then the first piece of `PORT_SPLITTER.split` starts with `[` too (any netloc, inside
the grammar or not): where the specification sees a bracketed literal, stems.py does -/
theorem head_portSplit_bracket {n : Str} (h : ((specHost n).head? == some '[') = true) :
    (((portSplit (hostportOf n)).headD []).head? == some '[') = true := by
  obtain ⟨r, hr⟩ := hostportOf_bracket_of_specHost h
  rw [hr]
  unfold portSplit
  simp only [splitBy]
  have : (('[' : Char) == ':') = false := by decide
  simp only [this, Bool.false_and, Bool.false_eq_true, if_false]
  cases splitBy (fun c rest => c == ':' && !portLookahead rest) r <;> simp [consHead]

theorem hostSplit_bracketed {n inner : Str} (hin : specHost n = '[' :: inner ++ [']']) :
    hostSplit sp n = none := by
  unfold hostSplit
  rw [hin]; rfl

theorem hostSplit_plain {n : Str} (hp : Plain (specHost n)) :
    hostSplit sp n = splitSuffixParsed sp n := by
  unfold hostSplit
  have : ((specHost n).head? == some '[') = false := by
    cases hh : specHost n with
    | nil => rfl
    | cons c r =>
      have : c ≠ '[' := (hp c (by rw [hh]; simp)).2.1
      simp [this]
  rw [this]; rfl

theorem tag_hostStems {sa : Bool} {n host0 : Str} {t : TStem}
    (h : t ∈ hostStems sp sa n host0) : t.1 = 'h' := by
  rw [hostStems_eq] at h
  split at h
  · exact tag_hostStemsOfSplit h
  · exact tag_normalHostStems h

theorem tag_pathStems {path : Str} {t : TStem} (h : t ∈ pathStems path) : t.1 = 'p' := by
  simp only [pathStems, List.mem_map] at h
  obtain ⟨l, _, rfl⟩ := h; rfl

/-- the eight groups of `lru_stems` -/
theorem lruStemsT_groups (sa : Bool) (p : Parts) :
    lruStemsT sp sa p =
      strStem 's' p.scheme ++ (portStems (portSplit (hostportOf p.netloc)) ++
      (hostStems sp sa p.netloc ((portSplit (hostportOf p.netloc)).headD []) ++ (pathStems p.path ++
      (strStem 'q' p.query ++ (strStem 'f' p.fragment ++
      (optStem 'u' (userOf p.netloc) ++ optStem 'w' (passwordOf p.netloc))))))) := by
  simp [lruStemsT]

theorem tag_mem_lruStemsT {sa : Bool} {p : Parts} {t : TStem} (h : t ∈ lruStemsT sp sa p) :
    t.1 ∈ tagChars := by
  rw [lruStemsT_groups] at h
  simp only [List.mem_append] at h
  rcases h with h | h | h | h | h | h | h | h
  · rw [tag_strStem h]; decide
  · rw [tag_portStems h]; decide
  · rw [tag_hostStems sp h]; decide
  · rw [tag_pathStems h]; decide
  · rw [tag_strStem h]; decide
  · rw [tag_strStem h]; decide
  · rw [tag_optStem h]; decide
  · rw [tag_optStem h]; decide

/-- the values under tag `x` among the stems of a URL -/
theorem valuesOf_lruStemsT (sa : Bool) (p : Parts) (x : Char) :
    valuesOf x (lruStemsT sp sa p) =
      (if 's' = x then (strStem 's' p.scheme).map (·.2) else []) ++
      ((if 't' = x then (portStems (portSplit (hostportOf p.netloc))).map (·.2) else []) ++
      ((if 'h' = x then (hostStems sp sa p.netloc ((portSplit (hostportOf p.netloc)).headD [])).map (·.2) else []) ++
      ((if 'p' = x then (pathStems p.path).map (·.2) else []) ++
      ((if 'q' = x then (strStem 'q' p.query).map (·.2) else []) ++
      ((if 'f' = x then (strStem 'f' p.fragment).map (·.2) else []) ++
      ((if 'u' = x then (optStem 'u' (userOf p.netloc)).map (·.2) else []) ++
      (if 'w' = x then (optStem 'w' (passwordOf p.netloc)).map (·.2) else []))))))) := by
  rw [lruStemsT_groups]
  simp only [valuesOf_append]
  rw [valuesOf_of_tag (fun t h => tag_strStem h), valuesOf_of_tag (fun t h => tag_portStems h),
    valuesOf_of_tag (fun t h => tag_hostStems sp h), valuesOf_of_tag (fun t h => tag_pathStems h),
    valuesOf_of_tag (fun t h => tag_strStem h), valuesOf_of_tag (fun t h => tag_strStem h),
    valuesOf_of_tag (fun t h => tag_optStem h), valuesOf_of_tag (fun t h => tag_optStem h)]

/-! ## values of each group -/

theorem values_strStem (tag : Char) (x : Str) :
    (strStem tag x).map (·.2) = if x ≠ [] then [x] else [] := by
  unfold strStem; split <;> simp

theorem values_optStem (tag : Char) (o : Option Str) :
    (optStem tag o).map (·.2) = if o.getD [] ≠ [] then [o.getD []] else [] := by
  cases o with
  | none => simp [optStem]
  | some x => simp [optStem, values_strStem]

theorem values_labelStems (s : Str) : (labelStems s).map (·.2) = (splitChar '.' s).reverse := by
  simp [labelStems, List.map_map, Function.comp_def]

theorem values_pathStems (path : Str) : (pathStems path).map (·.2) = (splitChar '/' path).tail := by
  simp [pathStems, List.map_map, Function.comp_def]

/-- the host re-joined from its `h` stems (`hn`: the lower-cased hostname) -/
def hostJoined (host0 hn : Str) : Option (Str × Str) → Str
  | none => host0
  | some (d, s) => rejoinHost hn d s

theorem values_normalHostStems (host0 : Str) :
    (normalHostStems host0).map (·.2) ≠ [] ∧
      joinChar '.' ((normalHostStems host0).map (·.2)).reverse = host0 := by
  unfold normalHostStems
  split
  · simp [joinChar]
  · rw [values_labelStems]
    refine ⟨by simpa [splitChar] using splitBy_ne_nil (p := fun c _ => c == '.') host0, ?_⟩
    rw [List.reverse_reverse, joinChar_splitChar]

/-- `k` empty labels at the end of a dotted name are `k` trailing dots -/
theorem joinChar_append_replicate_nil (l : List Str) (hne : l ≠ []) (k : Nat) :
    joinChar '.' (l ++ List.replicate k []) = joinChar '.' l ++ List.replicate k '.' := by
  induction k with
  | zero => simp
  | succ k ih =>
    rw [List.replicate_succ', ← List.append_assoc,
      joinChar_append_singleton _ (by simp [hne]), ih, List.replicate_succ']
    simp

theorem values_hostStemsOfSplit (host0 hn : Str) (o : Option (Str × Str)) :
    (hostStemsOfSplit host0 hn o).map (·.2) ≠ [] ∧
      joinChar '.' ((hostStemsOfSplit host0 hn o).map (·.2)).reverse = hostJoined host0 hn o := by
  match o with
  | none => exact values_normalHostStems host0
  | some (d, s) =>
    simp only [hostStemsOfSplit, List.map_append, List.map_cons, List.map_replicate, hostJoined,
      rejoinHost]
    refine ⟨by simp, ?_⟩
    simp only [List.reverse_append, List.reverse_cons, List.reverse_replicate, List.append_assoc]
    by_cases hc : d ≠ [] ∨ s.length < (rstripChars hn ['.']).length
    · simp only [hc, if_true, values_labelStems, List.reverse_reverse]
      have hne : splitChar '.' d ≠ [] := splitBy_ne_nil d
      rw [← List.append_assoc, joinChar_append_replicate_nil _ (by simp),
        joinChar_append_singleton _ hne, joinChar_splitChar]
    · simp only [hc, if_false, List.map_nil, List.reverse_nil, List.nil_append]
      rw [joinChar_append_replicate_nil _ (by simp)]
      simp [joinChar]

/-! ## `rejoinHost`: trailing dots and the lone leading dot -/

theorem takeWhile_dots (r : Str) :
    r.takeWhile (fun c => ['.'].contains c) =
      List.replicate (r.takeWhile (fun c => ['.'].contains c)).length '.' := by
  apply List.eq_replicate_iff.2
  refine ⟨rfl, fun b hb => ?_⟩
  induction r with
  | nil => simp at hb
  | cons c r ih =>
    by_cases h : c = '.'
    · subst h
      rw [List.takeWhile_cons] at hb
      simp only [show ['.'].contains '.' = true from rfl, if_true, List.mem_cons] at hb
      rcases hb with hb | hb
      · exact hb
      · exact ih hb
    · simp [List.takeWhile_cons, h] at hb

/-- a string is its `rstrip(".")` followed by its trailing dots -/
theorem rstrip_dots_append (l : Str) :
    rstripChars l ['.'] ++ List.replicate (l.length - (rstripChars l ['.']).length) '.' = l := by
  have h := List.takeWhile_append_dropWhile (p := fun c => ['.'].contains c) (l := l.reverse)
  have hl : l = (l.reverse.dropWhile (fun c => ['.'].contains c)).reverse ++
      (l.reverse.takeWhile (fun c => ['.'].contains c)).reverse := by
    rw [← List.reverse_append, h, List.reverse_reverse]
  have hlen : l.length - (rstripChars l ['.']).length =
      (l.reverse.takeWhile (fun c => ['.'].contains c)).length := by
    have := congrArg List.length h
    simp only [List.length_append, List.length_reverse] at this
    simp only [rstripChars, List.length_reverse]
    omega
  rw [hlen]
  conv => rhs; rw [hl, takeWhile_dots, List.reverse_replicate]
  rfl

/-- **C08's clause gives the host back, empty labels included**: when the two parts re-join to the
hostname without its trailing dots (bare suffix, or `first.second`), the suffix-aware stems spell
the hostname itself -/
theorem rejoinHost_of_rejoins {hn d s : Str}
    (h : (d = [] ∧ s = rstripChars hn ['.']) ∨ d ++ '.' :: s = rstripChars hn ['.']) :
    rejoinHost hn d s = hn := by
  unfold rejoinHost
  rcases h with ⟨rfl, rfl⟩ | h
  · simp only [ne_eq, not_true_eq_false, Nat.lt_irrefl, or_self, if_false]
    exact rstrip_dots_append hn
  · have hl : s.length < (rstripChars hn ['.']).length := by
      rw [← h]; simp; omega
    simp only [hl, or_true, if_true]
    rw [h]
    exact rstrip_dots_append hn

theorem mem_rejoinHost_parts {hn d s : Str} {c : Char} (h : c ∈ d ∨ c ∈ s) : c ∈ rejoinHost hn d s := by
  unfold rejoinHost
  rcases h with h | h
  · have : d ≠ [] := by intro e; simp [e] at h
    simp [this, h]
  · split <;> simp [h]

/-! ## the index of the stems of a URL -/

/-- the dictionary `lru_to_url` builds from the stems of a URL -/
def indexOf (sa : Bool) (p : Parts) : Index := (lruStemsT sp sa p).foldl stepT []

theorem child_indexOf (sa : Bool) (p : Parts) (x : Char) :
    child (indexOf sp sa p) [x] =
      (valuesOf x (lruStemsT sp sa p)).foldl (fun o v => some (updT x o v)) none := by
  simp [indexOf, child_foldl_stepT]

theorem foldl_single_ite (x : Char) (v : Str) :
    (if v = [] then [] else [v]).foldl (fun o v => some (updT x o v)) none =
      if v = [] then none else some v := by
  split <;> simp [updT]

theorem child_s (sa : Bool) (p : Parts) :
    child (indexOf sp sa p) ['s'] = if p.scheme ≠ [] then some p.scheme else none := by
  rw [child_indexOf, valuesOf_lruStemsT]
  simp [values_strStem, foldl_single_ite]

theorem child_q (sa : Bool) (p : Parts) :
    child (indexOf sp sa p) ['q'] = if p.query ≠ [] then some p.query else none := by
  rw [child_indexOf, valuesOf_lruStemsT]
  simp [values_strStem, foldl_single_ite]

theorem child_f (sa : Bool) (p : Parts) :
    child (indexOf sp sa p) ['f'] = if p.fragment ≠ [] then some p.fragment else none := by
  rw [child_indexOf, valuesOf_lruStemsT]
  simp [values_strStem, foldl_single_ite]

theorem child_u (sa : Bool) (p : Parts) :
    child (indexOf sp sa p) ['u'] =
      if (userOf p.netloc).getD [] ≠ [] then some ((userOf p.netloc).getD []) else none := by
  rw [child_indexOf, valuesOf_lruStemsT]
  simp [values_optStem, foldl_single_ite]

theorem child_w (sa : Bool) (p : Parts) :
    child (indexOf sp sa p) ['w'] =
      if (passwordOf p.netloc).getD [] ≠ [] then some ((passwordOf p.netloc).getD []) else none := by
  rw [child_indexOf, valuesOf_lruStemsT]
  simp [values_optStem, foldl_single_ite]

theorem child_p (sa : Bool) (p : Parts) :
    child (indexOf sp sa p) ['p'] =
      if (splitChar '/' p.path).tail = [] then none
      else some (joinChar '/' (splitChar '/' p.path).tail) := by
  rw [child_indexOf, valuesOf_lruStemsT]
  simp [values_pathStems, foldl_updT_p_none]

theorem child_t (sa : Bool) (p : Parts) (h : wfNetloc p.netloc = true) :
    child (indexOf sp sa p) ['t'] = specPort p.netloc := by
  rw [child_indexOf, valuesOf_lruStemsT, portSplit_wf h]
  cases specPort p.netloc with
  | none => simp [portStems]
  | some port => simp [portStems, updT]

theorem child_h (sa : Bool) (p : Parts) (h : wfNetloc p.netloc = true) :
    child (indexOf sp sa p) ['h'] =
      some (if sa then hostJoined (specHost p.netloc) (lowerHostname p.netloc) (hostSplit sp p.netloc)
            else specHost p.netloc) := by
  rw [child_indexOf, valuesOf_lruStemsT, portSplit_wf h]
  simp only [List.headD_cons]
  have e : ∀ l : List Str, ([] : List Str) ++ ([] ++ (l ++ ([] ++ ([] ++ ([] ++ ([] ++ [])))))) = l := by simp
  have hs : ('s' = 'h') = False := by decide
  have ht : ('t' = 'h') = False := by decide
  have hp : ('p' = 'h') = False := by decide
  have hq : ('q' = 'h') = False := by decide
  have hf : ('f' = 'h') = False := by decide
  have hu : ('u' = 'h') = False := by decide
  have hw : ('w' = 'h') = False := by decide
  simp only [hs, ht, hp, hq, hf, hu, hw, if_false, if_true, e]
  rw [foldl_updT_h_none, hostStems_spec]
  cases sa with
  | false =>
    have := values_normalHostStems (specHost p.netloc)
    simp only [Bool.false_eq_true, if_false, this.1, this.2]
  | true =>
    have := values_hostStemsOfSplit (specHost p.netloc) (lowerHostname p.netloc) (hostSplit sp p.netloc)
    simp [this.1, this.2]

end Ural.Lru
