import UralModel.Model.Normalize
import UralModel.Lemmas.Normpath
import UralModel.Lemmas.Redirect
import UralModel.Lemmas.StrSplit
/-!
# C04 — the path: a trailing slash, a trailing index file name, the AMP suffixes

On an absolute path (what `urlsplit` returns when the URL has an authority), with
`strip_trailing_slash` and without `lowercase`:

* `pathSteps_trailing_slash`: one more slash at the end changes nothing;
* `pathSteps_index`: a last segment whose `splitext` root is `index` / `default`, appended to a
  path that does not already end in an index / AMP marker, changes nothing;
* `ampSub_append_segment`: `AMP_SUFFIXES_RE` (all of whose alternatives are anchored at the end)
  finds nothing in front of a last segment in which it finds nothing.
-/
set_option linter.unusedSimpArgs false
namespace Ural.Normalize
open Ural Ural.Py Ural.UrlParts Ural.Quote Ural.Canonicalize Ural.Normpath

/-! ## `normpath` of an absolute path with one more slash / one more segment -/

theorem segs_abs (q : Str) : (segView ('/' :: q)).1 = (splitOn q '/').foldl segStep [] := by
  simp [segView, splitOn_abs, segStep]

theorem segStep_nil (acc : List Str) : segStep acc [] = acc := by simp [segStep]

theorem segStep_normal (acc : List Str) (n : Str) (h : Normal n) : segStep acc n = acc ++ [n] := by
  unfold segStep
  simp [h.1, h.2.1, h.2.2.1]

theorem normpath_append_slash (q : Str) : normpath ('/' :: (q ++ ['/'])) = normpath ('/' :: q) := by
  rw [normpath_abs, normpath_abs, segs_abs, segs_abs]
  have : splitOn (q ++ ['/']) '/' = splitOn q '/' ++ [[]] := by
    have := splitOn_append_sep' '/' q []
    simpa [splitOn_nil] using this
  rw [this, List.foldl_append]
  simp [segStep_nil]

theorem normpath_append_segment (q n : Str) (hn : Normal n) :
    normpath ('/' :: (q ++ '/' :: n)) = normpath ('/' :: q) ++ '/' :: n := by
  rw [normpath_abs, normpath_abs, segs_abs, segs_abs]
  have : splitOn (q ++ '/' :: n) '/' = splitOn q '/' ++ [n] := by
    rw [splitOn_append_sep', splitOn_of_not_mem '/' n hn.2.2.2]
  rw [this, List.foldl_append]
  simp only [List.foldl_cons, List.foldl_nil, segStep_normal _ n hn]
  by_cases hF : (splitOn q '/').foldl segStep [] = []
  · simp [hF, join]
  · simp only [hF, if_false]
    have hne : (splitOn q '/').foldl segStep [] ++ [n] ≠ [] := by simp
    simp only [hne, if_false]
    rw [join_append_singleton _ _ _ hF]
    simp

theorem normpath_root_segment (n : Str) (hn : Normal n) : normpath ('/' :: n) = '/' :: n := by
  rw [normpath_abs, segs_abs, splitOn_of_not_mem '/' n hn.2.2.2]
  simp [segStep_normal _ n hn, join]

theorem normpath_slash : normpath ['/'] = [] := by decide

/-- `resolveUnquoted` with `strip_trailing_slash` -/
theorem resolveUnquoted_true (u : Str) :
    resolveUnquoted true u = if u.isEmpty then u else normpath u := by
  unfold resolveUnquoted
  by_cases h : u.isEmpty = true <;> simp [h]

theorem resolve_append_slash (u : Str) (habs : absPath u = true) :
    resolveUnquoted true (u ++ ['/']) = resolveUnquoted true u := by
  rw [resolveUnquoted_true, resolveUnquoted_true]
  cases u with
  | nil => simp [normpath_slash]
  | cons c q =>
    have hc : '/' = c := by simpa [absPath, startsWith] using habs
    subst hc
    simp only [List.cons_append, List.isEmpty_cons, Bool.false_eq_true, if_false]
    exact normpath_append_slash q

theorem resolve_append_segment (u n : Str) (habs : absPath u = true) (hn : Normal n) :
    resolveUnquoted true (u ++ '/' :: n) = resolveUnquoted true u ++ '/' :: n := by
  rw [resolveUnquoted_true, resolveUnquoted_true]
  cases u with
  | nil => simp [normpath_root_segment n hn]
  | cons c q =>
    have hc : '/' = c := by simpa [absPath, startsWith] using habs
    subst hc
    simp only [List.cons_append, List.isEmpty_cons, Bool.false_eq_true, if_false]
    exact normpath_append_segment q n hn

theorem unquotePath_append_slash (path rest : Str) :
    unquotePath (path ++ '/' :: rest) = unquotePath path ++ '/' :: unquotePath rest :=
  safelyUnquote_append_sep Gen.Quote.unsafeForPath sep_slash (by decide) (by decide) path rest

/-- **a trailing slash** (`strip_trailing_slash`, absolute path): the path steps do not see it -/
theorem pathSteps_trailing_slash (o : Opts) (hl : o.lowercase = false)
    (hts : o.stripTrailingSlash = true) (path : Str) (habs : absPath path = true) :
    pathSteps o (path ++ ['/']) = pathSteps o path := by
  unfold pathSteps
  simp only [hl, hts, Bool.false_eq_true, if_false]
  rw [unquotePath_append_slash, unquotePath_nil,
    resolve_append_slash _ (absPath_unquotePath path habs)]

/-! ## `AMP_SUFFIXES_RE` in front of a last segment -/

def NoSlashPat (pat : List Char) : Prop := ∀ c ∈ pat, ciMatch c '/' = false

theorem matchLit_noslash (pat : List Char) (hpat : NoSlashPat pat) (s r : Str)
    (h : matchLit pat s = some r) : ∃ m, s = m ++ r ∧ '/' ∉ m := by
  induction pat generalizing s with
  | nil => simp [matchLit] at h; exact ⟨[], by simp [h], by simp⟩
  | cons p ps ih =>
    have hps : NoSlashPat ps := fun c hc => hpat c (List.mem_cons_of_mem _ hc)
    cases s with
    | nil => simp [matchLit] at h
    | cons c cs =>
      simp only [matchLit] at h
      split at h
      · rename_i hc
        obtain ⟨m, hm, hmm⟩ := ih hps cs h
        refine ⟨c :: m, by simp [hm], ?_⟩
        intro hmem
        simp only [List.mem_cons] at hmem
        rcases hmem with e | e
        · rw [← e] at hc
          rw [hpat p (by simp)] at hc
          cases hc
        · exact hmm e
      · exact absurd h (by simp)

theorem atDollar_noslash {e : Str} (h : atDollar e = true) : e = [] ∨ e = ['\n'] := by
  unfold atDollar at h
  simp only [Bool.or_eq_true, List.isEmpty_iff, beq_iff_eq] at h
  exact h

/-- `\.html$` after the match so far -/
def htmlEnd (r : Str) : Bool :=
  match matchLit ".html".toList r with | some e => atDollar e | none => false

/-- `/?$` with the slash present -/
def slashEnd (r : Str) : Bool := match r with | '/' :: e => atDollar e | _ => false

theorem ampEnd_eq (r : Str) :
    ampEnd r = if slashEnd r then some (r.drop 1) else if atDollar r then some r else none := by
  cases r with
  | nil => simp [ampEnd, afterChar, slashEnd]
  | cons c e =>
    by_cases h : c = '/'
    · subst h
      simp only [ampEnd, afterChar, if_true, slashEnd, List.drop_succ_cons, List.drop_zero]
    · have hs : slashEnd (c :: e) = false := by
        unfold slashEnd
        split
        · rename_i e' heq
          simp only [List.cons.injEq] at heq
          exact absurd heq.1 h
        · rfl
      simp [ampEnd, afterChar, h, hs]

theorem htmlEnd_eq (r : Str) :
    ((matchLit ".html".toList r).map atDollar).getD false = htmlEnd r := by
  unfold htmlEnd
  cases matchLit ".html".toList r <;> rfl

theorem ampSuffixHere_eq (b : Bool) (s : Str) :
    ampSuffixHere b s =
      ((match matchLit ".amp".toList s with
        | none => none
        | some r => if htmlEnd r then some r else if slashEnd r then some (r.drop 1)
                    else if atDollar r then some r else none).or
       (if b then
          match matchLit "amp".toList s with
          | none => none
          | some r => if slashEnd r then some (r.drop 1) else if atDollar r then some r else none
        else none)) := by
  unfold ampSuffixHere
  simp only [htmlEnd_eq, ampEnd_eq]
  cases matchLit ".amp".toList s <;> cases matchLit "amp".toList s <;> simp [ampEnd_eq]

/-- the last segment, seen from a string that ends with it -/
theorem last_segment_unique {a a' b b' : Str} (hb : '/' ∉ b) (hb' : '/' ∉ b')
    (h : a ++ '/' :: b = a' ++ '/' :: b') : b = b' := by
  have h1 : splitOn (a ++ '/' :: b) '/' = splitOn a '/' ++ [b] := by
    rw [splitOn_append_sep', splitOn_of_not_mem '/' b hb]
  have h2 : splitOn (a' ++ '/' :: b') '/' = splitOn a' '/' ++ [b'] := by
    rw [splitOn_append_sep', splitOn_of_not_mem '/' b' hb']
  rw [h] at h1
  have := h1.symm.trans h2
  have e := congrArg List.getLast? this
  simpa using e

/-- a segment that is neither empty nor a lone newline (`$` also matches before a final
newline) -/
def SegOk (n : Str) : Prop := '/' ∉ n ∧ n ≠ [] ∧ n ≠ ['\n']

/-- no alternative of `AMP_SUFFIXES_RE` matches at a position in front of the last slash -/
theorem ampSuffixHere_before_segment (b : Bool) (x n : Str) (hn : SegOk n) :
    ampSuffixHere b (x ++ '/' :: n) = none := by
  have hslash : '/' ∈ x ++ '/' :: n := by simp
  -- the three tests fail on whatever follows a slash-free match
  have tests : ∀ (m r : Str), x ++ '/' :: n = m ++ r → '/' ∉ m →
      htmlEnd r = false ∧ slashEnd r = false ∧ atDollar r = false := by
    intro m r hs hm
    refine ⟨?_, ?_, ?_⟩
    · unfold htmlEnd
      cases h : matchLit ".html".toList r with
      | none => rfl
      | some e =>
        simp only
        cases hd : atDollar e with
        | false => rfl
        | true =>
          exfalso
          obtain ⟨m2, hm2, hmm2⟩ := matchLit_noslash _ (by intro c hc; revert c; decide) r e h
          have he : '/' ∉ e := by rcases atDollar_noslash hd with rfl | rfl <;> decide
          rw [hs, hm2] at hslash
          simp only [List.mem_append] at hslash
          rcases hslash with h' | h' | h'
          · exact hm h'
          · exact hmm2 h'
          · exact he h'
    · unfold slashEnd
      split
      · rename_i e
        cases hd : atDollar e with
        | false => rfl
        | true =>
          exfalso
          have he : '/' ∉ e := by rcases atDollar_noslash hd with rfl | rfl <;> decide
          have := last_segment_unique hn.1 he hs
          rcases atDollar_noslash hd with rfl | rfl
          · exact hn.2.1 this
          · exact hn.2.2 this
      · rfl
    · cases hd : atDollar r with
      | false => rfl
      | true =>
        exfalso
        have he : '/' ∉ r := by rcases atDollar_noslash hd with rfl | rfl <;> decide
        rw [hs] at hslash
        simp only [List.mem_append] at hslash
        rcases hslash with h' | h'
        · exact hm h'
        · exact he h'
  rw [ampSuffixHere_eq]
  have h1 : (match matchLit ".amp".toList (x ++ '/' :: n) with
      | none => none
      | some r => if htmlEnd r then some r else if slashEnd r then some (r.drop 1)
                  else if atDollar r then some r else none) = none := by
    cases h : matchLit ".amp".toList (x ++ '/' :: n) with
    | none => rfl
    | some r =>
      obtain ⟨m, hm, hmm⟩ := matchLit_noslash _ (by intro c hc; revert c; decide) _ r h
      obtain ⟨t1, t2, t3⟩ := tests m r hm hmm
      simp [t1, t2, t3]
  have h2 : (match matchLit "amp".toList (x ++ '/' :: n) with
      | none => none
      | some r => if slashEnd r then some (r.drop 1) else if atDollar r then some r else none) = none := by
    cases h : matchLit "amp".toList (x ++ '/' :: n) with
    | none => rfl
    | some r =>
      obtain ⟨m, hm, hmm⟩ := matchLit_noslash _ (by intro c hc; revert c; decide) _ r h
      obtain ⟨_, t2, t3⟩ := tests m r hm hmm
      simp [t2, t3]
  rw [h1, h2]
  cases b <;> rfl

/-- **`AMP_SUFFIXES_RE.sub` in front of a last segment**: nothing is removed before the last
slash; the last segment is scanned on its own (its first character is preceded by a slash) -/
theorem ampSub_append_segment (r n : Str) (hn : SegOk n) (b : Bool) :
    ampSuffixSubFrom (r ++ '/' :: n) b 0 = r ++ '/' :: ampSuffixSubFrom n true 0 := by
  induction r generalizing b with
  | nil =>
    have h := ampSuffixHere_before_segment b [] n hn
    simp only [List.nil_append] at h ⊢
    simp [ampSuffixSubFrom, h]
  | cons c cs ih =>
    have h := ampSuffixHere_before_segment b (c :: cs) n hn
    simp only [List.cons_append] at h ⊢
    simp only [ampSuffixSubFrom, h]
    rw [ih]

/-! ## `strip_index` -/

theorem splitLast_append_segment (r n : Str) (hn : '/' ∉ n) :
    splitLast (r ++ '/' :: n) '/' = (some r, n) := by
  unfold splitLast
  rw [span_eq]
  have hrev : (r ++ '/' :: n).reverse = n.reverse ++ '/' :: r.reverse := by simp
  rw [hrev]
  have hall : ∀ c ∈ n.reverse, (decide (c ≠ '/')) = true := by
    intro c hc
    have : c ∈ n := by simpa using hc
    simp only [decide_eq_true_eq]
    intro e; exact hn (e ▸ this)
  rw [List.takeWhile_append_of_pos hall, List.dropWhile_append_of_pos hall]
  simp

/-- a last segment whose `splitext` root is `index` / `default` is dropped, with its slash -/
theorem stripIndex_append_segment (r n : Str) (hn : '/' ∉ n)
    (hroot : splitextRoot n = "index".toList ∨ splitextRoot n = "default".toList) :
    stripIndex (r ++ '/' :: n) = r := by
  unfold stripIndex
  rw [splitLast_append_segment r n hn]
  simp only [Option.getD_some]
  rcases hroot with h | h
  · simp [h]
  · simp [h]

/-- **a trailing index file name** (`strip_index`, `strip_trailing_slash`, absolute path): when
the resolved path `r` of the base does not end in an AMP marker (`ampSuffixSub r = r`, under
`normalize_amp`) nor in an index file name (`stripIndex r = r`), appending a segment whose
unescaped form `n` has the `splitext` root `index` / `default` and carries no AMP marker itself
gives the path steps of the base -/
theorem pathSteps_index (o : Opts) (hl : o.lowercase = false) (hts : o.stripTrailingSlash = true)
    (hi : o.stripIndex = true) (path name : Str) (habs : absPath path = true)
    (hn : '/' ∉ unquotePath name)
    (hroot : splitextRoot (unquotePath name) = "index".toList ∨
      splitextRoot (unquotePath name) = "default".toList)
    (hnamp : o.normalizeAmp = true → ampSuffixSubFrom (unquotePath name) true 0 = unquotePath name)
    (hbamp : o.normalizeAmp = true →
      ampSuffixSub (resolveUnquoted true (unquotePath path)) = resolveUnquoted true (unquotePath path))
    (hbidx : stripIndex (resolveUnquoted true (unquotePath path)) = resolveUnquoted true (unquotePath path)) :
    pathSteps o (path ++ '/' :: name) = pathSteps o path := by
  have hne : unquotePath name ≠ [] := by
    intro e; rw [e] at hroot; revert hroot; decide
  have hnl : unquotePath name ≠ ['\n'] := by
    intro e; rw [e] at hroot; revert hroot; decide
  have hd1 : unquotePath name ≠ ['.'] := by
    intro e; rw [e] at hroot; revert hroot; decide
  have hd2 : unquotePath name ≠ ['.', '.'] := by
    intro e; rw [e] at hroot; revert hroot; decide
  have hnormal : Normal (unquotePath name) := ⟨hne, hd1, hd2, hn⟩
  have hseg : SegOk (unquotePath name) := ⟨hn, hne, hnl⟩
  unfold pathSteps
  simp only [hl, hts, hi, Bool.false_eq_true, if_false, if_true]
  rw [unquotePath_append_slash, resolve_append_segment _ _ (absPath_unquotePath path habs) hnormal]
  by_cases ha : o.normalizeAmp = true
  · simp only [ha, if_true]
    unfold ampSuffixSub at hbamp ⊢
    rw [ampSub_append_segment _ _ hseg, hnamp ha, hbamp ha,
      stripIndex_append_segment _ _ hn hroot, hbidx]
  · have ha' : o.normalizeAmp = false := by simpa using ha
    simp only [ha', Bool.false_eq_true, if_false]
    rw [stripIndex_append_segment _ _ hn hroot, hbidx]

end Ural.Normalize
