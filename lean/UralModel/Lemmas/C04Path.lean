import UralModel.Model.Normalize
import UralModel.Lemmas.Normpath
namespace Ural.Normalize
end Ural.Normalize
