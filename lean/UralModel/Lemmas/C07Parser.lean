import UralModel.Model.C07
import UralModel.Lemmas.Split
import UralModel.Lemmas.StrSplit
import UralModel.Lemmas.IsUrl
import UralModel.Lemmas.HostTok
/-!
# C07: two facts about the *modelled* parser (`Py.urlsplit` + `Py.pyHostname`)

* `hostOfModel_scheme_relative` — putting `http:` in front of a string that starts with `//`
  does not change the hostname the parser finds (the only way `safe_urlsplit` and
  `ensure_protocol` hand different strings to `urlsplit`);
* `hostOfModel_bare` — for a bare hostname `c` (no `/?#@:[]%`, no control character, not starting
  with whitespace) the hostname of `http://c` is `lower c`.

Both are statements about the hand model of CPython's `urlsplit` / `SplitResult.hostname`, which
is compared with the real parser on every run.
-/
namespace Ural.C07
open Ural.Py Ural.UrlParts Ural.LruVariants

/-! ## list helpers -/

theorem filter_eq_self_of_all {α} {p : α → Bool} {l : List α} (h : ∀ x ∈ l, p x = true) :
    l.filter p = l := List.filter_eq_self.2 h

theorem dropWhile_eq_nil_of_all {p : Char → Bool} {l : Str} (h : ∀ c ∈ l, p c = true) :
    l.dropWhile p = [] := by
  induction l with
  | nil => rfl
  | cons a l ih =>
    simp only [List.dropWhile_cons, h a List.mem_cons_self, if_true]
    exact ih (fun c hc => h c (List.mem_cons_of_mem _ hc))

theorem splitFirst_eq (s : Str) (sep : Char) :
    splitFirst s sep =
      match s.dropWhile (· ≠ sep) with
      | [] => (s.takeWhile (· ≠ sep), none)
      | _ :: b => (s.takeWhile (· ≠ sep), some b) := by
  unfold splitFirst
  rw [span_eq]
  cases s.dropWhile (· ≠ sep) <;> rfl

theorem splitFirst_nil (sep : Char) : splitFirst [] sep = ([], none) := rfl

theorem splitFirst_of_not_mem {s : Str} {sep : Char} (h : sep ∉ s) : splitFirst s sep = (s, none) := by
  rw [splitFirst_eq]
  have hall : ∀ c ∈ s, (decide (c ≠ sep)) = true := by
    intro c hc
    simp only [ne_eq, decide_eq_true_eq]
    intro e; subst e; exact h hc
  rw [dropWhile_eq_nil_of_all hall, takeWhile_of_all hall]

/-! ## the scheme step -/

/-- a string that starts with `/` has no scheme: `splitScheme` leaves it alone -/
theorem splitScheme_slash (t dflt : Str) : (splitScheme ('/' :: t) dflt).2 = '/' :: t := by
  unfold splitScheme
  rw [splitFirst_eq]
  have htw : ('/' :: t).takeWhile (· ≠ ':') = '/' :: t.takeWhile (· ≠ ':') := by
    simp
  cases hd : ('/' :: t).dropWhile (· ≠ ':') with
  | nil => rfl
  | cons x b =>
    simp only [htw]
    have : isAsciiAlpha '/' = false := by decide
    simp [this]

/-- `http:` in front of a string that starts with `/`: the scheme is `http`, the rest is the
string -/
theorem splitScheme_http (t dflt : Str) :
    splitScheme ('h' :: 't' :: 't' :: 'p' :: ':' :: '/' :: t) dflt = ("http".toList, '/' :: t) := by
  unfold splitScheme
  rw [splitFirst_eq]
  simp [isAsciiAlpha, isSchemeChar, isAsciiDigit, lower, lowerChar]

/-! ## cleaning -/

theorem cleanUrl_http (t : Str) :
    cleanUrl ('h' :: 't' :: 't' :: 'p' :: ':' :: '/' :: t) =
      'h' :: 't' :: 't' :: 'p' :: ':' :: '/' :: t.filter (fun c => !isUnsafeUrlChar c) := by
  unfold cleanUrl
  have h1 : isC0OrSpace 'h' = false := by decide
  simp only [List.dropWhile_cons, h1]
  simp [isUnsafeUrlChar]

theorem cleanUrl_slash (t : Str) :
    cleanUrl ('/' :: t) = '/' :: t.filter (fun c => !isUnsafeUrlChar c) := by
  unfold cleanUrl
  have h1 : isC0OrSpace '/' = false := by decide
  simp only [List.dropWhile_cons, h1]
  simp [isUnsafeUrlChar]

/-! ## `http:` in front of `//…` -/

/-- what `hostOfModel` reads of a split result -/
def hostOfResult (r : Option SplitResult) : Option Str :=
  match r with
  | none => none
  | some r => let h := pyHostname r.netloc; if h = [] then none else some h

theorem hostOfModel_eq (s : Str) : hostOfModel s = hostOfResult (Py.urlsplit s []) := by
  unfold hostOfModel hostOfResult
  cases Py.urlsplit s [] <;> rfl

/-- the result of `urlsplit` from the scheme step on -/
def afterScheme (scheme rest : Str) : Option SplitResult :=
  let nl := splitNetloc rest
  if !netlocOk nl.1 then none
  else
    let fr := splitFirst nl.2 '#'
    let q := splitFirst fr.1 '?'
    some ⟨scheme, nl.1, q.1, q.2.getD [], fr.2.getD []⟩

theorem urlsplit_eq (s dflt : Str) :
    Py.urlsplit s dflt = afterScheme (splitScheme (cleanUrl s) dflt).1 (splitScheme (cleanUrl s) dflt).2 := rfl

theorem hostOfResult_afterScheme (sc1 sc2 rest : Str) :
    hostOfResult (afterScheme sc1 rest) = hostOfResult (afterScheme sc2 rest) := by
  unfold afterScheme hostOfResult
  by_cases h : netlocOk (splitNetloc rest).1 <;> simp [h]

/-- **`http:` in front of a scheme-relative URL does not change the host** (modelled parser) -/
theorem hostOfModel_scheme_relative (r : Str) :
    hostOfModel ("http:".toList ++ '/' :: '/' :: r) = hostOfModel ('/' :: '/' :: r) := by
  have e : "http:".toList ++ '/' :: '/' :: r = 'h' :: 't' :: 't' :: 'p' :: ':' :: '/' :: '/' :: r := rfl
  rw [e, hostOfModel_eq, hostOfModel_eq, urlsplit_eq, urlsplit_eq]
  rw [cleanUrl_http, cleanUrl_slash]
  simp only [List.filter_cons]
  have hs : (!isUnsafeUrlChar '/') = true := by decide
  simp only [hs, if_true]
  rw [splitScheme_http, splitScheme_slash]
  exact hostOfResult_afterScheme _ _ _

/-! ## a bare hostname after `http://` -/

/-- a hostname without userinfo / port / path delimiters, without `%`, without control
character -/
def BareHost (h : Str) : Prop :=
  (∀ c ∈ h, c ∉ ['/', '?', '#', '@', ':', '[', ']', '%']) ∧ stripControl h = h

instance (h : Str) : Decidable (BareHost h) := by unfold BareHost; infer_instance

theorem not_unsafe_of_not_control {c : Char} (h : isControlChar c = false) : isUnsafeUrlChar c = false := by
  unfold isUnsafeUrlChar
  cases h1 : decide (c = '\t') <;> cases h2 : decide (c = '\r') <;> cases h3 : decide (c = '\n') <;>
    simp_all [isControlChar] <;> (subst_vars; simp_all)

theorem stripControl_eq_self_iff {s : Str} : stripControl s = s ↔ ∀ c ∈ s, isControlChar c = false := by
  unfold stripControl
  rw [List.filter_eq_self]
  constructor
  · intro h c hc; simpa using h c hc
  · intro h c hc; simpa using h c hc

theorem hostOfModel_bare (c : Str) (hb : BareHost c) :
    hostOfModel ("http://".toList ++ c) = if lower c = [] then none else some (lower c) := by
  obtain ⟨hd, hctl⟩ := hb
  have hctl' := stripControl_eq_self_iff.1 hctl
  have nm : ∀ x, x ∈ ['/', '?', '#', '@', ':', '[', ']', '%'] → x ∉ c := by
    intro x hx hxc; exact hd x hxc hx
  have e : "http://".toList ++ c = 'h' :: 't' :: 't' :: 'p' :: ':' :: '/' :: '/' :: c := rfl
  rw [e, hostOfModel_eq, urlsplit_eq]
  rw [cleanUrl_http]
  simp only [List.filter_cons]
  have hs : (!isUnsafeUrlChar '/') = true := by decide
  simp only [hs, if_true]
  rw [filter_eq_self_of_all (l := c) (fun x hx => by simp [not_unsafe_of_not_control (hctl' x hx)])]
  rw [splitScheme_http]
  unfold afterScheme splitNetloc
  have hsw : startsWith ('/' :: '/' :: c) ['/', '/'] = true := by simp [startsWith]
  simp only [hsw, if_true, List.drop_succ_cons, List.drop_zero]
  have hnd : ∀ x ∈ c, (!isNetlocDelim x) = true := by
    intro x hx
    have h1 : x ≠ '/' := fun e => nm '/' (by simp) (e ▸ hx)
    have h2 : x ≠ '?' := fun e => nm '?' (by simp) (e ▸ hx)
    have h3 : x ≠ '#' := fun e => nm '#' (by simp) (e ▸ hx)
    simp [isNetlocDelim, h1, h2, h3]
  rw [takeWhile_of_all hnd, dropWhile_eq_nil_of_all hnd]
  have hL : c.contains '[' = false := by simpa using nm '[' (by simp)
  have hR : c.contains ']' = false := by simpa using nm ']' (by simp)
  have hok : netlocOk c = true := by
    unfold netlocOk
    simp only [hL, hR]
    rfl
  simp only [hok, Bool.not_true, splitFirst_nil]
  unfold hostOfResult
  have hat : '@' ∉ c := nm '@' (by simp)
  have hbr : '[' ∉ c := nm '[' (by simp)
  have hco : ':' ∉ c := nm ':' (by simp)
  have hpc : '%' ∉ c := nm '%' (by simp)
  have hh : pyHostname c = lower c := by
    have h1 : pyHostinfoHost c = c := by
      unfold pyHostinfoHost
      simp only [afterLast_of_not_mem hat, splitAtFirst_of_not_mem hbr, beforeFirst_of_not_mem hco]
    unfold pyHostname
    simp only [h1, splitAtFirst_of_not_mem hpc]
  simp [hh]

end Ural.C07
