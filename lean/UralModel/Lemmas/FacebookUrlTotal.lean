import UralModel.Lemmas.FacebookBridge
/-!
`.url` of a record the parser returned never raises and is never `None` (C19,
`ural/facebook.py`) — with no hypothesis on the characters of the fields: the `ValueError` that
`urljoin` can propagate comes from `urlsplit` of the reference, which only refuses a reference
with a (malformed) authority; the builders' references start with `/` followed by a character of
a field that is not `/` (a field is not empty and has no `/`), or with a literal route word
(`/profile.php?…`, `groups/…`), so they have no authority.
-/
namespace Ural.Facebook
open Ural.Py Ural

/-- `urljoin(BASE, u)` raises only when `urlsplit(u)` does -/
theorem urljoin_base_isSome (u : Str) (h : (urlsplit u httpsL).isSome = true) : ∃ x, urljoin BASE u = some x := by
  obtain ⟨sp, hsp⟩ := Option.isSome_iff_exists.mp h
  unfold urljoin
  have hb : BASE ≠ [] := by decide
  simp only [hb, if_false, urlsplit_BASE, hsp]
  repeat' split
  all_goals exact ⟨_, rfl⟩

theorem joinBase_ok (p : Str) (h : (urlsplit p httpsL).isSome = true) : ∃ u, joinBase p = .ok (some u) := by
  obtain ⟨x, hx⟩ := urljoin_base_isSome p h
  exact ⟨x, by unfold joinBase; rw [hx]⟩

/-- a reference without authority is never refused -/
theorem urlsplit_isSome_of_no_netloc (u dflt : Str)
    (h : startsWith (splitScheme (cleanUrl u) dflt).2 ['/', '/'] = false) : (urlsplit u dflt).isSome = true := by
  unfold urlsplit
  simp only [splitNetloc, h, Bool.false_eq_true, if_false]
  have : netlocOk [] = true := by decide
  simp [this]

theorem cleanUrl_slash (t : Str) : cleanUrl ('/' :: t) = '/' :: t.filter (fun c => !isUnsafeUrlChar c) := by
  unfold cleanUrl
  rw [List.dropWhile_cons_of_neg (by decide)]
  simp [isUnsafeUrlChar]

/-- `"/" + c + …` with `c` neither `/` nor TAB CR LF has no authority -/
theorem joinBase_abs_ok (c : Char) (rest : Str) (h1 : c ≠ '/') (h2 : isUnsafeUrlChar c = false) :
    ∃ u, joinBase ('/' :: c :: rest) = .ok (some u) := by
  apply joinBase_ok
  apply urlsplit_isSome_of_no_netloc
  rw [cleanUrl_slash, splitScheme_of_head_slash]
  simp [h2, startsWith, List.isPrefixOf, Ne.symm h1]

theorem cleanChar_spec {c : Char} (h : cleanChar c = true) : c ≠ '/' ∧ isUnsafeUrlChar c = false := by
  unfold cleanChar at h
  simp only [Bool.and_eq_true, decide_eq_true_eq, Bool.not_eq_true'] at h
  exact ⟨h.1.1.1, h.2⟩

/-- `"/" + field + …` for a non-empty clean field -/
theorem joinBase_field_ok (f rest : Str) (hne : f.isEmpty = false) (hcl : segClean f = true) :
    ∃ u, joinBase ('/' :: f ++ rest) = .ok (some u) := by
  cases f with
  | nil => cases hne
  | cons c cs =>
    unfold segClean at hcl
    simp only [Bool.and_eq_true, List.all_cons] at hcl
    obtain ⟨hc1, hc2⟩ := cleanChar_spec hcl.1.1.1
    exact joinBase_abs_ok c (cs ++ rest) hc1 hc2

/-- `"groups/" + g` (a relative reference) for any `g` -/
theorem joinBase_groups_ok (g : Str) : ∃ u, joinBase (groupsL ++ '/' :: g) = .ok (some u) := by
  apply joinBase_ok
  apply urlsplit_isSome_of_no_netloc
  have hclean : cleanUrl (groupsL ++ '/' :: g) = groupsL ++ '/' :: g.filter (fun c => !isUnsafeUrlChar c) := by
    unfold cleanUrl
    simp [groupsL, isC0OrSpace, isUnsafeUrlChar]
  rw [hclean]
  have hsch : ∀ x : Str, splitScheme (groupsL ++ '/' :: x) httpsL = (httpsL, groupsL ++ '/' :: x) := by
    intro x
    unfold splitScheme
    have e : groupsL ++ '/' :: x = (groupsL ++ ['/']) ++ x := by simp
    rw [e, splitFirst_append_left_s20 _ _ ':' (by decide)]
    cases (splitFirst x ':').2 with
    | none => rfl
    | some post =>
      simp only [groupsL, List.cons_append, List.nil_append, List.all_cons, isSchemeChar, isAsciiAlpha,
        isAsciiDigit]
      simp
  rw [hsch]
  simp [groupsL, startsWith, List.isPrefixOf]

theorem isEmpty_false_of_not {s : Str} (h : (!s.isEmpty) = true) : s.isEmpty = false := by simpa using h

/-- **`.url` is total on well-formed records**: documented field combination (`Shaped`), no empty
field, clean path-borne fields — all three hold of every record the parser returns -/
theorem url_total_of_good (r : Parsed) (hs : Shaped r) (hne : noEmpty r = true) (hcl : pathFieldsClean r = true) :
    ∃ u, r.url = .ok (some u) := by
  cases r with
  | user id h =>
    simp only [Shaped] at hs
    subst hs
    simp only [Parsed.url, lit_profile_q, profilePhpL, List.cons_append]
    exact joinBase_abs_ok _ _ (by decide) (by decide)
  | handle h =>
    simp only [noEmpty] at hne
    simp only [pathFieldsClean] at hcl
    have := joinBase_field_ok h [] (isEmpty_false_of_not hne) hcl
    simpa [Parsed.url] using this
  | group id h =>
    cases h with
    | some x =>
      simp only [Parsed.url, lit_groups_rel, List.append_assoc, List.cons_append, List.nil_append]
      exact joinBase_groups_ok x
    | none =>
      simp only [Parsed.url, lit_groups_rel, List.append_assoc, List.cons_append, List.nil_append]
      exact joinBase_groups_ok _
  | post id pid ph gid gh =>
    cases ph with
    | some x =>
      cases pid <;> cases gid <;> cases gh <;> simp [Shaped] at hs
      simp only [noEmpty, optNe, Bool.and_eq_true, Bool.and_true] at hne
      simp only [pathFieldsClean, Bool.and_eq_true] at hcl
      have := joinBase_field_ok x (lit "/posts/" ++ id) (isEmpty_false_of_not hne.2) hcl.1
      simpa [Parsed.url] using this
    | none =>
      cases pid with
      | some p =>
        simp only [Parsed.url, lit_permalink_q, permalinkPhpL, List.cons_append]
        exact joinBase_abs_ok _ _ (by decide) (by decide)
      | none =>
        cases gid with
        | some g =>
          simp only [Parsed.url, lit_groups_abs, groupsL, List.cons_append]
          exact joinBase_abs_ok _ _ (by decide) (by decide)
        | none =>
          cases gh with
          | some g =>
            simp only [Parsed.url, lit_groups_abs, groupsL, List.cons_append]
            exact joinBase_abs_ok _ _ (by decide) (by decide)
          | none => simp [Shaped] at hs
  | video id pid =>
    cases pid with
    | none =>
      simp only [Parsed.url, lit_watch_q, watchL, List.cons_append]
      exact joinBase_abs_ok _ _ (by decide) (by decide)
    | some p =>
      simp only [noEmpty, optNe, Bool.and_eq_true] at hne
      simp only [pathFieldsClean, Bool.and_eq_true] at hcl
      have := joinBase_field_ok p (lit "/videos/" ++ id) (isEmpty_false_of_not hne.2) hcl.1
      simpa [Parsed.url] using this
  | photo id gid pid ph aid =>
    have hq : ∃ u, joinBase (photoQueryPath id gid aid) = .ok (some u) := by
      simp only [photoQueryPath, lit_photo_q, photoPhpL, List.cons_append, List.append_assoc]
      exact joinBase_abs_ok _ _ (by decide) (by decide)
    cases pid with
    | none =>
      cases ph with
      | none => simpa [Parsed.url, truthy] using hq
      | some p =>
        cases gid <;> cases aid <;> simp [Shaped] at hs
        rename_i a
        simp only [noEmpty, optNe, Bool.and_eq_true, Bool.and_true] at hne
        simp only [pathFieldsClean, Bool.and_eq_true] at hcl
        have hp := isEmpty_false_of_not hne.1.2
        have := joinBase_field_ok p (lit "/photos/a." ++ fmtOpt (some a) ++ '/' :: id) hp hcl.1.1
        simpa [Parsed.url, truthy, hp, fmtOpt] using this
    | some p =>
      cases ph with
      | some _ => simp [Shaped] at hs
      | none =>
        cases gid <;> cases aid <;> simp [Shaped] at hs
        rename_i a
        simp only [noEmpty, optNe, Bool.and_eq_true, Bool.and_true] at hne
        simp only [pathFieldsClean, Bool.and_eq_true] at hcl
        have hp := isEmpty_false_of_not hne.1.2
        have := joinBase_field_ok p (lit "/photos/a." ++ fmtOpt (some a) ++ '/' :: id) hp hcl.1.1
        simpa [Parsed.url, truthy, hp, fmtOpt] using this

/-! ## a record is returned only when the path has the segments it is read from -/

/-- how many path segments the route that returns such a record reads (the records read from the
query — `profile.php`, `permalink.php`, `photo.php`, `watch` — need none) -/
def minSegs : Parsed → Nat
  | .handle _ => 1
  | .group _ _ => 2
  | .post _ _ (some _) _ _ => 3
  | .post _ _ none (some _) _ => 4
  | .post _ _ none none (some _) => 4
  | .video _ (some _) => 3
  | .photo _ _ (some _) _ _ => 4
  | .photo _ _ none (some _) _ => 4
  | _ => 0

local macro "route_min" : tactic =>
  `(tactic| (simp only [bind, Except.bind, pure, Except.pure, Functor.map, Except.map]
             repeat' split
             all_goals (intro hr; cases hr)
             all_goals simp_all [minSegs]
             all_goals omega))

theorem routeVideos_min (path : Str) (r : Parsed) :
    routeVideos path = .ok (some r) → minSegs r ≤ (pathsplit path).length := by
  unfold routeVideos; route_min

theorem routePhotos_min (path : Str) (r : Parsed) :
    routePhotos path = .ok (some r) → minSegs r ≤ (pathsplit path).length := by
  unfold routePhotos; route_min

theorem routePosts_min (path : Str) (r : Parsed) :
    routePosts path = .ok (some r) → minSegs r ≤ (pathsplit path).length := by
  unfold routePosts; route_min

theorem routeGroups_min (path : Str) (r : Parsed) :
    routeGroups path = .ok (some r) → minSegs r ≤ (pathsplit path).length := by
  unfold routeGroups; route_min

theorem routeHandle_min (path : Str) (r : Parsed) :
    routeHandle path = .ok (some r) → minSegs r ≤ (pathsplit path).length := by
  unfold routeHandle
  simp only [bind, Except.bind, pure, Except.pure]
  cases hp : pathsplit path with
  | nil => simp
  | cons a as =>
    simp only [List.isEmpty_cons, Bool.false_eq_true, if_false, getIdx, List.getElem?_cons_zero]
    split <;> intro hr <;> cases hr
    simp [minSegs]

theorem parseSplit_min (sp : SplitResult) (r : Parsed) (h : parseSplit sp = .ok (some r)) :
    minSegs r ≤ (pathsplit sp.path).length := by
  rw [parseSplit_eq] at h
  split at h
  · cases h
  · split at h
    · obtain ⟨id, rfl⟩ := routeWatch_shape _ r h; simp [minSegs]
    · split at h
      · exact routeVideos_min _ r h
      · split at h
        · obtain ⟨id, g, a, rfl⟩ := routePhotoQuery_shape _ r h; simp [minSegs]
        · split at h
          · exact routePhotos_min _ r h
          · split at h
            · exact routePosts_min _ r h
            · split at h
              · obtain ⟨id, p, rfl⟩ := routePermalink_shape _ r h; simp [minSegs]
              · split at h
                · exact routeGroups_min _ r h
                · split at h
                  · obtain ⟨id, rfl⟩ := routeProfile_shape _ r h; simp [minSegs]
                  · split at h
                    · obtain ⟨id, rfl⟩ := routePeople_shape _ r h; simp [minSegs]
                    · exact routeHandle_min _ r h

end Ural.Facebook
