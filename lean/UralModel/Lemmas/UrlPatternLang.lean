import UralModel.Lemmas.UrlPattern
/-!
# What `RELAXED_URL_WITH_PROTOCOL_RE` and `HTTP_PROTOCOL_RE` accept, in terms of strings

* `accepts_decomp`: a string the pattern accepts is `protocol // userinfo host port tail`;
* `accepts_of_parts`: conversely such a string is accepted;
* `lang_names_iff`: the third host alternative is `(label .)+ tld .?`, labels being the words
  of `labelRe`;
* `http_decomp` / `http_accepts` for `HTTP_PROTOCOL_RE`.
-/
namespace Ural.UrlPattern
open Ural.Py Ural.Py.Re Ural.Gen.Patterns

/-! ## class facts, one by one -/

theorem hostRe_avoids : allCls (fun C => C.avoids hostBad) hostRe = true := class_facts.1
theorem hostRe_lowerClosed : allCls CharClass.lowerClosed hostRe = true := class_facts.2.1
theorem hostRe_anchorFree : anchorFree hostRe = true := class_facts.2.2.1
theorem ipRe_no_x : allCls (fun C => C.avoids [88, 120]) ipRe = true := class_facts.2.2.2.1
theorem lhRe_no_x : allCls (fun C => C.avoids [88, 120]) lhRe = true := class_facts.2.2.2.2.1
theorem cF_no_dot : cF.avoids [46] = true := class_facts.2.2.2.2.2.1
theorem cM_no_dot : cM.avoids [46] = true := class_facts.2.2.2.2.2.2.1
theorem cT_no_dash_dot : cT.avoids [45, 46] = true := class_facts.2.2.2.2.2.2.2.1
theorem cDot_eq : cDot = ⟨false, [(46, 46)]⟩ := class_facts.2.2.2.2.2.2.2.2.1
theorem cColon_eq : cColon = ⟨false, [(58, 58)]⟩ := class_facts.2.2.2.2.2.2.2.2.2.1
theorem cSlash_eq : cSlash = ⟨false, [(47, 47)]⟩ := class_facts.2.2.2.2.2.2.2.2.2.2.1
theorem cAt_eq : cAt = ⟨false, [(64, 64)]⟩ := class_facts.2.2.2.2.2.2.2.2.2.2.2.1
theorem cDelim_eq : cDelim = ⟨false, [(35, 35), (47, 47), (63, 63)]⟩ :=
  class_facts.2.2.2.2.2.2.2.2.2.2.2.2.1
theorem cAny_co : cAny.coWithin [10] = true := class_facts.2.2.2.2.2.2.2.2.2.2.2.2.2.1
theorem cNonSpace_co : cNonSpace.coWithin spaceCodes = true :=
  class_facts.2.2.2.2.2.2.2.2.2.2.2.2.2.2.1
theorem cDigit_ascii : (List.range 10).all (fun i => cDigit.mem (Char.ofNat (48 + i))) = true :=
  class_facts.2.2.2.2.2.2.2.2.2.2.2.2.2.2.2.1
theorem cDigit_avoids : cDigit.avoids hostBad = true :=
  class_facts.2.2.2.2.2.2.2.2.2.2.2.2.2.2.2.2.1
theorem cLetters_no_colon : cLetters.avoids [58] = true :=
  class_facts.2.2.2.2.2.2.2.2.2.2.2.2.2.2.2.2.2.1
theorem cLetters_http : [104, 116, 112, 115].all (fun n => cLetters.mem (Char.ofNat n)) = true :=
  class_facts.2.2.2.2.2.2.2.2.2.2.2.2.2.2.2.2.2.2

/-! ## single characters -/

theorem mem_single_class {n : Nat} {c : Char} (h : (⟨false, [(n, n)]⟩ : CharClass).mem c = true) :
    c.toNat = n := by
  simp only [CharClass.mem, Bool.false_bne, CharClass.inRanges, List.any_cons, List.any_nil,
    Bool.or_false, Bool.and_eq_true, decide_eq_true_eq] at h
  omega

theorem single_class_mem {n : Nat} {c : Char} (h : c.toNat = n) :
    (⟨false, [(n, n)]⟩ : CharClass).mem c = true := by
  simp [CharClass.mem, CharClass.inRanges, h]

theorem char_eq_of_toNat {c d : Char} (h : c.toNat = d.toNat) : c = d := by
  apply Char.ext
  apply UInt32.toNat_inj.mp
  exact h

theorem cDot_mem {c : Char} : cDot.mem c = true ↔ c = '.' := by
  rw [cDot_eq]
  exact ⟨fun h => char_eq_of_toNat (mem_single_class h), fun h => single_class_mem (by rw [h]; rfl)⟩

theorem cColon_mem {c : Char} : cColon.mem c = true ↔ c = ':' := by
  rw [cColon_eq]
  exact ⟨fun h => char_eq_of_toNat (mem_single_class h), fun h => single_class_mem (by rw [h]; rfl)⟩

theorem cSlash_mem {c : Char} : cSlash.mem c = true ↔ c = '/' := by
  rw [cSlash_eq]
  exact ⟨fun h => char_eq_of_toNat (mem_single_class h), fun h => single_class_mem (by rw [h]; rfl)⟩

theorem cAt_mem {c : Char} : cAt.mem c = true ↔ c = '@' := by
  rw [cAt_eq]
  exact ⟨fun h => char_eq_of_toNat (mem_single_class h), fun h => single_class_mem (by rw [h]; rfl)⟩

/-- `[/?#]` -/
def isDelim (c : Char) : Prop := c = '/' ∨ c = '?' ∨ c = '#'

theorem cDelim_mem {c : Char} : cDelim.mem c = true ↔ isDelim c := by
  rw [cDelim_eq]
  simp only [CharClass.mem, Bool.false_bne, CharClass.inRanges, List.any_cons, List.any_nil,
    Bool.or_false, Bool.or_eq_true, Bool.and_eq_true, decide_eq_true_eq, isDelim]
  constructor
  · rintro (h | h | h)
    · exact Or.inr (Or.inr (char_eq_of_toNat (by show c.toNat = 35; omega)))
    · exact Or.inl (char_eq_of_toNat (by show c.toNat = 47; omega))
    · exact Or.inr (Or.inl (char_eq_of_toNat (by show c.toNat = 63; omega)))
  · rintro (rfl | rfl | rfl)
    · right; left; decide
    · right; right; decide
    · left; decide

theorem cAny_mem {c : Char} (h : c ≠ '\n') : cAny.mem c = true := by
  apply coWithin_sound cAny_co
  intro hm
  simp only [List.mem_singleton] at hm
  exact h (char_eq_of_toNat hm)

theorem cNonSpace_mem {c : Char} (h : isSpace c = false) : cNonSpace.mem c = true := by
  apply coWithin_sound cNonSpace_co
  intro hm
  simp [isSpace, hm] at h

/-- a character read by a host alternative is none of the delimiters, no whitespace, no control -/
theorem host_char {H : Str} (h : Lang hostRe H) : ∀ c ∈ H, c.toNat ∉ hostBad := by
  refine lang_all_of_allCls (P := fun C => C.avoids hostBad) (Q := fun c => c.toNat ∉ hostBad)
    ?_ hostRe_avoids h
  intro C c hC hc
  exact CharClass.avoids_sound hC hc

/-! ## labels and the third host alternative -/

/-- a host label: a word of `(?:[F][M]{0,62})?[F]` -/
def Label (l : Str) : Prop := Lang labelRe l
/-- a top-level domain: at least two characters of the TLD class -/
def Tld (t : Str) : Prop := 2 ≤ t.length ∧ ∀ c ∈ t, cT.mem c = true

/-- `(?:[F][M]{0,62})?[F]\.` -/
def ldRe : Re := .seq (opt (.seq (.cls cF) (.rep (.cls cM) 0 (some 62) true))) (.seq (.cls cF) (.cls cDot))
/-- `(label\.)+ tld \.?` -/
def namesShape : Re := .seq (.rep ldRe 1 none true) (.seq (.rep (.cls cT) 2 none true) (opt (.cls cDot)))

theorem hostRe_eq : hostRe = .alt ipRe (.alt lhRe namesShape) := by decide

theorem labelRe_anchorFree : anchorFree labelRe = true := by decide

theorem match_ld_iff {n s t} : Match n ldRe s t ↔ ∃ l, Label l ∧ s = l ++ '.' :: t := by
  unfold ldRe
  constructor
  · intro h
    obtain ⟨m, h1, h2⟩ := match_seq_iff.mp h
    obtain ⟨m', h3, h4⟩ := match_seq_iff.mp h2
    obtain ⟨d, rfl, hd⟩ := match_cls_iff.mp h4
    rw [cDot_mem] at hd
    subst hd
    have hl : Match n labelRe s ('.' :: t) := match_seq_iff.mpr ⟨m, h1, h3⟩
    obtain ⟨w, rfl, hw⟩ := (match_iff_lang labelRe_anchorFree).mp hl
    exact ⟨w, hw, rfl⟩
  · rintro ⟨l, hl, rfl⟩
    have := (lang_iff_match_anywhere labelRe_anchorFree).mp hl n ('.' :: t)
    obtain ⟨m, h1, h3⟩ := match_seq_iff.mp this
    exact match_seq_iff.mpr ⟨m, h1, match_seq_iff.mpr ⟨_, h3, match_cls_iff.mpr ⟨'.', rfl, cDot_mem.mpr rfl⟩⟩⟩

/-- the labels, each followed by its dot -/
def dotted (ls : List Str) : Str := ls.flatMap (· ++ ['.'])

theorem iter_ld_iff {n} : ∀ {k s t}, Iter n ldRe k s t ↔
    ∃ ls : List Str, ls.length = k ∧ (∀ l ∈ ls, Label l) ∧ s = dotted ls ++ t
  | 0, s, t => by
    constructor
    · rintro rfl; exact ⟨[], rfl, by simp, by simp [dotted]⟩
    · rintro ⟨ls, hl, _, rfl⟩
      have : ls = [] := List.eq_nil_of_length_eq_zero hl
      subst this; simp [dotted, Iter]
  | k + 1, s, t => by
    constructor
    · rintro ⟨m, h1, h2⟩
      obtain ⟨l, hl, rfl⟩ := match_ld_iff.mp h1
      obtain ⟨ls, hk, hls, rfl⟩ := iter_ld_iff.mp h2
      refine ⟨l :: ls, by simp [hk], ?_, by simp [dotted]⟩
      intro x hx
      rcases List.mem_cons.mp hx with rfl | hx
      · exact hl
      · exact hls x hx
    · rintro ⟨ls, hk, hls, rfl⟩
      match ls, hk, hls with
      | l :: ls', hk, hls =>
        refine ⟨dotted ls' ++ t, match_ld_iff.mpr ⟨l, hls l (by simp), by simp [dotted]⟩, ?_⟩
        exact iter_ld_iff.mpr ⟨ls', by simpa using hk, fun x hx => hls x (by simp [hx]), rfl⟩

/-- the string of the third host alternative -/
def namesStr (ls : List Str) (t : Str) (d : Bool) : Str :=
  dotted ls ++ t ++ (if d then ['.'] else [])

theorem match_names_iff {n s u} : Match n namesShape s u ↔
    ∃ ls t d, ls ≠ [] ∧ (∀ l ∈ ls, Label l) ∧ Tld t ∧ s = namesStr ls t d ++ u := by
  unfold namesShape
  constructor
  · intro h
    obtain ⟨m, h1, h2⟩ := match_seq_iff.mp h
    obtain ⟨m2, h3, h4⟩ := match_seq_iff.mp h2
    obtain ⟨k, hk, hlo, _⟩ := match_rep_iff.mp h1
    obtain ⟨ls, hlen, hls, rfl⟩ := iter_ld_iff.mp hk
    obtain ⟨t, rfl, ht, htl, _⟩ := match_rep_cls_iff.mp h3
    have hne : ls ≠ [] := by
      intro e; subst e; simp at hlen; omega
    rcases match_opt_iff.mp h4 with rfl | h5
    · exact ⟨ls, t, false, hne, hls, ⟨htl, ht⟩, by simp [namesStr]⟩
    · obtain ⟨d, rfl, hd⟩ := match_cls_iff.mp h5
      rw [cDot_mem] at hd
      subst hd
      exact ⟨ls, t, true, hne, hls, ⟨htl, ht⟩, by simp [namesStr]⟩
  · rintro ⟨ls, t, d, hne, hls, ⟨htl, ht⟩, rfl⟩
    have hlen : 1 ≤ ls.length := by
      cases ls with
      | nil => exact absurd rfl hne
      | cons _ _ => simp
    refine match_seq_iff.mpr ⟨t ++ (if d then ['.'] else []) ++ u, ?_, ?_⟩
    · apply match_rep_iff.mpr
      refine ⟨ls.length, iter_ld_iff.mpr ⟨ls, rfl, hls, by simp [namesStr]⟩, hlen, by simp⟩
    · refine match_seq_iff.mpr ⟨(if d then ['.'] else []) ++ u, ?_, ?_⟩
      · apply match_rep_cls_iff.mpr
        exact ⟨t, by simp, ht, htl, by simp⟩
      · apply match_opt_iff.mpr
        cases d with
        | false => left; simp
        | true => right; exact match_cls_iff.mpr ⟨'.', by simp, cDot_mem.mpr rfl⟩

theorem lang_names_iff {H : Str} : Lang namesShape H ↔
    ∃ ls t d, ls ≠ [] ∧ (∀ l ∈ ls, Label l) ∧ Tld t ∧ H = namesStr ls t d := by
  unfold Lang
  rw [match_names_iff]
  simp

/-- the three host alternatives -/
theorem lang_host_iff {H : Str} :
    Lang hostRe H ↔ Lang ipRe H ∨ Lang lhRe H ∨ Lang namesShape H := by
  rw [hostRe_eq]
  unfold Lang
  rw [match_alt_iff, match_alt_iff]

/-! ## the whole pattern -/

/-- what the pattern accepts (the string must not end with a line feed: `$` would match
before it) -/
theorem accepts_decomp {s : Str} (h : Accepts R s) (hnl : s.getLast? ≠ some '\n') :
    ∃ pr ui H po tl, s = pr ++ '/' :: '/' :: (ui ++ (H ++ (po ++ tl))) ∧
      (pr = [] ∨ ∃ ls, pr = ls ++ [':'] ∧ ∀ c ∈ ls, cLetters.mem c = true) ∧
      (ui = [] ∨ ∃ w, ui = w ++ ['@'] ∧ ∀ c ∈ w, cNonSpace.mem c = true) ∧
      Lang hostRe H ∧
      (po = [] ∨ ∃ ds, po = ':' :: ds ∧ ds ≠ [] ∧ ∀ c ∈ ds, cDigit.mem c = true) ∧
      (tl = [] ∨ ∃ d r, tl = d :: r ∧ isDelim d) := by
  obtain ⟨t, ht⟩ := h
  rw [match_iff_spine, url_shape] at ht
  obtain ⟨s0, hb, ht⟩ := matchL_cons.mp ht
  obtain ⟨rfl, _⟩ := match_bos_iff.mp hb
  obtain ⟨s1, hpr, ht⟩ := matchL_cons.mp ht
  obtain ⟨s2, hs1, ht⟩ := matchL_cons.mp ht
  obtain ⟨s3, hs2, ht⟩ := matchL_cons.mp ht
  obtain ⟨s4, hui, ht⟩ := matchL_cons.mp ht
  obtain ⟨s5, hho, ht⟩ := matchL_cons.mp ht
  obtain ⟨s6, hpo, ht⟩ := matchL_cons.mp ht
  obtain ⟨s7, htl, ht⟩ := matchL_cons.mp ht
  obtain ⟨s8, heos, ht⟩ := matchL_cons.mp ht
  cases ht
  -- slashes
  obtain ⟨c1, rfl, hc1⟩ := match_cls_iff.mp hs1
  obtain ⟨c2, rfl, hc2⟩ := match_cls_iff.mp hs2
  rw [cSlash_mem] at hc1 hc2
  subst hc1 hc2
  -- host
  obtain ⟨H, rfl, hH⟩ := (match_iff_lang hostRe_anchorFree).mp hho
  -- end of string
  have hsuf : ∃ w, s = w ++ s7 := by
    obtain ⟨w1, e1⟩ := Match.suffix hpr
    obtain ⟨w4, e4⟩ := Match.suffix hui
    obtain ⟨w6, e6⟩ := Match.suffix hpo
    obtain ⟨w7, e7⟩ := Match.suffix htl
    exact ⟨w1 ++ '/' :: '/' :: (w4 ++ (H ++ (w6 ++ w7))), by rw [e1, e4, e6, e7]; simp⟩
  have hend : s7 = [] := by
    rcases match_eos_iff.mp heos with ⟨h1, _⟩ | ⟨h1, _⟩
    · exact h1
    · exfalso
      apply hnl
      obtain ⟨w, hw⟩ := hsuf
      rw [hw, h1]
      simp
  subst hend
  -- protocol
  have hprd : ∃ pr, s = pr ++ '/' :: '/' :: s3 ∧
      (pr = [] ∨ ∃ ls, pr = ls ++ [':'] ∧ ∀ c ∈ ls, cLetters.mem c = true) := by
    rcases match_opt_iff.mp hpr with e | hp
    · exact ⟨[], by simpa using e, Or.inl rfl⟩
    · obtain ⟨m, h1, h2⟩ := match_seq_iff.mp hp
      obtain ⟨ls, e1, hls, _, _⟩ := match_rep_cls_iff.mp h1
      obtain ⟨c, e2, hc⟩ := match_cls_iff.mp h2
      rw [cColon_mem] at hc
      subst hc e2
      exact ⟨ls ++ [':'], by simp [e1], Or.inr ⟨ls, rfl, hls⟩⟩
  obtain ⟨pr, es, hpr'⟩ := hprd
  -- userinfo
  have huid : ∃ ui, s3 = ui ++ (H ++ s5) ∧
      (ui = [] ∨ ∃ w, ui = w ++ ['@'] ∧ ∀ c ∈ w, cNonSpace.mem c = true) := by
    rcases match_opt_iff.mp hui with e | hp
    · exact ⟨[], by simpa using e, Or.inl rfl⟩
    · unfold uiRe at hp
      obtain ⟨m, h1, h2⟩ := match_seq_iff.mp hp
      obtain ⟨m2, h3, h4⟩ := match_seq_iff.mp h2
      obtain ⟨w1, e1, hw1, _, _⟩ := match_rep_cls_iff.mp h1
      obtain ⟨c, e3, hc⟩ := match_cls_iff.mp h4
      rw [cAt_mem] at hc
      subst hc
      have hw2 : ∃ w2, m = w2 ++ m2 ∧ ∀ c ∈ w2, cNonSpace.mem c = true := by
        rcases match_opt_iff.mp h3 with e | hp2
        · exact ⟨[], by simpa using e, by simp⟩
        · obtain ⟨m3, h5, h6⟩ := match_seq_iff.mp hp2
          obtain ⟨c, e5, hc⟩ := match_cls_iff.mp h5
          obtain ⟨w3, e6, hw3, _, _⟩ := match_rep_cls_iff.mp h6
          refine ⟨c :: w3, by rw [e5, e6]; simp, ?_⟩
          intro d hd
          rcases List.mem_cons.mp hd with rfl | hd
          · rw [cColon_mem] at hc; subst hc
            exact cNonSpace_mem (by decide)
          · exact hw3 d hd
      obtain ⟨w2, e2, hw2⟩ := hw2
      refine ⟨w1 ++ w2 ++ ['@'], by rw [e1, e2, e3]; simp, Or.inr ⟨w1 ++ w2, rfl, ?_⟩⟩
      intro d hd
      rcases List.mem_append.mp hd with hd | hd
      · exact hw1 d hd
      · exact hw2 d hd
  obtain ⟨ui, e3, hui'⟩ := huid
  -- port
  have hpod : ∃ po, s5 = po ++ s6 ∧
      (po = [] ∨ ∃ ds, po = ':' :: ds ∧ ds ≠ [] ∧ ∀ c ∈ ds, cDigit.mem c = true) := by
    rcases match_opt_iff.mp hpo with e | hp
    · exact ⟨[], by simpa using e, Or.inl rfl⟩
    · obtain ⟨m, h1, h2⟩ := match_seq_iff.mp hp
      obtain ⟨c, e1, hc⟩ := match_cls_iff.mp h1
      rw [cColon_mem] at hc
      subst hc
      obtain ⟨ds, e2, hds, hlo, _⟩ := match_rep_cls_iff.mp h2
      refine ⟨':' :: ds, by rw [e1, e2]; simp, Or.inr ⟨ds, rfl, ?_, hds⟩⟩
      intro e; subst e; simp at hlo
  obtain ⟨po, e5, hpo'⟩ := hpod
  -- tail
  have htld : s6 = [] ∨ ∃ d r, s6 = d :: r ∧ isDelim d := by
    rcases match_opt_iff.mp htl with e | hp
    · exact Or.inl e
    · obtain ⟨m, h1, _⟩ := match_seq_iff.mp hp
      obtain ⟨c, e1, hc⟩ := match_cls_iff.mp h1
      exact Or.inr ⟨c, m, e1, cDelim_mem.mp hc⟩
  exact ⟨pr, ui, H, po, s6, by rw [es, e3, e5], hpr', hui', hH, hpo', htld⟩

/-- conversely: protocol letters, `://`, an optional userinfo without whitespace, a host, an
optional port of 1–5 digits, an optional tail starting with a delimiter and holding no line
feed, is accepted -/
theorem accepts_of_parts (ls ui H po tl : Str)
    (hls : ls ≠ [] ∧ ls.length ≤ 64 ∧ ∀ c ∈ ls, cLetters.mem c = true)
    (hui : ui = [] ∨ ∃ w, ui = w ++ ['@'] ∧ w ≠ [] ∧ ∀ c ∈ w, isSpace c = false)
    (hH : Lang hostRe H)
    (hpo : po = [] ∨ ∃ ds, po = ':' :: ds ∧ ds ≠ [] ∧ ds.length ≤ 5 ∧ ∀ c ∈ ds, cDigit.mem c = true)
    (htl : tl = [] ∨ ∃ d r, tl = d :: r ∧ isDelim d ∧ '\n' ∉ r) :
    Accepts R (ls ++ ':' :: '/' :: '/' :: (ui ++ (H ++ (po ++ tl)))) := by
  refine ⟨[], ?_⟩
  generalize hn : (ls ++ ':' :: '/' :: '/' :: (ui ++ (H ++ (po ++ tl)))).length = n
  rw [match_iff_spine, url_shape]
  refine MatchL.cons (Match.bos _ hn) ?_
  -- protocol
  refine MatchL.cons (t := '/' :: '/' :: (ui ++ (H ++ (po ++ tl)))) ?_ ?_
  · apply match_opt_iff.mpr
    right
    refine match_seq_iff.mpr ⟨':' :: '/' :: '/' :: (ui ++ (H ++ (po ++ tl))), ?_, ?_⟩
    · apply match_rep_cls_iff.mpr
      refine ⟨ls, rfl, hls.2.2, ?_, ?_⟩
      · cases ls with
        | nil => exact absurd rfl hls.1
        | cons _ _ => simp
      · intro b hb; cases hb; exact hls.2.1
    · exact match_cls_iff.mpr ⟨':', rfl, cColon_mem.mpr rfl⟩
  refine MatchL.cons (match_cls_iff.mpr ⟨'/', rfl, cSlash_mem.mpr rfl⟩) ?_
  refine MatchL.cons (match_cls_iff.mpr ⟨'/', rfl, cSlash_mem.mpr rfl⟩) ?_
  -- userinfo
  refine MatchL.cons (t := H ++ (po ++ tl)) ?_ ?_
  · apply match_opt_iff.mpr
    rcases hui with rfl | ⟨w, rfl, hw, hws⟩
    · left; rfl
    · right
      unfold uiRe
      refine match_seq_iff.mpr ⟨'@' :: (H ++ (po ++ tl)), ?_, ?_⟩
      · apply match_rep_cls_iff.mpr
        refine ⟨w, by simp, fun c hc => cNonSpace_mem (hws c hc), ?_, by simp⟩
        cases w with
        | nil => exact absurd rfl hw
        | cons _ _ => simp
      · refine match_seq_iff.mpr ⟨'@' :: (H ++ (po ++ tl)), match_opt_iff.mpr (Or.inl rfl), ?_⟩
        exact match_cls_iff.mpr ⟨'@', rfl, cAt_mem.mpr rfl⟩
  -- host
  refine MatchL.cons (t := po ++ tl) ?_ ?_
  · exact (lang_iff_match_anywhere hostRe_anchorFree).mp hH n (po ++ tl)
  -- port
  refine MatchL.cons (t := tl) ?_ ?_
  · apply match_opt_iff.mpr
    rcases hpo with rfl | ⟨ds, rfl, hne, hlen, hds⟩
    · left; rfl
    · right
      refine match_seq_iff.mpr ⟨ds ++ tl, match_cls_iff.mpr ⟨':', rfl, cColon_mem.mpr rfl⟩, ?_⟩
      apply match_rep_cls_iff.mpr
      refine ⟨ds, rfl, hds, ?_, ?_⟩
      · cases ds with
        | nil => exact absurd rfl hne
        | cons _ _ => simp
      · intro b hb; cases hb; exact hlen
  -- tail
  refine MatchL.cons (t := []) ?_ (MatchL.cons Match.eosEnd (MatchL.nil _))
  apply match_opt_iff.mpr
  rcases htl with rfl | ⟨d, r, rfl, hd, hr⟩
  · left; rfl
  · right
    refine match_seq_iff.mpr ⟨r, match_cls_iff.mpr ⟨d, rfl, cDelim_mem.mpr hd⟩, ?_⟩
    apply match_rep_cls_iff.mpr
    refine ⟨r, by simp, ?_, by simp, by simp⟩
    intro c hc
    exact cAny_mem (fun e => hr (e ▸ hc))

/-! ## `HTTP_PROTOCOL_RE` -/

theorem cH_mem {c : Char} : cH.mem c = true ↔ c = 'h' ∨ c = 'H' := by
  rw [http_shape.2.1]
  simp only [CharClass.mem, Bool.false_bne, CharClass.inRanges, List.any_cons, List.any_nil,
    Bool.or_false, Bool.or_eq_true, Bool.and_eq_true, decide_eq_true_eq]
  constructor
  · rintro (h | h)
    · exact Or.inr (char_eq_of_toNat (by show c.toNat = 72; omega))
    · exact Or.inl (char_eq_of_toNat (by show c.toNat = 104; omega))
  · rintro (rfl | rfl)
    · right; decide
    · left; decide

theorem cTt_mem {c : Char} : cTt.mem c = true ↔ c = 't' ∨ c = 'T' := by
  rw [http_shape.2.2.1]
  simp only [CharClass.mem, Bool.false_bne, CharClass.inRanges, List.any_cons, List.any_nil,
    Bool.or_false, Bool.or_eq_true, Bool.and_eq_true, decide_eq_true_eq]
  constructor
  · rintro (h | h)
    · exact Or.inr (char_eq_of_toNat (by show c.toNat = 84; omega))
    · exact Or.inl (char_eq_of_toNat (by show c.toNat = 116; omega))
  · rintro (rfl | rfl)
    · right; decide
    · left; decide

theorem cP_mem {c : Char} : cP.mem c = true ↔ c = 'p' ∨ c = 'P' := by
  rw [http_shape.2.2.2.1]
  simp only [CharClass.mem, Bool.false_bne, CharClass.inRanges, List.any_cons, List.any_nil,
    Bool.or_false, Bool.or_eq_true, Bool.and_eq_true, decide_eq_true_eq]
  constructor
  · rintro (h | h)
    · exact Or.inr (char_eq_of_toNat (by show c.toNat = 80; omega))
    · exact Or.inl (char_eq_of_toNat (by show c.toNat = 112; omega))
  · rintro (rfl | rfl)
    · right; decide
    · left; decide

/-- U+017F, the long s, which `re.IGNORECASE` folds onto `s` -/
def longS : Char := Char.ofNat 383

theorem cS_mem {c : Char} : cS.mem c = true ↔ c = 's' ∨ c = 'S' ∨ c = longS := by
  rw [http_shape.2.2.2.2]
  simp only [CharClass.mem, Bool.false_bne, CharClass.inRanges, List.any_cons, List.any_nil,
    Bool.or_false, Bool.or_eq_true, Bool.and_eq_true, decide_eq_true_eq]
  constructor
  · rintro (h | h | h)
    · exact Or.inr (Or.inl (char_eq_of_toNat (by show c.toNat = 83; omega)))
    · exact Or.inl (char_eq_of_toNat (by show c.toNat = 115; omega))
    · exact Or.inr (Or.inr (char_eq_of_toNat (by show c.toNat = 383; omega)))
  · rintro (rfl | rfl | rfl)
    · right; left; decide
    · left; decide
    · right; right; decide

/-- what `HTTP_PROTOCOL_RE` accepts -/
theorem http_decomp {s : Str} (h : Accepts HTTP_PROTOCOL_RE s) :
    ∃ a b c d e rest, s = a :: b :: c :: d :: (e ++ ':' :: '/' :: '/' :: rest) ∧
      (a = 'h' ∨ a = 'H') ∧ (b = 't' ∨ b = 'T') ∧ (c = 't' ∨ c = 'T') ∧ (d = 'p' ∨ d = 'P') ∧
      (e = [] ∨ ∃ x, e = [x] ∧ (x = 's' ∨ x = 'S' ∨ x = longS)) := by
  obtain ⟨t, ht⟩ := h
  rw [match_iff_spine, http_shape.1] at ht
  obtain ⟨s0, hb, ht⟩ := matchL_cons.mp ht
  obtain ⟨rfl, _⟩ := match_bos_iff.mp hb
  obtain ⟨s1, h1, ht⟩ := matchL_cons.mp ht
  obtain ⟨s2, h2, ht⟩ := matchL_cons.mp ht
  obtain ⟨s3, h3, ht⟩ := matchL_cons.mp ht
  obtain ⟨s4, h4, ht⟩ := matchL_cons.mp ht
  obtain ⟨s5, h5, ht⟩ := matchL_cons.mp ht
  obtain ⟨s6, h6, ht⟩ := matchL_cons.mp ht
  obtain ⟨s7, h7, ht⟩ := matchL_cons.mp ht
  obtain ⟨s8, h8, ht⟩ := matchL_cons.mp ht
  cases ht
  obtain ⟨a, rfl, ha⟩ := match_cls_iff.mp h1
  obtain ⟨b, rfl, hb'⟩ := match_cls_iff.mp h2
  obtain ⟨c, rfl, hc⟩ := match_cls_iff.mp h3
  obtain ⟨d, rfl, hd⟩ := match_cls_iff.mp h4
  obtain ⟨x6, rfl, hx6⟩ := match_cls_iff.mp h6
  obtain ⟨x7, rfl, hx7⟩ := match_cls_iff.mp h7
  obtain ⟨x8, rfl, hx8⟩ := match_cls_iff.mp h8
  rw [cColon_mem] at hx6
  rw [cSlash_mem] at hx7 hx8
  subst hx6 hx7 hx8
  rcases match_opt_iff.mp h5 with rfl | h5
  · exact ⟨a, b, c, d, [], t, rfl, cH_mem.mp ha, cTt_mem.mp hb', cTt_mem.mp hc, cP_mem.mp hd, Or.inl rfl⟩
  · obtain ⟨x, rfl, hx⟩ := match_cls_iff.mp h5
    exact ⟨a, b, c, d, [x], t, rfl, cH_mem.mp ha, cTt_mem.mp hb', cTt_mem.mp hc, cP_mem.mp hd,
      Or.inr ⟨x, rfl, cS_mem.mp hx⟩⟩

/-- `http://…` and `https://…` are accepted -/
theorem http_accepts (rest : Str) :
    Accepts HTTP_PROTOCOL_RE ("http".toList ++ ':' :: '/' :: '/' :: rest) ∧
    Accepts HTTP_PROTOCOL_RE ("https".toList ++ ':' :: '/' :: '/' :: rest) := by
  constructor
  · refine ⟨rest, ?_⟩
    rw [match_iff_spine, http_shape.1]
    refine MatchL.cons (Match.bos _ rfl) ?_
    refine MatchL.cons (match_cls_iff.mpr ⟨'h', rfl, cH_mem.mpr (Or.inl rfl)⟩) ?_
    refine MatchL.cons (match_cls_iff.mpr ⟨'t', rfl, cTt_mem.mpr (Or.inl rfl)⟩) ?_
    refine MatchL.cons (match_cls_iff.mpr ⟨'t', rfl, cTt_mem.mpr (Or.inl rfl)⟩) ?_
    refine MatchL.cons (match_cls_iff.mpr ⟨'p', rfl, cP_mem.mpr (Or.inl rfl)⟩) ?_
    refine MatchL.cons (match_opt_iff.mpr (Or.inl rfl)) ?_
    refine MatchL.cons (match_cls_iff.mpr ⟨':', rfl, cColon_mem.mpr rfl⟩) ?_
    refine MatchL.cons (match_cls_iff.mpr ⟨'/', rfl, cSlash_mem.mpr rfl⟩) ?_
    exact MatchL.cons (match_cls_iff.mpr ⟨'/', rfl, cSlash_mem.mpr rfl⟩) (MatchL.nil _)
  · refine ⟨rest, ?_⟩
    rw [match_iff_spine, http_shape.1]
    refine MatchL.cons (Match.bos _ rfl) ?_
    refine MatchL.cons (match_cls_iff.mpr ⟨'h', rfl, cH_mem.mpr (Or.inl rfl)⟩) ?_
    refine MatchL.cons (match_cls_iff.mpr ⟨'t', rfl, cTt_mem.mpr (Or.inl rfl)⟩) ?_
    refine MatchL.cons (match_cls_iff.mpr ⟨'t', rfl, cTt_mem.mpr (Or.inl rfl)⟩) ?_
    refine MatchL.cons (match_cls_iff.mpr ⟨'p', rfl, cP_mem.mpr (Or.inl rfl)⟩) ?_
    refine MatchL.cons (match_opt_iff.mpr (Or.inr (match_cls_iff.mpr ⟨'s', rfl, cS_mem.mpr (Or.inl rfl)⟩))) ?_
    refine MatchL.cons (match_cls_iff.mpr ⟨':', rfl, cColon_mem.mpr rfl⟩) ?_
    refine MatchL.cons (match_cls_iff.mpr ⟨'/', rfl, cSlash_mem.mpr rfl⟩) ?_
    exact MatchL.cons (match_cls_iff.mpr ⟨'/', rfl, cSlash_mem.mpr rfl⟩) (MatchL.nil _)

end Ural.UrlPattern
