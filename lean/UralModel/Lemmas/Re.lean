import UralModel.Py.Re
/-!
# Lemmas about the regular-expression framework (`Py/Re.lean`)

* `matchEnds_sound` / `matchEnds_complete`: the executable matcher computes exactly the
  denotational semantics `Match` (completeness for `noNullRep` patterns);
  `fullmatch_iff`, `pyMatch_iff`.
* generic language lemmas: `Match.opt_intro` (`p ⊆ p?`), `Match.mono` (widening classes),
  `Match.consumed_all` (all characters read satisfy what all classes satisfy),
  `Match.recontext` (an anchor-free pattern does not look at its context),
  `match_iff_spine` / `matchL_append` (sequences as flat lists).
* the `finditer` scanner: `scan_chain` (matches are genuine, lie one after the other).
-/
namespace Ural.Py

namespace CharClass

theorem inRanges_iff (rs : List (Nat × Nat)) (n : Nat) :
    inRanges rs n = true ↔ ∃ r ∈ rs, r.1 ≤ n ∧ n ≤ r.2 := by
  simp [inRanges, List.any_eq_true]

theorem sub_sound {C D : CharClass} (h : C.sub D = true) {c : Char} (hc : C.mem c = true) :
    D.mem c = true := by
  obtain ⟨cn, cr⟩ := C
  obtain ⟨dn, dr⟩ := D
  cases cn <;> cases dn <;> simp only [sub, mem] at *
  · -- pos ⊆ pos
    simp only [Bool.false_bne] at *
    rw [inRanges_iff] at *
    obtain ⟨r, hr, h1, h2⟩ := hc
    rw [List.all_eq_true] at h
    have := h r hr
    rw [List.any_eq_true] at this
    obtain ⟨r', hr', h'⟩ := this
    simp only [Bool.and_eq_true, decide_eq_true_eq] at h'
    exact ⟨r', hr', by omega, by omega⟩
  · -- pos ⊆ neg
    simp only [Bool.false_bne, Bool.true_bne, Bool.not_eq_true'] at *
    rw [inRanges_iff] at hc
    obtain ⟨r, hr, h1, h2⟩ := hc
    rw [List.all_eq_true] at h
    have h3 := h r hr
    rw [List.all_eq_true] at h3
    cases hd : inRanges dr c.toNat
    · rfl
    · rw [inRanges_iff] at hd
      obtain ⟨r', hr', h1', h2'⟩ := hd
      have := h3 r' hr'
      simp only [Bool.or_eq_true, decide_eq_true_eq] at this
      omega
  · -- neg ⊆ pos: never claimed
    simp at h
  · -- neg ⊆ neg
    simp only [Bool.true_bne, Bool.not_eq_true'] at *
    cases hd : inRanges dr c.toNat
    · rfl
    · rw [inRanges_iff] at hd
      obtain ⟨r', hr', h1', h2'⟩ := hd
      rw [List.all_eq_true] at h
      have := h r' hr'
      rw [List.any_eq_true] at this
      obtain ⟨r, hr, h'⟩ := this
      simp only [Bool.and_eq_true, decide_eq_true_eq] at h'
      have : inRanges cr c.toNat = true := by
        rw [inRanges_iff]; exact ⟨r, hr, by omega, by omega⟩
      simp [this] at hc

theorem avoids_sound {C : CharClass} {ns : List Nat} (h : C.avoids ns = true) {c : Char}
    (hc : C.mem c = true) : c.toNat ∉ ns := by
  intro hin
  simp only [avoids, List.all_eq_true] at h
  have := h _ hin
  simp only [mem] at hc
  simp [hc] at this

theorem mem_single (c d : Char) : (single c).mem d = true ↔ d = c := by
  simp only [single, mem, inRanges, List.any_cons, List.any_nil, Bool.or_false, Bool.false_bne,
    Bool.and_eq_true, decide_eq_true_eq]
  constructor
  · intro h
    have : d.toNat = c.toNat := by omega
    exact Char.toNat_inj.mp this |> fun h => h
  · intro h; subst h; exact ⟨Nat.le_refl _, Nat.le_refl _⟩

end CharClass

namespace Re

/-! ## basic facts about `Match` -/

theorem Match.suffix {n r s t} (h : Match n r s t) : ∃ w, s = w ++ t := by
  induction h with
  | eps s => exact ⟨[], rfl⟩
  | cls C c s _ => exact ⟨[c], rfl⟩
  | seq _ _ ih1 ih2 =>
    obtain ⟨w1, rfl⟩ := ih1
    obtain ⟨w2, rfl⟩ := ih2
    exact ⟨w1 ++ w2, by simp⟩
  | altL _ ih => exact ih
  | altR _ ih => exact ih
  | repStop s => exact ⟨[], rfl⟩
  | repStep _ _ _ ih1 ih2 =>
    obtain ⟨w1, rfl⟩ := ih1
    obtain ⟨w2, rfl⟩ := ih2
    exact ⟨w1 ++ w2, by simp⟩
  | bos s _ => exact ⟨[], rfl⟩
  | eosEnd => exact ⟨[], rfl⟩
  | eosNl => exact ⟨[], rfl⟩

theorem Match.isSuffix {n r s t} (h : Match n r s t) : t <:+ s := by
  obtain ⟨w, rfl⟩ := h.suffix
  exact List.suffix_append w t

theorem Match.length_le {n r s t} (h : Match n r s t) : t.length ≤ s.length := by
  obtain ⟨w, rfl⟩ := h.suffix
  simp

/-- a pattern that is not (syntactically) nullable consumes at least one character -/
theorem Match.progress {n r s t} (h : Match n r s t) (hn : nullable r = false) :
    t.length < s.length := by
  induction h with
  | eps s => simp [nullable] at hn
  | cls C c s _ => simp
  | seq h1 h2 ih1 ih2 =>
    simp only [nullable, Bool.and_eq_false_iff] at hn
    have l1 := h1.length_le
    have l2 := h2.length_le
    rcases hn with hn | hn
    · have := ih1 hn; omega
    · have := ih2 hn; omega
  | altL _ ih =>
    simp only [nullable, Bool.or_eq_false_iff] at hn
    exact ih hn.1
  | altR _ ih =>
    simp only [nullable, Bool.or_eq_false_iff] at hn
    exact ih hn.2
  | repStop s => simp [nullable] at hn
  | repStep _ h1 h2 ih1 _ =>
    simp only [nullable, Bool.or_eq_false_iff] at hn
    have := ih1 hn.2
    have := h2.length_le
    omega
  | bos s _ => simp [nullable] at hn
  | eosEnd => simp [nullable] at hn
  | eosNl => simp [nullable] at hn

/-- `p ⊆ p?` -/
theorem Match.opt_intro {n p s t} (h : Match n p s t) : Match n (opt p) s t :=
  Match.repStep (by simp) h (Match.repStop t)

theorem Match.opt_skip {n p} (s : List Char) : Match n (opt p) s s := Match.repStop s

/-- `Lang (seq p b) ⊆ Lang (seq (opt p) b)`, at the level of `Match` -/
theorem Match.seq_opt {n p b s t} (h : Match n (.seq p b) s t) : Match n (.seq (opt p) b) s t := by
  cases h with
  | seq h1 h2 => exact Match.seq h1.opt_intro h2

/-! ## soundness of the executable matcher -/

theorem repEnds_sound {n p g} (step : List Char → List (List Char))
    (hstep : ∀ s t, t ∈ step s → Match n p s t) :
    ∀ fuel lo hi s t, t ∈ repEnds step g fuel lo hi s → Match n (.rep p lo hi g) s t := by
  intro fuel
  induction fuel with
  | zero =>
    intro lo hi s t h
    simp only [repEnds] at h
    split at h
    · rename_i h0; subst h0
      simp only [List.mem_singleton] at h; subst h
      exact Match.repStop _
    · simp at h
  | succ fuel ih =>
    intro lo hi s t h
    have hstop : t ∈ (if lo = 0 then [s] else []) → Match n (.rep p lo hi g) s t := by
      intro h'
      split at h'
      · rename_i h0; subst h0
        simp only [List.mem_singleton] at h'; subst h'
        exact Match.repStop _
      · simp at h'
    have hmore : hi ≠ some 0 →
        t ∈ (((step s).filter fun t => decide (t.length < s.length)).flatMap
          fun t => repEnds step g fuel (lo - 1) (decHi hi) t) → Match n (.rep p lo hi g) s t := by
      intro hhi h'
      rw [List.mem_flatMap] at h'
      obtain ⟨t', ht', h'⟩ := h'
      rw [List.mem_filter] at ht'
      exact Match.repStep hhi (hstep _ _ ht'.1) (ih _ _ _ _ h')
    simp only [repEnds] at h
    split at h
    · exact hstop h
    · rename_i hhi
      split at h
      · rw [List.mem_append] at h
        rcases h with h | h
        · exact hmore hhi h
        · exact hstop h
      · rw [List.mem_append] at h
        rcases h with h | h
        · exact hstop h
        · exact hmore hhi h

/-- every remainder the matcher returns is a genuine match -/
theorem matchEnds_sound {n r} : ∀ {s t}, t ∈ matchEnds n r s → Match n r s t := by
  induction r with
  | empty => intro s t h; simp [matchEnds] at h
  | eps =>
    intro s t h
    simp only [matchEnds, List.mem_singleton] at h; subst h; exact Match.eps _
  | cls C =>
    intro s t h
    cases s with
    | nil => simp [matchEnds] at h
    | cons c s =>
      simp only [matchEnds] at h
      split at h
      · rename_i hc
        simp only [List.mem_singleton] at h; subst h; exact Match.cls C c _ hc
      · simp at h
  | seq p q ihp ihq =>
    intro s t h
    simp only [matchEnds, List.mem_flatMap] at h
    obtain ⟨m, hm, h⟩ := h
    exact Match.seq (ihp hm) (ihq h)
  | alt p q ihp ihq =>
    intro s t h
    simp only [matchEnds, List.mem_append] at h
    rcases h with h | h
    · exact Match.altL (ihp h)
    · exact Match.altR (ihq h)
  | rep p lo hi g ih =>
    intro s t h
    simp only [matchEnds] at h
    exact repEnds_sound _ (fun _ _ h => ih h) _ _ _ _ _ h
  | bos =>
    intro s t h
    simp only [matchEnds] at h
    split at h
    · rename_i hn
      simp only [List.mem_singleton] at h; subst h; exact Match.bos _ hn
    · simp at h
  | eos =>
    intro s t h
    simp only [matchEnds] at h
    split at h
    · rename_i hs
      simp only [List.mem_singleton] at h; subst h
      rcases hs with hs | hs <;> subst hs
      · exact Match.eosEnd
      · exact Match.eosNl
    · simp at h

/-! ## completeness of the executable matcher -/

theorem repEnds_complete {n p g} (step : List Char → List (List Char))
    (hstep : ∀ s t, Match n p s t → t ∈ step s) (hnn : nullable p = false) :
    ∀ fuel lo hi s t, s.length ≤ fuel → Match n (.rep p lo hi g) s t →
      t ∈ repEnds step g fuel lo hi s := by
  intro fuel
  induction fuel with
  | zero =>
    intro lo hi s t hf h
    cases h with
    | repStop s => simp [repEnds]
    | repStep _ h1 _ =>
      have := h1.progress hnn
      omega
  | succ fuel ih =>
    intro lo hi s t hf h
    simp only [repEnds]
    cases h with
    | repStop s =>
      split
      · simp
      · split <;> simp
    | repStep hhi h1 h2 =>
      rename_i t'
      have hp := h1.progress hnn
      have hmore : t ∈ (((step s).filter fun t => decide (t.length < s.length)).flatMap
          fun t => repEnds step g fuel (lo - 1) (decHi hi) t) := by
        rw [List.mem_flatMap]
        refine ⟨t', ?_, ih _ _ _ _ (by omega) h2⟩
        rw [List.mem_filter]
        exact ⟨hstep _ _ h1, by simpa using hp⟩
      rw [if_neg hhi]
      split
      · exact List.mem_append_left _ hmore
      · exact List.mem_append_right _ hmore

/-- on patterns whose repetition bodies cannot match the empty string, the matcher returns
every remainder of a genuine match -/
theorem matchEnds_complete {n r} (hr : noNullRep r = true) :
    ∀ {s t}, Match n r s t → t ∈ matchEnds n r s := by
  induction r with
  | empty => intro s t h; cases h
  | eps => intro s t h; cases h; simp [matchEnds]
  | cls C =>
    intro s t h
    cases h with
    | cls _ c _ hc => simp [matchEnds, hc]
  | seq p q ihp ihq =>
    intro s t h
    simp only [noNullRep, Bool.and_eq_true] at hr
    cases h with
    | seq h1 h2 =>
      simp only [matchEnds, List.mem_flatMap]
      exact ⟨_, ihp hr.1 h1, ihq hr.2 h2⟩
  | alt p q ihp ihq =>
    intro s t h
    simp only [noNullRep, Bool.and_eq_true] at hr
    simp only [matchEnds, List.mem_append]
    cases h with
    | altL h => exact Or.inl (ihp hr.1 h)
    | altR h => exact Or.inr (ihq hr.2 h)
  | rep p lo hi g ih =>
    intro s t h
    simp only [noNullRep, Bool.and_eq_true, Bool.not_eq_true'] at hr
    simp only [matchEnds]
    exact repEnds_complete _ (fun _ _ h => ih hr.2 h) hr.1 _ _ _ _ _ (Nat.le_refl _) h
  | bos =>
    intro s t h
    cases h with
    | bos _ hn => simp [matchEnds, hn]
  | eos =>
    intro s t h
    cases h <;> simp [matchEnds]

theorem mem_matchEnds_iff {n r} (hr : noNullRep r = true) {s t} :
    t ∈ matchEnds n r s ↔ Match n r s t :=
  ⟨matchEnds_sound, matchEnds_complete hr⟩

/-- `fullmatch` decides language membership -/
theorem fullmatch_iff {r} (hr : noNullRep r = true) (s : List Char) :
    fullmatch r s = true ↔ Lang r s := by
  simp only [fullmatch, Lang, List.contains_iff_mem, mem_matchEnds_iff hr]

theorem fullmatch_sound {r} {s : List Char} (h : fullmatch r s = true) : Lang r s := by
  simp only [fullmatch, List.contains_iff_mem] at h
  exact matchEnds_sound h

/-- `pattern.match(s) is not None` decides `Accepts` -/
theorem pyMatch_iff {r} (hr : noNullRep r = true) (s : List Char) :
    pyMatch r s = true ↔ Accepts r s := by
  simp only [pyMatch, Accepts, Bool.not_eq_true', List.isEmpty_eq_false_iff]
  constructor
  · intro h
    obtain ⟨t, ht⟩ := List.exists_mem_of_ne_nil _ h
    exact ⟨t, matchEnds_sound ht⟩
  · intro ⟨t, ht⟩
    exact List.ne_nil_of_mem (matchEnds_complete hr ht)

theorem pyMatch_sound {r} {s : List Char} (h : pyMatch r s = true) : Accepts r s := by
  simp only [pyMatch, Bool.not_eq_true', List.isEmpty_eq_false_iff] at h
  obtain ⟨t, ht⟩ := List.exists_mem_of_ne_nil _ h
  exact ⟨t, matchEnds_sound ht⟩

/-! ## widening classes -/

/-- class inclusion ⇒ language inclusion (covariant through every constructor) -/
theorem Match.mono {n r s t} (h : Match n r s t) : ∀ {r'}, sub r r' = true → Match n r' s t := by
  induction h with
  | eps s => intro r' hs; cases r' <;> simp [sub] at hs; exact Match.eps s
  | cls C c s hc =>
    intro r' hs
    cases r' <;> simp only [sub, Bool.false_eq_true] at hs
    exact Match.cls _ c s (CharClass.sub_sound hs hc)
  | seq _ _ ih1 ih2 =>
    intro r' hs
    cases r' <;> simp only [sub, Bool.false_eq_true, Bool.and_eq_true] at hs
    exact Match.seq (ih1 hs.1) (ih2 hs.2)
  | altL _ ih =>
    intro r' hs
    cases r' <;> simp only [sub, Bool.false_eq_true, Bool.and_eq_true] at hs
    exact Match.altL (ih hs.1)
  | altR _ ih =>
    intro r' hs
    cases r' <;> simp only [sub, Bool.false_eq_true, Bool.and_eq_true] at hs
    exact Match.altR (ih hs.2)
  | repStop s =>
    intro r' hs
    cases r' <;> simp only [sub, Bool.false_eq_true, Bool.and_eq_true, beq_iff_eq] at hs
    obtain ⟨⟨_, h2⟩, _⟩ := hs
    subst h2
    exact Match.repStop s
  | repStep hhi _ _ ih1 ih2 =>
    intro r' hs
    cases r' <;> simp only [sub, Bool.false_eq_true, Bool.and_eq_true, beq_iff_eq] at hs
    obtain ⟨⟨h1, h2⟩, h3⟩ := hs
    subst h2; subst h3
    refine Match.repStep hhi (ih1 h1) (ih2 ?_)
    simp [sub, h1]
  | bos s hn => intro r' hs; cases r' <;> simp [sub] at hs; exact Match.bos s hn
  | eosEnd => intro r' hs; cases r' <;> simp [sub] at hs; exact Match.eosEnd
  | eosNl => intro r' hs; cases r' <;> simp [sub] at hs; exact Match.eosNl

theorem Accepts.mono {r r' s} (h : Accepts r s) (hs : sub r r' = true) : Accepts r' s := by
  obtain ⟨t, ht⟩ := h
  exact ⟨t, ht.mono hs⟩

/-! ## what is consumed -/

theorem consumed_append (w t : List Char) : consumed (w ++ t) t = w := by
  simp [consumed]

theorem Match.eq_consumed {n r s t} (h : Match n r s t) : s = consumed s t ++ t := by
  obtain ⟨w, rfl⟩ := h.suffix
  rw [consumed_append]

/-- if every class of `r` only contains characters satisfying `Q`, every character read by a
match of `r` satisfies `Q` (e.g. "no class contains whitespace ⇒ no match does") -/
theorem Match.all_of_allCls {n r s t} (h : Match n r s t) {P : CharClass → Bool} {Q : Char → Prop}
    (hPQ : ∀ C c, P C = true → C.mem c = true → Q c) (hr : allCls P r = true) :
    ∃ w, s = w ++ t ∧ ∀ c ∈ w, Q c := by
  induction h with
  | eps s => exact ⟨[], rfl, by simp⟩
  | cls C c s hc =>
    refine ⟨[c], rfl, ?_⟩
    intro d hd
    simp only [List.mem_singleton] at hd; subst hd
    exact hPQ C d (by simpa [allCls] using hr) hc
  | seq _ _ ih1 ih2 =>
    simp only [allCls, Bool.and_eq_true] at hr
    obtain ⟨w1, rfl, q1⟩ := ih1 hr.1
    obtain ⟨w2, rfl, q2⟩ := ih2 hr.2
    refine ⟨w1 ++ w2, by simp, ?_⟩
    intro c hc
    rw [List.mem_append] at hc
    rcases hc with hc | hc
    · exact q1 c hc
    · exact q2 c hc
  | altL _ ih =>
    simp only [allCls, Bool.and_eq_true] at hr
    exact ih hr.1
  | altR _ ih =>
    simp only [allCls, Bool.and_eq_true] at hr
    exact ih hr.2
  | repStop s => exact ⟨[], rfl, by simp⟩
  | repStep _ _ _ ih1 ih2 =>
    simp only [allCls] at hr
    obtain ⟨w1, rfl, q1⟩ := ih1 hr
    obtain ⟨w2, rfl, q2⟩ := ih2 (by simpa [allCls] using hr)
    refine ⟨w1 ++ w2, by simp, ?_⟩
    intro c hc
    rw [List.mem_append] at hc
    rcases hc with hc | hc
    · exact q1 c hc
    · exact q2 c hc
  | bos s _ => exact ⟨[], rfl, by simp⟩
  | eosEnd => exact ⟨[], rfl, by simp⟩
  | eosNl => exact ⟨[], rfl, by simp⟩

theorem Match.consumed_all {n r s t} (h : Match n r s t) {P : CharClass → Bool} {Q : Char → Prop}
    (hPQ : ∀ C c, P C = true → C.mem c = true → Q c) (hr : allCls P r = true) :
    ∀ c ∈ consumed s t, Q c := by
  obtain ⟨w, rfl, hw⟩ := h.all_of_allCls hPQ hr
  rw [consumed_append]; exact hw

/-- a pattern without anchors does not look at its context: the word it read is matched
in any other context -/
theorem Match.recontext_aux {n r s t} (h : Match n r s t) (hr : anchorFree r = true) :
    ∃ w, s = w ++ t ∧ ∀ m t', Match m r (w ++ t') t' := by
  induction h with
  | eps s => exact ⟨[], rfl, fun m t' => Match.eps t'⟩
  | cls C c s hc => exact ⟨[c], rfl, fun m t' => Match.cls C c t' hc⟩
  | seq _ _ ih1 ih2 =>
    simp only [anchorFree, Bool.and_eq_true] at hr
    obtain ⟨w1, rfl, q1⟩ := ih1 hr.1
    obtain ⟨w2, rfl, q2⟩ := ih2 hr.2
    refine ⟨w1 ++ w2, by simp, fun m t' => ?_⟩
    have := Match.seq (q1 m (w2 ++ t')) (q2 m t')
    simpa using this
  | altL _ ih =>
    simp only [anchorFree, Bool.and_eq_true] at hr
    obtain ⟨w, rfl, q⟩ := ih hr.1
    exact ⟨w, rfl, fun m t' => Match.altL (q m t')⟩
  | altR _ ih =>
    simp only [anchorFree, Bool.and_eq_true] at hr
    obtain ⟨w, rfl, q⟩ := ih hr.2
    exact ⟨w, rfl, fun m t' => Match.altR (q m t')⟩
  | repStop s => exact ⟨[], rfl, fun m t' => Match.repStop t'⟩
  | repStep hhi _ _ ih1 ih2 =>
    simp only [anchorFree] at hr
    obtain ⟨w1, rfl, q1⟩ := ih1 hr
    obtain ⟨w2, rfl, q2⟩ := ih2 (by simpa [anchorFree] using hr)
    refine ⟨w1 ++ w2, by simp, fun m t' => ?_⟩
    have := Match.repStep hhi (q1 m (w2 ++ t')) (q2 m t')
    simpa using this
  | bos s _ => simp [anchorFree] at hr
  | eosEnd => simp [anchorFree] at hr
  | eosNl => simp [anchorFree] at hr

theorem Match.recontext {n r s t} (h : Match n r s t) (hr : anchorFree r = true) (m : Nat)
    (t' : List Char) : Match m r (consumed s t ++ t') t' := by
  obtain ⟨w, rfl, hw⟩ := h.recontext_aux hr
  rw [consumed_append]; exact hw m t'

/-- the word read by a match of an anchor-free pattern is in its language -/
theorem Match.lang_consumed {n r s t} (h : Match n r s t) (hr : anchorFree r = true) :
    Lang r (consumed s t) := by
  have := h.recontext hr (consumed s t).length []
  simpa [Lang] using this

/-! ## the same at the level of `Lang` (full matches) -/

/-- `Lang (seq p b) ⊆ Lang (seq (opt p) b)` -/
theorem lang_seq_opt {p b : Re} {w : List Char} (h : Lang (.seq p b) w) : Lang (.seq (opt p) b) w :=
  Match.seq_opt h

/-- class inclusion ⇒ language inclusion -/
theorem lang_mono {r r' : Re} (hs : sub r r' = true) {w : List Char} (h : Lang r w) : Lang r' w :=
  Match.mono h hs

/-- if every class of `r` only contains characters satisfying `Q`, so does every word of
`Lang r` ("no class contains whitespace ⇒ no word of the language does") -/
theorem lang_all_of_allCls {r : Re} {P : CharClass → Bool} {Q : Char → Prop}
    (hPQ : ∀ C c, P C = true → C.mem c = true → Q c) (hr : allCls P r = true) {w : List Char}
    (h : Lang r w) : ∀ c ∈ w, Q c := by
  obtain ⟨w', hw, hq⟩ := Match.all_of_allCls h hPQ hr
  simp only [List.append_nil] at hw
  subst hw
  exact hq

/-- for an anchor-free pattern, what `Match` reads anywhere is a word of the language, and a
word of the language is matched in any context -/
theorem lang_iff_match_anywhere {r : Re} (hr : anchorFree r = true) {w : List Char} :
    Lang r w ↔ ∀ n t, Match n r (w ++ t) t := by
  constructor
  · intro h n t
    have := Match.recontext h hr n t
    simpa [consumed] using this
  · intro h
    have := h w.length []
    simpa [Lang] using this

/-! ## sequences as flat lists -/

theorem matchL_append {n a b s u} :
    MatchL n (a ++ b) s u ↔ ∃ t, MatchL n a s t ∧ MatchL n b t u := by
  induction a generalizing s with
  | nil =>
    constructor
    · intro h; exact ⟨s, MatchL.nil s, h⟩
    · intro ⟨t, h1, h2⟩; cases h1; exact h2
  | cons r rs ih =>
    constructor
    · intro h
      cases h with
      | cons h1 h2 =>
        obtain ⟨t, h3, h4⟩ := ih.mp h2
        exact ⟨t, MatchL.cons h1 h3, h4⟩
    · intro ⟨t, h1, h2⟩
      cases h1 with
      | cons h3 h4 => exact MatchL.cons h3 (ih.mpr ⟨t, h4, h2⟩)

theorem matchL_singleton {n r s t} : MatchL n [r] s t ↔ Match n r s t := by
  constructor
  · intro h
    cases h with
    | cons h1 h2 => cases h2; exact h1
  · intro h; exact MatchL.cons h (MatchL.nil t)

theorem matchL_cons {n r rs s u} :
    MatchL n (r :: rs) s u ↔ ∃ t, Match n r s t ∧ MatchL n rs t u := by
  constructor
  · intro h
    cases h with
    | cons h1 h2 => exact ⟨_, h1, h2⟩
  · intro ⟨t, h1, h2⟩; exact MatchL.cons h1 h2

/-- a regex and its flattened top-level sequence match the same -/
theorem match_iff_spine {n r} : ∀ {s t}, Match n r s t ↔ MatchL n (spine r) s t := by
  induction r with
  | seq p q ihp ihq =>
    intro s t
    simp only [spine, matchL_append]
    constructor
    · intro h
      cases h with
      | seq h1 h2 => exact ⟨_, ihp.mp h1, ihq.mp h2⟩
    · intro ⟨m, h1, h2⟩
      exact Match.seq (ihp.mpr h1) (ihq.mpr h2)
  | eps =>
    intro s t
    simp only [spine]
    constructor
    · intro h; cases h; exact MatchL.nil _
    · intro h; cases h; exact Match.eps _
  | empty => intro s t; simp only [spine]; exact matchL_singleton.symm
  | cls C => intro s t; simp only [spine]; exact matchL_singleton.symm
  | alt p q _ _ => intro s t; simp only [spine]; exact matchL_singleton.symm
  | rep p lo hi g _ => intro s t; simp only [spine]; exact matchL_singleton.symm
  | bos => intro s t; simp only [spine]; exact matchL_singleton.symm
  | eos => intro s t; simp only [spine]; exact matchL_singleton.symm

theorem matchL_ofList {n rs} : ∀ {s t}, Match n (ofList rs) s t ↔ MatchL n rs s t := by
  induction rs with
  | nil =>
    intro s t
    constructor
    · intro h; cases h; exact MatchL.nil _
    · intro h; cases h; exact Match.eps _
  | cons r rs ih =>
    intro s t
    cases rs with
    | nil => simp only [ofList]; exact matchL_singleton.symm
    | cons r' rs' =>
      simp only [ofList]
      constructor
      · intro h
        cases h with
        | seq h1 h2 => exact MatchL.cons h1 (ih.mp h2)
      · intro h
        cases h with
        | cons h1 h2 => exact Match.seq h1 (ih.mpr h2)

/-- two regexes with the same spine match the same -/
theorem match_congr_spine {n r r'} (h : spine r = spine r') {s t} :
    Match n r s t ↔ Match n r' s t := by
  rw [match_iff_spine, match_iff_spine, h]

/-! ## the `finditer` scanner -/

/-- `Chain n r s ms`: the matches `ms` (pairs remaining-at-start / remaining-at-end) are
genuine matches of `r`, lie inside `s`, one after the other without overlap -/
inductive Chain (n : Nat) (r : Re) : List Char → List (List Char × List Char) → Prop
  | nil (s) : Chain n r s []
  | cons {s s' t' ms} : s' <:+ s → Match n r s' t' → Chain n r t' ms → Chain n r s ((s', t') :: ms)

theorem Chain.weaken {n r s s' ms} (h : Chain n r s' ms) (hs : s' <:+ s) : Chain n r s ms := by
  cases h with
  | nil => exact Chain.nil s
  | cons h1 h2 h3 => exact Chain.cons (h1.trans hs) h2 h3

theorem firstEnd_sound {n r s adv t} (h : firstEnd n r s adv = some t) : Match n r s t := by
  simp only [firstEnd] at h
  exact matchEnds_sound (List.mem_of_find?_eq_some h)

theorem scanAux_chain (n : Nat) (r : Re) :
    ∀ fuel s adv, Chain n r s (scanAux n r fuel s adv) := by
  intro fuel
  induction fuel with
  | zero => intro s adv; exact Chain.nil s
  | succ fuel ih =>
    intro s adv
    simp only [scanAux]
    split
    · rename_i t ht
      have hm := firstEnd_sound ht
      split
      · exact Chain.cons (List.suffix_refl s) hm (ih t false)
      · rename_i hlt
        have hsuf := hm.isSuffix
        have hlen : t.length = s.length := by
          have := hm.length_le; omega
        have : t = s := hsuf.eq_of_length hlen
        subst this
        exact Chain.cons (List.suffix_refl _) hm (ih _ true)
    · split
      · exact Chain.nil _
      · rename_i c s' _
        exact (ih s' false).weaken (List.suffix_cons c s')

/-- every match reported by the scanner is a genuine match of `r` in `text`, and the matches
lie one after the other -/
theorem scan_chain (r : Re) (text : List Char) : Chain text.length r text (scan r text) :=
  scanAux_chain _ _ _ _ _

/-! ### the fuel of the scanner is sufficient

`scanAux` recurses on a fuel counter; `scan` starts it with `2 * length + 2`.  The measure
`2 * |s| + (if mustAdvance then 0 else 1)` strictly decreases at every step (a non-empty match
or a skipped character shortens `s`; an empty match keeps `s` but sets `mustAdvance`, after
which only a shorter remainder is accepted), so the scanner never stops because the fuel ran
out: any larger fuel gives the same list. -/

theorem firstEnd_advance {n r s t} (h : firstEnd n r s true = some t) : t.length < s.length := by
  simp only [firstEnd] at h
  have := List.find?_some h
  simpa using this

/-- with more fuel than the measure, the amount of fuel is irrelevant -/
theorem scanAux_fuel (n : Nat) (r : Re) :
    ∀ fuel fuel' s adv, 2 * s.length + (if adv = true then 0 else 1) < fuel →
      2 * s.length + (if adv = true then 0 else 1) < fuel' →
      scanAux n r fuel s adv = scanAux n r fuel' s adv := by
  intro fuel
  induction fuel with
  | zero => intro fuel' s adv h; omega
  | succ fuel ih =>
    intro fuel' s adv h h'
    cases fuel' with
    | zero => omega
    | succ fuel' =>
      simp only [scanAux]
      cases hf : firstEnd n r s adv with
      | some t =>
        simp only []
        have hle : t.length ≤ s.length := (firstEnd_sound hf).length_le
        by_cases hlt : t.length < s.length
        · rw [if_pos hlt, if_pos hlt]
          congr 1
          apply ih <;> simp <;> split at h <;> split at h' <;> omega
        · rw [if_neg hlt, if_neg hlt]
          have hadv : adv = false := by
            cases adv with
            | false => rfl
            | true => exact absurd (firstEnd_advance hf) hlt
          subst hadv
          congr 1
          apply ih <;> simp at h h' ⊢ <;> omega
      | none =>
        simp only []
        cases s with
        | nil => rfl
        | cons c s' =>
          simp only []
          apply ih <;> simp at h h' ⊢ <;> split at h <;> split at h' <;> omega

/-- **fuel sufficiency of `scan`**: running the scanner with any amount of extra fuel yields
the same matches — the bound `2 * length + 2` is never what ends the scan -/
theorem scan_fuel_sufficient (r : Re) (text : List Char) (extra : Nat) :
    scanAux text.length r (2 * text.length + 2 + extra) text false = scan r text := by
  unfold scan
  apply scanAux_fuel <;> simp <;> omega

/-- `ys` occur in `s` as disjoint substrings, in this order -/
inductive InOrder : List (List Char) → List Char → Prop
  | nil (s) : InOrder [] s
  | cons {y ys s} (a b : List Char) : s = a ++ y ++ b → InOrder ys b → InOrder (y :: ys) s

theorem InOrder.prepend {ys s} (h : InOrder ys s) (a : List Char) : InOrder ys (a ++ s) := by
  cases h with
  | nil => exact InOrder.nil _
  | cons a' b hs h' => exact InOrder.cons (a ++ a') b (by simp [hs]) h'

theorem InOrder.extend {ys s} (h : InOrder ys s) (b : List Char) : InOrder ys (s ++ b) := by
  induction h with
  | nil => exact InOrder.nil _
  | cons a' b' hs _ ih => exact InOrder.cons a' (b' ++ b) (by simp [hs]) ih

theorem InOrder.append {xs ys s t} (h1 : InOrder xs s) (h2 : InOrder ys t) :
    InOrder (xs ++ ys) (s ++ t) := by
  induction h1 with
  | nil s => exact h2.prepend s
  | cons a b hs _ ih => exact InOrder.cons a (b ++ t) (by simp [hs]) ih

theorem InOrder.mem_substring {ys s} (h : InOrder ys s) : ∀ y ∈ ys, ∃ a b, s = a ++ y ++ b := by
  induction h with
  | nil => intro y hy; simp at hy
  | cons a b hs _ ih =>
    intro y' hy
    rw [List.mem_cons] at hy
    rcases hy with rfl | hy
    · exact ⟨a, b, hs⟩
    · obtain ⟨a', b', hb⟩ := ih y' hy
      rename_i y0 _ _ _
      exact ⟨a ++ y0 ++ a', b', by simp [hs, hb]⟩

/-- the words of a chain, each replaced by things found in order inside it, are in order in
the text -/
theorem Chain.inOrder {n r s ms} (h : Chain n r s ms) (f : List Char × List Char → List (List Char))
    (hf : ∀ st ∈ ms, Match n r st.1 st.2 → InOrder (f st) (consumed st.1 st.2)) :
    InOrder (ms.flatMap f) s := by
  induction h with
  | nil s => exact InOrder.nil s
  | cons hsuf hm _ ih =>
    rename_i s s' t' ms _
    obtain ⟨a, rfl⟩ := hsuf
    have h1 := hf (s', t') (List.mem_cons_self) hm
    have h2 := ih (fun st hst => hf st (List.mem_cons_of_mem _ hst))
    have hs' := hm.eq_consumed
    simp only [List.flatMap_cons]
    have := (h1.append h2).prepend a
    rw [← hs'] at this
    exact this

end Re
end Ural.Py
