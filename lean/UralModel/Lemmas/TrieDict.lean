import UralModel.Model.TrieDict
/-!
Helper lemmas about the `TrieDict` model (the property theorems are in `Props/C10.lean`,
`Props/C09.lean`, `Props/C11.lean`).
-/
set_option linter.unusedSectionVars false
set_option linter.unusedSimpArgs false

namespace Ural
namespace TNode
variable {τ α : Type} [DecidableEq τ]

/-! ### get -/

@[simp] theorem walk_nil (t : TNode τ α) : t.walk [] = some t := by
  cases t; rfl

theorem get_nil (t : TNode τ α) : t.get [] = t.value := by
  simp [get]

theorem get_cons (val : Option α) (c : Nat) (ks : List (τ × TNode τ α)) (tok : τ) (rest : List τ) :
    (TNode.mk val c ks).get (tok :: rest) =
      match child ks tok with
      | some n => n.get rest
      | none => none := by
  simp only [get, walk]
  cases child ks tok <;> rfl

@[simp] theorem get_empty (q : List τ) : (empty : TNode τ α).get q = none := by
  cases q <;> simp [empty, get, walk, value]

theorem get_ins (inc : Bool) (t : TNode τ α) (k q : List τ) (v : α) :
    (ins inc t k v).get q = if q = k then some v else t.get q := by
  induction k generalizing t q with
  | nil =>
    obtain ⟨val, c, ks⟩ := t
    cases q with
    | nil => simp [ins, get_nil, value]
    | cons u us => simp [ins, get_cons]
  | cons a as ih =>
    obtain ⟨val, c, ks⟩ := t
    cases q with
    | nil => simp [ins, get_nil, value]
    | cons u us =>
      simp only [ins, get_cons, child_setChild]
      by_cases h : u = a
      · subst h
        simp only [if_true, ih]
        cases hc : child ks u <;> simp
      · simp [h]

/-! ### counting valued nodes -/

mutual
/-- number of valued nodes in the subtree, the node itself included -/
def count : TNode τ α → Nat
  | .mk val _ ks => (if val.isSome then 1 else 0) + countKids ks
def countKids : List (τ × TNode τ α) → Nat
  | [] => 0
  | (_, c) :: rest => count c + countKids rest
end

mutual
/-- the representation invariant: every counter is the number of valued nodes strictly
below its node, and the keys of every children table are pairwise distinct -/
def Wf : TNode τ α → Prop
  | .mk _ c ks => c = countKids ks ∧ (keys ks).Nodup ∧ WfKids ks
def WfKids : List (τ × TNode τ α) → Prop
  | [] => True
  | (_, c) :: rest => Wf c ∧ WfKids rest
end

@[simp] theorem count_empty : count (empty : TNode τ α) = 0 := by
  simp [empty, count, countKids]

theorem wf_empty : Wf (empty : TNode τ α) := by
  simp [empty, Wf, countKids, WfKids, keys]

theorem wfKids_child {ks : List (τ × TNode τ α)} (h : WfKids ks) {tok : τ} {c : TNode τ α}
    (hc : child ks tok = some c) : Wf c := by
  induction ks with
  | nil => simp at hc
  | cons hd tl ih =>
    obtain ⟨k, n⟩ := hd
    simp only [WfKids] at h
    simp only [child] at hc
    split at hc
    · cases hc; exact h.1
    · exact ih h.2 hc

theorem wfKids_setChild {ks : List (τ × TNode τ α)} (h : WfKids ks) (tok : τ) {n : TNode τ α}
    (hn : Wf n) : WfKids (setChild ks tok n) := by
  induction ks with
  | nil => simp [setChild, WfKids, hn]
  | cons hd tl ih =>
    obtain ⟨k, c⟩ := hd
    simp only [WfKids] at h
    simp only [setChild]
    split
    · simp [WfKids, hn, h.2]
    · simp [WfKids, h.1, ih h.2]

/-- replacing a child changes the count by the difference of the two subtrees -/
theorem countKids_setChild (ks : List (τ × TNode τ α)) (tok : τ) (n : TNode τ α) :
    countKids (setChild ks tok n) + count ((child ks tok).getD empty)
      = countKids ks + count n := by
  induction ks with
  | nil => simp [setChild, countKids]
  | cons hd tl ih =>
    obtain ⟨k, c⟩ := hd
    by_cases hk : k = tok
    · simp only [setChild, child, hk, if_true, countKids, Option.getD_some]; omega
    · simp only [setChild, child, hk, if_false, countKids]; omega

theorem count_ins (inc : Bool) (t : TNode τ α) (k : List τ) (v : α) :
    count (ins inc t k v) = count t + (if (t.get k).isNone then 1 else 0) := by
  induction k generalizing t with
  | nil =>
    obtain ⟨val, c, ks⟩ := t
    cases val <;> simp [ins, count, get_nil, value]
    omega
  | cons a as ih =>
    obtain ⟨val, c, ks⟩ := t
    simp only [ins, count, get_cons]
    have h1 := countKids_setChild ks a (ins inc ((child ks a).getD empty) as v)
    rw [ih] at h1
    cases hc : child ks a with
    | none => simp [hc] at h1 ⊢; omega
    | some n => simp [hc] at h1 ⊢; omega

theorem wf_ins (t : TNode τ α) (k : List τ) (v : α) (h : Wf t) :
    Wf (ins (t.get k).isNone t k v) := by
  induction k generalizing t with
  | nil =>
    obtain ⟨val, c, ks⟩ := t
    simpa [ins, Wf] using h
  | cons a as ih =>
    obtain ⟨val, c, ks⟩ := t
    simp only [Wf] at h
    obtain ⟨hc, hnd, hk⟩ := h
    have hsub : Wf ((child ks a).getD empty) := by
      cases hch : child ks a with
      | none => exact wf_empty
      | some n => exact wfKids_child hk hch
    have hget : (TNode.mk val c ks).get (a :: as)
        = ((child ks a).getD empty).get as := by
      rw [get_cons]; cases child ks a <;> simp
    have h1 := countKids_setChild ks a
      (ins (((child ks a).getD empty).get as).isNone
        ((child ks a).getD empty) as v)
    rw [count_ins] at h1
    simp only [ins, Wf, hget]
    generalize ((child ks a).getD empty) = sub at hsub h1 ⊢
    refine ⟨?_, nodup_keys_setChild _ _ _ hnd, wfKids_setChild hk a (ih _ hsub)⟩
    cases hb : (sub.get as).isNone <;> simp only [hb] at h1 ⊢ <;> simp at h1 ⊢ <;> omega

/-! ### items -/

mutual
theorem items_length (t : TNode τ α) : (items t).length = count t := by
  match t with
  | .mk val c ks =>
    simp only [items, count, List.length_append, itemsKids_length ks]
    cases val <;> simp
theorem itemsKids_length (ks : List (τ × TNode τ α)) : (itemsKids ks).length = countKids ks := by
  match ks with
  | [] => simp [itemsKids, countKids]
  | (tok, c) :: rest =>
    simp [itemsKids, countKids, items_length c, itemsKids_length rest]
end

theorem mem_items_mk (val : Option α) (c : Nat) (ks : List (τ × TNode τ α)) (q : List τ) (v : α) :
    (q, v) ∈ items (TNode.mk val c ks) ↔ (q = [] ∧ val = some v) ∨ (q, v) ∈ itemsKids ks := by
  simp only [items, List.mem_append, List.mem_map, Option.mem_toList, Prod.mk.injEq]
  constructor
  · rintro (⟨a, ha, hq, hv⟩ | h)
    · left; exact ⟨hq.symm, by rw [ha, hv]⟩
    · right; exact h
  · rintro (⟨hq, hv⟩ | h)
    · left; exact ⟨v, hv, hq.symm, rfl⟩
    · right; exact h

mutual
theorem mem_items (t : TNode τ α) (h : Wf t) (q : List τ) (v : α) :
    (q, v) ∈ items t ↔ t.get q = some v := by
  match t with
  | .mk val c ks =>
    simp only [Wf] at h
    have hk := mem_itemsKids ks h.2.1 h.2.2 q v
    rw [mem_items_mk, hk]
    cases q with
    | nil => simp [get_nil, value]
    | cons tok rest =>
      rw [get_cons]
      cases hn : child ks tok with
      | none =>
        simp only [reduceCtorEq, false_and, false_or, iff_false, not_exists, not_and]
        intro tok1 rest1 hq n' hn'
        simp only [List.cons.injEq] at hq
        rw [← hq.1, hn] at hn'; cases hn'
      | some n =>
        simp only [reduceCtorEq, false_and, false_or]
        constructor
        · rintro ⟨tok1, rest1, hq, n', hn', hg⟩
          simp only [List.cons.injEq] at hq
          rw [← hq.1, hn] at hn'; cases hn'
          rw [hq.2]; exact hg
        · intro hg; exact ⟨tok, rest, rfl, n, hn, hg⟩
theorem mem_itemsKids (ks : List (τ × TNode τ α)) (hnd : (keys ks).Nodup) (h : WfKids ks)
    (q : List τ) (v : α) :
    (q, v) ∈ itemsKids ks ↔
      ∃ tok rest, q = tok :: rest ∧ ∃ n, child ks tok = some n ∧ n.get rest = some v := by
  match ks with
  | [] => simp [itemsKids]
  | (k, c) :: tl =>
    simp only [WfKids] at h
    simp only [keys, List.map_cons, List.nodup_cons] at hnd
    simp only [itemsKids, List.mem_append, List.mem_map]
    constructor
    · rintro (⟨pv, hpv, heq⟩ | hm)
      · obtain ⟨p, w⟩ := pv
        simp only [Prod.mk.injEq] at heq
        refine ⟨k, p, heq.1.symm, c, by simp [child], ?_⟩
        rw [← heq.2]
        exact (mem_items c h.1 p w).1 hpv
      · obtain ⟨tok, rest, hq, n, hn, hg⟩ := (mem_itemsKids tl hnd.2 h.2 q v).1 hm
        refine ⟨tok, rest, hq, n, ?_, hg⟩
        simp only [child]
        split
        · rename_i hk
          subst hk
          exact absurd (child_some_mem_keys hn) hnd.1
        · exact hn
    · rintro ⟨tok, rest, hq, n, hn, hg⟩
      subst hq
      simp only [child] at hn
      split at hn
      · rename_i hk
        cases hn
        left
        exact ⟨(rest, v), (mem_items _ h.1 rest v).2 hg, by simp [hk]⟩
      · right
        exact (mem_itemsKids tl hnd.2 h.2 _ v).2 ⟨tok, rest, rfl, n, hn, hg⟩
end

mutual
theorem nodup_items_keys (t : TNode τ α) (h : Wf t) : ((items t).map Prod.fst).Nodup := by
  match t with
  | .mk val c ks =>
    simp only [Wf] at h
    simp only [items, List.map_append]
    rw [List.nodup_append]
    refine ⟨by cases val <;> simp, nodup_itemsKids_keys ks h.2.1 h.2.2, ?_⟩
    intro a ha b hb
    have hb' : ∃ tok rest, b = tok :: rest := by
      simp only [List.mem_map] at hb
      obtain ⟨⟨p, w⟩, hm, rfl⟩ := hb
      obtain ⟨tok, rest, hq, _⟩ := (mem_itemsKids ks h.2.1 h.2.2 p w).1 hm
      exact ⟨tok, rest, hq⟩
    obtain ⟨tok, rest, rfl⟩ := hb'
    cases val <;> simp at ha
    subst ha; simp
theorem nodup_itemsKids_keys (ks : List (τ × TNode τ α)) (hnd : (keys ks).Nodup) (h : WfKids ks) :
    ((itemsKids ks).map Prod.fst).Nodup := by
  match ks with
  | [] => simp [itemsKids]
  | (k, c) :: tl =>
    simp only [WfKids] at h
    simp only [keys, List.map_cons, List.nodup_cons] at hnd
    simp only [itemsKids, List.map_append, List.map_map]
    rw [List.nodup_append]
    refine ⟨?_, nodup_itemsKids_keys tl hnd.2 h.2, ?_⟩
    · have := nodup_items_keys c h.1
      have hinj : ((items c).map (Prod.fst ∘ fun pv => (k :: pv.1, pv.2)))
          = ((items c).map Prod.fst).map (fun p => k :: p) := by
        simp [List.map_map, Function.comp_def]
      rw [hinj]
      exact nodup_map_of_injective _ (fun a b hab => by simpa using hab) this
    · intro a ha b hb
      simp only [List.mem_map, Function.comp] at ha hb
      obtain ⟨⟨p, w⟩, _, rfl⟩ := ha
      obtain ⟨⟨p', w'⟩, hm', rfl⟩ := hb
      obtain ⟨tok, rest, hq, n, hn, _⟩ := (mem_itemsKids tl hnd.2 h.2 p' w').1 hm'
      simp only at hq ⊢
      subst hq
      intro heq
      simp only [List.cons.injEq] at heq
      exact hnd.1 (heq.1 ▸ child_some_mem_keys hn)
end

/-! ### the explicit-stack generators `items()` / `prefixes()` / `values()` -/

/-- number of nodes on a stack -/
def stackSize : List (TNode τ α × List τ) → Nat
  | [] => 0
  | np :: rest => size np.1 + stackSize rest

theorem stackSize_append (a b : List (TNode τ α × List τ)) :
    stackSize (a ++ b) = stackSize a + stackSize b := by
  induction a with
  | nil => simp [stackSize]
  | cons x xs ih => simp [stackSize, ih]; omega

theorem stackSize_reverse (a : List (TNode τ α × List τ)) :
    stackSize a.reverse = stackSize a := by
  induction a with
  | nil => rfl
  | cons x xs ih => simp [stackSize_append, stackSize, ih]; omega

theorem stackSize_kids (ks : List (τ × TNode τ α)) (pre : List τ) :
    stackSize (ks.map fun tc => (tc.2, pre ++ [tc.1])) = sizeKids ks := by
  induction ks with
  | nil => rfl
  | cons x xs ih => obtain ⟨tok, c⟩ := x; simp [stackSize, sizeKids, ih]

/-- what one stack entry (node, prefix of the node) contributes: the listing of the node with
the prefix put in front of every key -/
def entryItems (np : TNode τ α × List τ) : List (List τ × α) :=
  (items np.1).map fun kv => (np.2 ++ kv.1, kv.2)

theorem flatMap_entryItems_kids (ks : List (τ × TNode τ α)) (pre : List τ) :
    (ks.map fun tc => (tc.2, pre ++ [tc.1])).flatMap entryItems
      = (itemsKids ks).map fun kv => (pre ++ kv.1, kv.2) := by
  induction ks with
  | nil => simp [itemsKids]
  | cons x xs ih =>
    obtain ⟨tok, c⟩ := x
    simp only [List.map_cons, List.flatMap_cons, ih, itemsKids, List.map_append, List.map_map]
    congr 1
    simp [entryItems, Function.comp_def]

/-- the loop of `items()`, run with enough fuel, yields a permutation of the listings of the
nodes on its stack -/
theorem itemsLoop_perm (fuel : Nat) (stack : List (TNode τ α × List τ))
    (h : stackSize stack ≤ fuel) :
    (itemsLoop fuel stack).Perm (stack.flatMap entryItems) := by
  induction fuel generalizing stack with
  | zero =>
    cases stack with
    | nil => simp [itemsLoop]
    | cons np rest =>
      obtain ⟨⟨val, c, ks⟩, pre⟩ := np
      simp [stackSize, size] at h
  | succ fuel ih =>
    cases stack with
    | nil => simp [itemsLoop]
    | cons np rest =>
      obtain ⟨⟨val, c, ks⟩, pre⟩ := np
      simp only [stackSize, size] at h
      have hsz : stackSize ((ks.map fun tc => (tc.2, pre ++ [tc.1])).reverse ++ rest) ≤ fuel := by
        rw [stackSize_append, stackSize_reverse, stackSize_kids]; omega
      have h1 := ih _ hsz
      simp only [itemsLoop, List.flatMap_cons]
      have h2 : (((ks.map fun tc => (tc.2, pre ++ [tc.1])).reverse ++ rest).flatMap entryItems).Perm
          (((itemsKids ks).map fun kv => (pre ++ kv.1, kv.2)) ++ rest.flatMap entryItems) := by
        rw [List.flatMap_append, ← flatMap_entryItems_kids]
        exact List.Perm.append_right _ ((List.reverse_perm _).flatMap_right _)
      have h3 : entryItems (TNode.mk val c ks, pre)
          = val.toList.map (fun v => (pre, v)) ++ (itemsKids ks).map fun kv => (pre ++ kv.1, kv.2) := by
        simp [entryItems, items, Function.comp_def]
      rw [h3, List.append_assoc]
      exact List.Perm.append_left _ (h1.trans h2)

/-- **`items()`** (the stack generator) yields a permutation of the specification listing -/
theorem itemsIter_perm (t : TNode τ α) : t.itemsIter.Perm t.items := by
  have h := itemsLoop_perm t.size [(t, [])] (by simp [stackSize])
  simpa [itemsIter, entryItems] using h

/-- the loop of `prefixes()` yields the first components of what the loop of `items()` yields,
in the same order -/
theorem prefixesLoop_eq (fuel : Nat) (stack : List (TNode τ α × List τ)) :
    prefixesLoop fuel stack = (itemsLoop fuel stack).map Prod.fst := by
  induction fuel generalizing stack with
  | zero => simp [prefixesLoop, itemsLoop]
  | succ fuel ih =>
    cases stack with
    | nil => simp [prefixesLoop, itemsLoop]
    | cons np rest =>
      obtain ⟨⟨val, c, ks⟩, pre⟩ := np
      simp [prefixesLoop, itemsLoop, ih, Function.comp_def]

/-- the loop of `values()` (a stack of bare nodes) yields the second components of what the
loop of `items()` yields, in the same order -/
theorem valuesLoop_eq (fuel : Nat) (stack : List (TNode τ α × List τ)) :
    valuesLoop fuel (stack.map Prod.fst) = (itemsLoop fuel stack).map Prod.snd := by
  induction fuel generalizing stack with
  | zero => simp [valuesLoop, itemsLoop]
  | succ fuel ih =>
    cases stack with
    | nil => simp [valuesLoop, itemsLoop]
    | cons np rest =>
      obtain ⟨⟨val, c, ks⟩, pre⟩ := np
      have hst : (ks.map Prod.snd).reverse ++ rest.map Prod.fst
          = (((ks.map fun tc => (tc.2, pre ++ [tc.1])).reverse ++ rest).map Prod.fst) := by
        simp [List.map_reverse, Function.comp_def]
      simp only [List.map_cons, valuesLoop, itemsLoop]
      rw [hst, ih, List.map_append, List.map_map]
      congr 1
      cases val <;> simp

theorem prefixes_eq (t : TNode τ α) : t.prefixes = t.itemsIter.map Prod.fst :=
  prefixesLoop_eq _ _

theorem values_eq (t : TNode τ α) : t.values = t.itemsIter.map Prod.snd :=
  valuesLoop_eq t.size [(t, [])]

/-- **`prefixes()`** yields a permutation of the keys of the listing -/
theorem prefixes_perm (t : TNode τ α) : t.prefixes.Perm (t.items.map Prod.fst) := by
  rw [prefixes_eq]; exact (itemsIter_perm t).map _

/-- **`values()`** yields a permutation of the values of the listing -/
theorem values_perm (t : TNode τ α) : t.values.Perm (t.items.map Prod.snd) := by
  rw [values_eq]; exact (itemsIter_perm t).map _

theorem mem_prefixes (t : TNode τ α) (p : List τ) :
    p ∈ t.prefixes ↔ p ∈ t.items.map Prod.fst := (prefixes_perm t).mem_iff

theorem nodup_prefixes (t : TNode τ α) (h : Wf t) : t.prefixes.Nodup :=
  (prefixes_perm t).nodup_iff.2 (nodup_items_keys t h)

/-! ### association lists with distinct keys as sets of pairs -/

theorem nodup_of_nodup_keys {κ β : Type} {m : List (κ × β)} (h : (m.map Prod.fst).Nodup) :
    m.Nodup := by
  rw [List.nodup_iff_pairwise_ne] at h ⊢
  rw [List.pairwise_map] at h
  exact List.Pairwise.imp (fun hab e => hab (by rw [e])) h

/-- in a dictionary (distinct keys) the pairs are the graph of the lookup -/
theorem mem_iff_child {κ β : Type} [DecidableEq κ] (m : List (κ × β)) (h : (keys m).Nodup)
    (k : κ) (v : β) : (k, v) ∈ m ↔ child m k = some v := by
  induction m with
  | nil => simp
  | cons hd tl ih =>
    obtain ⟨k', v'⟩ := hd
    simp only [keys, List.map_cons, List.nodup_cons] at h
    simp only [List.mem_cons, Prod.mk.injEq, child]
    by_cases hk : k' = k
    · subst hk
      simp only [if_true, Option.some.injEq, true_and]
      constructor
      · rintro (h1 | h1)
        · exact h1.symm
        · exact absurd (List.mem_map.2 ⟨(k', v), h1, rfl⟩) h.1
      · intro h1; exact Or.inl h1.symm
    · simp only [hk, if_false]
      rw [← ih h.2]
      constructor
      · rintro (h1 | h1)
        · exact absurd h1.1.symm hk
        · exact h1
      · intro h1; exact Or.inr h1

/-! ### longest matching prefix -/

/-- "value of the longest prefix of `q` on which `g` is defined", for a lookup function `g` -/
def lmpvSpec (g : List τ → Option α) : List τ → Option α
  | [] => g []
  | tok :: rest =>
    (lmpvSpec (fun p => g (tok :: p)) rest).or (g [])

theorem lmpvSpec_none (q : List τ) : lmpvSpec (fun _ => (none : Option α)) q = none := by
  induction q with
  | nil => rfl
  | cons a as ih => simp [lmpvSpec, ih]

theorem lmpvAux_eq (t : TNode τ α) (q : List τ) (last : Option α) :
    lmpvAux t q last = (lmpvSpec t.get q).or last := by
  induction q generalizing t last with
  | nil =>
    obtain ⟨val, c, ks⟩ := t
    simp only [lmpvAux, lmpvSpec, get_nil, value]
  | cons a as ih =>
    obtain ⟨val, c, ks⟩ := t
    simp only [lmpvAux, lmpvSpec, get_nil, value]
    cases hc : child ks a with
    | none =>
      have : (fun p => (TNode.mk val c ks).get (a :: p)) = fun _ => none := by
        funext p; simp [get_cons, hc]
      simp [this, lmpvSpec_none]
    | some n =>
      have : (fun p => (TNode.mk val c ks).get (a :: p)) = n.get := by
        funext p; simp [get_cons, hc]
      simp [this, ih, Option.or_assoc]

theorem prefix_cons_iff {a : τ} {as p : List τ} :
    p <+: a :: as ↔ p = [] ∨ ∃ p', p = a :: p' ∧ p' <+: as := by
  cases p with
  | nil => simp
  | cons b bs =>
    simp only [List.cons_prefix_cons, reduceCtorEq, List.cons.injEq, false_or]
    constructor
    · rintro ⟨rfl, h⟩; exact ⟨bs, ⟨rfl, rfl⟩, h⟩
    · rintro ⟨p', ⟨rfl, rfl⟩, h⟩; exact ⟨rfl, h⟩

theorem lmpvSpec_eq_none (g : List τ → Option α) (q : List τ) :
    lmpvSpec g q = none ↔ ∀ p, p <+: q → g p = none := by
  induction q generalizing g with
  | nil => simp [lmpvSpec]
  | cons a as ih =>
    simp only [lmpvSpec, Option.or_eq_none_iff, ih, prefix_cons_iff]
    constructor
    · rintro ⟨h1, h2⟩ p (rfl | ⟨p', rfl, hp'⟩)
      · exact h2
      · exact h1 p' hp'
    · intro h
      exact ⟨fun p hp => h _ (Or.inr ⟨p, rfl, hp⟩), h [] (Or.inl rfl)⟩

/-- relational reading of `lmpvSpec`: the answer is `g p` for the longest prefix `p` of `q`
with `g p ≠ none` -/
theorem lmpvSpec_some (g : List τ → Option α) (q : List τ) (v : α) :
    lmpvSpec g q = some v ↔
      ∃ p, p <+: q ∧ g p = some v ∧ ∀ p', p' <+: q → p.length < p'.length → g p' = none := by
  induction q generalizing g v with
  | nil =>
    simp only [lmpvSpec, List.prefix_nil]
    constructor
    · intro h; exact ⟨[], rfl, h, by intro p' hp' hl; subst hp'; simp at hl⟩
    · rintro ⟨p, rfl, h, _⟩; exact h
  | cons a as ih =>
    simp only [lmpvSpec]
    cases hrec : lmpvSpec (fun p => g (a :: p)) as with
    | some w =>
      obtain ⟨p0, hp0, hg0, hmax0⟩ := (ih (fun p => g (a :: p)) w).1 hrec
      simp only [Option.some_or, Option.some.injEq]
      constructor
      · rintro rfl
        refine ⟨a :: p0, by simpa using hp0, hg0, ?_⟩
        intro p' hp' hl
        rcases prefix_cons_iff.1 hp' with rfl | ⟨p'', rfl, hp''⟩
        · simp at hl
        · exact hmax0 p'' hp'' (by simpa using hl)
      · rintro ⟨p, hp, hg, hmax⟩
        rcases prefix_cons_iff.1 hp with rfl | ⟨p1, rfl, hp1⟩
        · have := hmax (a :: p0) (by simpa using hp0) (by simp)
          rw [hg0] at this; cases this
        · have : lmpvSpec (fun p => g (a :: p)) as = some v :=
            (ih (fun p => g (a :: p)) v).2 ⟨p1, hp1, hg, fun p' hp' hl =>
              hmax (a :: p') (by simpa using hp') (by simpa using hl)⟩
          rw [hrec] at this; cases this; rfl
    | none =>
      have hnone := (lmpvSpec_eq_none _ _).1 hrec
      simp only [Option.none_or]
      constructor
      · intro h
        refine ⟨[], List.nil_prefix, h, ?_⟩
        intro p' hp' hl
        rcases prefix_cons_iff.1 hp' with rfl | ⟨p'', rfl, hp''⟩
        · simp at hl
        · exact hnone p'' hp''
      · rintro ⟨p, hp, hg, _⟩
        rcases prefix_cons_iff.1 hp with rfl | ⟨p1, rfl, hp1⟩
        · exact hg
        · rw [hnone p1 hp1] at hg; cases hg

end TNode
end Ural
