import UralModel.Model.Normalize
/-!
# C04 — the query sort: `qsl_sort_key` is a total order on items, so `sorted` does not depend
on the order in which the items were written

`strLt` (code-point lexicographic `<`) is a strict total order on strings; `qslLe` is the
lexicographic combination key / value-or-empty / "has a value", hence a total order on items
whose ties are *equal* items; the stable insertion sort of the model returns the unique
sorted permutation.
-/
namespace Ural.Normalize
open Ural.Py

/-! ## `strLt` -/

theorem strLt_irrefl (a : Str) : strLt a a = false := by
  induction a with
  | nil => rfl
  | cons x xs ih => simp [strLt, ih]

theorem char_eq_of_toNat {a b : Char} (h1 : ¬ a.toNat < b.toNat) (h2 : ¬ b.toNat < a.toNat) : a = b := by
  apply Char.ext
  apply UInt32.toNat_inj.1
  have e1 : a.val.toNat = a.toNat := rfl
  have e2 : b.val.toNat = b.toNat := rfl
  omega

theorem strLt_trans : ∀ (a b c : Str), strLt a b = true → strLt b c = true → strLt a c = true
  | [], [], _, h, _ => by simp [strLt] at h
  | [], _ :: _, [], _, h => by simp [strLt] at h
  | [], _ :: _, _ :: _, _, _ => by simp [strLt]
  | _ :: _, [], _, h, _ => by simp [strLt] at h
  | _ :: _, _ :: _, [], _, h => by simp [strLt] at h
  | x :: xs, y :: ys, z :: zs, h1, h2 => by
    simp only [strLt] at h1 h2 ⊢
    by_cases hxy : x.toNat < y.toNat
    · by_cases hyz : y.toNat < z.toNat
      · have : x.toNat < z.toNat := by omega
        simp [this]
      · simp only [hyz, if_false] at h2
        by_cases hzy : z.toNat < y.toNat
        · simp [hzy] at h2
        · have : x.toNat < z.toNat := by omega
          simp [this]
    · simp only [hxy, if_false] at h1
      by_cases hyx : y.toNat < x.toNat
      · simp [hyx] at h1
      · simp only [hyx, if_false] at h1
        by_cases hyz : y.toNat < z.toNat
        · have : x.toNat < z.toNat := by omega
          simp [this]
        · simp only [hyz, if_false] at h2
          by_cases hzy : z.toNat < y.toNat
          · simp [hzy] at h2
          · simp only [hzy, if_false] at h2
            have e1 : ¬ x.toNat < z.toNat := by omega
            have e2 : ¬ z.toNat < x.toNat := by omega
            simp only [e1, e2, if_false]
            exact strLt_trans xs ys zs h1 h2

theorem strLt_tri : ∀ (a b : Str), strLt a b = false → strLt b a = false → a = b
  | [], [], _, _ => rfl
  | [], _ :: _, h, _ => by simp [strLt] at h
  | _ :: _, [], _, h => by simp [strLt] at h
  | x :: xs, y :: ys, h1, h2 => by
    simp only [strLt] at h1 h2
    by_cases hxy : x.toNat < y.toNat
    · simp [hxy] at h1
    · by_cases hyx : y.toNat < x.toNat
      · simp [hyx] at h2
      · simp only [hxy, hyx, if_false] at h1 h2
        rw [char_eq_of_toNat hxy hyx, strLt_tri xs ys h1 h2]

theorem strLt_asymm (a b : Str) (h : strLt a b = true) : strLt b a = false := by
  cases hb : strLt b a with
  | false => rfl
  | true =>
    have := strLt_trans a b a h hb
    rw [strLt_irrefl] at this
    cases this

/-! ## lexicographic combination of a strict total order with a tail relation -/

/-- `if k x < k y then True else if k y < k x then False else R x y` -/
def lexLe {X α : Type} (lt : α → α → Bool) (k : X → α) (R : X → X → Bool) (x y : X) : Bool :=
  if lt (k x) (k y) then true else if lt (k y) (k x) then false else R x y

structure StrictTotal {α : Type} (lt : α → α → Bool) : Prop where
  irrefl : ∀ a, lt a a = false
  trans : ∀ a b c, lt a b = true → lt b c = true → lt a c = true
  tri : ∀ a b, lt a b = false → lt b a = false → a = b

theorem strictTotal_strLt : StrictTotal strLt := ⟨strLt_irrefl, strLt_trans, strLt_tri⟩

theorem StrictTotal.asymm {α : Type} {lt : α → α → Bool} (h : StrictTotal lt) (a b : α)
    (hab : lt a b = true) : lt b a = false := by
  cases hb : lt b a with
  | false => rfl
  | true =>
    have := h.trans a b a hab hb
    rw [h.irrefl] at this
    cases this

theorem lexLe_trans {X α : Type} {lt : α → α → Bool} (h : StrictTotal lt) (k : X → α)
    (R : X → X → Bool) (hR : ∀ x y z, R x y = true → R y z = true → R x z = true)
    (x y z : X) (h1 : lexLe lt k R x y = true) (h2 : lexLe lt k R y z = true) :
    lexLe lt k R x z = true := by
  unfold lexLe at h1 h2 ⊢
  by_cases hxy : lt (k x) (k y) = true
  · by_cases hyz : lt (k y) (k z) = true
    · simp [h.trans _ _ _ hxy hyz]
    · have hyz' : lt (k y) (k z) = false := by simpa using hyz
      simp only [hyz', Bool.false_eq_true, if_false] at h2
      by_cases hzy : lt (k z) (k y) = true
      · simp [hzy] at h2
      · have hzy' : lt (k z) (k y) = false := by simpa using hzy
        have e := h.tri _ _ hyz' hzy'
        rw [← e]; simp [hxy]
  · have hxy' : lt (k x) (k y) = false := by simpa using hxy
    simp only [hxy', Bool.false_eq_true, if_false] at h1
    by_cases hyx : lt (k y) (k x) = true
    · simp [hyx] at h1
    · have hyx' : lt (k y) (k x) = false := by simpa using hyx
      simp only [hyx', Bool.false_eq_true, if_false] at h1
      have e := h.tri _ _ hxy' hyx'
      rw [e]
      by_cases hyz : lt (k y) (k z) = true
      · simp [hyz]
      · have hyz' : lt (k y) (k z) = false := by simpa using hyz
        simp only [hyz', Bool.false_eq_true, if_false] at h2 ⊢
        by_cases hzy : lt (k z) (k y) = true
        · simp [hzy] at h2
        · have hzy' : lt (k z) (k y) = false := by simpa using hzy
          simp only [hzy', Bool.false_eq_true, if_false] at h2 ⊢
          exact hR x y z h1 h2

theorem lexLe_total {X α : Type} {lt : α → α → Bool} (_h : StrictTotal lt) (k : X → α)
    (R : X → X → Bool) (hR : ∀ x y, R x y = true ∨ R y x = true) (x y : X) :
    lexLe lt k R x y = true ∨ lexLe lt k R y x = true := by
  unfold lexLe
  by_cases hxy : lt (k x) (k y) = true
  · simp [hxy]
  · have hxy' : lt (k x) (k y) = false := by simpa using hxy
    by_cases hyx : lt (k y) (k x) = true
    · simp [hyx]
    · have hyx' : lt (k y) (k x) = false := by simpa using hyx
      simpa [hxy', hyx'] using hR x y

theorem lexLe_antisymm {X α : Type} {lt : α → α → Bool} (h : StrictTotal lt) (k : X → α)
    (R : X → X → Bool) (x y : X) (h1 : lexLe lt k R x y = true) (h2 : lexLe lt k R y x = true) :
    k x = k y ∧ R x y = true ∧ R y x = true := by
  unfold lexLe at h1 h2
  by_cases hxy : lt (k x) (k y) = true
  · have := h.asymm _ _ hxy
    simp [hxy, this] at h2
  · have hxy' : lt (k x) (k y) = false := by simpa using hxy
    by_cases hyx : lt (k y) (k x) = true
    · simp [hyx, hxy'] at h1
    · have hyx' : lt (k y) (k x) = false := by simpa using hyx
      simp only [hxy', hyx', Bool.false_eq_true, if_false] at h1 h2
      exact ⟨h.tri _ _ hxy' hyx', h1, h2⟩

/-! ## `qslLe` -/

/-- the third component of `qsl_sort_key`: `0 if v is None else 1` -/
def tagLe (a b : QItem) : Bool := !(a.2.isSome && b.2.isNone)

def valLe : QItem → QItem → Bool := lexLe strLt (fun (a : QItem) => a.2.getD []) tagLe

theorem qslLe_eq : qslLe = lexLe strLt (fun (a : QItem) => a.1) valLe := by
  funext a b
  simp only [qslLe, lexLe, valLe, tagLe]

theorem tagLe_trans (x y z : QItem) (h1 : tagLe x y = true) (h2 : tagLe y z = true) :
    tagLe x z = true := by
  unfold tagLe at *
  cases hx : x.2 <;> cases hy : y.2 <;> cases hz : z.2 <;> simp_all

theorem tagLe_total (x y : QItem) : tagLe x y = true ∨ tagLe y x = true := by
  unfold tagLe
  cases hx : x.2 <;> cases hy : y.2 <;> simp

theorem qslLe_trans (x y z : QItem) (h1 : qslLe x y = true) (h2 : qslLe y z = true) :
    qslLe x z = true := by
  rw [qslLe_eq] at *
  exact lexLe_trans strictTotal_strLt _ _
    (fun a b c => lexLe_trans strictTotal_strLt _ _ tagLe_trans a b c) x y z h1 h2

theorem qslLe_total (x y : QItem) : qslLe x y = true ∨ qslLe y x = true := by
  rw [qslLe_eq]
  exact lexLe_total strictTotal_strLt _ _
    (fun a b => lexLe_total strictTotal_strLt _ _ tagLe_total a b) x y

/-- **ties of the sort key are equal items** -/
theorem qslLe_antisymm (x y : QItem) (h1 : qslLe x y = true) (h2 : qslLe y x = true) : x = y := by
  rw [qslLe_eq] at h1 h2
  obtain ⟨hk, hv1, hv2⟩ := lexLe_antisymm strictTotal_strLt _ _ x y h1 h2
  obtain ⟨hv, ht1, ht2⟩ := lexLe_antisymm strictTotal_strLt _ _ x y hv1 hv2
  obtain ⟨k1, v1⟩ := x
  obtain ⟨k2, v2⟩ := y
  simp only at hk hv
  subst hk
  unfold tagLe at ht1 ht2
  cases v1 <;> cases v2 <;> simp_all

/-! ## the stable insertion sort returns the sorted permutation -/

theorem insertItem_perm (x : QItem) (l : List QItem) : (insertItem x l).Perm (x :: l) := by
  induction l with
  | nil => exact List.Perm.refl _
  | cons y ys ih =>
    simp only [insertItem]
    split
    · exact List.Perm.refl _
    · exact (List.Perm.cons y ih).trans (List.Perm.swap x y ys)

theorem sortQsl_perm (l : List QItem) : (sortQsl l).Perm l := by
  induction l with
  | nil => exact List.Perm.refl _
  | cons x xs ih => exact (insertItem_perm x _).trans (List.Perm.cons x ih)

theorem insertItem_sorted (x : QItem) (l : List QItem)
    (h : l.Pairwise (fun a b => qslLe a b = true)) :
    (insertItem x l).Pairwise (fun a b => qslLe a b = true) := by
  induction l with
  | nil => simp [insertItem]
  | cons y ys ih =>
    simp only [insertItem]
    rw [List.pairwise_cons] at h
    split
    · rename_i hxy
      rw [List.pairwise_cons]
      refine ⟨?_, List.pairwise_cons.2 h⟩
      intro b hb
      rcases List.mem_cons.1 hb with rfl | hb
      · exact hxy
      · exact qslLe_trans x y b hxy (h.1 b hb)
    · rename_i hxy
      have hyx : qslLe y x = true := by
        rcases qslLe_total x y with h' | h'
        · exact absurd h' hxy
        · exact h'
      rw [List.pairwise_cons]
      refine ⟨?_, ih h.2⟩
      intro b hb
      have := (insertItem_perm x ys).subset hb
      rcases List.mem_cons.1 this with rfl | hb'
      · exact hyx
      · exact h.1 b hb'

theorem sortQsl_sorted (l : List QItem) : (sortQsl l).Pairwise (fun a b => qslLe a b = true) := by
  induction l with
  | nil => simp [sortQsl]
  | cons x xs ih => exact insertItem_sorted x _ ih

/-- **`sorted(qsl, key=qsl_sort_key)` depends on the items only as a multiset** -/
theorem sortQsl_eq_of_perm {l l' : List QItem} (h : l.Perm l') : sortQsl l = sortQsl l' :=
  List.Perm.eq_of_pairwise (fun a b _ _ h1 h2 => qslLe_antisymm a b h1 h2)
    (sortQsl_sorted l) (sortQsl_sorted l')
    ((sortQsl_perm l).trans (h.trans (sortQsl_perm l').symm))

end Ural.Normalize
