import UralModel.Py.PctCodec
/-!
# Round trip of the percent codec: `unquote (quote s safe) = s`

The UTF-8 part rests on Lean core's
`ByteArray.utf8DecodeChar?_utf8EncodeChar_append`; the percent part is proved here.
-/
namespace Ural.Py

/-! ## UTF-8 -/

theorem decodeHead_encode (c : Char) (rest : Bytes) :
    decodeHead (String.utf8EncodeChar c ++ rest) = some c := by
  unfold decodeHead
  have hlen : (String.utf8EncodeChar c).length ≤ 4 := by
    rw [String.length_utf8EncodeChar]; exact c.utf8Size_le_four
  rw [List.take_append, List.take_of_length_le hlen, List.toByteArray_append,
    ByteArray.utf8DecodeChar?_utf8EncodeChar_append]

theorem utf8EncodeChar_ne_nil (c : Char) : String.utf8EncodeChar c ≠ [] := by
  intro h
  have h1 := String.length_utf8EncodeChar c
  have h2 := c.utf8Size_pos
  rw [h] at h1
  simp at h1
  omega

theorem utf8DecodeReplaceGo_encode (s : Str) :
    ∀ fuel, (utf8Encode s).length ≤ fuel → utf8DecodeReplaceGo fuel (utf8Encode s) = s := by
  induction s with
  | nil => intro fuel _; cases fuel <;> simp [utf8Encode, utf8DecodeReplaceGo]
  | cons c s ih =>
    intro fuel hf
    have henc : utf8Encode (c :: s) = String.utf8EncodeChar c ++ utf8Encode s := by
      simp [utf8Encode]
    rw [henc] at hf ⊢
    cases hE : String.utf8EncodeChar c with
    | nil => exact absurd hE (utf8EncodeChar_ne_nil c)
    | cons b tl =>
      have hl : tl.length = c.utf8Size - 1 := by
        have := String.length_utf8EncodeChar c
        rw [hE] at this
        simp at this
        omega
      rw [hE] at hf
      cases fuel with
      | zero => simp at hf
      | succ fuel =>
        have hd : decodeHead (b :: (tl ++ utf8Encode s)) = some c := by
          have := decodeHead_encode c (utf8Encode s)
          rw [hE] at this
          simpa using this
        simp only [List.cons_append, utf8DecodeReplaceGo, hd]
        rw [← hl, List.drop_left]
        congr 1
        apply ih
        simp at hf
        omega

/-- `s.encode('utf-8').decode('utf-8', 'replace') == s` -/
theorem utf8DecodeReplace_encode (s : Str) : utf8DecodeReplace (utf8Encode s) = s :=
  utf8DecodeReplaceGo_encode s _ (Nat.le_refl _)

/-! ## percent escapes -/

theorem hexDigit_facts : ∀ n, n < 16 →
    isHexDigit (hexDigitUpper n) = true ∧ hexVal (hexDigitUpper n) = n ∧
    hexDigitUpper n ≠ '%' ∧ (hexDigitUpper n).toNat < 128 := by
  decide

set_option maxRecDepth 8000 in
theorem alwaysSafe_facts : ∀ n, n < 256 → alwaysSafe n.toUInt8 = true →
    n < 128 ∧ Char.ofNat n ≠ '%' := by
  decide

set_option maxRecDepth 8000 in
theorem charOfNat_toNat_small : ∀ n, n < 256 → (Char.ofNat n).toNat = n := by
  decide

theorem charOfByte_toNat (b : UInt8) : (Char.ofNat b.toNat).toNat = b.toNat :=
  charOfNat_toNat_small b.toNat b.toNat_lt

/-- the conditions under which `safe` is a legal `safe=` argument: ASCII, and not `%` -/
def SafeOk (safe : Bytes) : Prop := ∀ b ∈ safe, b.toNat < 128 ∧ b ≠ 0x25

theorem quoteByte_safe_char (safe : Bytes) (hs : SafeOk safe) (b : UInt8)
    (h : (alwaysSafe b || safe.contains b) = true) :
    b.toNat < 128 ∧ Char.ofNat b.toNat ≠ '%' := by
  rcases Bool.or_eq_true _ _ |>.mp h with h | h
  · have := alwaysSafe_facts b.toNat b.toNat_lt (by simpa using h)
    exact this
  · have hm : b ∈ safe := by simpa using h
    obtain ⟨h1, h2⟩ := hs b hm
    refine ⟨h1, ?_⟩
    intro hc
    apply h2
    have : (Char.ofNat b.toNat).toNat = ('%' : Char).toNat := by rw [hc]
    rw [charOfByte_toNat] at this
    apply UInt8.toNat_inj.mp
    simpa using this

theorem unquoteToBytesGo_plain (c : Char) (rest : Str) (h : c ≠ '%') :
    unquoteToBytesGo (c :: rest) 0 = c.toNat.toUInt8 :: unquoteToBytesGo rest 0 := by
  simp [unquoteToBytesGo, h]

theorem unquoteToBytesGo_escape (a b : Char) (rest : Str) (v : UInt8)
    (h : pctHead (a :: b :: rest) = some v) :
    unquoteToBytesGo ('%' :: a :: b :: rest) 0 = v :: unquoteToBytesGo rest 0 := by
  simp [unquoteToBytesGo, h]

theorem unquoteToBytesGo_quote (safe : Bytes) (hs : SafeOk safe) (bs : Bytes) :
    unquoteToBytesGo (bs.flatMap (quoteByte safe)) 0 = bs := by
  induction bs with
  | nil => simp [unquoteToBytesGo]
  | cons b bs ih =>
    simp only [List.flatMap_cons]
    by_cases h : (alwaysSafe b || safe.contains b) = true
    · have hq : quoteByte safe b = [Char.ofNat b.toNat] := by unfold quoteByte; rw [if_pos h]
      obtain ⟨_, h2⟩ := quoteByte_safe_char safe hs b h
      rw [hq, List.singleton_append, unquoteToBytesGo_plain _ _ h2, ih, charOfByte_toNat]
      simp
    · have hq : quoteByte safe b =
          ['%', hexDigitUpper (b.toNat / 16), hexDigitUpper (b.toNat % 16)] := by
        unfold quoteByte; rw [if_neg h]
      have hb : b.toNat < 256 := b.toNat_lt
      obtain ⟨h1, h2, _, _⟩ := hexDigit_facts (b.toNat / 16) (by omega)
      obtain ⟨l1, l2, _, _⟩ := hexDigit_facts (b.toNat % 16) (by omega)
      have hp : pctHead (hexDigitUpper (b.toNat / 16) :: hexDigitUpper (b.toNat % 16) ::
          List.flatMap (quoteByte safe) bs) = some b := by
        simp only [pctHead, h1, l1, h2, l2, Bool.and_self, if_true]
        congr 1
        apply UInt8.toNat_inj.mp
        simp
        omega
      rw [hq]
      simp only [List.cons_append, List.nil_append]
      rw [unquoteToBytesGo_escape _ _ _ _ hp, ih]

theorem quote_ascii (safe : Bytes) (hs : SafeOk safe) (bs : Bytes) :
    ∀ c ∈ bs.flatMap (quoteByte safe), c.toNat < 128 := by
  intro c hc
  simp only [List.mem_flatMap] at hc
  obtain ⟨b, _, hc⟩ := hc
  unfold quoteByte at hc
  split at hc
  · rename_i h
    obtain ⟨h1, _⟩ := quoteByte_safe_char safe hs b h
    simp at hc
    rw [hc, charOfByte_toNat]; exact h1
  · have hb : b.toNat < 256 := b.toNat_lt
    obtain ⟨_, _, _, h4⟩ := hexDigit_facts (b.toNat / 16) (by omega)
    obtain ⟨_, _, _, l4⟩ := hexDigit_facts (b.toNat % 16) (by omega)
    simp at hc
    rcases hc with hc | hc | hc <;> rw [hc]
    · decide
    · exact h4
    · exact l4

theorem unquoteRuns_ascii (t : Str) (h : ∀ c ∈ t, c.toNat < 128) :
    ∀ acc, unquoteRuns t acc = unquoteFlush (t.reverse ++ acc) := by
  induction t with
  | nil => intro acc; simp [unquoteRuns]
  | cons c t ih =>
    intro acc
    have hc : c.toNat < 128 := h c (by simp)
    simp only [unquoteRuns, hc, if_true]
    rw [ih (fun x hx => h x (by simp [hx]))]
    simp

/-- the run-wise decoder inverts `quote` (no matter whether the `%` shortcut applies) -/
theorem unquoteRuns_quote (s : Str) (safe : Bytes) (hs : SafeOk safe) :
    unquoteRuns (quote s safe) [] = s := by
  unfold quote
  rw [unquoteRuns_ascii _ (quote_ascii safe hs _)]
  simp only [List.append_nil, unquoteFlush, List.reverse_reverse, unquoteToBytes]
  rw [unquoteToBytesGo_quote safe hs, utf8DecodeReplace_encode]

/-! ## ASCII strings without `%` are left alone by the run-wise decoder -/

theorem utf8EncodeChar_ascii (c : Char) (h : c.toNat < 128) :
    String.utf8EncodeChar c = [c.toNat.toUInt8] := by
  have : c.utf8Size = 1 := Char.utf8Size_eq_one_iff.mpr (by
    show c.val ≤ 127
    have : c.val.toNat < 128 := h
    exact UInt32.le_iff_toNat_le.mpr (by simpa using Nat.le_of_lt_succ this))
  rw [String.utf8EncodeChar_eq_singleton this]
  rfl

theorem unquoteToBytesGo_nopct (t : Str) (h : ∀ c ∈ t, c.toNat < 128 ∧ c ≠ '%') :
    unquoteToBytesGo t 0 = utf8Encode t := by
  induction t with
  | nil => simp [unquoteToBytesGo, utf8Encode]
  | cons c t ih =>
    obtain ⟨h1, h2⟩ := h c (by simp)
    have henc : utf8Encode (c :: t) = String.utf8EncodeChar c ++ utf8Encode t := by
      simp [utf8Encode]
    rw [henc, utf8EncodeChar_ascii c h1]
    simp only [unquoteToBytesGo, h2, if_false, List.cons_append, List.nil_append]
    rw [ih (fun x hx => h x (by simp [hx]))]

theorem unquoteRuns_nopct (t : Str) (h : ∀ c ∈ t, c.toNat < 128 ∧ c ≠ '%') :
    unquoteRuns t [] = t := by
  rw [unquoteRuns_ascii t (fun c hc => (h c hc).1)]
  simp only [List.append_nil, unquoteFlush, List.reverse_reverse, unquoteToBytes]
  rw [unquoteToBytesGo_nopct t h, utf8DecodeReplace_encode]

/-- **`unquote(quote(s, safe)) == s`** for every string `s` (of scalar values) and every
ASCII `safe` set not containing `%`. -/
theorem unquote_quote (s : Str) (safe : Bytes) (hs : SafeOk safe) :
    unquote (quote s safe) = s := by
  unfold unquote
  split
  · exact unquoteRuns_quote s safe hs
  · rename_i hno
    have hq : unquoteRuns (quote s safe) [] = quote s safe := by
      apply unquoteRuns_nopct
      intro c hc
      refine ⟨quote_ascii safe hs _ c hc, ?_⟩
      intro he
      apply hno
      simp [he ▸ hc]
    rw [← hq]
    exact unquoteRuns_quote s safe hs

theorem safeOk_slash : SafeOk [0x2F] := by
  intro b hb
  simp at hb
  subst hb
  decide

theorem safeOk_nil : SafeOk [] := by
  intro b hb; simp at hb

end Ural.Py
