import UralModel.Lemmas.Re
import UralModel.Model.IsUrl
/-!
# Lemmas for `is_url`: `str.strip` facts, protocol-optional patterns
-/
namespace Ural.Py

/-! ## `dropWhile`, `lstrip`, `rstrip`, `strip` -/

theorem dropWhile_append_all {α} {p : α → Bool} {l s : List α} (h : ∀ c ∈ l, p c = true) :
    (l ++ s).dropWhile p = s.dropWhile p := by
  induction l with
  | nil => rfl
  | cons a l ih =>
    have ha := h a (List.mem_cons_self)
    simp only [List.cons_append, List.dropWhile_cons, ha, if_true]
    exact ih (fun c hc => h c (List.mem_cons_of_mem _ hc))

theorem dropWhile_append_ne {α} {p : α → Bool} {a b : List α} (h : a.dropWhile p ≠ []) :
    (a ++ b).dropWhile p = a.dropWhile p ++ b := by
  induction a with
  | nil => simp at h
  | cons x a ih =>
    simp only [List.cons_append, List.dropWhile_cons] at *
    split
    · rename_i hx
      simp only [hx, if_true] at h
      exact ih h
    · rfl

theorem dropWhile_idem {α} (p : α → Bool) (l : List α) :
    (l.dropWhile p).dropWhile p = l.dropWhile p := by
  induction l with
  | nil => rfl
  | cons x l ih =>
    simp only [List.dropWhile_cons]
    split
    · exact ih
    · rename_i hx
      simp only [List.dropWhile_cons, hx]
      rfl

theorem dropWhile_split {α} (p : α → Bool) (l : List α) :
    ∃ a, l = a ++ l.dropWhile p ∧ ∀ c ∈ a, p c = true := by
  induction l with
  | nil => exact ⟨[], rfl, by simp⟩
  | cons x l ih =>
    simp only [List.dropWhile_cons]
    split
    · rename_i hx
      obtain ⟨a, ha, hp⟩ := ih
      refine ⟨x :: a, by rw [List.cons_append, ← ha], ?_⟩
      intro c hc
      rw [List.mem_cons] at hc
      rcases hc with rfl | hc
      · exact hx
      · exact hp c hc
    · exact ⟨[], rfl, by simp⟩

theorem dropWhile_eq_nil {α} {p : α → Bool} {l : List α} :
    l.dropWhile p = [] ↔ ∀ c ∈ l, p c = true := by
  induction l with
  | nil => simp
  | cons x l ih =>
    simp only [List.dropWhile_cons]
    split
    · rename_i hx
      rw [ih]
      constructor
      · intro h c hc
        rw [List.mem_cons] at hc
        rcases hc with rfl | hc
        · exact hx
        · exact h c hc
      · intro h c hc
        exact h c (List.mem_cons_of_mem _ hc)
    · rename_i hx
      constructor
      · intro h; cases h
      · intro h; exact absurd (h x List.mem_cons_self) hx

theorem dropWhile_eq_self {α} {p : α → Bool} {l : List α} (h : ∀ c, l.head? = some c → p c = false) :
    l.dropWhile p = l := by
  cases l with
  | nil => rfl
  | cons x l =>
    have := h x rfl
    simp [this]

theorem lstrip_append_ws {l s : Str} (h : ∀ c ∈ l, isSpace c = true) : lstrip (l ++ s) = lstrip s :=
  dropWhile_append_all h

theorem rstrip_append_ws {x r : Str} (h : ∀ c ∈ r, isSpace c = true) : rstrip (x ++ r) = rstrip x := by
  simp only [rstrip, List.reverse_append]
  rw [dropWhile_append_all]
  intro c hc
  exact h c (List.mem_reverse.mp hc)

/-- `x = x.rstrip() + (trailing whitespace)` -/
theorem rstrip_prefix (x : Str) : ∃ b, x = rstrip x ++ b ∧ ∀ c ∈ b, isSpace c = true := by
  obtain ⟨a, ha, hws⟩ := dropWhile_split isSpace x.reverse
  refine ⟨a.reverse, ?_, fun c hc => hws c (List.mem_reverse.mp hc)⟩
  have := congrArg List.reverse ha
  simpa [rstrip] using this

theorem lstrip_suffix (x : Str) : ∃ a, x = a ++ lstrip x ∧ ∀ c ∈ a, isSpace c = true :=
  dropWhile_split isSpace x

theorem rstrip_idem (x : Str) : rstrip (rstrip x) = rstrip x := by
  simp only [rstrip, List.reverse_reverse, dropWhile_idem]

theorem lstrip_idem (x : Str) : lstrip (lstrip x) = lstrip x := dropWhile_idem _ _

/-- stripping the right end of a string without leading whitespace leaves one without
leading whitespace -/
theorem lstrip_rstrip_of_lstrip_eq {y : Str} (h : lstrip y = y) : lstrip (rstrip y) = rstrip y := by
  cases y with
  | nil => rfl
  | cons c y' =>
    have hc : isSpace c = false := by
      cases hcs : isSpace c
      · rfl
      · exfalso
        simp only [lstrip, List.dropWhile_cons, hcs, if_true] at h
        have hl := (List.dropWhile_suffix (p := isSpace) (l := y')).length_le
        rw [h] at hl
        simp only [List.length_cons] at hl
        omega
    obtain ⟨b, hb, hws⟩ := rstrip_prefix (c :: y')
    cases hr : rstrip (c :: y') with
    | nil =>
      rw [hr] at hb
      simp only [List.nil_append] at hb
      have := hws c (by rw [← hb]; exact List.mem_cons_self)
      rw [hc] at this; cases this
    | cons d z =>
      rw [hr] at hb
      simp only [List.cons_append, List.cons.injEq] at hb
      obtain ⟨rfl, _⟩ := hb
      simp [lstrip, hc]

/-- `s.strip().strip() == s.strip()` -/
theorem strip_strip (s : Str) : strip (strip s) = strip s := by
  simp only [strip]
  rw [lstrip_rstrip_of_lstrip_eq (lstrip_idem s), rstrip_idem]

/-- the answer of `strip` ignores surrounding whitespace -/
theorem strip_wrap {l r : Str} (s : Str) (hl : ∀ c ∈ l, isSpace c = true)
    (hr : ∀ c ∈ r, isSpace c = true) : strip (l ++ s ++ r) = strip s := by
  simp only [strip, List.append_assoc]
  rw [lstrip_append_ws hl]
  by_cases hs : lstrip s = []
  · have : lstrip (s ++ r) = [] := by
      simp only [lstrip] at *
      rw [dropWhile_eq_nil] at *
      intro c hc
      rw [List.mem_append] at hc
      rcases hc with hc | hc
      · exact hs c hc
      · exact hr c hc
    rw [this, hs]
  · have : lstrip (s ++ r) = lstrip s ++ r := dropWhile_append_ne hs
    rw [this, rstrip_append_ws hr]

/-- a string without any whitespace is its own `strip` -/
theorem strip_eq_self {s : Str} (h : ∀ c ∈ s, isSpace c = false) : strip s = s := by
  have h1 : lstrip s = s := by
    apply dropWhile_eq_self
    intro c hc
    exact h c (List.mem_of_mem_head? hc)
  simp only [strip, h1, rstrip]
  have h2 : s.reverse.dropWhile isSpace = s.reverse := by
    apply dropWhile_eq_self
    intro c hc
    exact h c (List.mem_reverse.mp (List.mem_of_mem_head? hc))
  rw [h2, List.reverse_reverse]

/-- `s.strip()` is a substring of `s` -/
theorem strip_substring (s : Str) : ∃ a b, s = a ++ strip s ++ b := by
  obtain ⟨a, ha, _⟩ := lstrip_suffix s
  obtain ⟨b, hb, _⟩ := rstrip_prefix (lstrip s)
  refine ⟨a, b, ?_⟩
  simp only [strip, List.append_assoc]
  rw [← hb]
  exact ha

theorem strip_nil : strip ([] : Str) = [] := rfl

namespace Re

/-! ## a pattern with a mandatory prefix vs. the same with that prefix optional -/

/-- `^ P B` accepts ⇒ `^ P? B` accepts (the two patterns given by their spines) -/
theorem accepts_opt_of_spine {R1 R2 P : Re} {B : List Re}
    (h1 : spine R1 = .bos :: (spine P ++ B)) (h2 : spine R2 = .bos :: opt P :: B)
    {s : List Char} (h : Accepts R1 s) : Accepts R2 s := by
  obtain ⟨t, ht⟩ := h
  refine ⟨t, ?_⟩
  rw [match_iff_spine, h1] at ht
  rw [match_iff_spine, h2]
  rw [matchL_cons] at ht
  obtain ⟨m, hb, hrest⟩ := ht
  rw [matchL_append] at hrest
  obtain ⟨m', hp, hB⟩ := hrest
  exact MatchL.cons hb (MatchL.cons (match_iff_spine.mpr hp).opt_intro hB)

/-- what a pattern `^ P B` accepts starts with a word of `P` (if `P` has no anchors) -/
theorem prefix_of_spine {R1 P : Re} {B : List Re}
    (h1 : spine R1 = .bos :: (spine P ++ B)) (hP : anchorFree P = true)
    {s : List Char} (h : Accepts R1 s) : ∃ p b, s = p ++ b ∧ Lang P p := by
  obtain ⟨t, ht⟩ := h
  rw [match_iff_spine, h1, matchL_cons] at ht
  obtain ⟨m, hb, hrest⟩ := ht
  cases hb
  rw [matchL_append] at hrest
  obtain ⟨m', hp, _⟩ := hrest
  have hp' := match_iff_spine.mpr hp
  exact ⟨consumed s m', m', hp'.eq_consumed, hp'.lang_consumed hP⟩

/-- a word of the anchor-free `R` is accepted by `^ R $` -/
theorem accepts_anchored_of_lang {R1 R : Re} (h1 : spine R1 = .bos :: spine R ++ [.eos])
    {w : List Char} (h : Lang R w) : Accepts R1 w := by
  refine ⟨[], ?_⟩
  rw [match_iff_spine, h1]
  exact MatchL.cons (Match.bos w rfl)
    (matchL_append.mpr ⟨[], match_iff_spine.mp h, MatchL.cons Match.eosEnd (MatchL.nil _)⟩)

end Re
end Ural.Py

namespace Ural.IsUrl
open Ural.Py Ural.Py.Re Ural.Gen.Patterns

/-- when `is_url` answers `True`: the four conjuncts of is_url.py:45-80 -/
theorem is_url_true_iff (env : Env) (s : Str) (o : Opts) :
    is_url env s o = .ok true ↔
      (strip s).isEmpty = false ∧
      (o.require_protocol = true → o.only_http_https = true → pyMatch HTTP_PROTOCOL_RE (strip s) = true) ∧
      pyMatch (pattern o) (strip s) = true ∧
      (o.tld_aware = true → tldCheck env (strip s) = .ok true) := by
  simp only [is_url]
  cases h1 : (strip s).isEmpty <;> cases h2 : o.require_protocol <;> cases h3 : o.only_http_https <;>
    cases h4 : pyMatch HTTP_PROTOCOL_RE (strip s) <;> cases h5 : pyMatch (pattern o) (strip s) <;>
    cases h6 : o.tld_aware <;> simp

/-- `tld_aware=False`: no exception path, the answer is the conjunction of the regex tests -/
theorem is_url_no_tld (env : Env) (s : Str) (o : Opts) (h : o.tld_aware = false) :
    is_url env s o = .ok (!(strip s).isEmpty &&
      !(o.require_protocol && o.only_http_https && !pyMatch HTTP_PROTOCOL_RE (strip s)) &&
      pyMatch (pattern o) (strip s)) := by
  simp only [is_url, h]
  cases h1 : (strip s).isEmpty <;> cases h2 : o.require_protocol <;> cases h3 : o.only_http_https <;>
    cases h4 : pyMatch HTTP_PROTOCOL_RE (strip s) <;> cases h5 : pyMatch (pattern o) (strip s) <;> simp

end Ural.IsUrl
