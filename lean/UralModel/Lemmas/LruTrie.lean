import UralModel.Model.LruTrie
import UralModel.Lemmas.TrieDict
/-!
Helper lemmas for `Props/C11.lean`: the serialisation round trip of
`ural/lru/serialization.py`, and "latest value per key" of an assignment history.
-/
set_option linter.unusedSectionVars false
set_option linter.unusedSimpArgs false

namespace Ural
namespace LruTrie
open Ural.Py

/-! ### `unserialize_lru (serialize_lru stems) = stems` -/

/-- no `|` in the stem -/
def BarFree (l : Str) : Prop := ∀ c ∈ l, c ≠ '|'

/-- what `lru_stems` produces: at least one stem, no `|` inside a stem, every stem but the
first starts with a tag letter and a colon -/
def WellTagged (stems : List Str) : Prop :=
  stems ≠ [] ∧ (∀ l ∈ stems, BarFree l) ∧ (∀ l ∈ stems.tail, startsTag l = true)

theorem splitGo_append (l s acc : Str) (h : BarFree l) :
    splitGo (l ++ s) acc = splitGo s (l.reverse ++ acc) := by
  induction l generalizing acc with
  | nil => rfl
  | cons c cs ih =>
    have hc : c ≠ '|' := h c (by simp)
    have := ih (c :: acc) (fun x hx => h x (by simp [hx]))
    simp only [List.cons_append, splitGo, hc, false_and, if_false, this, List.reverse_cons,
      List.append_assoc, List.singleton_append, List.nil_append]

theorem startsTag_append (l s : Str) (h : startsTag l = true) : startsTag (l ++ s) = true := by
  cases l with
  | nil => simp [startsTag] at h
  | cons c l1 =>
    cases l1 with
    | nil => simp [startsTag] at h
    | cons d rest => simpa [startsTag] using h

theorem startsTag_ne_nil (l : Str) (h : startsTag l = true) : l ≠ [] := by
  intro e; subst e; simp [startsTag] at h

theorem startsTag_join (l : Str) (rest : List Str) (h : startsTag l = true) :
    startsTag (join ['|'] (l :: rest)) = true := by
  cases rest with
  | nil => simpa [join] using h
  | cons l2 rest2 =>
    simp only [join, List.append_assoc]
    exact startsTag_append _ _ h

theorem splitGo_join (stems : List Str) (hne : stems ≠ []) (hbf : ∀ l ∈ stems, BarFree l)
    (htag : ∀ l ∈ stems.tail, startsTag l = true) : splitGo (join ['|'] stems) [] = stems := by
  induction stems with
  | nil => exact absurd rfl hne
  | cons l rest ih =>
    cases rest with
    | nil =>
      have := splitGo_append l [] [] (hbf l (by simp))
      simp only [List.append_nil] at this
      simp [join, this, splitGo]
    | cons l2 rest2 =>
      have h1 := splitGo_append l (['|'] ++ join ['|'] (l2 :: rest2)) [] (hbf l (by simp))
      have h2 := ih (by simp) (fun x hx => hbf x (by simp [hx]))
        (fun x hx => htag x (by simp only [List.tail_cons] at hx ⊢; exact List.mem_cons_of_mem _ hx))
      have h3 : startsTag (join ['|'] (l2 :: rest2)) = true :=
        startsTag_join l2 rest2 (htag l2 (by simp))
      simp only [join, List.append_assoc]
      rw [h1]
      simp only [List.singleton_append, splitGo, h3, and_self, if_true, List.append_nil,
        List.reverse_reverse, h2]

theorem join_ne_nil (l : Str) (rest : List Str) (h : l ≠ []) : join ['|'] (l :: rest) ≠ [] := by
  cases rest with
  | nil => simpa [join] using h
  | cons l2 rest2 => simp [join, h]

theorem join_getLast (stems : List Str) (hne : stems ≠ []) (hbf : ∀ l ∈ stems, BarFree l)
    (hnn : ∀ l ∈ stems.tail, l ≠ []) : (join ['|'] stems).getLast? ≠ some '|' := by
  induction stems with
  | nil => exact absurd rfl hne
  | cons l rest ih =>
    cases rest with
    | nil =>
      simp only [join]
      intro h
      have hm : '|' ∈ l := List.mem_of_getLast? h
      exact hbf l (by simp) '|' hm rfl
    | cons l2 rest2 =>
      have h2 := ih (by simp) (fun x hx => hbf x (by simp [hx]))
        (fun x hx => hnn x (by simp only [List.tail_cons] at hx ⊢; exact List.mem_cons_of_mem _ hx))
      have hj : join ['|'] (l2 :: rest2) ≠ [] := join_ne_nil l2 rest2 (hnn l2 (by simp))
      simp only [join, List.append_assoc]
      rw [List.getLast?_append, List.getLast?_append]
      cases hg : (join ['|'] (l2 :: rest2)).getLast? with
      | none => exact absurd (List.getLast?_eq_none_iff.1 hg) hj
      | some x =>
        simp only [Option.some_or]
        intro e
        exact h2 (by rw [hg, e])

theorem rstrip_bar (s : Str) (h : s.getLast? ≠ some '|') : rstripChars (s ++ ['|']) ['|'] = s := by
  unfold rstripChars
  simp only [List.reverse_append, List.reverse_cons, List.reverse_nil, List.nil_append,
    List.singleton_append]
  rw [List.dropWhile_cons]
  simp only [List.contains_cons, List.contains_nil, Bool.or_false, beq_self_eq_true, if_true]
  cases hr : s.reverse with
  | nil =>
    have : s = [] := by simpa using hr
    simp [this]
  | cons c r =>
    have hs : s = r.reverse ++ [c] := by
      have := congrArg List.reverse hr
      simpa using this
    have hc : c ≠ '|' := by
      intro e; apply h; rw [hs, e]; simp
    have : ((c == '|') = true) = False := by simp [hc]
    rw [List.dropWhile_cons]
    simp only [this, if_false]
    rw [← hr, List.reverse_reverse]

/-- the round trip of `serialization.py` on well-formed stem lists -/
theorem unserialize_serialize (stems : List Str) (h : WellTagged stems) :
    unserializeLru (serializeLru stems) = stems := by
  obtain ⟨hne, hbf, htag⟩ := h
  unfold unserializeLru serializeLru
  rw [rstrip_bar _ (join_getLast stems hne hbf (fun l hl => startsTag_ne_nil l (htag l hl))),
    splitGo_join stems hne hbf htag]

end LruTrie

/-! ### the latest value stored under a key by an assignment history -/

section Latest
variable {κ β : Type} [DecidableEq κ]

/-- the value of the last entry of the history whose key is `k` -/
def latest : List (κ × β) → κ → Option β
  | [], _ => none
  | e :: rest, k => (latest rest k).or (if e.1 = k then some e.2 else none)

theorem latest_eq_none_iff (es : List (κ × β)) (k : κ) :
    latest es k = none ↔ ∀ e ∈ es, e.1 ≠ k := by
  induction es with
  | nil => simp [latest]
  | cons e rest ih =>
    simp only [latest, Option.or_eq_none_iff, ih, List.mem_cons, forall_eq_or_imp]
    constructor
    · rintro ⟨h1, h2⟩
      refine ⟨?_, h1⟩
      intro he; simp [he] at h2
    · rintro ⟨h1, h2⟩
      exact ⟨h2, by simp [h1]⟩

/-- `latest es k = some v`: the history stores `v` under `k` at some point and never stores
anything under `k` afterwards -/
theorem latest_eq_some_iff (es : List (κ × β)) (k : κ) (v : β) :
    latest es k = some v ↔
      ∃ es1 es2, es = es1 ++ (k, v) :: es2 ∧ ∀ e ∈ es2, e.1 ≠ k := by
  induction es with
  | nil => simp [latest]
  | cons e rest ih =>
    simp only [latest]
    constructor
    · intro h
      cases hl : latest rest k with
      | some w =>
        rw [hl] at h
        simp only [Option.some_or, Option.some.injEq] at h
        subst h
        obtain ⟨es1, es2, he, hn⟩ := ih.1 hl
        exact ⟨e :: es1, es2, by simp [he], hn⟩
      | none =>
        rw [hl] at h
        simp only [Option.none_or] at h
        by_cases hk : e.1 = k
        · simp only [hk, if_true, Option.some.injEq] at h
          refine ⟨[], rest, ?_, (latest_eq_none_iff rest k).1 hl⟩
          obtain ⟨a, b⟩ := e
          simp only at hk h
          simp [hk, h]
        · simp [hk] at h
    · rintro ⟨es1, es2, he, hn⟩
      cases es1 with
      | nil =>
        simp only [List.nil_append, List.cons.injEq] at he
        obtain ⟨rfl, rfl⟩ := he
        rw [(latest_eq_none_iff rest k).2 hn]
        simp
      | cons x es1' =>
        simp only [List.cons_append, List.cons.injEq] at he
        obtain ⟨rfl, he⟩ := he
        rw [ih.2 ⟨es1', es2, he, hn⟩]
        simp

/-- lookup in the dictionary built by the history = latest value of the history -/
theorem child_foldl_setChild (es : List (κ × β)) (m : List (κ × β)) (k : κ) :
    child (es.foldl (fun m e => setChild m e.1 e.2) m) k = (latest es k).or (child m k) := by
  induction es generalizing m with
  | nil => simp [latest]
  | cons e rest ih =>
    simp only [List.foldl_cons, ih, latest, child_setChild]
    obtain ⟨ek, ev⟩ := e
    by_cases hk : ek = k
    · subst hk
      cases latest rest ek <;> simp
    · have hk' : ¬ k = ek := fun h => hk h.symm
      cases latest rest k <;> simp [hk, hk']

/-- the entries of the history that are the last ones for their key -/
def lastEntries : List (κ × β) → List (κ × β)
  | [] => []
  | e :: rest =>
    if rest.any (fun e' => decide (e'.1 = e.1)) then lastEntries rest else e :: lastEntries rest

theorem mem_lastEntries (es : List (κ × β)) (k : κ) (v : β) :
    (k, v) ∈ lastEntries es ↔ latest es k = some v := by
  induction es with
  | nil => simp [lastEntries, latest]
  | cons e rest ih =>
    obtain ⟨ek, ev⟩ := e
    simp only [lastEntries, latest]
    by_cases hany : rest.any (fun e' => decide (e'.1 = ek)) = true
    · simp only [hany, if_true, ih]
      by_cases hk : ek = k
      · subst hk
        have : latest rest ek ≠ none := by
          rw [Ne, latest_eq_none_iff]
          intro hall
          simp only [List.any_eq_true, decide_eq_true_eq] at hany
          obtain ⟨e', he', hke⟩ := hany
          exact hall e' he' hke
        cases hl : latest rest ek with
        | none => exact absurd hl this
        | some w => simp
      · simp [hk]
    · simp only [hany, Bool.false_eq_true, if_false, List.mem_cons, Prod.mk.injEq, ih]
      have hnone : latest rest ek = none := by
        rw [latest_eq_none_iff]
        intro e' he' hke
        apply hany
        simp only [List.any_eq_true, decide_eq_true_eq]
        exact ⟨e', he', hke⟩
      by_cases hk : ek = k
      · subst hk
        simp only [hnone, true_and, if_true, Option.none_or, Option.some.injEq, reduceCtorEq,
          or_false]
        exact ⟨fun h => h.symm, fun h => h.symm⟩
      · have hk' : ¬ k = ek := fun h => hk h.symm
        simp [hk, hk']

theorem nodup_lastEntries_keys (es : List (κ × β)) : ((lastEntries es).map Prod.fst).Nodup := by
  induction es with
  | nil => simp [lastEntries]
  | cons e rest ih =>
    obtain ⟨ek, ev⟩ := e
    simp only [lastEntries]
    by_cases hany : rest.any (fun e' => decide (e'.1 = ek)) = true
    · simp only [hany, if_true]; exact ih
    · simp only [hany, Bool.false_eq_true, if_false, List.map_cons, List.nodup_cons]
      refine ⟨?_, ih⟩
      intro hm
      obtain ⟨⟨k', w⟩, hmem, hk⟩ := List.mem_map.1 hm
      simp only at hk
      subst hk
      have := (mem_lastEntries rest k' w).1 hmem
      have hne : latest rest k' ≠ none := by rw [this]; simp
      rw [Ne, latest_eq_none_iff] at hne
      apply hne
      intro e' he' hke
      apply hany
      simp only [List.any_eq_true, decide_eq_true_eq]
      exact ⟨e', he', hke⟩

theorem nodup_of_nodup_map {γ δ : Type} (f : γ → δ) {l : List γ} (h : (l.map f).Nodup) :
    l.Nodup := by
  rw [List.nodup_iff_pairwise_ne] at h ⊢
  rw [List.pairwise_map] at h
  exact List.Pairwise.imp (fun hab e => hab (by rw [e])) h

end Latest
end Ural
