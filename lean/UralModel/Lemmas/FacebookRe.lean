import UralModel.Model.Facebook
import UralModel.Lemmas.Re
import UralModel.Lemmas.C19Small
/-!
The regex validators of `ural/facebook.py` (C19): `re.search` of the model (`reSearch`, the
`finditer` scanner) is "some position has a match" (`searchB` of part `small`), hence the
characterisations of `is_facebook_id` (`^\d+$`), `is_facebook_full_id` (`^\d+_\d+$`) and what a
host accepted by `FACEBOOK_DOMAIN_RE` looks like.
-/
namespace Ural.Facebook
open Ural.Py Ural Ural.Py.Re
open Ural.C19Small (searchB tails PlusWord plusClass? searchB_plus_iff searchB_bos plusClass?_eq match_plus_cls)

/-! ## `reSearch` is `searchB` -/

theorem firstEnd_false (n : Nat) (r : Re) (s : Str) : firstEnd n r s false = (matchEnds n r s).head? := by
  unfold firstEnd
  cases matchEnds n r s <;> simp

theorem self_mem_tails (s : Str) : s ∈ tails s := by
  cases s <;> simp [tails]

theorem scanAux_eq_nil_iff (n : Nat) (r : Re) : ∀ (fuel : Nat) (s : Str), s.length < fuel →
    (scanAux n r fuel s false = [] ↔ ∀ t ∈ tails s, matchEnds n r t = []) := by
  intro fuel
  induction fuel with
  | zero => intro s h; omega
  | succ fuel ih =>
    intro s hlen
    simp only [scanAux, firstEnd_false]
    cases hm : matchEnds n r s with
    | nil =>
      simp only [List.head?_nil]
      cases s with
      | nil => simp [tails, hm]
      | cons c s' =>
        simp only [tails, List.mem_cons, forall_eq_or_imp, hm, true_and]
        exact ih s' (by simp at hlen; omega)
    | cons t ts =>
      simp only [List.head?_cons]
      constructor
      · intro h; split at h <;> cases h
      · intro h
        have := h s (self_mem_tails s)
        rw [hm] at this; cases this

/-- **`bool(re.search(r, s))` of the scanner model is "some position has a match"** -/
theorem reSearch_eq_searchB (r : Re) (s : Str) : reSearch r s = searchB r s := by
  have h1 : reSearch r s = true ↔ scan r s ≠ [] := by
    unfold reSearch Re.search finditer
    cases scan r s <;> simp
  have h2 : scan r s = [] ↔ ∀ t ∈ tails s, matchEnds s.length r t = [] :=
    scanAux_eq_nil_iff s.length r _ s (by omega)
  have h3 : searchB r s = true ↔ ¬ ∀ t ∈ tails s, matchEnds s.length r t = [] := by
    unfold searchB
    simp only [List.any_eq_true, Bool.not_eq_true', List.isEmpty_eq_false_iff, ne_eq]
    constructor
    · rintro ⟨t, ht, hne⟩ hall; exact hne (hall t ht)
    · intro h
      apply Classical.byContradiction
      intro hno
      apply h
      intro t ht
      apply Classical.byContradiction
      intro hne
      exact hno ⟨t, ht, hne⟩
  rw [Bool.eq_iff_iff, h1, h3, ne_eq, h2]

/-! ## `is_facebook_id`, `is_facebook_full_id` -/

/-- **`is_facebook_id`** accepts exactly the non-empty words over the class of `FACEBOOK_ID_RE`
(`\d`: the Unicode decimal digits of the running interpreter; on ASCII `0`–`9`), possibly followed
by one final newline (Python's `$`) -/
theorem is_facebook_id_iff_plus (C : CharClass) (hC : plusClass? Gen.C19Facebook.FACEBOOK_ID_RE = some C) (v : Str) :
    is_facebook_id v = true ↔ PlusWord C v := by
  unfold is_facebook_id
  rw [reSearch_eq_searchB]
  exact searchB_plus_iff _ C hC v

/-- the classes of a pattern `^[C]+[S][C]+$`, if the pattern has that shape -/
def fullIdClasses? : Re → Option (CharClass × CharClass × CharClass)
  | .seq .bos (.seq (.rep (.cls C) 1 none true) (.seq (.cls S) (.seq (.rep (.cls D) 1 none true) .eos))) =>
    some (C, S, D)
  | _ => none

theorem fullIdClasses?_eq {r : Re} {C S D : CharClass} (h : fullIdClasses? r = some (C, S, D)) :
    r = .seq .bos (.seq (.rep (.cls C) 1 none true) (.seq (.cls S) (.seq (.rep (.cls D) 1 none true) .eos))) := by
  unfold fullIdClasses? at h
  split at h
  · injection h with h; injection h with h1 h2; injection h2 with h2 h3; rw [h1, h2, h3]
  · cases h

/-- what a validator `^[C]+[S][C']+$` accepts: `a + s + b` with non-empty words `a` over `C`, `b`
over `C'` and one character `s` of `S`, possibly followed by one final newline -/
def TwoWords (C S D : CharClass) (v : Str) : Prop :=
  ∃ a s b, a ≠ [] ∧ b ≠ [] ∧ (∀ c ∈ a, C.mem c = true) ∧ S.mem s = true ∧ (∀ c ∈ b, D.mem c = true) ∧
    (v = a ++ s :: b ∨ v = a ++ s :: b ++ ['\n'])

theorem plus_cls_inv {n : Nat} {C : CharClass} {s t : Str} (h : Match n (.rep (.cls C) 1 none true) s t) :
    ∃ w, w ≠ [] ∧ (∀ c ∈ w, C.mem c = true) ∧ s = w ++ t := by
  have hall := h.all_of_allCls (P := fun D => D == C) (Q := fun c => C.mem c = true)
    (by intro D c hD hc; simp only [beq_iff_eq] at hD; rw [← hD]; exact hc)
    (by simp [allCls])
  obtain ⟨w, hvw, hw⟩ := hall
  have hprog := h.progress (by simp [nullable])
  refine ⟨w, ?_, hw, hvw⟩
  intro h0; rw [h0] at hvw; simp only [List.nil_append] at hvw
  rw [hvw] at hprog; omega

/-- **`is_facebook_full_id`** (`^\d+_\d+$`) accepts exactly `digits + "_" + digits`, possibly followed
by one final newline -/
theorem is_facebook_full_id_iff_two (C S D : CharClass)
    (hC : fullIdClasses? Gen.C19Facebook.FACEBOOK_FULL_ID_RE = some (C, S, D)) (v : Str) :
    is_facebook_full_id v = true ↔ TwoWords C S D v := by
  unfold is_facebook_full_id
  rw [reSearch_eq_searchB, fullIdClasses?_eq hC, searchB_bos, pyMatch_iff (by simp [noNullRep, nullable])]
  constructor
  · rintro ⟨t, ht⟩
    cases ht with
    | seq hb hrest =>
      cases hb with
      | bos _ hl =>
        cases hrest with
        | seq hp1 hrest =>
          cases hrest with
          | seq hs hrest =>
            cases hrest with
            | seq hp2 heos =>
              obtain ⟨a, ha, haC, e1⟩ := plus_cls_inv hp1
              obtain ⟨b, hb, hbD, e2⟩ := plus_cls_inv hp2
              cases hs with
              | cls _ c _ hc =>
                refine ⟨a, c, b, ha, hb, haC, hc, hbD, ?_⟩
                cases heos with
                | eosEnd => left; rw [e1, e2]; simp
                | eosNl => right; rw [e1, e2]; simp
  · rintro ⟨a, s, b, ha, hb, haC, hs, hbD, hv | hv⟩
    · subst hv
      refine ⟨[], Match.seq (Match.bos _ rfl) (Match.seq ?_ (Match.seq (Match.cls S s b hs) (Match.seq ?_ Match.eosEnd)))⟩
      · exact match_plus_cls _ C a (s :: b) ha haC
      · have := match_plus_cls (a ++ s :: b).length D b [] hb hbD
        simpa using this
    · subst hv
      refine ⟨['\n'], Match.seq (Match.bos _ rfl) (Match.seq ?_ (Match.seq (Match.cls S s (b ++ ['\n']) hs) (Match.seq ?_ Match.eosNl)))⟩
      · have := match_plus_cls (a ++ s :: b ++ ['\n']).length C a (s :: (b ++ ['\n'])) ha haC
        simpa using this
      · exact match_plus_cls _ D b ['\n'] hb hbD

/-! ## what `FACEBOOK_DOMAIN_RE` accepts -/

/-- the class of an ASCII letter, case-insensitively -/
def ci (l : Char) : CharClass := ⟨false, [(l.toNat - 32, l.toNat - 32), (l.toNat, l.toNat)]⟩

def dotC : CharClass := ⟨false, [(46, 46)]⟩
def notDotC : CharClass := ⟨true, [(46, 46)]⟩

/-- `(?:^|\.)(?:facebook\.[^.]+|fb\.me)$` under `re.I | re.ASCII`, with the common prefix `f` of
the two branches factored out as CPython's compiler does (the table obligation
`domain_pattern_modelled` compares it with the regenerated term) -/
def domainModel : Re :=
  .seq (.alt .bos (.cls dotC))
    (.seq (.cls (ci 'f'))
      (.seq (.alt
          (.seq (.cls (ci 'a')) (.seq (.cls (ci 'c')) (.seq (.cls (ci 'e')) (.seq (.cls (ci 'b'))
            (.seq (.cls (ci 'o')) (.seq (.cls (ci 'o')) (.seq (.cls (ci 'k')) (.seq (.cls dotC)
              (.rep (.cls notDotC) 1 none true)))))))))
          (.seq (.cls (ci 'b')) (.seq (.cls dotC) (.seq (.cls (ci 'm')) (.cls (ci 'e'))))))
        .eos))

theorem seq_cls_inv {n : Nat} {C : CharClass} {q : Re} {s u : Str} (h : Match n (.seq (.cls C) q) s u) :
    ∃ c s', s = c :: s' ∧ C.mem c = true ∧ Match n q s' u := by
  cases h with
  | seq h1 h2 =>
    cases h1
    exact ⟨_, _, rfl, ‹_›, h2⟩

theorem cls_inv {n : Nat} {C : CharClass} {s u : Str} (h : Match n (.cls C) s u) :
    ∃ c, s = c :: u ∧ C.mem c = true := by
  cases h
  exact ⟨_, rfl, ‹_›⟩

theorem ci_lower (l c : Char) (hl : 'a' ≤ l ∧ l ≤ 'z') (h : (ci l).mem c = true) : lowerChar c = l := by
  have hl1 : 97 ≤ l.toNat := hl.1
  have hl2 : l.toNat ≤ 122 := hl.2
  unfold ci CharClass.mem CharClass.inRanges at h
  simp only [List.any_cons, List.any_nil, Bool.or_false, Bool.false_bne, Bool.or_eq_true, Bool.and_eq_true,
    decide_eq_true_eq] at h
  have hc : c.toNat = l.toNat - 32 ∨ c.toNat = l.toNat := by omega
  rcases hc with hc | hc
  · have hA : 'A' ≤ c ∧ c ≤ 'Z' := by
      constructor
      · show 65 ≤ c.toNat; omega
      · show c.toNat ≤ 90; omega
    unfold lowerChar
    rw [if_pos hA]
    have e : c.toNat + 32 = l.toNat := by omega
    rw [e, Char.ofNat_toNat]
  · have : c = l := Char.toNat_inj.mp hc
    subst this
    unfold lowerChar
    have : ¬ ('A' ≤ c ∧ c ≤ 'Z') := by
      intro ⟨_, h2⟩
      have : c.toNat ≤ 90 := h2
      omega
    rw [if_neg this]

/-- a match of the domain pattern starts (after an optional `.`) with `facebook.` or `fb.me`,
whatever the case of the letters -/
theorem domainModel_match {n : Nat} {s u : Str} (h : Match n domainModel s u) :
    ∃ pre w rest, s = pre ++ w ++ rest ∧
      (lower w = "facebook".toList ∨ lower w = "fb.me".toList) := by
  unfold domainModel at h
  cases h with
  | seq h0 h1 =>
    rename_i t
    obtain ⟨pre, hpre⟩ : ∃ pre, s = pre ++ t := by
      cases h0 with
      | altL hb => cases hb; exact ⟨[], rfl⟩
      | altR hd => obtain ⟨c, e, _⟩ := cls_inv hd; exact ⟨[c], by simp [e]⟩
    obtain ⟨f, t1, e1, hf, h2⟩ := seq_cls_inv h1
    cases h2 with
    | seq halt _ =>
      rename_i t9 _
      cases halt with
      | altL hfb =>
        obtain ⟨a, t2, e2, ha, hfb⟩ := seq_cls_inv hfb
        obtain ⟨c, t3, e3, hc, hfb⟩ := seq_cls_inv hfb
        obtain ⟨e, t4, e4, he, hfb⟩ := seq_cls_inv hfb
        obtain ⟨b, t5, e5, hb, hfb⟩ := seq_cls_inv hfb
        obtain ⟨o, t6, e6, ho, hfb⟩ := seq_cls_inv hfb
        obtain ⟨o', t7, e7, ho', hfb⟩ := seq_cls_inv hfb
        obtain ⟨k, t8, e8, hk, hfb⟩ := seq_cls_inv hfb
        refine ⟨pre, [f, a, c, e, b, o, o', k], t8, ?_, Or.inl ?_⟩
        · rw [hpre, e1, e2, e3, e4, e5, e6, e7, e8]; simp
        · simp only [lower, List.map_cons, List.map_nil,
            ci_lower 'f' f (by decide) hf, ci_lower 'a' a (by decide) ha, ci_lower 'c' c (by decide) hc,
            ci_lower 'e' e (by decide) he, ci_lower 'b' b (by decide) hb, ci_lower 'o' o (by decide) ho,
            ci_lower 'o' o' (by decide) ho', ci_lower 'k' k (by decide) hk]
          rfl
      | altR hme =>
        obtain ⟨b, t2, e2, hb, hme⟩ := seq_cls_inv hme
        obtain ⟨d, t3, e3, hd, hme⟩ := seq_cls_inv hme
        obtain ⟨m, t4, e4, hm, hme⟩ := seq_cls_inv hme
        obtain ⟨e, e5, he⟩ := cls_inv hme
        have hd' : d = '.' := by
          unfold dotC CharClass.mem CharClass.inRanges at hd
          simp only [List.any_cons, List.any_nil, Bool.or_false, Bool.false_bne, Bool.and_eq_true,
            decide_eq_true_eq] at hd
          exact Char.toNat_inj.mp (by show d.toNat = 46; omega)
        refine ⟨pre, [f, b, d, m, e], t9, ?_, Or.inr ?_⟩
        · rw [hpre, e1, e2, e3, e4, e5]; simp
        · simp only [lower, List.map_cons, List.map_nil,
            ci_lower 'f' f (by decide) hf, ci_lower 'b' b (by decide) hb, ci_lower 'm' m (by decide) hm,
            ci_lower 'e' e (by decide) he, hd']
          rfl

theorem mem_tails_suffix {s t : Str} (h : t ∈ tails s) : ∃ a, s = a ++ t := by
  induction s with
  | nil => simp [tails] at h; exact ⟨[], by simp [h]⟩
  | cons c cs ih =>
    simp only [tails, List.mem_cons] at h
    rcases h with h | h
    · exact ⟨[], by simp [h]⟩
    · obtain ⟨a, ha⟩ := ih h
      exact ⟨c :: a, by simp [ha]⟩

/-- **a host accepted by `FACEBOOK_DOMAIN_RE` contains `facebook` or `fb.me`** (case-insensitively) —
for every regex `r` all of whose matches are matches of `domainModel` (`Re.sub`, decided on the
regenerated term by the table obligation `domain_pattern_modelled`) -/
theorem domain_accepts_cases (r : Re) (hr : Re.sub r domainModel = true) (h : Str) (hs : reSearch r h = true) :
    ∃ a w b, h = a ++ w ++ b ∧ (lower w = "facebook".toList ∨ lower w = "fb.me".toList) := by
  rw [reSearch_eq_searchB] at hs
  unfold searchB at hs
  simp only [List.any_eq_true, Bool.not_eq_true', List.isEmpty_eq_false_iff] at hs
  obtain ⟨t, ht, hne⟩ := hs
  obtain ⟨u, hu⟩ := List.exists_mem_of_ne_nil _ hne
  have hm := (matchEnds_sound hu).mono hr
  obtain ⟨pre, w, rest, e, hw⟩ := domainModel_match hm
  obtain ⟨a, ha⟩ := mem_tails_suffix ht
  exact ⟨a ++ pre, w, rest, by rw [ha, e]; simp, hw⟩

end Ural.Facebook
