import UralModel.Lemmas.FingerprintLang
/-!
# C06 — the regenerated ISO-3166 table obeys `CcLaws`

`isCountry code` is `code.upper() in ISO_3166_1_COUNTRIES_ALPHA_2` on the regenerated table.
The only thing asked of the table (`isoCountries_upper`, by `decide`) is that every entry is
made of the letters `A`–`Z`; a code added or removed changes no theorem.
-/
set_option linter.unusedSimpArgs false
set_option linter.unusedVariables false

namespace Ural.Fingerprint
open Ural.Py Ural.UrlParts Ural.Normalize

def isUpperAlpha (c : Char) : Bool := decide ('A' ≤ c ∧ c ≤ 'Z')

/-- **table obligation**: every entry of the regenerated table is made of `A`–`Z` -/
theorem isoCountries_upper :
    Gen.Normalize.isoCountries.all (fun c => c.toList.all isUpperAlpha) = true := by decide +kernel

theorem alpha_of_upperChar_upper (x : Char) (h : isUpperAlpha (upperChar x) = true) :
    isAsciiAlpha x = true := by
  unfold upperChar at h
  simp only [isAsciiAlpha, Bool.or_eq_true, decide_eq_true_eq]
  split at h
  · rename_i hx; exact Or.inl hx
  · simp only [isUpperAlpha, decide_eq_true_eq] at h; exact Or.inr h

theorem upperChar_lowerChar (x : Char) : upperChar (lowerChar x) = upperChar x := by
  have h1 : ('a' : Char).toNat = 97 := by decide
  have h2 : ('z' : Char).toNat = 122 := by decide
  have h3 : ('A' : Char).toNat = 65 := by decide
  have h4 : ('Z' : Char).toNat = 90 := by decide
  unfold lowerChar
  split
  · rename_i hu
    rw [char_le_iff, char_le_iff, h3, h4] at hu
    have hl : (Char.ofNat (x.toNat + 32)).toNat = x.toNat + 32 := toNat_ofNat_small _ (by omega)
    have e1 : upperChar (Char.ofNat (x.toNat + 32)) = Char.ofNat x.toNat := by
      unfold upperChar
      have : 'a' ≤ Char.ofNat (x.toNat + 32) ∧ Char.ofNat (x.toNat + 32) ≤ 'z' := by
        rw [char_le_iff, char_le_iff, h1, h2, hl]; omega
      rw [if_pos this, hl]; simp
    have e2 : upperChar x = x := by
      unfold upperChar
      have : ¬ ('a' ≤ x ∧ x ≤ 'z') := by rw [char_le_iff, char_le_iff, h1, h2]; omega
      rw [if_neg this]
    rw [e1, e2, Char.ofNat_toNat]
  · rfl

theorem upper_lower (s : Str) : upper (lower s) = upper s := by
  simp [upper, lower, List.map_map, Function.comp_def, upperChar_lowerChar]

/-- **the regenerated table obeys the laws** -/
theorem ccLaws_isCountry : CcLaws isCountry := by
  refine ⟨?_, ?_⟩
  · intro c hc x hx
    simp only [isCountry, List.any_eq_true, beq_iff_eq] at hc
    obtain ⟨e, he, heq⟩ := hc
    have hall := List.all_eq_true.1 isoCountries_upper e he
    rw [heq] at hall
    have hux : upperChar x ∈ upper c := by
      simp only [upper, List.mem_map]; exact ⟨x, hx, rfl⟩
    exact alpha_of_upperChar_upper x (List.all_eq_true.1 hall _ hux)
  · intro c
    simp only [isCountry, upper_lower]

end Ural.Fingerprint
