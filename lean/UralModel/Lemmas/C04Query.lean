import UralModel.Model.Normalize
import UralModel.Lemmas.Canonicalize
import UralModel.Lemmas.CanonModes
import UralModel.Lemmas.Redirect
import UralModel.Lemmas.C04Order
/-!
# C04 — the query: from the raw query string to the items the filter sees

* `fixMistakes_join`: `MISTAKES_RE.sub("&", …)` on `"&".join(items)` (items without `&`) leaves
  the first item alone and cuts a leading `amp;` / `amp%3B` (re.I) off every other item.
* `seenItems`: the items that reach `should_strip_query_item`, as a function of the decoded
  item list `safely_unquote_qsl(safe_qsl_iter(query))`.
* `outQuery_eq`: the query string of the result depends on the raw query only through them.
-/
set_option linter.unusedSimpArgs false
namespace Ural.Normalize
open Ural Ural.Py Ural.UrlParts Ural.Quote Ural.Canonicalize

/-! ## `fix_common_query_mistakes` on an `&`-joined list -/

theorem lowerChar_eq_amp {c : Char} (h : lowerChar c = '&') : c = '&' := by
  unfold lowerChar at h
  split at h
  · rename_i hc
    exfalso
    have h1 : c.toNat + 32 < 0xd800 := by
      have := hc.2; simp only [Char.le_def, UInt32.le_iff_toNat_le] at this
      have e' : c.val.toNat = c.toNat := rfl
      simp at this; omega
    have : (Char.ofNat (c.toNat + 32)).toNat = 38 := by rw [h]; rfl
    rw [toNat_ofNat_of_lt h1] at this
    have h3 := hc.1
    simp only [Char.le_def, UInt32.le_iff_toNat_le] at h3
    have e' : c.val.toNat = c.toNat := rfl
    simp at h3; omega
  · exact h

theorem ciMatch_amp {c : Char} (h : ciMatch '&' c = true) : c = '&' := by
  unfold ciMatch at h
  simp only [Bool.or_eq_true, decide_eq_true_eq, Bool.and_eq_true] at h
  rcases h with ((h | h) | h) | h
  · exact lowerChar_eq_amp h
  · exact absurd h.1 (by decide)
  · exact absurd h.1 (by decide)
  · exact absurd h.1 (by decide)

theorem mistakeHere_of_ne {c : Char} (hc : c ≠ '&') (cs : Str) : mistakeHere (c :: cs) = none := by
  unfold mistakeHere
  have : matchLit "&amp".toList (c :: cs) = none := by
    show matchLit ('&' :: "amp".toList) (c :: cs) = none
    simp only [matchLit]
    split
    · rename_i h; exact absurd (ciMatch_amp h) hc
    · rfl
  rw [this]

/-- inside an item nothing is matched -/
theorem fixFrom_item (i t : Str) (hi : '&' ∉ i) :
    fixMistakesFrom (i ++ t) 0 = i ++ fixMistakesFrom t 0 := by
  induction i with
  | nil => rfl
  | cons c cs ih =>
    have hc : c ≠ '&' := fun e => hi (by simp [e])
    have hcs : '&' ∉ cs := fun e => hi (by simp [e])
    simp only [List.cons_append, fixMistakesFrom, mistakeHere_of_ne hc, ih hcs]

theorem fixFrom_skip (m rest : Str) : fixMistakesFrom (m ++ rest) m.length = fixMistakesFrom rest 0 := by
  induction m with
  | nil => rfl
  | cons c cs ih => simp only [List.cons_append, List.length_cons, fixMistakesFrom, ih]

/-- a pattern none of whose characters matches `&` -/
def NoAmpPat (pat : List Char) : Prop := ∀ c ∈ pat, ciMatch c '&' = false

/-- what follows an item: nothing, or the `&` of the next item -/
def ItemEnd (t : Str) : Prop := t = [] ∨ ∃ r, t = '&' :: r

theorem matchLit_item (pat : List Char) (hpat : NoAmpPat pat) (i t : Str) (ht : ItemEnd t) :
    matchLit pat (i ++ t) = (matchLit pat i).map (· ++ t) := by
  induction pat generalizing i with
  | nil => simp [matchLit]
  | cons p ps ih =>
    have hps : NoAmpPat ps := fun c hc => hpat c (List.mem_cons_of_mem _ hc)
    cases i with
    | nil =>
      rcases ht with rfl | ⟨r, rfl⟩
      · simp [matchLit]
      · simp [matchLit, hpat p (by simp)]
    | cons c cs =>
      simp only [List.cons_append, matchLit]
      split
      · exact ih hps cs
      · rfl

/-- `amp(?:%3B|;)` at the head of an item: what follows -/
def ampRest (i : Str) : Option Str :=
  (matchLit "amp".toList i).bind fun r => (matchLit "%3b".toList r).or (matchLit ";".toList r)

/-- the item without a leading `amp;` / `amp%3B` (re.I) -/
def dropAmp (i : Str) : Str := (ampRest i).getD i

theorem mistakeHere_item (i t : Str) (ht : ItemEnd t) :
    mistakeHere ('&' :: i ++ t) = (ampRest i).map (· ++ t) := by
  unfold mistakeHere ampRest
  have h0 : matchLit "&amp".toList ('&' :: i ++ t) = matchLit "amp".toList (i ++ t) := by
    show matchLit ('&' :: "amp".toList) ('&' :: (i ++ t)) = _
    simp only [matchLit]
    have : ciMatch '&' '&' = true := by decide
    simp [this]
  rw [h0, matchLit_item _ (by intro c hc; revert c; decide) i t ht]
  cases h : matchLit "amp".toList i with
  | none => rfl
  | some r =>
    simp only [Option.map_some, Option.bind_some]
    rw [matchLit_item _ (by intro c hc; revert c; decide) r t ht,
      matchLit_item _ (by intro c hc; revert c; decide) r t ht]
    cases matchLit "%3b".toList r <;> cases matchLit ";".toList r <;> rfl

theorem ampRest_suffix {i r : Str} (h : ampRest i = some r) : ∃ pre, i = pre ++ r := by
  change ((matchLit "amp".toList i).bind fun r =>
    (matchLit "%3b".toList r).or (matchLit ";".toList r)) = some r at h
  cases h1 : matchLit "amp".toList i with
  | none => rw [h1] at h; cases h
  | some r1 =>
    rw [h1] at h
    change (matchLit "%3b".toList r1).or (matchLit ";".toList r1) = some r at h
    obtain ⟨p1, hp1⟩ := matchLit_suffix _ _ _ h1
    cases h2 : matchLit "%3b".toList r1 with
    | some r2 =>
      rw [h2] at h
      have h : r2 = r := by simpa using h
      obtain ⟨p2, hp2⟩ := matchLit_suffix _ _ _ h2
      exact ⟨p1 ++ p2, by rw [← hp1, ← hp2, ← h]; simp⟩
    | none =>
      rw [h2] at h
      have h : matchLit ";".toList r1 = some r := by simpa using h
      obtain ⟨p2, hp2⟩ := matchLit_suffix _ _ _ h
      exact ⟨p1 ++ p2, by rw [← hp1, ← hp2]; simp⟩

theorem amp_not_mem_dropAmp {i : Str} (hi : '&' ∉ i) : '&' ∉ dropAmp i := by
  unfold dropAmp
  cases h : ampRest i with
  | none => simpa using hi
  | some r =>
    obtain ⟨pre, hpre⟩ := ampRest_suffix h
    simp only [Option.getD_some]
    intro hm
    exact hi (by rw [hpre]; simp [hm])

/-- an item after its `&` -/
theorem fixFrom_amp_item (i t : Str) (hi : '&' ∉ i) (ht : ItemEnd t) :
    fixMistakesFrom ('&' :: i ++ t) 0 = '&' :: dropAmp i ++ fixMistakesFrom t 0 := by
  have hm := mistakeHere_item i t ht
  simp only [List.cons_append] at hm
  simp only [List.cons_append, fixMistakesFrom, hm]
  unfold dropAmp
  cases h : ampRest i with
  | none =>
    simp only [Option.map_none, Option.getD_none]
    rw [fixFrom_item i t hi]
  | some r =>
    obtain ⟨pre, hpre⟩ := ampRest_suffix h
    have hr : '&' ∉ r := fun hm => hi (by rw [hpre]; simp [hm])
    simp only [Option.map_some, Option.getD_some]
    have hlen : ('&' :: (i ++ t)).length - (r ++ t).length - 1 = pre.length := by
      rw [hpre]; simp; omega
    rw [hlen]
    have : i ++ t = pre ++ (r ++ t) := by rw [hpre]; simp
    rw [this, fixFrom_skip, fixFrom_item r t hr]

/-- the items after the first, each with its `&` -/
def tailStr (is : List Str) : Str := is.flatMap fun i => '&' :: i

theorem itemEnd_tailStr (is : List Str) : ItemEnd (tailStr is) := by
  cases is with
  | nil => left; rfl
  | cons i is => right; exact ⟨i ++ tailStr is, by simp [tailStr]⟩

theorem join_amp_eq (i0 : Str) (is : List Str) : join ['&'] (i0 :: is) = i0 ++ tailStr is := by
  induction is generalizing i0 with
  | nil => simp [join, tailStr]
  | cons i is ih =>
    have : join ['&'] (i0 :: i :: is) = i0 ++ ['&'] ++ join ['&'] (i :: is) := rfl
    rw [this, ih i]
    simp [tailStr]

theorem fixFrom_tailStr (is : List Str) (h : ∀ i ∈ is, '&' ∉ i) :
    fixMistakesFrom (tailStr is) 0 = tailStr (is.map dropAmp) := by
  induction is with
  | nil => rfl
  | cons i is ih =>
    have e : tailStr (i :: is) = '&' :: i ++ tailStr is := by simp [tailStr]
    rw [e, fixFrom_amp_item i _ (h i (by simp)) (itemEnd_tailStr is),
      ih (fun x hx => h x (List.mem_cons_of_mem _ hx))]
    simp [tailStr]

/-- **`fix_common_query_mistakes("&".join(items))`**: the first item stays, every other item
loses a leading `amp;` / `amp%3B` -/
theorem fixMistakes_join (i0 : Str) (is : List Str) (h : ∀ i ∈ i0 :: is, '&' ∉ i) :
    fixCommonQueryMistakes (join ['&'] (i0 :: is)) = join ['&'] (i0 :: is.map dropAmp) := by
  unfold fixCommonQueryMistakes
  rw [join_amp_eq, join_amp_eq, fixFrom_item i0 _ (h i0 (by simp)),
    fixFrom_tailStr is (fun x hx => h x (List.mem_cons_of_mem _ hx))]

/-! ## the items the filter sees -/

abbrev unqItem (kv : QItem) : QItem := (unquoteQueryItem kv.1, kv.2.map unquoteQueryItem)

theorem unquoteQsl_eq (l : List QItem) : unquoteQsl l = l.map unqItem := by
  unfold unquoteQsl
  apply List.map_congr_left
  intro kv _
  obtain ⟨k, v⟩ := kv
  rfl

/-- `safely_unquote_qsl(safe_qsl_iter(query))` -/
def decoded (q : Str) : List QItem := unquoteQsl (safeQslIter q)

theorem decoded_ne_nil (q : Str) : decoded q ≠ [] := by
  unfold decoded
  rw [safeQslIter_eq, unquoteQsl_eq]
  simpa using splitOn_ne_nil q '&'

/-- the decoded items of `"&".join(items)` (items without `&`): each item split at its first
`=` and unescaped -/
theorem decoded_join (R : List Str) (hne : R ≠ []) (h : ∀ r ∈ R, '&' ∉ r) :
    decoded (join ['&'] R) = R.map (fun r => unqItem (cutFirst '=' r)) := by
  unfold decoded
  rw [safeQslIter_eq, splitOn_join '&' R hne h, unquoteQsl_eq, List.map_map]
  rfl

theorem wf_decoded (q : Str) : ∀ kv ∈ decoded q, ItemWf kv :=
  wf_unquoteQsl _ (wf_safeQslIter q)

/-- what the second split finds for an item that is not the first: its serialisation without
a leading `amp;`, split at the first `=` and unescaped again -/
def seenTail (kv : QItem) : QItem := unqItem (cutFirst '=' (dropAmp (serializeItem kv)))

/-- … and for the first item -/
def seenHead (kv : QItem) : QItem := unqItem (cutFirst '=' (serializeItem kv))

/-- the items that reach the filter, from the decoded items of the raw query -/
def seenItems (fix : Bool) (l : List QItem) : List QItem :=
  if fix then
    match l with
    | [] => []
    | kv :: rest => seenHead kv :: rest.map seenTail
  else l

theorem seenItems_true_eq_map (L : List QItem)
    (h : ∀ kv ∈ L, dropAmp (serializeItem kv) = serializeItem kv) :
    seenItems true L = L.map seenHead := by
  cases L with
  | nil => rfl
  | cons kv rest =>
    simp only [seenItems, if_true, List.map_cons, List.cons.injEq, true_and]
    apply List.map_congr_left
    intro x hx
    unfold seenTail seenHead
    rw [h x (by simp [hx])]

/-- the query after `fix_common_query_mistakes` -/
def fixedQ (o : Opts) (q : Str) : Str :=
  if o.fixCommonMistakes && !q.isEmpty then
    fixCommonQueryMistakes (safeSerializeQsl (unquoteQsl (safeQslIter q)))
  else q

theorem fixedQuery_eq (o : Opts) (p : Parsed) : fixedQuery o p = fixedQ o p.query := rfl

theorem decoded_nil : decoded [] = [([], none)] := by decide

theorem serialize_nil_item : safeSerializeQsl [(([] : Str), (none : Option Str))] = [] := by decide

/-- with the repair switched on, the repaired query is the repaired serialisation of the
decoded items — also for the empty query -/
theorem fixedQ_on (o : Opts) (hf : o.fixCommonMistakes = true) (q : Str) :
    fixedQ o q = fixCommonQueryMistakes (safeSerializeQsl (decoded q)) := by
  unfold fixedQ decoded
  by_cases hq : q = []
  · subst hq
    simp only [hf, List.isEmpty_nil, Bool.not_true, Bool.and_false, Bool.false_eq_true, if_false]
    decide
  · have : q.isEmpty = false := by cases q <;> simp_all
    simp [hf, this]

theorem fixedQ_items (o : Opts) (hf : o.fixCommonMistakes = true) (q : Str) :
    ∃ kv rest, decoded q = kv :: rest ∧
      fixedQ o q = join ['&'] (serializeItem kv :: rest.map (fun x => dropAmp (serializeItem x))) := by
  have hne := decoded_ne_nil q
  have hwf := wf_decoded q
  cases hd : decoded q with
  | nil => exact absurd hd hne
  | cons kv rest =>
    refine ⟨kv, rest, rfl, ?_⟩
    rw [fixedQ_on o hf, hd, safeSerializeQsl_eq]
    simp only [List.map_cons]
    rw [fixMistakes_join, List.map_map]
    · rfl
    · intro i hi
      rw [hd] at hwf
      simp only [List.mem_cons, List.mem_map] at hi
      rcases hi with rfl | ⟨x, hx, rfl⟩
      · exact amp_not_mem_serializeItem kv (hwf kv (by simp))
      · exact amp_not_mem_serializeItem x (hwf x (by simp [hx]))

/-- **the second split**: `safely_unquote_qsl(safe_qsl_iter(repaired query))` is `seenItems` of
the decoded items of the raw query -/
theorem decoded_fixedQ (o : Opts) (q : Str) :
    decoded (fixedQ o q) = seenItems o.fixCommonMistakes (decoded q) ∨
      (o.fixCommonMistakes = false ∧ fixedQ o q = q) := by
  by_cases hf : o.fixCommonMistakes = true
  · left
    obtain ⟨kv, rest, hd, hfx⟩ := fixedQ_items o hf q
    have hwf := wf_decoded q
    rw [hd] at hwf
    rw [hfx, hd]
    unfold decoded
    rw [safeQslIter_eq, splitOn_join '&' _ (by simp)]
    · simp only [seenItems, hf, if_true, List.map_cons, List.map_map, unquoteQsl_eq]
      rfl
    · intro p hp
      simp only [List.mem_cons, List.mem_map] at hp
      rcases hp with rfl | ⟨x, hx, rfl⟩
      · exact amp_not_mem_serializeItem kv (hwf kv (by simp))
      · exact amp_not_mem_dropAmp (amp_not_mem_serializeItem x (hwf x (by simp [hx])))
  · right
    have hf' : o.fixCommonMistakes = false := by simpa using hf
    exact ⟨hf', by simp [fixedQ, hf']⟩

theorem decoded_fixedQ' (o : Opts) (q : Str) :
    decoded (fixedQ o q) = seenItems o.fixCommonMistakes (decoded q) := by
  rcases decoded_fixedQ o q with h | ⟨hf, hq⟩
  · exact h
  · rw [hq]; simp [seenItems, hf]

/-! ## the query string of the result -/

/-- the filter of `normalize_url` as a predicate on items -/
def keepItem (o : Opts) (host : Option Str) (it : QItem) : Bool :=
  !shouldStripQueryItem o.normalizeAmp o.queryItemFilter (domainFilter host) it

def sortIf (b : Bool) (l : List QItem) : List QItem := if b then sortQsl l else l

/-- quoting block and `safe_serialize_qsl` -/
def renderQsl (quoted : Bool) (l : List QItem) : Str :=
  safeSerializeQsl (if quoted then quoteQsl (unquoteQsl l) else unquoteQsl l)

/-- the empty item is kept by the filter, whatever the host and the options (so that an empty
query and its single empty item serialise alike) -/
def KeepsEmpty : Prop :=
  ∀ (amp : Bool) (qf : QueryItemFilter) (df : Option (List String)),
    (df = none ∨ ∃ e ∈ Gen.Normalize.perDomainQueryFilters, df = some e.2) →
    shouldStripQueryItem amp qf df ([], none) = false

theorem domainFilter_cases (host : Option Str) :
    domainFilter host = none ∨ ∃ e ∈ Gen.Normalize.perDomainQueryFilters, domainFilter host = some e.2 := by
  unfold domainFilter
  cases host with
  | none => left; rfl
  | some h =>
    simp only
    split
    · left; rfl
    · cases hf : Gen.Normalize.perDomainQueryFilters.find? (fun e => endsWith h e.1.toList) with
      | none => left; rfl
      | some e => right; exact ⟨e, List.mem_of_find?_eq_some hf, rfl⟩

theorem renderQsl_empty_item (quoted : Bool) : renderQsl quoted [([], none)] = [] := by
  cases quoted <;> decide

theorem renderQsl_nil (quoted : Bool) : renderQsl quoted [] = [] := by
  cases quoted <;> decide

theorem sortIf_singleton (b : Bool) (x : QItem) : sortIf b [x] = [x] := by
  cases b <;> simp [sortIf, sortQsl, insertItem]

/-- **the query of the result depends on the raw query only through `seenItems (decoded q)`**
(`lowercase = False`): filter, sort on request, quote on request, serialise -/
theorem outQuery_eq (hk : KeepsEmpty) (o : Opts) (hl : o.lowercase = false) (host : Option Str)
    (q : Str) :
    renderQsl o.quoted (filterQuery o host (fixedQ o q)) =
      renderQsl o.quoted (sortIf o.sortQuery
        ((seenItems o.fixCommonMistakes (decoded q)).filter (keepItem o host))) := by
  have hd := decoded_fixedQ' o q
  unfold filterQuery
  by_cases he : (fixedQ o q).isEmpty = true
  · simp only [he, if_true]
    have hq0 : fixedQ o q = [] := by cases h : fixedQ o q <;> simp_all
    rw [hq0, decoded_nil] at hd
    rw [← hd]
    have hkeep : keepItem o host ([], none) = true := by
      unfold keepItem
      rw [hk o.normalizeAmp o.queryItemFilter (domainFilter host) (domainFilter_cases host)]
      rfl
    simp only [List.filter_cons, hkeep, if_true, List.filter_nil, sortIf_singleton]
    rw [renderQsl_nil, renderQsl_empty_item]
  · have he' : (fixedQ o q).isEmpty = false := by simpa using he
    simp only [he', Bool.false_eq_true, if_false, hl]
    unfold decoded at hd
    rw [hd]
    rfl

end Ural.Normalize
