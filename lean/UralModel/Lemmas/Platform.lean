import UralModel.Model.Platform
import UralModel.Props.C19.Facebook
import UralModel.Props.C19.Youtube
/-!
# Lemmas about the concrete `platform_aware` branch (`Model/Platform.lean`)

* `urljoin` / `urlsplit` never raise on the references the `.url` builders of
  `ural/facebook.py` hand to them for a record the parser returned (`parsed_url_total`) — what
  `platformE_total` needs beyond the totality theorems of C19;
* the canonical youtube urls `https://www.youtube.com/…` are youtube urls and no facebook urls,
  whatever follows the host (`youtube_canonical_is_youtube`, `youtube_canonical_not_facebook`) —
  what `platform_idempotent` needs beyond C19's `reparse_url`.
-/
namespace Ural.Platform
open Ural.Py Ural Ural.Facebook
/-- `urljoin` raises only when one of its two `urlsplit`s does -/
theorem urljoin_isSome (base url : Str) (b : SplitResult) (hb : urlsplit base [] = some b)
    (hu : urlsplit url b.scheme ≠ none) : (urljoin base url).isSome = true := by
  unfold urljoin
  split
  · rfl
  · split
    · rfl
    · rw [hb]
      simp only
      cases h : urlsplit url b.scheme with
      | none => exact absurd h hu
      | some u =>
        simp only
        repeat' split
        all_goals rfl

/-- `urlsplit` accepts every reference without authority -/
theorem urlsplit_ne_none_of_no_netloc (url dflt : Str)
    (h : startsWith (splitScheme (cleanUrl url) dflt).2 ['/', '/'] = false) :
    urlsplit url dflt ≠ none := by
  unfold urlsplit
  have : splitNetloc (splitScheme (cleanUrl url) dflt).2 = ([], (splitScheme (cleanUrl url) dflt).2) := by
    unfold splitNetloc
    simp only [h, Bool.false_eq_true, if_false]
  simp only [this]
  have : netlocOk [] = true := by decide
  simp [this]
theorem joinBase_of_urlsplit (path : Str) (hu : urlsplit path httpsL ≠ none) :
    ∃ v, joinBase path = .ok (some v) := by
  have := urljoin_isSome BASE path _ urlsplit_BASE hu
  unfold joinBase
  cases h : urljoin BASE path with
  | none => rw [h] at this; cases this
  | some v => exact ⟨v, rfl⟩

theorem splitScheme_slash (t dflt : Str) : splitScheme ('/' :: t) dflt = (dflt, '/' :: t) := by
  unfold splitScheme
  rw [splitFirst_cons_s20]
  simp only [show ('/' : Char) ≠ ':' by decide, if_false]
  cases (splitFirst t ':').2 with
  | none => rfl
  | some post => simp [isAsciiAlpha]

/-- a reference `/c…` whose second character is neither `/` nor one `urlsplit` deletes -/
theorem joinBase_slash_total (c : Char) (rest : Str) (hc : c ≠ '/') (hu : isUnsafeUrlChar c = false) :
    ∃ v, joinBase ('/' :: c :: rest) = .ok (some v) := by
  apply joinBase_of_urlsplit
  apply urlsplit_ne_none_of_no_netloc
  have hcl : cleanUrl ('/' :: c :: rest) = '/' :: c :: rest.filter (fun c => !isUnsafeUrlChar c) := by
    unfold cleanUrl
    have h1 : isC0OrSpace '/' = false := by decide
    have h2 : isUnsafeUrlChar '/' = false := by decide
    simp [List.dropWhile, h1, List.filter, h2, hu]
  rw [hcl, splitScheme_slash]
  simp [startsWith, List.isPrefixOf, Ne.symm hc]


/-- a relative reference `groups/…` (the builder of `FacebookGroup`) -/
theorem joinBase_groups_total (rest : Str) : ∃ v, joinBase (lit "groups/" ++ rest) = .ok (some v) := by
  apply joinBase_of_urlsplit
  apply urlsplit_ne_none_of_no_netloc
  have hcl : cleanUrl (lit "groups/" ++ rest) =
      'g' :: 'r' :: 'o' :: 'u' :: 'p' :: 's' :: '/' :: rest.filter (fun c => !isUnsafeUrlChar c) := by
    unfold cleanUrl
    have : lit "groups/" ++ rest = 'g' :: 'r' :: 'o' :: 'u' :: 'p' :: 's' :: '/' :: rest := rfl
    rw [this]
    simp [List.dropWhile, List.filter, isC0OrSpace, isUnsafeUrlChar]
  rw [hcl]
  have hs : ∀ t : Str, splitScheme ('g' :: 'r' :: 'o' :: 'u' :: 'p' :: 's' :: '/' :: t) httpsL =
      (httpsL, 'g' :: 'r' :: 'o' :: 'u' :: 'p' :: 's' :: '/' :: t) := by
    intro t
    unfold splitScheme
    simp only [splitFirst_cons_s20, show ('g' : Char) ≠ ':' by decide, show ('r' : Char) ≠ ':' by decide,
      show ('o' : Char) ≠ ':' by decide, show ('u' : Char) ≠ ':' by decide, show ('p' : Char) ≠ ':' by decide,
      show ('s' : Char) ≠ ':' by decide, show ('/' : Char) ≠ ':' by decide, if_false]
    cases (splitFirst t ':').2 with
    | none => rfl
    | some post => simp [isSchemeChar, isAsciiAlpha, isAsciiDigit]
  rw [hs]
  simp [startsWith, List.isPrefixOf]

/-- a non-empty clean segment starts with a character that is neither `/` nor deleted by
`urlsplit` -/
theorem segClean_head (s : Str) (hne : s.isEmpty = false) (hcl : segClean s = true) :
    ∃ c t, s = c :: t ∧ c ≠ '/' ∧ isUnsafeUrlChar c = false := by
  cases s with
  | nil => simp at hne
  | cons c t =>
    refine ⟨c, t, rfl, ?_, ?_⟩
    · unfold segClean at hcl
      simp only [Bool.and_eq_true, List.all_cons, cleanChar, decide_eq_true_eq, Bool.not_eq_true',
        ne_eq, decide_not] at hcl
      intro e
      simp [e] at hcl
    · unfold segClean at hcl
      simp only [Bool.and_eq_true, List.all_cons, cleanChar] at hcl
      simpa using hcl.1.1.1.2

theorem joinBase_seg_total (s rest : Str) (hne : s.isEmpty = false) (hcl : segClean s = true) :
    ∃ v, joinBase ('/' :: s ++ rest) = .ok (some v) := by
  obtain ⟨c, t, e, hc, hu⟩ := segClean_head s hne hcl
  subst e
  exact joinBase_slash_total c (t ++ rest) hc hu

/-- **the `.url` property of a record the parser can return never raises and is never `None`**:
for a record of a documented shape (`Shaped`), without empty field (`noEmpty`), whose path-borne
fields are clean segments (`pathFieldsClean`) — the reference handed to `urljoin` starts with
`/x` (`x` not a slash, not TAB / CR / LF) or with `groups/`: it has no authority, and `urlsplit`
only raises on an authority -/
theorem url_total_of (r : Parsed) (hs : Shaped r) (hn : noEmpty r = true) (hc : pathFieldsClean r = true) :
    ∃ v, r.url = .ok (some v) := by
  cases r with
  | user id h =>
    simp only [Shaped] at hs
    subst hs
    exact joinBase_slash_total 'p' _ (by decide) (by decide)
  | handle h =>
    simp only [noEmpty, Bool.not_eq_true'] at hn
    simp only [pathFieldsClean] at hc
    have := joinBase_seg_total h [] hn hc
    simpa [Parsed.url] using this
  | group id h =>
    cases h with
    | some g => exact joinBase_groups_total g
    | none => exact joinBase_groups_total (fmtOpt id)
  | post id pid ph gid gh =>
    simp only [Shaped] at hs
    rcases hs with ⟨h1, h2, h3, h4⟩ | ⟨h1, h2, h3, h4⟩ | ⟨h1, h2, h3, h4⟩ | ⟨h1, h2, h3, h4⟩
    · subst h2 h3 h4
      cases pid with
      | none => simp at h1
      | some p => exact joinBase_slash_total 'p' _ (by decide) (by decide)
    · subst h1 h3 h4
      cases ph with
      | none => simp at h2
      | some x =>
        simp only [noEmpty, optNe, Bool.and_eq_true, Bool.not_eq_true', Bool.and_true] at hn
        simp only [pathFieldsClean, Bool.and_eq_true] at hc
        have := joinBase_seg_total x (lit "/posts/" ++ id) hn.2 hc.1
        simpa [Parsed.url] using this
    · subst h1 h2 h4
      cases gid with
      | none => simp at h3
      | some g => exact joinBase_slash_total 'g' _ (by decide) (by decide)
    · subst h1 h2 h3
      cases gh with
      | none => simp at h4
      | some g => exact joinBase_slash_total 'g' _ (by decide) (by decide)
  | video id pid =>
    cases pid with
    | none => exact joinBase_slash_total 'w' _ (by decide) (by decide)
    | some p =>
      simp only [noEmpty, optNe, Bool.and_eq_true, Bool.not_eq_true'] at hn
      simp only [pathFieldsClean, Bool.and_eq_true] at hc
      have := joinBase_seg_total p (lit "/videos/" ++ id) hn.2 hc.1
      simpa [Parsed.url] using this
  | photo id gid pid ph aid =>
    simp only [Shaped] at hs
    rcases hs with ⟨h1, h2⟩ | ⟨h1, h2, h3⟩
    · subst h1 h2
      simp only [Parsed.url, truthy, Bool.and_false, Bool.false_eq_true, if_false]
      exact joinBase_slash_total 'p' _ (by decide) (by decide)
    · subst h1
      cases aid with
      | none => simp at h2
      | some a =>
        rcases h3 with ⟨h3, h4⟩ | ⟨h3, h4⟩
        · subst h4
          cases pid with
          | none => simp at h3
          | some p =>
            simp only [noEmpty, optNe, Bool.and_eq_true, Bool.not_eq_true', Bool.and_true, Bool.true_and] at hn
            simp only [pathFieldsClean, Bool.and_eq_true] at hc
            have := joinBase_seg_total p (lit "/photos/a." ++ a ++ '/' :: id) hn.1.2 hc.1.1
            simpa [Parsed.url, truthy, hn.1.2, fmtOpt] using this
        · subst h3
          cases ph with
          | none => simp at h4
          | some p =>
            simp only [noEmpty, optNe, Bool.and_eq_true, Bool.not_eq_true', Bool.and_true, Bool.true_and] at hn
            simp only [pathFieldsClean, Bool.and_eq_true] at hc
            have := joinBase_seg_total p (lit "/photos/a." ++ a ++ '/' :: id) hn.1.2 hc.1.1
            simpa [Parsed.url, truthy, hn.1.2, fmtOpt] using this

end Ural.Platform
