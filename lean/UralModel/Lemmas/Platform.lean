import UralModel.Model.Platform
import UralModel.Props.C19.Facebook
import UralModel.Props.C19.Youtube
/-!
# Lemmas about the concrete `platform_aware` branch (`Model/Platform.lean`)

* `urljoin` / `urlsplit` never raise on the references the `.url` builders of
  `ural/facebook.py` hand to them for a record the parser returned (`parsed_url_total`) — what
  `platformE_total` needs beyond the totality theorems of C19;
* the canonical youtube urls `https://www.youtube.com/…` are youtube urls and no facebook urls,
  whatever follows the host (`youtube_canonical_is_youtube`, `youtube_canonical_not_facebook`) —
  what `platform_idempotent` needs beyond C19's `reparse_url`.
-/
namespace Ural.Platform
open Ural.Py Ural Ural.Facebook
/-- `urljoin` raises only when one of its two `urlsplit`s does -/
theorem urljoin_isSome (base url : Str) (b : SplitResult) (hb : urlsplit base [] = some b)
    (hu : urlsplit url b.scheme ≠ none) : (urljoin base url).isSome = true := by
  unfold urljoin
  split
  · rfl
  · split
    · rfl
    · rw [hb]
      simp only
      cases h : urlsplit url b.scheme with
      | none => exact absurd h hu
      | some u =>
        simp only
        repeat' split
        all_goals rfl

/-- `urlsplit` accepts every reference without authority -/
theorem urlsplit_ne_none_of_no_netloc (url dflt : Str)
    (h : startsWith (splitScheme (cleanUrl url) dflt).2 ['/', '/'] = false) :
    urlsplit url dflt ≠ none := by
  unfold urlsplit
  have : splitNetloc (splitScheme (cleanUrl url) dflt).2 = ([], (splitScheme (cleanUrl url) dflt).2) := by
    unfold splitNetloc
    simp only [h, Bool.false_eq_true, if_false]
  simp only [this]
  have : netlocOk [] = true := by decide
  simp [this]
theorem joinBase_of_urlsplit (path : Str) (hu : urlsplit path httpsL ≠ none) :
    ∃ v, joinBase path = .ok (some v) := by
  have := urljoin_isSome BASE path _ urlsplit_BASE hu
  unfold joinBase
  cases h : urljoin BASE path with
  | none => rw [h] at this; cases this
  | some v => exact ⟨v, rfl⟩

theorem splitScheme_slash (t dflt : Str) : splitScheme ('/' :: t) dflt = (dflt, '/' :: t) := by
  unfold splitScheme
  rw [splitFirst_cons_s20]
  simp only [show ('/' : Char) ≠ ':' by decide, if_false]
  cases (splitFirst t ':').2 with
  | none => rfl
  | some post => simp [isAsciiAlpha]

/-- a reference `/c…` whose second character is neither `/` nor one `urlsplit` deletes -/
theorem joinBase_slash_total (c : Char) (rest : Str) (hc : c ≠ '/') (hu : isUnsafeUrlChar c = false) :
    ∃ v, joinBase ('/' :: c :: rest) = .ok (some v) := by
  apply joinBase_of_urlsplit
  apply urlsplit_ne_none_of_no_netloc
  have hcl : cleanUrl ('/' :: c :: rest) = '/' :: c :: rest.filter (fun c => !isUnsafeUrlChar c) := by
    unfold cleanUrl
    have h1 : isC0OrSpace '/' = false := by decide
    have h2 : isUnsafeUrlChar '/' = false := by decide
    simp [List.dropWhile, h1, List.filter, h2, hu]
  rw [hcl, splitScheme_slash]
  simp [startsWith, List.isPrefixOf, Ne.symm hc]


/-- a relative reference `groups/…` (the builder of `FacebookGroup`) -/
theorem joinBase_groups_total (rest : Str) : ∃ v, joinBase (lit "groups/" ++ rest) = .ok (some v) := by
  apply joinBase_of_urlsplit
  apply urlsplit_ne_none_of_no_netloc
  have hcl : cleanUrl (lit "groups/" ++ rest) =
      'g' :: 'r' :: 'o' :: 'u' :: 'p' :: 's' :: '/' :: rest.filter (fun c => !isUnsafeUrlChar c) := by
    unfold cleanUrl
    have : lit "groups/" ++ rest = 'g' :: 'r' :: 'o' :: 'u' :: 'p' :: 's' :: '/' :: rest := rfl
    rw [this]
    simp [List.dropWhile, List.filter, isC0OrSpace, isUnsafeUrlChar]
  rw [hcl]
  have hs : ∀ t : Str, splitScheme ('g' :: 'r' :: 'o' :: 'u' :: 'p' :: 's' :: '/' :: t) httpsL =
      (httpsL, 'g' :: 'r' :: 'o' :: 'u' :: 'p' :: 's' :: '/' :: t) := by
    intro t
    unfold splitScheme
    simp only [splitFirst_cons_s20, show ('g' : Char) ≠ ':' by decide, show ('r' : Char) ≠ ':' by decide,
      show ('o' : Char) ≠ ':' by decide, show ('u' : Char) ≠ ':' by decide, show ('p' : Char) ≠ ':' by decide,
      show ('s' : Char) ≠ ':' by decide, show ('/' : Char) ≠ ':' by decide, if_false]
    cases (splitFirst t ':').2 with
    | none => rfl
    | some post => simp [isSchemeChar, isAsciiAlpha, isAsciiDigit]
  rw [hs]
  simp [startsWith, List.isPrefixOf]

/-- a non-empty clean segment starts with a character that is neither `/` nor deleted by
`urlsplit` -/
theorem segClean_head (s : Str) (hne : s.isEmpty = false) (hcl : segClean s = true) :
    ∃ c t, s = c :: t ∧ c ≠ '/' ∧ isUnsafeUrlChar c = false := by
  cases s with
  | nil => simp at hne
  | cons c t =>
    refine ⟨c, t, rfl, ?_, ?_⟩
    · unfold segClean at hcl
      simp only [Bool.and_eq_true, List.all_cons, cleanChar, decide_eq_true_eq, Bool.not_eq_true',
        ne_eq, decide_not] at hcl
      intro e
      simp [e] at hcl
    · unfold segClean at hcl
      simp only [Bool.and_eq_true, List.all_cons, cleanChar] at hcl
      simpa using hcl.1.1.1.2

theorem joinBase_seg_total (s rest : Str) (hne : s.isEmpty = false) (hcl : segClean s = true) :
    ∃ v, joinBase ('/' :: s ++ rest) = .ok (some v) := by
  obtain ⟨c, t, e, hc, hu⟩ := segClean_head s hne hcl
  subst e
  exact joinBase_slash_total c (t ++ rest) hc hu

/-- **the `.url` property of a record the parser can return never raises and is never `None`**:
for a record of a documented shape (`Shaped`), without empty field (`noEmpty`), whose path-borne
fields are clean segments (`pathFieldsClean`) — the reference handed to `urljoin` starts with
`/x` (`x` not a slash, not TAB / CR / LF) or with `groups/`: it has no authority, and `urlsplit`
only raises on an authority -/
theorem url_total_of (r : Parsed) (hs : Shaped r) (hn : noEmpty r = true) (hc : pathFieldsClean r = true) :
    ∃ v, r.url = .ok (some v) := by
  cases r with
  | user id h =>
    simp only [Shaped] at hs
    subst hs
    exact joinBase_slash_total 'p' _ (by decide) (by decide)
  | handle h =>
    simp only [noEmpty, Bool.not_eq_true'] at hn
    simp only [pathFieldsClean] at hc
    have := joinBase_seg_total h [] hn hc
    simpa [Parsed.url] using this
  | group id h =>
    cases h with
    | some g => exact joinBase_groups_total g
    | none => exact joinBase_groups_total (fmtOpt id)
  | post id pid ph gid gh =>
    simp only [Shaped] at hs
    rcases hs with ⟨h1, h2, h3, h4⟩ | ⟨h1, h2, h3, h4⟩ | ⟨h1, h2, h3, h4⟩ | ⟨h1, h2, h3, h4⟩
    · subst h2 h3 h4
      cases pid with
      | none => simp at h1
      | some p => exact joinBase_slash_total 'p' _ (by decide) (by decide)
    · subst h1 h3 h4
      cases ph with
      | none => simp at h2
      | some x =>
        simp only [noEmpty, optNe, Bool.and_eq_true, Bool.not_eq_true', Bool.and_true] at hn
        simp only [pathFieldsClean, Bool.and_eq_true] at hc
        have := joinBase_seg_total x (lit "/posts/" ++ id) hn.2 hc.1
        simpa [Parsed.url] using this
    · subst h1 h2 h4
      cases gid with
      | none => simp at h3
      | some g => exact joinBase_slash_total 'g' _ (by decide) (by decide)
    · subst h1 h2 h3
      cases gh with
      | none => simp at h4
      | some g => exact joinBase_slash_total 'g' _ (by decide) (by decide)
  | video id pid =>
    cases pid with
    | none => exact joinBase_slash_total 'w' _ (by decide) (by decide)
    | some p =>
      simp only [noEmpty, optNe, Bool.and_eq_true, Bool.not_eq_true'] at hn
      simp only [pathFieldsClean, Bool.and_eq_true] at hc
      have := joinBase_seg_total p (lit "/videos/" ++ id) hn.2 hc.1
      simpa [Parsed.url] using this
  | photo id gid pid ph aid =>
    simp only [Shaped] at hs
    rcases hs with ⟨h1, h2⟩ | ⟨h1, h2, h3⟩
    · subst h1 h2
      simp only [Parsed.url, truthy, Bool.and_false, Bool.false_eq_true, if_false]
      exact joinBase_slash_total 'p' _ (by decide) (by decide)
    · subst h1
      cases aid with
      | none => simp at h2
      | some a =>
        rcases h3 with ⟨h3, h4⟩ | ⟨h3, h4⟩
        · subst h4
          cases pid with
          | none => simp at h3
          | some p =>
            simp only [noEmpty, optNe, Bool.and_eq_true, Bool.not_eq_true', Bool.and_true, Bool.true_and] at hn
            simp only [pathFieldsClean, Bool.and_eq_true] at hc
            have := joinBase_seg_total p (lit "/photos/a." ++ a ++ '/' :: id) hn.1.2 hc.1.1
            simpa [Parsed.url, truthy, hn.1.2, fmtOpt] using this
        · subst h3
          cases ph with
          | none => simp at h4
          | some p =>
            simp only [noEmpty, optNe, Bool.and_eq_true, Bool.not_eq_true', Bool.and_true, Bool.true_and] at hn
            simp only [pathFieldsClean, Bool.and_eq_true] at hc
            have := joinBase_seg_total p (lit "/photos/a." ++ a ++ '/' :: id) hn.1.2 hc.1.1
            simpa [Parsed.url, truthy, hn.1.2, fmtOpt] using this

/-! ## the canonical youtube urls are youtube urls, and no facebook urls -/

/-- `https://www.youtube.com/`: every url template of `ural/youtube.py` starts with it -/
def wwwPrefix : Str :=
  ['h', 't', 't', 'p', 's', ':', '/', '/', 'w', 'w', 'w', '.', 'y', 'o', 'u', 't', 'u', 'b', 'e', '.', 'c', 'o', 'm', '/']

theorem wwwPrefix_eq : wwwPrefix = "https://www.youtube.com/".toList := by decide

/-- `www.youtube.com`, character by character -/
def wwwHost : Str := ['w', 'w', 'w', '.', 'y', 'o', 'u', 't', 'u', 'b', 'e', '.', 'c', 'o', 'm']

theorem wwwHost_eq : wwwHost = "www.youtube.com".toList := by decide

/-- whatever follows `https://www.youtube.com/`, `safe_urlsplit` accepts the url and its
authority is `www.youtube.com` (the authority ends at the first `/`) -/
theorem safe_urlsplit_www (tail : Str) :
    ∃ r, safe_urlsplit (wwwPrefix ++ tail) = some r ∧ r.netloc = wwwHost := by
  unfold safe_urlsplit
  have hp : protoLen (wwwPrefix ++ tail) = some 8 := by
    have := Ural.C19.protoLen_https (wwwHost ++ '/' :: tail)
    rw [← List.append_assoc] at this
    exact this
  rw [hp]
  simp only [Option.isNone_some, Bool.false_eq_true, if_false]
  unfold urlsplit
  have hcl : cleanUrl (wwwPrefix ++ tail) = wwwPrefix ++ tail.filter (fun c => !isUnsafeUrlChar c) := by
    unfold cleanUrl wwwPrefix
    simp [List.dropWhile, List.filter, isC0OrSpace, isUnsafeUrlChar]
  rw [hcl]
  have hs : ∀ t : Str, splitScheme (wwwPrefix ++ t) [] =
      (['h', 't', 't', 'p', 's'], '/' :: '/' :: wwwHost ++ '/' :: t) := by
    intro t
    unfold splitScheme wwwPrefix wwwHost
    simp [splitFirst_cons_s20, isAsciiAlpha, isSchemeChar, isAsciiDigit, lower, lowerChar]
  rw [hs]
  have hn : ∀ t : Str, splitNetloc ('/' :: '/' :: wwwHost ++ '/' :: t) = (wwwHost, '/' :: t) := by
    intro t
    unfold splitNetloc wwwHost
    simp [startsWith, List.isPrefixOf, List.takeWhile, List.dropWhile, isNetlocDelim]
  simp only [hn]
  have : netlocOk wwwHost = true := by decide
  simp [this]

/-- a url that starts with `https://www.youtube.com/` is a youtube url for every trie that knows
`www.youtube.com` -/
theorem is_youtube_url_www (puny : Str → Str) (t : HostnameTrieSet.T) (hT : Youtube.KnowsWww puny t)
    (tail : Str) : Youtube.is_youtube_url puny t (wwwPrefix ++ tail) = true := by
  obtain ⟨r, hr, hn⟩ := safe_urlsplit_www tail
  unfold Youtube.is_youtube_url Youtube.isYoutubeParsed Youtube.hostnameOf
  rw [hr]
  simp only [hn]
  have : pyHostname wwwHost = wwwHost := by decide
  rw [this]
  have hne : wwwHost ≠ [] := by decide
  simp only [hne, if_false]
  rw [wwwHost_eq]
  exact hT

/-- … and no facebook url -/
theorem is_facebook_url_www (tail : Str) : Facebook.is_facebook_url (wwwPrefix ++ tail) = .ok false := by
  obtain ⟨r, hr, hn⟩ := safe_urlsplit_www tail
  unfold Facebook.is_facebook_url Facebook.get_hostname Facebook.safeUrlsplitE Facebook.hostnameOf
  rw [hr]
  simp only [Functor.map, Except.map, catchValueError, hn]
  have h1 : pyHostname wwwHost = wwwHost := by decide
  rw [h1]
  have h2 : wwwHost.isEmpty = false := by decide
  have h3 : reSearch Gen.C19Facebook.FACEBOOK_DOMAIN_RE wwwHost = false := by decide
  simp [h2, h3]

/-- every canonical url `normalize_youtube_url` builds starts with `https://www.youtube.com/` -/
theorem recordUrl_www (r : Youtube.Record) : ∃ tail, Youtube.recordUrl r = wwwPrefix ++ tail := by
  have e1 : Youtube.videoPrefix = wwwPrefix ++ "watch?v=".toList := by decide
  have e2 : Youtube.userPrefix = wwwPrefix ++ "user/".toList := by decide
  have e3 : Youtube.channelIdPrefix = wwwPrefix ++ "channel/".toList := by decide
  have e4 : Youtube.channelNamePrefix = wwwPrefix := by decide
  have e5 : Youtube.shortPrefix = wwwPrefix ++ "shorts/".toList := by decide
  cases r with
  | video id pl =>
    cases pl with
    | none => exact ⟨"watch?v=".toList ++ (id ++ []), by simp only [Youtube.recordUrl, e1, List.append_assoc]⟩
    | some p =>
      exact ⟨"watch?v=".toList ++ (id ++ (if p ≠ [] then Youtube.listInfix ++ p else [])),
        by simp only [Youtube.recordUrl, e1, List.append_assoc]⟩
  | user name => exact ⟨"user/".toList ++ name, by simp only [Youtube.recordUrl, e2, List.append_assoc]⟩
  | channel id name =>
    cases id with
    | some i => exact ⟨"channel/".toList ++ i, by simp only [Youtube.recordUrl, e3, List.append_assoc]⟩
    | none => exact ⟨Youtube.pyFormatOpt name, by simp only [Youtube.recordUrl, e4]⟩
  | short id => exact ⟨"shorts/".toList ++ id, by simp only [Youtube.recordUrl, e5, List.append_assoc]⟩

end Ural.Platform
