import UralModel.Lemmas.C03
import UralModel.Lemmas.C04Order
/-!
# C03, second half: `fingerprint_url` from `normalize_url`

`fingerprint_url(u)` is a second pass (`fpParts`) over `normalize_url(u.lower(), lowercase=True,
query_item_filter=lang)`.  The second pass is a function of its argument; what has to be shown
for (b) is that the inner call is determined by `normalize_url(u)` (default options):

* netloc: neither `lowercase` nor the item filter touch host and port;
* query: the items `fingerprint_url` keeps are the kept items of `normalize_url` with the `gl`/`hl`
  items removed (`filter_absorb`: every item the default filter strips, the fingerprint filter
  strips), sorted again — a function of `normalize_url`'s query once the sort depends only on the
  multiset of items (`SortHyp`, which holds: C04's `sortQsl_eq_of_perm`);
* path, fragment: here `lowercase` acts before the case-sensitive steps (index file test), and
  the theorem of this file is about inputs on which it has nothing to do (`LowerInput`: the URL
  and what its escapes decode to are lower-case already).  Beyond that class (b) is FALSE for the
  model and for the implementation (`/Index.html` vs `/Index.html/index.html`: witness in
  `Props/C03.lean`, KF-C03-3) and otherwise explored by the oracle, not proved.
-/
namespace Ural.C03
open Ural.Py Ural.UrlParts Ural.Quote Ural.Canonicalize Ural.Normalize Ural.Fingerprint

/-! ## the second pass -/

/-- what the second pass reads of `normalize_url`'s result -/
def fpView (r : Split) : Str × Str × Str × Option Str :=
  (r.netloc, lower r.path, lower r.query, r.fragment.map lower)

theorem fpParts_view (E : Env) (ss : Bool) (r₁ r₂ : Split) (h : fpView r₁ = fpView r₂) :
    fpParts E ss r₁ = fpParts E ss r₂ := by
  simp only [fpView, Prod.mk.injEq] at h
  obtain ⟨h1, h2, h3, h4⟩ := h
  unfold fpParts
  rw [h1, h2, h3, h4]

/-! ## the item filter -/

/-- the verdict when it is reached before the per-domain filter and the caller's filter -/
def stripEarly (amp : Bool) (it : QItem) : Option Bool :=
  let key := lower it.1
  let pattern := if amp then Gen.Normalize.IRRELEVANT_QUERY_AMP_RE else Gen.Normalize.IRRELEVANT_QUERY_RE
  if Re.pyMatch pattern key then some true
  else if Gen.Normalize.queryCombosCallable.any (fun k => k.toList == key) then some (sLambda it.2)
  else
    match comboLookup Gen.Normalize.queryCombos key with
    | some vs => some (valueIn vs it.2)
    | none =>
      match (if amp then comboLookup Gen.Normalize.ampQueryCombos key else none) with
      | some vs => some (valueIn vs it.2)
      | none => none

/-- the last two tests: the per-domain filter, then the caller's filter -/
def stripTail (qf : QueryItemFilter) (df : Option (List String)) (key : Str) : Bool :=
  if (match df with
      | some keys => keys.any (fun k => k.toList == key)
      | none => false) then true
  else
    match qf with
    | .lang => Gen.Normalize.langQueryKeys.any (fun k => k.toList == key)
    | .none => false

theorem strip_eq (amp : Bool) (qf : QueryItemFilter) (df : Option (List String)) (it : QItem) :
    shouldStripQueryItem amp qf df it = (stripEarly amp it).getD (stripTail qf df (lower it.1)) := by
  unfold shouldStripQueryItem stripEarly stripTail
  simp only
  by_cases h1 : Re.pyMatch (if amp = true then Gen.Normalize.IRRELEVANT_QUERY_AMP_RE
      else Gen.Normalize.IRRELEVANT_QUERY_RE) (lower it.1) = true
  · simp only [h1, if_true, Option.getD_some]
  · simp only [h1, Bool.false_eq_true, if_false]
    by_cases h2 : (Gen.Normalize.queryCombosCallable.any fun k => k.toList == lower it.1) = true
    · simp only [h2, if_true, Option.getD_some]
    · simp only [h2, Bool.false_eq_true, if_false]
      cases comboLookup Gen.Normalize.queryCombos (lower it.1) with
      | some vs => simp only [Option.getD_some]
      | none =>
        simp only
        cases (if amp = true then comboLookup Gen.Normalize.ampQueryCombos (lower it.1) else none) with
        | some vs => simp only [Option.getD_some]
        | none => rfl

/-- every item the filter of `normalize_url` strips is stripped by the filter of
`fingerprint_url` (which additionally strips `gl` / `hl`) -/
theorem filter_absorb (amp : Bool) (qf : QueryItemFilter) (df : Option (List String)) (it : QItem)
    (h : shouldStripQueryItem amp .none df it = true) : shouldStripQueryItem amp qf df it = true := by
  rw [strip_eq] at h ⊢
  cases he : stripEarly amp it with
  | some b => rw [he] at h; exact h
  | none =>
    rw [he] at h
    simp only [Option.getD_none, stripTail] at h ⊢
    generalize (match df with
      | some keys => keys.any (fun k => k.toList == lower it.1)
      | none => false) = d at h ⊢
    cases d <;> simp_all

/-- the items `fingerprint_url` keeps, from the items `normalize_url` keeps -/
theorem filter_filter_absorb (amp : Bool) (qf : QueryItemFilter) (df : Option (List String))
    (l : List QItem) :
    l.filter (fun it => !shouldStripQueryItem amp qf df it) =
      (l.filter (fun it => !shouldStripQueryItem amp .none df it)).filter
        (fun it => !shouldStripQueryItem amp qf df it) := by
  rw [List.filter_filter]
  apply List.filter_congr
  intro it _
  cases h : shouldStripQueryItem amp .none df it with
  | true => simp [filter_absorb amp qf df it h]
  | false => simp

/-- for an item that passed the filter of `normalize_url`, the verdict of `fingerprint_url`'s
filter does not depend on the per-domain filter any more -/
theorem strip_lang_df_irrelevant (amp : Bool) (df : Option (List String)) (it : QItem)
    (h : shouldStripQueryItem amp .none df it = false) :
    shouldStripQueryItem amp .lang df it = shouldStripQueryItem amp .lang none it := by
  rw [strip_eq] at h ⊢
  rw [strip_eq]
  cases he : stripEarly amp it with
  | some b => rfl
  | none =>
    rw [he] at h
    simp only [Option.getD_none, stripTail] at h ⊢
    generalize (match df with
      | some keys => keys.any (fun k => k.toList == lower it.1)
      | none => false) = d at h ⊢
    cases d <;> simp_all

/-! ## the sort -/

/-- the sort of the query items depends only on the multiset of items (`qsl_sort_key` is a
total order whose ties are equal items): C04's `norm_query_permutation` -/
def SortHyp : Prop := ∀ xs ys : List QItem, xs.Perm ys → sortQsl xs = sortQsl ys

/-- it does: `qsl_sort_key` is a total order on items (`Lemmas/C04Order.lean`) -/
theorem sortHyp : SortHyp := fun _ _ h => sortQsl_eq_of_perm h

/-- filtering then sorting = filtering the sorted list then sorting -/
theorem sort_filter_sort (hS : SortHyp) (f : QItem → Bool) (l : List QItem) :
    sortQsl (l.filter f) = sortQsl ((sortQsl l).filter f) :=
  hS _ _ ((sortQsl_perm l).filter f).symm

/-! ## items are fixed points of the unquoter -/

def unqItem (kv : QItem) : QItem := (unquoteQueryItem kv.1, kv.2.map unquoteQueryItem)

theorem unquoteQsl_eq_map (l : List QItem) : unquoteQsl l = l.map unqItem := by
  unfold unquoteQsl unqItem
  apply List.map_congr_left
  intro kv _
  obtain ⟨k, v⟩ := kv
  rfl

theorem unqItem_idem (kv : QItem) : unqItem (unqItem kv) = unqItem kv := by
  obtain ⟨k, v⟩ := kv
  cases v <;> simp [unqItem, unquoteQueryItem_idem]

theorem unquoteQsl_fixed (l : List QItem) (h : ∀ it ∈ l, unqItem it = it) : unquoteQsl l = l := by
  rw [unquoteQsl_eq_map]
  conv => rhs; rw [← List.map_id l]
  apply List.map_congr_left
  intro it hit
  simpa using h it hit

/-! ## the query of `fingerprint_url`'s inner call, from `normalize_url`'s -/

/-- the options of `fingerprint_url`'s inner call, from the caller's: `lowercase` and the
`gl` / `hl` filter -/
def fpOf (o : Opts) : Opts := { o with lowercase := true, queryItemFilter := .lang }

theorem fpOf_default : fpOf {} = fpOpts := rfl

/-- the `gl` / `hl` filter and the second sort -/
def fpItems (amp : Bool) (l : List QItem) : List QItem :=
  sortQsl (l.filter (fun it => !shouldStripQueryItem amp .lang none it))

/-- the kept, sorted, unquoted items (`normComps.qsl`) for options that sort -/
theorem filterQuery_lang (hS : SortHyp) (o : Opts) (hlc : o.lowercase = false)
    (hqf : o.queryItemFilter = .none) (hsq : o.sortQuery = true) (h : Option Str) (q : Str)
    (hI : (unquoteQsl (safeQslIter q)).map (fun it => (lower it.1, it.2.map lower)) = unquoteQsl (safeQslIter q)) :
    unquoteQsl (filterQuery (fpOf o) h q) = fpItems o.normalizeAmp (unquoteQsl (filterQuery o h q)) := by
  unfold filterQuery
  by_cases he : q.isEmpty = true
  · simp only [he, if_true]
    cases o.normalizeAmp <;> decide
  · simp only [he, Bool.false_eq_true, if_false, fpOf, hlc, hqf, hsq, if_true, hI]
    generalize hIdef : unquoteQsl (safeQslIter q) = I
    generalize o.normalizeAmp = amp
    have hfix : ∀ it ∈ I, unqItem it = it := by
      intro it hit
      rw [← hIdef, unquoteQsl_eq_map] at hit
      obtain ⟨j, _, rfl⟩ := List.mem_map.mp hit
      exact unqItem_idem j
    -- normalize_url's items are fixed by the second unquoting
    have hN : unquoteQsl (sortQsl (I.filter (fun it => !shouldStripQueryItem amp .none (domainFilter h) it)))
        = sortQsl (I.filter (fun it => !shouldStripQueryItem amp .none (domainFilter h) it)) := by
      apply unquoteQsl_fixed
      intro it hit
      exact hfix it (List.mem_filter.mp ((sortQsl_perm _).mem_iff.mp hit)).1
    rw [hN]
    unfold fpItems
    rw [filter_filter_absorb amp .lang (domainFilter h) I, sort_filter_sort hS]
    have hcongr : (sortQsl (I.filter (fun it => !shouldStripQueryItem amp .none (domainFilter h) it))).filter
          (fun it => !shouldStripQueryItem amp .lang (domainFilter h) it)
        = (sortQsl (I.filter (fun it => !shouldStripQueryItem amp .none (domainFilter h) it))).filter
          (fun it => !shouldStripQueryItem amp .lang none it) := by
      apply List.filter_congr
      intro it hit
      have h1 := (sortQsl_perm _).mem_iff.mp hit
      have h2 : shouldStripQueryItem amp .none (domainFilter h) it = false := by
        have := (List.mem_filter.mp h1).2
        simpa using this
      rw [strip_lang_df_irrelevant amp (domainFilter h) it h2]
    rw [hcongr]
    apply unquoteQsl_fixed
    intro it hit
    have h1 := (sortQsl_perm _).mem_iff.mp hit
    have h2 := (List.mem_filter.mp h1).1
    have h3 := (sortQsl_perm _).mem_iff.mp h2
    exact hfix it (List.mem_filter.mp h3).1

/-! ## serialisation is injective on well-formed items (up to the empty query) -/

theorem serializeItem_eq_nil {kv : QItem} (h : serializeItem kv = []) : kv = ([], none) := by
  obtain ⟨k, v⟩ := kv
  cases v with
  | none => simp [serializeItem] at h; simp [h]
  | some v => simp [serializeItem] at h

theorem serialize_eq_nil {l : List QItem} (h : safeSerializeQsl l = []) : l = [] ∨ l = [([], none)] := by
  rw [safeSerializeQsl_eq] at h
  rcases join_amp_eq_nil h with h0 | h0
  · left; simpa using h0
  · right
    cases l with
    | nil => simp at h0
    | cons a r =>
      cases r with
      | cons b r' => simp at h0
      | nil =>
        simp only [List.map_cons, List.map_nil, List.cons.injEq, and_true] at h0
        rw [serializeItem_eq_nil h0]

theorem serialize_inj {l₁ l₂ : List QItem} (h1 : ∀ kv ∈ l₁, ItemWf kv) (h2 : ∀ kv ∈ l₂, ItemWf kv)
    (h : safeSerializeQsl l₁ = safeSerializeQsl l₂) :
    l₁ = l₂ ∨ ((l₁ = [] ∨ l₁ = [([], none)]) ∧ (l₂ = [] ∨ l₂ = [([], none)])) := by
  by_cases e1 : l₁ = []
  · right
    refine ⟨Or.inl e1, ?_⟩
    apply serialize_eq_nil
    rw [← h, e1]; rfl
  · by_cases e2 : l₂ = []
    · right
      refine ⟨?_, Or.inl e2⟩
      apply serialize_eq_nil
      rw [h, e2]; rfl
    · left
      rw [← safeQslIter_serialize l₁ e1 h1, ← safeQslIter_serialize l₂ e2 h2, h]

theorem fpItems_trivial (amp : Bool) :
    safeSerializeQsl (fpItems amp []) = [] ∧ safeSerializeQsl (fpItems amp [([], none)]) = [] := by
  constructor
  · rfl
  · unfold fpItems
    simp only [List.filter_cons, List.filter_nil]
    split <;> rfl

/-! ## (b) on lower-case inputs -/

/-- the class on which `lowercase` (and the lower-casing of the input string) has nothing to do:
the URL is lower-case as parsed, and so is what its escapes decode to -/
def LowerInput (p : Parsed) : Prop :=
  lowerParsed p = p ∧
  lower (unquotePath p.path) = unquotePath p.path ∧
  lower (unquoteFragment p.fragment) = unquoteFragment p.fragment ∧
  (unquoteQsl (safeQslIter (fixQ {} p.query))).map (fun it => (lower it.1, it.2.map lower))
    = unquoteQsl (safeQslIter (fixQ {} p.query))

instance (p : Parsed) : Decidable (LowerInput p) := by unfold LowerInput; infer_instance

theorem wf_filterQuery (o : Opts) (ho : o.lowercase = false) (h : Option Str) (q : Str) :
    ∀ kv ∈ unquoteQsl (filterQuery o h q), ItemWf kv := by
  apply wf_unquoteQsl
  intro kv hkv
  unfold filterQuery at hkv
  by_cases he : q.isEmpty = true
  · simp [he] at hkv
  · simp only [he, Bool.false_eq_true, if_false, ho] at hkv
    have hI := wf_unquoteQsl _ (wf_safeQslIter q)
    by_cases hs : o.sortQuery = true
    · simp only [hs, if_true] at hkv
      exact hI kv (List.mem_filter.mp ((sortQsl_perm _).mem_iff.mp hkv)).1
    · simp only [hs, Bool.false_eq_true, if_false] at hkv
      exact hI kv (List.mem_filter.mp hkv).1

theorem normHost_fpOf (puny : Str → Str) (o : Opts) : normHost puny (fpOf o) = normHost puny o := rfl
theorem fixQ_fpOf (o : Opts) (q : Str) : fixQ (fpOf o) q = fixQ o q := rfl

/-- on a lower-case input, the inner call of `fingerprint_url` is `normalize_url`'s result with
the query passed through the `gl` / `hl` filter -/
theorem normParts_fp_of_lower (hS : SortHyp) (puny : Str → Str) (o : Opts)
    (hsp : o.stripProtocol = true) (hsa : o.stripAuthentication = true)
    (hsts : o.stripTrailingSlash = true) (hq : o.quoted = false) (hlc : o.lowercase = false)
    (hqf : o.queryItemFilter = .none) (hsq : o.sortQuery = true) (hfx : fixQ o = fixQ {})
    (p : Parsed) (hL : LowerInput p) (b b' : Bool) :
    (normParts puny (fpOf o) b' (lowerParsed p)).netloc = (normParts puny o b p).netloc ∧
    (normParts puny (fpOf o) b' (lowerParsed p)).path = (normParts puny o b p).path ∧
    (normParts puny (fpOf o) b' (lowerParsed p)).fragment = (normParts puny o b p).fragment ∧
    ∃ Q, (normParts puny o b p).query = safeSerializeQsl Q ∧ (∀ kv ∈ Q, ItemWf kv) ∧
      (normParts puny (fpOf o) b' (lowerParsed p)).query = safeSerializeQsl (fpItems o.normalizeAmp Q) := by
  obtain ⟨h0, hP, hF, hI⟩ := hL
  rw [h0, normParts_eq puny (fpOf o) hsp hsa, normParts_eq puny o hsp hsa]
  have hq' : (fpOf o).quoted = false := hq
  simp only [hq, hq', Bool.false_eq_true, if_false, requote]
  simp only [normHost_fpOf, fixQ_fpOf]
  have hlc' : (fpOf o).lowercase = true := rfl
  have e1 : ∀ y, lc (fpOf o) y = lower y := fun y => by simp [lc, hlc']
  have e2 : ∀ y, lc o y = y := fun y => by simp [lc, hlc]
  have e3 : (fpOf o).stripFragment = o.stripFragment := rfl
  refine ⟨trivial, ?_, ?_, ?_⟩
  · rw [normPath_eq (fpOf o) hsts, normPath_eq o hsts, e1, e2, hP]
    rfl
  · rw [e1, e2, hF, e3]
  · refine ⟨_, rfl, wf_filterQuery o hlc _ _, ?_⟩
    rw [filterQuery_lang hS o hlc hqf hsq]
    rw [hfx]
    exact hI

/-- **(b) on lower-case inputs**: two parsed URLs with the same `normalize_url` result have the
same `fingerprint_url` result -/
theorem fp_of_norm_eq_lower (hS : SortHyp) (E : Env) (ss : Bool) (p q : Parsed)
    (hLp : LowerInput p) (hLq : LowerInput q) (b₁ b₂ b₃ b₄ : Bool)
    (h : normParts E.puny {} b₁ p = normParts E.puny {} b₂ q) :
    fpParts E ss (normParts E.puny fpOpts b₃ (lowerParsed p)) =
      fpParts E ss (normParts E.puny fpOpts b₄ (lowerParsed q)) := by
  rw [← fpOf_default]
  obtain ⟨hn1, hp1, hf1, Q1, hq1, hw1, hq1'⟩ :=
    normParts_fp_of_lower hS E.puny {} rfl rfl rfl rfl rfl rfl rfl rfl p hLp b₁ b₃
  obtain ⟨hn2, hp2, hf2, Q2, hq2, hw2, hq2'⟩ :=
    normParts_fp_of_lower hS E.puny {} rfl rfl rfl rfl rfl rfl rfl rfl q hLq b₂ b₄
  apply fpParts_view
  unfold fpView
  rw [hn1, hp1, hf1, hq1', hn2, hp2, hf2, hq2', h]
  have hQ : safeSerializeQsl Q1 = safeSerializeQsl Q2 := by rw [← hq1, ← hq2, h]
  rcases serialize_inj hw1 hw2 hQ with e | ⟨e1, e2⟩
  · rw [e]
  · have t := fpItems_trivial ({} : Opts).normalizeAmp
    have : safeSerializeQsl (fpItems ({} : Opts).normalizeAmp Q1) =
        safeSerializeQsl (fpItems ({} : Opts).normalizeAmp Q2) := by
      rcases e1 with e1 | e1 <;> rcases e2 with e2 | e2 <;> rw [e1, e2] <;> simp [t.1, t.2]
    rw [this]

end Ural.C03
