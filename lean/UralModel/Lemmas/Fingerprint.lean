import UralModel.Lemmas.C06Netloc
import UralModel.Lemmas.Canonicalize
/-!
# C06 — how `fingerprint_url` factors through `normalize_url`

`fingerprint_url = second pass ∘ normalize_url(lang filter, lowercase) ∘ str.lower`.  Under
`AccLaws` the second pass is read off the *components* `normalize_url` assembled its netloc from
(`fpParts_normParts`): the port never reaches the result, the host goes through `.hostname`
(`accHost`), the language label and, on request, the public suffix are cut.
-/
set_option linter.unusedSimpArgs false
set_option linter.unusedVariables false

namespace Ural.Fingerprint
open Ural.Py Ural.UrlParts Ural.Normalize Ural.Canonicalize

/-- the port `normalize_url` keeps -/
def normPort (port : Option Nat) : Option Nat :=
  match port with
  | some n => if n = 80 ∨ n = 443 then none else some n
  | none => none

/-- the host `normalize_url` leaves, with the options `fingerprint_url` passes -/
def normHostOf (puny : Str → Str) (p : Parsed) : Option Str := p.hostname.map (normHost puny fpOpts)

/-- the fingerprint of a parsed URL: `normalize_url`'s tuple, then the second pass -/
def fpOfParsed (E : Env) (stripSfx hasProto : Bool) (p : Parsed) : Except Err Split :=
  fpParts E stripSfx (normParts E.puny fpOpts hasProto p)

/-- the final string -/
def fpString (r : Split) : Str :=
  let s := urlunsplit r
  if startsWith s ['/', '/'] then s.drop 2 else s

/-- what the second pass does with the host it reads back -/
def fpHostOut (E : Env) (stripSfx : Bool) (seen : Option Str) : Except Err (Option Str) :=
  match seen with
  | some h => if h.isEmpty then .ok (some h) else (fingerprintHost E stripSfx h).map some
  | none => .ok none

theorem normParts_netloc (puny : Str → Str) (hp : Bool) (p : Parsed) :
    (normParts puny fpOpts hp p).netloc =
      unsplitNetloc none none (normHostOf puny p) (normPort p.port) := by
  obtain ⟨sch, nl, pa, q, fr, u, pw, hn, port⟩ := p
  cases port <;> simp [normParts, normComps, fpOpts, normHostOf, normPort]

theorem portOk_normPort (port : Option Nat) (h : PortOk port) : PortOk (normPort port) := by
  intro n hn
  cases port with
  | none => simp [normPort] at hn
  | some m =>
    simp only [normPort] at hn
    split at hn
    · cases hn
    · cases hn; exact h _ rfl

/-- **the second pass, read off the components** (under `AccLaws`) -/
theorem fpParts_normParts (E : Env) (hacc : AccLaws E.netlocAcc) (s hp : Bool) (p : Parsed)
    (hs : HostSafe (normHostOf E.puny p)) (hport : PortOk p.port) :
    fpOfParsed E s hp p =
      match fpHostOut E s (accHost (normHostOf E.puny p)) with
      | .error e => .error e
      | .ok h =>
        .ok { scheme := [], netloc := unsplitNetloc none none h none,
              path := lower (normParts E.puny fpOpts hp p).path,
              query := lower (normParts E.puny fpOpts hp p).query,
              fragment := (normParts E.puny fpOpts hp p).fragment.map lower } := by
  unfold fpOfParsed fpParts
  rw [normParts_netloc, hacc.assembled _ _ hs (portOk_normPort _ hport)]
  simp only [fpHostOut]
  cases accHost (normHostOf E.puny p) <;> rfl

/-- path, query and fragment of `normalize_url`'s tuple do not depend on the port -/
theorem normParts_port (puny : Str → Str) (o : Opts) (hp : Bool) (p : Parsed) (k : Option Nat) :
    (normParts puny o hp { p with port := k }).path = (normParts puny o hp p).path ∧
    (normParts puny o hp { p with port := k }).query = (normParts puny o hp p).query ∧
    (normParts puny o hp { p with port := k }).fragment = (normParts puny o hp p).fragment ∧
    (normParts puny o hp { p with port := k }).scheme = (normParts puny o hp p).scheme := by
  simp [normParts, normComps, fixedQuery]

end Ural.Fingerprint
