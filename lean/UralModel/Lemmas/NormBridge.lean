import UralModel.Model.NormalizeUrl
import UralModel.Lemmas.UrlRoundTrip
import UralModel.Lemmas.CanonRoundTrip
import UralModel.Lemmas.TldUrl
/-!
# Bridging: what the modelled parser returns on a string, in terms of its pieces

The theorems of the `normalize_url` family (C04–C06) are stated on `Parsed` records.  This file
proves, for the *modelled* parser (`Py.urlsplit` + accessors, compared with CPython on every
run), what it returns on every string of an explicit, decidable grammar

    [ letters{1,64} "://" | "//" | nothing ]  [ userinfo "@" ]  ( host | "[" ip-literal "]" )
        [ ":" port ]  [ "/" path ]  [ "?" query ]  [ "#" fragment ]

(`UrlG`, `UrlG.str`, `UrlG.wf`): the record `UrlG.parsed` built from the pieces
(`parse_str`).  A transformation of the documented-irrelevant family that acts on the authority
or on an end of the string is then a change of one piece (`{ g with ui := … }`, …), and what the
parser returns on `T(u)` is read off `UrlG.parsed`: the string-level corollaries in
`Props/C04.lean` (`norm_*_string`) follow from the component theorems.

Class of strings (`UrlG.wf`): the scheme prefix is 1–64 ASCII letters + `://` (what
`PROTOCOL_RE` recognises), `//`, or nothing — in which case the rest must not itself start like a
protocol (`localhost://x`); userinfo without `/ ? # [ ]`; host without `/ ? # @ : [ ]`, or — `br` —
an IP literal `[h]`, `h` without `/ ? # @ [ ]` and passing the model's bracket check
(`bracketedHostOk`: IPv6 hex groups with an optional `%zone`, IPvFuture; no IPv4 tail);
port text without `/ ? # @ [ ]` (its validity is `portVal`: digits ≤ 65535, or empty);
path empty or starting with `/`, without `? #`; query without `#`.  No tab / CR / LF anywhere
(a cleaned string never has one).
-/
set_option linter.unusedSimpArgs false
set_option linter.unusedVariables false

namespace Ural.NormBridge
open Ural Ural.Py Ural.UrlParts Ural.Quote Ural.Normalize Ural.UrlRoundTrip

/-! ## the grammar -/

/-- what stands in front of the authority -/
inductive Proto where
  | scheme (sc : Str)
  | slashes
  | bare
  deriving DecidableEq, Repr

def Proto.str : Proto → Str
  | .scheme sc => sc ++ [':', '/', '/']
  | .slashes => ['/', '/']
  | .bare => []

/-- `PROTOCOL_RE.match` on the cleaned string -/
def Proto.hasProto : Proto → Bool
  | .bare => false
  | _ => true

/-- the scheme the parser reports (`http://` is prepended to a bare string) -/
def Proto.parsedScheme : Proto → Str
  | .scheme sc => lower sc
  | .slashes => []
  | .bare => ['h', 't', 't', 'p']

structure UrlG where
  proto : Proto
  ui : Option Str
  host : Str
  port : Option Str
  path : Str
  query : Option Str
  fragment : Option Str
  /-- the host text stands between brackets (an IP literal: `[::1]`, `[v1.x]`) -/
  br : Bool := false
  deriving DecidableEq, Repr

def uiPart : Option Str → Str
  | none => []
  | some u => u ++ ['@']
def portPart : Option Str → Str
  | none => []
  | some p => ':' :: p
def qPart : Option Str → Str
  | none => []
  | some q => '?' :: q
def fPart : Option Str → Str
  | none => []
  | some f => '#' :: f

/-- the host as written: between brackets for an IP literal -/
def UrlG.hostPart (g : UrlG) : Str := if g.br then '[' :: (g.host ++ [']']) else g.host
def UrlG.netloc (g : UrlG) : Str := uiPart g.ui ++ (g.hostPart ++ portPart g.port)
def UrlG.tail (g : UrlG) : Str := g.path ++ (qPart g.query ++ fPart g.fragment)
/-- everything after the scheme prefix -/
def UrlG.rest (g : UrlG) : Str := g.netloc ++ g.tail
/-- the string -/
def UrlG.str (g : UrlG) : Str := g.proto.str ++ g.rest

/-- no character of `bad` occurs in `s` -/
def free (bad : List Char) (s : Str) : Bool := s.all fun c => !bad.contains c

def freeOpt (bad : List Char) : Option Str → Bool
  | none => true
  | some s => free bad s

def Proto.ok : Proto → Str → Bool
  | .scheme sc, _ => !sc.isEmpty && decide (sc.length ≤ 64) && sc.all isAsciiAlpha
  | .slashes, _ => true
  | .bare, rest => !hasProtocol rest

/-- the grammar class (decidable) -/
def UrlG.wf (g : UrlG) : Bool :=
  g.proto.ok g.rest &&
  freeOpt ['/', '?', '#', '[', ']'] g.ui &&
  (if g.br then free ['/', '?', '#', '@', '[', ']'] g.host && bracketedHostOk g.host
   else free ['/', '?', '#', '@', ':', '[', ']'] g.host) &&
  freeOpt ['/', '?', '#', '@', '[', ']'] g.port &&
  (g.path.isEmpty || startsWith g.path ['/']) &&
  free ['?', '#'] g.path &&
  freeOpt ['#'] g.query

/-- no tab / CR / LF (what `urlsplit` removes before splitting) -/
def NoUnsafe (s : Str) : Prop := ∀ c ∈ s, isUnsafeUrlChar c = false

/-- `.port` of the port text: `none` = `ValueError` -/
def portVal : Option Str → Option (Option Nat)
  | none => some none
  | some p =>
    if p = [] then some none
    else match strToNat? p with
      | some n => if n ≤ 65535 then some (some n) else none
      | none => none

/-- `.hostname` of the authority -/
def UrlG.hostname (g : UrlG) : Option Str := if g.host = [] then none else some (lowerHost g.host)

/-- the `Parsed` record of `g.str` for a given value of `.port` -/
def UrlG.record (g : UrlG) (po : Option Nat) : Parsed :=
  { scheme := g.proto.parsedScheme, netloc := g.netloc, path := g.path,
    query := g.query.getD [], fragment := g.fragment.getD [],
    username := g.ui.map fun u => (splitFirst u ':').1,
    password := g.ui.bind fun u => (splitFirst u ':').2,
    hostname := g.hostname,
    port := po }

/-- what the parser returns on `g.str` (after `http://` was prepended to a bare string) -/
def UrlG.parsed (g : UrlG) : Option Parsed := (portVal g.port).map g.record

/-! ## small facts -/

theorem free_iff {bad : List Char} {s : Str} : free bad s = true ↔ ∀ c ∈ s, c ∉ bad := by
  simp [free]

theorem free_not_mem {bad : List Char} {s : Str} (h : free bad s = true) {c : Char} (hc : c ∈ bad) :
    c ∉ s := fun hm => free_iff.1 h c hm hc

theorem freeOpt_some {bad : List Char} {s : Str} (h : freeOpt bad (some s) = true) : free bad s = true := h

theorem free_append {bad : List Char} {a b : Str} :
    free bad (a ++ b) = (free bad a && free bad b) := by simp [free]

theorem mem_uiPart {c : Char} {ui : Option Str} (h : c ∈ uiPart ui) :
    (∃ u, ui = some u ∧ c ∈ u) ∨ c = '@' := by
  cases ui with
  | none => simp [uiPart] at h
  | some u =>
    simp only [uiPart, List.mem_append, List.mem_singleton] at h
    rcases h with h | h
    · exact Or.inl ⟨u, rfl, h⟩
    · exact Or.inr h

theorem mem_portPart' {c : Char} {p : Option Str} (h : c ∈ portPart p) :
    (∃ q, p = some q ∧ c ∈ q) ∨ c = ':' := by
  cases p with
  | none => simp [portPart] at h
  | some q =>
    simp only [portPart, List.mem_cons] at h
    rcases h with h | h
    · exact Or.inr h
    · exact Or.inl ⟨q, rfl, h⟩

/-- the six conjuncts of `wf` -/
structure WFacts (g : UrlG) : Prop where
  proto : g.proto.ok g.rest = true
  ui : freeOpt ['/', '?', '#', '[', ']'] g.ui = true
  host : (if g.br then free ['/', '?', '#', '@', '[', ']'] g.host && bracketedHostOk g.host
    else free ['/', '?', '#', '@', ':', '[', ']'] g.host) = true
  port : freeOpt ['/', '?', '#', '@', '[', ']'] g.port = true
  pabs : (g.path.isEmpty || startsWith g.path ['/']) = true
  path : free ['?', '#'] g.path = true
  query : freeOpt ['#'] g.query = true

theorem wf_facts {g : UrlG} (h : g.wf = true) : WFacts g := by
  simp only [UrlG.wf, Bool.and_eq_true] at h
  obtain ⟨⟨⟨⟨⟨⟨h1, h2⟩, h3⟩, h4⟩, h5⟩, h6⟩, h7⟩ := h
  exact ⟨h1, h2, h3, h4, h5, h6, h7⟩

theorem wf_of_facts {g : UrlG} (h : WFacts g) : g.wf = true := by
  simp only [UrlG.wf, Bool.and_eq_true]
  exact ⟨⟨⟨⟨⟨⟨h.proto, h.ui⟩, h.host⟩, h.port⟩, h.pabs⟩, h.path⟩, h.query⟩

/-- the host text: never a delimiter, `@` or a bracket -/
theorem host_free {g : UrlG} (h : WFacts g) : free ['/', '?', '#', '@', '[', ']'] g.host = true := by
  have hh := h.host
  cases hb : g.br with
  | true => rw [hb] at hh; simp only [if_true, Bool.and_eq_true] at hh; exact hh.1
  | false =>
    rw [hb] at hh
    simp only [Bool.false_eq_true, if_false] at hh
    rw [free_iff] at hh ⊢
    intro c hc hbad
    apply hh c hc
    simp only [List.mem_cons, List.not_mem_nil, or_false] at hbad ⊢
    rcases hbad with h | h | h | h | h | h <;> simp [h]

/-- a host that is not an IP literal holds no colon -/
theorem host_no_colon {g : UrlG} (h : WFacts g) (hb : g.br = false) : ':' ∉ g.host := by
  have hh := h.host
  rw [hb] at hh
  simp only [Bool.false_eq_true, if_false] at hh
  exact free_not_mem hh (by simp)

theorem host_br_ok {g : UrlG} (h : WFacts g) (hb : g.br = true) : bracketedHostOk g.host = true := by
  have hh := h.host
  rw [hb] at hh
  simp only [if_true, Bool.and_eq_true] at hh
  exact hh.2

theorem mem_hostPart' {c : Char} {g : UrlG} (h : c ∈ g.hostPart) : c ∈ g.host ∨ c = '[' ∨ c = ']' := by
  unfold UrlG.hostPart at h
  cases hb : g.br with
  | false => rw [hb] at h; exact Or.inl (by simpa using h)
  | true =>
    rw [hb] at h
    simp only [if_true, List.mem_cons, List.mem_append, List.not_mem_nil, or_false] at h
    rcases h with h | h | h
    · exact Or.inr (Or.inl h)
    · exact Or.inl h
    · exact Or.inr (Or.inr h)

/-- no netloc delimiter in the authority -/
theorem netloc_nodelim {g : UrlG} (h : WFacts g) : ∀ c ∈ g.netloc, c ∉ ['/', '?', '#'] := by
  intro c hc hbad
  have hbad5 : c ∈ ['/', '?', '#', '[', ']'] := by
    simp only [List.mem_cons, List.not_mem_nil, or_false] at hbad ⊢
    rcases hbad with h | h | h <;> simp [h]
  have hbad6 : c ∈ ['/', '?', '#', '@', '[', ']'] := by
    simp only [List.mem_cons, List.not_mem_nil, or_false] at hbad ⊢
    rcases hbad with h | h | h <;> simp [h]
  simp only [UrlG.netloc, List.mem_append] at hc
  rcases hc with hc | hc | hc
  · rcases mem_uiPart hc with ⟨u, hu, hcu⟩ | rfl
    · have hui := h.ui; rw [hu] at hui; exact free_iff.1 (freeOpt_some hui) c hcu hbad5
    · revert hbad; decide
  · rcases mem_hostPart' hc with hc | rfl | rfl
    · exact free_iff.1 (host_free h) c hc hbad6
    · revert hbad; decide
    · revert hbad; decide
  · rcases mem_portPart' hc with ⟨q, hq, hcq⟩ | rfl
    · have hp := h.port; rw [hq] at hp
      exact free_iff.1 (freeOpt_some hp) c hcq hbad6
    · revert hbad; decide

theorem port_no {g : UrlG} (h : WFacts g) {c : Char} (hc : c ∈ ['/', '?', '#', '@', '[', ']']) :
    c ∉ portPart g.port := by
  intro hm
  rcases mem_portPart' hm with ⟨q, hq, hcq⟩ | h'
  · have hp := h.port; rw [hq] at hp
    exact free_not_mem (freeOpt_some hp) hc hcq
  · subst h'; revert hc; decide

theorem hostPort_no_at {g : UrlG} (h : WFacts g) : '@' ∉ g.hostPart ++ portPart g.port := by
  intro hc
  rcases List.mem_append.1 hc with hc | hc
  · rcases mem_hostPart' hc with hc | hc | hc
    · exact free_not_mem (host_free h) (by simp) hc
    · cases hc
    · cases hc
  · exact port_no h (by simp) hc

theorem hostPort_no_lbr {g : UrlG} (h : WFacts g) (hb : g.br = false) :
    '[' ∉ g.host ++ portPart g.port := by
  intro hc
  rcases List.mem_append.1 hc with hc | hc
  · exact free_not_mem (host_free h) (by simp) hc
  · exact port_no h (by simp) hc

/-! ## the scheme prefix: `PROTOCOL_RE`, `splitScheme`, the cleaning step of `urlsplit` -/

theorem alpha_schemeChar {c : Char} (h : isAsciiAlpha c = true) : isSchemeChar c = true := by
  simp [isSchemeChar, h]

theorem schemeShaped_of_letters {sc : Str} (h1 : sc ≠ []) (h3 : sc.all isAsciiAlpha = true) :
    SchemeShaped sc := by
  cases sc with
  | nil => exact absurd rfl h1
  | cons c r =>
    refine ⟨⟨c, r, rfl, ?_⟩, ?_⟩
    · exact (List.all_eq_true.1 h3) c (by simp)
    · rw [List.all_eq_true]
      intro x hx
      exact alpha_schemeChar ((List.all_eq_true.1 h3) x hx)

theorem alpha_ne_slash {c : Char} (h : isAsciiAlpha c = true) : c ≠ '/' := by
  rintro rfl; revert h; decide

theorem hasProtocol_scheme (sc rest : Str) (h1 : sc ≠ []) (h2 : sc.length ≤ 64)
    (h3 : sc.all isAsciiAlpha = true) : hasProtocol (sc ++ ':' :: '/' :: '/' :: rest) = true := by
  have hstop : ∀ c, (':' :: '/' :: '/' :: rest).head? = some c → isAsciiAlpha c = false := by
    intro c hc; simp at hc; subst hc; decide
  have htw : (sc ++ ':' :: '/' :: '/' :: rest).takeWhile isAsciiAlpha = sc :=
    takeWhile_append_stop _ sc _ (List.all_eq_true.1 h3) hstop
  have hdw : (sc ++ ':' :: '/' :: '/' :: rest).dropWhile isAsciiAlpha = ':' :: '/' :: '/' :: rest :=
    dropWhile_append_stop _ sc _ (List.all_eq_true.1 h3) hstop
  have hlen : sc.length ≠ 0 := by
    cases sc with
    | nil => exact absurd rfl h1
    | cons c r => simp
  have hsw : startsWith (':' :: '/' :: '/' :: rest) [':', '/', '/'] = true := by
    simp [startsWith_cons_cons, startsWith_nil]
  unfold hasProtocol Ural.protoLen
  simp only [htw, hdw, hlen, if_false, hsw, Bool.and_true, protoMaxLetters, decide_eq_true_eq, h2, if_true,
    Option.isSome_some]

theorem hasProtocol_slashes (rest : Str) : hasProtocol ('/' :: '/' :: rest) = true := by
  have htw : ('/' :: '/' :: rest).takeWhile isAsciiAlpha = [] := by
    simp [List.takeWhile_cons, show isAsciiAlpha '/' = false by decide]
  have hsw : startsWith ('/' :: '/' :: rest) ['/', '/'] = true := by
    simp [startsWith_cons_cons, startsWith_nil]
  unfold hasProtocol Ural.protoLen
  simp only [htw, List.length_nil, if_true, hsw, Option.isSome_some]

/-- `splitScheme` on a scheme-shaped prefix (any letter case) -/
theorem splitScheme_scheme' (sc rest : Str) (h : SchemeShaped sc) :
    splitScheme (sc ++ ':' :: rest) [] = (lower sc, rest) := by
  obtain ⟨⟨c, r, rfl, hc⟩, hall⟩ := h
  unfold splitScheme
  rw [splitFirst_append_sep_s20 _ _ _ (colon_not_mem_of_schemeChars hall)]
  simp only [hc, hall, Bool.and_self, if_true]

theorem splitScheme_slash' (t : Str) : splitScheme ('/' :: t) [] = ([], '/' :: t) := by
  unfold splitScheme
  rw [splitFirst_cons_s20]
  have h : isAsciiAlpha '/' = false := by decide
  simp only [show ('/' : Char) ≠ ':' by decide, if_false]
  cases (splitFirst t ':').2 <;> simp [h]

theorem schemeChar_not_unsafe {c : Char} (h : isSchemeChar c = true) : isUnsafeUrlChar c = false :=
  unsafe_of_ctl (isSchemeChar_not_ctl h)

/-- `urlsplit` + accessors from the netloc step on, for a string `scheme ":" "//" rest` -/
def parseAuthority (scheme rest : Str) : Option Parsed :=
  let nl := rest.takeWhile (fun c => !isNetlocDelim c)
  let tl := rest.dropWhile (fun c => !isNetlocDelim c)
  if netlocOk nl = true then
    match port nl with
    | none => none
    | some po =>
      some (parsedOf ⟨scheme, nl, (splitFirst (splitFirst tl '#').1 '?').1,
        (splitFirst (splitFirst tl '#').1 '?').2.getD [], (splitFirst tl '#').2.getD []⟩ po)
  else none

theorem urlsplit_from_netloc (s scheme rest : Str) (hc : cleanUrl s = s)
    (hs : splitScheme s [] = (scheme, '/' :: '/' :: rest)) :
    parseUrl s = parseAuthority scheme rest := by
  unfold parseUrl urlsplit parseAuthority
  simp only [hc, hs]
  unfold splitNetloc
  have hsw : startsWith ('/' :: '/' :: rest) ['/', '/'] = true := by
    simp [startsWith_cons_cons, startsWith_nil]
  simp only [hsw, if_true, List.drop_succ_cons, List.drop_zero]
  by_cases hok : netlocOk (rest.takeWhile (fun c => !isNetlocDelim c)) = true
  · simp only [hok, Bool.not_true, Bool.false_eq_true, if_false, if_true]
    rfl
  · simp [hok]

/-- **the modelled parser on `letters "://" rest`** -/
theorem parseUrl_scheme (sc rest : Str) (hs : SchemeShaped sc) (hc : NoUnsafe rest) :
    parseUrl (sc ++ ':' :: '/' :: '/' :: rest) = parseAuthority (lower sc) rest := by
  apply urlsplit_from_netloc
  · apply cleanUrl_id
    · intro c hm
      simp only [List.mem_append, List.mem_cons] at hm
      rcases hm with hm | rfl | rfl | rfl | hm
      · exact schemeChar_not_unsafe (schemeShaped_mem hs c hm)
      · decide
      · decide
      · decide
      · exact hc c hm
    · intro c hh
      obtain ⟨⟨d, r, rfl, hd⟩, _⟩ := hs
      simp at hh; subst hh
      exact alpha_not_c0 hd
  · exact splitScheme_scheme' sc _ hs

/-- **the modelled parser on `"//" rest`** -/
theorem parseUrl_slashes (rest : Str) (hc : NoUnsafe rest) :
    parseUrl ('/' :: '/' :: rest) = parseAuthority [] rest := by
  apply urlsplit_from_netloc
  · apply cleanUrl_id
    · intro c hm
      simp only [List.mem_cons] at hm
      rcases hm with rfl | rfl | hm
      · decide
      · decide
      · exact hc c hm
    · intro c hh; simp at hh; subst hh; decide
  · exact splitScheme_slash' _

/-- the scheme is the only thing the prefix decides -/
theorem parseAuthority_scheme (sc sc' rest : Str) :
    parseAuthority sc rest = (parseAuthority sc' rest).map (fun p => { p with scheme := sc }) := by
  unfold parseAuthority
  simp only
  split
  · cases port (rest.takeWhile (fun c => !isNetlocDelim c)) <;> rfl
  · rfl

/-! ## the authority and the tail -/

theorem isNetlocDelim_false_of {c : Char} (h : c ∉ ['/', '?', '#']) :
    (!isNetlocDelim c) = true := by
  simp only [List.mem_cons, List.not_mem_nil, or_false, not_or] at h
  simp [isNetlocDelim, h.1, h.2.1, h.2.2]

theorem tail_head_delim {g : UrlG} (h : WFacts g) :
    ∀ c, g.tail.head? = some c → (!isNetlocDelim c) = false := by
  intro c hc
  unfold UrlG.tail at hc
  have hp := h.pabs
  cases hpath : g.path with
  | cons d r =>
    rw [hpath] at hc hp
    simp at hc; subst hc
    simp only [List.isEmpty_cons, Bool.false_or, startsWith_cons_cons, startsWith_nil,
      Bool.and_true, beq_iff_eq] at hp
    subst hp; decide
  | nil =>
    rw [hpath] at hc
    cases hq : g.query with
    | some q => rw [hq] at hc; simp [qPart] at hc; subst hc; decide
    | none =>
      rw [hq] at hc
      cases hf : g.fragment with
      | some f => rw [hf] at hc; simp [qPart, fPart] at hc; subst hc; decide
      | none => rw [hf] at hc; simp [qPart, fPart] at hc

theorem netlocOk_netloc {g : UrlG} (h : WFacts g) : netlocOk g.netloc = true := by
  cases hb : g.br with
  | false =>
    have hl : '[' ∉ g.netloc := by
      intro hm
      simp only [UrlG.netloc, UrlG.hostPart, hb, Bool.false_eq_true, if_false, List.mem_append] at hm
      rcases hm with hm | hm | hm
      · rcases mem_uiPart hm with ⟨u, hu, hcu⟩ | h'
        · have hui := h.ui; rw [hu] at hui; exact free_not_mem (freeOpt_some hui) (by simp) hcu
        · cases h'
      · exact free_not_mem (host_free h) (by simp) hm
      · exact port_no h (by simp) hm
    have hr : ']' ∉ g.netloc := by
      intro hm
      simp only [UrlG.netloc, UrlG.hostPart, hb, Bool.false_eq_true, if_false, List.mem_append] at hm
      rcases hm with hm | hm | hm
      · rcases mem_uiPart hm with ⟨u, hu, hcu⟩ | h'
        · have hui := h.ui; rw [hu] at hui; exact free_not_mem (freeOpt_some hui) (by simp) hcu
        · cases h'
      · exact free_not_mem (host_free h) (by simp) hm
      · exact port_no h (by simp) hm
    unfold netlocOk
    simp [hl, hr]
  | true =>
    have e : g.netloc = Ural.TldUrl.netlocBr g.ui g.host g.port := by
      unfold UrlG.netloc UrlG.hostPart Ural.TldUrl.netlocBr
      rw [hb]
      cases g.ui <;> cases g.port <;> simp [uiPart, portPart, Ural.TldUrl.uiPart, Ural.TldUrl.portPart]
    rw [e, Ural.TldUrl.netlocOk_netlocBr]
    · exact host_br_ok h hb
    · intro u hu
      have hui := h.ui; rw [hu] at hui
      exact ⟨free_not_mem (freeOpt_some hui) (by simp), free_not_mem (freeOpt_some hui) (by simp)⟩
    · exact ⟨free_not_mem (host_free h) (by simp), free_not_mem (host_free h) (by simp),
        free_not_mem (host_free h) (by simp)⟩
    · intro p hp
      have hpp := h.port; rw [hp] at hpp
      exact ⟨free_not_mem (freeOpt_some hpp) (by simp), free_not_mem (freeOpt_some hpp) (by simp),
        free_not_mem (freeOpt_some hpp) (by simp)⟩

/-- the accessors on the authority of the grammar -/
theorem userinfo_netloc {g : UrlG} (h : WFacts g) :
    userinfo g.netloc =
      (g.ui.map fun u => (splitFirst u ':').1, g.ui.bind fun u => (splitFirst u ':').2) := by
  unfold userinfo UrlG.netloc
  cases hu : g.ui with
  | none =>
    simp only [uiPart, List.nil_append, splitLast_notMem _ _ (hostPort_no_at h)]
    rfl
  | some u =>
    simp only [uiPart, List.append_assoc, List.singleton_append,
      splitLast_append_sep _ _ _ (hostPort_no_at h)]
    rfl

theorem hostinfoStr_netloc {g : UrlG} (h : WFacts g) :
    hostinfoStr g.netloc = g.hostPart ++ portPart g.port := by
  unfold hostinfoStr UrlG.netloc
  cases hu : g.ui with
  | none => simp only [uiPart, List.nil_append, splitLast_notMem _ _ (hostPort_no_at h)]
  | some u =>
    simp only [uiPart, List.append_assoc, List.singleton_append,
      splitLast_append_sep _ _ _ (hostPort_no_at h)]

theorem hostPortStr_netloc {g : UrlG} (h : WFacts g) :
    hostPortStr (g.hostPart ++ portPart g.port) = (g.host, g.port.getD []) := by
  unfold hostPortStr UrlG.hostPart
  cases hb : g.br with
  | false =>
    simp only [Bool.false_eq_true, if_false]
    rw [splitFirst_notMem_s20 _ _ (hostPort_no_lbr h hb)]
    have hcol : ':' ∉ g.host := host_no_colon h hb
    cases hp : g.port with
    | none => simp [portPart, splitFirst_notMem_s20 _ _ hcol]
    | some p => simp [portPart, splitFirst_append_sep_s20 _ _ _ hcol]
  | true =>
    simp only [if_true]
    have hrb : ']' ∉ g.host := free_not_mem (host_free h) (by simp)
    have e1 : splitFirst ('[' :: (g.host ++ [']']) ++ portPart g.port) '[' =
        ([], some (g.host ++ ']' :: portPart g.port)) := by
      rw [List.cons_append, splitFirst_cons_s20, if_pos rfl]
      simp
    rw [e1]
    simp only [splitFirst_append_sep_s20 _ _ _ hrb, Option.getD_some]
    cases hp : g.port with
    | none => simp [portPart, splitFirst_nil_s20]
    | some p => simp [portPart, splitFirst_cons_s20]

theorem hostinfo_netloc {g : UrlG} (h : WFacts g) :
    hostinfo g.netloc = (g.host, if g.port.getD [] = [] then none else some (g.port.getD [])) := by
  unfold hostinfo
  rw [hostinfoStr_netloc h, hostPortStr_netloc h]

theorem port_netloc {g : UrlG} (h : WFacts g) : port g.netloc = portVal g.port := by
  unfold Py.port
  rw [hostinfo_netloc h]
  cases hp : g.port with
  | none => simp [portVal]
  | some p =>
    by_cases he : p = []
    · simp [portVal, he]
    · simp only [Option.getD_some, he, if_false, portVal]
      cases strToNat? p <;> rfl

theorem hostname_netloc {g : UrlG} (h : WFacts g) :
    hostname g.netloc = if g.host = [] then none else some (lowerHost g.host) := by
  unfold hostname
  rw [hostinfo_netloc h]

theorem tail_split {g : UrlG} (h : WFacts g) :
    (splitFirst g.tail '#').2.getD [] = g.fragment.getD [] ∧
    (splitFirst (splitFirst g.tail '#').1 '?').1 = g.path ∧
    (splitFirst (splitFirst g.tail '#').1 '?').2.getD [] = g.query.getD [] := by
  have hpq : '?' ∉ g.path := free_not_mem h.path (by simp)
  have hph : '#' ∉ g.path := free_not_mem h.path (by simp)
  have hqh : '#' ∉ g.path ++ qPart g.query := by
    intro hm
    rcases List.mem_append.1 hm with hm | hm
    · exact hph hm
    · cases hq : g.query with
      | none => rw [hq] at hm; simp [qPart] at hm
      | some q =>
        rw [hq] at hm
        have hqq := h.query; rw [hq] at hqq
        simp only [qPart, List.mem_cons] at hm
        rcases hm with hm | hm
        · cases hm
        · exact free_not_mem (freeOpt_some hqq) (by simp) hm
  have e1 : splitFirst g.tail '#' = (g.path ++ qPart g.query, g.fragment) := by
    unfold UrlG.tail
    rw [← List.append_assoc]
    cases hf : g.fragment with
    | none => simp [fPart, splitFirst_notMem_s20 _ _ hqh]
    | some f => simp only [fPart]; exact splitFirst_append_sep_s20 _ _ _ hqh
  have e2 : splitFirst (g.path ++ qPart g.query) '?' = (g.path, g.query) := by
    cases hq : g.query with
    | none => simp [qPart, splitFirst_notMem_s20 _ _ hpq]
    | some q => simp only [qPart]; exact splitFirst_append_sep_s20 _ _ _ hpq
  rw [e1]
  simp only [e2]
  exact ⟨trivial, trivial, trivial⟩

/-- **what the parser makes of authority + tail** -/
theorem parseAuthority_rest (g : UrlG) (h : WFacts g) (sc : Str) :
    parseAuthority sc g.rest = (portVal g.port).map fun po =>
      { scheme := sc, netloc := g.netloc, path := g.path,
        query := g.query.getD [], fragment := g.fragment.getD [],
        username := g.ui.map fun u => (splitFirst u ':').1,
        password := g.ui.bind fun u => (splitFirst u ':').2,
        hostname := if g.host = [] then none else some (lowerHost g.host),
        port := po } := by
  have hfree := netloc_nodelim h
  have htw : g.rest.takeWhile (fun c => !isNetlocDelim c) = g.netloc :=
    takeWhile_append_stop _ _ _ (fun c hc => isNetlocDelim_false_of (hfree c hc)) (tail_head_delim h)
  have hdw : g.rest.dropWhile (fun c => !isNetlocDelim c) = g.tail :=
    dropWhile_append_stop _ _ _ (fun c hc => isNetlocDelim_false_of (hfree c hc)) (tail_head_delim h)
  unfold parseAuthority
  simp only [htw, hdw, netlocOk_netloc h, if_true, port_netloc h]
  obtain ⟨t1, t2, t3⟩ := tail_split h
  cases portVal g.port with
  | none => rfl
  | some po =>
    simp only [Option.map_some, parsedOf, t1, t2, t3, hostname_netloc h, username, password,
      userinfo_netloc h]

/-- **the modelled parser on a string of the grammar**: what `normalize_url` hands to it
(`http://` in front of a bare string) is parsed into `g.parsed`, and `PROTOCOL_RE` matches iff
there is a prefix -/
theorem parse_str (g : UrlG) (h : g.wf = true) (hc : NoUnsafe g.rest) :
    parseUrl (ensureHttp g.str) = g.parsed ∧ hasProtocol g.str = g.proto.hasProto := by
  have hf := wf_facts h
  have hp := hf.proto
  unfold UrlG.parsed UrlG.record UrlG.hostname
  rw [← parseAuthority_rest g hf]
  unfold UrlG.str ensureHttp
  cases hpr : g.proto with
  | scheme sc =>
    rw [hpr] at hp
    simp only [Proto.ok, Bool.and_eq_true, Bool.not_eq_true', decide_eq_true_eq] at hp
    obtain ⟨⟨h1, h2⟩, h3⟩ := hp
    have h1' : sc ≠ [] := by intro e; subst e; simp at h1
    have e : (Proto.scheme sc).str ++ g.rest = sc ++ ':' :: '/' :: '/' :: g.rest := by
      simp [Proto.str]
    have hhp := hasProtocol_scheme sc g.rest h1' h2 h3
    rw [e, hhp]
    simp only [if_true, Proto.hasProto, Proto.parsedScheme, and_true]
    exact parseUrl_scheme sc g.rest (schemeShaped_of_letters h1' h3) hc
  | slashes =>
    have e : Proto.slashes.str ++ g.rest = '/' :: '/' :: g.rest := rfl
    rw [e, hasProtocol_slashes]
    simp only [if_true, Proto.hasProto, Proto.parsedScheme, and_true]
    exact parseUrl_slashes g.rest hc
  | bare =>
    rw [hpr] at hp
    simp only [Proto.ok, Bool.not_eq_true'] at hp
    have e : Proto.bare.str ++ g.rest = g.rest := rfl
    rw [e, hp]
    simp only [Bool.false_eq_true, if_false, Proto.hasProto, Proto.parsedScheme, and_true]
    have := parseUrl_scheme ['h', 't', 't', 'p'] g.rest
      (schemeShaped_of_letters (by simp) (by decide)) hc
    have e2 : "http://".toList ++ g.rest = ['h', 't', 't', 'p'] ++ ':' :: '/' :: '/' :: g.rest := rfl
    rw [e2, this]
    rfl

/-! ## the pipeline of `normalize_url` around the parser -/

/-- the string `normalize_url` cleans: resolved (under `infer_redirection`), control characters
removed, stripped, escapes upper-cased -/
def resolvedClean (ir : Bool) (u : Str) : Str := preClean (if ir then infer u else u)

/-- `normalize_url` from the cleaned string on (`platform_aware=False`); `none` = unparseable -/
def normCleaned (puny : Str → Str) (o : Opts) (c : Str) : Option Str :=
  (parseUrl (ensureHttp c)).map fun p =>
    finalString o (hasProtocol c) (normParts puny o (hasProtocol c) p)

/-- **`normalize_url` factors through the cleaned, resolved string**; an unparseable argument is
returned as it is -/
theorem normalizeUrlString_cleaned (puny : Str → Str) (o : Opts) (ir : Bool) (u : Str) :
    normalizeUrlString puny id o ir u = (normCleaned puny o (resolvedClean ir u)).getD u := by
  rw [normalizeUrlString_eq]
  unfold normalizeUrl prepared normCleaned resolvedClean
  simp only [id]
  generalize parseUrl _ = x
  cases x <;> rfl

/-- a string the cleaning pass leaves alone: no control character, no white space at the ends,
escapes in upper case (decidable) -/
structure Cleaned (s : Str) : Prop where
  ctl : stripControl s = s
  ws : strip s = s
  uq : upperQuoted s = s

instance (s : Str) : Decidable (Cleaned s) :=
  decidable_of_iff (stripControl s = s ∧ strip s = s ∧ upperQuoted s = s)
    ⟨fun ⟨a, b, c⟩ => ⟨a, b, c⟩, fun h => ⟨h.ctl, h.ws, h.uq⟩⟩

theorem Cleaned.preClean {s : Str} (h : Cleaned s) : preClean s = s := by
  unfold Normalize.preClean
  rw [h.ctl, h.ws, h.uq]

theorem Cleaned.noUnsafe {s : Str} (h : Cleaned s) : NoUnsafe s := by
  intro c hc
  have := h.ctl
  unfold stripControl at this
  have hk := (List.filter_eq_self.1 this) c hc
  exact unsafe_of_ctl (by simpa using hk)

/-- a string that reaches the parser as it is: cleaned, and not followed as a redirect -/
structure Plain (ir : Bool) (s : Str) : Prop where
  cleaned : Cleaned s
  noRedirect : ir = true → infer s = s

instance (ir : Bool) (s : Str) : Decidable (Plain ir s) :=
  decidable_of_iff (Cleaned s ∧ (ir = true → infer s = s))
    ⟨fun ⟨a, b⟩ => ⟨a, b⟩, fun h => ⟨h.cleaned, h.noRedirect⟩⟩

theorem Plain.resolved {ir : Bool} {s : Str} (h : Plain ir s) : resolvedClean ir s = s := by
  unfold resolvedClean
  cases ir with
  | false => exact h.cleaned.preClean
  | true => simp only [if_true]; rw [h.noRedirect rfl]; exact h.cleaned.preClean

/-- two plain strings on which the function-after-cleaning agrees (and parses) get the same
result -/
theorem string_of_cleaned (puny : Str → Str) (o : Opts) (ir : Bool) (u v : Str)
    (hu : Plain ir u) (hv : Plain ir v)
    (h : normCleaned puny o v = normCleaned puny o u) (hparse : normCleaned puny o u ≠ none) :
    normalizeUrlString puny id o ir v = normalizeUrlString puny id o ir u := by
  rw [normalizeUrlString_cleaned, normalizeUrlString_cleaned, hu.resolved, hv.resolved, h]
  cases hx : normCleaned puny o u with
  | none => exact absurd hx hparse
  | some x => rfl

/-! ## on the grammar -/

/-- `normalize_url` on a string of the grammar, from the pieces -/
def normG (puny : Str → Str) (o : Opts) (g : UrlG) : Option Str :=
  g.parsed.map fun p => finalString o g.proto.hasProto (normParts puny o g.proto.hasProto p)

theorem normCleaned_str (puny : Str → Str) (o : Opts) (g : UrlG) (h : g.wf = true)
    (hc : NoUnsafe g.rest) : normCleaned puny o g.str = normG puny o g := by
  obtain ⟨e1, e2⟩ := parse_str g h hc
  unfold normCleaned normG
  rw [e1, e2]

/-- what the cleaning pass returns holds no control character -/
theorem noCtl_resolvedClean (ir : Bool) (u : Str) : NoCtl (resolvedClean ir u) :=
  Ural.CanonRoundTrip.noCtl_upperQuoted
    (NoCtl.of_subset (Ural.CanonRoundTrip.strip_subset _) (Ural.CanonRoundTrip.noCtl_stripControl _))

/-- **the class of the string-level theorems**: the strings `u` whose cleaned, resolved form
(`infer_redirection` when `ir`, control characters removed, stripped, escapes upper-cased) is the
string `g.str` of the grammar -/
structure InClassOf (ir : Bool) (g : UrlG) (u : Str) : Prop where
  wf : g.wf = true
  reaches : resolvedClean ir u = g.str

instance (ir : Bool) (g : UrlG) (u : Str) : Decidable (InClassOf ir g u) :=
  decidable_of_iff (g.wf = true ∧ resolvedClean ir u = g.str)
    ⟨fun ⟨a, b⟩ => ⟨a, b⟩, fun h => ⟨h.wf, h.reaches⟩⟩

/-- the special case of a string that reaches the parser as it is: `u = g.str` itself -/
structure InClass (ir : Bool) (g : UrlG) : Prop where
  wf : g.wf = true
  plain : Plain ir g.str

instance (ir : Bool) (g : UrlG) : Decidable (InClass ir g) :=
  decidable_of_iff (g.wf = true ∧ Plain ir g.str) ⟨fun ⟨a, b⟩ => ⟨a, b⟩, fun h => ⟨h.wf, h.plain⟩⟩

theorem InClass.of {ir : Bool} {g : UrlG} (h : InClass ir g) : InClassOf ir g g.str :=
  ⟨h.wf, h.plain.resolved⟩

theorem InClassOf.noUnsafe {ir : Bool} {g : UrlG} {u : Str} (h : InClassOf ir g u) :
    NoUnsafe g.rest := by
  intro c hc
  apply unsafe_of_ctl
  apply noCtl_resolvedClean ir u c
  rw [h.reaches]
  unfold UrlG.str
  exact List.mem_append_right _ hc

/-- **from the pieces to the strings** (relational form): if the cleaned, resolved forms of `u`
and `u'` are the strings of `g` and `g'`, whose pieces give the same result (the base one being
parseable: its port text is a port), then `u` and `u'` are normalized alike -/
theorem string_of_grammar_rel (puny : Str → Str) (o : Opts) (ir : Bool) (g g' : UrlG) (u u' : Str)
    (hg : InClassOf ir g u) (hg' : InClassOf ir g' u') (hport : portVal g.port ≠ none)
    (h : normG puny o g' = normG puny o g) :
    normalizeUrlString puny id o ir u' = normalizeUrlString puny id o ir u := by
  rw [normalizeUrlString_cleaned, normalizeUrlString_cleaned, hg.reaches, hg'.reaches,
    normCleaned_str puny o g hg.wf hg.noUnsafe, normCleaned_str puny o g' hg'.wf hg'.noUnsafe, h]
  unfold normG UrlG.parsed
  cases hp : portVal g.port with
  | none => exact absurd hp hport
  | some po => rfl

/-- … and for the two strings of the grammar themselves -/
theorem string_of_grammar (puny : Str → Str) (o : Opts) (ir : Bool) (g g' : UrlG)
    (hg : InClass ir g) (hg' : InClass ir g') (hport : portVal g.port ≠ none)
    (h : normG puny o g' = normG puny o g) :
    normalizeUrlString puny id o ir g'.str = normalizeUrlString puny id o ir g.str :=
  string_of_grammar_rel puny o ir g g' _ _ hg.of hg'.of hport h

/-- **`normalize_url(…, unsplit=False)` on a string of the class**, from the pieces -/
theorem normalizeUrlSplit_grammar (puny : Str → Str) (o : Opts) (ir : Bool) (g : UrlG) (x : Str)
    (hg : InClassOf ir g x) :
    normalizeUrlSplit puny parseUrl id o ir x =
      match g.parsed with
      | none => .inl x
      | some p => .inr (normParts puny o g.proto.hasProto p) := by
  obtain ⟨e1, e2⟩ := parse_str g hg.wf hg.noUnsafe
  have hr := hg.reaches
  unfold resolvedClean at hr
  unfold normalizeUrlSplit prepared
  simp only [id, hr, e1, e2]
  cases g.parsed <;> rfl

theorem portVal_ok {port : Option Str} {po : Option Nat} (h : portVal port = some po) :
    ∀ n, po = some n → n ≤ 65535 := by
  intro n hn
  subst hn
  cases port with
  | none => simp [portVal] at h
  | some p =>
    simp only [portVal] at h
    split at h
    · cases h
    · split at h
      · split at h
        · injection h with h; injection h with h; subst h; assumption
        · cases h
      · cases h

/-- a transformation that keeps prefix and port value: it is enough to compare the results on
the two `Parsed` records -/
theorem normG_congr (puny : Str → Str) (o : Opts) (g g' : UrlG) (hproto : g'.proto = g.proto)
    (hport : portVal g'.port = portVal g.port)
    (h : ∀ po, normParts puny o g.proto.hasProto (g'.record po) =
      normParts puny o g.proto.hasProto (g.record po)) :
    normG puny o g' = normG puny o g := by
  unfold normG UrlG.parsed
  rw [hport, hproto]
  cases portVal g.port with
  | none => rfl
  | some po => simp only [Option.map_some, h po]

theorem lowerHost_of_no_pct {h : Str} (hp : '%' ∉ h) : lowerHost h = lower h := by
  unfold lowerHost
  rw [splitFirst_notMem_s20 _ _ hp]
  simp

end Ural.NormBridge
