import UralModel.Model.Normalize
import UralModel.Lemmas.C04Query
import UralModel.Lemmas.C04Host
/-!
# C04 — how each component of the parsed URL enters `normalize_url(…, unsplit=False)`
-/
set_option linter.unusedSimpArgs false
namespace Ural.Normalize
open Ural Ural.Py Ural.UrlParts Ural.Quote Ural.Canonicalize

/-- the hostname the per-domain filter looks at -/
def hostKey (puny : Str → Str) (h : Option Str) : Option Str :=
  h.map fun h => if h.isEmpty then h else lower (decodePunycodeHostname puny h)

/-- the fragment after unescaping (and case folding under `lowercase`) and the routing test -/
def fragStep (o : Opts) (f : Str) : Str :=
  normFragment o.stripFragment (if o.lowercase then lower (unquoteFragment f) else unquoteFragment f)

def normPort (port : Option Nat) : Option Nat :=
  match port with
  | some n => if n = 80 ∨ n = 443 then none else some n
  | none => none

/-- **the result, component by component** -/
theorem normParts_eq (puny : Str → Str) (o : Opts) (hp : Bool) (p : Parsed) :
    normParts puny o hp p =
      { scheme := if o.stripProtocol || !hp then [] else p.scheme
        netloc := unsplitNetloc
          (if o.stripAuthentication then none else canonOpt o.quoted unquoteAuthItem p.username)
          (if o.stripAuthentication then none else canonOpt o.quoted unquoteAuthItem p.password)
          (p.hostname.map (normHost puny o)) (normPort p.port)
        path := normPath o p.path (fragStep o p.fragment) (fixedQ o p.query)
        query := renderQsl o.quoted (filterQuery o (hostKey puny p.hostname) (fixedQ o p.query))
        fragment := some (requote o.quoted unquoteFragment (fragStep o p.fragment)) } := rfl

/-- with `strip_trailing_slash` the path does not depend on whether there is a query -/
theorem normPath_query_irrelevant (o : Opts) (hts : o.stripTrailingSlash = true)
    (path f q q' : Str) : normPath o path f q = normPath o path f q' := by
  unfold normPath
  simp only [hts, Bool.true_and]
  generalize pathSteps o path = P
  have key : ∀ (c : Prop) [Decidable c],
      (if endsWith (if P = ['/'] ∧ c then [] else P) ['/'] = true
        then rstripChars (if P = ['/'] ∧ c then [] else P) ['/']
        else (if P = ['/'] ∧ c then [] else P)) =
      (if endsWith P ['/'] = true then rstripChars P ['/'] else P) := by
    intro c _
    by_cases hP : P = ['/']
    · subst hP
      have h1 : rstripChars ['/'] ['/'] = [] := by decide
      have h2 : endsWith ['/'] ['/'] = true := by decide
      have h3 : endsWith ([] : Str) ['/'] = false := by decide
      by_cases hc : c <;> simp [hc, h1, h2, h3]
    · simp [hP]
  simp only [key]

/-- the hostname enters through its decoded, lower-cased form only -/
theorem hostKey_eq (puny : Str → Str) (h : Str) :
    hostKey puny (some h) = some (canonHost puny h) := by
  unfold hostKey canonHost
  by_cases hh : h = []
  · subst hh
    have := canonHost_nil puny
    unfold canonHost at this
    simp [this]
  · have : h.isEmpty = false := by cases h <;> simp_all
    simp [this, hh]

/-- the query string of the result, as a function of the decoded items of the raw query -/
theorem normParts_query (hk : KeepsEmpty) (puny : Str → Str) (o : Opts) (hl : o.lowercase = false)
    (hp : Bool) (p : Parsed) :
    (normParts puny o hp p).query =
      renderQsl o.quoted (sortIf o.sortQuery
        ((seenItems o.fixCommonMistakes (decoded p.query)).filter
          (keepItem o (hostKey puny p.hostname)))) := by
  rw [normParts_eq]
  exact outQuery_eq hk o hl _ _

/-- two parsed URLs that differ in the query only give the same result as soon as the kept,
sorted, re-quoted items serialise alike (`strip_trailing_slash` on) -/
theorem normParts_congr_query (hk : KeepsEmpty) (puny : Str → Str) (o : Opts)
    (hl : o.lowercase = false) (hts : o.stripTrailingSlash = true) (hp : Bool) (p : Parsed)
    (q q' : Str)
    (h : renderQsl o.quoted (sortIf o.sortQuery
          ((seenItems o.fixCommonMistakes (decoded q)).filter (keepItem o (hostKey puny p.hostname)))) =
        renderQsl o.quoted (sortIf o.sortQuery
          ((seenItems o.fixCommonMistakes (decoded q')).filter (keepItem o (hostKey puny p.hostname))))) :
    normParts puny o hp { p with query := q } = normParts puny o hp { p with query := q' } := by
  have h1 := normParts_query hk puny o hl hp { p with query := q }
  have h2 := normParts_query hk puny o hl hp { p with query := q' }
  simp only at h1 h2
  rw [normParts_eq, normParts_eq] at *
  simp only at h1 h2 ⊢
  rw [h1, h2, h, normPath_query_irrelevant o hts _ _ (fixedQ o q) (fixedQ o q')]

end Ural.Normalize
