import UralModel.Lemmas.Quote
/-!
Idempotence of the safe unquoters (`unquoteToks U (unquoteToks U ts) = unquoteToks U ts`).

The second pass turns the re-escaped bytes of a run (ill-formed bytes and C1 controls) back
into pending bytes and segments them again, in a *shorter* context (a sub-run of the first
pass's run).  `Good` says that a segment list is the segmentation of its own bytes whatever
follows; it is closed under taking contiguous sub-lists, which is what makes the second
segmentation reproduce the first.
-/
set_option linter.unusedSimpArgs false

namespace Ural.Quote
open Ural.Py

/-! ### good segment lists -/

theorem decodeHead_append_of_some {a x : List UInt8} {c : Char} (h : decodeHead a = some c) :
    decodeHead (a ++ x) = some c := by
  unfold decodeHead at h ⊢
  rw [List.toByteArray_append]
  exact ByteArray.utf8DecodeChar?_append_eq_some h _

theorem decodeHead_none_of_append {a x : List UInt8} (h : decodeHead (a ++ x) = none) :
    decodeHead a = none := by
  cases ha : decodeHead a with
  | none => rfl
  | some c => rw [decodeHead_append_of_some ha] at h; cases h

def segsBytes (segs : List (Char ⊕ UInt8)) : List UInt8 := segs.flatMap segBytes

/-- every ill-formed byte of the list is ill-formed in front of what follows it in the list
(and `more`) -/
def Good : List (Char ⊕ UInt8) → List UInt8 → Prop
  | [], _ => True
  | .inl _ :: r, more => Good r more
  | .inr b :: r, more => decodeHead (b :: (segsBytes r ++ more)) = none ∧ Good r more

theorem segment_of_good (segs : List (Char ⊕ UInt8)) (more : List UInt8) (h : Good segs more) :
    segment (segsBytes segs ++ more) = segs ++ segment more := by
  induction segs with
  | nil => simp [segsBytes]
  | cons x r ih =>
    cases x with
    | inl c =>
      have hne := utf8_ne_nil c
      obtain ⟨b0, t, hbt⟩ := List.exists_cons_of_ne_nil hne
      simp only [Good] at h
      have e : segsBytes (.inl c :: r) ++ more = b0 :: (t ++ (segsBytes r ++ more)) := by
        simp [segsBytes, segBytes, hbt]
      rw [e, segment_cons]
      have hd : decodeHead (b0 :: (t ++ (segsBytes r ++ more))) = some c := by
        have := decodeHead_utf8_append c (segsBytes r ++ more)
        rw [hbt] at this; simpa using this
      rw [hd]
      simp only [List.cons_append]
      congr 1
      have hdrop : (b0 :: (t ++ (segsBytes r ++ more))).drop c.utf8Size = segsBytes r ++ more := by
        have : b0 :: (t ++ (segsBytes r ++ more)) = utf8 c ++ (segsBytes r ++ more) := by
          rw [hbt]; simp
        rw [this, ← utf8_length c]; simp
      rw [hdrop, ih h]
    | inr b =>
      simp only [Good] at h
      have e : segsBytes (.inr b :: r) ++ more = b :: (segsBytes r ++ more) := by
        simp [segsBytes, segBytes]
      rw [e, segment_cons, h.1]
      simp only [List.cons_append]
      congr 1
      exact ih h.2

theorem good_segment (bs : List UInt8) : Good (segment bs) [] := by
  induction h : bs.length using Nat.strongRecOn generalizing bs with
  | _ n ih =>
    cases bs with
    | nil => simp [Good]
    | cons b rest =>
      rw [segment_cons]
      cases hd : decodeHead (b :: rest) with
      | none =>
        simp only [Good]
        refine ⟨?_, ih rest.length (by simp at h; omega) rest rfl⟩
        have := segment_bytes rest
        simp only [segsBytes, List.append_nil]
        rw [this]; exact hd
      | some c =>
        simp only [Good]
        have hpos := c.utf8Size_pos
        exact ih _ (by rw [← h]; simp only [List.length_drop, List.length_cons]; omega) _ rfl

theorem good_suffix (s1 s2 : List (Char ⊕ UInt8)) (more : List UInt8) (h : Good (s1 ++ s2) more) :
    Good s2 more := by
  induction s1 with
  | nil => exact h
  | cons x r ih =>
    cases x with
    | inl c => exact ih h
    | inr b => exact ih h.2

theorem good_prefix (s1 s2 : List (Char ⊕ UInt8)) (more : List UInt8) (h : Good (s1 ++ s2) more) :
    Good s1 [] := by
  induction s1 with
  | nil => simp [Good]
  | cons x r ih =>
    cases x with
    | inl c => exact ih h
    | inr b =>
      simp only [List.cons_append, Good] at h ⊢
      refine ⟨?_, ih h.2⟩
      have e : b :: (segsBytes (r ++ s2) ++ more) = (b :: (segsBytes r ++ [])) ++ (segsBytes s2 ++ more) := by
        simp [segsBytes]
      rw [e] at h
      exact decodeHead_none_of_append h.1

/-- a good list is the segmentation of its own bytes -/
theorem segment_segsBytes (segs : List (Char ⊕ UInt8)) (h : Good segs []) :
    segment (segsBytes segs) = segs := by
  have := segment_of_good segs [] h
  simpa using this

/-! ### the second pass -/

/-- tokens of one segment, as `flush` emits them -/
def tokOfSeg : Char ⊕ UInt8 → List Tok
  | .inl c => if staysEscaped c then (utf8 c).map escOfByte else [.raw c]
  | .inr b => [escOfByte b]

theorem flush_eq (bs : List UInt8) : flush bs = (segment bs).flatMap tokOfSeg := by
  unfold flush
  congr 1

/-- a segment whose tokens are escapes again (an ill-formed byte, or a C1 control) -/
def IsEsc : Char ⊕ UInt8 → Prop
  | .inl c => staysEscaped c = true
  | .inr _ => True

/-- second pass: `itemOf` on already produced tokens, then `assemble` -/
def pass2 (U : List UInt8) (toks : List Tok) (acc : List UInt8) : List Tok :=
  assemble (toks.map (itemOf U)) acc

/-- the unsafe set only holds ASCII bytes (true of the four regenerated sets) -/
def AsciiSet (U : List UInt8) : Prop := ∀ b ∈ U, b.toNat < 0x80

theorem itemOf_escOfByte (U : List UInt8) (hU : AsciiSet U) (b : UInt8) (hb : 0x80 ≤ b.toNat) :
    itemOf U (escOfByte b) = .byte b := by
  have hk : keepEsc U b = false := by
    simp only [keepEsc, Bool.or_eq_false_iff, decide_eq_false_iff_not, beq_eq_false_iff_ne, ne_eq]
    refine ⟨⟨?_, ?_⟩, ?_⟩
    · intro h; have := UInt8.lt_iff_toNat_lt.1 h; simp at this; omega
    · intro h; rw [h] at hb; simp at hb
    · cases hc : U.contains b with
      | false => rfl
      | true =>
        have := hU b (by simpa using hc)
        omega
  have hlt : ¬ b < 0x80 := by
    intro h; have := UInt8.lt_iff_toNat_lt.1 h; simp at this; omega
  simp only [escOfByte, itemOf, byteOf_escOfByte, hk, Bool.false_eq_true, if_false, hlt]

theorem pass2_map_escOfByte (U : List UInt8) (hU : AsciiSet U) (bs : List UInt8)
    (hb : ∀ b ∈ bs, 0x80 ≤ b.toNat) (toks : List Tok) (acc : List UInt8) :
    pass2 U (bs.map escOfByte ++ toks) acc = pass2 U toks (acc ++ bs) := by
  induction bs generalizing acc with
  | nil => simp
  | cons b bs ih =>
    simp only [pass2, List.map_cons, List.cons_append, List.map_append] at ih ⊢
    rw [itemOf_escOfByte U hU b (hb b (by simp))]
    simp only [assemble]
    rw [ih (fun b' hb' => hb b' (by simp [hb'])) (acc ++ [b])]
    simp

theorem flush_nil : flush [] = [] := by simp [flush]

/-- in front of a literal token (or at the end) the pending bytes are flushed -/
def StartsLit (U : List UInt8) : List Tok → Prop
  | [] => True
  | t :: _ => ∃ t', itemOf U t = .lit t'

theorem pass2_flush_first (U : List UInt8) (toks : List Tok) (acc : List UInt8)
    (h : StartsLit U toks) : pass2 U toks acc = flush acc ++ pass2 U toks [] := by
  cases toks with
  | nil => simp [pass2, assemble, flush_nil]
  | cons t r =>
    obtain ⟨t', ht'⟩ := h
    simp [pass2, assemble, ht', flush_nil]

/-- the UTF-8 bytes of a C1 control are both ≥ 0x80 (32 characters, by evaluation) -/
theorem utf8_c1_high_nat : ∀ n, n < 0xa0 → 0x80 ≤ n → ∀ b ∈ utf8 (Char.ofNat n), 0x80 ≤ b.toNat := by
  decide +kernel

/-- the UTF-8 bytes of a whitespace character beyond ASCII are all ≥ 0x80 (18 characters, by
evaluation) -/
theorem utf8_uspace_high_nat : ∀ n ∈ uSpaces, ∀ b ∈ utf8 (Char.ofNat n), 0x80 ≤ b.toNat := by
  decide +kernel

theorem utf8_c1_high {c : Char} (h : staysEscaped c = true) : ∀ b ∈ utf8 c, 0x80 ≤ b.toNat := by
  simp only [staysEscaped, Bool.or_eq_true] at h
  rcases h with h | h
  · simp only [isC1, Bool.and_eq_true, decide_eq_true_eq] at h
    have := utf8_c1_high_nat c.toNat (by omega) h.1
    rwa [Char.ofNat_toNat] at this
  · have := utf8_uspace_high_nat c.toNat (by simpa using h)
    rwa [Char.ofNat_toNat] at this

/-- all bytes of escape-producing segments of a high run are ≥ 0x80 -/
theorem segBytes_high_of_isEsc {x : Char ⊕ UInt8} (hx : SegHigh x) (he : IsEsc x) :
    ∀ b ∈ segBytes x, 0x80 ≤ b.toNat := by
  cases x with
  | inl c => exact utf8_c1_high he
  | inr b => intro b' hb'; simp [segBytes] at hb'; subst hb'; exact hx

theorem tokOfSeg_isEsc {x : Char ⊕ UInt8} (he : IsEsc x) : tokOfSeg x = (segBytes x).map escOfByte := by
  cases x with
  | inl c => simp only [tokOfSeg, segBytes]; simp only [IsEsc] at he; simp [he]
  | inr b => rfl

theorem flush_segsBytes (segs : List (Char ⊕ UInt8)) (h : Good segs []) :
    flush (segsBytes segs) = segs.flatMap tokOfSeg := by
  rw [flush_eq, segment_segsBytes segs h]

/-- **re-absorption**: the tokens of a good list of high segments, processed again while the
bytes of a preceding run of escape-producing segments are pending, come out unchanged -/
theorem pass2_segs (U : List UInt8) (hU : AsciiSet U) (segs pre : List (Char ⊕ UInt8))
    (toks : List Tok) (hpre : ∀ x ∈ pre, IsEsc x) (hhigh : ∀ x ∈ pre ++ segs, SegHigh x)
    (hgood : Good (pre ++ segs) []) (htoks : StartsLit U toks) :
    pass2 U (segs.flatMap tokOfSeg ++ toks) (segsBytes pre) =
      pre.flatMap tokOfSeg ++ segs.flatMap tokOfSeg ++ pass2 U toks [] := by
  induction segs generalizing pre with
  | nil =>
    simp only [List.flatMap_nil, List.nil_append, List.append_nil] at hgood ⊢
    rw [pass2_flush_first U toks _ htoks, flush_segsBytes pre hgood]
  | cons x r ih =>
    have hx : SegHigh x := hhigh x (by simp)
    by_cases he : IsEsc x
    · -- the segment's tokens are escapes: their bytes join the pending run
      rw [List.flatMap_cons, tokOfSeg_isEsc he, List.append_assoc,
        pass2_map_escOfByte U hU _ (segBytes_high_of_isEsc hx he)]
      have e1 : segsBytes pre ++ segBytes x = segsBytes (pre ++ [x]) := by simp [segsBytes]
      rw [e1, ih (pre ++ [x])]
      · simp [tokOfSeg_isEsc he]
      · intro y hy
        simp only [List.mem_append, List.mem_singleton] at hy
        rcases hy with hy | rfl
        · exact hpre y hy
        · exact he
      · intro y hy; apply hhigh; simpa using hy
      · simpa using hgood
    · -- a decoded character that is not a C1 control: a literal, the pending run is flushed
      cases x with
      | inr b => exact absurd trivial he
      | inl c =>
        simp only [IsEsc, Bool.not_eq_true] at he
        have hc80 : 0x80 ≤ c.toNat := hx
        have hsp : c ≠ ' ' := by rintro rfl; revert hc80; decide
        have hitem : itemOf U (.raw c) = .lit (.raw c) := by simp [itemOf, hsp]
        have htok : tokOfSeg (.inl c) = [.raw c] := by simp [tokOfSeg, he]
        rw [List.flatMap_cons, htok]
        simp only [List.singleton_append, List.cons_append, List.nil_append]
        have hgpre : Good pre [] := good_prefix pre _ [] hgood
        have hgr : Good r [] := by
          have := good_suffix pre (.inl c :: r) [] hgood
          exact this
        have : pass2 U (Tok.raw c :: (r.flatMap tokOfSeg ++ toks)) (segsBytes pre)
            = flush (segsBytes pre) ++ Tok.raw c :: pass2 U (r.flatMap tokOfSeg ++ toks) [] := by
          simp [pass2, assemble, hitem]
        rw [this, flush_segsBytes pre hgpre]
        have ih' := ih [] (by simp) (by intro y hy; apply hhigh; simp at hy ⊢; right; right; exact hy)
          (by simpa using hgr)
        simp only [segsBytes, List.flatMap_nil, List.nil_append] at ih'
        rw [ih']
        simp

/-- literal tokens produced by the first pass are literal for the second pass, unchanged -/
theorem itemOf_fixed (U : List UInt8) (hU : (0x25 : UInt8) ∈ U) (t0 t : Tok)
    (h : itemOf U t0 = .lit t) : itemOf U t = .lit t := by
  cases t0 with
  | raw c =>
    simp only [itemOf] at h
    split at h
    · cases h
      -- `%20`
      simp only [itemOf]
      split
      · rfl
      · rename_i hk
        have : byteOf '2' '0' = 0x20 := by decide
        simp [this]
    · cases h
      rename_i hsp
      simp [itemOf, hsp]
  | stray =>
    simp only [itemOf] at h
    cases h
    have hb : byteOf '2' '5' = 0x25 := by decide
    simp [itemOf, hb, keepEsc_of_mem hU]
  | esc h1 h2 =>
    simp only [itemOf] at h
    split at h
    · rename_i hk
      cases h
      simp [itemOf, hk]
    · rename_i hk
      split at h
      · rename_i hlt
        split at h
        · cases h
          simp only [itemOf]
          split
          · rfl
          · have : byteOf '2' '0' = 0x20 := by decide
            simp [this]
        · rename_i h20
          cases h
          have hlt' : (byteOf h1 h2).toNat < 0x80 := by
            have := UInt8.lt_iff_toNat_lt.1 hlt; simpa using this
          have hne : Char.ofNat (byteOf h1 h2).toNat ≠ ' ' := by
            intro e
            have : (Char.ofNat (byteOf h1 h2).toNat).toNat = 32 := by rw [e]; rfl
            rw [toNat_ofNat_of_lt (by omega)] at this
            exact h20 (UInt8.toNat_inj.1 (by simpa using this))
          simp [itemOf, hne]
      · cases h

theorem pass2_assemble (U : List UInt8) (hU : AsciiSet U) (its : List Item) (acc : List UInt8)
    (hacc : ∀ b ∈ acc, 0x80 ≤ b.toNat)
    (hbyte : ∀ b, Item.byte b ∈ its → 0x80 ≤ b.toNat)
    (hlit : ∀ t, Item.lit t ∈ its → itemOf U t = .lit t) :
    pass2 U (assemble its acc) [] = assemble its acc := by
  induction its generalizing acc with
  | nil =>
    simp only [assemble]
    have h := pass2_segs U hU (segment acc) [] [] (by simp)
      (by simpa using segment_high acc hacc) (by simpa using good_segment acc) trivial
    simp only [List.append_nil, segsBytes, List.flatMap_nil, List.nil_append] at h
    rw [flush_eq, h]
    simp [pass2, assemble, flush_nil]
  | cons it r ih =>
    have hbyte' : ∀ b, Item.byte b ∈ r → 0x80 ≤ b.toNat := fun b hb => hbyte b (by simp [hb])
    have hlit' : ∀ t, Item.lit t ∈ r → itemOf U t = .lit t := fun t ht => hlit t (by simp [ht])
    cases it with
    | lit t =>
      simp only [assemble]
      have hfix := hlit t (by simp)
      have h := pass2_segs U hU (segment acc) [] (t :: assemble r []) (by simp)
        (by simpa using segment_high acc hacc) (by simpa using good_segment acc) ⟨t, hfix⟩
      simp only [segsBytes, List.flatMap_nil, List.nil_append] at h
      rw [flush_eq, h]
      congr 1
      have : pass2 U (t :: assemble r []) [] = t :: pass2 U (assemble r []) [] := by
        simp [pass2, assemble, hfix, flush_nil]
      rw [this, ih [] (by simp) hbyte' hlit']
    | byte b =>
      simp only [assemble]
      apply ih _ _ hbyte' hlit'
      intro b' hb'
      simp only [List.mem_append, List.mem_singleton] at hb'
      rcases hb' with hb' | rfl
      · exact hacc b' hb'
      · exact hbyte b' (by simp)

/-- **idempotence of the safe unquoters on tokens** -/
theorem unquoteToks_idem (U : List UInt8) (hpct : (0x25 : UInt8) ∈ U) (hU : AsciiSet U)
    (ts : List Tok) : unquoteToks U (unquoteToks U ts) = unquoteToks U ts := by
  have := pass2_assemble U hU (ts.map (itemOf U)) [] (by simp) ?_ ?_
  · exact this
  · intro b hb
    simp only [List.mem_map] at hb
    obtain ⟨t, _, ht⟩ := hb
    cases t with
    | raw c => simp only [itemOf] at ht; split at ht <;> cases ht
    | stray => simp [itemOf] at ht
    | esc h1 h2 =>
      simp only [itemOf] at ht
      split at ht
      · cases ht
      · split at ht
        · split at ht <;> cases ht
        · rename_i hge
          cases ht
          have : ¬ (byteOf h1 h2).toNat < 0x80 := by
            intro h; exact hge (UInt8.lt_iff_toNat_lt.2 (by simpa using h))
          omega
  · intro t ht
    simp only [List.mem_map] at ht
    obtain ⟨t0, _, ht0⟩ := ht
    exact itemOf_fixed U hpct t0 t ht0

/-! ### the output has no raw character that `NON_PRINTABLE_RE` matches -/

/-- a raw character emitted by `flush` is one that is not escaped again -/
theorem raw_mem_flush {bs : List UInt8} {c : Char} (h : Tok.raw c ∈ flush bs) : staysEscaped c = false := by
  simp only [flush_eq, List.mem_flatMap] at h
  obtain ⟨x, _, hx⟩ := h
  cases x with
  | inl d =>
    simp only [tokOfSeg] at hx
    split at hx
    · simp only [List.mem_map] at hx
      obtain ⟨b, _, hb⟩ := hx
      simp [escOfByte] at hb
    · rename_i hd
      simp only [List.mem_singleton, Tok.raw.injEq] at hx
      subst hx
      simpa using hd
  | inr b => simp [tokOfSeg, escOfByte] at hx

theorem raw_mem_assemble {c : Char} (its : List Item) : ∀ (acc : List UInt8),
    Tok.raw c ∈ assemble its acc → staysEscaped c = false ∨ Item.lit (.raw c) ∈ its := by
  induction its with
  | nil => intro acc h; exact .inl (raw_mem_flush h)
  | cons it r ih =>
    intro acc h
    cases it with
    | lit t =>
      simp only [assemble, List.mem_append, List.mem_cons] at h
      rcases h with h | h | h
      · exact .inl (raw_mem_flush h)
      · right; rw [← h]; simp
      · rcases ih _ h with h' | h'
        · exact .inl h'
        · exact .inr (List.mem_cons_of_mem _ h')
    | byte b =>
      simp only [assemble] at h
      rcases ih _ h with h' | h'
      · exact .inl h'
      · exact .inr (List.mem_cons_of_mem _ h')

/-- when the raw characters of the input are printable, so are those of the output -/
theorem raw_unquoteToks (U : List UInt8) {ts : List Tok}
    (h : ∀ c, Tok.raw c ∈ ts → staysEscaped c = false) :
    ∀ c, Tok.raw c ∈ unquoteToks U ts → staysEscaped c = false := by
  intro c hc
  rcases raw_mem_assemble _ _ hc with h' | h'
  · exact h'
  · simp only [List.mem_map] at h'
    obtain ⟨t0, ht0, hit⟩ := h'
    cases t0 with
    | raw c0 =>
      simp only [itemOf] at hit
      split at hit
      · cases hit
      · cases hit; exact h _ ht0
    | stray => simp [itemOf] at hit
    | esc h1 h2 =>
      simp only [itemOf] at hit
      split at hit
      · cases hit
      · split at hit
        · rename_i hlt
          have hlt' : (byteOf h1 h2).toNat < 0x80 := by
            have := UInt8.lt_iff_toNat_lt.1 hlt; simpa using this
          split at hit
          · cases hit
          · cases hit
            exact staysEscaped_of_lt (by rw [toNat_ofNat_of_lt (by omega)]; exact hlt')
        · cases hit

/-- the output of the unquoter (on an `escapeRaw` input) is left alone by `escapeRaw` -/
theorem escapeRaw_unquoteToks (U : List UInt8) (ts : List Tok) :
    escapeRaw (unquoteToks U (escapeRaw ts)) = unquoteToks U (escapeRaw ts) :=
  escapeRaw_fixed (raw_unquoteToks U (fun c hc => (raw_mem_escapeRaw hc).2))

end Ural.Quote
