import UralModel.Lemmas.Youtube
/-!
"Is a piece of" (`<:+:`, contiguous sublist) for the `str` helpers and for the path `urlsplit`
hands out; a value search (`litValueSearch`) that finds nothing in a string finds nothing in any
piece of it.  Used by the round trip of `ural/youtube.py`: a user / channel name is a piece of
the url in which `NEXT_V_RE` / `NESTED_NEXT_V_RE` found nothing, hence the canonical url built
from it is no continuation url.
-/
namespace Ural.Youtube
open Ural Ural.Py Ural.C19 Ural.HostnameTrieSet

/-! ## the `str` helpers return pieces -/

theorem rstripWhile_prefix (p : Char → Bool) (s : Str) : (s.reverse.dropWhile p).reverse <+: s := by
  have h : s.reverse.dropWhile p <:+ s.reverse := List.dropWhile_suffix p
  have := List.reverse_prefix.mpr h
  rwa [List.reverse_reverse] at this

theorem strip_infix (s : Str) : strip s <:+: s := by
  unfold strip rstrip lstrip
  exact (rstripWhile_prefix _ _).isInfix.trans (List.dropWhile_suffix _).isInfix

theorem lstripChars_suffix (s : Str) (cs : List Char) : lstripChars s cs <:+ s := by
  unfold lstripChars
  exact List.dropWhile_suffix _

theorem rstripChars_prefix' (s : Str) (cs : List Char) : rstripChars s cs <+: s := by
  unfold rstripChars
  exact rstripWhile_prefix _ _

theorem stripChars_infix (s : Str) (cs : List Char) : stripChars s cs <:+: s := by
  unfold stripChars
  exact (rstripChars_prefix' _ _).isInfix.trans (lstripChars_suffix _ _).isInfix

theorem cutAmp_prefix (s : Str) : cutAmp s <+: s := by
  unfold cutAmp
  exact List.takeWhile_prefix _

theorem mem_join_infix (sep : Str) (parts : List Str) (x : Str) (hx : x ∈ parts) :
    x <:+: join sep parts := by
  induction parts with
  | nil => simp at hx
  | cons p ps ih =>
    cases ps with
    | nil =>
      have : x = p := by simpa using hx
      rw [this]
      exact List.infix_refl _
    | cons q qs =>
      rw [join_cons_cons_s20]
      rcases List.mem_cons.mp hx with h | h
      · rw [h, List.append_assoc]
        exact (List.prefix_append _ _).isInfix
      · exact (ih h).trans (List.suffix_append _ _).isInfix

theorem mem_splitOn_infix (s : Str) (sep : Char) (x : Str) (hx : x ∈ splitOn s sep) : x <:+: s := by
  have := mem_join_infix [sep] _ x hx
  rwa [join_splitOn_s20] at this

/-- every segment `pathsplit` returns is a piece of the path -/
theorem pathsplit_infix (p x : Str) (hx : x ∈ pathsplit p) : x <:+: p := by
  unfold pathsplit at hx
  by_cases h : stripChars (strip p) ['/'] = []
  · simp [h] at hx
  · simp only [h, if_false] at hx
    exact ((mem_splitOn_infix _ _ x hx).trans (stripChars_infix _ _)).trans (strip_infix p)

theorem splitFirst_fst_prefix (s : Str) (sep : Char) : (splitFirst s sep).1 <+: s := by
  have h := (splitFirst_spec_s20 s sep).2
  cases h2 : (splitFirst s sep).2 with
  | none => rw [h2] at h; simp only [] at h; exact ⟨[], by rw [List.append_nil]; exact h.symm⟩
  | some b => rw [h2] at h; simp only [] at h; exact ⟨sep :: b, h.symm⟩

/-- the path of a split url is a piece of the url, when the url holds no TAB / CR / LF (which
`urlsplit` would remove from the middle of it) -/
theorem urlsplit_path_infix (url dflt : Str) (r : SplitResult) (h : urlsplit url dflt = some r)
    (hu : ∀ c ∈ url, isUnsafeUrlChar c = false) : r.path <:+: url := by
  unfold urlsplit at h
  simp only [] at h
  split at h
  · exact absurd h (by simp)
  · injection h with h
    subst h
    simp only []
    have h1 := (splitFirst_fst_prefix (splitFirst (splitNetloc (splitScheme (cleanUrl url) dflt).2).2 '#').1 '?').isInfix
    have h2 := (splitFirst_fst_prefix (splitNetloc (splitScheme (cleanUrl url) dflt).2).2 '#').isInfix
    have h3 : (splitNetloc (splitScheme (cleanUrl url) dflt).2).2 <:+: (splitScheme (cleanUrl url) dflt).2 := by
      obtain ⟨pre, hp, _⟩ := splitNetloc_prefix (splitScheme (cleanUrl url) dflt).2
      exact (List.IsSuffix.isInfix ⟨pre, hp.symm⟩)
    have h4 : (splitScheme (cleanUrl url) dflt).2 <:+: cleanUrl url := by
      obtain ⟨pre, hp, _⟩ := splitScheme_prefix (cleanUrl url) dflt
      exact (List.IsSuffix.isInfix ⟨pre, hp.symm⟩)
    have h5 : cleanUrl url <:+: url := by
      unfold cleanUrl
      have hf : (url.dropWhile isC0OrSpace).filter (fun c => !isUnsafeUrlChar c) = url.dropWhile isC0OrSpace :=
        List.filter_eq_self.mpr (fun c hc => by simp [hu c (mem_of_mem_dropWhile _ _ _ hc)])
      rw [hf]
      exact (List.dropWhile_suffix _).isInfix
    exact (((h1.trans h2).trans h3).trans h4).trans h5

/-! ## a value search that fails in a string fails in every piece of it -/

/-- a successful match of the literal against a prefix survives an extension of the subject -/
theorem matchLit_append (L : List Char) (x y r : Str) (h : matchLit L x = some r) :
    matchLit L (x ++ y) = some (r ++ y) := by
  induction L generalizing x with
  | nil => simp [matchLit] at h ⊢; rw [h]
  | cons q qs ih =>
    cases x with
    | nil => simp [matchLit] at h
    | cons c cs =>
      simp only [matchLit, List.cons_append] at h ⊢
      split at h
      · rename_i hc; rw [if_pos hc]; exact ih cs h
      · simp at h

theorem valueRun_cons (stops : List Char) (c : Char) (cs : Str) :
    valueRun stops (c :: cs) = if stops.contains c then [] else c :: valueRun stops cs := by
  unfold valueRun
  rw [List.takeWhile_cons]
  cases h : stops.contains c <;> simp

theorem litValueHere_append (lit stops : List Char) (s b : Str) (v : Str)
    (h : litValueHere lit stops s = some v) : ∃ v', litValueHere lit stops (s ++ b) = some v' := by
  unfold litValueHere at h ⊢
  cases hm : matchLit lit s with
  | none => rw [hm] at h; simp at h
  | some r =>
    rw [hm] at h
    simp only [] at h
    rw [matchLit_append lit s b r hm]
    simp only []
    cases r with
    | nil => simp [valueRun] at h
    | cons c cs =>
      rw [valueRun_cons] at h
      rw [List.cons_append, valueRun_cons]
      cases hc : stops.contains c with
      | true => rw [hc] at h; simp at h
      | false => exact ⟨c :: valueRun stops (cs ++ b), by simp⟩

theorem litValueSearch_none_of_append (lit stops : List Char) (s b : Str)
    (h : litValueSearch lit stops (s ++ b) = none) : litValueSearch lit stops s = none := by
  induction s with
  | nil => rfl
  | cons c cs ih =>
    simp only [List.cons_append, litValueSearch] at h ⊢
    cases hh : litValueHere lit stops (c :: cs) with
    | some v =>
      obtain ⟨v', hv'⟩ := litValueHere_append lit stops (c :: cs) b v hh
      simp only [List.cons_append] at hv'
      rw [hv'] at h
      simp at h
    | none =>
      simp only []
      cases hh2 : litValueHere lit stops (c :: (cs ++ b)) with
      | some v => rw [hh2] at h; simp at h
      | none => rw [hh2] at h; exact ih h

theorem litValueSearch_none_of_suffix (lit stops : List Char) (a s : Str)
    (h : litValueSearch lit stops (a ++ s) = none) : litValueSearch lit stops s = none := by
  induction a with
  | nil => exact h
  | cons c cs ih =>
    simp only [List.cons_append, litValueSearch] at h
    cases hh : litValueHere lit stops (c :: (cs ++ s)) with
    | some v => rw [hh] at h; simp at h
    | none => rw [hh] at h; exact ih h

/-- a search that finds nothing in `u` finds nothing in a piece of `u` -/
theorem litValueSearch_none_of_infix (lit stops : List Char) (s u : Str) (hs : s <:+: u)
    (h : litValueSearch lit stops u = none) : litValueSearch lit stops s = none := by
  obtain ⟨a, b, e⟩ := hs
  rw [← e, List.append_assoc] at h
  exact litValueSearch_none_of_append lit stops s b (litValueSearch_none_of_suffix lit stops a _ h)

end Ural.Youtube
