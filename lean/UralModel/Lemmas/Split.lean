import UralModel.Py.Split
/-!
# Lemmas on the splitting prelude (`splitBy`, `joinChar`, `splitAtFirst`, `afterLast`)
-/
namespace Ural.Py

/-! ## `splitAtFirst` -/

theorem splitAtFirst_eq_none {sep : Char} {s : Str} : splitAtFirst sep s = none ↔ sep ∉ s := by
  induction s with
  | nil => simp [splitAtFirst]
  | cons c cs ih =>
    simp only [splitAtFirst]
    by_cases h : c = sep
    · simp [h]
    · simp only [h, if_false, Option.map_eq_none_iff, ih, List.mem_cons, not_or]
      exact ⟨fun h2 => ⟨fun e => h e.symm, h2⟩, fun h2 => h2.2⟩

theorem splitAtFirst_append {sep : Char} {a : Str} (b : Str) (h : sep ∉ a) :
    splitAtFirst sep (a ++ sep :: b) = some (a, b) := by
  induction a with
  | nil => simp [splitAtFirst]
  | cons c cs ih =>
    simp only [List.mem_cons, not_or] at h
    have hc : ¬ c = sep := fun e => h.1 e.symm
    simp [splitAtFirst, hc, ih h.2]

theorem splitAtFirst_eq_some {sep : Char} {s a b : Str} :
    splitAtFirst sep s = some (a, b) ↔ s = a ++ sep :: b ∧ sep ∉ a := by
  constructor
  · induction s generalizing a with
    | nil => simp [splitAtFirst]
    | cons c cs ih =>
      simp only [splitAtFirst]
      by_cases h : c = sep
      · subst h; simp only [if_true, Option.some.injEq, Prod.mk.injEq]
        rintro ⟨rfl, rfl⟩; simp
      · simp only [h, if_false, Option.map_eq_some_iff]
        rintro ⟨⟨a', b'⟩, h1, h2⟩
        simp only [Prod.mk.injEq] at h2
        obtain ⟨rfl, rfl⟩ := h2
        obtain ⟨e, hn⟩ := ih h1
        subst e
        refine ⟨by simp, ?_⟩
        simp only [List.mem_cons, not_or]
        exact ⟨fun e => h e.symm, hn⟩
  · rintro ⟨rfl, hn⟩; exact splitAtFirst_append b hn

theorem splitAtFirst_of_not_mem {sep : Char} {s : Str} (h : sep ∉ s) : splitAtFirst sep s = none :=
  splitAtFirst_eq_none.mpr h

theorem beforeFirst_append {sep : Char} {a : Str} (b : Str) (h : sep ∉ a) :
    beforeFirst sep (a ++ sep :: b) = a := by
  simp [beforeFirst, splitAtFirst_append b h]

theorem beforeFirst_of_not_mem {sep : Char} {s : Str} (h : sep ∉ s) : beforeFirst sep s = s := by
  simp [beforeFirst, splitAtFirst_of_not_mem h]

/-! ## `afterLast` -/

theorem takeWhile_of_all {f : Char → Bool} {l : Str} (h : ∀ c ∈ l, f c = true) :
    l.takeWhile f = l := by
  induction l with
  | nil => rfl
  | cons c cs ih =>
    simp only [List.takeWhile, h c (by simp)]
    rw [ih (fun d hd => h d (by simp [hd]))]

theorem afterLast_of_not_mem {sep : Char} {s : Str} (h : sep ∉ s) : afterLast sep s = s := by
  unfold afterLast
  have : s.reverse.takeWhile (· != sep) = s.reverse := by
    apply takeWhile_of_all
    intro c hc
    simp only [List.mem_reverse] at hc
    simp only [bne_iff_ne, ne_eq]
    intro e; subst e; exact h hc
  rw [this, List.reverse_reverse]

theorem afterLast_append {sep : Char} (a : Str) {b : Str} (h : sep ∉ b) :
    afterLast sep (a ++ sep :: b) = b := by
  unfold afterLast
  have hb : b.reverse.takeWhile (· != sep) = b.reverse := by
    apply takeWhile_of_all
    intro c hc
    simp only [List.mem_reverse] at hc
    simp only [bne_iff_ne, ne_eq]
    intro e; subst e; exact h hc
  have : (a ++ sep :: b).reverse = b.reverse ++ sep :: a.reverse := by simp
  rw [this, List.takeWhile_append]
  simp [hb]

/-! ## `splitBy` / `joinChar` -/

variable {p : Char → Str → Bool}

theorem splitBy_ne_nil (s : Str) : splitBy p s ≠ [] := by
  cases s with
  | nil => simp [splitBy]
  | cons c cs =>
    simp only [splitBy]
    split
    · simp
    · cases h : splitBy p cs <;> simp [consHead]

theorem consHead_ne_nil (c : Char) (l : List Str) : consHead c l ≠ [] := by
  cases l <;> simp [consHead]

theorem joinChar_consHead (sep c : Char) {l : List Str} (h : l ≠ []) :
    joinChar sep (consHead c l) = c :: joinChar sep l := by
  match l, h with
  | [x], _ => simp [consHead, joinChar]
  | x :: y :: ys, _ => simp [consHead, joinChar]

theorem joinChar_cons (sep : Char) (x : Str) {l : List Str} (h : l ≠ []) :
    joinChar sep (x :: l) = x ++ sep :: joinChar sep l := by
  match l, h with
  | y :: ys, _ => simp [joinChar]

/-- joining the pieces with the separator gives the string back -/
theorem joinChar_splitBy (sep : Char) (hp : ∀ c r, p c r = true → c = sep) (s : Str) :
    joinChar sep (splitBy p s) = s := by
  induction s with
  | nil => simp [splitBy, joinChar]
  | cons c cs ih =>
    simp only [splitBy]
    split
    · next h =>
      rw [joinChar_cons _ _ (splitBy_ne_nil cs), ih, hp c cs h]; simp
    · rw [joinChar_consHead _ _ (splitBy_ne_nil cs), ih]

/-- put `a` in front of the first piece -/
def prependHead (a : Str) : List Str → List Str
  | [] => [a]
  | x :: xs => (a ++ x) :: xs

theorem prependHead_nil (l : List Str) (h : l ≠ []) : prependHead [] l = l := by
  cases l <;> simp_all [prependHead]

theorem consHead_prependHead (c : Char) (a : Str) {l : List Str} (h : l ≠ []) :
    consHead c (prependHead a l) = prependHead (c :: a) l := by
  cases l <;> simp_all [prependHead, consHead]

/-- a prefix in which the separator pattern never fires (given what follows) stays glued to
the first piece -/
theorem splitBy_prefix (a b : Str)
    (h : ∀ x c y, a = x ++ c :: y → p c (y ++ b) = false) :
    splitBy p (a ++ b) = prependHead a (splitBy p b) := by
  induction a with
  | nil => simp [prependHead_nil _ (splitBy_ne_nil b)]
  | cons c cs ih =>
    have h0 : p c (cs ++ b) = false := h [] c cs rfl
    have ih' := ih (fun x c' y e => h (c :: x) c' y (by simp [e]))
    simp only [List.cons_append, splitBy, h0, Bool.false_eq_true, if_false, ih']
    exact consHead_prependHead c cs (splitBy_ne_nil b)

/-- no split inside a string whose characters never fire -/
theorem splitBy_of_never (s : Str) (h : ∀ c ∈ s, ∀ r, p c r = false) : splitBy p s = [s] := by
  have := splitBy_prefix (p := p) s [] (fun x c y e => h c (by simp [e]) _)
  simpa [splitBy, prependHead] using this

/-- splitting a join gives the list back, when no character of a piece can fire and the
separator fires in front of every non-first piece -/
theorem splitBy_joinChar (sep : Char) (xs : List Str) (hne : xs ≠ [])
    (hno : ∀ x ∈ xs, ∀ c ∈ x, ∀ r, p c r = false)
    (hfire : ∀ y ∈ xs.tail, ∀ r, p sep (y ++ r) = true) :
    splitBy p (joinChar sep xs) = xs := by
  induction xs with
  | nil => exact absurd rfl hne
  | cons x rest ih =>
    cases rest with
    | nil =>
      simp only [joinChar]
      exact splitBy_of_never x (hno x (by simp))
    | cons y ys =>
      have ih' := ih (by simp) (fun x' hx' => hno x' (by simp [hx']))
        (fun y' hy' => hfire y' (by simp only [List.tail_cons] at hy' ⊢; exact List.mem_of_mem_tail hy'))
      rw [joinChar_cons _ _ (by simp)]
      rw [splitBy_prefix x _ (fun a c b e => hno x (by simp) c (by simp [e]) _)]
      have hf : p sep (joinChar sep (y :: ys)) = true := by
        cases ys with
        | nil => simpa [joinChar] using hfire y (by simp) []
        | cons z zs =>
          rw [joinChar_cons _ _ (by simp)]
          exact hfire y (by simp) _
      simp [splitBy, hf, ih', prependHead]

/-- every character of a piece is a character of the string -/
theorem mem_of_mem_splitBy {s x : Str} {c : Char} (hx : x ∈ splitBy p s) (hc : c ∈ x) : c ∈ s := by
  induction s generalizing x with
  | nil => simp [splitBy] at hx; subst hx; simp at hc
  | cons d ds ih =>
    simp only [splitBy] at hx
    split at hx
    · simp only [List.mem_cons] at hx
      rcases hx with rfl | hx
      · simp at hc
      · exact List.mem_cons_of_mem _ (ih hx hc)
    · cases hs : splitBy p ds with
      | nil => exact absurd hs (splitBy_ne_nil ds)
      | cons y ys =>
        rw [hs] at hx ih
        simp only [consHead, List.mem_cons] at hx
        rcases hx with rfl | hx
        · simp only [List.mem_cons] at hc
          rcases hc with rfl | hc
          · simp
          · exact List.mem_cons_of_mem _ (ih (by simp) hc)
        · exact List.mem_cons_of_mem _ (ih (by simp [hx]) hc)

/-! ## `splitChar` -/

theorem splitChar_of_not_mem {sep : Char} {s : Str} (h : sep ∉ s) : splitChar sep s = [s] := by
  apply splitBy_of_never
  intro c hc r
  simp only [beq_eq_false_iff_ne, ne_eq]
  intro e; subst e; exact h hc

theorem joinChar_splitChar (sep : Char) (s : Str) : joinChar sep (splitChar sep s) = s :=
  joinChar_splitBy sep (by simp) s

theorem not_mem_of_mem_splitChar {sep : Char} {s x : Str} (hx : x ∈ splitChar sep s) : sep ∉ x := by
  induction s generalizing x with
  | nil => simp [splitChar, splitBy] at hx; subst hx; simp
  | cons d ds ih =>
    simp only [splitChar, splitBy] at hx
    by_cases hd : d = sep
    · subst hd
      simp only [beq_self_eq_true, if_true, List.mem_cons] at hx
      rcases hx with rfl | hx
      · simp
      · exact ih hx
    · have hb : (d == sep) = false := by simp [hd]
      simp only [hb, Bool.false_eq_true, if_false] at hx
      cases hs : splitBy (fun c _ => c == sep) ds with
      | nil => exact absurd hs (splitBy_ne_nil ds)
      | cons y ys =>
        rw [hs] at hx
        simp only [consHead, List.mem_cons] at hx
        have ih' : ∀ z, z ∈ y :: ys → sep ∉ z := fun z hz => ih (by simp [splitChar, hs]; simpa using hz)
        rcases hx with rfl | hx
        · simp only [List.mem_cons, not_or]
          exact ⟨fun e => hd e.symm, ih' y (by simp)⟩
        · exact ih' x (by simp [hx])

theorem splitChar_append_sep (sep : Char) (a b : Str) :
    splitChar sep (a ++ sep :: b) = splitChar sep a ++ splitChar sep b := by
  induction a with
  | nil => simp [splitChar, splitBy]
  | cons c cs ih =>
    simp only [splitChar] at ih ⊢
    simp only [List.cons_append, splitBy]
    by_cases hc : c = sep
    · simp [hc, ih]
    · have hb : (c == sep) = false := by simp [hc]
      simp only [hb, Bool.false_eq_true, if_false, ih]
      cases hs : splitBy (fun c _ => c == sep) cs with
      | nil => exact absurd hs (splitBy_ne_nil cs)
      | cons y ys => simp [consHead]

theorem splitChar_joinChar (sep : Char) (xs : List Str) (hne : xs ≠ [])
    (hno : ∀ x ∈ xs, sep ∉ x) : splitChar sep (joinChar sep xs) = xs := by
  apply splitBy_joinChar sep xs hne
  · intro x hx c hc r
    simp only [beq_eq_false_iff_ne, ne_eq]
    intro e; subst e; exact hno x hx hc
  · intro y _ r; simp

end Ural.Py
