import UralModel.Lemmas.CanonIdem
/-!
# The host rule keeps an ip literal acceptable

`canonicalize_url` prints a bracketed host between brackets again (FX-C01-feb1ed1); the
parser will then run its bracket check (`Py.bracketedHostOk`, the model of
`_check_bracketed_host`) on the *canonical* host — lower-cased by the accessor (`lowerHost`),
its `xn--` labels decoded and the whole lower-cased again (`canonHost`).  This file proves
that the check still passes: `bracketedHostOk h → bracketedHostOk (canonHost puny (lowerHost h))`
(`bracketedHostOk_canon`) for every decoder that brings in no `%` and never decodes a label to
the empty string (`PunyClean`).

* IPvFuture `v<hex>.<more>`: the first label `v<hex>` is not an `xn--` label; what follows the
  dot stays non-empty;
* IPv6 `<addr>[%<zone>]`: `addr` is made of hex digits and colons (no dot, no `x`), so it lies
  inside the first label, which is not an `xn--` label; lower-casing keeps the groups; labels
  can only be decoded inside the zone, which stays non-empty and free of `%`.
-/
set_option linter.unusedSimpArgs false
set_option linter.unusedVariables false
set_option linter.unusedSectionVars false

namespace Ural.BracketHost
open Ural.Py Ural.UrlParts Ural.Quote Ural.Canonicalize Ural.UrlRoundTrip Ural.CanonRoundTrip
  Ural.CanonIdem

/-! ## characters -/

theorem isHexDigit_lowerChar (c : Char) : isHexDigit (lowerChar c) = isHexDigit c := by
  rw [Bool.eq_iff_iff, isHexDigit_iff, isHexDigit_iff, lowerChar_toNat]
  split <;> omega

theorem lowerChar_eq_iff_of_not_letter {c d : Char} (hd : ¬ (97 ≤ d.toNat ∧ d.toNat ≤ 122))
    (hd' : ¬ (65 ≤ d.toNat ∧ d.toNat ≤ 90)) : lowerChar c = d ↔ c = d := by
  constructor
  · intro h; exact lowerChar_eq_of_not_lower h hd
  · rintro rfl; exact lowerChar_of_not_upper hd'

theorem lowerChar_eq_colon (c : Char) : lowerChar c = ':' ↔ c = ':' :=
  lowerChar_eq_iff_of_not_letter (by decide) (by decide)

theorem lowerChar_eq_pct (c : Char) : lowerChar c = '%' ↔ c = '%' :=
  lowerChar_eq_iff_of_not_letter (by decide) (by decide)

/-- a hex digit or a colon is not one of these letters -/
theorem hexColon_ne {c : Char} (h : isHexDigit c = true ∨ c = ':') :
    c ≠ 'x' ∧ c ≠ 'X' ∧ c ≠ 'v' ∧ c ≠ '.' ∧ c ≠ '%' := by
  rcases h with h | rfl
  · rw [isHexDigit_iff] at h
    refine ⟨?_, ?_, ?_, ?_, ?_⟩ <;> rintro rfl <;> revert h <;> decide
  · decide

/-! ## `find` -/

theorem find_go_spec (p : Str) : ∀ (fuel : Nat) (s : Str) (k i : Nat),
    find.go p s k fuel = some i → ∃ j, i = k + j ∧ p.isPrefixOf (s.drop j) = true := by
  intro fuel
  induction fuel with
  | zero => intro s k i h; simp [find.go] at h
  | succ f ih =>
    intro s k i h
    unfold find.go at h
    by_cases hp : p.isPrefixOf s = true
    · rw [if_pos hp] at h
      cases h
      exact ⟨0, rfl, by simpa using hp⟩
    · rw [if_neg hp] at h
      cases s with
      | nil => cases h
      | cons c cs =>
        obtain ⟨j, hj, hpre⟩ := ih cs (k + 1) i h
        exact ⟨j + 1, by omega, by simpa using hpre⟩

theorem find_spec {s p : Str} {i : Nat} (h : find s p = some i) : p.isPrefixOf (s.drop i) = true := by
  unfold find at h
  obtain ⟨j, hj, hpre⟩ := find_go_spec p _ s 0 i h
  have : i = j := by omega
  rw [this]; exact hpre

theorem find_go_congr (p : Str) (f : Str → Str) (hlen : ∀ c cs, ∃ d, f (c :: cs) = d :: f cs)
    (hnil : f [] = []) (hp : ∀ s, p.isPrefixOf (f s) = p.isPrefixOf s) :
    ∀ (fuel : Nat) (s : Str) (k : Nat), find.go p (f s) k fuel = find.go p s k fuel := by
  intro fuel
  induction fuel with
  | zero => intro s k; simp [find.go]
  | succ n ih =>
    intro s k
    unfold find.go
    rw [hp s]
    by_cases hh : p.isPrefixOf s = true
    · simp [hh]
    · simp only [hh, if_false]
      cases s with
      | nil => rw [hnil]
      | cons c cs =>
        obtain ⟨d, hd⟩ := hlen c cs
        rw [hd]
        exact ih cs (k + 1)

theorem colons_prefix_lower (s : Str) :
    [':', ':'].isPrefixOf (lower s) = [':', ':'].isPrefixOf s := by
  have key : ∀ c : Char, ((':' : Char) == lowerChar c) = ((':' : Char) == c) := by
    intro c
    rw [Bool.eq_iff_iff]
    simp only [beq_iff_eq]
    constructor
    · intro h; exact ((lowerChar_eq_colon c).1 h.symm).symm
    · intro h; exact ((lowerChar_eq_colon c).2 h.symm).symm
  match s with
  | [] => rfl
  | [a] => simp [Py.lower, List.isPrefixOf, key]
  | a :: b :: r => simp [Py.lower, List.isPrefixOf, key]

theorem find_colons_lower (s : Str) : find (lower s) [':', ':'] = find s [':', ':'] := by
  unfold find
  rw [lower_length]
  exact find_go_congr _ lower (fun c cs => ⟨lowerChar c, rfl⟩) rfl colons_prefix_lower _ s 0

/-! ## `hexGroups` -/

theorem splitOn_lower_colon (s : Str) : splitOn (lower s) ':' = (splitOn s ':').map lower := by
  induction s with
  | nil => simp [Py.lower, splitOn_nil]
  | cons c cs ih =>
    have e : lower (c :: cs) = lowerChar c :: lower cs := rfl
    rw [e]
    by_cases hc : c = ':'
    · subst hc
      have : lowerChar ':' = ':' := by decide
      rw [this, splitOn_cons_sep, splitOn_cons_sep, ih]
      simp [Py.lower]
    · have hc' : lowerChar c ≠ ':' := fun h => hc ((lowerChar_eq_colon c).1 h)
      rw [splitOn_cons_ne _ _ _ hc', splitOn_cons_ne _ _ _ hc, ih]
      cases splitOn cs ':' with
      | nil => rfl
      | cons p ps => rfl

theorem all_hex_lower (p : Str) : (lower p).all isHexDigit = p.all isHexDigit := by
  simp only [Py.lower, List.all_map]
  congr 1
  funext c
  exact isHexDigit_lowerChar c

theorem hexGroups_lower (s : Str) : hexGroups (lower s) = hexGroups s := by
  unfold hexGroups
  by_cases hs : s = []
  · subst hs; rfl
  · have hs' : lower s ≠ [] := by
      intro h; apply hs
      cases s with
      | nil => rfl
      | cons c cs => simp [Py.lower] at h
    rw [if_neg hs', if_neg hs]
    simp only [splitOn_lower_colon, List.all_map, List.length_map]
    have : ((fun p : Str => decide (p ≠ []) && decide (p.length ≤ 4) && p.all isHexDigit) ∘ lower) =
        (fun p : Str => decide (p ≠ []) && decide (p.length ≤ 4) && p.all isHexDigit) := by
      funext p
      simp only [Function.comp, all_hex_lower, lower_length]
      congr 2
      cases p with
      | nil => rfl
      | cons c cs => simp [Py.lower]
    rw [this]

/-- the characters of a string `hexGroups` accepts -/
theorem hexGroups_chars {s : Str} {n : Nat} (h : hexGroups s = some n) :
    ∀ c ∈ s, isHexDigit c = true ∨ c = ':' := by
  unfold hexGroups at h
  by_cases hs : s = []
  · subst hs; simp
  · rw [if_neg hs] at h
    simp only at h
    split at h
    · rename_i hall
      intro c hc
      rw [← join_splitOn ':' s] at hc
      rcases mem_join _ _ hc with h1 | ⟨p, hp, hcp⟩
      · right; simpa using h1
      · left
        have := List.all_eq_true.1 hall p hp
        simp only [Bool.and_eq_true] at this
        exact List.all_eq_true.1 this.2 c hcp
    · cases h

/-! ## the two branches of the bracket check -/

/-- the address part of an IPv6 literal: hex groups with at most one `::` -/
def v6Ok (addr : Str) : Bool :=
  match find addr [':', ':'] with
  | none => hexGroups addr == some 8
  | some i =>
    match hexGroups (addr.take i), hexGroups (addr.drop (i + 2)) with
    | some a, some b => a + b ≤ 7
    | _, _ => false

/-- the optional zone: non-empty, without `%` -/
def zoneOk (z : Option Str) : Bool :=
  match z with
  | none => true
  | some z => z ≠ [] && !z.contains '%'

theorem bracketedHostOk_nonv (h : Str) (hv : h.head? ≠ some 'v') :
    bracketedHostOk h = (zoneOk (splitFirst h '%').2 && v6Ok (splitFirst h '%').1) := by
  unfold bracketedHostOk
  split
  · rename_i rest; simp at hv
  · cases hsf : splitFirst h '%' with
    | mk a z =>
      cases z with
      | none => simp [zoneOk, v6Ok]; rfl
      | some z => simp [zoneOk, v6Ok]; rfl

theorem bracketedHostOk_v (rest : Str) :
    bracketedHostOk ('v' :: rest) =
      (decide (rest.takeWhile isHexDigit ≠ []) &&
        (match rest.dropWhile isHexDigit with | '.' :: more => decide (more ≠ []) | _ => false)) := by
  simp only [bracketedHostOk]
  rfl

theorem v6Ok_lower (addr : Str) : v6Ok (lower addr) = v6Ok addr := by
  unfold v6Ok
  rw [find_colons_lower]
  cases find addr [':', ':'] with
  | none => simp only [hexGroups_lower]
  | some i => simp only [← lower_take, ← lower_drop, hexGroups_lower]

/-- an accepted address is made of hex digits and colons, and is not empty -/
theorem v6Ok_chars {addr : Str} (h : v6Ok addr = true) :
    (∀ c ∈ addr, isHexDigit c = true ∨ c = ':') ∧ addr ≠ [] := by
  unfold v6Ok at h
  cases hf : find addr [':', ':'] with
  | none =>
    rw [hf] at h
    simp only [beq_iff_eq] at h
    refine ⟨hexGroups_chars h, ?_⟩
    rintro rfl
    simp [hexGroups] at h
  | some i =>
    rw [hf] at h
    simp only at h
    have hpre := find_spec hf
    cases h1 : hexGroups (addr.take i) with
    | none => rw [h1] at h; simp at h
    | some a =>
      cases h2 : hexGroups (addr.drop (i + 2)) with
      | none => rw [h1, h2] at h; simp at h
      | some b =>
        have hd : ∃ r, addr.drop i = ':' :: ':' :: r := by
          cases hdd : addr.drop i with
          | nil => rw [hdd] at hpre; simp [List.isPrefixOf] at hpre
          | cons x r1 =>
            cases r1 with
            | nil => rw [hdd] at hpre; simp [List.isPrefixOf] at hpre
            | cons y r2 =>
              rw [hdd] at hpre
              simp only [List.isPrefixOf, Bool.and_eq_true, beq_iff_eq, Bool.and_true] at hpre
              obtain ⟨rfl, rfl⟩ := hpre
              exact ⟨r2, rfl⟩
        obtain ⟨r, hr⟩ := hd
        have hr2 : addr.drop (i + 2) = r := by
          have : addr.drop (i + 2) = (addr.drop i).drop 2 := by rw [List.drop_drop]
          rw [this, hr]; rfl
        have hsplit : addr = addr.take i ++ ':' :: ':' :: r := by
          rw [← hr]; exact (List.take_append_drop i addr).symm
        constructor
        · intro c hc
          rw [hsplit] at hc
          simp only [List.mem_append, List.mem_cons] at hc
          rcases hc with hc | rfl | rfl | hc
          · exact hexGroups_chars h1 c hc
          · exact Or.inr rfl
          · exact Or.inr rfl
          · exact hexGroups_chars h2 c (by rw [hr2]; exact hc)
        · rw [hsplit]; simp

/-! ## the host rule on a string with a label-free prefix -/

theorem splitOn_append_left (sep : Char) (a b : Str) (ha : sep ∉ a) :
    splitOn (a ++ b) sep =
      match splitOn b sep with
      | [] => [a]
      | z1 :: zs => (a ++ z1) :: zs := by
  induction a with
  | nil =>
    cases h : splitOn b sep with
    | nil => exact absurd h (splitOn_ne_nil b sep)
    | cons z1 zs => simp [h]
  | cons c cs ih =>
    have hc : c ≠ sep := fun e => ha (by simp [e])
    have hcs : sep ∉ cs := fun e => ha (by simp [e])
    rw [List.cons_append, splitOn_cons_ne _ _ _ hc, ih hcs]
    cases h : splitOn b sep with
    | nil => exact absurd h (splitOn_ne_nil b sep)
    | cons z1 zs => simp

theorem join_append_head (sep a b : Str) (r : List Str) :
    join sep ((a ++ b) :: r) = a ++ join sep (b :: r) := by
  cases r with
  | nil => simp [join]
  | cons x r => simp [join]

theorem lower_eq_nil_iff (x : Str) : lower x = [] ↔ x = [] := by
  cases x <;> simp [Py.lower]

/-- a label whose first character is not an `x` is only lower-cased -/
theorem canonLabel_of_head (puny : Str → Str) (c : Char) (r : Str)
    (hx : lowerChar c ≠ 'x') : canonLabel puny (c :: r) = lower (c :: r) := by
  unfold canonLabel
  have : ¬ lower ((c :: r).take 4) = "xn--".toList := by
    intro h
    have e : (c :: r).take 4 = c :: r.take 3 := rfl
    rw [e] at h
    have e2 : lower (c :: r.take 3) = lowerChar c :: lower (r.take 3) := rfl
    rw [e2] at h
    have := (List.cons.inj h).1
    exact hx this
  rw [if_neg this]

theorem canonLabel_ne_nil {puny : Str → Str} (hpc : PunyClean puny) {part : Str} (h : part ≠ []) :
    canonLabel puny part ≠ [] := by
  unfold canonLabel
  rw [Ne, lower_eq_nil_iff]
  split
  · rename_i hh
    apply hpc.nonempty
    rw [hh]; simp
  · exact h

/-- a delimiter, `%`, control or white-space character of a canonical label was in the label -/
theorem canonLabel_bad {puny : Str → Str} (hpc : PunyClean puny) (part : Str) {c : Char}
    (hb : isPunyBad c = true) (hc : c ∈ canonLabel puny part) : c ∈ part := by
  have hnl := punyBad_not_lower hb
  unfold canonLabel at hc
  have h1 := mem_lower_bad hnl hc
  split at h1
  · have h3 := hpc.clean _ c h1 hb
    rcases List.mem_append.1 h3 with h4 | h4
    · exact List.mem_of_mem_take (mem_lower_bad hnl h4)
    · exact List.mem_of_mem_drop h4
  · exact h1

theorem canonHost_ne_nil {puny : Str → Str} (hpc : PunyClean puny) {h : Str} (hh : h ≠ []) :
    canonHost puny h ≠ [] := by
  rw [canonHost_eq]
  have hj := join_splitOn '.' h
  cases hs : splitOn h '.' with
  | nil => exact absurd hs (splitOn_ne_nil h '.')
  | cons x r =>
    cases r with
    | nil =>
      rw [hs] at hj
      simp only [join] at hj
      subst hj
      simpa [join] using canonLabel_ne_nil hpc hh
    | cons y r' => simp [join]

/-- what the host rule makes of the part after a label-free prefix -/
def tailOf (puny : Str → Str) (b : Str) : Str :=
  match splitOn b '.' with
  | [] => []
  | z1 :: zs => join ['.'] (lower z1 :: zs.map (canonLabel puny))

/-- **the host rule leaves a prefix without dot, not starting with an `x`, alone** (but for
the lower-casing) -/
theorem canonHost_prefix (puny : Str → Str) (c : Char) (a b : Str) (hdot : '.' ∉ c :: a)
    (hx : lowerChar c ≠ 'x') :
    canonHost puny (c :: a ++ b) = lower (c :: a) ++ tailOf puny b := by
  rw [canonHost_eq, splitOn_append_left '.' (c :: a) b hdot]
  unfold tailOf
  cases hs : splitOn b '.' with
  | nil => exact absurd hs (splitOn_ne_nil b '.')
  | cons z1 zs =>
    simp only [List.map_cons]
    rw [show c :: a ++ z1 = c :: (a ++ z1) from rfl, canonLabel_of_head puny c (a ++ z1) hx]
    rw [show c :: (a ++ z1) = (c :: a) ++ z1 from rfl, lower_append, join_append_head]

theorem tailOf_nil (puny : Str → Str) : tailOf puny [] = [] := by
  simp [tailOf, splitOn_nil, join, Py.lower]

theorem tailOf_ne_nil (puny : Str → Str) {b : Str} (hb : b ≠ []) : tailOf puny b ≠ [] := by
  unfold tailOf
  have hj := join_splitOn '.' b
  cases hs : splitOn b '.' with
  | nil => exact absurd hs (splitOn_ne_nil b '.')
  | cons z1 zs =>
    cases zs with
    | nil =>
      rw [hs] at hj
      simp only [join] at hj
      subst hj
      simpa [join, lower_eq_nil_iff] using hb
    | cons y r => simp [join]

theorem tailOf_bad {puny : Str → Str} (hpc : PunyClean puny) (b : Str) {c : Char}
    (hb : isPunyBad c = true) (hc : c ∈ tailOf puny b) : c ∈ b := by
  unfold tailOf at hc
  cases hs : splitOn b '.' with
  | nil => exact absurd hs (splitOn_ne_nil b '.')
  | cons z1 zs =>
    rw [hs] at hc
    simp only at hc
    rcases mem_join _ _ hc with h1 | ⟨q, hq, hcq⟩
    · simp only [List.mem_singleton] at h1
      subst h1; exact absurd hb (by decide)
    · simp only [List.mem_cons, List.mem_map] at hq
      rcases hq with rfl | ⟨l, hl, rfl⟩
      · exact piece_subset b '.' z1 (by rw [hs]; simp) (mem_lower_bad (punyBad_not_lower hb) hcq)
      · exact piece_subset b '.' l (by rw [hs]; simp [hl]) (canonLabel_bad hpc l hb hcq)

theorem tailOf_dot (puny : Str → Str) (m : Str) :
    tailOf puny ('.' :: m) = '.' :: canonHost puny m := by
  unfold tailOf
  rw [splitOn_cons_sep, canonHost_eq]
  cases hs : splitOn m '.' with
  | nil => exact absurd hs (splitOn_ne_nil m '.')
  | cons p ps => simp [join, Py.lower]

/-! ## the accessor's lower-casing -/

theorem lowerHost_append (a b : Str) (ha : '%' ∉ a) : lowerHost (a ++ b) = lower a ++ lowerHost b := by
  unfold lowerHost
  rw [splitFirst_append_left_s20 a b '%' ha]
  simp [lower_append]

theorem lowerHost_ne_nil {x : Str} (hx : x ≠ []) : lowerHost x ≠ [] := by
  unfold lowerHost
  have hspec := splitFirst_spec_s20 x '%'
  cases hz : (splitFirst x '%').2 with
  | some z => simp
  | none =>
    rw [hz] at hspec
    simp only [List.append_nil]
    rw [Ne, lower_eq_nil_iff, ← hspec.2]
    exact hx

/-! ## the theorem -/

theorem mem_lower_iff_of_fixed {c : Char} (hc : ∀ d, lowerChar d = c ↔ d = c) (s : Str) :
    c ∈ lower s ↔ c ∈ s := by
  simp only [Py.lower, List.mem_map]
  constructor
  · rintro ⟨d, hd, e⟩; rw [(hc d).1 e] at hd; exact hd
  · intro h; exact ⟨c, h, (hc c).2 rfl⟩

theorem hexColon_lower {s : Str} (h : ∀ c ∈ s, isHexDigit c = true ∨ c = ':') :
    ∀ c ∈ lower s, isHexDigit c = true ∨ c = ':' := by
  intro c hc
  simp only [Py.lower, List.mem_map] at hc
  obtain ⟨d, hd, rfl⟩ := hc
  rcases h d hd with h1 | rfl
  · left; rw [isHexDigit_lowerChar]; exact h1
  · right; decide

/-- **the bracket check survives the host rule**: the text `urlsplit` validated between the
brackets, once lower-cased by `.hostname`, decoded label by label and lower-cased again by
`canonicalize_url`, is still an acceptable ip literal -/
theorem bracketedHostOk_canon {puny : Str → Str} (hpc : PunyClean puny) (h0 : Str)
    (hok : bracketedHostOk h0 = true) :
    bracketedHostOk (canonHost puny (lowerHost h0)) = true := by
  by_cases hv : h0.head? = some 'v'
  · -- IPvFuture
    cases h0 with
    | nil => simp at hv
    | cons c rest =>
      simp only [List.head?_cons, Option.some.injEq] at hv
      subst hv
      rw [bracketedHostOk_v] at hok
      simp only [Bool.and_eq_true, decide_eq_true_eq] at hok
      obtain ⟨hhex, hafter⟩ := hok
      have hcat := List.takeWhile_append_dropWhile (p := isHexDigit) (l := rest)
      have hallhex : ∀ x ∈ rest.takeWhile isHexDigit, isHexDigit x = true :=
        fun x hx => mem_takeWhile_s20 _ _ x hx
      cases hd : rest.dropWhile isHexDigit with
      | nil => rw [hd] at hafter; simp at hafter
      | cons d more =>
        rw [hd] at hafter hcat
        have hdd : d = '.' := by
          by_cases e : d = '.'
          · exact e
          · exfalso
            revert hafter
            split
            · rename_i heq; exact absurd (List.cons.inj heq).1 e
            · simp
        subst hdd
        have hmore : more ≠ [] := by simpa using hafter
        generalize hH : rest.takeWhile isHexDigit = hex at *
        -- the accessor
        have hpct : '%' ∉ 'v' :: hex ++ ['.'] := by
          intro hm
          simp only [List.cons_append, List.mem_cons, List.mem_append, List.not_mem_nil, or_false] at hm
          rcases hm with hm | hm | hm
          · cases hm
          · have := hallhex _ hm; revert this; decide
          · cases hm
        have e1 : 'v' :: rest = ('v' :: hex ++ ['.']) ++ more := by rw [← hcat]; simp
        have hL : lowerHost ('v' :: rest) = 'v' :: lower hex ++ '.' :: lowerHost more := by
          rw [e1, lowerHost_append _ _ hpct]
          simp [Py.lower, lowerChar]
        rw [hL]
        -- the host rule
        have hdot : '.' ∉ 'v' :: lower hex := by
          intro hm
          simp only [List.mem_cons] at hm
          rcases hm with hm | hm
          · cases hm
          · have := (mem_lower_iff_of_fixed (c := '.') (fun d => lowerChar_eq_dot d) hex).1 hm
            have := hallhex _ this; revert this; decide
        have e2 : 'v' :: lower hex ++ '.' :: lowerHost more = 'v' :: lower hex ++ ('.' :: lowerHost more) := rfl
        rw [e2, canonHost_prefix puny 'v' (lower hex) _ hdot (by decide), tailOf_dot]
        have e3 : lower ('v' :: lower hex) = 'v' :: lower hex := by
          show lowerChar 'v' :: lower (lower hex) = _
          rw [lower_idem]; rfl
        rw [e3]
        show bracketedHostOk ('v' :: (lower hex ++ '.' :: canonHost puny (lowerHost more))) = true
        rw [bracketedHostOk_v]
        have hlh : ∀ x ∈ lower hex, isHexDigit x = true := by
          intro x hx
          simp only [Py.lower, List.mem_map] at hx
          obtain ⟨y, hy, rfl⟩ := hx
          rw [isHexDigit_lowerChar]; exact hallhex y hy
        rw [takeWhile_append_stop _ _ _ hlh (fun x hx => by simp at hx; subst hx; decide),
          dropWhile_append_stop _ _ _ hlh (fun x hx => by simp at hx; subst hx; decide)]
        have hne : lower hex ≠ [] := by rw [Ne, lower_eq_nil_iff]; exact hhex
        have hR : canonHost puny (lowerHost more) ≠ [] := canonHost_ne_nil hpc (lowerHost_ne_nil hmore)
        simp [hne, hR]
  · -- IPv6
    rw [bracketedHostOk_nonv h0 hv] at hok
    rw [Bool.and_eq_true] at hok
    obtain ⟨hz, hv6⟩ := hok
    obtain ⟨hchars, hane⟩ := v6Ok_chars hv6
    have hspec := splitFirst_spec_s20 h0 '%'
    generalize haddr : (splitFirst h0 '%').1 = addr at *
    have hlchars := hexColon_lower hchars
    -- the lower-cased address: first character, no dot, no percent sign
    cases hla : lower addr with
    | nil => exact absurd ((lower_eq_nil_iff addr).1 hla) hane
    | cons c a =>
      have hc := hexColon_ne (hlchars c (by rw [hla]; simp))
      have hcx : lowerChar c ≠ 'x' := by
        intro e
        have h1 : isHexDigit (lowerChar c) = true ∨ lowerChar c = ':' := by
          rcases hlchars c (by rw [hla]; simp) with h | h
          · left; rw [isHexDigit_lowerChar]; exact h
          · right; rw [h]; decide
        exact (hexColon_ne h1).1 e
      have hdot : '.' ∉ c :: a := by
        intro hm; exact (hexColon_ne (hlchars _ (by rw [hla]; exact hm))).2.2.2.1 rfl
      have hpct : '%' ∉ c :: a := by
        intro hm; exact (hexColon_ne (hlchars _ (by rw [hla]; exact hm))).2.2.2.2 rfl
      have hlow : lower (c :: a) = c :: a := by rw [← hla, lower_idem]
      have hv6' : v6Ok (c :: a) = true := by rw [← hla, v6Ok_lower]; exact hv6
      cases hzz : (splitFirst h0 '%').2 with
      | none =>
        have hL : lowerHost h0 = c :: a := by
          unfold lowerHost; rw [haddr, hzz, hla]; simp
        rw [hL]
        have : canonHost puny (c :: a) = c :: a := by
          have := canonHost_prefix puny c a [] hdot hcx
          rw [List.append_nil, tailOf_nil, List.append_nil, hlow] at this
          exact this
        rw [this, bracketedHostOk_nonv _ (by simpa using hc.2.2.1),
          splitFirst_notMem_s20 _ _ hpct]
        simp [zoneOk, hv6']
      | some zone =>
        rw [hzz] at hz
        simp only [zoneOk, Bool.and_eq_true, decide_eq_true_eq, Bool.not_eq_true'] at hz
        obtain ⟨hzne, hzp⟩ := hz
        have hzp' : '%' ∉ zone := by
          intro hm; rw [contains_true_of_mem hm] at hzp; cases hzp
        have hL : lowerHost h0 = (c :: a ++ ['%']) ++ zone := by
          unfold lowerHost; rw [haddr, hzz, hla]; simp
        rw [hL]
        have hdot' : '.' ∉ c :: (a ++ ['%']) := by
          intro hm
          simp only [List.mem_cons, List.mem_append, List.not_mem_nil, or_false] at hm
          rcases hm with hm | hm | hm
          · exact hdot (by rw [← hm]; simp)
          · exact hdot (by simp [hm])
          · cases hm
        have e1 : (c :: a ++ ['%']) ++ zone = c :: (a ++ ['%']) ++ zone := by simp
        rw [e1, canonHost_prefix puny c (a ++ ['%']) zone hdot' hcx]
        have e2 : lower (c :: (a ++ ['%'])) = c :: a ++ ['%'] := by
          rw [show c :: (a ++ ['%']) = (c :: a) ++ ['%'] from rfl, lower_append, hlow]
          rfl
        rw [e2]
        have e3 : c :: a ++ ['%'] ++ tailOf puny zone = (c :: a) ++ '%' :: tailOf puny zone := by simp
        rw [e3, bracketedHostOk_nonv _ (by simpa using hc.2.2.1),
          splitFirst_append_sep_s20 _ _ _ hpct]
        have hT1 : tailOf puny zone ≠ [] := tailOf_ne_nil puny hzne
        have hT2 : '%' ∉ tailOf puny zone := fun hm => hzp' (tailOf_bad hpc zone (by decide) hm)
        simp [zoneOk, hv6', hT1, hT2]

/-- the side condition `hbr` of `Lemmas/CanonRoundTrip.lean` / `Lemmas/CanonIdem.lean` holds
for every accepted parse: the canonical host of a bracketed host passes the bracket check -/
theorem hbr_holds {puny : Str → Str} (hpc : PunyClean puny) (quoted sf : Bool) {S rest : Str}
    {p : Parsed} (h : FromParse S rest p) (hui : userinfoBrackets p.netloc = false) :
    bracketedHost p.netloc = true →
      bracketedHostOk (strOf (canonComps puny quoted sf p).host) = true := by
  intro hB
  obtain ⟨hh, hok⟩ := hostname_bracketed h.split.ok hui hB
  rw [canonComps_host, h.host, hh, strOf_hostRule, strOf_some]
  exact bracketedHostOk_canon hpc _ hok

end Ural.BracketHost
