import UralModel.Lemmas.TrieDict
/-!
Helper lemmas about `TNode.pruneIns` / `TNode.setAndPrune` (the model of
`TrieDict.set_and_prune_if_shorter`), used by `Props/C09.lean`.
-/
set_option linter.unusedSectionVars false
set_option linter.unusedSimpArgs false

namespace Ural
namespace TNode
variable {τ α : Type} [DecidableEq τ]

/-! ### lookups below a child -/

theorem get_cons_getD (val : Option α) (c : Nat) (ks : List (τ × TNode τ α)) (a : τ) (p : List τ) :
    (TNode.mk val c ks).get (a :: p) = ((child ks a).getD empty).get p := by
  rw [get_cons]; cases child ks a <;> simp

theorem get_leaf_cons (val : Option α) (c : Nat) (a : τ) (p : List τ) :
    (TNode.mk val c ([] : List (τ × TNode τ α))).get (a :: p) = none := by
  simp [get_cons]

/-! ### when does the pruning walk give up -/

/-- some *proper* prefix of `k` carries a value -/
def Blocked (t : TNode τ α) (k : List τ) : Prop :=
  ∃ p, p <+: k ∧ p ≠ k ∧ t.get p ≠ none

theorem pruneIns_eq_none_iff (t : TNode τ α) (k : List τ) (v : α) :
    pruneIns t k v = none ↔ Blocked t k := by
  induction k generalizing t with
  | nil =>
    obtain ⟨val, c, ks⟩ := t
    constructor
    · intro h
      simp only [pruneIns] at h
      split at h
      · cases h
      · split at h <;> cases h
    · rintro ⟨p, hp, hne, _⟩
      exact absurd (List.prefix_nil.1 hp) hne
  | cons a as ih =>
    obtain ⟨val, c, ks⟩ := t
    cases hval : val with
    | some w =>
      simp only [pruneIns, Option.isSome_some, if_true, true_iff]
      exact ⟨[], List.nil_prefix, by simp, by simp [get_nil, value]⟩
    | none =>
      have hstep : pruneIns (TNode.mk none c ks) (a :: as) v = none ↔
          pruneIns ((child ks a).getD empty) as v = none := by
        simp only [pruneIns, Option.isSome_none, Bool.false_eq_true, if_false]
        cases pruneIns ((child ks a).getD empty) as v with
        | none => simp
        | some r => obtain ⟨n', d⟩ := r; simp
      rw [hstep, ih]
      constructor
      · rintro ⟨p, hp, hne, hg⟩
        refine ⟨a :: p, by simpa using hp, by simpa using hne, ?_⟩
        rw [get_cons_getD]; exact hg
      · rintro ⟨p, hp, hne, hg⟩
        rcases prefix_cons_iff.1 hp with rfl | ⟨p', rfl, hp'⟩
        · simp [get_nil, value] at hg
        · refine ⟨p', hp', by simpa using hne, ?_⟩
          rw [get_cons_getD] at hg; exact hg

/-! ### what the pruning walk does to lookups -/

theorem get_pruneIns (t : TNode τ α) (k : List τ) (v : α) (t' : TNode τ α) (d : Int)
    (h : pruneIns t k v = some (t', d)) (q : List τ) :
    t'.get q = if q = k then some v else if k <+: q then none else t.get q := by
  induction k generalizing t t' d q with
  | nil =>
    obtain ⟨val, c, ks⟩ := t
    have hleaf : ∃ c', t' = TNode.mk (some v) c' [] := by
      simp only [pruneIns] at h
      split at h
      · cases h; exact ⟨0, rfl⟩
      · rename_i hks
        have hks' : ks = [] := by
          cases ks with
          | nil => rfl
          | cons x xs => simp at hks
        subst hks'
        split at h <;> cases h <;> exact ⟨c, rfl⟩
    obtain ⟨c', rfl⟩ := hleaf
    cases q with
    | nil => simp [get_nil, value]
    | cons b q' => simp [get_leaf_cons]
  | cons a as ih =>
    obtain ⟨val, c, ks⟩ := t
    cases hval : val with
    | some w => subst hval; simp [pruneIns] at h
    | none =>
      subst hval
      simp only [pruneIns, Option.isSome_none, Bool.false_eq_true, if_false] at h
      cases hsub : pruneIns ((child ks a).getD empty) as v with
      | none => simp [hsub] at h
      | some r =>
        obtain ⟨n', d'⟩ := r
        simp only [hsub, Option.some.injEq, Prod.mk.injEq] at h
        obtain ⟨rfl, rfl⟩ := h
        cases q with
        | nil => simp [get_nil, value]
        | cons b q' =>
          rw [get_cons_getD, child_setChild, get_cons_getD]
          by_cases hb : b = a
          · subst hb
            simp only [if_true, Option.getD_some, List.cons.injEq, true_and,
              List.cons_prefix_cons]
            exact ih _ _ _ hsub q'
          · have hba : ¬ (b :: q' = a :: as) := by
              intro e; simp only [List.cons.injEq] at e; exact hb e.1
            have hpre : ¬ (a :: as <+: b :: q') := by
              intro e; rw [List.cons_prefix_cons] at e; exact hb e.1.symm
            simp [hb, hba, hpre]

/-- **One pruning step, read through `get`.**  If a proper prefix of `k` is stored nothing
changes; otherwise `k` is stored, every key properly below `k` disappears, and every other key
is untouched. -/
theorem get_setAndPrune (t : TNode τ α) (k : List τ) (v : α) (q : List τ) :
    (Blocked t k → (t.setAndPrune k v).get q = t.get q) ∧
    (¬ Blocked t k → (t.setAndPrune k v).get q =
      if q = k then some v else if k <+: q then none else t.get q) := by
  unfold setAndPrune
  cases h : pruneIns t k v with
  | none =>
    have hb := (pruneIns_eq_none_iff t k v).1 h
    exact ⟨fun _ => rfl, fun hn => absurd hb hn⟩
  | some r =>
    obtain ⟨t', d⟩ := r
    have hb : ¬ Blocked t k := fun hb => by
      rw [(pruneIns_eq_none_iff t k v).2 hb] at h; cases h
    exact ⟨fun hb' => absurd hb' hb, fun _ => get_pruneIns t k v t' d h q⟩

/-! ### the structural invariant: valued nodes have no children -/

mutual
/-- a node that carries a value has no children, everywhere in the subtree -/
def Leafy : TNode τ α → Prop
  | .mk val _ ks => (val.isSome = true → ks = []) ∧ LeafyKids ks
def LeafyKids : List (τ × TNode τ α) → Prop
  | [] => True
  | (_, c) :: rest => Leafy c ∧ LeafyKids rest
end

theorem leafy_empty : Leafy (empty : TNode τ α) := by
  simp [empty, Leafy, LeafyKids]

theorem leafyKids_child {ks : List (τ × TNode τ α)} (h : LeafyKids ks) {tok : τ} {c : TNode τ α}
    (hc : child ks tok = some c) : Leafy c := by
  induction ks with
  | nil => simp at hc
  | cons hd tl ih =>
    obtain ⟨k, n⟩ := hd
    simp only [LeafyKids] at h
    simp only [child] at hc
    split at hc
    · cases hc; exact h.1
    · exact ih h.2 hc

theorem leafyKids_setChild {ks : List (τ × TNode τ α)} (h : LeafyKids ks) (tok : τ) {n : TNode τ α}
    (hn : Leafy n) : LeafyKids (setChild ks tok n) := by
  induction ks with
  | nil => simp [setChild, LeafyKids, hn]
  | cons hd tl ih =>
    obtain ⟨k, c⟩ := hd
    simp only [LeafyKids] at h
    simp only [setChild]
    split
    · simp [LeafyKids, hn, h.2]
    · simp [LeafyKids, h.1, ih h.2]

theorem wf_getD_child {ks : List (τ × TNode τ α)} (h : WfKids ks) (a : τ) :
    Wf ((child ks a).getD empty) := by
  cases hch : child ks a with
  | none => exact wf_empty
  | some n => exact wfKids_child h hch

theorem leafy_getD_child {ks : List (τ × TNode τ α)} (h : LeafyKids ks) (a : τ) :
    Leafy ((child ks a).getD empty) := by
  cases hch : child ks a with
  | none => exact leafy_empty
  | some n => exact leafyKids_child h hch

/-- the pruning walk keeps the counters exact and valued nodes childless; `d` is the change of
the number of stored entries -/
theorem pruneIns_inv (t : TNode τ α) (k : List τ) (v : α) (t' : TNode τ α) (d : Int)
    (hwf : Wf t) (hl : Leafy t) (h : pruneIns t k v = some (t', d)) :
    Wf t' ∧ Leafy t' ∧ (count t' : Int) = (count t : Int) + d := by
  induction k generalizing t t' d with
  | nil =>
    obtain ⟨val, c, ks⟩ := t
    simp only [Wf] at hwf
    simp only [Leafy] at hl
    obtain ⟨hc, hnd, hk⟩ := hwf
    simp only [pruneIns] at h
    split at h
    · rename_i hks
      have hval : val = none := by
        cases val with
        | none => rfl
        | some w => exact absurd (hl.1 rfl) hks
      subst hval
      -- (written so that it also goes through if the pruning branch credits
      -- `(if val.isNone then 1 else 0) - c`, as a pending repair of the Python code does)
      simp at h
      obtain ⟨rfl, rfl⟩ := h
      refine ⟨by simp [Wf, countKids, keys, WfKids], by simp [Leafy, LeafyKids], ?_⟩
      simp [count, countKids, hc]
      omega
    · rename_i hks
      have hks' : ks = [] := by
        cases ks with
        | nil => rfl
        | cons x xs => simp at hks
      subst hks'
      simp only [countKids] at hc
      subst hc
      split at h
      · rename_i hv
        simp only [Option.some.injEq, Prod.mk.injEq] at h
        obtain ⟨rfl, rfl⟩ := h
        refine ⟨by simp [Wf, countKids, keys, WfKids], by simp [Leafy, LeafyKids], ?_⟩
        cases val <;> simp_all [count, countKids]
      · rename_i hv
        simp only [Option.some.injEq, Prod.mk.injEq] at h
        obtain ⟨rfl, rfl⟩ := h
        refine ⟨by simp [Wf, countKids, keys, WfKids], by simp [Leafy, LeafyKids], ?_⟩
        cases val <;> simp_all [count, countKids]
  | cons a as ih =>
    obtain ⟨val, c, ks⟩ := t
    cases hval : val with
    | some w => subst hval; simp [pruneIns] at h
    | none =>
      subst hval
      simp only [Wf] at hwf
      simp only [Leafy] at hl
      obtain ⟨hc, hnd, hk⟩ := hwf
      simp only [pruneIns, Option.isSome_none, Bool.false_eq_true, if_false] at h
      cases hsub : pruneIns ((child ks a).getD empty) as v with
      | none => simp [hsub] at h
      | some r =>
        obtain ⟨n', d'⟩ := r
        simp only [hsub, Option.some.injEq, Prod.mk.injEq] at h
        obtain ⟨rfl, rfl⟩ := h
        obtain ⟨hwn, hln, hcn⟩ := ih _ _ _ (wf_getD_child hk a) (leafy_getD_child hl.2 a) hsub
        have hcs := countKids_setChild ks a n'
        refine ⟨?_, ?_, ?_⟩
        · simp only [Wf]
          refine ⟨?_, nodup_keys_setChild _ _ _ hnd, wfKids_setChild hk a hwn⟩
          omega
        · simp only [Leafy]
          exact ⟨by simp, leafyKids_setChild hl.2 a hln⟩
        · simp only [count, Option.isSome_none, Bool.false_eq_true, if_false]
          omega

theorem setAndPrune_inv (t : TNode τ α) (k : List τ) (v : α) (hwf : Wf t) (hl : Leafy t) :
    Wf (t.setAndPrune k v) ∧ Leafy (t.setAndPrune k v) := by
  unfold setAndPrune
  cases h : pruneIns t k v with
  | none => exact ⟨hwf, hl⟩
  | some r =>
    obtain ⟨t', d⟩ := r
    have := pruneIns_inv t k v t' d hwf hl h
    exact ⟨this.1, this.2.1⟩

/-- under the invariant no stored key is a proper prefix of another stored key -/
theorem leafy_antichain (t : TNode τ α) (hl : Leafy t) (p q : List τ)
    (hp : t.get p ≠ none) (hpq : p <+: q) (hne : p ≠ q) : t.get q = none := by
  induction p generalizing t q with
  | nil =>
    obtain ⟨val, c, ks⟩ := t
    simp only [Leafy] at hl
    cases q with
    | nil => exact absurd rfl hne
    | cons b q' =>
      have : ks = [] := hl.1 (by
        cases val with
        | none => simp [get_nil, value] at hp
        | some w => rfl)
      subst this
      exact get_leaf_cons _ _ _ _
  | cons a p' ih =>
    obtain ⟨val, c, ks⟩ := t
    simp only [Leafy] at hl
    cases q with
    | nil => simp at hpq
    | cons b q' =>
      rw [List.cons_prefix_cons] at hpq
      obtain ⟨rfl, hpq'⟩ := hpq
      rw [get_cons_getD] at hp ⊢
      exact ih _ (leafy_getD_child hl.2 a) q' hp hpq' (by simpa using hne)

end TNode

/-! ### lists of keys: minimal elements, duplicates removed -/

section Minimal
variable {τ : Type} [DecidableEq τ]

/-- `a` is one of the keys `S` and no other key of `S` is a prefix of it -/
def IsMinimal (S : List (List τ)) (a : List τ) : Prop :=
  a ∈ S ∧ ∀ b ∈ S, b <+: a → b = a

instance (S : List (List τ)) (a : List τ) : Decidable (IsMinimal S a) := by
  unfold IsMinimal; exact inferInstance

theorem prefix_antisymm {p q : List τ} (h1 : p <+: q) (h2 : q <+: p) : p = q :=
  h1.eq_of_length (Nat.le_antisymm h1.length_le h2.length_le)

/-- below every key there is a minimal key -/
theorem exists_minimal_prefix (S : List (List τ)) (a : List τ) (ha : a ∈ S) :
    ∃ m, IsMinimal S m ∧ m <+: a := by
  generalize hn : a.length = n
  induction n using Nat.strongRecOn generalizing a with
  | _ n ih =>
    by_cases hmin : IsMinimal S a
    · exact ⟨a, hmin, List.prefix_refl a⟩
    · have : ∃ b, b ∈ S ∧ b <+: a ∧ b ≠ a := by
        simp only [IsMinimal, ha, true_and] at hmin
        have hdec : ¬ ∀ b ∈ S, b <+: a → b = a := hmin
        -- search the (finite) list for a counterexample
        have : ∀ (L : List (List τ)), (¬ ∀ b ∈ L, b <+: a → b = a) →
            ∃ b, b ∈ L ∧ b <+: a ∧ b ≠ a := by
          intro L
          induction L with
          | nil => intro h; exact absurd (by simp) h
          | cons x xs ihL =>
            intro h
            by_cases hx : x <+: a ∧ x ≠ a
            · exact ⟨x, by simp, hx.1, hx.2⟩
            · have : ¬ ∀ b ∈ xs, b <+: a → b = a := by
                intro hall
                apply h
                intro b hb hba
                rcases List.mem_cons.1 hb with rfl | hb
                · by_cases e : b = a
                  · exact e
                  · exact absurd ⟨hba, e⟩ hx
                · exact hall b hb hba
              obtain ⟨b, hb, h1, h2⟩ := ihL this
              exact ⟨b, List.mem_cons_of_mem _ hb, h1, h2⟩
        exact this S hdec
      obtain ⟨b, hb, hba, hne⟩ := this
      have hlt : b.length < n := by
        have := hba.length_le
        rcases Nat.lt_or_ge b.length a.length with h | h
        · omega
        · exact absurd (hba.eq_of_length (by omega)) hne
      obtain ⟨m, hm, hmb⟩ := ih b.length hlt b hb rfl
      exact ⟨m, hm, hmb.trans hba⟩

/-- first occurrences only -/
def dedup {β : Type} [DecidableEq β] : List β → List β
  | [] => []
  | a :: l => if a ∈ l then dedup l else a :: dedup l

theorem mem_dedup {β : Type} [DecidableEq β] (l : List β) (x : β) : x ∈ dedup l ↔ x ∈ l := by
  induction l with
  | nil => simp [dedup]
  | cons a l ih =>
    simp only [dedup]
    split
    · rename_i h
      rw [ih, List.mem_cons]
      constructor
      · exact Or.inr
      · rintro (rfl | h') <;> assumption
    · simp [ih]

theorem nodup_dedup {β : Type} [DecidableEq β] (l : List β) : (dedup l).Nodup := by
  induction l with
  | nil => simp [dedup]
  | cons a l ih =>
    simp only [dedup]
    split
    · exact ih
    · rename_i h
      rw [List.nodup_cons]
      exact ⟨fun hm => h ((mem_dedup l a).1 hm), ih⟩

/-- the antichain of minimal keys of `S`, each once -/
def minimalKeys (S : List (List τ)) : List (List τ) :=
  dedup (S.filter (fun a => decide (IsMinimal S a)))

theorem mem_minimalKeys (S : List (List τ)) (a : List τ) :
    a ∈ minimalKeys S ↔ IsMinimal S a := by
  simp only [minimalKeys, mem_dedup, List.mem_filter, decide_eq_true_eq]
  exact ⟨fun h => h.2, fun h => ⟨h.1, h⟩⟩

theorem nodup_minimalKeys (S : List (List τ)) : (minimalKeys S).Nodup := nodup_dedup _

end Minimal
end Ural
