import UralModel.Model.Protocol
/-! Helper lemmas on `protoLen` and the three protocol functions (property theorems are in
`Props/C20.lean`). -/
namespace Ural
open Ural.Py

theorem startsWith_slashes_iff (u : Str) :
    startsWith u ['/', '/'] = true ↔ ∃ r, u = '/' :: '/' :: r := by
  unfold startsWith
  match u with
  | [] => simp
  | [a] => simp [List.isPrefixOf]
  | a :: b :: r =>
    simp only [List.isPrefixOf, Bool.and_true, Bool.and_eq_true, beq_iff_eq]
    constructor
    · rintro ⟨h1, h2⟩; exact ⟨r, by rw [← h1, ← h2]⟩
    · rintro ⟨r', h⟩; injection h with h1 h; injection h with h2 h; exact ⟨h1.symm, h2.symm⟩

theorem colon_not_alpha : isAsciiAlpha ':' = false := by decide
theorem slash_not_alpha : isAsciiAlpha '/' = false := by decide

/-- a protocol followed by `://` is recognised again, with the expected length -/
theorem protoLen_proto_sep (q r : Str) (h : AlphaProto q) :
    protoLen (q ++ sepFull ++ r) = some (q.length + 3) := by
  obtain ⟨hne, hall, hlen⟩ := h
  unfold protoLen
  have hall' : ∀ a ∈ q, isAsciiAlpha a = true := hall
  rw [List.append_assoc, List.takeWhile_append_of_pos hall', List.dropWhile_append_of_pos hall']
  have h1 : List.takeWhile isAsciiAlpha (sepFull ++ r) = [] := by
    simp [sepFull, colon_not_alpha]
  have h2 : List.dropWhile isAsciiAlpha (sepFull ++ r) = sepFull ++ r := by
    simp [sepFull, colon_not_alpha]
  rw [h1, h2]
  have hq : q.length ≠ 0 := by
    intro h0; exact hne (List.eq_nil_of_length_eq_zero h0)
  simp [protoMaxLetters, hlen, hq, sepFull, startsWith, List.isPrefixOf]

theorem protoLen_slashes (r : Str) : protoLen ('/' :: '/' :: r) = some 2 := by
  unfold protoLen
  simp [slash_not_alpha, startsWith, List.isPrefixOf]

/-- a non-empty alphabetic prefix prevents a string from starting with `//` -/
theorem not_startsWith_slashes_of_alpha (q x : Str) (h : AlphaProto q) :
    startsWith (q ++ x) ['/', '/'] = false := by
  obtain ⟨hne, hall, _⟩ := h
  cases q with
  | nil => exact absurd rfl hne
  | cons c q =>
    have hc : isAsciiAlpha c = true := hall c (by simp)
    have : c ≠ '/' := by
      intro he; rw [he, slash_not_alpha] at hc; exact Bool.noConfusion hc
    simp [startsWith, List.isPrefixOf]
    intro h; exact absurd h.symm this

/-- `force_protocol` always rebuilds `protocol + "://" + strip_protocol(url)` -/
theorem force_protocol_eq (u p : Str) :
    force_protocol u p = normProto p ++ sepFull ++ strip_protocol u := by
  unfold force_protocol strip_protocol
  cases hpl : protoLen u with
  | none => rfl
  | some n =>
    simp only []
    split
    · rename_i hs
      obtain ⟨r, hr⟩ := (startsWith_slashes_iff u).mp hs
      subst hr
      rw [protoLen_slashes] at hpl
      injection hpl with hpl
      subst hpl
      simp [sepFull]
    · rfl

theorem strip_protocol_proto_sep (q r : Str) (h : AlphaProto q) :
    strip_protocol (q ++ sepFull ++ r) = r := by
  unfold strip_protocol
  rw [protoLen_proto_sep q r h]
  simp only []
  rw [List.append_assoc, show q.length + 3 = q.length + sepFull.length from rfl,
    ← List.drop_drop, List.drop_left, List.drop_left]

/-- `rstrip(":/")` removes exactly a trailing run of `:` and `/` after an alphabetic word -/
theorem normProto_append (q t : Str) (h : AlphaProto q) (ht : ∀ c ∈ t, c = ':' ∨ c = '/') :
    normProto (q ++ t) = q := by
  obtain ⟨hne, hall, _⟩ := h
  unfold normProto rstripChars
  rw [List.reverse_append]
  have h1 : ∀ a ∈ t.reverse, ([':', '/'].contains a) = true := by
    intro a ha
    rcases ht a (by simpa using ha) with h | h <;> simp [h]
  rw [List.dropWhile_append_of_pos h1]
  have hq : q.reverse ≠ [] := by simpa using hne
  cases hr : q.reverse with
  | nil => exact absurd hr hq
  | cons c rest =>
    have hc : isAsciiAlpha c = true := hall c (by
      have : c ∈ q.reverse := by rw [hr]; simp
      simpa using this)
    have h1 : c ≠ ':' := by
      intro he; rw [he, colon_not_alpha] at hc; exact Bool.noConfusion hc
    have h2 : c ≠ '/' := by
      intro he; rw [he, slash_not_alpha] at hc; exact Bool.noConfusion hc
    rw [List.dropWhile_cons_of_neg (by simp [h1, h2]), ← hr, List.reverse_reverse]

theorem normProto_self (q : Str) (h : AlphaProto q) : normProto q = q := by
  simpa using normProto_append q [] h (by simp)

end Ural
