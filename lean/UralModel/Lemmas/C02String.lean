import UralModel.Lemmas.QuoteRoundTrip
import UralModel.Lemmas.QuoteUpper
import UralModel.Lemmas.QuoteSplit
import UralModel.Lemmas.CanonIdem
import UralModel.Model.Normalize
/-!
# C02 — spelling changes stated on plain string decompositions

The statements of `Props/C02.lean` about hex-digit case, control characters and
escape-equivalence take as hypothesis an equation between intermediate values of the
implementation (`(tokens a).map upperTok = …`, `stripControl u = stripControl v`,
`normItems U a = normItems U b`).  Here the same facts are stated on decompositions of the
STRINGS, with no reference to the scanner:

* `preClean_hex_step`: the cleaning pass sends `x ++ %k1k2 ++ y` and `x ++ %h1h2 ++ y` to the same
  string when `k1`,`h1` and `k2`,`h2` are the same hex digits up to letter case;
* three substitution laws of the safe unquoters (any unsafe set `U`):
  `safelyUnquote_escaped_ascii` (`%41` vs `A`: an escape whose byte is ASCII and not kept
  escaped by `U`, against the character itself), `safelyUnquote_escaped_space` (`%20` vs a raw
  space), `safelyUnquote_escaped_utf8` (a non-ASCII character against any spelling — upper or
  lower case hex digits — of its escaped UTF-8 bytes).

The one side condition of the `%41` vs `A` law is real: when the character is itself a hex digit
(`A`–`F`, `a`–`f`, `0`–`9`) the text in front of it must not end inside an unfinished escape
(`openPct`: it ends with `%` or with `%` + one hex digit) — `%4%31` is `%4` followed by `1`, but
`%41` is `A` (`escaped_ascii_context_needed`).
-/
set_option linter.unusedSimpArgs false
set_option linter.unusedVariables false

namespace Ural.C02String
open Ural Ural.Py Ural.UrlParts Ural.Quote Ural.QuoteUpper

/-! ## character classes -/

theorem hex_not_space {c : Char} (h : isHexDigit c = true) : isSpace c = false := by
  rw [isHexDigit_iff] at h
  cases hs : isSpace c with
  | false => rfl
  | true =>
    simp only [isSpace, spaceCodes, List.contains_cons, List.contains_nil, Bool.or_false,
      Bool.or_eq_true, beq_iff_eq] at hs
    omega

theorem hex_not_control {c : Char} (h : isHexDigit c = true) : isControlChar c = false := by
  rw [isHexDigit_iff] at h
  simp only [isControlChar, Bool.or_eq_false_iff, decide_eq_false_iff_not, Bool.and_eq_false_imp,
    decide_eq_true_eq]
  omega

theorem hex_of_upper_eq {k h : Char} (e : upperChar k = upperChar h) (hh : isHexDigit h = true) :
    isHexDigit k = true := by
  rw [← isHexDigit_upperChar, e, isHexDigit_upperChar, hh]

/-! ## the cleaning pass around one escape -/

theorem dropWhile_append_stop_cons (p : Char → Bool) (s w : Str) (c : Char) (hc : p c = false) :
    (s ++ c :: w).dropWhile p = s.dropWhile p ++ c :: w := by
  induction s with
  | nil => simp [List.dropWhile_cons, hc]
  | cons a r ih =>
    simp only [List.cons_append, List.dropWhile_cons]
    split
    · exact ih
    · rfl

/-- `strip` around a piece that starts and ends with characters that are no white space -/
theorem strip_mid (X M Y : Str) (c d : Char) (hc : isSpace c = false) (hd : isSpace d = false) :
    strip (X ++ c :: (M ++ d :: Y)) = lstrip X ++ c :: (M ++ d :: rstrip Y) := by
  unfold strip
  have hl : lstrip (X ++ c :: (M ++ d :: Y)) = lstrip X ++ c :: (M ++ d :: Y) := by
    unfold lstrip; exact dropWhile_append_stop_cons _ _ _ _ hc
  rw [hl]
  unfold rstrip
  have e : (lstrip X ++ c :: (M ++ d :: Y)).reverse =
      Y.reverse ++ d :: (M.reverse ++ c :: (lstrip X).reverse) := by simp
  rw [e, dropWhile_append_stop_cons _ _ _ _ hd]
  simp

theorem stripControl_esc (x y : Str) (h1 h2 : Char) (hh1 : isHexDigit h1 = true)
    (hh2 : isHexDigit h2 = true) :
    stripControl (x ++ '%' :: h1 :: h2 :: y) = stripControl x ++ '%' :: h1 :: h2 :: stripControl y := by
  have hp : isControlChar '%' = false := by decide
  simp [stripControl, List.filter_append, List.filter_cons, hp, hex_not_control hh1, hex_not_control hh2]

/-- **the cleaning pass forgets the letter case of the hex digits of an escape**: for EVERY
string `x ++ %h1h2 ++ y` with hex digits `h1`, `h2`, replacing them by the same digits in another
letter case gives the same cleaned string -/
theorem preClean_hex_step (x y : Str) (h1 h2 k1 k2 : Char) (hh1 : isHexDigit h1 = true)
    (hh2 : isHexDigit h2 = true) (e1 : upperChar k1 = upperChar h1) (e2 : upperChar k2 = upperChar h2) :
    Normalize.preClean (x ++ '%' :: k1 :: k2 :: y) = Normalize.preClean (x ++ '%' :: h1 :: h2 :: y) := by
  have hk1 := hex_of_upper_eq e1 hh1
  have hk2 := hex_of_upper_eq e2 hh2
  have hp : isSpace '%' = false := by decide
  unfold Normalize.preClean
  rw [stripControl_esc x y h1 h2 hh1 hh2, stripControl_esc x y k1 k2 hk1 hk2]
  have s1 := strip_mid (stripControl x) [h1] (stripControl y) '%' h2 hp (hex_not_space hh2)
  have s2 := strip_mid (stripControl x) [k1] (stripControl y) '%' k2 hp (hex_not_space hk2)
  simp only [List.singleton_append] at s1 s2
  rw [s1, s2, upperQuoted_append_esc hh1 hh2, upperQuoted_append_esc hk1 hk2, e1, e2]

/-- the reflexive-transitive closure of the step: `a` and `b` differ only in the letter case of
hex digits of valid escapes (`%` + two hex digits) of theirs -/
inductive HexCaseEq : Str → Str → Prop
  | refl (s : Str) : HexCaseEq s s
  | step (x y : Str) (h1 h2 k1 k2 : Char) (hh1 : isHexDigit h1 = true) (hh2 : isHexDigit h2 = true)
      (e1 : upperChar k1 = upperChar h1) (e2 : upperChar k2 = upperChar h2) :
      HexCaseEq (x ++ '%' :: k1 :: k2 :: y) (x ++ '%' :: h1 :: h2 :: y)
  | trans {a b c : Str} : HexCaseEq a b → HexCaseEq b c → HexCaseEq a c

theorem preClean_hexCaseEq {a b : Str} (h : HexCaseEq a b) :
    Normalize.preClean a = Normalize.preClean b := by
  induction h with
  | refl s => rfl
  | step x y h1 h2 k1 k2 hh1 hh2 e1 e2 => exact preClean_hex_step x y h1 h2 k1 k2 hh1 hh2 e1 e2
  | trans _ _ ih1 ih2 => exact ih1.trans ih2

/-- control characters inserted anywhere -/
theorem stripControl_insert_all (a w b : Str) (hw : w.all isControlChar = true) :
    stripControl (a ++ w ++ b) = stripControl (a ++ b) := by
  have : stripControl w = [] := by
    unfold stripControl
    rw [List.filter_eq_nil_iff]
    intro c hc
    simp [(List.all_eq_true.1 hw) c hc]
  have e : ∀ s t : Str, stripControl (s ++ t) = stripControl s ++ stripControl t := by
    intro s t; simp [stripControl, List.filter_append]
  rw [e, e, e, this, List.append_nil]

/-! ## the scanner on a concatenation -/

/-- on the reversed string -/
def openPctRev : Str → Bool
  | [] => false
  | a :: t => a == '%' || (isHexDigit a && t.head? == some '%')

/-- `x` ends inside an unfinished escape: with `%`, or with `%` + one hex digit -/
def openPct (x : Str) : Bool := openPctRev x.reverse

theorem openPct_cons {c : Char} {x : Str} (h : openPct x = true) : openPct (c :: x) = true := by
  unfold openPct at h ⊢
  rw [List.reverse_cons]
  cases hx : x.reverse with
  | nil => rw [hx] at h; cases h
  | cons a t =>
    rw [hx] at h
    simp only [openPctRev, Bool.or_eq_true, beq_iff_eq, Bool.and_eq_true] at h
    simp only [List.cons_append, openPctRev, Bool.or_eq_true, beq_iff_eq, Bool.and_eq_true]
    rcases h with h | ⟨h1, h2⟩
    · exact Or.inl h
    · refine Or.inr ⟨h1, ?_⟩
      cases t with
      | nil => simp at h2
      | cons b r => simpa using h2

theorem openPct_tail {c : Char} {x : Str} (h : openPct (c :: x) = false) : openPct x = false := by
  cases hx : openPct x with
  | false => rfl
  | true => rw [openPct_cons hx] at h; cases h

theorem openPct_one {c : Char} (h : openPct [c] = false) : c ≠ '%' := by
  rintro rfl; revert h; decide

theorem openPct_two {c d : Char} (h : openPct [c, d] = false) :
    d ≠ '%' ∧ ¬ (c = '%' ∧ isHexDigit d = true) := by
  simp only [openPct, List.reverse_cons, List.reverse_nil, List.nil_append, List.cons_append,
    openPctRev, List.head?_cons, Bool.or_eq_false_iff, beq_eq_false_iff_ne, ne_eq,
    Bool.and_eq_false_imp] at h
  refine ⟨h.1, ?_⟩
  rintro ⟨rfl, hd⟩
  have := h.2 hd
  simp at this

/-- **the scan of a concatenation is the concatenation of the scans** when the first string
does not end inside an unfinished escape -/
theorem tokens_append_closed : ∀ (x s : Str), openPct x = false → tokens (x ++ s) = tokens x ++ tokens s
  | [], s, _ => by simp [tokens]
  | [c], s, h => by
    have hc := openPct_one h
    simp only [List.cons_append, List.nil_append]
    rw [tokens_cons_of_ne hc, tokens_cons_of_ne hc]
    simp [tokens]
  | [c, d], s, h => by
    obtain ⟨hd, hcd⟩ := openPct_two h
    simp only [List.cons_append, List.nil_append]
    by_cases hc : c = '%'
    · subst hc
      have hdh : isHexDigit d = false := by
        cases hx : isHexDigit d with
        | false => rfl
        | true => exact absurd ⟨rfl, hx⟩ hcd
      have hs1 : startsHex2 (d :: s) = false := by
        cases s with
        | nil => rfl
        | cons e r => simp [startsHex2, hdh]
      have hs2 : startsHex2 [d] = false := rfl
      rw [tokens_stray hs1, tokens_stray hs2, tokens_cons_of_ne hd, tokens_cons_of_ne hd]
      simp [tokens]
    · rw [tokens_cons_of_ne hc, tokens_cons_of_ne hc, tokens_cons_of_ne hd, tokens_cons_of_ne hd]
      simp [tokens]
  | c :: h1 :: h2 :: r, s, h => by
    have ih1 := tokens_append_closed r s (openPct_tail (openPct_tail (openPct_tail h)))
    have ih2 := tokens_append_closed (h1 :: h2 :: r) s (openPct_tail h)
    simp only [List.cons_append] at ih2 ⊢
    simp only [tokens]
    split
    · simp [ih1]
    · simp [ih2]

/-! ## substitution laws of the safe unquoters -/

/-- the part of the unquoter's input that a piece of the scan gives -/
def itemsOf (U : List UInt8) (ts : List Tok) : List Item :=
  ((escapeRaw ts).map (itemOf U)).flatMap expand

theorem itemsOf_append (U : List UInt8) (a b : List Tok) :
    itemsOf U (a ++ b) = itemsOf U a ++ itemsOf U b := by
  simp [itemsOf, escapeRaw_append]

/-- two strings whose scans differ by one piece with the same items are unquoted alike -/
theorem unquote_of_pieces (U : List UInt8) (a b : Str) (tx ma mb ty : List Tok)
    (ha : tokens a = tx ++ ma ++ ty) (hb : tokens b = tx ++ mb ++ ty)
    (h : itemsOf U ma = itemsOf U mb) : safelyUnquote U a = safelyUnquote U b := by
  apply unquote_respects_equiv
  show itemsOf U (tokens a) = itemsOf U (tokens b)
  rw [ha, hb, itemsOf_append, itemsOf_append, itemsOf_append, itemsOf_append, h]

theorem char_ne_of_toNat {c d : Char} (h : c.toNat ≠ d.toNat) : c ≠ d := by
  rintro rfl; exact h rfl

theorem char_eq_of_toNat {c d : Char} (h : c.toNat = d.toNat) : c = d := by
  apply Char.ext; apply UInt32.toNat_inj.1; exact h

theorem uint8_eq_of_toNat {a b : UInt8} (h : a.toNat = b.toNat) : a = b := UInt8.toNat_inj.1 h

/-- **`%20` and a raw space are interchangeable** anywhere, for every unsafe set -/
theorem safelyUnquote_escaped_space (U : List UInt8) (x y : Str) :
    safelyUnquote U (x ++ '%' :: '2' :: '0' :: y) = safelyUnquote U (x ++ ' ' :: y) := by
  have hsep : Sep ' ' := ⟨by decide, by decide⟩
  apply unquote_of_pieces U _ _ (tokens x) [.esc '2' '0'] [.raw ' '] (tokens y)
  · rw [tokens_append_esc (by decide) (by decide)]; simp
  · rw [tokens_append_sep hsep]; simp
  · have hst : staysEscaped ' ' = false := by decide
    have hb : byteOf '2' '0' = 0x20 := by decide
    simp only [itemsOf, escapeRaw, List.flatMap_cons, List.flatMap_nil, escTok, hst,
      Bool.false_eq_true, if_false, List.append_nil, List.map_cons, List.map_nil, itemOf, hb]
    cases keepEsc U 0x20 <;> simp [expand]

/-- **an escaped ASCII character that the unquoter decodes and the character itself are
interchangeable** (`%41` vs `A`, `%7E` vs `~`, `%2d` vs `-`): for every string `x ++ %h1h2 ++ y`
whose escape stands for an ASCII byte that `U` does not keep escaped.  When the character is a
hex digit, `x` must not end inside an unfinished escape (`openPct`). -/
theorem safelyUnquote_escaped_ascii (U : List UInt8) (hU : (0x25 : UInt8) ∈ U) (x y : Str) (h1 h2 : Char)
    (hh1 : isHexDigit h1 = true) (hh2 : isHexDigit h2 = true)
    (hk : keepEsc U (byteOf h1 h2) = false) (hlt : (byteOf h1 h2).toNat < 0x80)
    (hctx : isHexDigit (Char.ofNat (byteOf h1 h2).toNat) = true → openPct x = false) :
    safelyUnquote U (x ++ '%' :: h1 :: h2 :: y) =
      safelyUnquote U (x ++ Char.ofNat (byteOf h1 h2).toNat :: y) := by
  generalize hb : byteOf h1 h2 = b at hk hlt hctx
  have hcn : (Char.ofNat b.toNat).toNat = b.toNat := toNat_ofNat_of_lt (by omega)
  have hne : Char.ofNat b.toNat ≠ '%' := by
    intro e
    have : b.toNat = 37 := by rw [← hcn, e]; rfl
    have : b = 0x25 := uint8_eq_of_toNat this
    rw [this, keepEsc_of_mem hU] at hk
    cases hk
  apply unquote_of_pieces U _ _ (tokens x) [.esc h1 h2] [.raw (Char.ofNat b.toNat)] (tokens y)
  · rw [tokens_append_esc hh1 hh2]; simp
  · by_cases hx : isHexDigit (Char.ofNat b.toNat) = true
    · rw [tokens_append_closed _ _ (hctx hx), tokens_cons_of_ne hne]; simp
    · rw [tokens_append_sep ⟨hne, by simpa using hx⟩]; simp
  · have hst : staysEscaped (Char.ofNat b.toNat) = false := staysEscaped_of_lt (by omega)
    have hlt' : b < 0x80 := UInt8.lt_iff_toNat_lt.2 (by simpa using hlt)
    simp only [itemsOf, escapeRaw, List.flatMap_cons, List.flatMap_nil, escTok, hst,
      Bool.false_eq_true, if_false, List.append_nil, List.map_cons, List.map_nil, itemOf, hb, hk,
      hlt', if_true]
    by_cases h20 : b = 0x20
    · subst h20
      have : Char.ofNat (0x20 : UInt8).toNat = ' ' := by decide
      simp [this]
    · have : Char.ofNat b.toNat ≠ ' ' := by
        intro e
        have : b.toNat = 32 := by rw [← hcn, e]; rfl
        exact h20 (uint8_eq_of_toNat this)
      simp [h20, this]

/-- the context condition of `safelyUnquote_escaped_ascii` cannot be dropped: after `%4` an
escaped `1` is not the raw `1` (the raw one completes the escape `%41`) -/
theorem escaped_ascii_context_needed :
    safelyUnquote Gen.Quote.unsafeForPath "%4%31".toList ≠ safelyUnquote Gen.Quote.unsafeForPath "%41".toList ∧
    openPct "%4".toList = true := by decide +kernel

/-- the text of a list of escapes -/
def escStr (hs : List (Char × Char)) : Str := hs.flatMap fun p => ['%', p.1, p.2]

/-- the upper-case spelling of the escaped UTF-8 bytes of a character (`quote(c)`) -/
def pctEncode (c : Char) : List (Char × Char) :=
  (utf8 c).map fun b => (Quote.hexDigitUpper (b.toNat / 16), Quote.hexDigitUpper (b.toNat % 16))

theorem tokens_escStr (hs : List (Char × Char))
    (hhex : ∀ p ∈ hs, isHexDigit p.1 = true ∧ isHexDigit p.2 = true) (y : Str) :
    tokens (escStr hs ++ y) = hs.map (fun p => Tok.esc p.1 p.2) ++ tokens y := by
  induction hs with
  | nil => rfl
  | cons p r ih =>
    have hp := hhex p (by simp)
    simp only [escStr, List.flatMap_cons, List.cons_append, List.nil_append, List.map_cons]
    rw [tokens_esc hp.1 hp.2]
    congr 1
    exact ih (fun q hq => hhex q (by simp [hq]))

theorem tokens_append_escStr (x y : Str) (hs : List (Char × Char)) (hne : hs ≠ [])
    (hhex : ∀ p ∈ hs, isHexDigit p.1 = true ∧ isHexDigit p.2 = true) :
    tokens (x ++ (escStr hs ++ y)) = tokens x ++ hs.map (fun p => Tok.esc p.1 p.2) ++ tokens y := by
  cases hs with
  | nil => exact absurd rfl hne
  | cons p r =>
    have hp := hhex p (by simp)
    have e : escStr (p :: r) ++ y = '%' :: p.1 :: p.2 :: (escStr r ++ y) := by
      simp [escStr]
    rw [e, tokens_append_esc hp.1 hp.2, tokens_escStr r (fun q hq => hhex q (by simp [hq]))]
    simp

theorem itemOf_esc_high (U : List UInt8) (hA : AsciiSet U) (h1 h2 : Char)
    (hb : 0x80 ≤ (byteOf h1 h2).toNat) : itemOf U (.esc h1 h2) = .byte (byteOf h1 h2) := by
  generalize hbb : byteOf h1 h2 = b at hb ⊢
  have hk : keepEsc U b = false := by
    simp only [keepEsc, Bool.or_eq_false_iff, decide_eq_false_iff_not, beq_eq_false_iff_ne, ne_eq]
    refine ⟨⟨?_, ?_⟩, ?_⟩
    · intro h; have := UInt8.lt_iff_toNat_lt.1 h; simp at this; omega
    · intro h; rw [h] at hb; simp at hb
    · cases hc : U.contains b with
      | false => rfl
      | true =>
        have := hA b (by simpa using hc)
        omega
  have hlt : ¬ b < 0x80 := by
    intro h; have := UInt8.lt_iff_toNat_lt.1 h; simp at this; omega
  simp only [itemOf, hbb, hk, Bool.false_eq_true, if_false, hlt]

theorem itemsOf_escs (U : List UInt8) (hA : AsciiSet U) (hs : List (Char × Char))
    (hb : ∀ p ∈ hs, 0x80 ≤ (byteOf p.1 p.2).toNat) :
    itemsOf U (hs.map fun p => Tok.esc p.1 p.2) = (hs.map fun p => byteOf p.1 p.2).map Item.byte := by
  induction hs with
  | nil => rfl
  | cons p r ih =>
    have e : (p :: r).map (fun p => Tok.esc p.1 p.2) = [Tok.esc p.1 p.2] ++ r.map (fun p => Tok.esc p.1 p.2) := rfl
    rw [e, itemsOf_append, ih (fun q hq => hb q (by simp [hq]))]
    simp [itemsOf, escapeRaw, escTok, itemOf_esc_high U hA p.1 p.2 (hb p (by simp)), expand]

theorem nonascii_sep {c : Char} (hc : 0x80 ≤ c.toNat) : Sep c := by
  constructor
  · apply char_ne_of_toNat; have : ('%' : Char).toNat = 37 := rfl; omega
  · cases h : isHexDigit c with
    | false => rfl
    | true => rw [isHexDigit_iff] at h; omega

theorem itemsOf_raw_high (U : List UInt8) (hA : AsciiSet U) (c : Char) (hc : 0x80 ≤ c.toNat) :
    itemsOf U [.raw c] = (utf8 c).map Item.byte := by
  have hsp : c ≠ ' ' := by
    apply char_ne_of_toNat; have : (' ' : Char).toNat = 32 := rfl; omega
  by_cases hst : staysEscaped c = true
  · have : ∀ (bs : List UInt8), (∀ b ∈ bs, 0x80 ≤ b.toNat) →
        ((bs.map escOfByte).map (itemOf U)).flatMap expand = bs.map Item.byte := by
      intro bs hbs
      induction bs with
      | nil => rfl
      | cons b r ih =>
        simp only [List.map_cons, List.flatMap_cons, itemOf_escOfByte U hA b (hbs b (by simp)), expand,
          List.singleton_append]
        rw [ih (fun q hq => hbs q (by simp [hq]))]
    simp only [itemsOf, escapeRaw, List.flatMap_cons, List.flatMap_nil, escTok, hst, if_true,
      List.append_nil]
    exact this _ (utf8_high hc)
  · have hst' : staysEscaped c = false := by simpa using hst
    simp [itemsOf, escapeRaw, escTok, hst', itemOf, hsp, expand, hc]

/-- **a non-ASCII character and any spelling of its escaped UTF-8 bytes are interchangeable**
(`é` vs `%C3%A9` vs `%c3%a9`), anywhere, for every unsafe set of ASCII bytes: `hs` is a list of
hex-digit pairs whose bytes are the UTF-8 encoding of `c` -/
theorem safelyUnquote_escaped_utf8 (U : List UInt8) (hA : AsciiSet U) (x y : Str) (c : Char)
    (hc : 0x80 ≤ c.toNat) (hs : List (Char × Char))
    (hhex : ∀ p ∈ hs, isHexDigit p.1 = true ∧ isHexDigit p.2 = true)
    (hb : hs.map (fun p => byteOf p.1 p.2) = utf8 c) :
    safelyUnquote U (x ++ (escStr hs ++ y)) = safelyUnquote U (x ++ c :: y) := by
  have hne : hs ≠ [] := by
    intro e; rw [e] at hb; exact utf8_ne_nil c hb.symm
  have hhigh : ∀ p ∈ hs, 0x80 ≤ (byteOf p.1 p.2).toNat := by
    intro p hp
    apply utf8_high hc
    rw [← hb]
    exact List.mem_map.2 ⟨p, hp, rfl⟩
  apply unquote_of_pieces U _ _ (tokens x) (hs.map fun p => Tok.esc p.1 p.2) [.raw c] (tokens y)
  · exact tokens_append_escStr x y hs hne hhex
  · rw [tokens_append_sep (nonascii_sep hc)]; simp
  · rw [itemsOf_escs U hA hs hhigh, hb, itemsOf_raw_high U hA c hc]

theorem isHexDigit_hexDigitUpper : ∀ n, n < 16 → isHexDigit (Quote.hexDigitUpper n) = true := by decide

/-- the upper-case spelling `quote` writes is such a spelling -/
theorem pctEncode_ok (c : Char) :
    (∀ p ∈ pctEncode c, isHexDigit p.1 = true ∧ isHexDigit p.2 = true) ∧
    (pctEncode c).map (fun p => byteOf p.1 p.2) = utf8 c := by
  constructor
  · intro p hp
    simp only [pctEncode, List.mem_map] at hp
    obtain ⟨b, _, rfl⟩ := hp
    have := b.toNat_lt
    exact ⟨isHexDigit_hexDigitUpper (b.toNat / 16) (by omega), isHexDigit_hexDigitUpper (b.toNat % 16) (by omega)⟩
  · simp only [pctEncode, List.map_map]
    conv => rhs; rw [← List.map_id (utf8 c)]
    apply List.map_congr_left
    intro b _
    exact byteOf_escOfByte b

/-- non-vacuity of the three laws on one string -/
example :
    safelyUnquote Gen.Quote.unsafeForPath "/%41%7e%20/%c3%A9".toList =
      safelyUnquote Gen.Quote.unsafeForPath "/A~ /é".toList ∧
    escStr (pctEncode 'é') = "%C3%A9".toList ∧
    keepEsc Gen.Quote.unsafeForPath (byteOf '4' '1') = false ∧ openPct "/".toList = false := by
  decide +kernel

/-! ## a substitution inside a component that is split further (`user:password`, `k=v&k=v`) -/

theorem cutFirst_eq_splitFirst (sep : Char) (s : Str) : cutFirst sep s = splitFirst s sep := by
  induction s with
  | nil => rw [splitFirst_nil_s20]; rfl
  | cons c cs ih =>
    rw [splitFirst_cons_s20]
    by_cases hc : c = sep
    · simp [cutFirst, hc]
    · simp [cutFirst, hc, ih]

/-- where a piece without separator ends up when the string around it is cut at the first
separator: in the second part, behind a suffix `v` of `x` — or in the first part, behind `x` -/
theorem splitFirst_subst_shape (sep : Char) (x y m1 m2 : Str) (h1 : sep ∉ m1) (h2 : sep ∉ m2) :
    (∃ k v, v <:+ x ∧ splitFirst (x ++ (m1 ++ y)) sep = (k, some (v ++ (m1 ++ y))) ∧
      splitFirst (x ++ (m2 ++ y)) sep = (k, some (v ++ (m2 ++ y)))) ∨
    (∃ s o, splitFirst (x ++ (m1 ++ y)) sep = (x ++ (m1 ++ s), o) ∧
      splitFirst (x ++ (m2 ++ y)) sep = (x ++ (m2 ++ s), o)) := by
  have hx := splitFirst_spec_s20 x sep
  generalize splitFirst x sep = r at hx
  obtain ⟨k, z⟩ := r
  cases z with
  | some v =>
    left
    obtain ⟨hk, rfl⟩ := hx
    refine ⟨k, v, ⟨k ++ [sep], by simp⟩, ?_, ?_⟩
    · rw [List.append_assoc, List.cons_append, splitFirst_append_sep_s20 _ _ _ hk]
    · rw [List.append_assoc, List.cons_append, splitFirst_append_sep_s20 _ _ _ hk]
  | none =>
    right
    obtain ⟨hk, rfl⟩ := hx
    refine ⟨(splitFirst y sep).1, (splitFirst y sep).2, ?_, ?_⟩
    · rw [splitFirst_append_left_s20 _ _ sep hk, splitFirst_append_left_s20 m1 _ sep h1]
    · rw [splitFirst_append_left_s20 _ _ sep hk, splitFirst_append_left_s20 m2 _ sep h2]

/-- … and when it is split at every separator: in one piece, behind a suffix `p` of `x` -/
theorem splitOn_subst_shape (sep : Char) (y m1 m2 : Str) (h1 : sep ∉ m1) (h2 : sep ∉ m2) :
    ∀ (x : Str), ∃ (A B : List Str) (p s : Str), (A = [] → p = x) ∧ p <:+ x ∧
      splitOn (x ++ (m1 ++ y)) sep = A ++ (p ++ (m1 ++ s)) :: B ∧
      splitOn (x ++ (m2 ++ y)) sep = A ++ (p ++ (m2 ++ s)) :: B
  | [] => by
    have hy := splitFirst_spec_s20 y sep
    cases hz : (splitFirst y sep).2 with
    | none =>
      rw [hz] at hy
      have hys : sep ∉ y := by rw [hy.2]; exact hy.1
      refine ⟨[], [], [], y, fun _ => rfl, List.suffix_refl _, ?_, ?_⟩
      · simp only [List.nil_append]
        exact splitOn_of_not_mem sep _ (by simp [h1, hys])
      · simp only [List.nil_append]
        exact splitOn_of_not_mem sep _ (by simp [h2, hys])
    | some v =>
      rw [hz] at hy
      refine ⟨[], splitOn v sep, [], (splitFirst y sep).1, fun _ => rfl, List.suffix_refl _, ?_, ?_⟩
      · simp only [List.nil_append]
        conv => lhs; rw [hy.2, ← List.append_assoc]
        exact splitOn_append_sep sep _ _ (by simp [h1, hy.1])
      · simp only [List.nil_append]
        conv => lhs; rw [hy.2, ← List.append_assoc]
        exact splitOn_append_sep sep _ _ (by simp [h2, hy.1])
  | c :: x => by
    obtain ⟨A, B, p, s, hA, hp, e1, e2⟩ := splitOn_subst_shape sep y m1 m2 h1 h2 x
    by_cases hc : c = sep
    · subst hc
      refine ⟨[] :: A, B, p, s, (fun h => by cases h), List.suffix_cons_iff.2 (Or.inr hp), ?_, ?_⟩
      · rw [List.cons_append, splitOn_cons_sep, e1]; rfl
      · rw [List.cons_append, splitOn_cons_sep, e2]; rfl
    · cases A with
      | nil =>
        have hpx := hA rfl
        subst hpx
        refine ⟨[], B, c :: p, s, fun _ => rfl, List.suffix_refl _, ?_, ?_⟩
        · rw [List.cons_append, splitOn_cons_ne _ _ _ hc, e1]; rfl
        · rw [List.cons_append, splitOn_cons_ne _ _ _ hc, e2]; rfl
      | cons a A' =>
        refine ⟨(c :: a) :: A', B, p, s, (fun h => by cases h), List.suffix_cons_iff.2 (Or.inr hp), ?_, ?_⟩
        · rw [List.cons_append, splitOn_cons_ne _ _ _ hc, e1]; rfl
        · rw [List.cons_append, splitOn_cons_ne _ _ _ hc, e2]; rfl

/-- `m1` and `m2` are interchangeable for the unquoter with unsafe set `U` behind every suffix
of `x` (what the three substitution laws give) -/
def Interch (U : List UInt8) (x m1 m2 : Str) : Prop :=
  ∀ p s, p <:+ x → safelyUnquote U (p ++ (m1 ++ s)) = safelyUnquote U (p ++ (m2 ++ s))

theorem openPct_suffix {p x : Str} (h : p <:+ x) (hx : openPct x = false) : openPct p = false := by
  obtain ⟨t, rfl⟩ := h
  induction t with
  | nil => exact hx
  | cons c r ih => exact ih (openPct_tail hx)

theorem interch_ascii (U : List UInt8) (hU : (0x25 : UInt8) ∈ U) (x : Str) (h1 h2 : Char)
    (hh1 : isHexDigit h1 = true) (hh2 : isHexDigit h2 = true)
    (hk : keepEsc U (byteOf h1 h2) = false) (hlt : (byteOf h1 h2).toNat < 0x80)
    (hctx : isHexDigit (Char.ofNat (byteOf h1 h2).toNat) = true → openPct x = false) :
    Interch U x ['%', h1, h2] [Char.ofNat (byteOf h1 h2).toNat] := by
  intro p s hp
  exact safelyUnquote_escaped_ascii U hU p s h1 h2 hh1 hh2 hk hlt (fun h => openPct_suffix hp (hctx h))

theorem interch_space (U : List UInt8) (x : Str) : Interch U x ['%', '2', '0'] [' '] :=
  fun p s _ => safelyUnquote_escaped_space U p s

theorem interch_utf8 (U : List UInt8) (hA : AsciiSet U) (x : Str) (c : Char)
    (hc : 0x80 ≤ c.toNat) (hs : List (Char × Char))
    (hhex : ∀ p ∈ hs, isHexDigit p.1 = true ∧ isHexDigit p.2 = true)
    (hb : hs.map (fun p => byteOf p.1 p.2) = utf8 c) : Interch U x (escStr hs) [c] :=
  fun p s _ => safelyUnquote_escaped_utf8 U hA p s c hc hs hhex hb

/-- the character an unquoter decodes is none of the bytes its table keeps escaped -/
theorem decoded_ne_of_mem {U : List UInt8} {b : UInt8} (hk : keepEsc U b = false) (hlt : b.toNat < 0x80)
    {d : Char} (hd : d.toNat < 0x80) (hm : UInt8.ofNat d.toNat ∈ U) : Char.ofNat b.toNat ≠ d := by
  intro e
  have hcn : (Char.ofNat b.toNat).toNat = b.toNat := toNat_ofNat_of_lt (by omega)
  have : b = UInt8.ofNat d.toNat := by
    apply uint8_eq_of_toNat
    rw [← hcn, e]
    simp; omega
  rw [this, keepEsc_of_mem hm] at hk
  cases hk

theorem not_mem_escStr {sep : Char} (hsep : sep ≠ '%' ∧ isHexDigit sep = false) (hs : List (Char × Char))
    (hhex : ∀ p ∈ hs, isHexDigit p.1 = true ∧ isHexDigit p.2 = true) : sep ∉ escStr hs := by
  intro hm
  simp only [escStr, List.mem_flatMap] at hm
  obtain ⟨p, hp, hm⟩ := hm
  have := hhex p hp
  simp only [List.mem_cons, List.not_mem_nil, or_false] at hm
  rcases hm with rfl | rfl | rfl
  · exact hsep.1 rfl
  · rw [this.1] at hsep; cases hsep.2
  · rw [this.2] at hsep; cases hsep.2

end Ural.C02String
