import UralModel.Lemmas.FacebookTotal
/-!
What a record returned by `parse_facebook_url` looks like (C19, "a well-formed record of the
documented type"): which fields are set, and that the fields documented as ids / handles are
told apart by the module's own validator `is_facebook_id`.
-/
namespace Ural.Facebook
open Ural.Py Ural

/-- the id / handle fields of the record agree with the module's validator: `group_id`,
`FacebookGroup.id` and the `parent_id` of a photo satisfy `is_facebook_id`; `group_handle`,
`parent_handle`, `FacebookGroup.handle` do not.  (The `parent_id` of a *post* is excluded: the
`permalink.php?story_fbid=…&id=…` route copies it from the query without validating it.) -/
def IdsValid : Parsed → Prop
  | .post _ _ ph gid gh =>
    (∀ g, gid = some g → is_facebook_id g = true) ∧ (∀ h, gh = some h → is_facebook_id h = false) ∧
    (∀ h, ph = some h → is_facebook_id h = false)
  | .group id h =>
    (∀ g, id = some g → is_facebook_id g = true) ∧ (∀ x, h = some x → is_facebook_id x = false)
  | .photo _ _ pid ph _ =>
    (∀ p, pid = some p → is_facebook_id p = true) ∧ (∀ h, ph = some h → is_facebook_id h = false)
  | _ => True

/-- which fields a record returned by the parser carries -/
def Shaped : Parsed → Prop
  | .user _ h => h = none
  | .handle _ => True
  | .group id h => (id.isSome ∧ h = none) ∨ (id = none ∧ h.isSome)
  | .post _ pid ph gid gh =>
    (pid.isSome ∧ ph = none ∧ gid = none ∧ gh = none) ∨ (pid = none ∧ ph.isSome ∧ gid = none ∧ gh = none) ∨
    (pid = none ∧ ph = none ∧ gid.isSome ∧ gh = none) ∨ (pid = none ∧ ph = none ∧ gid = none ∧ gh.isSome)
  | .video _ _ => True
  | .photo _ gid pid ph aid =>
    (pid = none ∧ ph = none) ∨
    (gid = none ∧ aid.isSome ∧ ((pid.isSome ∧ ph = none) ∨ (pid = none ∧ ph.isSome)))

def Good (r : Parsed) : Prop := IdsValid r ∧ Shaped r

local macro "route_good" : tactic =>
  `(tactic| (simp only [bind, Except.bind, pure, Except.pure, Functor.map, Except.map]
             repeat' split
             all_goals (intro hr; cases hr)
             all_goals simp_all [Good, IdsValid, Shaped]))

theorem routeWatch_good (query : Str) (r : Parsed) : routeWatch query = .ok (some r) → Good r := by
  unfold routeWatch
  by_cases h : qsHas (safe_parse_qs query) (lit "v") = true
  · have e0 := getIdx_of_lt _ 0 (qsValues_pos_of_has _ _ h)
    simp only [h, Bool.not_true, Bool.false_eq_true, if_false, qsItem_of_has, bind, Except.bind, e0]
    route_good
  · simp [h]

theorem routeVideos_good (path : Str) (r : Parsed) : routeVideos path = .ok (some r) → Good r := by
  unfold routeVideos
  by_cases h : (pathsplit path).length < 3
  · simp [h]
  · have e2 := getIdx_of_lt (pathsplit path) 2 (by omega)
    have e0 := getIdx_of_lt (pathsplit path) 0 (by omega)
    simp only [h, if_false, bind, Except.bind, e0, e2]
    route_good

theorem routePhotoQuery_good (query : Str) (r : Parsed) :
    routePhotoQuery query = .ok (some r) → Good r := by
  unfold routePhotoQuery
  by_cases h : qsHas (safe_parse_qs query) (lit "fbid") = true
  · have e0 := getIdx_of_lt _ 0 (qsValues_pos_of_has _ _ h)
    obtain ⟨ga, hga⟩ := photoSets_total (safe_parse_qs query)
    simp only [h, Bool.not_true, Bool.false_eq_true, if_false, hga, qsItem_of_has, bind, Except.bind, e0]
    route_good
  · simp [h]

theorem routePhotos_good (path : Str) (r : Parsed) : routePhotos path = .ok (some r) → Good r := by
  unfold routePhotos
  by_cases h : (pathsplit path).length < 4
  · simp [h]
  · have e0 := getIdx_of_lt (pathsplit path) 0 (by omega)
    have e2 := getIdx_of_lt (pathsplit path) 2 (by omega)
    have e3 := getIdx_of_lt (pathsplit path) 3 (by omega)
    simp only [h, if_false, bind, Except.bind, e0, e2, e3]
    route_good

theorem routePosts_good (path : Str) (r : Parsed) : routePosts path = .ok (some r) → Good r := by
  unfold routePosts
  by_cases h : (pathsplit path).length < 3
  · simp [h]
  · have e0 := getIdx_of_lt (pathsplit path) 0 (by omega)
    have e2 := getIdx_of_lt (pathsplit path) 2 (by omega)
    simp only [h, if_false, bind, Except.bind, e0, e2]
    by_cases h4 : (pathsplit path).length < 4
    · simp only [h4, if_true]
      route_good
    · have e1 := getIdx_of_lt (pathsplit path) 1 (by omega)
      have e3 := getIdx_of_lt (pathsplit path) 3 (by omega)
      simp only [h4, if_false, e1, e3]
      route_good

theorem routePermalink_good (query : Str) (r : Parsed) :
    routePermalink query = .ok (some r) → Good r := by
  unfold routePermalink
  simp only []
  cases h1 : qsGet (safe_parse_qs query) (lit "id") with
  | none => simp
  | some pid =>
    cases h2 : qsGet (safe_parse_qs query) (lit "story_fbid") with
    | none => simp
    | some sid =>
      have e1 := getIdx_of_lt _ 0 (qsGet_some_pos _ _ _ h1)
      have e2 := getIdx_of_lt _ 0 (qsGet_some_pos _ _ _ h2)
      simp only [bind, Except.bind, e1, e2]
      route_good

theorem routeGroups_good (path : Str) (r : Parsed) : routeGroups path = .ok (some r) → Good r := by
  unfold routeGroups
  by_cases h : (pathsplit path).length < 2
  · simp [h]
  · have e1 := getIdx_of_lt (pathsplit path) 1 (by omega)
    simp only [h, if_false, bind, Except.bind, e1]
    by_cases h4 : (pathsplit path).length < 4
    · simp only [h4, if_true]
      route_good
    · have e3 := getIdx_of_lt (pathsplit path) 3 (by omega)
      simp only [h4, if_false, e3]
      route_good

theorem routeProfile_good (query : Str) (r : Parsed) : routeProfile query = .ok (some r) → Good r := by
  unfold routeProfile
  simp only []
  cases h1 : qsGet (safe_parse_qs query) (lit "id") with
  | none => simp
  | some uid =>
    have e1 := getIdx_of_lt _ 0 (qsGet_some_pos _ _ _ h1)
    simp only [bind, Except.bind, e1]
    route_good

theorem routePeople_good (path : Str) (r : Parsed) : routePeople path = .ok (some r) → Good r := by
  unfold routePeople
  by_cases h : (pathsplit path).length < 3
  · simp [h]
  · have e2 := getIdx_of_lt (pathsplit path) 2 (by omega)
    simp only [h, if_false, bind, Except.bind, e2]
    route_good

theorem routeHandle_good (path : Str) (r : Parsed) : routeHandle path = .ok (some r) → Good r := by
  unfold routeHandle
  by_cases h : (pathsplit path).isEmpty = true
  · simp [h]
  · have hl : 0 < (pathsplit path).length := by
      cases hp : pathsplit path with
      | nil => simp [hp] at h
      | cons x xs => simp
    have e0 := getIdx_of_lt (pathsplit path) 0 hl
    simp only [h, Bool.false_eq_true, if_false, bind, Except.bind, e0]
    route_good

theorem parseSplit_good (sp : SplitResult) (r : Parsed) : parseSplit sp = .ok (some r) → Good r := by
  unfold parseSplit
  simp only
  split
  · intro h; cases h
  split
  · exact routeWatch_good _ r
  split
  · exact routeVideos_good _ r
  split
  · exact routePhotoQuery_good _ r
  split
  · exact routePhotos_good _ r
  split
  · exact routePosts_good _ r
  split
  · exact routePermalink_good _ r
  split
  · exact routeGroups_good _ r
  split
  · exact routeProfile_good _ r
  split
  · exact routePeople_good _ r
  · exact routeHandle_good _ r

/-- the url `parse_facebook_url` goes on with (`none`: it returns `None` at once) -/
def resolved (url : Str) (rel : Bool) : Option Str :=
  if rel && !startsWith url (lit "http://") && !startsWith url (lit "https://") &&
      !contains url (lit "facebook.") then urljoin BASE url
  else if isFacebookUrlB url then some url else none

theorem resolveUrl_eq (url : Str) (rel : Bool) : resolveUrl url rel = .ok (resolved url rel) := by
  unfold resolveUrl resolved
  by_cases hc : (rel && !startsWith url (lit "http://") && !startsWith url (lit "https://") &&
      !contains url (lit "facebook.")) = true
  · simp only [hc, if_true]
  · simp only [hc, Bool.false_eq_true, if_false]
    rw [is_facebook_url_eq]
    rfl

/-- what `parse_facebook_url` computes, once the exceptions that cannot happen are out of the
way: the routing of the split url it resolved, repeated slashes of the path collapsed -/
theorem parse_facebook_url_eq (url : Str) (rel : Bool) :
    parse_facebook_url url rel =
      match resolved url rel with
      | none => .ok none
      | some u =>
        match safe_urlsplit u with
        | none => .ok none
        | some sp => parseSplit (squeezePath sp) := by
  unfold parse_facebook_url
  rw [resolveUrl_eq]
  cases resolved url rel with
  | none => rfl
  | some u =>
    simp only
    rw [catchValueError_safeUrlsplit]
    cases safe_urlsplit u <;> rfl

theorem parse_facebook_url_good (url : Str) (rel : Bool) (r : Parsed)
    (h : parse_facebook_url url rel = .ok (some r)) : Good r := by
  rw [parse_facebook_url_eq] at h
  split at h
  · cases h
  · split at h
    · cases h
    · exact parseSplit_good _ r h

end Ural.Facebook
