import UralModel.Lemmas.LruStems
/-!
# Prefix lemmas for C13: tag groups, terminated serialisation, labels of a subdomain
-/
namespace Ural.Lru
open Ural Ural.Py

/-! ## generic -/

theorem map_prefix_of_injective {α β : Type} (f : α → β) (hf : ∀ a b, f a = f b → a = b)
    {l₁ l₂ : List α} : l₁.map f <+: l₂.map f ↔ l₁ <+: l₂ := by
  constructor
  · induction l₁ generalizing l₂ with
    | nil => intro _; exact List.nil_prefix
    | cons a as ih =>
      intro h
      cases l₂ with
      | nil => simp at h
      | cons b bs =>
        simp only [List.map_cons, List.cons_prefix_cons] at h ⊢
        exact ⟨hf _ _ h.1, ih h.2⟩
  · exact fun h => h.map f

/-- **one tag group**: if the lists are `A ++ B` with every tag of the `A`s equal to `x` and
no tag of the `B`s equal to `x`, the prefix relation splits -/
theorem prefix_group {x : Char} {A1 A2 B1 B2 : List TStem}
    (hA1 : ∀ t ∈ A1, t.1 = x) (hA2 : ∀ t ∈ A2, t.1 = x)
    (hB1 : ∀ t ∈ B1, t.1 ≠ x) (hB2 : ∀ t ∈ B2, t.1 ≠ x) :
    A1 ++ B1 <+: A2 ++ B2 ↔ (A1 = A2 ∧ B1 <+: B2) ∨ (B1 = [] ∧ A1 <+: A2) := by
  induction A1 generalizing A2 with
  | nil =>
    cases B1 with
    | nil => simp
    | cons b B1' =>
      have hb : b.1 ≠ x := hB1 b (by simp)
      cases A2 with
      | nil => simp
      | cons a A2' =>
        have ha : a.1 = x := hA2 a (by simp)
        simp only [List.nil_append, List.cons_append, List.cons_prefix_cons]
        constructor
        · rintro ⟨e, _⟩; exact absurd (e ▸ ha) hb
        · rintro (⟨e, _⟩ | ⟨e, _⟩) <;> simp at e
  | cons a A1' ih =>
    have ha : a.1 = x := hA1 a (by simp)
    cases A2 with
    | nil =>
      cases B2 with
      | nil => simp
      | cons b B2' =>
        have hb : b.1 ≠ x := hB2 b (by simp)
        simp only [List.nil_append, List.cons_append, List.cons_prefix_cons]
        constructor
        · rintro ⟨e, _⟩; exact absurd (e ▸ ha) hb
        · rintro (⟨e, _⟩ | ⟨_, e⟩) <;> simp at e
    | cons a2 A2' =>
      have := ih (A2 := A2') (fun t ht => hA1 t (by simp [ht])) (fun t ht => hA2 t (by simp [ht]))
      simp only [List.cons_append, List.cons_prefix_cons, this, List.cons.injEq]
      constructor
      · rintro ⟨rfl, h | h⟩
        · exact Or.inl ⟨⟨rfl, h.1⟩, h.2⟩
        · exact Or.inr ⟨h.1, rfl, h.2⟩
      · rintro (⟨⟨rfl, h1⟩, h2⟩ | ⟨h1, rfl, h2⟩)
        · exact ⟨rfl, Or.inl ⟨h1, h2⟩⟩
        · exact ⟨rfl, Or.inr ⟨h1, h2⟩⟩

/-! ## serialisation and prefixes -/

theorem serializeLru_eq_flatMap {stems : List Str} (h : stems ≠ []) :
    serializeLru stems = stems.flatMap (· ++ ['|']) := by
  unfold serializeLru
  induction stems with
  | nil => exact absurd rfl h
  | cons x xs ih =>
    cases xs with
    | nil => simp [joinChar]
    | cons y ys =>
      have := ih (by simp)
      rw [joinChar_cons _ _ (by simp), List.flatMap_cons, ← this]
      simp

theorem prefix_sep {sep : Char} {a b X Y : Str} (ha : sep ∉ a) (hb : sep ∉ b) :
    a ++ sep :: X <+: b ++ sep :: Y ↔ a = b ∧ X <+: Y := by
  induction a generalizing b with
  | nil =>
    cases b with
    | nil => simp [List.cons_prefix_cons]
    | cons c cs =>
      simp only [List.nil_append, List.cons_append, List.cons_prefix_cons]
      constructor
      · rintro ⟨e, _⟩; subst e; simp at hb
      · rintro ⟨e, _⟩; simp at e
  | cons c cs ih =>
    simp only [List.mem_cons, not_or] at ha
    cases b with
    | nil =>
      simp only [List.nil_append, List.cons_append, List.cons_prefix_cons]
      constructor
      · rintro ⟨e, _⟩; exact absurd e.symm ha.1
      · rintro ⟨e, _⟩; simp at e
    | cons d ds =>
      simp only [List.mem_cons, not_or] at hb
      simp only [List.cons_append, List.cons_prefix_cons, ih ha.2 hb.2, List.cons.injEq]
      constructor
      · rintro ⟨rfl, rfl, h⟩; exact ⟨⟨rfl, rfl⟩, h⟩
      · rintro ⟨⟨rfl, rfl⟩, h⟩; exact ⟨rfl, rfl, h⟩

/-- with the `|` terminator after every stem, stem-list prefix is string prefix -/
theorem flatMap_bar_prefix_iff {A B : List Str} (hA : ∀ a ∈ A, '|' ∉ a) (hB : ∀ b ∈ B, '|' ∉ b) :
    A.flatMap (· ++ ['|']) <+: B.flatMap (· ++ ['|']) ↔ A <+: B := by
  induction A generalizing B with
  | nil => simp
  | cons a A' ih =>
    cases B with
    | nil => simp
    | cons b B' =>
      simp only [List.flatMap_cons, List.append_assoc, List.singleton_append, List.cons_prefix_cons]
      rw [prefix_sep (hA a (by simp)) (hB b (by simp)),
        ih (fun x hx => hA x (by simp [hx])) (fun x hx => hB x (by simp [hx]))]

/-! ## labels -/

theorem joinChar_append (sep : Char) {l₁ l₂ : List Str} (h1 : l₁ ≠ []) (h2 : l₂ ≠ []) :
    joinChar sep (l₁ ++ l₂) = joinChar sep l₁ ++ sep :: joinChar sep l₂ := by
  induction l₁ with
  | nil => exact absurd rfl h1
  | cons x xs ih =>
    cases xs with
    | nil =>
      simp only [List.singleton_append, joinChar]
      exact joinChar_cons _ _ h2
    | cons y ys =>
      have := ih (by simp)
      simp only [List.cons_append] at this ⊢
      simp only [joinChar]
      rw [this]; simp

theorem strictSub_iff {hu hv : Str} : strictSub hu hv = true ↔ ∃ pre, hv = pre ++ '.' :: hu := by
  unfold strictSub
  rw [List.isSuffixOf_iff_suffix]
  constructor
  · rintro ⟨pre, h⟩; exact ⟨pre, h.symm⟩
  · rintro ⟨pre, h⟩; exact ⟨pre, h.symm⟩

/-- a list of host values extending another one re-joins to a whole-label subdomain -/
theorem join_reverse_of_prefix {V1 V2 : List Str} (h : V1 <+: V2) (h1 : V1 ≠ []) :
    joinChar '.' V2.reverse = joinChar '.' V1.reverse ∨
      ∃ pre, joinChar '.' V2.reverse = pre ++ '.' :: joinChar '.' V1.reverse := by
  obtain ⟨X, rfl⟩ := h
  by_cases hX : X = []
  · left; simp [hX]
  · right
    refine ⟨joinChar '.' X.reverse, ?_⟩
    rw [List.reverse_append, joinChar_append _ (by simpa using hX) (by simpa using h1)]

theorem labelStems_sub (pre hu : Str) :
    labelStems (pre ++ '.' :: hu) = labelStems hu ++ labelStems pre := by
  simp [labelStems, splitChar_append_sep]

end Ural.Lru
