import UralModel.Lemmas.FacebookStr
/-!
Totality of the routes of `parse_facebook_url` (C19): every positional access (`getIdx`) and
every `dict` subscription (`qsItem`) of the model is dominated by a guard.
-/
namespace Ural.Facebook
open Ural.Py Ural

theorem getIdx_of_lt {α : Type} (xs : List α) (i : Nat) (h : i < xs.length) :
    getIdx xs i = .ok xs[i] := by
  unfold getIdx
  rw [List.getElem?_eq_getElem h]

theorem getIdx_ok_iff {α : Type} (xs : List α) (i : Nat) (x : α) :
    getIdx xs i = .ok x ↔ xs[i]? = some x := by
  unfold getIdx
  cases h : xs[i]? with
  | none => simp
  | some y => simp

theorem getLastIdx_of_ne_nil {α : Type} (xs : List α) (h : xs ≠ []) :
    getLastIdx xs = .ok (xs.getLast h) := by
  unfold getLastIdx
  rw [List.getLast?_eq_some_getLast h]

theorem qsItem_of_has (q : List (Str × Str)) (k : Str) (h : qsHas q k = true) :
    qsItem q k = .ok (qsValues q k) := by
  simp [qsItem, h]

theorem qsValues_pos_of_has (q : List (Str × Str)) (k : Str) (h : qsHas q k = true) :
    0 < (qsValues q k).length := by
  unfold qsHas at h
  cases hv : qsValues q k with
  | nil => simp [hv] at h
  | cons x xs => simp

theorem qsGet_some_pos (q : List (Str × Str)) (k : Str) (vs : List Str) (h : qsGet q k = some vs) :
    0 < vs.length := by
  unfold qsGet at h
  by_cases hh : qsHas q k = true
  · simp only [hh, if_true, Option.some.injEq] at h
    rw [← h]; exact qsValues_pos_of_has q k hh
  · simp [hh] at h

/-- the `split(p, 1)[1]` of the photo route never fails: the string it is applied to starts
with `p` -/
theorem setId_total (sets : List Str) (p : Str) : ∃ r, setId sets p = .ok r := by
  unfold setId
  cases hf : firstWithPrefix sets p with
  | none => exact ⟨none, rfl⟩
  | some x =>
    simp only
    by_cases hx : x.isEmpty = true
    · exact ⟨some x, by simp [hx]⟩
    · have hs : startsWith x p = true := by
        unfold firstWithPrefix at hf
        exact List.find?_some (p := fun y => startsWith y p) hf
      have hl := splitStr1_length_of_startsWith x p hs
      rw [if_neg hx, getIdx_of_lt _ 1 (by omega)]
      exact ⟨_, rfl⟩

theorem photoSets_total (q : List (Str × Str)) : ∃ r, photoSets q = .ok r := by
  unfold photoSets
  by_cases h : qsHas q (lit "set") = true
  · obtain ⟨g, hg⟩ := setId_total (qsValues q (lit "set")) (lit "g.")
    obtain ⟨a, ha⟩ := setId_total (qsValues q (lit "set")) (lit "a.")
    refine ⟨(g, a), ?_⟩
    simp [h, qsItem_of_has, hg, ha, bind, Except.bind, pure, Except.pure]
  · exact ⟨(none, none), by simp [h, pure, Except.pure]⟩

/-- closes `∃ r, (computation whose accesses are all rewritten to `.ok`) = .ok r` -/
local macro "route_done" : tactic =>
  `(tactic| (simp only [bind, Except.bind, pure, Except.pure, Functor.map, Except.map]
             repeat' split
             all_goals exact ⟨_, rfl⟩))

theorem routeWatch_total (query : Str) : ∃ r, routeWatch query = .ok r := by
  unfold routeWatch
  by_cases h : qsHas (safe_parse_qs query) (lit "v") = true
  · have hp := qsValues_pos_of_has _ _ h
    have e0 := getIdx_of_lt _ 0 hp
    simp only [h, Bool.not_true, Bool.false_eq_true, if_false, qsItem_of_has, bind, Except.bind, e0]
    route_done
  · exact ⟨none, by simp [h]⟩

theorem routeVideos_total (path : Str) : ∃ r, routeVideos path = .ok r := by
  unfold routeVideos
  by_cases h : (pathsplit path).length < 3
  · exact ⟨none, by simp [h]⟩
  · have e2 := getIdx_of_lt (pathsplit path) 2 (by omega)
    have e0 := getIdx_of_lt (pathsplit path) 0 (by omega)
    simp only [h, if_false, bind, Except.bind, e0, e2]
    route_done

theorem routePhotoQuery_total (query : Str) : ∃ r, routePhotoQuery query = .ok r := by
  unfold routePhotoQuery
  by_cases h : qsHas (safe_parse_qs query) (lit "fbid") = true
  · have hp := qsValues_pos_of_has _ _ h
    have e0 := getIdx_of_lt _ 0 hp
    obtain ⟨ga, hga⟩ := photoSets_total (safe_parse_qs query)
    simp only [h, Bool.not_true, Bool.false_eq_true, if_false, hga, qsItem_of_has, bind, Except.bind, e0]
    route_done
  · exact ⟨none, by simp [h]⟩

theorem routePhotos_total (path : Str) : ∃ r, routePhotos path = .ok r := by
  unfold routePhotos
  by_cases h : (pathsplit path).length < 4
  · exact ⟨none, by simp [h]⟩
  · have e0 := getIdx_of_lt (pathsplit path) 0 (by omega)
    have e2 := getIdx_of_lt (pathsplit path) 2 (by omega)
    have e3 := getIdx_of_lt (pathsplit path) 3 (by omega)
    simp only [h, if_false, bind, Except.bind, e0, e2, e3]
    route_done

theorem routePosts_total (path : Str) : ∃ r, routePosts path = .ok r := by
  unfold routePosts
  by_cases h : (pathsplit path).length < 3
  · exact ⟨none, by simp [h]⟩
  · have e0 := getIdx_of_lt (pathsplit path) 0 (by omega)
    have e2 := getIdx_of_lt (pathsplit path) 2 (by omega)
    simp only [h, if_false, bind, Except.bind, e0, e2]
    by_cases h4 : (pathsplit path).length < 4
    · simp only [h4, if_true]
      route_done
    · have e1 := getIdx_of_lt (pathsplit path) 1 (by omega)
      have e3 := getIdx_of_lt (pathsplit path) 3 (by omega)
      simp only [h4, if_false, e1, e3]
      route_done

theorem routePermalink_total (query : Str) : ∃ r, routePermalink query = .ok r := by
  unfold routePermalink
  simp only []
  cases h1 : qsGet (safe_parse_qs query) (lit "id") with
  | none => exact ⟨none, rfl⟩
  | some pid =>
    cases h2 : qsGet (safe_parse_qs query) (lit "story_fbid") with
    | none => exact ⟨none, rfl⟩
    | some sid =>
      have e1 := getIdx_of_lt _ 0 (qsGet_some_pos _ _ _ h1)
      have e2 := getIdx_of_lt _ 0 (qsGet_some_pos _ _ _ h2)
      simp only [bind, Except.bind, e1, e2]
      route_done

theorem routeGroups_total (path : Str) : ∃ r, routeGroups path = .ok r := by
  unfold routeGroups
  by_cases h : (pathsplit path).length < 2
  · exact ⟨none, by simp [h]⟩
  · have e1 := getIdx_of_lt (pathsplit path) 1 (by omega)
    simp only [h, if_false, bind, Except.bind, e1]
    by_cases h4 : (pathsplit path).length < 4
    · simp only [h4, if_true]
      route_done
    · have e3 := getIdx_of_lt (pathsplit path) 3 (by omega)
      simp only [h4, if_false, e3]
      route_done

theorem routeProfile_total (query : Str) : ∃ r, routeProfile query = .ok r := by
  unfold routeProfile
  simp only []
  cases h1 : qsGet (safe_parse_qs query) (lit "id") with
  | none => exact ⟨none, rfl⟩
  | some uid =>
    have e1 := getIdx_of_lt _ 0 (qsGet_some_pos _ _ _ h1)
    simp only [bind, Except.bind, e1]
    route_done

theorem routePeople_total (path : Str) : ∃ r, routePeople path = .ok r := by
  unfold routePeople
  by_cases h : (pathsplit path).length < 3
  · exact ⟨none, by simp [h]⟩
  · have e2 := getIdx_of_lt (pathsplit path) 2 (by omega)
    simp only [h, if_false, bind, Except.bind, e2]
    route_done

theorem routeHandle_total (path : Str) : ∃ r, routeHandle path = .ok r := by
  unfold routeHandle
  by_cases h : (pathsplit path).isEmpty = true
  · exact ⟨none, by simp [h]⟩
  · have hl : 0 < (pathsplit path).length := by
      cases hp : pathsplit path with
      | nil => simp [hp] at h
      | cons x xs => simp
    have e0 := getIdx_of_lt (pathsplit path) 0 hl
    simp only [h, Bool.false_eq_true, if_false, bind, Except.bind, e0]
    route_done

theorem parseSplit_total (sp : SplitResult) : ∃ r, parseSplit sp = .ok r := by
  unfold parseSplit
  simp only
  split
  · exact ⟨none, rfl⟩
  split
  · exact routeWatch_total _
  split
  · exact routeVideos_total _
  split
  · exact routePhotoQuery_total _
  split
  · exact routePhotos_total _
  split
  · exact routePosts_total _
  split
  · exact routePermalink_total _
  split
  · exact routeGroups_total _
  split
  · exact routeProfile_total _
  split
  · exact routePeople_total _
  · exact routeHandle_total _

/-! ## the `try … except ValueError` wrappers -/

theorem catchValueError_safeUrlsplit {α : Type} (url : Str) (f : SplitResult → α) (h : α) :
    catchValueError ((safeUrlsplitE url).map f) h =
      .ok (match safe_urlsplit url with | some r => f r | none => h) := by
  unfold safeUrlsplitE catchValueError
  cases safe_urlsplit url <;> rfl

/-- `get_hostname` never raises, and what it returns -/
theorem get_hostname_eq (url : Str) :
    get_hostname url = .ok (match safe_urlsplit url with | some r => hostnameOf r | none => none) :=
  catchValueError_safeUrlsplit url hostnameOf none

/-- `is_facebook_url` as a plain boolean -/
def isFacebookUrlB (url : Str) : Bool :=
  match safe_urlsplit url with
  | some r =>
    (match hostnameOf r with
     | some h => reSearch Gen.C19Facebook.FACEBOOK_DOMAIN_RE h
     | none => false)
  | none => false

theorem is_facebook_url_eq (url : Str) : is_facebook_url url = .ok (isFacebookUrlB url) := by
  unfold is_facebook_url isFacebookUrlB
  rw [get_hostname_eq]
  cases safe_urlsplit url with
  | none => rfl
  | some r => cases h : hostnameOf r <;> simp [Except.map, h]

theorem resolveUrl_total (url : Str) (rel : Bool) : ∃ r, resolveUrl url rel = .ok r := by
  unfold resolveUrl
  split
  · exact ⟨_, rfl⟩
  · rw [is_facebook_url_eq]; exact ⟨_, rfl⟩

end Ural.Facebook
