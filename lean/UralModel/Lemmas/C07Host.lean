import UralModel.Model.C07
import UralModel.Lemmas.IsUrl
import UralModel.Lemmas.HostTok
/-!
# C07: the hostname pass of `normalize_url` is `normalize_hostname`

`normHost` (normalize_url.py lines 285-287, 360-366, 377-383, seen from the hostname the parser
returned) and `normalizeHostname` (`normalize_hostname`, lines 150-170) run the same four steps
— decode punycode + lower, drop irrelevant labels, cut a leading `amp-` and decode again —
after `normalize_hostname` has cleaned its argument (`strip`, `lower`, control characters).  On a
hostname that this cleaning leaves alone the two are the same function.
-/
namespace Ural.C07
open Ural.Py Ural.UrlParts Ural.Normalize

/-- a hostname `normalize_hostname`'s own cleaning leaves alone: no leading/trailing whitespace,
lower-case, no control character.  What `SplitResult.hostname` returns for a URL string that was
cleaned (`CONTROL_CHARS_RE`, `strip`) has the last two properties (the accessor lower-cases
everything but an IPv6 zone id); the first one is the reading of C07 (DESIGN §6). -/
def CleanHost (h : Str) : Prop := stripControl (lower (strip h)) = h

instance (h : Str) : Decidable (CleanHost h) := by unfold CleanHost; infer_instance

theorem cleanHost_nil : CleanHost [] := by decide

theorem subdomainSub_nil (amp : Bool) : subdomainSub amp [] = [] := rfl

/-- **core of the two hostname claims**: on a clean hostname the hostname pass of
`normalize_url` (irrelevant subdomains stripped, `normalize_amp` as given) is
`normalize_hostname`.  No assumption on the punycode decoder. -/
theorem normHost_eq_normalizeHostname (puny : Str → Str) (o : Opts)
    (hs : o.stripIrrelevantSubdomains = true) (h : Str) (hc : CleanHost h) :
    normHost puny o h = normalizeHostname puny o.normalizeAmp h := by
  unfold normalizeHostname
  rw [show stripControl (lower (strip h)) = h from hc]
  unfold normHost
  by_cases he : h = []
  · subst he
    cases o.normalizeAmp <;> rfl
  · have he' : h.isEmpty = false := by
      cases h with
      | nil => exact absurd rfl he
      | cons _ _ => rfl
    simp only [he', hs, Bool.and_true]
    by_cases h1 : lower (decodePunycodeHostname puny h) = []
    · simp [h1, subdomainSub_nil]
    · have : (lower (decodePunycodeHostname puny h)).isEmpty = false := by
        cases hx : lower (decodePunycodeHostname puny h) with
        | nil => exact absurd hx h1
        | cons _ _ => rfl
      simp [this]

/-- the same for the options of the quantifier (`normalize_amp` given, the other defaults) -/
theorem normHost_ampOpts (puny : Str → Str) (amp : Bool) (h : Str) (hc : CleanHost h) :
    normHost puny (ampOpts amp) h = normalizeHostname puny amp h :=
  normHost_eq_normalizeHostname puny (ampOpts amp) rfl h hc

/-- and for the options `fingerprint_url` passes -/
theorem normHost_fpOpts (puny : Str → Str) (h : Str) (hc : CleanHost h) :
    normHost puny Fingerprint.fpOpts h = normalizeHostname puny true h :=
  normHost_eq_normalizeHostname puny Fingerprint.fpOpts rfl h hc

end Ural.C07
