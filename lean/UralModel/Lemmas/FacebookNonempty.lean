import UralModel.Lemmas.FacebookShapes
/-!
No record returned by `parse_facebook_url` carries an empty string (C19, `ural/facebook.py`):

* the parser collapses repeated slashes before routing, so `pathsplit` returns non-empty
  segments (`pathsplit_seg_ne_nil`);
* `parse_qs` drops blank values and `unquote` keeps a non-empty value non-empty
  (`parse_qsl_values_ne_nil`);
* an empty set id (`set=g.`) is `None`, an empty album segment (`/photos/a./…`) is no photo.

Also: how a path that starts with one slash decomposes into its segments (`pathsplit_decomp`),
used by the bridge to the round-trip hypothesis.
-/
namespace Ural.Facebook
open Ural.Py Ural

/-! ## a path contains its segments, slashes included -/

theorem rstrip_prefix (p : Char → Bool) (y : Str) : ∃ suf, y = (y.reverse.dropWhile p).reverse ++ suf := by
  refine ⟨(y.reverse.takeWhile p).reverse, ?_⟩
  rw [← List.reverse_append, List.takeWhile_append_dropWhile, List.reverse_reverse]

theorem hasInfix_mono (a s b x : Str) (h : hasInfix s x = true) : hasInfix (a ++ s ++ b) x = true := by
  obtain ⟨c, d, hcd⟩ := (hasInfix_iff s x).mp h
  exact (hasInfix_iff _ x).mpr ⟨a ++ c, d ++ b, by rw [hcd]; simp⟩

theorem hasInfix_of_infix (a s b x : Str) (h : hasInfix (a ++ s ++ b) x = false) : hasInfix s x = false := by
  cases hs : hasInfix s x with
  | false => rfl
  | true =>
    have := hasInfix_mono a s b x hs
    rw [h] at this
    cases this

/-- what `pathsplit` splits is a piece of the path -/
theorem core_infix (path : Str) : ∃ a b, path = a ++ stripChars (strip path) ['/'] ++ b := by
  have h1 : path = path.takeWhile isSpace ++ lstrip path := by
    unfold lstrip; exact (List.takeWhile_append_dropWhile).symm
  obtain ⟨w2, h2⟩ := rstrip_prefix isSpace (lstrip path)
  have h2' : lstrip path = strip path ++ w2 := h2
  obtain ⟨pre, h3, _⟩ := lstripChars_suffix_s20 (strip path) ['/']
  obtain ⟨suf, h4⟩ := rstripChars_prefix (lstripChars (strip path) ['/']) ['/']
  have h4' : lstripChars (strip path) ['/'] = stripChars (strip path) ['/'] ++ suf := h4
  refine ⟨path.takeWhile isSpace ++ pre, suf ++ w2, ?_⟩
  calc path = path.takeWhile isSpace ++ lstrip path := h1
    _ = path.takeWhile isSpace ++ (strip path ++ w2) := by rw [← h2']
    _ = path.takeWhile isSpace ++ ((pre ++ lstripChars (strip path) ['/']) ++ w2) := by rw [← h3]
    _ = path.takeWhile isSpace ++ ((pre ++ (stripChars (strip path) ['/'] ++ suf)) ++ w2) := by rw [← h4']
    _ = _ := by simp

/-- **a path without `//` has no empty segment** -/
theorem pathsplit_seg_ne_nil (path : Str) (hnd : hasInfix path dblSlash = false) :
    ∀ x ∈ pathsplit path, x ≠ [] := by
  obtain ⟨a, b, hab⟩ := core_infix path
  have hcnd : hasInfix (stripChars (strip path) ['/']) dblSlash = false := by
    rw [hab] at hnd; exact hasInfix_of_infix a _ b _ hnd
  unfold pathsplit
  simp only []
  split
  · simp
  · rename_i hne
    have hhead : (stripChars (strip path) ['/']).head? ≠ some '/' := by
      intro e
      obtain ⟨suf, hsuf⟩ := rstripChars_prefix (lstripChars (strip path) ['/']) ['/']
      cases hc : stripChars (strip path) ['/'] with
      | nil => exact hne hc
      | cons c rest =>
        rw [hc] at e
        simp only [List.head?_cons, Option.some.injEq] at e
        have hc' : rstripChars (lstripChars (strip path) ['/']) ['/'] = c :: rest := hc
        rw [hc'] at hsuf
        exact lstripChars_head_s20 _ _ _ _ hsuf (by simp [e])
    have hlast : (stripChars (strip path) ['/']).getLast? ≠ some '/' := by
      intro e
      obtain ⟨ys, hys⟩ := List.getLast?_eq_some_iff.mp e
      exact rstripChars_last_s20 _ _ _ _ hys (by simp)
    have htail := splitOn_tail_ne_nil _ hcnd hlast
    have hhd := splitOn_head_ne_nil _ hne hhead
    intro x hx
    cases hs : splitOn (stripChars (strip path) ['/']) '/' with
    | nil => rw [hs] at hx; simp at hx
    | cons p ps =>
      rw [hs] at hx htail hhd
      simp only [List.mem_cons] at hx
      rcases hx with hx | hx
      · rw [hx]; exact hhd p rfl
      · exact htail x (by simpa using hx)

/-- a path that starts with `/` and has segments is `/…/ + "/" + "/".join(segments) + …`: what
precedes is made of slashes -/
theorem pathsplit_decomp (path : Str) (hhead : path.head? = some '/') (hne : pathsplit path ≠ []) :
    ∃ a b, path = a ++ slashed (pathsplit path) ++ b ∧ ∀ c ∈ a, c = '/' := by
  obtain ⟨t, ht⟩ : ∃ t, path = '/' :: t := by
    cases path with
    | nil => simp at hhead
    | cons c t => simp at hhead; exact ⟨t, by rw [hhead]⟩
  -- strip(): nothing on the left
  have hl : lstrip path = path := by
    unfold lstrip
    rw [ht, List.dropWhile_cons_of_neg (by decide)]
  obtain ⟨ws, hws⟩ := rstrip_prefix isSpace path
  have hs1 : strip path = (path.reverse.dropWhile isSpace).reverse := by
    unfold strip rstrip; rw [hl]
  -- the stripped path still starts with the slash
  have hs1head : ∃ t', strip path = '/' :: t' := by
    rw [hs1, ht]
    have : ('/' :: t).reverse = t.reverse ++ ['/'] := by simp
    rw [this]
    have hdw : ∃ k, (t.reverse ++ ['/']).dropWhile isSpace = k ++ ['/'] := by
      generalize t.reverse = l
      induction l with
      | nil => exact ⟨[], by rw [List.nil_append, List.dropWhile_cons_of_neg (by decide)]⟩
      | cons x xs ih =>
        by_cases hx : isSpace x = true
        · rw [List.cons_append, List.dropWhile_cons_of_pos hx]; exact ih
        · rw [List.cons_append, List.dropWhile_cons_of_neg hx]; exact ⟨x :: xs, rfl⟩
    obtain ⟨k, hk⟩ := hdw
    rw [hk]
    exact ⟨k.reverse, by simp⟩
  obtain ⟨t', ht'⟩ := hs1head
  -- strip("/")
  have hcore : stripChars (strip path) ['/'] ≠ [] := by
    intro e
    apply hne
    unfold pathsplit
    simp [e]
  have hparts : pathsplit path = splitOn (stripChars (strip path) ['/']) '/' := by
    unfold pathsplit
    simp [hcore]
  generalize hs1def : strip path = s1 at hs1 ht' hcore hparts
  have hcoredef : stripChars s1 ['/'] = rstripChars (lstripChars s1 ['/']) ['/'] := rfl
  generalize hm : lstripChars s1 ['/'] = m at hcoredef
  obtain ⟨suf2, hsuf2⟩ := rstripChars_prefix m ['/']
  -- the leading slashes
  have hsl : ∃ pre, s1 = pre ++ '/' :: m ∧ ∀ c ∈ pre, c = '/' := by
    have hsplit : s1 = s1.takeWhile (fun x => ['/'].contains x) ++ m := by
      rw [← hm]; unfold lstripChars; exact (List.takeWhile_append_dropWhile).symm
    have hall : ∀ c ∈ s1.takeWhile (fun x => ['/'].contains x), c = '/' := by
      intro c hc
      have := mem_takeWhile_s20 _ _ c hc
      simpa using this
    have hne' : s1.takeWhile (fun x => ['/'].contains x) ≠ [] := by
      rw [ht', List.takeWhile_cons_of_pos (by simp)]; simp
    obtain ⟨pre, last, hpl⟩ : ∃ pre last, s1.takeWhile (fun x => ['/'].contains x) = pre ++ [last] :=
      ⟨_, _, (List.dropLast_concat_getLast hne').symm⟩
    have hlast : last = '/' := hall last (by rw [hpl]; simp)
    refine ⟨pre, ?_, fun c hc => hall c (by rw [hpl]; simp [hc])⟩
    rw [hpl, hlast] at hsplit
    rw [hsplit]
    simp
  obtain ⟨pre, hpre, hpreall⟩ := hsl
  have hjoin : slashed (pathsplit path) = '/' :: stripChars s1 ['/'] := by
    rw [slashed_eq_join _ hne, hparts, join_splitOn]
  refine ⟨pre, suf2 ++ ws, ?_, hpreall⟩
  rw [hjoin, hcoredef]
  calc path = s1 ++ ws := by rw [hs1]; exact hws
    _ = pre ++ '/' :: m ++ ws := by rw [hpre]
    _ = pre ++ '/' :: (rstripChars m ['/'] ++ suf2) ++ ws := by rw [← hsuf2]
    _ = pre ++ '/' :: rstripChars m ['/'] ++ (suf2 ++ ws) := by simp

/-- **a path without `//` that starts with a slash *starts* with its segments** -/
theorem pathsplit_decomp_noDbl (path : Str) (hhead : path.head? = some '/') (hne : pathsplit path ≠ [])
    (hnd : hasInfix path dblSlash = false) : ∃ b, path = slashed (pathsplit path) ++ b := by
  obtain ⟨a, b, hab, hall⟩ := pathsplit_decomp path hhead hne
  by_cases ha : a = []
  · subst ha; exact ⟨b, by simpa using hab⟩
  · exfalso
    obtain ⟨a', hla⟩ : ∃ a', a = a' ++ ['/'] := by
      refine ⟨a.dropLast, ?_⟩
      have := (List.dropLast_concat_getLast ha).symm
      rw [hall _ (List.getLast_mem ha)] at this
      exact this
    obtain ⟨t, hsl⟩ : ∃ t, slashed (pathsplit path) = '/' :: t := by
      rcases slashed_head (pathsplit path) with e | e
      · cases hp : pathsplit path with
        | nil => exact absurd hp hne
        | cons s ss => rw [hp] at e; simp [slashed] at e
      · exact e
    have : hasInfix path dblSlash = true := by
      apply (hasInfix_iff _ _).mpr
      refine ⟨a', t ++ b, ?_⟩
      rw [hab, hla, hsl]
      simp [dblSlash]
    rw [hnd] at this
    cases this

theorem pathsplit_no_slash (path : Str) : ∀ x ∈ pathsplit path, '/' ∉ x := by
  unfold pathsplit
  simp only
  split
  · simp
  · exact not_mem_of_mem_splitOn '/' _

/-! ## `parse_qs` holds no blank value -/

theorem plusToSpace_ne_nil (s : Str) (h : s ≠ []) : plusToSpace s ≠ [] := by
  unfold plusToSpace
  simpa using h

theorem qslPair_value_ne_nil (nv : Str) (kv : Str × Str) (h : qslPair? nv = some kv) : kv.2 ≠ [] := by
  unfold qslPair? at h
  split at h
  · cases h
  · split at h
    · cases h
    · rename_i n v _
      split at h
      · cases h
      · rename_i hv
        injection h with h
        rw [← h]
        exact unquote_ne_nil _ (plusToSpace_ne_nil _ (by simpa using hv))

theorem parse_qsl_values_ne_nil (qs : Str) : ∀ kv ∈ parse_qsl qs, kv.2 ≠ [] := by
  unfold parse_qsl
  split
  · simp
  · intro kv hkv
    obtain ⟨nv, _, hnv⟩ := List.mem_filterMap.mp hkv
    exact qslPair_value_ne_nil nv kv hnv

/-- **every value `safe_parse_qs` holds is a non-empty string** -/
theorem qsValues_ne_nil (query key : Str) : ∀ v ∈ qsValues (safe_parse_qs query) key, v ≠ [] := by
  intro v hv
  unfold qsValues at hv
  obtain ⟨kv, hkv, rfl⟩ := List.mem_map.mp hv
  exact parse_qsl_values_ne_nil _ kv (List.mem_filter.mp hkv).1

theorem qsGet_ne_nil (query key : Str) (vs : List Str) (h : qsGet (safe_parse_qs query) key = some vs) :
    ∀ v ∈ vs, v ≠ [] := by
  unfold qsGet at h
  split at h
  · injection h with h; rw [← h]; exact qsValues_ne_nil query key
  · cases h

/-- a set id is `None` or a non-empty string -/
theorem setId_ne_nil (sets : List Str) (p : Str) (hp : p ≠ []) (y : Str) (h : setId sets p = .ok (some y)) :
    y ≠ [] := by
  unfold setId at h
  cases hf : firstWithPrefix sets p with
  | none => rw [hf] at h; cases h
  | some x =>
    rw [hf] at h
    simp only at h
    have hs : startsWith x p = true := by
      unfold firstWithPrefix at hf
      exact List.find?_some (p := fun y => startsWith y p) hf
    by_cases hx : x.isEmpty = true
    · exfalso
      have : x = [] := List.isEmpty_iff.mp hx
      rw [this] at hs
      have := List.isPrefixOf_iff_prefix.mp hs
      exact hp (List.prefix_nil.mp this)
    · rw [if_neg hx] at h
      have hl := splitStr1_length_of_startsWith x p hs
      rw [getIdx_of_lt _ 1 (by omega)] at h
      simp only [Except.map, orNone, Except.ok.injEq] at h
      split at h
      · cases h
      · rename_i hz
        injection h with h
        rw [← h]
        simpa using hz

/-! ## the records -/

/-- `None`, or a non-empty string -/
def optNe (o : Option Str) : Bool :=
  match o with
  | some x => !x.isEmpty
  | none => true

/-- no field of the record is the empty string -/
def noEmpty : Parsed → Bool
  | .user id h => !id.isEmpty && optNe h
  | .handle h => !h.isEmpty
  | .group id h => optNe id && optNe h
  | .post id a b c d => !id.isEmpty && optNe a && optNe b && optNe c && optNe d
  | .video id p => !id.isEmpty && optNe p
  | .photo id a b c d => !id.isEmpty && optNe a && optNe b && optNe c && optNe d

theorem isEmpty_false_of_ne {s : Str} (h : s ≠ []) : s.isEmpty = false := by
  cases s with
  | nil => exact absurd rfl h
  | cons c cs => rfl

local macro "route_ne" : tactic =>
  `(tactic| (simp only [bind, Except.bind, pure, Except.pure, Functor.map, Except.map]
             repeat' split
             all_goals (intro hr; cases hr)
             all_goals simp_all [noEmpty, optNe]))

theorem seg_isEmpty (path : Str) (hseg : ∀ x ∈ pathsplit path, x ≠ []) (i : Nat) (hi : i < (pathsplit path).length) :
    ((pathsplit path)[i]).isEmpty = false :=
  isEmpty_false_of_ne (hseg _ (List.getElem_mem hi))

theorem routeWatch_noEmpty (query : Str) (r : Parsed) : routeWatch query = .ok (some r) → noEmpty r = true := by
  unfold routeWatch
  by_cases h : qsHas (safe_parse_qs query) (lit "v") = true
  · have hp := qsValues_pos_of_has _ _ h
    have e0 := getIdx_of_lt _ 0 hp
    have n0 := isEmpty_false_of_ne (qsValues_ne_nil query (lit "v") _ (List.getElem_mem hp))
    simp only [h, Bool.not_true, Bool.false_eq_true, if_false, qsItem_of_has, bind, Except.bind, e0]
    route_ne
  · simp [h]

theorem routeVideos_noEmpty (path : Str) (r : Parsed) (hseg : ∀ x ∈ pathsplit path, x ≠ []) :
    routeVideos path = .ok (some r) → noEmpty r = true := by
  unfold routeVideos
  by_cases h : (pathsplit path).length < 3
  · simp [h]
  · have e2 := getIdx_of_lt (pathsplit path) 2 (by omega)
    have e0 := getIdx_of_lt (pathsplit path) 0 (by omega)
    have n0 := seg_isEmpty path hseg 0 (by omega)
    have n2 := seg_isEmpty path hseg 2 (by omega)
    simp only [h, if_false, bind, Except.bind, e0, e2]
    route_ne

theorem photoSets_noEmpty (query : Str) (ga : Option Str × Option Str)
    (h : photoSets (safe_parse_qs query) = .ok ga) : optNe ga.1 = true ∧ optNe ga.2 = true := by
  unfold photoSets at h
  by_cases hs : qsHas (safe_parse_qs query) (lit "set") = true
  · obtain ⟨g, hg⟩ := setId_total (qsValues (safe_parse_qs query) (lit "set")) (lit "g.")
    obtain ⟨a, ha⟩ := setId_total (qsValues (safe_parse_qs query) (lit "set")) (lit "a.")
    simp only [hs, if_true, qsItem_of_has, hg, ha, bind, Except.bind, pure, Except.pure, Except.ok.injEq] at h
    rw [← h]
    constructor
    · cases g with
      | none => rfl
      | some y => simpa [optNe] using setId_ne_nil _ _ (by decide) y hg
    · cases a with
      | none => rfl
      | some y => simpa [optNe] using setId_ne_nil _ _ (by decide) y ha
  · simp only [hs, Bool.false_eq_true, if_false, pure, Except.pure, Except.ok.injEq] at h
    rw [← h]; exact ⟨rfl, rfl⟩

theorem routePhotoQuery_noEmpty (query : Str) (r : Parsed) :
    routePhotoQuery query = .ok (some r) → noEmpty r = true := by
  unfold routePhotoQuery
  by_cases h : qsHas (safe_parse_qs query) (lit "fbid") = true
  · have hp := qsValues_pos_of_has _ _ h
    have e0 := getIdx_of_lt _ 0 hp
    have n0 := isEmpty_false_of_ne (qsValues_ne_nil query (lit "fbid") _ (List.getElem_mem hp))
    obtain ⟨ga, hga⟩ := photoSets_total (safe_parse_qs query)
    obtain ⟨g1, g2⟩ := photoSets_noEmpty query ga hga
    simp only [h, Bool.not_true, Bool.false_eq_true, if_false, hga, qsItem_of_has, bind, Except.bind, e0]
    route_ne
  · simp [h]

theorem routePhotos_noEmpty (path : Str) (r : Parsed) (hseg : ∀ x ∈ pathsplit path, x ≠ []) :
    routePhotos path = .ok (some r) → noEmpty r = true := by
  unfold routePhotos
  by_cases h : (pathsplit path).length < 4
  · simp [h]
  · have e0 := getIdx_of_lt (pathsplit path) 0 (by omega)
    have e2 := getIdx_of_lt (pathsplit path) 2 (by omega)
    have e3 := getIdx_of_lt (pathsplit path) 3 (by omega)
    have n0 := seg_isEmpty path hseg 0 (by omega)
    have n3 := seg_isEmpty path hseg 3 (by omega)
    simp only [h, if_false, bind, Except.bind, e0, e2, e3]
    by_cases ha : (albumOf ((pathsplit path)[2]'(by omega))).isEmpty = true
    · simp [ha, pure, Except.pure]
    · have ha' : (albumOf ((pathsplit path)[2]'(by omega))).isEmpty = false := by simpa using ha
      simp only [ha', Bool.false_eq_true, if_false]
      route_ne

theorem routePosts_noEmpty (path : Str) (r : Parsed) (hseg : ∀ x ∈ pathsplit path, x ≠ []) :
    routePosts path = .ok (some r) → noEmpty r = true := by
  unfold routePosts
  by_cases h : (pathsplit path).length < 3
  · simp [h]
  · have e0 := getIdx_of_lt (pathsplit path) 0 (by omega)
    have e2 := getIdx_of_lt (pathsplit path) 2 (by omega)
    have n0 := seg_isEmpty path hseg 0 (by omega)
    have n2 := seg_isEmpty path hseg 2 (by omega)
    simp only [h, if_false, bind, Except.bind, e0, e2]
    by_cases h4 : (pathsplit path).length < 4
    · simp only [h4, if_true]
      route_ne
    · have e1 := getIdx_of_lt (pathsplit path) 1 (by omega)
      have e3 := getIdx_of_lt (pathsplit path) 3 (by omega)
      have n1 := seg_isEmpty path hseg 1 (by omega)
      have n3 := seg_isEmpty path hseg 3 (by omega)
      simp only [h4, if_false, e1, e3]
      route_ne

theorem routePermalink_noEmpty (query : Str) (r : Parsed) :
    routePermalink query = .ok (some r) → noEmpty r = true := by
  unfold routePermalink
  simp only []
  cases h1 : qsGet (safe_parse_qs query) (lit "id") with
  | none => simp
  | some pid =>
    cases h2 : qsGet (safe_parse_qs query) (lit "story_fbid") with
    | none => simp
    | some sid =>
      have p1 := qsGet_some_pos _ _ _ h1
      have p2 := qsGet_some_pos _ _ _ h2
      have e1 := getIdx_of_lt _ 0 p1
      have e2 := getIdx_of_lt _ 0 p2
      have n1 := isEmpty_false_of_ne (qsGet_ne_nil query _ _ h1 _ (List.getElem_mem p1))
      have n2 := isEmpty_false_of_ne (qsGet_ne_nil query _ _ h2 _ (List.getElem_mem p2))
      simp only [bind, Except.bind, e1, e2]
      route_ne

theorem routeGroups_noEmpty (path : Str) (r : Parsed) (hseg : ∀ x ∈ pathsplit path, x ≠ []) :
    routeGroups path = .ok (some r) → noEmpty r = true := by
  unfold routeGroups
  by_cases h : (pathsplit path).length < 2
  · simp [h]
  · have e1 := getIdx_of_lt (pathsplit path) 1 (by omega)
    have n1 := seg_isEmpty path hseg 1 (by omega)
    simp only [h, if_false, bind, Except.bind, e1]
    by_cases h4 : (pathsplit path).length < 4
    · simp only [h4, if_true]
      route_ne
    · have e3 := getIdx_of_lt (pathsplit path) 3 (by omega)
      have n3 := seg_isEmpty path hseg 3 (by omega)
      simp only [h4, if_false, e3]
      route_ne

theorem routeProfile_noEmpty (query : Str) (r : Parsed) : routeProfile query = .ok (some r) → noEmpty r = true := by
  unfold routeProfile
  simp only []
  cases h1 : qsGet (safe_parse_qs query) (lit "id") with
  | none => simp
  | some uid =>
    have p1 := qsGet_some_pos _ _ _ h1
    have e1 := getIdx_of_lt _ 0 p1
    have n1 := isEmpty_false_of_ne (qsGet_ne_nil query _ _ h1 _ (List.getElem_mem p1))
    simp only [bind, Except.bind, e1]
    route_ne

theorem routePeople_noEmpty (path : Str) (r : Parsed) (hseg : ∀ x ∈ pathsplit path, x ≠ []) :
    routePeople path = .ok (some r) → noEmpty r = true := by
  unfold routePeople
  by_cases h : (pathsplit path).length < 3
  · simp [h]
  · have e2 := getIdx_of_lt (pathsplit path) 2 (by omega)
    have n2 := seg_isEmpty path hseg 2 (by omega)
    simp only [h, if_false, bind, Except.bind, e2]
    route_ne

theorem routeHandle_noEmpty (path : Str) (r : Parsed) (hseg : ∀ x ∈ pathsplit path, x ≠ []) :
    routeHandle path = .ok (some r) → noEmpty r = true := by
  unfold routeHandle
  by_cases h : (pathsplit path).isEmpty = true
  · simp [h]
  · have hl : 0 < (pathsplit path).length := by
      cases hp : pathsplit path with
      | nil => simp [hp] at h
      | cons x xs => simp
    have e0 := getIdx_of_lt (pathsplit path) 0 hl
    have n0 := seg_isEmpty path hseg 0 hl
    simp only [h, Bool.false_eq_true, if_false, bind, Except.bind, e0]
    route_ne

/-- the router on a path without `//` returns no empty field -/
theorem parseSplit_noEmpty (sp : SplitResult) (r : Parsed) (hnd : hasInfix sp.path dblSlash = false) :
    parseSplit sp = .ok (some r) → noEmpty r = true := by
  have hseg := pathsplit_seg_ne_nil sp.path hnd
  unfold parseSplit
  simp only
  split
  · intro h; cases h
  split
  · exact routeWatch_noEmpty _ r
  split
  · exact routeVideos_noEmpty _ r hseg
  split
  · exact routePhotoQuery_noEmpty _ r
  split
  · exact routePhotos_noEmpty _ r hseg
  split
  · exact routePosts_noEmpty _ r hseg
  split
  · exact routePermalink_noEmpty _ r
  split
  · exact routeGroups_noEmpty _ r hseg
  split
  · exact routeProfile_noEmpty _ r
  split
  · exact routePeople_noEmpty _ r hseg
  · exact routeHandle_noEmpty _ r hseg

theorem squeezePath_noDbl (sp : SplitResult) : hasInfix (squeezePath sp).path dblSlash = false :=
  noDbl_squeeze (stripSegments sp.path)

/-- **no record returned by `parse_facebook_url` carries an empty string** -/
theorem parse_facebook_url_noEmpty (url : Str) (rel : Bool) (r : Parsed)
    (h : parse_facebook_url url rel = .ok (some r)) : noEmpty r = true := by
  rw [parse_facebook_url_eq] at h
  split at h
  · cases h
  · split at h
    · cases h
    · exact parseSplit_noEmpty _ r (squeezePath_noDbl _) h

end Ural.Facebook
