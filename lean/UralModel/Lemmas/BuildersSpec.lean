import UralModel.Lemmas.Builders
/-!
# Specification vocabulary and helper lemmas for the builder theorems of C20

Definitions used to *state* the property (`decodeQuery`, `wireVal`, `queryItems`, `wireArg`,
`expectedGet`, `urlPrefix`) and the lemmas the proofs in `Props/C20.lean` rest on.
-/
namespace Ural
open Ural.Py

theorem unquote_quote_slash (s : Str) : unquote (quote s) = s :=
  Ural.Py.unquote_quote s _ safeOk_slash

/-- what a retained argument must read back as: `none` for a bare key (`True`), otherwise
`str(v)` (the harness hands `str(v)` over as `other s`) -/
def wireVal : ArgVal → Option Str
  | .pyTrue => none
  | .other s => some s
  | .pyNone => some "None".toList
  | .pyFalse => some "False".toList

/-- decoding of one query item: split at the first `=`, unquote both sides -/
def decodeItem (it : Str) : Str × Option Str :=
  (unquote (splitFirst it '=').1, (splitFirst it '=').2.map unquote)

/-- decoding of a query string: split at `&`, decode every item -/
def decodeQuery (q : Str) : List (Str × Option Str) := (splitOn q '&').map decodeItem

theorem decodeItem_format (k : Str) (v : ArgVal) :
    decodeItem (format_query_argument k v) = (k, wireVal v) := by
  have hk : '=' ∉ quote k := quote_not_mem k '=' (by decide)
  cases v <;>
    simp only [format_query_argument, decodeItem, wireVal, splitFirst_notMem_s20 _ _ hk,
      splitFirst_append_sep_s20 _ _ _ hk, unquote_quote_slash, Option.map]

theorem format_query_argument_no_amp (k : Str) (v : ArgVal) : '&' ∉ format_query_argument k v := by
  have hk : '&' ∉ quote k := quote_not_mem k '&' (by decide)
  have h2 : ∀ s, '&' ∉ quote k ++ '=' :: quote s := by
    intro s hm
    simp only [List.mem_append, List.mem_cons] at hm
    rcases hm with hm | hm | hm
    · exact hk hm
    · exact absurd hm (by decide)
    · exact quote_not_mem s '&' (by decide) hm
  cases v <;> simp only [format_query_argument] <;> first | exact hk | exact h2 _

/-- base, path and extension: what precedes the query -/
def urlPrefix (base : Str) (path : Option PathArg) (ext : Option Str) : Str :=
  addExt (joinPath base path) ext

theorem queryString_no_hash (items : List (Str × ArgVal)) : '#' ∉ queryString items := by
  unfold queryString
  induction items with
  | nil => simp [join]
  | cons kv rest ih =>
    have h1 : '#' ∉ format_query_argument kv.1 kv.2 := by
      have hk : '#' ∉ quote kv.1 := quote_not_mem _ '#' (by decide)
      have h2 : ∀ s, '#' ∉ quote kv.1 ++ '=' :: quote s := by
        intro s hm
        simp only [List.mem_append, List.mem_cons] at hm
        rcases hm with hm | hm | hm
        · exact hk hm
        · exact absurd hm (by decide)
        · exact quote_not_mem s '#' (by decide) hm
      cases kv.2 <;> simp only [format_query_argument] <;> first | exact hk | exact h2 _
    cases rest with
    | nil => simpa [join] using h1
    | cons kv2 rest =>
      simp only [List.map_cons] at ih ⊢
      rw [join_cons_cons_s20]
      intro hm
      simp only [List.mem_append, List.mem_singleton] at hm
      rcases hm with (hm | hm) | hm
      · exact h1 hm
      · exact absurd hm (by decide)
      · exact ih hm

/-- the items of a query as `safe_qsl_iter` enumerates them; an absent or empty query has none -/
def queryItems (q : Option Str) : List Str :=
  match q with
  | none => []
  | some q => if q = [] then [] else splitOn q '&'

/-- the item `add_query_argument(url, name, value)` appends (`quote=True`) -/
def wireArg (name : Str) (value : Option Str) : Str :=
  quote name ++ (match value with | none => [] | some v => '=' :: quote v)

theorem wireArg_not_mem (name : Str) (value : Option Str) (c : Char) (hc : isDelim c = true)
    (hne : c ≠ '=') : c ∉ wireArg name value := by
  unfold wireArg
  intro hm
  simp only [List.mem_append] at hm
  rcases hm with hm | hm
  · exact quote_not_mem name c hc hm
  · cases value with
    | none => simp at hm
    | some v =>
      simp only [List.mem_cons] at hm
      rcases hm with hm | hm
      · exact hne hm
      · exact quote_not_mem v c hc hm

theorem wireArg_ne_nil (name : Str) (value : Option Str) (hn : name ≠ []) :
    wireArg name value ≠ [] := by
  unfold wireArg
  intro h
  exact quote_ne_nil name hn (List.append_eq_nil_iff.mp h).1

/-- the query after the append: `query + "&" + arg` if there was a non-empty query, else `arg` -/
def appendedQuery (q : Option Str) (arg : Str) : Str :=
  match q with
  | some q => if q = [] then arg else q ++ '&' :: arg
  | none => arg

/-- `"#" + fragment` if the url had a fragment -/
def fragmentSuffix (f : Option Str) : Str :=
  match f with
  | some f => '#' :: f
  | none => []

theorem add_query_argument_eq (url name : Str) (value : Option Str) :
    add_query_argument url name value true =
      (splitQuery url).1 ++ '?' :: appendedQuery (splitQuery url).2 (wireArg name value)
        ++ fragmentSuffix (splitFragment url).2 := by
  unfold add_query_argument wireArg appendedQuery fragmentSuffix
  cases value <;> cases (splitQuery url).2 <;> cases (splitFragment url).2 <;> simp

/-- what `get_query_argument` must return for the appended item: `True` for a bare key,
else the (quoted) value -/
def expectedGet (value : Option Str) : QArg :=
  match value with
  | none => .bare
  | some v => .str (quote v)

theorem qslItem_wireArg (name : Str) (value : Option Str) :
    qslItem (wireArg name value) = (quote name, value.map quote) := by
  have hk : '=' ∉ quote name := quote_not_mem name '=' (by decide)
  unfold qslItem wireArg
  cases value with
  | none => simp [splitFirst_notMem_s20 _ _ hk]
  | some v => simp [splitFirst_append_sep_s20 _ _ _ hk]

theorem lookupQuery_append_new (items : List Str) (name : Str) (value : Option Str)
    (hnew : ∀ it ∈ items, (qslItem it).1 ≠ quote name) :
    lookupQuery (items ++ [wireArg name value]) (quote name) = expectedGet value := by
  induction items with
  | nil =>
    simp only [List.nil_append, lookupQuery, qslItem_wireArg, if_true, expectedGet]
    cases value <;> rfl
  | cons it rest ih =>
    have h1 : (qslItem it).1 ≠ quote name := hnew it (by simp)
    simp only [List.cons_append, lookupQuery, if_neg h1]
    exact ih (fun x hx => hnew x (by simp [hx]))

/-- every character of the result comes from the url, from the appended item, or is one of
the three delimiters -/
theorem add_query_argument_chars (url name : Str) (value : Option Str) :
    ∀ c ∈ add_query_argument url name value true,
      c ∈ url ∨ c ∈ wireArg name value ∨ c = '?' ∨ c = '&' ∨ c = '#' := by
  intro c hc
  rw [add_query_argument_eq] at hc
  have hf := splitFirst_spec_s20 url '#'
  have hq := splitFirst_spec_s20 (splitFirst url '#').1 '?'
  have hmain : ∀ x ∈ (splitFirst url '#').1, x ∈ url := by
    intro x hx
    cases hb : (splitFirst url '#').2 with
    | none => rw [hb] at hf; rw [hf.2]; exact hx
    | some b => rw [hb] at hf; rw [hf.2]; simp [hx]
  have hfrag : ∀ f, (splitFragment url).2 = some f → ∀ x ∈ f, x ∈ url := by
    intro f hf2 x hx
    unfold splitFragment at hf2
    rw [hf2] at hf; rw [hf.2]; simp [hx]
  have hbase : ∀ x ∈ (splitQuery url).1, x ∈ url := by
    intro x hx
    apply hmain
    unfold splitQuery splitFragment at hx
    cases hb : (splitFirst (splitFirst url '#').1 '?').2 with
    | none => rw [hb] at hq; rw [hq.2]; exact hx
    | some b => rw [hb] at hq; rw [hq.2]; simp [hx]
  have hquery : ∀ q, (splitQuery url).2 = some q → ∀ x ∈ q, x ∈ url := by
    intro q hq2 x hx
    apply hmain
    unfold splitQuery splitFragment at hq2
    rw [hq2] at hq; rw [hq.2]; simp [hx]
  simp only [List.mem_append, List.mem_cons] at hc
  rcases hc with (hc | hc | hc) | hc
  · exact Or.inl (hbase c hc)
  · exact Or.inr (Or.inr (Or.inl hc))
  · cases h2 : (splitQuery url).2 with
    | none => rw [h2] at hc; exact Or.inr (Or.inl hc)
    | some q =>
      rw [h2] at hc
      simp only [appendedQuery] at hc
      split at hc
      · exact Or.inr (Or.inl hc)
      · simp only [List.mem_append, List.mem_cons] at hc
        rcases hc with hc | hc | hc
        · exact Or.inl (hquery q h2 c hc)
        · exact Or.inr (Or.inr (Or.inr (Or.inl hc)))
        · exact Or.inr (Or.inl hc)
  · cases h2 : (splitFragment url).2 with
    | none => rw [h2] at hc; simp [fragmentSuffix] at hc
    | some f =>
      rw [h2] at hc
      simp only [fragmentSuffix, List.mem_cons] at hc
      rcases hc with hc | hc
      · exact Or.inr (Or.inr (Or.inr (Or.inr hc)))
      · exact Or.inl (hfrag f h2 c hc)

theorem wireArg_no_unsafe (name : Str) (value : Option Str) :
    ∀ c ∈ wireArg name value, isUnsafeUrlChar c = false := by
  intro c hc
  unfold wireArg at hc
  simp only [List.mem_append] at hc
  rcases hc with hc | hc
  · exact quote_no_unsafe name c hc
  · cases value with
    | none => simp at hc
    | some v =>
      simp only [List.mem_cons] at hc
      rcases hc with hc | hc
      · rw [hc]; decide
      · exact quote_no_unsafe v c hc


end Ural
