import UralModel.Lemmas.FacebookPath
import UralModel.Lemmas.PctCodec
/-!
Queries the record builders of `ural/facebook.py` make (C19 round trip):
`safe_parse_qs("k1=v1&k2=v2…")` gives the items back.
-/
namespace Ural.Facebook
open Ural.Py Ural

/-- a query key of the builders: as a value, moreover without `=`, and not starting with `a`/`A`
(what follows `&` must not read `amp;`) -/
def qkeyOk (k : Str) : Bool :=
  qvalOk k && !k.contains '=' && (match k with | c :: _ => lowerChar c ≠ 'a' | [] => false)

theorem qvalChar_spec {c : Char} (h : qvalChar c = true) :
    c ≠ '&' ∧ c ≠ '#' ∧ c ≠ '+' ∧ isUnsafeUrlChar c = false := by
  unfold qvalChar at h
  simp only [Bool.and_eq_true, decide_eq_true_eq, Bool.not_eq_true'] at h
  exact ⟨h.1.1.1, h.1.1.2, h.1.2, h.2⟩

theorem qvalChar_queryChar {c : Char} (h : qvalChar c = true) : queryChar c = true := by
  obtain ⟨_, h2, _, h5⟩ := qvalChar_spec h
  simp [queryChar, h2, h5]

theorem qvalOk_spec {s : Str} (h : qvalOk s = true) : s ≠ [] ∧ ∀ c ∈ s, qvalChar c = true := by
  unfold qvalOk at h
  simp only [Bool.and_eq_true, Bool.not_eq_true', List.all_eq_true] at h
  exact ⟨by intro e; rw [e] at h; simp at h, h.1.2⟩

theorem qvalOk_noEscape {s : Str} (h : qvalOk s = true) : hasEscape s = false := by
  unfold qvalOk at h
  simp only [Bool.and_eq_true, Bool.not_eq_true'] at h
  exact h.2

theorem qkeyOk_spec {k : Str} (h : qkeyOk k = true) :
    qvalOk k = true ∧ '=' ∉ k ∧ ∃ c cs, k = c :: cs ∧ lowerChar c ≠ 'a' := by
  unfold qkeyOk at h
  simp only [Bool.and_eq_true, Bool.not_eq_true', List.contains_eq_mem, decide_eq_false_iff_not] at h
  refine ⟨h.1.1, h.1.2, ?_⟩
  cases k with
  | nil => simp at h
  | cons c cs => exact ⟨c, cs, rfl, by simpa using h.2⟩

/-- `key=value` -/
def wireItem (kv : Str × Str) : Str := kv.1 ++ '=' :: kv.2

/-- the query string of the items -/
def qsWire (items : List (Str × Str)) : Str := join ['&'] (items.map wireItem)

def itemOk (kv : Str × Str) : Bool := qkeyOk kv.1 && qvalOk kv.2

theorem wireItem_chars {kv : Str × Str} (h : itemOk kv = true) :
    ∀ c ∈ wireItem kv, qvalChar c = true := by
  unfold itemOk at h
  simp only [Bool.and_eq_true] at h
  intro c hc
  simp only [wireItem, List.mem_append, List.mem_cons] at hc
  rcases hc with hc | hc | hc
  · exact (qvalOk_spec (qkeyOk_spec h.1).1).2 c hc
  · rw [hc]; decide
  · exact (qvalOk_spec h.2).2 c hc

theorem wireItem_no_amp {kv : Str × Str} (h : itemOk kv = true) : '&' ∉ wireItem kv :=
  fun hm => (qvalChar_spec (wireItem_chars h _ hm)).1 rfl

theorem mem_join {sep : Str} {parts : List Str} {c : Char} (h : c ∈ join sep parts) :
    c ∈ sep ∨ ∃ p ∈ parts, c ∈ p := by
  induction parts with
  | nil => simp [join] at h
  | cons p ps ih =>
    cases ps with
    | nil => right; exact ⟨p, by simp, by simpa [join] using h⟩
    | cons q qs =>
      simp only [join, List.mem_append] at h
      rcases h with (h | h) | h
      · right; exact ⟨p, by simp, h⟩
      · left; exact h
      · rcases ih h with h | ⟨x, hx, hc⟩
        · left; exact h
        · right; exact ⟨x, by simp [hx], hc⟩

theorem qsWire_queryChar (items : List (Str × Str)) (h : ∀ kv ∈ items, itemOk kv = true) :
    ∀ c ∈ qsWire items, queryChar c = true := by
  intro c hc
  rcases mem_join hc with hc | ⟨p, hp, hc⟩
  · simp only [List.mem_singleton] at hc
    rw [hc]; decide
  · obtain ⟨kv, hkv, rfl⟩ := List.mem_map.mp hp
    exact qvalChar_queryChar (wireItem_chars (h kv hkv) c hc)

theorem qsWire_ne_nil (items : List (Str × Str)) (hne : items ≠ []) : qsWire items ≠ [] := by
  cases items with
  | nil => exact absurd rfl hne
  | cons kv rest =>
    cases rest with
    | nil => simp [qsWire, join, wireItem]
    | cons kv' more => simp [qsWire, join, wireItem]

/-! ## `fix_common_query_mistakes` -/

theorem fixMistakesGo_append (a t : Str) (h : '&' ∉ a) :
    fixMistakesGo (a ++ t) 0 = a ++ fixMistakesGo t 0 := by
  induction a with
  | nil => rfl
  | cons c cs ih =>
    have hc : c ≠ '&' := fun e => h (by simp [e])
    simp only [List.cons_append, fixMistakesGo, hc, if_false]
    rw [ih (fun e => h (by simp [e]))]

theorem fixMistakesGo_nil : fixMistakesGo [] 0 = [] := rfl

theorem fixMistakesGo_of_no_amp (a : Str) (h : '&' ∉ a) : fixMistakesGo a 0 = a := by
  have := fixMistakesGo_append a [] h
  simpa [fixMistakesGo_nil] using this

theorem mistakeLen_of_head (c : Char) (rest : Str) (h : lowerChar c ≠ 'a') : mistakeLen (c :: rest) = none := by
  unfold mistakeLen
  have h1 : lower ((c :: rest).take 6) ≠ "amp%3b".toList := by
    intro e
    have := congrArg List.head? e
    simp [lower] at this
    exact h this
  have h2 : lower ((c :: rest).take 4) ≠ "amp;".toList := by
    intro e
    have := congrArg List.head? e
    simp [lower] at this
    exact h this
  rw [if_neg h1, if_neg h2]

theorem wireItem_head {kv : Str × Str} (h : itemOk kv = true) (t : Str) :
    ∃ c rest, wireItem kv ++ t = c :: rest ∧ lowerChar c ≠ 'a' := by
  unfold itemOk at h
  simp only [Bool.and_eq_true] at h
  obtain ⟨_, _, c, cs, hk, hc⟩ := qkeyOk_spec h.1
  exact ⟨c, cs ++ '=' :: kv.2 ++ t, by simp [wireItem, hk], hc⟩

/-- the query strings of the builders have no `&amp;` to repair -/
theorem fixMistakes_qsWire (items : List (Str × Str)) (h : ∀ kv ∈ items, itemOk kv = true) :
    fixMistakes (qsWire items) = qsWire items := by
  unfold fixMistakes
  induction items with
  | nil => rfl
  | cons kv rest ih =>
    have hkv := h kv (by simp)
    cases rest with
    | nil =>
      simp only [qsWire, List.map, join]
      exact fixMistakesGo_of_no_amp _ (wireItem_no_amp hkv)
    | cons kv' more =>
      have ih' := ih (fun x hx => h x (by simp [hx]))
      have e : qsWire (kv :: kv' :: more) = wireItem kv ++ '&' :: qsWire (kv' :: more) := by
        simp [qsWire, join]
      rw [e, fixMistakesGo_append _ _ (wireItem_no_amp hkv)]
      simp only [fixMistakesGo, if_true]
      have hhead : ∃ c r, qsWire (kv' :: more) = c :: r ∧ lowerChar c ≠ 'a' := by
        have hkv' := h kv' (by simp)
        cases more with
        | nil =>
          obtain ⟨c, r, hc, hl⟩ := wireItem_head hkv' []
          exact ⟨c, r, by simpa [qsWire, join] using hc, hl⟩
        | cons kv'' more' =>
          obtain ⟨c, r, hc, hl⟩ := wireItem_head hkv' ('&' :: qsWire (kv'' :: more'))
          exact ⟨c, r, by simpa [qsWire, join] using hc, hl⟩
      obtain ⟨c, r, hc, hl⟩ := hhead
      rw [hc, mistakeLen_of_head c r hl, ← hc]
      simp only [Option.getD_none]
      rw [ih']

/-! ## `parse_qsl` -/

theorem plusToSpace_of_not_mem (s : Str) (h : '+' ∉ s) : plusToSpace s = s := by
  unfold plusToSpace
  induction s with
  | nil => rfl
  | cons c cs ih =>
    have hc : c ≠ '+' := fun e => h (by simp [e])
    simp only [List.map_cons, hc, if_false]
    rw [ih (fun e => h (by simp [e]))]

theorem unquote_of_no_pct (s : Str) (h : '%' ∉ s) : unquote s = s := by
  unfold unquote
  simp only [List.contains_iff_mem, h, if_false]

/-! ### a string without percent escape is left alone by `unquote` (a bare `%` stays) -/

theorem pctHead_append_none (x b : Str) (h : pctHead (x ++ b) = none) : pctHead x = none := by
  match x with
  | [] => rfl
  | [_] => rfl
  | a :: c :: rest => simpa [pctHead] using h

theorem hasEscape_append_left (a b : Str) (h : hasEscape (a ++ b) = false) : hasEscape a = false := by
  induction a with
  | nil => rfl
  | cons c cs ih =>
    simp only [List.cons_append, hasEscape, Bool.or_eq_false_iff, Bool.and_eq_false_iff] at h ⊢
    refine ⟨?_, ih h.2⟩
    rcases h.1 with h1 | h1
    · left; exact h1
    · right
      have : pctHead (cs ++ b) = none := by simpa using h1
      simp [pctHead_append_none cs b this]

theorem hasEscape_append_right (a b : Str) (h : hasEscape (a ++ b) = false) : hasEscape b = false := by
  induction a with
  | nil => simpa using h
  | cons c cs ih =>
    simp only [List.cons_append, hasEscape, Bool.or_eq_false_iff] at h
    exact ih h.2

theorem hasEscape_append_of_no_pct (a b : Str) (h : '%' ∉ a) : hasEscape (a ++ b) = hasEscape b := by
  induction a with
  | nil => rfl
  | cons c cs ih =>
    have hc : c ≠ '%' := fun e => h (by simp [e])
    have hb : (c == '%') = false := by simpa using hc
    simp only [List.cons_append, hasEscape, hb, Bool.false_and, Bool.false_or]
    exact ih (fun e => h (by simp [e]))

theorem unquoteToBytesGo_noEscape (t : Str) (hascii : ∀ c ∈ t, c.toNat < 128) (h : hasEscape t = false) :
    unquoteToBytesGo t 0 = utf8Encode t := by
  induction t with
  | nil => simp [unquoteToBytesGo, utf8Encode]
  | cons c t ih =>
    have h1 := hascii c (by simp)
    have henc : utf8Encode (c :: t) = String.utf8EncodeChar c ++ utf8Encode t := by simp [utf8Encode]
    simp only [hasEscape, Bool.or_eq_false_iff, Bool.and_eq_false_iff] at h
    have iht := ih (fun x hx => hascii x (by simp [hx])) h.2
    rw [henc, utf8EncodeChar_ascii c h1]
    by_cases hc : c = '%'
    · subst hc
      have hp : pctHead t = none := by
        rcases h.1 with h0 | h0
        · simp at h0
        · simpa using h0
      simp only [unquoteToBytesGo, if_true, hp, List.cons_append, List.nil_append]
      rw [iht]; rfl
    · simp only [unquoteToBytesGo, hc, if_false, List.cons_append, List.nil_append]
      rw [iht]

theorem unquoteRuns_noEscape : ∀ (s acc : Str), (∀ c ∈ acc, c.toNat < 128) → hasEscape (acc.reverse ++ s) = false →
    unquoteRuns s acc = acc.reverse ++ s := by
  intro s
  induction s with
  | nil =>
    intro acc hacc h
    simp only [List.append_nil] at h ⊢
    simp only [unquoteRuns, unquoteFlush, unquoteToBytes]
    rw [unquoteToBytesGo_noEscape _ (by intro c hc; exact hacc c (by simpa using hc)) h, utf8DecodeReplace_encode]
  | cons c cs ih =>
    intro acc hacc h
    by_cases hc : c.toNat < 128
    · simp only [unquoteRuns, hc, if_true]
      have hacc' : ∀ x ∈ c :: acc, x.toNat < 128 := by
        intro x hx
        rcases List.mem_cons.mp hx with e | e
        · rw [e]; exact hc
        · exact hacc x e
      rw [ih (c :: acc) hacc' (by simpa using h)]
      simp
    · simp only [unquoteRuns, hc, if_false]
      have hl := hasEscape_append_left _ _ h
      have hr := hasEscape_append_right _ _ h
      have hcs : hasEscape cs = false := by
        simp only [hasEscape, Bool.or_eq_false_iff] at hr; exact hr.2
      rw [ih [] (by simp) (by simpa using hcs)]
      simp only [unquoteFlush, unquoteToBytes, List.reverse_nil, List.nil_append]
      rw [unquoteToBytesGo_noEscape _ (by intro x hx; exact hacc x (by simpa using hx)) hl, utf8DecodeReplace_encode]

/-- **`unquote(s) == s` when `s` has no percent escape** -/
theorem unquote_of_noEscape (s : Str) (h : hasEscape s = false) : unquote s = s := by
  unfold unquote
  split
  · exact unquoteRuns_noEscape s [] (by simp) (by simpa using h)
  · rfl

theorem hasEscape_plusToSpace (s : Str) (h : '+' ∉ s) : plusToSpace s = s := plusToSpace_of_not_mem s h

theorem qvalOk_decode {s : Str} (h : qvalOk s = true) : unquote (plusToSpace s) = s := by
  have hs := (qvalOk_spec h).2
  have h1 : '+' ∉ s := fun hm => (qvalChar_spec (hs _ hm)).2.2.1 rfl
  rw [plusToSpace_of_not_mem s h1, unquote_of_noEscape s (qvalOk_noEscape h)]

theorem qslPair_wireItem {kv : Str × Str} (h : itemOk kv = true) : qslPair? (wireItem kv) = some kv := by
  unfold itemOk at h
  simp only [Bool.and_eq_true] at h
  obtain ⟨hk, heq, _⟩ := qkeyOk_spec h.1
  unfold qslPair? wireItem
  have hne : (kv.1 ++ '=' :: kv.2).isEmpty = false := by simp
  rw [splitFirst_append_sep_s20 kv.1 kv.2 '=' heq]
  have hv : kv.2.isEmpty = false := by
    have := (qvalOk_spec h.2).1
    cases hx : kv.2 with
    | nil => exact absurd hx this
    | cons c cs => rfl
  simp only [hne, Bool.false_eq_true, if_false, hv, qvalOk_decode hk, qvalOk_decode h.2]

/-- **`safe_parse_qs` of a query the builders make gives its items back** -/
theorem safe_parse_qs_qsWire (items : List (Str × Str)) (hne : items ≠ [])
    (h : ∀ kv ∈ items, itemOk kv = true) : safe_parse_qs (qsWire items) = items := by
  unfold safe_parse_qs
  rw [fixMistakes_qsWire items h]
  unfold parse_qsl
  have hq : (qsWire items).isEmpty = false := by
    have := qsWire_ne_nil items hne
    cases hx : qsWire items with
    | nil => exact absurd hx this
    | cons c cs => rfl
  simp only [hq, Bool.false_eq_true, if_false]
  unfold qsWire
  rw [splitOn_join '&' (items.map wireItem) (by simpa using hne)
    (by
      intro p hp
      obtain ⟨kv, hkv, rfl⟩ := List.mem_map.mp hp
      exact wireItem_no_amp (h kv hkv))]
  rw [List.filterMap_map]
  induction items with
  | nil => rfl
  | cons kv rest ih =>
    simp only [List.filterMap_cons, Function.comp, qslPair_wireItem (h kv (by simp))]
    cases rest with
    | nil => rfl
    | cons kv' more =>
      rw [ih (by simp) (fun x hx => h x (by simp [hx]))]
      · cases hx : qsWire (kv' :: more) with
        | nil => exact absurd hx (qsWire_ne_nil _ (by simp))
        | cons c cs => rfl

end Ural.Facebook
