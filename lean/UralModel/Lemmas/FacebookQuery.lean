import UralModel.Lemmas.FacebookPath
/-!
Queries the record builders of `ural/facebook.py` make (C19 round trip):
`safe_parse_qs("k1=v1&k2=v2…")` gives the items back.
-/
namespace Ural.Facebook
open Ural.Py Ural

/-- a query key of the builders: as a value, moreover without `=`, and not starting with `a`/`A`
(what follows `&` must not read `amp;`) -/
def qkeyOk (k : Str) : Bool :=
  qvalOk k && !k.contains '=' && (match k with | c :: _ => lowerChar c ≠ 'a' | [] => false)

theorem qvalChar_spec {c : Char} (h : qvalChar c = true) :
    c ≠ '&' ∧ c ≠ '#' ∧ c ≠ '+' ∧ c ≠ '%' ∧ isUnsafeUrlChar c = false := by
  unfold qvalChar at h
  simp only [Bool.and_eq_true, decide_eq_true_eq, Bool.not_eq_true'] at h
  exact ⟨h.1.1.1.1, h.1.1.1.2, h.1.1.2, h.1.2, h.2⟩

theorem qvalChar_queryChar {c : Char} (h : qvalChar c = true) : queryChar c = true := by
  obtain ⟨_, h2, _, _, h5⟩ := qvalChar_spec h
  simp [queryChar, h2, h5]

theorem qvalOk_spec {s : Str} (h : qvalOk s = true) : s ≠ [] ∧ ∀ c ∈ s, qvalChar c = true := by
  unfold qvalOk at h
  simp only [Bool.and_eq_true, Bool.not_eq_true', List.all_eq_true] at h
  exact ⟨by intro e; rw [e] at h; simp at h, h.2⟩

theorem qkeyOk_spec {k : Str} (h : qkeyOk k = true) :
    qvalOk k = true ∧ '=' ∉ k ∧ ∃ c cs, k = c :: cs ∧ lowerChar c ≠ 'a' := by
  unfold qkeyOk at h
  simp only [Bool.and_eq_true, Bool.not_eq_true', List.contains_eq_mem, decide_eq_false_iff_not] at h
  refine ⟨h.1.1, h.1.2, ?_⟩
  cases k with
  | nil => simp at h
  | cons c cs => exact ⟨c, cs, rfl, by simpa using h.2⟩

/-- `key=value` -/
def wireItem (kv : Str × Str) : Str := kv.1 ++ '=' :: kv.2

/-- the query string of the items -/
def qsWire (items : List (Str × Str)) : Str := join ['&'] (items.map wireItem)

def itemOk (kv : Str × Str) : Bool := qkeyOk kv.1 && qvalOk kv.2

theorem wireItem_chars {kv : Str × Str} (h : itemOk kv = true) :
    ∀ c ∈ wireItem kv, qvalChar c = true := by
  unfold itemOk at h
  simp only [Bool.and_eq_true] at h
  intro c hc
  simp only [wireItem, List.mem_append, List.mem_cons] at hc
  rcases hc with hc | hc | hc
  · exact (qvalOk_spec (qkeyOk_spec h.1).1).2 c hc
  · rw [hc]; decide
  · exact (qvalOk_spec h.2).2 c hc

theorem wireItem_no_amp {kv : Str × Str} (h : itemOk kv = true) : '&' ∉ wireItem kv :=
  fun hm => (qvalChar_spec (wireItem_chars h _ hm)).1 rfl

theorem mem_join {sep : Str} {parts : List Str} {c : Char} (h : c ∈ join sep parts) :
    c ∈ sep ∨ ∃ p ∈ parts, c ∈ p := by
  induction parts with
  | nil => simp [join] at h
  | cons p ps ih =>
    cases ps with
    | nil => right; exact ⟨p, by simp, by simpa [join] using h⟩
    | cons q qs =>
      simp only [join, List.mem_append] at h
      rcases h with (h | h) | h
      · right; exact ⟨p, by simp, h⟩
      · left; exact h
      · rcases ih h with h | ⟨x, hx, hc⟩
        · left; exact h
        · right; exact ⟨x, by simp [hx], hc⟩

theorem qsWire_queryChar (items : List (Str × Str)) (h : ∀ kv ∈ items, itemOk kv = true) :
    ∀ c ∈ qsWire items, queryChar c = true := by
  intro c hc
  rcases mem_join hc with hc | ⟨p, hp, hc⟩
  · simp only [List.mem_singleton] at hc
    rw [hc]; decide
  · obtain ⟨kv, hkv, rfl⟩ := List.mem_map.mp hp
    exact qvalChar_queryChar (wireItem_chars (h kv hkv) c hc)

theorem qsWire_ne_nil (items : List (Str × Str)) (hne : items ≠ []) : qsWire items ≠ [] := by
  cases items with
  | nil => exact absurd rfl hne
  | cons kv rest =>
    cases rest with
    | nil => simp [qsWire, join, wireItem]
    | cons kv' more => simp [qsWire, join, wireItem]

/-! ## `fix_common_query_mistakes` -/

theorem fixMistakesGo_append (a t : Str) (h : '&' ∉ a) :
    fixMistakesGo (a ++ t) 0 = a ++ fixMistakesGo t 0 := by
  induction a with
  | nil => rfl
  | cons c cs ih =>
    have hc : c ≠ '&' := fun e => h (by simp [e])
    simp only [List.cons_append, fixMistakesGo, hc, if_false]
    rw [ih (fun e => h (by simp [e]))]

theorem fixMistakesGo_nil : fixMistakesGo [] 0 = [] := rfl

theorem fixMistakesGo_of_no_amp (a : Str) (h : '&' ∉ a) : fixMistakesGo a 0 = a := by
  have := fixMistakesGo_append a [] h
  simpa [fixMistakesGo_nil] using this

theorem mistakeLen_of_head (c : Char) (rest : Str) (h : lowerChar c ≠ 'a') : mistakeLen (c :: rest) = none := by
  unfold mistakeLen
  have h1 : lower ((c :: rest).take 6) ≠ "amp%3b".toList := by
    intro e
    have := congrArg List.head? e
    simp [lower] at this
    exact h this
  have h2 : lower ((c :: rest).take 4) ≠ "amp;".toList := by
    intro e
    have := congrArg List.head? e
    simp [lower] at this
    exact h this
  rw [if_neg h1, if_neg h2]

theorem wireItem_head {kv : Str × Str} (h : itemOk kv = true) (t : Str) :
    ∃ c rest, wireItem kv ++ t = c :: rest ∧ lowerChar c ≠ 'a' := by
  unfold itemOk at h
  simp only [Bool.and_eq_true] at h
  obtain ⟨_, _, c, cs, hk, hc⟩ := qkeyOk_spec h.1
  exact ⟨c, cs ++ '=' :: kv.2 ++ t, by simp [wireItem, hk], hc⟩

/-- the query strings of the builders have no `&amp;` to repair -/
theorem fixMistakes_qsWire (items : List (Str × Str)) (h : ∀ kv ∈ items, itemOk kv = true) :
    fixMistakes (qsWire items) = qsWire items := by
  unfold fixMistakes
  induction items with
  | nil => rfl
  | cons kv rest ih =>
    have hkv := h kv (by simp)
    cases rest with
    | nil =>
      simp only [qsWire, List.map, join]
      exact fixMistakesGo_of_no_amp _ (wireItem_no_amp hkv)
    | cons kv' more =>
      have ih' := ih (fun x hx => h x (by simp [hx]))
      have e : qsWire (kv :: kv' :: more) = wireItem kv ++ '&' :: qsWire (kv' :: more) := by
        simp [qsWire, join]
      rw [e, fixMistakesGo_append _ _ (wireItem_no_amp hkv)]
      simp only [fixMistakesGo, if_true]
      have hhead : ∃ c r, qsWire (kv' :: more) = c :: r ∧ lowerChar c ≠ 'a' := by
        have hkv' := h kv' (by simp)
        cases more with
        | nil =>
          obtain ⟨c, r, hc, hl⟩ := wireItem_head hkv' []
          exact ⟨c, r, by simpa [qsWire, join] using hc, hl⟩
        | cons kv'' more' =>
          obtain ⟨c, r, hc, hl⟩ := wireItem_head hkv' ('&' :: qsWire (kv'' :: more'))
          exact ⟨c, r, by simpa [qsWire, join] using hc, hl⟩
      obtain ⟨c, r, hc, hl⟩ := hhead
      rw [hc, mistakeLen_of_head c r hl, ← hc]
      simp only [Option.getD_none]
      rw [ih']

/-! ## `parse_qsl` -/

theorem plusToSpace_of_not_mem (s : Str) (h : '+' ∉ s) : plusToSpace s = s := by
  unfold plusToSpace
  induction s with
  | nil => rfl
  | cons c cs ih =>
    have hc : c ≠ '+' := fun e => h (by simp [e])
    simp only [List.map_cons, hc, if_false]
    rw [ih (fun e => h (by simp [e]))]

theorem unquote_of_no_pct (s : Str) (h : '%' ∉ s) : unquote s = s := by
  unfold unquote
  simp only [List.contains_iff_mem, h, if_false]

theorem qvalOk_decode {s : Str} (h : qvalOk s = true) : unquote (plusToSpace s) = s := by
  have hs := (qvalOk_spec h).2
  have h1 : '+' ∉ s := fun hm => (qvalChar_spec (hs _ hm)).2.2.1 rfl
  have h2 : '%' ∉ s := fun hm => (qvalChar_spec (hs _ hm)).2.2.2.1 rfl
  rw [plusToSpace_of_not_mem s h1, unquote_of_no_pct s h2]

theorem qslPair_wireItem {kv : Str × Str} (h : itemOk kv = true) : qslPair? (wireItem kv) = some kv := by
  unfold itemOk at h
  simp only [Bool.and_eq_true] at h
  obtain ⟨hk, heq, _⟩ := qkeyOk_spec h.1
  unfold qslPair? wireItem
  have hne : (kv.1 ++ '=' :: kv.2).isEmpty = false := by simp
  rw [splitFirst_append_sep_s20 kv.1 kv.2 '=' heq]
  have hv : kv.2.isEmpty = false := by
    have := (qvalOk_spec h.2).1
    cases hx : kv.2 with
    | nil => exact absurd hx this
    | cons c cs => rfl
  simp only [hne, Bool.false_eq_true, if_false, hv, qvalOk_decode hk, qvalOk_decode h.2]

/-- **`safe_parse_qs` of a query the builders make gives its items back** -/
theorem safe_parse_qs_qsWire (items : List (Str × Str)) (hne : items ≠ [])
    (h : ∀ kv ∈ items, itemOk kv = true) : safe_parse_qs (qsWire items) = items := by
  unfold safe_parse_qs
  rw [fixMistakes_qsWire items h]
  unfold parse_qsl
  have hq : (qsWire items).isEmpty = false := by
    have := qsWire_ne_nil items hne
    cases hx : qsWire items with
    | nil => exact absurd hx this
    | cons c cs => rfl
  simp only [hq, Bool.false_eq_true, if_false]
  unfold qsWire
  rw [splitOn_join '&' (items.map wireItem) (by simpa using hne)
    (by
      intro p hp
      obtain ⟨kv, hkv, rfl⟩ := List.mem_map.mp hp
      exact wireItem_no_amp (h kv hkv))]
  rw [List.filterMap_map]
  induction items with
  | nil => rfl
  | cons kv rest ih =>
    simp only [List.filterMap_cons, Function.comp, qslPair_wireItem (h kv (by simp))]
    cases rest with
    | nil => rfl
    | cons kv' more =>
      rw [ih (by simp) (fun x hx => h x (by simp [hx]))]
      · cases hx : qsWire (kv' :: more) with
        | nil => exact absurd hx (qsWire_ne_nil _ (by simp))
        | cons c cs => rfl

end Ural.Facebook
