import UralModel.Py.Str
/-!
Lemmas about the Python `str` prelude: `split` / `join` are inverse of each other.
-/
namespace Ural.Py

theorem splitOn_go_acc (s : Str) (sep : Char) (acc : Str) :
    splitOn.go sep s acc =
      match splitOn.go sep s [] with
      | [] => [acc.reverse]
      | p :: ps => (acc.reverse ++ p) :: ps := by
  induction s generalizing acc with
  | nil => simp [splitOn.go]
  | cons c cs ih =>
    simp only [splitOn.go]
    by_cases h : c = sep
    · simp [h]
    · simp only [h, if_false]
      rw [ih (c :: acc), ih [c]]
      cases splitOn.go sep cs [] <;> simp

theorem splitOn_nil (sep : Char) : splitOn [] sep = [[]] := by simp [splitOn, splitOn.go]

theorem splitOn_cons_sep (sep : Char) (cs : Str) : splitOn (sep :: cs) sep = [] :: splitOn cs sep := by
  simp [splitOn, splitOn.go]

theorem splitOn_ne_nil (s : Str) (sep : Char) : splitOn s sep ≠ [] := by
  induction s with
  | nil => simp [splitOn_nil]
  | cons c cs ih =>
    by_cases h : c = sep
    · subst h; simp [splitOn_cons_sep]
    · simp only [splitOn, splitOn.go, h, if_false]
      rw [splitOn_go_acc]
      simp only [splitOn] at ih
      cases hh : splitOn.go sep cs [] <;> simp

theorem splitOn_cons_ne (sep c : Char) (cs : Str) (h : c ≠ sep) :
    splitOn (c :: cs) sep =
      match splitOn cs sep with
      | [] => [[c]]
      | p :: ps => (c :: p) :: ps := by
  simp only [splitOn, splitOn.go, h, if_false]
  rw [splitOn_go_acc]
  cases splitOn.go sep cs [] <;> simp

/-- a piece without separator followed by the separator splits off -/
theorem splitOn_append_sep (sep : Char) (a b : Str) (ha : sep ∉ a) :
    splitOn (a ++ sep :: b) sep = a :: splitOn b sep := by
  induction a with
  | nil => simp [splitOn_cons_sep]
  | cons c cs ih =>
    have hc : c ≠ sep := fun e => ha (by simp [e])
    have hcs : sep ∉ cs := fun e => ha (by simp [e])
    simp only [List.cons_append]
    rw [splitOn_cons_ne _ _ _ hc, ih hcs]

theorem splitOn_of_not_mem (sep : Char) (a : Str) (ha : sep ∉ a) : splitOn a sep = [a] := by
  induction a with
  | nil => simp [splitOn_nil]
  | cons c cs ih =>
    have hc : c ≠ sep := fun e => ha (by simp [e])
    have hcs : sep ∉ cs := fun e => ha (by simp [e])
    rw [splitOn_cons_ne _ _ _ hc, ih hcs]

/-- `sep.join(parts).split(sep) == parts` when no part contains the separator -/
theorem splitOn_join (sep : Char) (parts : List Str) (hne : parts ≠ [])
    (h : ∀ p ∈ parts, sep ∉ p) : splitOn (join [sep] parts) sep = parts := by
  induction parts with
  | nil => exact absurd rfl hne
  | cons p ps ih =>
    cases ps with
    | nil => simp only [join]; exact splitOn_of_not_mem sep p (h p (by simp))
    | cons q qs =>
      simp only [join]
      have : p ++ [sep] ++ join [sep] (q :: qs) = p ++ sep :: join [sep] (q :: qs) := by simp
      rw [this, splitOn_append_sep sep p _ (h p (by simp)),
        ih (by simp) (fun x hx => h x (by simp [hx]))]

/-- `sep.join(s.split(sep)) == s` -/
theorem join_splitOn (sep : Char) (s : Str) : join [sep] (splitOn s sep) = s := by
  induction s with
  | nil => simp [splitOn_nil, join]
  | cons c cs ih =>
    by_cases h : c = sep
    · subst h
      rw [splitOn_cons_sep]
      have hne := splitOn_ne_nil cs c
      cases hs : splitOn cs c with
      | nil => exact absurd hs hne
      | cons p ps => rw [hs] at ih; simp [join, ih]
    · rw [splitOn_cons_ne _ _ _ h]
      have hne := splitOn_ne_nil cs sep
      cases hs : splitOn cs sep with
      | nil => exact absurd hs hne
      | cons p ps =>
        rw [hs] at ih
        cases ps with
        | nil => simp only [join] at ih ⊢; rw [ih]
        | cons q qs => simp only [join] at ih ⊢; rw [← ih]; simp

/-- no piece of a split contains the separator -/
theorem not_mem_of_mem_splitOn (sep : Char) (s : Str) : ∀ p ∈ splitOn s sep, sep ∉ p := by
  induction s with
  | nil => simp [splitOn_nil]
  | cons c cs ih =>
    by_cases h : c = sep
    · subst h
      rw [splitOn_cons_sep]
      intro p hp
      simp only [List.mem_cons] at hp
      rcases hp with rfl | hp
      · simp
      · exact ih p hp
    · rw [splitOn_cons_ne _ _ _ h]
      have hne := splitOn_ne_nil cs sep
      cases hs : splitOn cs sep with
      | nil => exact absurd hs hne
      | cons p ps =>
        rw [hs] at ih
        intro x hx
        simp only [List.mem_cons] at hx
        rcases hx with rfl | hx
        · intro hm
          simp only [List.mem_cons] at hm
          rcases hm with e | hm
          · exact h e.symm
          · exact ih p (by simp) hm
        · exact ih x (by simp [hx])

end Ural.Py
