import UralModel.Model.C07
import UralModel.Lemmas.CanonRoundTrip
/-!
# C07: the round trip of `canonicalize_url`'s result, as `lru_stems` needs it

The round-trip development (`Lemmas/UrlRoundTrip.lean`, `Lemmas/CanonRoundTrip.lean`) proves
that the modelled parser reads back the 5-tuple `canonicalize_url` printed.  `lru_stems` first
runs `ensure_protocol` on the string; here: the canonical string already has a protocol
(`ensureProtocol_printed`: its scheme is the lower-cased scheme `ensure_protocol` recognised or
added during the cleaning — ASCII letters only, at most 64 — followed by `://` as soon as there is
a netloc), so `ensure_protocol` leaves it alone and the parse is the tuple.
-/
namespace Ural.C07
open Ural.Py Ural.UrlParts Ural.LruVariants Ural.UrlRoundTrip Ural.CanonRoundTrip
open Ural.Canonicalize (canonParts canonComps)

theorem isAsciiAlpha_lowerChar {c : Char} (h : isAsciiAlpha c = true) :
    isAsciiAlpha (lowerChar c) = true := by
  have h' := h
  simp only [isAsciiAlpha, Bool.or_eq_true, decide_eq_true_eq] at h'
  unfold lowerChar
  split
  · rename_i hu
    have h1 : 65 ≤ c.toNat := by have := (Ural.Py.char_le_iff 'A' c).1 hu.1; simpa using this
    have h2 : c.toNat ≤ 90 := by have := (Ural.Py.char_le_iff c 'Z').1 hu.2; simpa using this
    have h3 : (Char.ofNat (c.toNat + 32)).toNat = c.toNat + 32 :=
      Ural.Py.toNat_ofNat_small _ (by omega)
    simp only [isAsciiAlpha, Bool.or_eq_true, decide_eq_true_eq]
    left
    constructor
    · rw [Ural.Py.char_le_iff, h3]; simp; omega
    · rw [Ural.Py.char_le_iff, h3]; simp; omega
  · exact h

/-- a string `letters ++ "://" ++ …` (1 to 64 letters) is left alone by `ensure_protocol` -/
theorem ensureProtocol_of_scheme (sc rest dp : Str) (hne : sc ≠ [])
    (halpha : ∀ c ∈ sc, isAsciiAlpha c = true) (hlen : sc.length ≤ 64) :
    ensureProtocol (sc ++ ':' :: '/' :: '/' :: rest) dp = sc ++ ':' :: '/' :: '/' :: rest := by
  have hsw : startsWith (sc ++ ':' :: '/' :: '/' :: rest) ['/', '/'] = false := by
    cases sc with
    | nil => exact absurd rfl hne
    | cons c cs =>
      have : '/' ≠ c := by
        intro e; have := halpha c (by simp); rw [← e] at this; revert this; decide
      simp [startsWith, List.isPrefixOf, this]
  have htw : (sc ++ ':' :: '/' :: '/' :: rest).takeWhile isAsciiAlpha = sc :=
    takeWhile_append_stop _ _ _ halpha (by intro c hc; simp at hc; subst hc; decide)
  have hpl : UrlParts.protoLen (sc ++ ':' :: '/' :: '/' :: rest) = some (sc.length + 3) := by
    unfold UrlParts.protoLen
    simp only [hsw, Bool.false_eq_true, if_false, htw]
    have h1 : 1 ≤ sc.length := by
      cases sc with
      | nil => exact absurd rfl hne
      | cons _ _ => simp
    have hdrop : (sc ++ ':' :: '/' :: '/' :: rest).drop sc.length = ':' :: '/' :: '/' :: rest :=
      List.drop_left
    have hd : startsWith (':' :: '/' :: '/' :: rest) [':', '/', '/'] = true := by
      simp [startsWith, List.isPrefixOf]
    rw [hdrop]
    simp [h1, hlen, hd]
  unfold ensureProtocol
  simp only [hpl, hsw, Bool.false_eq_true, if_false]

/-- with a netloc, `urlunsplit20` prints `scheme://netloc…` -/
theorem urlunsplit20_of_netloc (scheme netloc path query fragment : Str) (hs : scheme ≠ [])
    (hn : netloc ≠ []) :
    ∃ rest, urlunsplit20 scheme netloc path query fragment = scheme ++ ':' :: '/' :: '/' :: rest := by
  rw [urlunsplit20_eq]
  have hb : bodyOf scheme netloc path = '/' :: '/' :: (netloc ++
      (if path ≠ [] && !startsWith path ['/'] then '/' :: path else path)) := by
    unfold bodyOf
    rw [if_pos (by simp [hn])]
    rfl
  rw [hb]
  unfold schemePart
  rw [if_pos hs]
  refine ⟨(netloc ++ (if path ≠ [] && !startsWith path ['/'] then '/' :: path else path)) ++
    (queryPart query ++ fragPart fragment), ?_⟩
  simp [List.append_assoc]

section
variable {puny : Str → Str} (hpc : PunyClean puny)
include hpc

/-- **the canonical string reparses to the canonical tuple, after `ensure_protocol`** (modelled
parser): for every URL whose cleaned form parses, whose netloc holds no bracket and whose
canonical netloc is not empty -/
theorem canon_reparse (u : Str) (p : Parsed)
    (hp : parseUrl (Canonicalize.cleanUrl u httpsStr) = some p)
    (hb : '[' ∉ p.netloc ∧ ']' ∉ p.netloc)
    (hn : (canonParts puny false false p).netloc ≠ []) :
    modelSplit5 (ensureProtocol (UrlParts.urlunsplit (canonParts puny false false p)) httpStr) =
      some ⟨(canonParts puny false false p).scheme, (canonParts puny false false p).netloc,
        (canonParts puny false false p).path, (canonParts puny false false p).query,
        (canonParts puny false false p).fragment.getD []⟩ ∧
    (canonParts puny false false p).scheme ≠ [] := by
  have hdp : SchemeShaped (rstripChars httpsStr [':', '/']) :=
    ⟨⟨'h', "ttps".toList, by decide +kernel, by decide +kernel⟩, by decide +kernel⟩
  obtain ⟨S, rest, hcl, hal⟩ := cleanUrl_cleaned u httpsStr hdp
  obtain ⟨halpha, hlen⟩ := hal (by decide +kernel) (by decide +kernel)
  have hf := fromParse hcl hp
  obtain ⟨hui, hnB⟩ := no_bracket_facts hb
  have hok := netlocOk_new hpc false false hf hui (fun h => by rw [hnB] at h; cases h)
  have hwf := CanonRoundTrip.canonParts_wf hpc false false hf hok
  have hscheme : (canonParts puny false false p).scheme = lower S := hf.split.scheme
  have hsne : lower S ≠ [] := by
    obtain ⟨⟨c, r, e, _⟩, _⟩ := hf.shaped; rw [e]; simp [Py.lower]
  have hlalpha : ∀ c ∈ lower S, isAsciiAlpha c = true := by
    intro c hc
    simp only [Py.lower, List.mem_map] at hc
    obtain ⟨d, hd, rfl⟩ := hc
    exact isAsciiAlpha_lowerChar (halpha d hd)
  have hllen : (lower S).length ≤ 64 := by simpa [Py.lower] using hlen
  rw [urlunsplit_eq_urlunsplit20]
  obtain ⟨r, hr⟩ := urlunsplit20_of_netloc (canonParts puny false false p).scheme
    (canonParts puny false false p).netloc (canonParts puny false false p).path
    (canonParts puny false false p).query ((canonParts puny false false p).fragment.getD [])
    (by rw [hscheme]; exact hsne) hn
  refine ⟨?_, by rw [hscheme]; exact hsne⟩
  have hens : ensureProtocol (urlunsplit20 (canonParts puny false false p).scheme
      (canonParts puny false false p).netloc (canonParts puny false false p).path
      (canonParts puny false false p).query ((canonParts puny false false p).fragment.getD [])) httpStr
      = urlunsplit20 (canonParts puny false false p).scheme
      (canonParts puny false false p).netloc (canonParts puny false false p).path
      (canonParts puny false false p).query ((canonParts puny false false p).fragment.getD []) := by
    rw [hr, hscheme]
    exact ensureProtocol_of_scheme (lower S) r httpStr hsne hlalpha hllen
  rw [hens]
  unfold modelSplit5
  rw [urlsplit_urlunsplit20 _ _ _ _ _ hwf]
  simp only [Option.map_some]

end

end Ural.C07
