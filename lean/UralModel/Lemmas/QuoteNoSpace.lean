import UralModel.Lemmas.CanonRoundTrip
import UralModel.Lemmas.QuoteUpper
import UralModel.Lemmas.QuoteIdem
/-!
# The safe unquoters produce no whitespace

`safelyUnquote U s` (the four `safely_unquote_*` of `ural/quote.py`) keeps C0 controls
escaped, turns a space into `%20` and re-escapes (or escapes, when raw) every C1 control and
every whitespace character beyond ASCII (`NON_PRINTABLE_RE`).  So on an input without control
characters — what `canonicalize_url` hands over after `CONTROL_CHARS_RE.sub` — its output
holds no `str.isspace` character at all.  Used by C17: the userinfo, path, query and
fragment of a canonical URL hold no whitespace (`\S`, `.` of the `is_url` patterns).
-/
namespace Ural.Quote
open Ural.Py Ural.UrlParts Ural.CanonRoundTrip Ural.UrlRoundTrip Ural.QuoteUpper

theorem lit_raw_itemOf {U : List UInt8} {t : Tok} {c : Char} (h : itemOf U t = .lit (.raw c)) :
    (t = .raw c ∧ c ≠ ' ') ∨
      (∃ b : UInt8, c = Char.ofNat b.toNat ∧ b.toNat < 0x80 ∧ keepEsc U b = false ∧ b ≠ 0x20) := by
  cases t with
  | raw c0 =>
    simp only [itemOf] at h
    split at h
    · simp at h
    · rename_i hne
      simp only [Item.lit.injEq, Tok.raw.injEq] at h
      subst h
      exact Or.inl ⟨rfl, hne⟩
  | stray => simp [itemOf] at h
  | esc h1 h2 =>
    simp only [itemOf] at h
    split at h
    · simp at h
    · rename_i hk
      split at h
      · rename_i hlt
        split at h
        · simp at h
        · rename_i h20
          simp only [Item.lit.injEq, Tok.raw.injEq] at h
          refine Or.inr ⟨byteOf h1 h2, h.symm, ?_, by simpa using hk, h20⟩
          have := UInt8.lt_iff_toNat_lt.mp hlt
          simpa using this
      · simp at h

/-- every `str.isspace` code point is the space, a control character, or one of the
characters `NON_PRINTABLE_RE` escapes -/
theorem isSpace_cases {c : Char} (h : isSpace c = true) :
    c = ' ' ∨ isControlChar c = true ∨ staysEscaped c = true := by
  have key : ∀ n ∈ spaceCodes, n = 32 ∨ (n ≤ 31 ∨ (127 ≤ n ∧ n ≤ 159)) ∨ n ∈ uSpaces := by decide
  simp only [isSpace, List.contains_eq_mem, decide_eq_true_eq] at h
  rcases key _ h with h1 | h1 | h1
  · left
    apply Char.ext
    apply UInt32.toNat_inj.mp
    exact h1
  · right; left
    rw [isControlChar_iff]; exact h1
  · right; right
    simp [staysEscaped, h1]

/-- **no whitespace**: on an input without control characters the safe unquoters produce no
`str.isspace` character -/
theorem noWs_safelyUnquote (U : List UInt8) {s : Str} (hs : NoCtl s) :
    ∀ c ∈ safelyUnquote U s, isSpace c = false := by
  intro c hc
  cases hsp : isSpace c with
  | false => rfl
  | true =>
    exfalso
    simp only [safelyUnquote, render, List.mem_flatMap] at hc
    obtain ⟨t, ht, hct⟩ := hc
    cases t with
    | esc h1 h2 =>
      -- '%' and hex digits are no whitespace
      have hw := outTok_unquoteToks U (escapeRaw (tokens s)) (wf_escapeRaw (wf_tokens s)) _ ht
      cases hw with
      | esc _ _ a b =>
        simp only [renderTok, List.mem_cons, List.not_mem_nil, or_false] at hct
        rcases hct with rfl | rfl | rfl
        · revert hsp; decide
        · have := isHexDigit_toNat a
          simp only [isSpace, spaceCodes, List.contains_eq_mem, decide_eq_true_eq] at hsp
          simp only [List.mem_cons, List.not_mem_nil, or_false] at hsp
          omega
        · have := isHexDigit_toNat b
          simp only [isSpace, spaceCodes, List.contains_eq_mem, decide_eq_true_eq] at hsp
          simp only [List.mem_cons, List.not_mem_nil, or_false] at hsp
          omega
    | stray =>
      simp only [renderTok, List.mem_singleton] at hct
      subst hct
      revert hsp; decide
    | raw c0 =>
      simp only [renderTok, List.mem_singleton] at hct
      subst hct
      unfold unquoteToks at ht
      rcases raw_mem_assemble _ _ ht with hse | hlit
      · -- decoded from escapes: not a character NON_PRINTABLE_RE escapes; and ≥ 0xa0 or printable ASCII
        have hw := outTok_unquoteToks U (escapeRaw (tokens s)) (wf_escapeRaw (wf_tokens s)) _
          (by unfold unquoteToks; exact ht)
        rcases isSpace_cases hsp with rfl | hctl | hst
        · exact outTok_not_space hw
        · -- a control character in the output: it must come from the input
          cases hw with
          | input _ hin _ =>
            have := (raw_mem_escapeRaw hin).1
            have hcs : c ∈ s := by
              rw [← render_tokens s]
              simp only [render, List.mem_flatMap]
              exact ⟨_, this, by simp [renderTok]⟩
            rw [hs c hcs] at hctl; cases hctl
          | ascii b hlt hk h20 =>
            have := noCtl_safelyUnquote U hs (Char.ofNat b.toNat)
              (by simp only [safelyUnquote, render, List.mem_flatMap]
                  exact ⟨_, (by unfold unquoteToks; exact ht), by simp [renderTok]⟩)
            rw [this] at hctl; cases hctl
          | high _ hhi =>
            rw [isControlChar_iff] at hctl; omega
        · rw [hse] at hst; cases hst
      · simp only [List.mem_map] at hlit
        obtain ⟨t0, ht0, hit⟩ := hlit
        rcases lit_raw_itemOf hit with ⟨rfl, hne⟩ | ⟨b, rfl, hlt, hk, h20⟩
        · obtain ⟨hin, hse⟩ := raw_mem_escapeRaw ht0
          have hcs : c ∈ s := by
            rw [← render_tokens s]
            simp only [render, List.mem_flatMap]
            exact ⟨_, hin, by simp [renderTok]⟩
          rcases isSpace_cases hsp with rfl | hctl | hst
          · exact hne rfl
          · rw [hs c hcs] at hctl; cases hctl
          · rw [hse] at hst; cases hst
        · -- a decoded printable ASCII character other than the space
          have hctl := noCtl_safelyUnquote U hs (Char.ofNat b.toNat)
            (by simp only [safelyUnquote, render, List.mem_flatMap]
                exact ⟨_, (by unfold unquoteToks; exact ht), by simp [renderTok]⟩)
          have hn : (Char.ofNat b.toNat).toNat = b.toNat := toNat_ofNat_small _ (by omega)
          rcases isSpace_cases hsp with h32 | hc' | hst
          · apply h20
            have := congrArg Char.toNat h32
            rw [hn] at this
            apply UInt8.toNat_inj.mp
            simpa using this
          · rw [hctl] at hc'; cases hc'
          · simp only [staysEscaped, isC1, uSpaces, hn, Bool.or_eq_true, Bool.and_eq_true,
              decide_eq_true_eq, List.contains_eq_mem, List.mem_cons, List.not_mem_nil,
              or_false] at hst
            omega

end Ural.Quote
