import UralModel.Lemmas.Quote
import UralModel.Lemmas.Str
/-!
The safe unquoters and `safely_quote` act independently on the pieces between raw
delimiters: the lemmas that let component-level statements (path segments, query items) be
derived from the string-level theorems of C14.
-/
set_option linter.unusedSimpArgs false

namespace Ural.Quote
open Ural.Py

/-- a character that can neither start nor continue an escape -/
def Sep (c : Char) : Prop := c ≠ '%' ∧ isHexDigit c = false

theorem tokens_append_sep {c : Char} (hc : Sep c) : ∀ (a b : Str),
    tokens (a ++ c :: b) = tokens a ++ .raw c :: tokens b
  | [], b => by simp [tokens_cons_of_ne hc.1, tokens]
  | [x], b => by
    cases b with
    | nil =>
      simp only [List.cons_append, List.nil_append]
      simp [tokens, single, hc.1]
    | cons y r =>
      simp only [List.cons_append, List.nil_append]
      simp [tokens, hc.2, tokens_cons_of_ne hc.1]
  | [x, y], b => by
    have ih := tokens_append_sep hc [y] b
    simp only [List.cons_append, List.nil_append] at ih ⊢
    simp [tokens, hc.2, ih]
  | x :: y :: z :: r, b => by
    have ih1 := tokens_append_sep hc r b
    have ih2 := tokens_append_sep hc (y :: z :: r) b
    simp only [List.cons_append] at ih2 ⊢
    simp only [tokens]
    split
    · simp [ih1]
    · simp [ih2]

theorem assemble_append_lit (its1 its2 : List Item) (t : Tok) (acc : List UInt8) :
    assemble (its1 ++ .lit t :: its2) acc = assemble its1 acc ++ t :: assemble its2 [] := by
  induction its1 generalizing acc with
  | nil => simp [assemble]
  | cons it its ih =>
    cases it with
    | lit t0 => simp [assemble, ih]
    | byte b => simp [assemble, ih]

theorem unquoteToks_append_raw (U : List UInt8) {c : Char} (hsp : c ≠ ' ') (ta tb : List Tok) :
    unquoteToks U (ta ++ .raw c :: tb) = unquoteToks U ta ++ .raw c :: unquoteToks U tb := by
  unfold unquoteToks
  simp only [List.map_append, List.map_cons]
  have : itemOf U (.raw c) = .lit (.raw c) := by simp [itemOf, hsp]
  rw [this, assemble_append_lit]

/-- the safe unquoters treat what precedes and what follows a raw delimiter independently -/
theorem safelyUnquote_append_sep (U : List UInt8) {c : Char} (hc : Sep c) (hsp : c ≠ ' ')
    (hst : staysEscaped c = false) (a b : Str) :
    safelyUnquote U (a ++ c :: b) = safelyUnquote U a ++ c :: safelyUnquote U b := by
  unfold safelyUnquote
  rw [tokens_append_sep hc, escapeRaw_append, escapeRaw_cons, escTok_raw hst]
  simp only [List.singleton_append]
  rw [unquoteToks_append_raw U hsp, render_append]
  simp [renderTok]

theorem safelyUnquote_join (U : List UInt8) {c : Char} (hc : Sep c) (hsp : c ≠ ' ')
    (hst : staysEscaped c = false) (parts : List Str) (hne : parts ≠ []) :
    safelyUnquote U (join [c] parts) = join [c] (parts.map (safelyUnquote U)) := by
  induction parts with
  | nil => exact absurd rfl hne
  | cons p ps ih =>
    cases ps with
    | nil => simp [join]
    | cons q qs =>
      simp only [join, List.map_cons]
      have : p ++ [c] ++ join [c] (q :: qs) = p ++ c :: join [c] (q :: qs) := by simp
      rw [this, safelyUnquote_append_sep U hc hsp hst, ih (by simp)]
      simp [join]

/-- an unsafe ASCII delimiter that does not occur raw in the input does not occur in the
output of the unquoter -/
theorem not_mem_safelyUnquote (U : List UInt8) {c : Char} (hc : Sep c) (hlt : c.toNat < 0x80)
    (hU : UInt8.ofNat c.toNat ∈ U) (s : Str) (hs : c ∉ s) : c ∉ safelyUnquote U s := by
  intro hmem
  simp only [safelyUnquote, render, List.mem_flatMap] at hmem
  obtain ⟨t, ht, hch⟩ := hmem
  have := outTok_unquoteToks U (escapeRaw (tokens s)) (wf_escapeRaw (wf_tokens s)) t ht
  cases this with
  | input c' hc' _ =>
    simp only [renderTok, List.mem_singleton] at hch
    subst hch
    apply hs
    rw [← render_tokens s]
    simp only [render, List.mem_flatMap]
    exact ⟨_, (raw_mem_escapeRaw hc').1, by simp [renderTok]⟩
  | esc h1 h2 a b =>
    simp only [renderTok, List.mem_cons, List.not_mem_nil, or_false] at hch
    rcases hch with h | h | h
    · exact hc.1 h
    · rw [h] at hc; have := hc.2; rw [a] at this; cases this
    · rw [h] at hc; have := hc.2; rw [b] at this; cases this
  | ascii b hlt' hk h20 =>
    simp only [renderTok, List.mem_singleton] at hch
    have : UInt8.ofNat (Char.ofNat b.toNat).toNat = b := by
      rw [toNat_ofNat_of_lt (by omega)]; simp
    rw [hch, this] at hU
    rw [keepEsc_of_mem hU] at hk
    cases hk
  | high c' hc' =>
    simp only [renderTok, List.mem_singleton] at hch
    subst hch
    omega

/-- splitting on an unsafe raw delimiter commutes with unquoting -/
theorem splitOn_safelyUnquote (U : List UInt8) {c : Char} (hc : Sep c) (hsp : c ≠ ' ')
    (hlt : c.toNat < 0x80) (hU : UInt8.ofNat c.toNat ∈ U) (s : Str) :
    splitOn (safelyUnquote U s) c = (splitOn s c).map (safelyUnquote U) := by
  have h1 : s = join [c] (splitOn s c) := (join_splitOn c s).symm
  have hne := splitOn_ne_nil s c
  conv => lhs; rw [h1]
  rw [safelyUnquote_join U hc hsp (staysEscaped_of_lt hlt) _ hne]
  apply splitOn_join
  · simpa using hne
  · intro p hp
    simp only [List.mem_map] at hp
    obtain ⟨p0, hp0, rfl⟩ := hp
    exact not_mem_safelyUnquote U hc hlt hU p0 (not_mem_of_mem_splitOn c s p0 hp0)

/-! ### safely_quote and raw `/` -/

theorem safelyQuoteBy_append_sep {f : Char → Bool} {c : Char} (hc : Sep c) (hq : f c = true) (a b : Str) :
    safelyQuoteBy f (a ++ c :: b) = safelyQuoteBy f a ++ c :: safelyQuoteBy f b := by
  unfold safelyQuoteBy
  rw [tokens_append_sep hc]
  simp only [quoteToksBy, List.flatMap_append, List.flatMap_cons, quoteTokBy, hq, if_true,
    render_append]
  simp [render, renderTok]

theorem safelyQuoteBy_join {f : Char → Bool} {c : Char} (hc : Sep c) (hq : f c = true)
    (parts : List Str) (hne : parts ≠ []) :
    safelyQuoteBy f (join [c] parts) = join [c] (parts.map (safelyQuoteBy f)) := by
  induction parts with
  | nil => exact absurd rfl hne
  | cons p ps ih =>
    cases ps with
    | nil => simp [join]
    | cons q qs =>
      simp only [join, List.map_cons]
      have : p ++ [c] ++ join [c] (q :: qs) = p ++ c :: join [c] (q :: qs) := by simp
      rw [this, safelyQuoteBy_append_sep hc hq, ih (by simp)]
      simp [join]

/-- a separator that does not occur in the input does not occur in the quoted output -/
theorem not_mem_safelyQuoteBy_of_not_mem (f : Char → Bool) {c : Char} (hc : Sep c) (s : Str) (hs : c ∉ s) :
    c ∉ safelyQuoteBy f s := by
  intro hmem
  simp only [safelyQuoteBy, render, quoteToksBy, List.mem_flatMap] at hmem
  obtain ⟨t', ⟨t, ht, ht'⟩, hch⟩ := hmem
  have hw := wf_tokens s t ht
  cases t with
  | raw c0 =>
    simp only [quoteTokBy] at ht'
    split at ht'
    · simp only [List.mem_singleton] at ht'
      subst ht'
      simp only [renderTok, List.mem_singleton] at hch
      subst hch
      apply hs
      rw [← render_tokens s]
      simp only [render, List.mem_flatMap]
      exact ⟨_, ht, by simp [renderTok]⟩
    · simp only [List.mem_map] at ht'
      obtain ⟨b, _, rfl⟩ := ht'
      have hcan := canon_escOfByte b
      simp only [escOfByte, renderTok, List.mem_cons, List.not_mem_nil, or_false] at hch
      rcases hch with e | e | e
      · exact hc.1 e
      · rw [e] at hc; have := hc.2; rw [hcan.1] at this; cases this
      · rw [e] at hc; have := hc.2; rw [hcan.2] at this; cases this
  | esc h1 h2 =>
    simp only [quoteTokBy, List.mem_singleton] at ht'
    subst ht'
    simp only [renderTok, List.mem_cons, List.not_mem_nil, or_false] at hch
    rcases hch with e | e | e
    · exact hc.1 e
    · rw [e] at hc; have := hc.2; rw [hw.1] at this; cases this
    · rw [e] at hc; have := hc.2; rw [hw.2] at this; cases this
  | stray =>
    simp only [quoteTokBy] at ht'
    split at ht'
    · simp only [List.mem_singleton] at ht'
      subst ht'
      simp only [renderTok, List.mem_singleton] at hch
      exact hc.1 hch
    · simp only [List.mem_singleton] at ht'
      subst ht'
      simp only [renderTok, List.mem_cons, List.not_mem_nil, or_false] at hch
      rcases hch with e | e | e
      · exact hc.1 e
      · rw [e] at hc; exact absurd hc.2 (by decide)
      · rw [e] at hc; exact absurd hc.2 (by decide)

theorem splitOn_safelyQuoteBy {f : Char → Bool} {c : Char} (hc : Sep c) (hq : f c = true) (s : Str) :
    splitOn (safelyQuoteBy f s) c = (splitOn s c).map (safelyQuoteBy f) := by
  have h1 : s = join [c] (splitOn s c) := (join_splitOn c s).symm
  have hne := splitOn_ne_nil s c
  conv => lhs; rw [h1]
  rw [safelyQuoteBy_join hc hq _ hne]
  apply splitOn_join
  · simpa using hne
  · intro p hp
    simp only [List.mem_map] at hp
    obtain ⟨p0, hp0, rfl⟩ := hp
    exact not_mem_safelyQuoteBy_of_not_mem f hc p0 (not_mem_of_mem_splitOn c s p0 hp0)

/-! ### the default `safe="/"` -/

theorem safelyQuote_append_sep {c : Char} (hc : Sep c) (hq : quoteSafe c = true) (a b : Str) :
    safelyQuote (a ++ c :: b) = safelyQuote a ++ c :: safelyQuote b := by
  simp only [safelyQuote_eq_by]; exact safelyQuoteBy_append_sep hc hq a b

theorem safelyQuote_join {c : Char} (hc : Sep c) (hq : quoteSafe c = true)
    (parts : List Str) (hne : parts ≠ []) :
    safelyQuote (join [c] parts) = join [c] (parts.map safelyQuote) := by
  have e : safelyQuote = safelyQuoteBy quoteSafe := funext safelyQuote_eq_by
  rw [e]; exact safelyQuoteBy_join hc hq parts hne

/-- a separator that does not occur in the input does not occur in the quoted output -/
theorem not_mem_safelyQuote_of_not_mem {c : Char} (hc : Sep c) (s : Str) (hs : c ∉ s) :
    c ∉ safelyQuote s := by
  rw [safelyQuote_eq_by]; exact not_mem_safelyQuoteBy_of_not_mem _ hc s hs

theorem splitOn_safelyQuote {c : Char} (hc : Sep c) (hq : quoteSafe c = true) (s : Str) :
    splitOn (safelyQuote s) c = (splitOn s c).map safelyQuote := by
  have e : safelyQuote = safelyQuoteBy quoteSafe := funext safelyQuote_eq_by
  rw [e]; exact splitOn_safelyQuoteBy hc hq s

end Ural.Quote
