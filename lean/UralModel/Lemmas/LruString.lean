import UralModel.Model.LruUrl
import UralModel.Lemmas.CanonRoundTrip
import UralModel.Lemmas.LruHostname
import UralModel.Lemmas.LruStems
/-!
# The parser inside the LRU model: what `urlsplit(ensure_protocol(u))` returns, and why the
# components `lru_to_url` hands to `urlunsplit` are printed unambiguously (C12 / C13, strings)

* `ensure_shape`, `urlsplit_proto`, `splitFacts_proto`: `ensure_protocol(u)` is
  `letters://rest`; `urlsplit` of such a string, stage by stage (the cleaning step removes tab,
  CR, LF from `rest` — unlike `canonicalize_url`, `lru_stems` does not strip control characters
  first), and the facts about its result (`CanonRoundTrip.SplitFacts`);
* `pyUrlunsplit_eq20`: the `urlunsplit` model of `Py/Split.lean` (used by `Model/Lru.lean`) is
  `Py.urlunsplit20` (used by `Lemmas/UrlRoundTrip.lean`);
* `netlocOk_canon`: the bracket check of `urlsplit` passes on the re-assembled netloc;
* `wf_expected`: the expected components satisfy `UrlRoundTrip.WF`, hence
  `urlsplit (urlunsplit t) = t` (`urlsplit_urlunsplit20`) applies to them.
-/
set_option linter.unusedSimpArgs false
set_option linter.unusedVariables false
set_option linter.unusedSectionVars false

namespace Ural.LruString
open Ural Ural.Py Ural.Lru Ural.UrlRoundTrip

/-! ## `ensure_protocol(u)` -/

theorem httpProto_shaped : SchemeShaped (rstripChars httpProto [':', '/']) :=
  ⟨⟨'h', ['t', 't', 'p'], by decide, by decide⟩, by decide⟩

/-- 1 to 64 ASCII letters: what `PROTOCOL_RE` recognises again -/
def Letters (S : Str) : Prop := S ≠ [] ∧ (∀ c ∈ S, isAsciiAlpha c = true) ∧ S.length ≤ 64

theorem Letters.shaped {S : Str} (h : Letters S) : SchemeShaped S := by
  obtain ⟨hne, hall, _⟩ := h
  cases S with
  | nil => exact absurd rfl hne
  | cons c r =>
    refine ⟨⟨c, r, rfl, hall c (by simp)⟩, ?_⟩
    apply List.all_eq_true.2
    intro x hx
    simp [isSchemeChar, hall x hx]

theorem Letters.lower {S : Str} (h : Letters S) : Letters (Py.lower S) := by
  obtain ⟨hne, hall, hlen⟩ := h
  refine ⟨by simpa [Py.lower] using hne, ?_, by simpa [Py.lower] using hlen⟩
  intro c hc
  simp only [Py.lower, List.mem_map] at hc
  obtain ⟨d, hd, rfl⟩ := hc
  exact CanonRoundTrip.isAsciiAlpha_lowerChar (hall d hd)

/-- `ensure_protocol(u)` is `letters://rest` with `rest` made of characters of `u` -/
theorem ensure_shape (u : Str) :
    ∃ S rest, Letters S ∧ UrlParts.ensureProtocol u httpProto = S ++ ':' :: '/' :: '/' :: rest ∧
      rest ⊆ u := by
  obtain ⟨S, rest, hS, he, hsub, hl⟩ := CanonRoundTrip.ensureProtocol_shape u httpProto httpProto_shaped
  have := hl (by decide) (by decide)
  refine ⟨S, rest, ⟨?_, this.1, this.2⟩, he, hsub⟩
  obtain ⟨⟨c, r, e, _⟩, _⟩ := hS
  rw [e]; simp

/-- a string `letters://…` is left alone by `ensure_protocol` -/
theorem ensure_id (S rest dp : Str) (h : Letters S) :
    UrlParts.ensureProtocol (S ++ ':' :: '/' :: '/' :: rest) dp = S ++ ':' :: '/' :: '/' :: rest := by
  obtain ⟨hne, halpha, hlen⟩ := h
  have hsw : startsWith (S ++ ':' :: '/' :: '/' :: rest) ['/', '/'] = false := by
    cases S with
    | nil => exact absurd rfl hne
    | cons c cs =>
      have : '/' ≠ c := by
        intro e; have := halpha c (by simp); rw [← e] at this; revert this; decide
      simp [startsWith, List.isPrefixOf, this]
  have htw : (S ++ ':' :: '/' :: '/' :: rest).takeWhile isAsciiAlpha = S :=
    takeWhile_append_stop _ _ _ halpha (by intro c hc; simp at hc; subst hc; decide)
  have hpl : UrlParts.protoLen (S ++ ':' :: '/' :: '/' :: rest) = some (S.length + 3) := by
    unfold UrlParts.protoLen
    simp only [hsw, Bool.false_eq_true, if_false, htw]
    have h1 : 1 ≤ S.length := by
      cases S with
      | nil => exact absurd rfl hne
      | cons _ _ => simp
    have hdrop : (S ++ ':' :: '/' :: '/' :: rest).drop S.length = ':' :: '/' :: '/' :: rest :=
      List.drop_left
    have hd : startsWith (':' :: '/' :: '/' :: rest) [':', '/', '/'] = true := by
      simp [startsWith, List.isPrefixOf]
    rw [hdrop]
    simp [h1, hlen, hd]
  unfold UrlParts.ensureProtocol
  simp only [hpl, hsw, Bool.false_eq_true, if_false]

/-! ## `urlsplit` on `letters://rest` -/

/-- the cleaning step of `urlsplit` on what follows `://`: tab, CR, LF removed -/
def cleanRest (rest : Str) : Str := rest.filter (fun c => !isUnsafeUrlChar c)

theorem cleanRest_subset (rest : Str) : cleanRest rest ⊆ rest :=
  (List.filter_sublist).subset

theorem cleanRest_clean (rest : Str) : ∀ c ∈ cleanRest rest, isUnsafeUrlChar c = false := by
  intro c hc
  simp only [cleanRest, List.mem_filter, Bool.not_eq_true'] at hc
  exact hc.2

theorem cleanUrl_proto (S rest : Str) (hS : SchemeShaped S) :
    cleanUrl (S ++ ':' :: '/' :: '/' :: rest) = S ++ ':' :: '/' :: '/' :: cleanRest rest := by
  obtain ⟨⟨c, r, rfl, hc⟩, hall⟩ := hS
  unfold cleanUrl
  have hd : ((c :: r) ++ ':' :: '/' :: '/' :: rest).dropWhile isC0OrSpace =
      (c :: r) ++ ':' :: '/' :: '/' :: rest := by
    simp [List.dropWhile_cons, alpha_not_c0 hc]
  rw [hd, List.filter_append]
  have h1 : (c :: r).filter (fun c => !isUnsafeUrlChar c) = c :: r := by
    rw [List.filter_eq_self]
    intro a ha
    have := unsafe_of_ctl (isSchemeChar_not_ctl (List.all_eq_true.1 hall a ha))
    simp [this]
  rw [h1]
  simp [cleanRest, isUnsafeUrlChar]

/-- `urlsplit` on `letters://rest`, stage by stage -/
theorem urlsplit_proto (S rest : Str) (hS : SchemeShaped S) :
    urlsplit (S ++ ':' :: '/' :: '/' :: rest) [] =
      (if !netlocOk ((cleanRest rest).takeWhile (fun c => !isNetlocDelim c)) then none
       else some ⟨Py.lower S, (cleanRest rest).takeWhile (fun c => !isNetlocDelim c),
         (splitFirst (splitFirst ((cleanRest rest).dropWhile (fun c => !isNetlocDelim c)) '#').1 '?').1,
         (splitFirst (splitFirst ((cleanRest rest).dropWhile (fun c => !isNetlocDelim c)) '#').1 '?').2.getD [],
         (splitFirst ((cleanRest rest).dropWhile (fun c => !isNetlocDelim c)) '#').2.getD []⟩) := by
  unfold urlsplit
  rw [cleanUrl_proto S rest hS]
  have hs : splitScheme (S ++ ':' :: '/' :: '/' :: cleanRest rest) [] =
      (Py.lower S, '/' :: '/' :: cleanRest rest) := CanonRoundTrip.splitScheme_scheme' S _ hS
  have hn : splitNetloc ('/' :: '/' :: cleanRest rest) =
      ((cleanRest rest).takeWhile (fun c => !isNetlocDelim c),
        (cleanRest rest).dropWhile (fun c => !isNetlocDelim c)) := by
    unfold splitNetloc
    simp [startsWith_cons_cons, startsWith_nil]
  simp only [hs, hn]

open CanonRoundTrip in
/-- the facts about the split result (as `CanonRoundTrip.splitFacts`, for a string that was not
stripped of its control characters) -/
theorem splitFacts_proto {S rest0 : Str} (hS : SchemeShaped S) {r : SplitResult}
    (hr : urlsplit (S ++ ':' :: '/' :: '/' :: rest0) [] = some r) :
    SplitFacts S (cleanRest rest0) r := by
  rw [urlsplit_proto S rest0 hS] at hr
  generalize cleanRest rest0 = rest at hr ⊢
  split at hr
  · cases hr
  · rename_i hok
    simp only [Option.some.injEq] at hr
    subst hr
    have hd : rest.dropWhile (fun c => !isNetlocDelim c) ⊆ rest :=
      (List.dropWhile_sublist _).subset
    have hf1 := splitFirst_spec_s20 (rest.dropWhile (fun c => !isNetlocDelim c)) '#'
    have hq1 := splitFirst_spec_s20 (splitFirst (rest.dropWhile (fun c => !isNetlocDelim c)) '#').1 '?'
    have hs1 := splitFirst_fst_subset (rest.dropWhile (fun c => !isNetlocDelim c)) '#'
    have hs2 := splitFirst_fst_subset (splitFirst (rest.dropWhile (fun c => !isNetlocDelim c)) '#').1 '?'
    refine ⟨rfl, ?_, by simpa using hok, hq1.1, ?_, ?_, ?_, (List.takeWhile_sublist _).subset,
      fun x hx => hd (hs1 (hs2 hx)), ?_, fun x hx => hd (splitFirst_snd_subset _ _ hx)⟩
    · intro ch hch
      have := mem_takeWhile_s20 _ _ ch hch
      simpa using this
    · intro hm; exact hf1.1 (hs2 hm)
    · intro hm; exact hf1.1 (splitFirst_snd_subset _ _ hm)
    · -- the path is empty or starts with a slash
      have hhead := List.head?_dropWhile_not (fun c => !isNetlocDelim c) rest
      cases htl : rest.dropWhile (fun c => !isNetlocDelim c) with
      | nil => left; simp [splitFirst_nil_s20]
      | cons d t =>
        rw [htl] at hhead
        simp only [List.head?_cons, Bool.not_eq_false', isNetlocDelim, Bool.or_eq_true,
          decide_eq_true_eq] at hhead
        rcases hhead with (rfl | rfl) | rfl
        · right
          simp only [splitFirst_cons_s20, show ('/' : Char) ≠ '#' by decide,
            show ('/' : Char) ≠ '?' by decide, if_false]
          exact ⟨_, rfl⟩
        · left
          simp only [splitFirst_cons_s20, show ('?' : Char) ≠ '#' by decide, if_false, if_true]
        · left
          simp only [splitFirst_cons_s20, if_true, splitFirst_nil_s20]
    · intro x hx; exact hd (hs1 (splitFirst_snd_subset _ _ hx))

/-- everything the theorems need to know about `urlsplit(ensure_protocol(u))` -/
structure UrlFacts (u : Str) (p : Parts) : Prop where
  /-- the scheme is 1–64 lower-cased ASCII letters -/
  scheme_letters : Letters p.scheme
  scheme_lower : Py.lower p.scheme = p.scheme
  nodelim : ∀ ch ∈ p.netloc, isNetlocDelim ch = false
  ok : netlocOk p.netloc = true
  path_noq : '?' ∉ p.path
  path_noh : '#' ∉ p.path
  query_noh : '#' ∉ p.query
  path_abs : p.path = [] ∨ ∃ q, p.path = '/' :: q
  /-- no tab, CR, LF in any component -/
  clean : ∀ c, c ∈ p.netloc ∨ c ∈ p.path ∨ c ∈ p.query ∨ c ∈ p.fragment → isUnsafeUrlChar c = false
  /-- the characters of the components are characters of `u` -/
  sub : ∀ c, c ∈ p.netloc ∨ c ∈ p.path ∨ c ∈ p.query ∨ c ∈ p.fragment → c ∈ u

theorem urlFacts {u : Str} {p : Parts} (h : urlParts u = some p) : UrlFacts u p := by
  unfold urlParts at h
  obtain ⟨S, rest, hL, he, hsub⟩ := ensure_shape u
  rw [he] at h
  cases hr : urlsplit (S ++ ':' :: '/' :: '/' :: rest) [] with
  | none => rw [hr] at h; cases h
  | some r =>
    rw [hr] at h
    simp only [Option.map_some, Option.some.injEq] at h
    subst h
    have f := splitFacts_proto hL.shaped hr
    have hin : ∀ c, c ∈ r.netloc ∨ c ∈ r.path ∨ c ∈ r.query ∨ c ∈ r.fragment → c ∈ cleanRest rest := by
      intro c hc
      rcases hc with hc | hc | hc | hc
      · exact f.sub_netloc hc
      · exact f.sub_path hc
      · exact f.sub_query hc
      · exact f.sub_fragment hc
    refine ⟨?_, ?_, f.nodelim, f.ok, f.path_noq, f.path_noh, f.query_noh, f.path_abs, ?_, ?_⟩
    · show Letters r.scheme
      rw [f.scheme]; exact hL.lower
    · show Py.lower r.scheme = r.scheme
      rw [f.scheme]; exact Lru.lower_idem S
    · intro c hc; exact cleanRest_clean rest c (hin c hc)
    · intro c hc; exact hsub (cleanRest_subset rest (hin c hc))


/-! ## the two models of `urlunsplit` used by the LRU model and by the round-trip lemma agree -/

theorem pyUsesNetloc_contains (s : Str) :
    Py.usesNetloc.contains (String.ofList s) = inTable usesNetloc20 s := by
  rw [contains_ofList]; rfl

/-- `Py.urlunsplit` (`Py/Split.lean`, used by `lru_to_url`'s model) is `Py.urlunsplit20` -/
theorem pyUrlunsplit_eq20 (scheme netloc path query fragment : Str) :
    Py.urlunsplit scheme netloc path query fragment =
      urlunsplit20 scheme netloc path query fragment := by
  have hcond : (netloc ≠ [] ∨ (scheme ≠ [] ∧ Py.usesNetloc.contains (String.ofList scheme) = true ∧
        path.take 2 ≠ ['/', '/'])) ↔
      ((decide (netloc ≠ []) || (decide (scheme ≠ []) && inTable usesNetloc20 scheme &&
        !startsWith path ['/', '/'])) = true) := by
    rw [pyUsesNetloc_contains, take2_ne]
    simp [Bool.and_assoc]
  have hslash : (path ≠ [] ∧ path.take 1 ≠ ['/']) ↔
      ((decide (path ≠ []) && !startsWith path ['/']) = true) := by
    rw [take1_ne]; simp
  simp only [Py.urlunsplit, urlunsplit20]
  by_cases hc : (decide (netloc ≠ []) || (decide (scheme ≠ []) && inTable usesNetloc20 scheme &&
        !startsWith path ['/', '/'])) = true
  · rw [if_pos (hcond.2 hc), if_pos hc]
    by_cases hs : (decide (path ≠ []) && !startsWith path ['/']) = true
    · rw [if_pos (hslash.2 hs), if_pos hs]
      simp
    · have hs' : ¬ (path ≠ [] ∧ path.take 1 ≠ ['/']) := fun h => hs (hslash.1 h)
      rw [if_neg hs', if_neg hs]
      simp
  · have hc' : ¬ _ := fun h => hc (hcond.1 h)
    rw [if_neg hc', if_neg hc]

theorem renderParts_eq20 (p : Parts) :
    renderParts p = urlunsplit20 p.scheme p.netloc p.path p.query p.fragment :=
  pyUrlunsplit_eq20 _ _ _ _ _

/-! ## where the characters of the re-assembled netloc come from -/

theorem mem_specPort {n port : Str} {c : Char} (hp : specPort n = some port) (h : c ∈ port) :
    c ∈ hostportOf n := by
  unfold specPort at hp
  cases hs : specHostPort (hostportOf n) with
  | none => simp [hs] at hp
  | some ho =>
    obtain ⟨host, op⟩ := ho
    simp only [hs] at hp
    subst hp
    rw [specHostPort_some hs]; simp [optPart, h]

theorem mem_userOf_auth {n : Str} {c : Char} (h : c ∈ (userOf n).getD []) :
    c ∈ (authOf n).getD [] := by
  unfold userOf at h
  cases ha : authOf n with
  | none => simp [ha] at h
  | some auth =>
    simp only [ha, Option.map_some, Option.getD_some] at h ⊢
    exact mem_userOfAuth h

theorem mem_passwordOf_auth {n : Str} {c : Char} (h : c ∈ (passwordOf n).getD []) :
    c ∈ (authOf n).getD [] := by
  unfold passwordOf at h
  cases ha : authOf n with
  | none => simp [ha] at h
  | some auth =>
    simp only [ha, Option.bind_some] at h
    cases hw : passwordOfAuth auth with
    | none => simp [hw] at h
    | some w =>
      simp only [hw, Option.getD_some] at h ⊢
      exact mem_passwordOfAuth hw h

theorem mem_auth_netloc {n : Str} {c : Char} (h : c ∈ (authOf n).getD []) : c ∈ n := by
  cases ha : authOf n with
  | none => simp [ha] at h
  | some auth =>
    simp only [ha, Option.getD_some] at h
    rw [(netloc_of_authOf ha).1]; simp [h]

theorem mem_canonAuth {n : Str} {c : Char} (h : c ∈ canonAuth n) :
    c ∈ (authOf n).getD [] ∨ c = ':' ∨ c = '@' := by
  unfold canonAuth at h
  simp only at h
  by_cases hw : (passwordOf n).getD [] = []
  · simp only [hw, ne_eq, not_true_eq_false, if_false, List.append_nil] at h
    by_cases hu : (userOf n).getD [] = []
    · simp [hu] at h
    · simp only [hu, not_false_eq_true, if_true, List.mem_append, List.mem_cons,
        List.not_mem_nil, or_false] at h
      rcases h with h | h
      · exact Or.inl (mem_userOf_auth h)
      · exact Or.inr (Or.inr h)
  · simp only [hw, ne_eq, not_false_eq_true, if_true] at h
    split at h
    · simp only [List.mem_append, List.mem_cons, List.not_mem_nil, or_false] at h
      rcases h with (h | h | h) | h
      · exact Or.inl (mem_userOf_auth h)
      · exact Or.inr (Or.inl h)
      · exact Or.inl (mem_passwordOf_auth h)
      · exact Or.inr (Or.inr h)
    · simp at h

theorem mem_canonNetloc {n h' : Str} {c : Char} (h : c ∈ canonNetloc n h') :
    c ∈ (authOf n).getD [] ∨ c ∈ h' ∨ c ∈ hostportOf n ∨ c = ':' ∨ c = '@' := by
  unfold canonNetloc at h
  simp only [List.mem_append] at h
  rcases h with (h | h) | h
  · rcases mem_canonAuth h with h | h | h
    · exact Or.inl h
    · exact Or.inr (Or.inr (Or.inr (Or.inl h)))
    · exact Or.inr (Or.inr (Or.inr (Or.inr h)))
  · exact Or.inr (Or.inl h)
  · cases hp : specPort n with
    | none => simp [hp, optPart] at h
    | some port =>
      simp only [hp, optPart, List.mem_cons] at h
      rcases h with h | h
      · exact Or.inr (Or.inr (Or.inr (Or.inl h)))
      · exact Or.inr (Or.inr (Or.inl (mem_specPort hp h)))

section
variable (sp : Str → Option (Str × Str))

theorem mem_expectedHost {sa : Bool} {n : Str} {c : Char} (hx : ¬ ('a' ≤ c ∧ c ≤ 'z'))
    (h : c ∈ expectedHost sp sa n) : c ∈ hostportOf n := by
  unfold expectedHost at h
  split at h
  · exact mem_specHost (mem_of_mem_lower hx h)
  · exact mem_specHost h

/-- a character that is neither a lower-case letter nor `:` / `@` occurs in the re-assembled
netloc only if it occurs in the netloc of `u` -/
theorem mem_expected_netloc {sa : Bool} {n : Str} {c : Char} (hx : ¬ ('a' ≤ c ∧ c ≤ 'z'))
    (h1 : c ≠ ':') (h2 : c ≠ '@') (h : c ∈ canonNetloc n (expectedHost sp sa n)) : c ∈ n := by
  rcases mem_canonNetloc h with h | h | h | h | h
  · exact mem_auth_netloc h
  · exact mem_hostportOf (mem_expectedHost sp hx h)
  · exact mem_hostportOf h
  · exact absurd h h1
  · exact absurd h h2

end

/-! ## the bracket check of `urlsplit` on the re-assembled netloc -/

/-- with the first `[` opening `[inner]`, the bracket check is the check of `inner` -/
theorem netlocOk_bracketed (a inner rest : Str) (ha : '[' ∉ a) (hi : ']' ∉ inner) :
    netlocOk (a ++ '[' :: (inner ++ ']' :: rest)) = bracketedHostOk inner := by
  unfold netlocOk
  have hL : (a ++ '[' :: (inner ++ ']' :: rest)).contains '[' = true :=
    CanonRoundTrip.contains_true_of_mem (by simp)
  have hR : (a ++ '[' :: (inner ++ ']' :: rest)).contains ']' = true :=
    CanonRoundTrip.contains_true_of_mem (by simp)
  simp only [hL, hR, bne_self_eq_false, Bool.false_eq_true, if_false, if_true]
  rw [dropWhile_append_stop _ _ _ (fun c hc => by
      simp only [ne_eq, decide_eq_true_eq]; rintro rfl; exact ha hc)
      (fun c hc => by simp at hc; simp [← hc])]
  simp only [List.drop_succ_cons, List.drop_zero]
  rw [takeWhile_append_stop _ _ _ (fun c hc => by
      simp only [ne_eq, decide_eq_true_eq]; rintro rfl; exact hi hc)
      (fun c hc => by simp at hc; simp [← hc])]

theorem noBracket_auth {n : Str} (hauth : noneOf ['[', ']'] ((authOf n).getD []) = true) {c : Char}
    (hc : c = '[' ∨ c = ']') : c ∉ (authOf n).getD [] := by
  intro hm
  have := noneOf_iff.mp hauth c hm
  rcases hc with rfl | rfl <;> simp at this

theorem noBracket_canonAuth {n : Str} (hauth : noneOf ['[', ']'] ((authOf n).getD []) = true)
    {c : Char} (hc : c = '[' ∨ c = ']') : c ∉ canonAuth n := by
  intro hm
  rcases mem_canonAuth hm with h | h | h
  · exact noBracket_auth hauth hc h
  · rcases hc with rfl | rfl <;> cases h
  · rcases hc with rfl | rfl <;> cases h

/-- the netloc is its userinfo part followed by `host[:port]` -/
theorem netloc_decomp (n : Str) :
    ∃ pre, n = pre ++ hostportOf n ∧ ∀ c ∈ pre, c ∈ (authOf n).getD [] ∨ c = '@' := by
  cases ha : authOf n with
  | none => exact ⟨[], by simp [(authOf_none ha).1], by simp⟩
  | some auth =>
    refine ⟨auth ++ ['@'], ?_, ?_⟩
    · have := (netloc_of_authOf ha).1
      simpa using this
    · intro c hc
      simp only [List.mem_append, List.mem_cons, List.not_mem_nil, or_false] at hc
      simpa using hc

theorem plain_lower {s : Str} (h : Plain s) : Plain (Py.lower s) := by
  intro c hc
  exact ⟨fun e => (h _ (mem_of_mem_lower (by decide) (e ▸ hc))).1 rfl,
    fun e => (h _ (mem_of_mem_lower (by decide) (e ▸ hc))).2.1 rfl,
    fun e => (h _ (mem_of_mem_lower (by decide) (e ▸ hc))).2.2 rfl⟩

/-- **the bracket check passes again**: when the userinfo holds no raw bracket, and the host is
kept as written (always so when it is a bracketed literal) or is a plain host lower-cased -/
theorem netlocOk_canon {n h' : Str} (hwf : wfNetloc n = true)
    (hauth : noneOf ['[', ']'] ((authOf n).getD []) = true) (hok : netlocOk n = true)
    (hh : h' = specHost n ∨ (Plain (specHost n) ∧ h' = Py.lower (specHost n))) :
    netlocOk (canonNetloc n h') = true := by
  obtain ⟨hat, _, hhp, hshape, hport⟩ := wfNetloc_shape hwf
  have hportNB : ∀ c, c = '[' ∨ c = ']' → c ∉ optPart ':' (specPort n) := by
    intro c hc hm
    cases hp : specPort n with
    | none => simp [hp, optPart] at hm
    | some port =>
      simp only [hp, optPart, List.mem_cons] at hm
      rcases hm with hm | hm
      · rcases hc with rfl | rfl <;> cases hm
      · have := hport port hp c hm
        rcases hc with rfl | rfl
        · exact this.2.1 rfl
        · exact this.2.2 rfl
  rcases hshape with ⟨inner, hin, hnb⟩ | hplain
  · -- bracketed: the host is kept
    have hh' : h' = '[' :: inner ++ [']'] := by
      rcases hh with hh | ⟨hp, _⟩
      · rw [hh, hin]
      · exact absurd hin (not_bracket_of_plain hp _)
    have hi : ']' ∉ inner := fun h => (hnb _ h).2 rfl
    obtain ⟨pre, hn, hpre⟩ := netloc_decomp n
    have hpreNB : '[' ∉ pre := by
      intro hm
      rcases hpre _ hm with h | h
      · exact noBracket_auth hauth (Or.inl rfl) h
      · cases h
    have e1 : n = pre ++ '[' :: (inner ++ ']' :: optPart ':' (specPort n)) := by
      conv => lhs; rw [hn, hhp, hin]
      simp
    have e2 : canonNetloc n h' = canonAuth n ++ '[' :: (inner ++ ']' :: optPart ':' (specPort n)) := by
      rw [hh']; simp [canonNetloc]
    rw [e1, netlocOk_bracketed _ _ _ hpreNB hi] at hok
    rw [e2, netlocOk_bracketed _ _ _ (noBracket_canonAuth hauth (Or.inl rfl)) hi]
    exact hok
  · -- plain host: no bracket anywhere
    have hp' : Plain h' := by
      rcases hh with hh | ⟨_, hh⟩
      · rw [hh]; exact hplain
      · rw [hh]; exact plain_lower hplain
    have hnb : ∀ c, c = '[' ∨ c = ']' → c ∉ canonNetloc n h' := by
      intro c hc hm
      unfold canonNetloc at hm
      simp only [List.mem_append] at hm
      rcases hm with (hm | hm) | hm
      · exact noBracket_canonAuth hauth hc hm
      · rcases hc with rfl | rfl
        · exact (hp' _ hm).2.1 rfl
        · exact (hp' _ hm).2.2 rfl
      · exact hportNB c hc hm
    exact CanonRoundTrip.netlocOk_of_no_bracket (hnb _ (Or.inl rfl)) (hnb _ (Or.inr rfl))

/-! ## the expected components are printed unambiguously -/

section
variable (sp : Str → Option (Str × Str))

/-- the host handed to `urlunsplit` is the host as written — always so for a bracketed literal,
which stems.py never suffix-processes — or a plain host lower-cased -/
theorem expectedHost_cases (sa : Bool) (n : Str) (hshape : HostShape (specHost n)) :
    expectedHost sp sa n = specHost n ∨
      (Plain (specHost n) ∧ expectedHost sp sa n = Py.lower (specHost n)) := by
  unfold expectedHost
  split
  · rename_i hc
    simp only [Bool.and_eq_true] at hc
    rcases hshape with ⟨inner, hin, _⟩ | hp
    · have : hostSplit sp n = none := by
        unfold hostSplit
        rw [hin]; rfl
      rw [this] at hc
      simp at hc
    · exact Or.inr ⟨hp, rfl⟩
  · exact Or.inl rfl

theorem expected_netloc_ne_nil (sa : Bool) {n : Str} (hhost : specHost n ≠ []) :
    canonNetloc n (expectedHost sp sa n) ≠ [] := by
  have : expectedHost sp sa n ≠ [] := by
    unfold expectedHost
    split
    · simpa [Py.lower] using hhost
    · exact hhost
  intro e
  unfold canonNetloc at e
  simp only [List.append_eq_nil_iff] at e
  exact this e.1.2

/-- **the components `lru_to_url` hands to `urlunsplit` satisfy `UrlRoundTrip.WF`** -/
theorem wf_expected {u : Str} {p : Parts} (sa : Bool) (hf : UrlFacts u p)
    (hwf : wfNetloc p.netloc = true) (hhost : specHost p.netloc ≠ [])
    (hok : netlocOk (canonNetloc p.netloc (expectedHost sp sa p.netloc)) = true) :
    WF p.scheme (canonNetloc p.netloc (expectedHost sp sa p.netloc)) p.path p.query p.fragment := by
  have hne : canonNetloc p.netloc (expectedHost sp sa p.netloc) ≠ [] :=
    expected_netloc_ne_nil sp sa hhost
  have hsne : p.scheme ≠ [] := hf.scheme_letters.1
  refine ⟨Or.inr ⟨hf.scheme_letters.shaped, hf.scheme_lower⟩, ?_, hok, hf.path_noq, hf.path_noh,
    hf.query_noh, fun _ => hf.path_abs, fun e => absurd e hne, fun e => absurd e hsne,
    fun e => absurd e hsne, ?_⟩
  · intro c hc
    cases hd : isNetlocDelim c with
    | false => rfl
    | true =>
      exfalso
      have hcn : c ∈ p.netloc := by
        simp only [isNetlocDelim, Bool.or_eq_true, decide_eq_true_eq] at hd
        rcases hd with (rfl | rfl) | rfl
        · exact mem_expected_netloc sp (by decide) (by decide) (by decide) hc
        · exact mem_expected_netloc sp (by decide) (by decide) (by decide) hc
        · exact mem_expected_netloc sp (by decide) (by decide) (by decide) hc
      rw [hf.nodelim c hcn] at hd; cases hd
  · intro c hc
    cases hd : isUnsafeUrlChar c with
    | false => rfl
    | true =>
      exfalso
      simp only [List.mem_append] at hc
      rcases hc with (((hc | hc) | hc) | hc) | hc
      · have := unsafe_of_ctl (isSchemeChar_not_ctl (schemeShaped_mem hf.scheme_letters.shaped c hc))
        rw [this] at hd; cases hd
      · have hcn : c ∈ p.netloc := by
          simp only [isUnsafeUrlChar, Bool.or_eq_true, decide_eq_true_eq] at hd
          rcases hd with (rfl | rfl) | rfl
          · exact mem_expected_netloc sp (by decide) (by decide) (by decide) hc
          · exact mem_expected_netloc sp (by decide) (by decide) (by decide) hc
          · exact mem_expected_netloc sp (by decide) (by decide) (by decide) hc
        rw [hf.clean c (Or.inl hcn)] at hd; cases hd
      · rw [hf.clean c (Or.inr (Or.inl hc))] at hd; cases hd
      · rw [hf.clean c (Or.inr (Or.inr (Or.inl hc)))] at hd; cases hd
      · rw [hf.clean c (Or.inr (Or.inr (Or.inr hc)))] at hd; cases hd

end


/-! ## CPython's `.hostname` (model of `Py/Split.lean`) only holds characters of the netloc -/

theorem mem_afterLast {sep c : Char} {s : Str} (h : c ∈ afterLast sep s) : c ∈ s := by
  unfold afterLast at h
  have := (List.takeWhile_sublist _).subset (List.mem_reverse.1 h)
  exact List.mem_reverse.1 this

theorem mem_beforeFirst {sep c : Char} {s : Str} (h : c ∈ beforeFirst sep s) : c ∈ s := by
  unfold beforeFirst at h
  cases hs : splitAtFirst sep s with
  | none => simpa [hs] using h
  | some ab =>
    obtain ⟨a, b⟩ := ab
    simp only [hs] at h
    rw [(splitAtFirst_eq_some.mp hs).1]; simp [h]

theorem mem_pyHostinfoHost {n : Str} {c : Char} (h : c ∈ pyHostinfoHost n) : c ∈ n := by
  unfold pyHostinfoHost at h
  simp only at h
  cases hs : splitAtFirst '[' (afterLast '@' n) with
  | none =>
    simp only [hs] at h
    exact mem_afterLast (mem_beforeFirst h)
  | some ab =>
    obtain ⟨a, b⟩ := ab
    simp only [hs] at h
    have hb := mem_beforeFirst h
    apply mem_afterLast (sep := '@')
    rw [(splitAtFirst_eq_some.mp hs).1]; simp [hb]

/-- a character that is neither a lower-case letter nor `%` occurs in `.hostname` only if it
occurs in the netloc -/
theorem mem_pyHostname {n : Str} {c : Char} (hx : ¬ ('a' ≤ c ∧ c ≤ 'z')) (h1 : c ≠ '%')
    (h : c ∈ pyHostname n) : c ∈ n := by
  unfold pyHostname at h
  simp only at h
  cases hs : splitAtFirst '%' (pyHostinfoHost n) with
  | none =>
    simp only [hs] at h
    exact mem_pyHostinfoHost (mem_of_mem_lower hx h)
  | some ab =>
    obtain ⟨a, zone⟩ := ab
    simp only [hs, List.mem_append, List.mem_cons] at h
    apply mem_pyHostinfoHost
    rw [(splitAtFirst_eq_some.mp hs).1]
    rcases h with h | h | h
    · simp [mem_of_mem_lower hx h]
    · exact absurd h h1
    · simp [h]

theorem pyHostname_congr {a b : Str} (h : pyHostinfoHost a = pyHostinfoHost b) :
    pyHostname a = pyHostname b := by
  unfold pyHostname; rw [h]

/-! ## the printed URL starts with `scheme://` -/

theorem printed_shape (p : Parts) (hs : Letters p.scheme) (hn : p.netloc ≠ [])
    (hpath : p.path = [] ∨ ∃ q, p.path = '/' :: q) :
    ∃ rest, renderParts p = p.scheme ++ ':' :: '/' :: '/' :: rest := by
  rw [renderParts_eq20, urlunsplit20_eq,
    bodyOf_true _ _ _ (by simp [hn]) hpath]
  refine ⟨p.netloc ++ p.path ++ (queryPart p.query ++ fragPart p.fragment), ?_⟩
  simp [schemePart, hs.1]


/-! ## CPython's accessors (`Py/UrlAccessors.lean`: `.username .password .hostname .port`) on a
netloc of the grammar -/

theorem splitFirst_of_none {c : Char} {s : Str} (h : splitAtFirst c s = none) :
    splitFirst s c = (s, none) :=
  splitFirst_notMem_s20 s c (splitAtFirst_eq_none.mp h)

theorem splitFirst_of_some {c : Char} {s a b : Str} (h : splitAtFirst c s = some (a, b)) :
    splitFirst s c = (a, some b) := by
  obtain ⟨e, hn⟩ := splitAtFirst_eq_some.mp h
  rw [e]; exact splitFirst_append_sep_s20 a b c hn

/-- `_hostinfo` before the `if not port` step, on `host[:port]` of the grammar -/
theorem hostPortStr_grammar (host : Str) (op : Option Str) (hh : HostShape host)
    (hp : ∀ port, op = some port → Plain port) :
    hostPortStr (host ++ optPart ':' op) = (unbracket host, op.getD []) := by
  unfold hostPortStr
  rcases hh with ⟨inner, rfl, hi⟩ | hpl
  · have hn : ']' ∉ inner := fun h => (hi _ h).2 rfl
    have e : ('[' :: inner ++ [']'] ++ optPart ':' op) = '[' :: (inner ++ ']' :: optPart ':' op) := by simp
    rw [e, splitFirst_cons_s20, if_pos rfl]
    simp only [splitFirst_append_sep_s20 _ _ _ hn, Option.getD_some]
    have hu : unbracket ('[' :: (inner ++ [']'])) = inner := by
      have := unbracket_bracketed inner
      simpa using this
    cases op with
    | none => simp [optPart, splitFirst_nil_s20, unbracket]
    | some port => simp [optPart, splitFirst_cons_s20, unbracket]
  · have hb : '[' ∉ host ++ optPart ':' op := by
      intro hm
      simp only [List.mem_append] at hm
      rcases hm with hm | hm
      · exact (hpl _ hm).2.1 rfl
      · cases op with
        | none => simp [optPart] at hm
        | some port =>
          simp only [optPart, List.mem_cons] at hm
          rcases hm with hm | hm
          · cases hm
          · exact (hp port rfl _ hm).2.1 rfl
    have hc : ':' ∉ host := fun h => (hpl _ h).1 rfl
    rw [splitFirst_notMem_s20 _ _ hb]
    simp only [unbracket_plain hpl]
    cases op with
    | none => simp [optPart, splitFirst_notMem_s20 _ _ hc]
    | some port => simp [optPart, splitFirst_append_sep_s20 _ _ _ hc]

/-- **the accessors of CPython's `SplitResult` on a netloc of the grammar** are the components
of the grammar reading: `.username` / `.password` are what stems.py calls `user` / `password`,
`_hostinfo` is the host without its brackets and the port (`None` when empty) -/
theorem accessors_grammar {n : Str} (hwf : wfNetloc n = true) :
    Py.username n = userOf n ∧ Py.password n = passwordOf n ∧
    Py.hostinfo n = (unbracket (specHost n),
      if (specPort n).getD [] = [] then none else some ((specPort n).getD [])) := by
  obtain ⟨hat, _, hhp, hshape, hport⟩ := wfNetloc_shape hwf
  have hhi : hostinfoStr n = hostportOf n ∧ Py.userinfo n = (userOf n, passwordOf n) := by
    unfold hostinfoStr Py.userinfo userOf passwordOf
    cases ha : authOf n with
    | none =>
      obtain ⟨e, hn⟩ := authOf_none ha
      rw [splitLast_notMem _ _ hn]
      simp [e]
    | some auth =>
      obtain ⟨e, _⟩ := netloc_of_authOf ha
      have hs : splitLast n '@' = (some auth, hostportOf n) := by
        conv => lhs; rw [e]
        exact splitLast_append_sep _ _ _ hat
      rw [hs]
      simp only [Option.map_some, Option.bind_some, true_and]
      unfold userOfAuth passwordOfAuth
      cases hc : splitAtFirst ':' auth with
      | none => rw [splitFirst_of_none hc]; rfl
      | some ab =>
        obtain ⟨a, b⟩ := ab
        rw [splitFirst_of_some hc]; rfl
  refine ⟨?_, ?_, ?_⟩
  · unfold Py.username; rw [hhi.2]
  · unfold Py.password; rw [hhi.2]
  · unfold Py.hostinfo
    rw [hhi.1, hhp, hostPortStr_grammar _ _ hshape hport]

theorem lowerHost_of_no_percent {x : Str} (h : '%' ∉ x) : lowerHost x = Py.lower x := by
  unfold lowerHost
  rw [splitFirst_notMem_s20 _ _ h]
  simp

end Ural.LruString
