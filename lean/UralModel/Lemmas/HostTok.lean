import UralModel.Model.HostnameTrieSet
import UralModel.Lemmas.Str
/-!
Helper lemmas about the hostname tokenisation of `HostnameTrieSet` (`tok`): ASCII case
mapping, `strip`, `split('.')`/`'.'.join`, and the punycode step under `PunyLaws`.
-/
set_option linter.unusedSectionVars false
set_option linter.unusedSimpArgs false

namespace Ural
namespace HostnameTrieSet
open Ural.Py

/-! ### characters -/

theorem toNat_ofNat_small (n : Nat) (h : n < 55296) : (Char.ofNat n).toNat = n := by
  unfold Char.ofNat
  have hv : n.isValidChar := Or.inl h
  rw [dif_pos hv]
  simp [Char.ofNatAux, Char.toNat, UInt32.toNat_ofNatLT]

theorem char_le_iff (a b : Char) : a ≤ b ↔ a.toNat ≤ b.toNat := by
  rw [Char.le_def, UInt32.le_iff_toNat_le]; rfl

theorem lowerChar_toNat (c : Char) :
    (lowerChar c).toNat = if 65 ≤ c.toNat ∧ c.toNat ≤ 90 then c.toNat + 32 else c.toNat := by
  unfold lowerChar
  simp only [char_le_iff]
  have e1 : 'A'.toNat = 65 := rfl
  have e2 : 'Z'.toNat = 90 := rfl
  rw [e1, e2]
  split
  · rename_i h; rw [toNat_ofNat_small _ (by omega)]
  · rfl

theorem upperChar_toNat (c : Char) :
    (upperChar c).toNat = if 97 ≤ c.toNat ∧ c.toNat ≤ 122 then c.toNat - 32 else c.toNat := by
  unfold upperChar
  simp only [char_le_iff]
  have e1 : 'a'.toNat = 97 := rfl
  have e2 : 'z'.toNat = 122 := rfl
  rw [e1, e2]
  split
  · rename_i h; rw [toNat_ofNat_small _ (by omega)]
  · rfl

theorem lowerChar_idem (c : Char) : lowerChar (lowerChar c) = lowerChar c := by
  apply Char.toNat_inj.1
  rw [lowerChar_toNat (lowerChar c), lowerChar_toNat c]
  (repeat' split) <;> omega

theorem lowerChar_upperChar (c : Char) : lowerChar (upperChar c) = lowerChar c := by
  apply Char.toNat_inj.1
  rw [lowerChar_toNat (upperChar c), upperChar_toNat c, lowerChar_toNat c]
  (repeat' split) <;> omega

theorem isSpace_lowerChar (c : Char) : isSpace (lowerChar c) = isSpace c := by
  unfold isSpace
  rw [lowerChar_toNat]
  split
  · rename_i h
    have : ∀ n : Nat, 65 ≤ n ∧ n ≤ 122 → spaceCodes.contains n = false := by
      intro n hn
      simp only [spaceCodes, List.contains_cons, List.contains_nil, Bool.or_false,
        Bool.or_eq_false_iff, beq_eq_false_iff_ne]
      omega
    rw [this _ (by omega), this _ (by omega)]
  · rfl

/-! ### strings: `lower`, `strip` -/

theorem lower_lower (s : Str) : lower (lower s) = lower s := by
  simp [lower, List.map_map, Function.comp_def, lowerChar_idem]

theorem lower_upper (s : Str) : lower (upper s) = lower s := by
  simp [lower, upper, List.map_map, Function.comp_def, lowerChar_upperChar]

theorem lower_append (a b : Str) : lower (a ++ b) = lower a ++ lower b := by
  simp [lower]

theorem isSpace_comp_lowerChar : (isSpace ∘ lowerChar) = isSpace := by
  funext c; exact isSpace_lowerChar c

theorem lstrip_lower (s : Str) : lstrip (lower s) = lower (lstrip s) := by
  simp only [lstrip, lower, List.dropWhile_map, isSpace_comp_lowerChar]

theorem rstrip_lower (s : Str) : rstrip (lower s) = lower (rstrip s) := by
  simp only [rstrip, lower, ← List.map_reverse, List.dropWhile_map, isSpace_comp_lowerChar]

/-- `s.lower().strip() == s.strip().lower()` (ASCII case mapping never creates or removes
white space) -/
theorem strip_lower (s : Str) : strip (lower s) = lower (strip s) := by
  simp only [strip, lstrip_lower, rstrip_lower]

theorem dropWhile_eq_self_of_all_false {p : Char → Bool} (s : Str) (h : ∀ c ∈ s, p c = false) :
    s.dropWhile p = s := by
  cases s with
  | nil => rfl
  | cons a as => simp [List.dropWhile, h a (by simp)]

theorem strip_eq_self (s : Str) (h : ∀ c ∈ s, isSpace c = false) : strip s = s := by
  unfold strip rstrip lstrip
  rw [dropWhile_eq_self_of_all_false s h,
    dropWhile_eq_self_of_all_false s.reverse (by simpa using h), List.reverse_reverse]

/-! ### `split('.')` after `'.'.join` -/

theorem splitOn_go_append (l s acc : Str) (sep : Char) (h : ∀ c ∈ l, c ≠ sep) :
    splitOn.go sep (l ++ s) acc = splitOn.go sep s (l.reverse ++ acc) := by
  induction l generalizing acc with
  | nil => rfl
  | cons c cs ih =>
    have hc : c ≠ sep := h c (by simp)
    have := ih (c :: acc) (fun x hx => h x (by simp [hx]))
    simp only [List.cons_append, splitOn.go, hc, if_false, this, List.reverse_cons,
      List.append_assoc, List.singleton_append, List.nil_append]

/-- `'.'.join(labels).split('.') == labels` for a non-empty list of dot-free labels -/
theorem splitOn_join (ls : List Str) (sep : Char) (hne : ls ≠ [])
    (h : ∀ l ∈ ls, ∀ c ∈ l, c ≠ sep) : splitOn (join [sep] ls) sep = ls := by
  unfold splitOn
  induction ls with
  | nil => exact absurd rfl hne
  | cons l rest ih =>
    cases rest with
    | nil =>
      have := splitOn_go_append l [] [] sep (h l (by simp))
      simp only [List.append_nil] at this
      simp [join, this, splitOn.go]
    | cons l2 rest2 =>
      have h1 := splitOn_go_append l ([sep] ++ join [sep] (l2 :: rest2)) [] sep (h l (by simp))
      have h2 := ih (by simp) (fun x hx => h x (by simp [hx]))
      simp only [join, List.append_assoc]
      rw [h1]
      simp only [List.singleton_append, splitOn.go, if_true, List.append_nil,
        List.reverse_reverse, h2]

theorem mem_join (sep : Str) (ls : List Str) (c : Char) (hc : c ∈ join sep ls) :
    c ∈ sep ∨ ∃ l ∈ ls, c ∈ l := by
  induction ls with
  | nil => simp [join] at hc
  | cons l rest ih =>
    cases rest with
    | nil => right; exact ⟨l, by simp, by simpa [join] using hc⟩
    | cons l2 rest2 =>
      simp only [join, List.mem_append] at hc
      rcases hc with (hc | hc) | hc
      · right; exact ⟨l, by simp, hc⟩
      · left; exact hc
      · rcases ih hc with h | ⟨x, hx, hcx⟩
        · left; exact h
        · right; exact ⟨x, by simp [hx], hcx⟩

theorem lower_join (sep : Str) (ls : List Str) (hs : lower sep = sep)
    (h : ∀ l ∈ ls, lower l = l) : lower (join sep ls) = join sep ls := by
  induction ls with
  | nil => rfl
  | cons l rest ih =>
    cases rest with
    | nil => simpa [join] using h l (by simp)
    | cons l2 rest2 =>
      have := ih (fun x hx => h x (by simp [hx]))
      simp only [join, lower_append, h l (by simp), hs, this]

/-! ### labels -/

/-- a label as it occurs in a lower-case, dot-separated, unpadded host name -/
def CleanLabel (l : Str) : Prop :=
  (∀ c ∈ l, c ≠ '.' ∧ isSpace c = false) ∧ lower l = l

/-- tokenising `'.'.join(labels)` is decoding the labels one by one -/
theorem tok_join (puny : Str → Str) (ls : List Str) (hne : ls ≠ [])
    (hc : ∀ l ∈ ls, CleanLabel l) : tok puny (join ['.'] ls) = tokLabels puny ls := by
  unfold tok
  have hsp : ∀ c ∈ join ['.'] ls, isSpace c = false := by
    intro c hcm
    rcases mem_join _ _ _ hcm with h | ⟨l, hl, hcl⟩
    · simp only [List.mem_singleton] at h; subst h; decide
    · exact ((hc l hl).1 c hcl).2
  rw [strip_eq_self _ hsp, lower_join _ _ (by decide) (fun l hl => (hc l hl).2),
    splitOn_join ls '.' hne (fun l hl c hcl => ((hc l hl).1 c hcl).1)]

/-! ### the punycode step -/

theorem cleanLabel_iff (l : Str) : cleanLabel l = true ↔ CleanLabel l := by
  unfold cleanLabel CleanLabel
  simp only [Bool.and_eq_true, List.all_eq_true, bne_iff_ne, ne_eq, Bool.not_eq_true',
    beq_iff_eq]

instance (l : Str) : Decidable (CleanLabel l) := decidable_of_iff _ (cleanLabel_iff l)

/-- What the theorems need to know about `attempt_to_decode_idna` on a label that starts
with `xn--`:

* `decoded` — it either gives the label back (decoding failed) or produces a label that is
  no longer in ACE form (CPython's `idna` codec: `ToUnicode` re-encodes its result and
  `ToASCII` rejects labels that already start with the ACE prefix);
* `no_dot` — it brings no dot into a dot-free label (the codec decodes label by label; the
  ideographic full stop is refused by `attempt_to_decode_idna`; it is not `.` anyway);
* `clean` — a clean label (dot-free, no white space, ASCII-lower-case) decodes to a clean label
  (punycode copies the ASCII characters of the label; nameprep, run by the codec's round-trip
  check, prohibits every non-ASCII white-space character).

The driver evaluates the three laws on the real codec's answers for the labels of every case
(`"laws": true` expected), and `harness/punylaws.py` (group `HostTok`, `run_obligations` of
C09) on the whole enumerated class of ACE labels on every run. -/
structure PunyLaws (puny : Str → Str) : Prop where
  decoded : ∀ l, hasHeader l = true → puny l = l ∨ hasHeader (puny l) = false
  no_dot : ∀ l, hasHeader l = true → '.' ∉ l → '.' ∉ puny l
  clean : ∀ l, hasHeader l = true → CleanLabel l → CleanLabel (puny l)

/-- the identity decoder satisfies the laws -/
theorem punyLaws_id : PunyLaws (fun l => l) :=
  ⟨fun _ _ => Or.inl rfl, fun _ _ h => h, fun _ _ h => h⟩

theorem hasHeader_normalised (part : Str) (h : hasHeader part = true) :
    punyHeader part = acePrefix ∧
    hasHeader (punyHeader part ++ part.drop 4) = true ∧
    punyHeader (punyHeader part ++ part.drop 4) ++ (punyHeader part ++ part.drop 4).drop 4
      = punyHeader part ++ part.drop 4 := by
  have hp : punyHeader part = acePrefix := by
    simpa [hasHeader] using h
  have htake : (acePrefix ++ part.drop 4).take 4 = acePrefix := by
    simp [acePrefix]
  have hdrop : (acePrefix ++ part.drop 4).drop 4 = part.drop 4 := by
    simp [acePrefix]
  have hph : punyHeader (acePrefix ++ part.drop 4) = acePrefix := by
    unfold punyHeader; rw [htake]; decide
  refine ⟨hp, ?_, ?_⟩
  · rw [hp]; unfold hasHeader; rw [hph]; decide
  · rw [hp, hph, hdrop]

/-- decoding a decoded label changes nothing: the Unicode spelling of a label and its
punycode spelling give the same token -/
theorem punyPart_idem (puny : Str → Str) (laws : PunyLaws puny) (part : Str) :
    punyPart puny (punyPart puny part) = punyPart puny part := by
  cases h : hasHeader part with
  | false => simp [punyPart, h]
  | true =>
    obtain ⟨_, h2, h3⟩ := hasHeader_normalised part h
    have hpp : punyPart puny part = puny (punyHeader part ++ part.drop 4) := by
      simp [punyPart, h]
    rw [hpp]
    generalize punyHeader part ++ part.drop 4 = l' at h2 h3
    rcases laws.decoded l' h2 with he | hn
    · rw [he]; simp only [punyPart, h2, if_true, h3, he]
    · simp [punyPart, hn]

theorem lowerChar_eq_dot (c : Char) (h : lowerChar c = '.') : c = '.' := by
  apply Char.toNat_inj.1
  have := congrArg Char.toNat h
  rw [lowerChar_toNat] at this
  have e : '.'.toNat = 46 := rfl
  rw [e] at this ⊢
  split at this <;> omega

theorem dot_not_mem_lower (s : Str) (h : '.' ∉ s) : '.' ∉ lower s := by
  intro hm
  obtain ⟨c, hc, e⟩ := List.mem_map.1 hm
  exact h (lowerChar_eq_dot c e ▸ hc)

/-- on a label that is already lower-case the header normalisation of the loop
(`puny_header + part[4:]`) changes nothing -/
theorem header_normal_of_lower (l : Str) (h : lower l = l) : punyHeader l ++ l.drop 4 = l := by
  have : punyHeader l = l.take 4 := by
    unfold punyHeader lower
    rw [List.map_take]
    exact congrArg (List.take 4) h
  rw [this, List.take_append_drop]

/-- the punycode step brings no dot into a dot-free label … -/
theorem punyPart_no_dot (puny : Str → Str) (laws : PunyLaws puny) (l : Str) (h : '.' ∉ l) :
    '.' ∉ punyPart puny l := by
  unfold punyPart
  cases hh : hasHeader l with
  | false => simpa using h
  | true =>
    simp only [if_true]
    obtain ⟨_, h2, _⟩ := hasHeader_normalised l hh
    apply laws.no_dot _ h2
    intro hm
    rcases List.mem_append.1 hm with hm | hm
    · exact dot_not_mem_lower _ (fun hx => h (List.mem_of_mem_take hx)) hm
    · exact h (List.mem_of_mem_drop hm)

/-- … and maps clean labels to clean labels -/
theorem punyPart_clean (puny : Str → Str) (laws : PunyLaws puny) (l : Str) (h : CleanLabel l) :
    CleanLabel (punyPart puny l) := by
  unfold punyPart
  cases hh : hasHeader l with
  | false => simpa using h
  | true =>
    simp only [if_true]
    rw [header_normal_of_lower l h.2]
    exact laws.clean l hh h

/-- **every token of a hostname is dot-free**, whatever the hostname -/
theorem tok_dot_free (puny : Str → Str) (laws : PunyLaws puny) (h : Str) :
    ∀ l ∈ tok puny h, '.' ∉ l := by
  intro l hl
  unfold tok tokLabels at hl
  rw [List.mem_reverse, List.mem_map] at hl
  obtain ⟨x, hx, rfl⟩ := hl
  exact punyPart_no_dot puny laws x (Ural.Py.not_mem_of_mem_splitOn '.' _ x hx)

/-! ### `join_hostname` is injective on keys of dot-free labels -/

/-- two non-empty keys of dot-free labels that print alike are the same key -/
theorem joinHostname_injective (a b : List Str) (ha : a ≠ []) (hb : b ≠ [])
    (hda : ∀ l ∈ a, '.' ∉ l) (hdb : ∀ l ∈ b, '.' ∉ l)
    (h : joinHostname a = joinHostname b) : a = b := by
  unfold joinHostname at h
  have e1 := splitOn_join a.reverse '.' (by simpa using ha)
    (fun l hl c hc e => hda l (List.mem_reverse.1 hl) (e ▸ hc))
  have e2 := splitOn_join b.reverse '.' (by simpa using hb)
    (fun l hl c hc e => hdb l (List.mem_reverse.1 hl) (e ▸ hc))
  rw [h, e2] at e1
  have := congrArg List.reverse e1
  simpa using this.symm

theorem tokLabels_decoded (puny : Str → Str) (laws : PunyLaws puny) (ls : List Str) :
    tokLabels puny (ls.map (punyPart puny)) = tokLabels puny ls := by
  simp [tokLabels, List.map_map, Function.comp_def, punyPart_idem puny laws]

end HostnameTrieSet
end Ural
