import UralModel.Lemmas.IsUrlShape
import UralModel.Lemmas.QuoteSplit
/-!
# The cleaning pass of `canonicalize_url` keeps the shape

`canonicalize_url` first removes control characters, strips, upper-cases the escapes and
ensures a protocol (`Canonicalize.cleanUrl`).  On a string whose `strip` has the shape
`http(s)://[userinfo@]host[:port][tail]` the result has the same shape with the same scheme,
host and port: `clean_shape`.
-/
namespace Ural.UrlPattern
open Ural.Py Ural.Py.Re Ural.Gen.Patterns Ural.UrlParts Ural.UrlRoundTrip Ural.CanonRoundTrip
open Ural.Quote

/-! ## `upper_quoted` piece by piece -/

theorem upperQuoted_append_sep {c : Char} (hc : Sep c) (a b : Str) :
    upperQuoted (a ++ c :: b) = upperQuoted a ++ c :: upperQuoted b := by
  unfold upperQuoted
  rw [tokens_append_sep hc]
  simp [render, upperTok, renderTok]

theorem upperQuoted_cons_sep {c : Char} (hc : Sep c) (b : Str) :
    upperQuoted (c :: b) = c :: upperQuoted b := by
  have := upperQuoted_append_sep hc [] b
  simpa [upperQuoted, tokens, render] using this

theorem upperQuoted_noPct {w : Str} (h : '%' ∉ w) : upperQuoted w = w := by
  unfold upperQuoted
  have : (tokens w).map upperTok = tokens w := by
    conv => rhs; rw [← List.map_id (tokens w)]
    apply List.map_congr_left
    intro t ht
    have hsub : ∀ d ∈ renderTok t, d ∈ w := by
      intro d hd
      have : d ∈ render (tokens w) := by unfold render; exact List.mem_flatMap.2 ⟨t, ht, hd⟩
      rwa [render_tokens] at this
    cases t with
    | raw x => rfl
    | stray => exact absurd (hsub '%' (by simp [renderTok])) h
    | esc h1 h2 => exact absurd (hsub '%' (by simp [renderTok])) h
  rw [this, render_tokens]

theorem sep_of_delim {d : Char} (h : isDelim d) : Sep d := by
  rcases h with rfl | rfl | rfl <;> exact ⟨by decide, by decide⟩

/-! ## characters -/

theorem uiChar_upperChar {c : Char} (h : UiChar c) : UiChar (upperChar c) := by
  have hn := upperChar_toNat c
  by_cases hl : 97 ≤ c.toNat ∧ c.toNat ≤ 122
  · rw [if_pos hl] at hn
    have hne : ∀ d : Char, ¬ (65 ≤ d.toNat ∧ d.toNat ≤ 90) → upperChar c ≠ d := by
      intro d hd e
      rw [e] at hn
      omega
    have h1 := hne '/' (by decide)
    have h2 := hne '?' (by decide)
    have h3 := hne '#' (by decide)
    have h4 := hne '\t' (by decide)
    have h5 := hne '\r' (by decide)
    have h6 := hne '\n' (by decide)
    exact ⟨by simp [isNetlocDelim, h1, h2, h3], by simp [isUnsafeUrlChar, h4, h5, h6]⟩
  · rw [if_neg hl] at hn
    have : upperChar c = c := char_eq_of_toNat hn
    rw [this]; exact h

theorem alpha_not_ctl {c : Char} (h : isAsciiAlpha c = true) : isControlChar c = false := by
  apply isSchemeChar_not_ctl
  simp [isSchemeChar, h]

theorem alpha_not_space' {c : Char} (h : isAsciiAlpha c = true) : isSpace c = false := by
  simp only [isAsciiAlpha, Bool.or_eq_true, decide_eq_true_eq, char_le_iff] at h
  have e1 : 'a'.toNat = 97 := rfl
  have e2 : 'z'.toNat = 122 := rfl
  have e3 : 'A'.toNat = 65 := rfl
  have e4 : 'Z'.toNat = 90 := rfl
  rw [e1, e2, e3, e4] at h
  cases hs : isSpace c with
  | false => rfl
  | true =>
    simp only [isSpace, spaceCodes, List.contains_eq_mem, decide_eq_true_eq, List.mem_cons,
      List.not_mem_nil, or_false] at hs
    omega

/-! ## `strip` keeps a core that starts and ends with non-blank characters -/

theorem rstrip_append_keep (P Z : Str) (hl : ∀ c, P.getLast? = some c → isSpace c = false)
    (hne : P ≠ []) : rstrip (P ++ Z) = P ++ rstrip Z := by
  unfold rstrip
  rw [List.reverse_append]
  by_cases hz : Z.reverse.dropWhile isSpace = []
  · have hall : ∀ c ∈ Z.reverse, isSpace c = true := dropWhile_eq_nil.mp hz
    rw [dropWhile_append_all hall, hz]
    have : P.reverse.dropWhile isSpace = P.reverse := by
      cases hr : P.reverse with
      | nil => rfl
      | cons c r =>
        have : P.getLast? = some c := by rw [← List.head?_reverse, hr]; rfl
        simp [List.dropWhile_cons, hl c this]
    rw [this]; simp
  · rw [dropWhile_append_ne hz]; simp

theorem strip_keep (P Z : Str) (hh : ∀ c, P.head? = some c → isSpace c = false)
    (hl : ∀ c, P.getLast? = some c → isSpace c = false) (hne : P ≠ []) :
    strip (P ++ Z) = P ++ rstrip Z := by
  unfold strip
  have : lstrip (P ++ Z) = P ++ Z := by
    unfold lstrip
    cases P with
    | nil => exact absurd rfl hne
    | cons c r => simp [List.dropWhile_cons, hh c rfl]
  rw [this, rstrip_append_keep P Z hl hne]

theorem rstrip_cons_keep (d : Char) (r : Str) (hd : isSpace d = false) :
    ∃ r', rstrip (d :: r) = d :: r' ∧ r' ⊆ r := by
  have := rstrip_append_keep [d] r (by simp [hd]) (by simp)
  simp only [List.singleton_append] at this
  obtain ⟨b, hb, _⟩ := rstrip_prefix r
  refine ⟨rstrip r, this, ?_⟩
  intro x hx
  rw [hb]; simp [hx]

/-! ## the cleaning pass -/

theorem https_shaped : SchemeShaped (rstripChars "https".toList [':', '/']) :=
  ⟨⟨'h', "ttps".toList, by decide +kernel, by decide +kernel⟩, by decide +kernel⟩

theorem clean_shape {u sch ui H po tl : Str} (h : Shape (strip u) sch ui H po tl) :
    ∃ ui' tl', Shape (Canonicalize.cleanUrl u "https".toList) sch ui' H po tl' := by
  have hs := h.sch.facts
  -- u = blanks ++ strip u ++ blanks
  obtain ⟨a, ha, haw⟩ := lstrip_suffix u
  obtain ⟨b, hb, hbw⟩ := rstrip_prefix (lstrip u)
  have hu : u = a ++ strip u ++ b := by
    rw [List.append_assoc]
    show u = a ++ (rstrip (lstrip u) ++ b)
    rw [← hb]; exact ha
  have hfilter_ws : ∀ l : Str, (∀ c ∈ l, isSpace c = true) → ∀ c ∈ stripControl l, isSpace c = true :=
    fun l hl c hc => hl c (List.mem_filter.mp hc).1
  have e1 : strip (stripControl u) = strip (stripControl (strip u)) := by
    conv => lhs; rw [hu]
    unfold stripControl
    rw [List.filter_append, List.filter_append]
    exact strip_wrap _ (hfilter_ws a haw) (hfilter_ws b hbw)
  -- the control characters of strip u lie in the userinfo and in the tail
  have hsch_ctl : stripControl sch = sch := by
    unfold stripControl
    apply List.filter_eq_self.mpr
    intro c hc; simp [alpha_not_ctl (hs.2.2.1 c hc)]
  have hH_ctl : stripControl H = H := by
    unfold stripControl
    apply List.filter_eq_self.mpr
    intro c hc; simp [(host_goodChar h.host c hc).noctl]
  have hpo_ctl : stripControl po = po := by
    unfold stripControl
    apply List.filter_eq_self.mpr
    intro c hc
    rcases h.port with e | ⟨ds, e, _, hds⟩
    · rw [e] at hc; cases hc
    · rw [e] at hc
      rcases List.mem_cons.mp hc with rfl | hc
      · decide
      · simp [(digit_goodChar (hds c hc)).noctl]
  -- the userinfo after the removal of control characters
  obtain ⟨ui1, hui1, hui1e⟩ : ∃ ui1, stripControl ui = ui1 ∧
      (ui1 = [] ∨ ∃ w, ui1 = w ++ ['@'] ∧ ∀ c ∈ w, UiChar c) := by
    rcases h.ui with e | ⟨w, e, hw⟩
    · exact ⟨[], by rw [e]; rfl, Or.inl rfl⟩
    · have hat : isControlChar '@' = false := by decide
      refine ⟨stripControl w ++ ['@'], by rw [e]; simp [stripControl, hat], Or.inr ⟨_, rfl, ?_⟩⟩
      intro c hc
      exact hw c (List.mem_filter.mp hc).1
  have e2 : stripControl (strip u) =
      (sch ++ ':' :: '/' :: '/' :: (ui1 ++ (H ++ po))) ++ stripControl tl := by
    rw [h.eq]
    have : stripControl (sch ++ ':' :: '/' :: '/' :: (ui ++ (H ++ (po ++ tl)))) =
        stripControl sch ++ ':' :: '/' :: '/' :: (stripControl ui ++ (stripControl H ++
          (stripControl po ++ stripControl tl))) := by
      simp [stripControl, List.filter_append, isControlChar]
    rw [this, hsch_ctl, hH_ctl, hpo_ctl, hui1]
    simp
  -- the core starts with a letter and ends with a host or port character
  obtain ⟨P, hP⟩ : ∃ P, P = sch ++ ':' :: '/' :: '/' :: (ui1 ++ (H ++ po)) := ⟨_, rfl⟩
  rw [← hP] at e2
  have hPne : P ≠ [] := by
    obtain ⟨a', b', c', d', e', rfl, _⟩ := h.sch
    simp [hP]
  have hPhead : ∀ c, P.head? = some c → isSpace c = false := by
    intro c hc
    obtain ⟨a', b', c', d', e', rfl, _⟩ := h.sch
    simp only [hP, List.cons_append, List.head?_cons, Option.some.injEq] at hc
    subst hc
    exact alpha_not_space' (hs.2.2.1 _ (by simp))
  have hHne := lang_host_ne_nil h.host
  have hPlast : ∀ c, P.getLast? = some c → isSpace c = false := by
    intro c hc
    have hHpo : H ++ po ≠ [] := by simp [hHne]
    have e : P = (sch ++ ':' :: '/' :: '/' :: ui1) ++ (H ++ po) := by simp [hP]
    rw [e, List.getLast?_append, List.getLast?_eq_some_getLast hHpo] at hc
    simp at hc
    have hmem : c ∈ H ++ po := hc ▸ List.getLast_mem hHpo
    rcases List.mem_append.mp hmem with hm | hm
    · exact (host_goodChar h.host c hm).nospace
    · rcases h.port with e | ⟨ds, e, _, hds⟩
      · rw [e] at hm; cases hm
      · rw [e] at hm
        rcases List.mem_cons.mp hm with rfl | hm
        · decide
        · exact (digit_goodChar (hds c hm)).nospace
  have e3 : strip (stripControl (strip u)) = P ++ rstrip (stripControl tl) := by
    rw [e2]; exact strip_keep P _ hPhead hPlast hPne
  -- the tail after cleaning
  obtain ⟨T, hT, hTe⟩ : ∃ T, rstrip (stripControl tl) = T ∧ (T = [] ∨ ∃ d r, T = d :: r ∧ isDelim d) := by
    rcases h.tail with e | ⟨d, r, e, hd⟩
    · exact ⟨[], by rw [e]; rfl, Or.inl rfl⟩
    · have hdn := isDelim_iff.mp hd
      have hdc : isControlChar d = false := by
        rcases hd with rfl | rfl | rfl <;> decide
      have hds : isSpace d = false := by
        rcases hd with rfl | rfl | rfl <;> decide
      have : stripControl (d :: r) = d :: stripControl r := by simp [stripControl, hdc]
      rw [e, this]
      obtain ⟨r', hr', _⟩ := rstrip_cons_keep d (stripControl r) hds
      exact ⟨d :: r', hr', Or.inr ⟨d, r', rfl, hd⟩⟩
  rw [hT] at e3
  -- upper_quoted
  have hpctH : '%' ∉ H ++ po := by
    intro hm
    rcases List.mem_append.mp hm with hm | hm
    · exact (host_goodChar h.host _ hm).nopct rfl
    · rcases h.port with e | ⟨ds, e, _, hds⟩
      · rw [e] at hm; cases hm
      · rw [e] at hm
        rcases List.mem_cons.mp hm with hm | hm
        · cases hm
        · exact (digit_goodChar (hds _ hm)).nopct rfl
  have hpctS : '%' ∉ sch := by
    intro hm
    have := hs.2.2.1 _ hm
    revert this; decide
  obtain ⟨T', hT', hT'e⟩ : ∃ T', upperQuoted ((H ++ po) ++ T) = (H ++ po) ++ T' ∧
      (T' = [] ∨ ∃ d r, T' = d :: r ∧ isDelim d) := by
    rcases hTe with e | ⟨d, r, e, hd⟩
    · exact ⟨[], by rw [e, List.append_nil, upperQuoted_noPct hpctH], Or.inl rfl⟩
    · refine ⟨d :: upperQuoted r, ?_, Or.inr ⟨d, _, rfl, hd⟩⟩
      rw [e, upperQuoted_append_sep (sep_of_delim hd), upperQuoted_noPct hpctH]
  obtain ⟨ui2, hui2, hui2e⟩ : ∃ ui2, upperQuoted (ui1 ++ ((H ++ po) ++ T)) = ui2 ++ ((H ++ po) ++ T') ∧
      (ui2 = [] ∨ ∃ w, ui2 = w ++ ['@'] ∧ ∀ c ∈ w, UiChar c) := by
    rcases hui1e with e | ⟨w, e, hw⟩
    · exact ⟨[], by rw [e, List.nil_append, hT']; rfl, Or.inl rfl⟩
    · refine ⟨upperQuoted w ++ ['@'], ?_, Or.inr ⟨_, rfl, ?_⟩⟩
      · rw [e]
        have : w ++ ['@'] ++ ((H ++ po) ++ T) = w ++ '@' :: ((H ++ po) ++ T) := by simp
        rw [this, upperQuoted_append_sep ⟨by decide, by decide⟩, hT']
        simp
      · intro c hc
        obtain ⟨d0, hd0, rfl | rfl⟩ := mem_upperQuoted hc
        · exact hw _ hd0
        · exact uiChar_upperChar (hw _ hd0)
  have e4 : upperQuoted (P ++ T) = sch ++ ':' :: '/' :: '/' :: (ui2 ++ (H ++ (po ++ T'))) := by
    have : P ++ T = sch ++ ':' :: ('/' :: ('/' :: (ui1 ++ ((H ++ po) ++ T)))) := by simp [hP]
    rw [this, upperQuoted_append_sep ⟨by decide, by decide⟩, upperQuoted_noPct hpctS,
      upperQuoted_cons_sep ⟨by decide, by decide⟩, upperQuoted_cons_sep ⟨by decide, by decide⟩, hui2]
    simp
  -- ensure_protocol leaves it alone
  have e5 : ensureProtocol (sch ++ ':' :: '/' :: '/' :: (ui2 ++ (H ++ (po ++ T')))) "https".toList =
      sch ++ ':' :: '/' :: '/' :: (ui2 ++ (H ++ (po ++ T'))) := by
    have hnot : startsWith (sch ++ ':' :: '/' :: '/' :: (ui2 ++ (H ++ (po ++ T')))) ['/', '/'] = false := by
      obtain ⟨a', b', c', d', e', rfl, ha', _⟩ := h.sch
      rcases ha' with rfl | rfl <;> rfl
    have htw : (sch ++ ':' :: '/' :: '/' :: (ui2 ++ (H ++ (po ++ T')))).takeWhile isAsciiAlpha = sch :=
      takeWhile_append_stop _ _ _ hs.2.2.1 (by simp; decide)
    have hpl : protoLen (sch ++ ':' :: '/' :: '/' :: (ui2 ++ (H ++ (po ++ T')))) = some (sch.length + 3) := by
      unfold protoLen
      rw [if_neg (by simp [hnot])]
      simp only [htw]
      have hd : (sch ++ ':' :: '/' :: '/' :: (ui2 ++ (H ++ (po ++ T')))).drop sch.length =
          ':' :: '/' :: '/' :: (ui2 ++ (H ++ (po ++ T'))) := by simp
      rw [hd]
      have : startsWith (':' :: '/' :: '/' :: (ui2 ++ (H ++ (po ++ T')))) [':', '/', '/'] = true := by
        simp [startsWith]
      rw [if_pos ⟨hs.2.2.2.2, by have := hs.2.2.2.1; omega, this⟩]
    unfold ensureProtocol
    simp only [hpl, hnot, Bool.false_eq_true, if_false]
  refine ⟨ui2, T', ?_, h.sch, hui2e, h.host, h.port, hT'e⟩
  unfold Canonicalize.cleanUrl
  rw [e1, e3, e4, e5]

end Ural.UrlPattern
