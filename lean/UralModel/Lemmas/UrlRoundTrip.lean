import UralModel.Py.UrlAccessors
import UralModel.Lemmas.StrSplit20
import UralModel.Lemmas.StrSplit
/-!
# The parser/printer round trip: `urlsplit (urlunsplit t) = t` on well-formed 5-tuples

One lemma per stage of `urlsplit` (`Py/UrlSplit.lean`): the cleaning step is the identity,
the scheme split gives the scheme back, the netloc step gives the netloc back, the `#` and
`?` splits give fragment, query and path back.  The two models of `urlunsplit`
(`UrlParts.urlunsplit` used by C01/C02, `Py.urlunsplit20` used by C15/C20) are related by
`urlunsplit_eq_urlunsplit20`.
-/
set_option linter.unusedSimpArgs false
set_option linter.unusedVariables false

namespace Ural.UrlRoundTrip
open Ural.Py Ural.UrlParts

/-! ## generic list facts -/

theorem takeWhile_append_stop {α : Type} (p : α → Bool) (a b : List α)
    (ha : ∀ c ∈ a, p c = true) (hb : ∀ c, b.head? = some c → p c = false) :
    (a ++ b).takeWhile p = a := by
  induction a with
  | nil =>
    cases b with
    | nil => rfl
    | cons d r => simp [List.takeWhile_cons, hb d rfl]
  | cons c a ih =>
    have hc : p c = true := ha c (by simp)
    simp only [List.cons_append, List.takeWhile_cons, hc, if_true]
    rw [ih (fun x hx => ha x (by simp [hx]))]

theorem dropWhile_append_stop {α : Type} (p : α → Bool) (a b : List α)
    (ha : ∀ c ∈ a, p c = true) (hb : ∀ c, b.head? = some c → p c = false) :
    (a ++ b).dropWhile p = b := by
  induction a with
  | nil =>
    cases b with
    | nil => rfl
    | cons d r => simp [List.dropWhile_cons, hb d rfl]
  | cons c a ih =>
    have hc : p c = true := ha c (by simp)
    simp only [List.cons_append, List.dropWhile_cons, hc, if_true]
    exact ih (fun x hx => ha x (by simp [hx]))

theorem startsWith_cons_cons (c d : Char) (s p : Str) :
    startsWith (c :: s) (d :: p) = (c == d && startsWith s p) := by
  simp only [startsWith, List.isPrefixOf]
  congr 1
  rw [Bool.eq_iff_iff]; simp only [beq_iff_eq]; exact eq_comm

theorem startsWith_nil (s : Str) : startsWith s [] = true := by simp [startsWith]

theorem startsWith_nil_cons (d : Char) (p : Str) : startsWith [] (d :: p) = false := by
  simp [startsWith]

/-- "starts with a slash" in the form the proofs use -/
theorem startsWith_slash {s : Str} : startsWith s ['/'] = true ↔ ∃ q, s = '/' :: q := by
  cases s with
  | nil => simp [startsWith]
  | cons c r =>
    rw [startsWith_cons_cons, startsWith_nil]
    simp

/-! ## the two models of `urlunsplit` agree -/

theorem contains_ofList (t : List String) (s : Str) :
    t.contains (String.ofList s) = t.any (fun x => x.toList == s) := by
  induction t with
  | nil => rfl
  | cons a t ih =>
    rw [List.contains_cons, List.any_cons, ih]
    congr 1
    rw [Bool.eq_iff_iff]
    simp only [beq_iff_eq]
    constructor
    · intro h; rw [← h, String.toList_ofList]
    · intro h; rw [← h, String.ofList_toList]

theorem usesNetloc_contains (s : Str) :
    usesNetloc.contains (String.ofList s) = inTable usesNetloc20 s := by
  rw [contains_ofList]; rfl

theorem take2_ne (u : Str) : (u.take 2 ≠ ['/', '/']) ↔ startsWith u ['/', '/'] = false := by
  match u with
  | [] => simp [startsWith]
  | [c] => simp [startsWith, List.isPrefixOf]
  | c :: d :: r =>
    simp only [List.take_succ_cons, List.take_zero, startsWith_cons_cons, startsWith_nil]
    by_cases h1 : c = '/' <;> by_cases h2 : d = '/' <;> simp [h1, h2]

theorem take1_ne (u : Str) : (u.take 1 ≠ ['/']) ↔ startsWith u ['/'] = false := by
  match u with
  | [] => simp [startsWith]
  | c :: r =>
    simp only [List.take_succ_cons, List.take_zero, startsWith_cons_cons, startsWith_nil]
    by_cases h1 : c = '/' <;> simp [h1]

/-- `UrlParts.urlunsplit` (fragment `none` = Python `None`) is `Py.urlunsplit20` with the
absent fragment written as the empty string -/
theorem urlunsplit_eq_urlunsplit20 (s : Split) :
    urlunsplit s = urlunsplit20 s.scheme s.netloc s.path s.query (s.fragment.getD []) := by
  obtain ⟨scheme, netloc, path, query, fragment⟩ := s
  have e1 : ∀ x : Str, (!x.isEmpty) = true ↔ x ≠ [] := by
    intro x; cases x <;> simp
  have hcond : ((!netloc.isEmpty) = true ∨ ((!scheme.isEmpty) = true ∧
        usesNetloc.contains (String.ofList scheme) = true ∧ path.take 2 ≠ ['/', '/'])) ↔
      ((decide (netloc ≠ []) || (decide (scheme ≠ []) && inTable usesNetloc20 scheme &&
        !startsWith path ['/', '/'])) = true) := by
    rw [usesNetloc_contains, take2_ne, e1, e1]
    simp [Bool.and_assoc]
  have hslash : ((!path.isEmpty) = true ∧ path.take 1 ≠ ['/']) ↔
      ((decide (path ≠ []) && !startsWith path ['/']) = true) := by
    rw [take1_ne, e1]; simp
  simp only [urlunsplit, urlunsplit20]
  by_cases hc : (decide (netloc ≠ []) || (decide (scheme ≠ []) && inTable usesNetloc20 scheme &&
        !startsWith path ['/', '/'])) = true
  · have hc' := hcond.2 hc
    rw [if_pos hc', if_pos hc]
    by_cases hs : (decide (path ≠ []) && !startsWith path ['/']) = true
    · have hs' := hslash.2 hs
      rw [if_pos hs', if_pos hs]
      by_cases h1 : scheme = [] <;> by_cases h2 : query = [] <;> cases fragment with
      | none => simp [h1, h2]
      | some f => by_cases h3 : f = [] <;> simp [h1, h2, h3]
    · have hs' : ¬ ((!path.isEmpty) = true ∧ path.take 1 ≠ ['/']) := fun h => hs (hslash.1 h)
      rw [if_neg hs', if_neg hs]
      by_cases h1 : scheme = [] <;> by_cases h2 : query = [] <;> cases fragment with
      | none => simp [h1, h2]
      | some f => by_cases h3 : f = [] <;> simp [h1, h2, h3]
  · have hc' : ¬ _ := fun h => hc (hcond.1 h)
    rw [if_neg hc', if_neg hc]
    by_cases h1 : scheme = [] <;> by_cases h2 : query = [] <;> cases fragment with
    | none => simp [h1, h2]
    | some f => by_cases h3 : f = [] <;> simp [h1, h2, h3]

/-! ## well-formed 5-tuples -/

/-- a scheme as `urlsplit` recognises one: an ASCII letter, then letters, digits, `+-.` -/
def SchemeShaped (s : Str) : Prop :=
  (∃ c r, s = c :: r ∧ isAsciiAlpha c = true) ∧ s.all isSchemeChar = true

/-- the 5-tuples that `urlunsplit` prints unambiguously -/
structure WF (scheme netloc path query fragment : Str) : Prop where
  scheme_ok : scheme = [] ∨ (SchemeShaped scheme ∧ lower scheme = scheme)
  netloc_nodelim : ∀ c ∈ netloc, isNetlocDelim c = false
  netloc_ok : netlocOk netloc = true
  path_noq : '?' ∉ path
  path_noh : '#' ∉ path
  query_noh : '#' ∉ query
  path_abs : (netloc ≠ [] ∨ (scheme ≠ [] ∧ inTable usesNetloc20 scheme = true)) →
    path = [] ∨ ∃ q, path = '/' :: q
  path_no2 : netloc = [] → startsWith path ['/', '/'] = false
  rel_nocolon : scheme = [] → netloc = [] → ':' ∈ path →
    ¬ SchemeShaped (path.takeWhile (· ≠ ':'))
  rel_nolead : scheme = [] → netloc = [] → ∀ c, path.head? = some c → isC0OrSpace c = false
  clean : ∀ c ∈ scheme ++ netloc ++ path ++ query ++ fragment, isUnsafeUrlChar c = false

/-- what follows the path in the printed URL -/
def queryPart (query : Str) : Str := if query ≠ [] then '?' :: query else []
def fragPart (fragment : Str) : Str := if fragment ≠ [] then '#' :: fragment else []
/-- the authority + path part -/
def bodyOf (scheme netloc path : Str) : Str :=
  if netloc ≠ [] || (scheme ≠ [] && inTable usesNetloc20 scheme && !startsWith path ['/', '/']) then
    ['/', '/'] ++ netloc ++ (if path ≠ [] && !startsWith path ['/'] then '/' :: path else path)
  else path
def schemePart (scheme : Str) : Str := if scheme ≠ [] then scheme ++ [':'] else []

theorem urlunsplit20_eq (scheme netloc path query fragment : Str) :
    urlunsplit20 scheme netloc path query fragment =
      schemePart scheme ++ (bodyOf scheme netloc path ++ (queryPart query ++ fragPart fragment)) := by
  simp only [urlunsplit20, schemePart, bodyOf, queryPart, fragPart]
  by_cases h1 : scheme = [] <;> by_cases h2 : query = [] <;> by_cases h3 : fragment = [] <;>
    simp [h1, h2, h3]

/-! ## stage 1: the cleaning step is the identity -/

theorem cleanUrl_id (u : Str) (h1 : ∀ c ∈ u, isUnsafeUrlChar c = false)
    (h2 : ∀ c, u.head? = some c → isC0OrSpace c = false) : cleanUrl u = u := by
  unfold cleanUrl
  have hd : u.dropWhile isC0OrSpace = u := by
    cases u with
    | nil => rfl
    | cons c r => simp [List.dropWhile_cons, h2 c rfl]
  rw [hd, List.filter_eq_self]
  intro a ha; simp [h1 a ha]

/-! ## stage 2: the scheme -/

theorem colon_not_mem_of_schemeChars {s : Str} (h : s.all isSchemeChar = true) : ':' ∉ s := by
  intro hm
  have := (List.all_eq_true.1 h) ':' hm
  revert this; decide

theorem splitScheme_scheme (sc rest : Str) (h : SchemeShaped sc) (hl : lower sc = sc) :
    splitScheme (sc ++ ':' :: rest) [] = (sc, rest) := by
  obtain ⟨⟨c, r, rfl, hc⟩, hall⟩ := h
  unfold splitScheme
  rw [splitFirst_append_sep_s20 _ _ _ (colon_not_mem_of_schemeChars hall)]
  simp only [hc, hall, Bool.and_self, if_true, hl]

theorem splitFirst_eq (s : Str) (sep : Char) :
    splitFirst s sep = (s.takeWhile (· ≠ sep),
      match s.dropWhile (· ≠ sep) with | [] => none | _ :: b => some b) := by
  unfold splitFirst
  rw [span_eq_s20]
  cases List.dropWhile (fun x => decide (x ≠ sep)) s <;> rfl

theorem splitScheme_none (u : Str)
    (h : ':' ∈ u → ¬ SchemeShaped (u.takeWhile (· ≠ ':'))) : splitScheme u [] = ([], u) := by
  unfold splitScheme
  rw [splitFirst_eq]
  cases hd : u.dropWhile (· ≠ ':') with
  | nil => rfl
  | cons x b =>
    have hmem : ':' ∈ u := by
      have hx : x ∈ u.dropWhile (· ≠ ':') := by rw [hd]; simp
      have hx2 : x = ':' := by
        have := List.head?_dropWhile_not (fun c => decide (c ≠ ':')) u
        rw [hd] at this
        simpa using this
      subst hx2
      exact (List.dropWhile_sublist _).subset hx
    have hns := h hmem
    simp only
    cases hp : u.takeWhile (· ≠ ':') with
    | nil => rfl
    | cons c r =>
      simp only
      by_cases hc : (isAsciiAlpha c && (c :: r).all isSchemeChar) = true
      · exfalso; apply hns
        rw [hp]
        rw [Bool.and_eq_true] at hc
        exact ⟨⟨c, r, rfl, hc.1⟩, hc.2⟩
      · rw [if_neg hc]

/-! ## stage 3: the netloc -/

theorem splitNetloc_slashes (nl rest : Str) (hnl : ∀ c ∈ nl, isNetlocDelim c = false)
    (hrest : ∀ c, rest.head? = some c → isNetlocDelim c = true) :
    splitNetloc ('/' :: '/' :: (nl ++ rest)) = (nl, rest) := by
  unfold splitNetloc
  have hs : startsWith ('/' :: '/' :: (nl ++ rest)) ['/', '/'] = true := by
    simp [startsWith_cons_cons, startsWith_nil]
  rw [if_pos hs]
  simp only [List.drop_succ_cons, List.drop_zero]
  rw [takeWhile_append_stop _ nl rest (fun c hc => by simp [hnl c hc])
        (fun c hc => by simp [hrest c hc]),
      dropWhile_append_stop _ nl rest (fun c hc => by simp [hnl c hc])
        (fun c hc => by simp [hrest c hc])]

theorem splitNetloc_none (u : Str) (h : startsWith u ['/', '/'] = false) :
    splitNetloc u = ([], u) := by
  unfold splitNetloc; simp [h]

/-! ## stage 4: fragment, query, path -/

theorem splitFirst_frag (a f : Str) (ha : '#' ∉ a) :
    splitFirst (a ++ fragPart f) '#' = (a, if f ≠ [] then some f else none) := by
  unfold fragPart
  by_cases hf : f = []
  · simp [hf, splitFirst_notMem_s20 _ _ ha]
  · simp only [hf, ne_eq, not_false_eq_true, if_true]
    exact splitFirst_append_sep_s20 a f '#' ha

theorem splitFirst_query (a q : Str) (ha : '?' ∉ a) :
    splitFirst (a ++ queryPart q) '?' = (a, if q ≠ [] then some q else none) := by
  unfold queryPart
  by_cases hq : q = []
  · simp [hq, splitFirst_notMem_s20 _ _ ha]
  · simp only [hq, ne_eq, not_false_eq_true, if_true]
    exact splitFirst_append_sep_s20 a q '?' ha

theorem tail_head (q f : Str) (c : Char) (h : (queryPart q ++ fragPart f).head? = some c) :
    c = '?' ∨ c = '#' := by
  unfold queryPart fragPart at h
  by_cases hq : q = [] <;> by_cases hf : f = [] <;> simp [hq, hf] at h <;> simp [← h]

theorem alpha_not_c0 {c : Char} (h : isAsciiAlpha c = true) : isC0OrSpace c = false := by
  simp only [isAsciiAlpha, Bool.or_eq_true, decide_eq_true_eq, Char.le_def] at h
  simp only [isC0OrSpace, decide_eq_false_iff_not, Nat.not_le]
  have e : c.val.toNat = c.toNat := rfl
  rcases h with h | h
  · have := h.1; simp only [UInt32.le_iff_toNat_le] at this; simp at this; omega
  · have := h.1; simp only [UInt32.le_iff_toNat_le] at this; simp at this; omega

theorem schemeShaped_head {c : Char} {r : Str} (h : SchemeShaped (c :: r)) :
    isAsciiAlpha c = true := by
  obtain ⟨⟨c', r', e, hc⟩, _⟩ := h
  cases e; exact hc

theorem schemeShaped_mem {s : Str} (h : SchemeShaped s) : ∀ c ∈ s, isSchemeChar c = true :=
  List.all_eq_true.1 h.2

theorem takeWhile_append_of_stop {α : Type} (p : α → Bool) (a b : List α)
    (h : ∃ x ∈ a, p x = false) : (a ++ b).takeWhile p = a.takeWhile p := by
  induction a with
  | nil => obtain ⟨x, hx, _⟩ := h; simp at hx
  | cons c a ih =>
    obtain ⟨x, hx, hpx⟩ := h
    by_cases hc : p c = true
    · simp only [List.cons_append, List.takeWhile_cons, hc, if_true]
      rw [ih]
      simp only [List.mem_cons] at hx
      rcases hx with rfl | hx
      · rw [hc] at hpx; cases hpx
      · exact ⟨x, hx, hpx⟩
    · simp [List.takeWhile_cons, hc]

theorem startsWith2_append (p t : Str) (hp : startsWith p ['/', '/'] = false)
    (ht : ∀ c, t.head? = some c → c ≠ '/') : startsWith (p ++ t) ['/', '/'] = false := by
  match p with
  | [] =>
    match t with
    | [] => rfl
    | c :: r =>
      rw [List.nil_append, startsWith_cons_cons]
      simp [ht c rfl]
  | [c] =>
    match t with
    | [] => simpa using hp
    | d :: r =>
      simp only [List.cons_append, List.nil_append, startsWith_cons_cons, startsWith_nil]
      simp [ht d rfl]
  | c :: d :: r =>
    simp only [List.cons_append, startsWith_cons_cons, startsWith_nil] at hp ⊢
    exact hp

theorem takeWhile_append_all {α : Type} (p : α → Bool) (a b : List α)
    (ha : ∀ c ∈ a, p c = true) : (a ++ b).takeWhile p = a ++ b.takeWhile p := by
  induction a with
  | nil => rfl
  | cons c a ih =>
    have hc : p c = true := ha c (by simp)
    simp only [List.cons_append, List.takeWhile_cons, hc, if_true]
    rw [ih (fun x hx => ha x (by simp [hx]))]

/-- the path (when absolute or empty) followed by the tail starts with a netloc delimiter -/
theorem pathTail_head (path q f : Str) (hp : path = [] ∨ ∃ r, path = '/' :: r) (c : Char)
    (h : (path ++ (queryPart q ++ fragPart f)).head? = some c) : isNetlocDelim c = true := by
  rcases hp with rfl | ⟨r, rfl⟩
  · rcases tail_head q f c (by simpa using h) with rfl | rfl <;> decide
  · simp at h; subst h; decide

theorem bodyOf_true (scheme netloc path : Str)
    (hc : (decide (netloc ≠ []) || (decide (scheme ≠ []) && inTable usesNetloc20 scheme &&
      !startsWith path ['/', '/'])) = true) (hp : path = [] ∨ ∃ r, path = '/' :: r) :
    bodyOf scheme netloc path = '/' :: '/' :: (netloc ++ path) := by
  unfold bodyOf
  rw [if_pos hc]
  rcases hp with rfl | ⟨r, rfl⟩
  · simp
  · simp [startsWith_cons_cons, startsWith_nil]

theorem bodyOf_false (scheme netloc path : Str)
    (hc : ¬ (decide (netloc ≠ []) || (decide (scheme ≠ []) && inTable usesNetloc20 scheme &&
      !startsWith path ['/', '/'])) = true) : bodyOf scheme netloc path = path := by
  unfold bodyOf
  rw [if_neg hc]

/-- stage 3 on the printed body -/
theorem splitNetloc_body (scheme netloc path query fragment : Str)
    (h : WF scheme netloc path query fragment) :
    splitNetloc (bodyOf scheme netloc path ++ (queryPart query ++ fragPart fragment)) =
      (netloc, path ++ (queryPart query ++ fragPart fragment)) := by
  by_cases hc : (decide (netloc ≠ []) || (decide (scheme ≠ []) && inTable usesNetloc20 scheme &&
      !startsWith path ['/', '/'])) = true
  · have hp : path = [] ∨ ∃ r, path = '/' :: r := by
      apply h.path_abs
      simp only [Bool.or_eq_true, Bool.and_eq_true, decide_eq_true_eq] at hc
      rcases hc with hc | hc
      · exact Or.inl hc
      · exact Or.inr ⟨hc.1.1, hc.1.2⟩
    rw [bodyOf_true _ _ _ hc hp]
    have := splitNetloc_slashes netloc (path ++ (queryPart query ++ fragPart fragment))
      h.netloc_nodelim (pathTail_head path query fragment hp)
    simpa [List.append_assoc] using this
  · rw [bodyOf_false _ _ _ hc]
    have hn : netloc = [] := by
      simp only [Bool.or_eq_true, decide_eq_true_eq, not_or] at hc
      exact Classical.not_not.1 hc.1
    subst hn
    apply splitNetloc_none
    apply startsWith2_append _ _ (h.path_no2 rfl)
    intro c hc'
    rcases tail_head _ _ c hc' with rfl | rfl <;> decide

/-- stage 2 on the printed URL -/
theorem splitScheme_printed (scheme netloc path query fragment : Str)
    (h : WF scheme netloc path query fragment) :
    splitScheme (schemePart scheme ++
        (bodyOf scheme netloc path ++ (queryPart query ++ fragPart fragment))) [] =
      (scheme, bodyOf scheme netloc path ++ (queryPart query ++ fragPart fragment)) := by
  rcases h.scheme_ok with hs | ⟨hs, hl⟩
  · subst hs
    simp only [schemePart, ne_eq, not_true_eq_false, if_false, List.nil_append]
    apply splitScheme_none
    intro hmem hsh
    by_cases hn : netloc = []
    · subst hn
      have hb : bodyOf [] [] path = path := by
        apply bodyOf_false; simp
      rw [hb] at hmem hsh
      by_cases hcp : ':' ∈ path
      · rw [takeWhile_append_of_stop _ _ _ ⟨':', hcp, by simp⟩] at hsh
        exact h.rel_nocolon rfl rfl hcp hsh
      · -- the colon is in the tail: the prefix holds `?` or `#`
        have hT : ':' ∈ queryPart query ++ fragPart fragment := by
          rcases List.mem_append.1 hmem with h1 | h1
          · exact absurd h1 hcp
          · exact h1
        cases hT' : queryPart query ++ fragPart fragment with
        | nil => rw [hT'] at hT; simp at hT
        | cons d T' =>
          have hd := tail_head query fragment d (by rw [hT']; rfl)
          rw [hT'] at hsh
          have hdm : d ∈ (path ++ d :: T').takeWhile (· ≠ ':') := by
            rw [takeWhile_append_all _ _ _ (fun x hx => by
              simp only [ne_eq, decide_eq_true_eq]; rintro rfl; exact hcp hx)]
            have hdc : d ≠ ':' := by rcases hd with rfl | rfl <;> decide
            simp [List.takeWhile_cons, hdc]
          have := schemeShaped_mem hsh d hdm
          rcases hd with rfl | rfl <;> revert this <;> decide
    · have hb : bodyOf [] netloc path = '/' :: '/' :: (netloc ++ path) := by
        apply bodyOf_true
        · simp [hn]
        · exact h.path_abs (Or.inl hn)
      rw [hb] at hsh
      simp only [List.cons_append, List.takeWhile_cons] at hsh
      rw [if_pos (by decide)] at hsh
      have := schemeShaped_head hsh
      revert this; decide
  · have hne : scheme ≠ [] := by
      obtain ⟨⟨c, r, e, _⟩, _⟩ := hs; rw [e]; simp
    simp only [schemePart, hne, ne_eq, not_false_eq_true, if_true, List.append_assoc,
      List.singleton_append]
    exact splitScheme_scheme scheme _ hs hl

theorem mem_schemePart {c : Char} {sc : Str} (h : c ∈ schemePart sc) : c ∈ sc ∨ c = ':' := by
  unfold schemePart at h
  split at h
  · simpa using h
  · simp at h

theorem mem_bodyOf {c : Char} {sc nl p : Str} (h : c ∈ bodyOf sc nl p) :
    c ∈ nl ∨ c ∈ p ∨ c = '/' := by
  unfold bodyOf at h
  split at h
  · simp only [List.mem_append, List.mem_cons, List.not_mem_nil, or_false] at h
    rcases h with (h | h) | h
    · rcases h with h | h <;> simp [h]
    · exact Or.inl h
    · split at h
      · simp only [List.mem_cons] at h
        rcases h with h | h
        · simp [h]
        · exact Or.inr (Or.inl h)
      · exact Or.inr (Or.inl h)
  · exact Or.inr (Or.inl h)

theorem mem_queryPart {c : Char} {q : Str} (h : c ∈ queryPart q) : c ∈ q ∨ c = '?' := by
  unfold queryPart at h
  split at h
  · simp only [List.mem_cons] at h; exact h.symm
  · simp at h

theorem mem_fragPart {c : Char} {f : Str} (h : c ∈ fragPart f) : c ∈ f ∨ c = '#' := by
  unfold fragPart at h
  split at h
  · simp only [List.mem_cons] at h; exact h.symm
  · simp at h

/-- stage 1 on the printed URL -/
theorem cleanUrl_printed (scheme netloc path query fragment : Str)
    (h : WF scheme netloc path query fragment) :
    cleanUrl (schemePart scheme ++
        (bodyOf scheme netloc path ++ (queryPart query ++ fragPart fragment))) =
      schemePart scheme ++ (bodyOf scheme netloc path ++ (queryPart query ++ fragPart fragment)) := by
  apply cleanUrl_id
  · intro c hc
    have hcl : ∀ x, x ∈ scheme ∨ x ∈ netloc ∨ x ∈ path ∨ x ∈ query ∨ x ∈ fragment →
        isUnsafeUrlChar x = false := by
      intro x hx; apply h.clean
      simp only [List.mem_append]
      rcases hx with hx | hx | hx | hx | hx <;> simp [hx]
    simp only [List.mem_append] at hc
    rcases hc with hc | hc | hc | hc
    · rcases mem_schemePart hc with h1 | rfl
      · exact hcl c (Or.inl h1)
      · decide
    · rcases mem_bodyOf hc with h1 | h1 | rfl
      · exact hcl c (Or.inr (Or.inl h1))
      · exact hcl c (Or.inr (Or.inr (Or.inl h1)))
      · decide
    · rcases mem_queryPart hc with h1 | rfl
      · exact hcl c (Or.inr (Or.inr (Or.inr (Or.inl h1))))
      · decide
    · rcases mem_fragPart hc with h1 | rfl
      · exact hcl c (Or.inr (Or.inr (Or.inr (Or.inr h1))))
      · decide
  · intro c hc
    rcases h.scheme_ok with hs | ⟨hs, _⟩
    · subst hs
      simp only [schemePart, ne_eq, not_true_eq_false, if_false, List.nil_append] at hc
      by_cases hn : netloc = []
      · subst hn
        have hb : bodyOf [] [] path = path := by apply bodyOf_false; simp
        rw [hb] at hc
        cases path with
        | nil =>
          rcases tail_head query fragment c (by simpa using hc) with rfl | rfl <;> decide
        | cons d r =>
          simp only [List.cons_append, List.head?_cons, Option.some.injEq] at hc
          subst hc
          exact h.rel_nolead rfl rfl d rfl
      · have hb : bodyOf [] netloc path = '/' :: '/' :: (netloc ++ path) := by
          apply bodyOf_true
          · simp [hn]
          · exact h.path_abs (Or.inl hn)
        rw [hb] at hc
        simp only [List.cons_append, List.head?_cons, Option.some.injEq] at hc
        subst hc; decide
    · obtain ⟨⟨d, r, e, hd⟩, _⟩ := hs
      subst e
      simp only [schemePart, ne_eq, reduceCtorEq, not_false_eq_true, if_true, List.cons_append,
        List.head?_cons, Option.some.injEq] at hc
      subst hc
      exact alpha_not_c0 hd

/-- **the parser/printer round trip**: a well-formed 5-tuple is what `urlsplit` reads from
its `urlunsplit` (an empty query / fragment is the absent one, both are written `[]`) -/
theorem urlsplit_urlunsplit20 (scheme netloc path query fragment : Str)
    (h : WF scheme netloc path query fragment) :
    urlsplit (urlunsplit20 scheme netloc path query fragment) [] =
      some ⟨scheme, netloc, path, query, fragment⟩ := by
  rw [urlunsplit20_eq]
  unfold urlsplit
  simp only [cleanUrl_printed _ _ _ _ _ h, splitScheme_printed _ _ _ _ _ h,
    splitNetloc_body _ _ _ _ _ h, h.netloc_ok, Bool.not_true, Bool.false_eq_true, if_false]
  have hq : '#' ∉ path ++ queryPart query := by
    intro hm
    rcases List.mem_append.1 hm with h1 | h1
    · exact h.path_noh h1
    · rcases mem_queryPart h1 with h2 | h2
      · exact h.query_noh h2
      · cases h2
  rw [← List.append_assoc, splitFirst_frag _ _ hq]
  simp only [splitFirst_query _ _ h.path_noq]
  by_cases h1 : query = [] <;> by_cases h2 : fragment = [] <;> simp [h1, h2]

/-- the parser on the normal form `scheme://netloc path ?query #fragment` (what
`canonicalize_url` prints, whatever `uses_netloc` says about the scheme) -/
theorem urlsplit_normal (S nl path q f : Str) (hS : SchemeShaped S) (hl : lower S = S)
    (hnd : ∀ c ∈ nl, isNetlocDelim c = false) (hok : netlocOk nl = true)
    (hpq : '?' ∉ path) (hph : '#' ∉ path) (hqh : '#' ∉ q)
    (hpa : path = [] ∨ ∃ r, path = '/' :: r)
    (hclean : ∀ c ∈ S ++ nl ++ path ++ q ++ f, isUnsafeUrlChar c = false) :
    urlsplit (S ++ ':' :: '/' :: '/' :: (nl ++ (path ++ (queryPart q ++ fragPart f)))) [] =
      some ⟨S, nl, path, q, f⟩ := by
  have hcl : ∀ x, x ∈ S ∨ x ∈ nl ∨ x ∈ path ∨ x ∈ q ∨ x ∈ f → isUnsafeUrlChar x = false := by
    intro x hx; apply hclean
    simp only [List.mem_append]
    rcases hx with hx | hx | hx | hx | hx <;> simp [hx]
  have hclean' : cleanUrl (S ++ ':' :: '/' :: '/' :: (nl ++ (path ++ (queryPart q ++ fragPart f)))) =
      S ++ ':' :: '/' :: '/' :: (nl ++ (path ++ (queryPart q ++ fragPart f))) := by
    apply cleanUrl_id
    · intro c hc
      simp only [List.mem_append, List.mem_cons] at hc
      rcases hc with hc | rfl | rfl | rfl | hc | hc | hc | hc
      · exact hcl c (Or.inl hc)
      · decide
      · decide
      · decide
      · exact hcl c (Or.inr (Or.inl hc))
      · exact hcl c (Or.inr (Or.inr (Or.inl hc)))
      · rcases mem_queryPart hc with h1 | rfl
        · exact hcl c (Or.inr (Or.inr (Or.inr (Or.inl h1))))
        · decide
      · rcases mem_fragPart hc with h1 | rfl
        · exact hcl c (Or.inr (Or.inr (Or.inr (Or.inr h1))))
        · decide
    · intro c hc
      obtain ⟨⟨d, r, e, hd⟩, _⟩ := hS
      subst e
      simp only [List.cons_append, List.head?_cons, Option.some.injEq] at hc
      subst hc
      exact alpha_not_c0 hd
  unfold urlsplit
  rw [hclean']
  have hs := splitScheme_scheme S ('/' :: '/' :: (nl ++ (path ++ (queryPart q ++ fragPart f)))) hS hl
  have hn := splitNetloc_slashes nl (path ++ (queryPart q ++ fragPart f)) hnd
    (pathTail_head path q f hpa)
  simp only [hs, hn, hok, Bool.not_true, Bool.false_eq_true, if_false]
  have hq : '#' ∉ path ++ queryPart q := by
    intro hm
    rcases List.mem_append.1 hm with h1 | h1
    · exact hph h1
    · rcases mem_queryPart h1 with h2 | h2
      · exact hqh h2
      · cases h2
  rw [← List.append_assoc, splitFirst_frag _ _ hq]
  simp only [splitFirst_query _ _ hpq]
  by_cases h1 : q = [] <;> by_cases h2 : f = [] <;> simp [h1, h2]

/-! ## `str(n)` and `int(s)` -/

theorem natToStr_eq (n : Nat) : natToStr n = Nat.toDigits 10 n := by
  unfold natToStr
  show (Nat.repr n).toList = _
  exact Nat.toList_repr

theorem isAsciiDigit_of_isDigit {c : Char} (h : c.isDigit = true) : isAsciiDigit c = true := by
  simp only [Char.isDigit, Bool.and_eq_true, decide_eq_true_eq] at h
  simp only [isAsciiDigit, decide_eq_true_eq, Char.le_def]
  exact ⟨h.1, h.2⟩

theorem natToStr_digits (n : Nat) : ∀ c ∈ natToStr n, isAsciiDigit c = true := by
  intro c hc
  rw [natToStr_eq] at hc
  exact isAsciiDigit_of_isDigit (Nat.isDigit_of_mem_toDigits (by decide) (by decide) hc)

theorem natToStr_ne_nil (n : Nat) : natToStr n ≠ [] := by
  rw [natToStr_eq]; exact Nat.toDigits_ne_nil

theorem foldl_toDigits (n : Nat) :
    (Nat.toDigits 10 n).foldl (fun n c => n * 10 + (c.toNat - '0'.toNat)) 0 = n := by
  induction n using Nat.strongRecOn with
  | _ n ih =>
    rw [Nat.toDigits_eq_if (by decide)]
    by_cases h : n < 10
    · rw [if_pos h]
      simp only [List.foldl_cons, List.foldl_nil, Nat.zero_mul, Nat.zero_add]
      exact Nat.toNat_digitChar_sub_48_of_lt_ten h
    · rw [if_neg h, List.foldl_append, ih (n / 10) (by omega)]
      simp only [List.foldl_cons, List.foldl_nil]
      have : (n % 10).digitChar.toNat - '0'.toNat = n % 10 :=
        Nat.toNat_digitChar_sub_48_of_lt_ten (by omega)
      rw [this]; omega

/-- `int(str(n)) == n` -/
theorem strToNat_natToStr (n : Nat) : strToNat? (natToStr n) = some n := by
  unfold strToNat?
  have h1 : natToStr n ≠ [] := natToStr_ne_nil n
  have h2 : (natToStr n).all isAsciiDigit = true := List.all_eq_true.2 (natToStr_digits n)
  rw [if_pos ⟨h1, h2⟩, natToStr_eq, foldl_toDigits]

theorem not_mem_natToStr {c : Char} (hc : isAsciiDigit c = false) (n : Nat) : c ∉ natToStr n := by
  intro h; rw [natToStr_digits n c h] at hc; cases hc

/-! ## `rpartition` -/

theorem splitLast_append_sep (a b : Str) (sep : Char) (h : sep ∉ b) :
    splitLast (a ++ sep :: b) sep = (some a, b) := by
  unfold splitLast
  rw [span_eq_s20]
  have hr : (a ++ sep :: b).reverse = b.reverse ++ sep :: a.reverse := by simp
  rw [hr,
    takeWhile_append_stop _ b.reverse (sep :: a.reverse)
      (fun c hc => by
        simp only [ne_eq, decide_eq_true_eq]; rintro rfl; exact h (List.mem_reverse.1 hc))
      (fun c hc => by simp at hc; simp [← hc]),
    dropWhile_append_stop _ b.reverse (sep :: a.reverse)
      (fun c hc => by
        simp only [ne_eq, decide_eq_true_eq]; rintro rfl; exact h (List.mem_reverse.1 hc))
      (fun c hc => by simp at hc; simp [← hc])]
  simp

theorem splitLast_notMem (s : Str) (sep : Char) (h : sep ∉ s) : splitLast s sep = (none, s) := by
  unfold splitLast
  rw [span_eq_s20]
  have h1 : ∀ c ∈ s.reverse, (decide (c ≠ sep)) = true := by
    intro c hc; simp only [ne_eq, decide_eq_true_eq]; rintro rfl; exact h (List.mem_reverse.1 hc)
  have e1 := takeWhile_append_stop (fun c => decide (c ≠ sep)) s.reverse [] h1 (by simp)
  have e2 := dropWhile_append_stop (fun c => decide (c ≠ sep)) s.reverse [] h1 (by simp)
  rw [List.append_nil] at e1 e2
  rw [e1, e2]
  simp

/-! ## the netloc printed by `unsplit_netloc`, in normal form -/

/-- a falsy component (`None` or `""`) counts as the empty string -/
def strOf (o : Option Str) : Str := if truthy o then o.getD [] else []

def authPart (U P : Str) : Str :=
  if P ≠ [] then U ++ ':' :: P ++ ['@'] else if U ≠ [] then U ++ ['@'] else []
def hostPart (H : Str) : Str :=
  if H.contains ':' ∧ ¬ startsWith H ['['] then '[' :: H ++ [']'] else H
def portPart (port : Option Nat) : Str :=
  match port with | some n => ':' :: natToStr n | none => []

theorem truthy_some (s : Str) : truthy (some s) = true ↔ s ≠ [] := by
  cases s <;> simp [truthy]

theorem strOf_some (s : Str) : strOf (some s) = s := by
  cases s <;> simp [strOf, truthy]

theorem strOf_none : strOf none = [] := by simp [strOf, truthy]

theorem unsplitNetloc_eq (user pass host : Option Str) (port : Option Nat) :
    unsplitNetloc user pass host port =
      authPart (strOf user) (strOf pass) ++ (hostPart (strOf host) ++ portPart port) := by
  have hh : (if truthy host = true then host.getD [] else []) = strOf host := rfl
  have hu : (if truthy user = true then user.getD [] else []) = strOf user := rfl
  simp only [unsplitNetloc, hh, hu]
  have hhp : (if (strOf host).contains ':' = true ∧ ¬startsWith (strOf host) ['['] = true then
      ['['] ++ strOf host ++ [']'] else strOf host) = hostPart (strOf host) := by
    unfold hostPart; split <;> simp
  rw [hhp]
  cases port with
  | none =>
    simp only [portPart, List.append_nil]
    cases pass with
    | none =>
      cases user with
      | none => simp [truthy, authPart, strOf_none]
      | some u => cases u <;> simp [truthy, authPart, strOf_none, strOf_some]
    | some p =>
      cases p with
      | nil =>
        cases user with
        | none => simp [truthy, authPart, strOf_none, strOf_some]
        | some u => cases u <;> simp [truthy, authPart, strOf_none, strOf_some]
      | cons pc pr =>
        cases user with
        | none => simp [truthy, authPart, strOf_none, strOf_some]
        | some u => cases u <;> simp [truthy, authPart, strOf_none, strOf_some]
  | some n =>
    simp only [portPart]
    cases pass with
    | none =>
      cases user with
      | none => simp [truthy, authPart, strOf_none]
      | some u => cases u <;> simp [truthy, authPart, strOf_none, strOf_some]
    | some p =>
      cases p with
      | nil =>
        cases user with
        | none => simp [truthy, authPart, strOf_none, strOf_some]
        | some u => cases u <;> simp [truthy, authPart, strOf_none, strOf_some]
      | cons pc pr =>
        cases user with
        | none => simp [truthy, authPart, strOf_none, strOf_some]
        | some u => cases u <;> simp [truthy, authPart, strOf_none, strOf_some]

/-! ## the accessors on a printed netloc -/

theorem mem_hostPart {c : Char} {H : Str} (h : c ∈ hostPart H) : c ∈ H ∨ c = '[' ∨ c = ']' := by
  unfold hostPart at h
  split at h
  · simp only [List.mem_cons, List.mem_append, List.not_mem_nil, or_false] at h
    rcases h with (h | h) | h
    · exact Or.inr (Or.inl h)
    · exact Or.inl h
    · exact Or.inr (Or.inr h)
  · exact Or.inl h

theorem mem_portPart {c : Char} {port : Option Nat} (h : c ∈ portPart port) :
    c = ':' ∨ isAsciiDigit c = true := by
  cases port with
  | none => simp [portPart] at h
  | some n =>
    simp only [portPart, List.mem_cons] at h
    rcases h with h | h
    · exact Or.inl h
    · exact Or.inr (natToStr_digits n c h)

theorem at_not_mem_rest (H : Str) (port : Option Nat) (hH : '@' ∉ H) :
    '@' ∉ hostPart H ++ portPart port := by
  intro hm
  rcases List.mem_append.1 hm with h | h
  · rcases mem_hostPart h with h | h | h
    · exact hH h
    · cases h
    · cases h
  · rcases mem_portPart h with h | h
    · cases h
    · revert h; decide

theorem userinfo_auth (U P rest : Str) (hU : ':' ∉ U) (hr : '@' ∉ rest) :
    userinfo (authPart U P ++ rest) =
      (if P ≠ [] ∨ U ≠ [] then some U else none, if P ≠ [] then some P else none) := by
  unfold userinfo authPart
  by_cases hP : P = []
  · by_cases hUe : U = []
    · simp [hP, hUe, splitLast_notMem _ _ hr]
    · simp only [hP, hUe, ne_eq, not_true_eq_false, not_false_eq_true, if_true, if_false,
        List.append_assoc, List.singleton_append, false_or]
      rw [splitLast_append_sep _ _ _ hr]
      simp [splitFirst_notMem_s20 _ _ hU]
  · simp only [hP, ne_eq, not_false_eq_true, if_true, List.append_assoc, List.singleton_append,
      true_or, List.cons_append, List.nil_append]
    have : U ++ ':' :: (P ++ '@' :: rest) = (U ++ ':' :: P) ++ '@' :: rest := by simp
    rw [this, splitLast_append_sep _ _ _ hr]
    simp [splitFirst_append_sep_s20 _ _ _ hU]

theorem hostinfoStr_auth (U P rest : Str) (hr : '@' ∉ rest) :
    hostinfoStr (authPart U P ++ rest) = rest := by
  unfold hostinfoStr authPart
  by_cases hP : P = []
  · by_cases hUe : U = []
    · simp [hP, hUe, splitLast_notMem _ _ hr]
    · simp only [hP, hUe, ne_eq, not_true_eq_false, not_false_eq_true, if_true, if_false,
        List.append_assoc, List.singleton_append]
      rw [splitLast_append_sep _ _ _ hr]
  · simp only [hP, ne_eq, not_false_eq_true, if_true, List.append_assoc, List.singleton_append,
      List.cons_append, List.nil_append]
    have : U ++ ':' :: (P ++ '@' :: rest) = (U ++ ':' :: P) ++ '@' :: rest := by simp
    rw [this, splitLast_append_sep _ _ _ hr]

theorem hostPortStr_host (H : Str) (port : Option Nat) (h1 : '[' ∉ H) (h2 : ']' ∉ H) :
    hostPortStr (hostPart H ++ portPart port) =
      (H, match port with | some n => natToStr n | none => []) := by
  have hsw : startsWith H ['['] = false := by
    cases H with
    | nil => rfl
    | cons c r =>
      rw [startsWith_cons_cons, startsWith_nil]
      have : c ≠ '[' := fun e => h1 (by simp [e])
      simp [this]
  unfold hostPortStr
  by_cases hc : ':' ∈ H
  · have hp : hostPart H = '[' :: (H ++ [']']) := by
      unfold hostPart; simp [hc, hsw]
    rw [hp]
    simp only [List.cons_append, List.append_assoc, List.singleton_append]
    rw [splitFirst_cons_s20, if_pos rfl]
    simp only [splitFirst_append_sep_s20 _ _ _ h2, Option.getD_some]
    cases port with
    | none => simp [portPart, splitFirst_nil_s20]
    | some n => simp [portPart, splitFirst_cons_s20]
  · have hp : hostPart H = H := by unfold hostPart; simp [hc]
    rw [hp]
    have hb : '[' ∉ H ++ portPart port := by
      intro hm
      rcases List.mem_append.1 hm with h | h
      · exact h1 h
      · rcases mem_portPart h with h | h
        · cases h
        · revert h; decide
    rw [splitFirst_notMem_s20 _ _ hb]
    cases port with
    | none => simp [portPart, splitFirst_notMem_s20 _ _ hc]
    | some n => simp [portPart, splitFirst_append_sep_s20 _ _ _ hc]

/-- **the accessors invert `unsplit_netloc`**: user and password (a falsy component reads
back as absent, except that a password without user gives the empty user), the host
lower-cased (an IPv6 literal gets its brackets and loses them again), the port -/
theorem accessors_unsplitNetloc (user pass host : Option Str) (port : Option Nat)
    (hu : ':' ∉ strOf user)
    (hh : '@' ∉ strOf host ∧ '[' ∉ strOf host ∧ ']' ∉ strOf host)
    (hp : ∀ n ∈ port, n ≤ 65535) :
    username (unsplitNetloc user pass host port) =
      (if strOf pass ≠ [] ∨ strOf user ≠ [] then some (strOf user) else none) ∧
    password (unsplitNetloc user pass host port) =
      (if strOf pass ≠ [] then some (strOf pass) else none) ∧
    hostname (unsplitNetloc user pass host port) =
      (if strOf host = [] then none else some (lowerHost (strOf host))) ∧
    Py.port (unsplitNetloc user pass host port) = some port := by
  rw [unsplitNetloc_eq]
  have hr := at_not_mem_rest (strOf host) port hh.1
  have hhi : hostinfo (authPart (strOf user) (strOf pass) ++
      (hostPart (strOf host) ++ portPart port)) = (strOf host, port.map natToStr) := by
    unfold hostinfo
    rw [hostinfoStr_auth _ _ _ hr, hostPortStr_host _ _ hh.2.1 hh.2.2]
    cases port with
    | none => simp
    | some n => simp [natToStr_ne_nil]
  refine ⟨?_, ?_, ?_, ?_⟩
  · unfold username; rw [userinfo_auth _ _ _ hu hr]
  · unfold password; rw [userinfo_auth _ _ _ hu hr]
  · unfold hostname; rw [hhi]
  · unfold Py.port; rw [hhi]
    cases port with
    | none => rfl
    | some n =>
      simp only [Option.map_some, strToNat_natToStr]
      rw [if_pos (hp n rfl)]

/-! ## the same with a host that keeps its brackets (an ip literal, `canonicalize_url`) -/

/-- the host as `canonicalize_url` prints it: between brackets when the parsed host was
(`b`), else as `unsplit_netloc` does -/
def hostPartB (b : Bool) (H : Str) : Str := if b then '[' :: H ++ [']'] else hostPart H

theorem hostPart_bracketed (H : Str) : hostPart ('[' :: H ++ [']']) = '[' :: H ++ [']'] := by
  unfold hostPart
  simp [startsWith_cons_cons, startsWith_nil]

theorem mem_hostPartB {c : Char} {b : Bool} {H : Str} (h : c ∈ hostPartB b H) :
    c ∈ H ∨ c = '[' ∨ c = ']' := by
  unfold hostPartB at h
  split at h
  · simp only [List.mem_cons, List.mem_append, List.not_mem_nil, or_false] at h
    rcases h with (h | h) | h
    · exact Or.inr (Or.inl h)
    · exact Or.inl h
    · exact Or.inr (Or.inr h)
  · exact mem_hostPart h

theorem at_not_mem_restB (b : Bool) (H : Str) (port : Option Nat) (hH : '@' ∉ H) :
    '@' ∉ hostPartB b H ++ portPart port := by
  intro hm
  rcases List.mem_append.1 hm with h | h
  · rcases mem_hostPartB h with h | h | h
    · exact hH h
    · cases h
    · cases h
  · rcases mem_portPart h with h | h
    · cases h
    · revert h; decide

theorem hostPortStr_hostB (b : Bool) (H : Str) (port : Option Nat)
    (hb : b = true → ']' ∉ H) (hnb : b = false → '[' ∉ H ∧ ']' ∉ H) :
    hostPortStr (hostPartB b H ++ portPart port) =
      (H, match port with | some n => natToStr n | none => []) := by
  cases b with
  | false => exact hostPortStr_host H port (hnb rfl).1 (hnb rfl).2
  | true =>
    have h2 := hb rfl
    unfold hostPortStr hostPartB
    simp only [if_true, List.cons_append, List.append_assoc, List.singleton_append]
    rw [splitFirst_cons_s20, if_pos rfl]
    simp only [splitFirst_append_sep_s20 _ _ _ h2, Option.getD_some]
    cases port with
    | none => simp [portPart, splitFirst_nil_s20]
    | some n => simp [portPart, splitFirst_cons_s20]

/-- **the accessors on the netloc `canonicalize_url` prints**: userinfo `U:P@`, the host `H`
between brackets when `b`, the port -/
theorem accessors_printed (U P H : Str) (b : Bool) (port : Option Nat)
    (hu : ':' ∉ U) (hat : '@' ∉ H)
    (hb : b = true → ']' ∉ H) (hnb : b = false → '[' ∉ H ∧ ']' ∉ H)
    (hp : ∀ n ∈ port, n ≤ 65535) :
    username (authPart U P ++ (hostPartB b H ++ portPart port)) =
      (if P ≠ [] ∨ U ≠ [] then some U else none) ∧
    password (authPart U P ++ (hostPartB b H ++ portPart port)) =
      (if P ≠ [] then some P else none) ∧
    hostname (authPart U P ++ (hostPartB b H ++ portPart port)) =
      (if H = [] then none else some (lowerHost H)) ∧
    Py.port (authPart U P ++ (hostPartB b H ++ portPart port)) = some port ∧
    hostinfoStr (authPart U P ++ (hostPartB b H ++ portPart port)) =
      hostPartB b H ++ portPart port := by
  have hr := at_not_mem_restB b H port hat
  have hhi : hostinfo (authPart U P ++ (hostPartB b H ++ portPart port)) =
      (H, port.map natToStr) := by
    unfold hostinfo
    rw [hostinfoStr_auth _ _ _ hr, hostPortStr_hostB _ _ _ hb hnb]
    cases port with
    | none => simp
    | some n => simp [natToStr_ne_nil]
  refine ⟨?_, ?_, ?_, ?_, hostinfoStr_auth _ _ _ hr⟩
  · unfold username; rw [userinfo_auth _ _ _ hu hr]
  · unfold password; rw [userinfo_auth _ _ _ hu hr]
  · unfold hostname; rw [hhi]
  · unfold Py.port; rw [hhi]
    cases port with
    | none => rfl
    | some n =>
      simp only [Option.map_some, strToNat_natToStr]
      rw [if_pos (hp n rfl)]

/-- what stands before the last `@` of the printed netloc: the userinfo -/
theorem splitLast_auth (U P rest : Str) (hr : '@' ∉ rest) :
    (splitLast (authPart U P ++ rest) '@').1 =
      (if P ≠ [] then some (U ++ ':' :: P) else if U ≠ [] then some U else none) := by
  unfold authPart
  by_cases hP : P = []
  · by_cases hUe : U = []
    · simp [hP, hUe, splitLast_notMem _ _ hr]
    · simp only [hP, hUe, ne_eq, not_true_eq_false, not_false_eq_true, if_true, if_false,
        List.append_assoc, List.singleton_append]
      rw [splitLast_append_sep _ _ _ hr]
  · simp only [hP, ne_eq, not_false_eq_true, if_true, List.append_assoc, List.singleton_append,
      List.cons_append, List.nil_append]
    have : U ++ ':' :: (P ++ '@' :: rest) = (U ++ ':' :: P) ++ '@' :: rest := by simp
    rw [this, splitLast_append_sep _ _ _ hr]

/-! ## character facts -/

theorem lowerChar_toNat (c : Char) :
    (lowerChar c).toNat = if 65 ≤ c.toNat ∧ c.toNat ≤ 90 then c.toNat + 32 else c.toNat := by
  unfold lowerChar
  simp only [char_le_iff]
  have e1 : 'A'.toNat = 65 := rfl
  have e2 : 'Z'.toNat = 90 := rfl
  rw [e1, e2]
  split
  · rename_i h; rw [toNat_ofNat_small _ (by omega)]
  · rfl

theorem upperChar_toNat (c : Char) :
    (upperChar c).toNat = if 97 ≤ c.toNat ∧ c.toNat ≤ 122 then c.toNat - 32 else c.toNat := by
  unfold upperChar
  simp only [char_le_iff]
  have e1 : 'a'.toNat = 97 := rfl
  have e2 : 'z'.toNat = 122 := rfl
  rw [e1, e2]
  split
  · rename_i h; rw [toNat_ofNat_small _ (by omega)]
  · rfl

theorem isControlChar_iff (c : Char) :
    isControlChar c = true ↔ (c.toNat ≤ 31 ∨ (127 ≤ c.toNat ∧ c.toNat ≤ 159)) := by
  simp [isControlChar]

theorem isControlChar_lowerChar (c : Char) : isControlChar (lowerChar c) = isControlChar c := by
  rw [Bool.eq_iff_iff, isControlChar_iff, isControlChar_iff, lowerChar_toNat]
  split <;> omega

theorem isControlChar_upperChar (c : Char) : isControlChar (upperChar c) = isControlChar c := by
  rw [Bool.eq_iff_iff, isControlChar_iff, isControlChar_iff, upperChar_toNat]
  split <;> omega

/-- no C0 / DEL / C1 control character -/
def NoCtl (s : Str) : Prop := ∀ c ∈ s, isControlChar c = false

theorem NoCtl.append {a b : Str} (ha : NoCtl a) (hb : NoCtl b) : NoCtl (a ++ b) := by
  intro c hc; rcases List.mem_append.1 hc with h | h
  · exact ha c h
  · exact hb c h

theorem NoCtl.of_subset {a b : Str} (h : a ⊆ b) (hb : NoCtl b) : NoCtl a :=
  fun c hc => hb c (h hc)

theorem NoCtl.lower {a : Str} (ha : NoCtl a) : NoCtl (lower a) := by
  intro c hc
  simp only [Py.lower, List.mem_map] at hc
  obtain ⟨d, hd, rfl⟩ := hc
  rw [isControlChar_lowerChar]; exact ha d hd

theorem unsafe_of_ctl {c : Char} (h : isControlChar c = false) : isUnsafeUrlChar c = false := by
  cases hu : isUnsafeUrlChar c with
  | false => rfl
  | true =>
    simp only [isUnsafeUrlChar, Bool.or_eq_true, decide_eq_true_eq] at hu
    rcases hu with (rfl | rfl) | rfl <;> revert h <;> decide

theorem isSchemeChar_not_ctl {c : Char} (h : isSchemeChar c = true) : isControlChar c = false := by
  simp only [isSchemeChar, isAsciiAlpha, isAsciiDigit, Bool.or_eq_true, decide_eq_true_eq,
    char_le_iff] at h
  have e1 : 'a'.toNat = 97 := rfl
  have e2 : 'z'.toNat = 122 := rfl
  have e3 : 'A'.toNat = 65 := rfl
  have e4 : 'Z'.toNat = 90 := rfl
  have e5 : '0'.toNat = 48 := rfl
  have e6 : '9'.toNat = 57 := rfl
  rw [e1, e2, e3, e4, e5, e6] at h
  cases hc : isControlChar c with
  | false => rfl
  | true =>
    rw [isControlChar_iff] at hc
    rcases h with (((h | h) | h) | h) | h
    · omega
    · omega
    · subst h; revert hc; decide
    · subst h; revert hc; decide
    · subst h; revert hc; decide

theorem SchemeShaped.noCtl {s : Str} (h : SchemeShaped s) : NoCtl s :=
  fun c hc => isSchemeChar_not_ctl (schemeShaped_mem h c hc)

end Ural.UrlRoundTrip
