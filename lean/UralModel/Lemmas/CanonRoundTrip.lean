import UralModel.Lemmas.UrlRoundTrip
import UralModel.Lemmas.Canonicalize
import UralModel.Model.CanonicalizeUrl
/-!
# `canonicalize_url` prints well-formed 5-tuples

Facts about the string `canonicalize_url` hands to the parser (`cleanUrl`: no control
character, a scheme, `://`), about what the parser (`Py.parseUrl`) returns on it, and about
the components `canonComps` builds from that — enough to show that `canonParts` satisfies
`UrlRoundTrip.WF` and the hypotheses of `accessors_unsplitNetloc`.
-/
set_option linter.unusedSimpArgs false
set_option linter.unusedVariables false

namespace Ural.CanonRoundTrip
open Ural.Py Ural.UrlParts Ural.Quote Ural.Canonicalize Ural.UrlRoundTrip

/-! ## the cleaned string -/

theorem mem_upperQuoted {c : Char} {s : Str} (h : c ∈ upperQuoted s) :
    ∃ d ∈ s, c = d ∨ c = upperChar d := by
  unfold upperQuoted render at h
  simp only [List.mem_flatMap, List.mem_map] at h
  obtain ⟨t', ⟨t, ht, rfl⟩, hc⟩ := h
  have hsub : ∀ d ∈ renderTok t, d ∈ s := by
    intro d hd
    have : d ∈ render (tokens s) := by unfold render; exact List.mem_flatMap.2 ⟨t, ht, hd⟩
    rwa [render_tokens] at this
  cases t with
  | raw x => exact ⟨c, hsub c hc, Or.inl rfl⟩
  | stray => exact ⟨c, hsub c hc, Or.inl rfl⟩
  | esc h1 h2 =>
    simp only [upperTok, renderTok, List.mem_cons, List.not_mem_nil, or_false] at hc
    rcases hc with rfl | rfl | rfl
    · exact ⟨'%', hsub _ (by simp [renderTok]), Or.inl rfl⟩
    · exact ⟨h1, hsub _ (by simp [renderTok]), Or.inr rfl⟩
    · exact ⟨h2, hsub _ (by simp [renderTok]), Or.inr rfl⟩

theorem noCtl_upperQuoted {s : Str} (h : NoCtl s) : NoCtl (upperQuoted s) := by
  intro c hc
  obtain ⟨d, hd, rfl | rfl⟩ := mem_upperQuoted hc
  · exact h _ hd
  · rw [isControlChar_upperChar]; exact h _ hd

theorem strip_subset (s : Str) : strip s ⊆ s := by
  intro c hc
  unfold strip rstrip lstrip at hc
  have h1 := List.mem_reverse.1 hc
  have h2 := (List.dropWhile_sublist _).subset h1
  have h3 := List.mem_reverse.1 h2
  exact (List.dropWhile_sublist _).subset h3

theorem noCtl_stripControl (s : Str) : NoCtl (stripControl s) := by
  intro c hc
  simp only [stripControl, List.mem_filter, Bool.not_eq_true'] at hc
  exact hc.2

theorem startsWith_three {x : Str} (h : startsWith x [':', '/', '/'] = true) :
    ∃ r, x = ':' :: '/' :: '/' :: r := by
  match x with
  | [] => simp [startsWith] at h
  | [a] => simp [startsWith_cons_cons, startsWith_nil_cons] at h
  | [a, b] => simp [startsWith_cons_cons, startsWith_nil_cons] at h
  | a :: b :: c :: r =>
    simp only [startsWith_cons_cons, startsWith_nil, Bool.and_true, Bool.and_eq_true,
      beq_iff_eq] at h
    obtain ⟨rfl, rfl, rfl⟩ := h
    exact ⟨r, rfl⟩

theorem startsWith_two {x : Str} (h : startsWith x ['/', '/'] = true) :
    ∃ r, x = '/' :: '/' :: r := by
  match x with
  | [] => simp [startsWith] at h
  | [a] => simp [startsWith_cons_cons, startsWith_nil_cons] at h
  | a :: b :: r =>
    simp only [startsWith_cons_cons, startsWith_nil, Bool.and_true, Bool.and_eq_true,
      beq_iff_eq] at h
    obtain ⟨rfl, rfl⟩ := h
    exact ⟨r, rfl⟩

theorem drop_length_takeWhile {α : Type} (p : α → Bool) (l : List α) :
    l.drop (l.takeWhile p).length = l.dropWhile p := by
  induction l with
  | nil => rfl
  | cons a l ih =>
    by_cases h : p a = true
    · simp [List.takeWhile_cons, List.dropWhile_cons, h, ih]
    · simp [List.takeWhile_cons, List.dropWhile_cons, h]

/-- the cleaned string is `scheme://rest`; `Letters` says the scheme is 1–64 ASCII letters
when the default protocol is (what `PROTOCOL_RE` recognises again) -/
theorem ensureProtocol_shape (url dp : Str) (hdp : SchemeShaped (rstripChars dp [':', '/'])) :
    ∃ S rest, SchemeShaped S ∧ ensureProtocol url dp = S ++ ':' :: '/' :: '/' :: rest ∧
      rest ⊆ url ∧
      ((∀ c ∈ rstripChars dp [':', '/'], isAsciiAlpha c = true) →
        (rstripChars dp [':', '/']).length ≤ 64 →
        (∀ c ∈ S, isAsciiAlpha c = true) ∧ S.length ≤ 64) := by
  unfold ensureProtocol
  cases hpl : protoLen url with
  | none =>
    refine ⟨_, url, hdp, by simp, fun c hc => hc, fun h1 h2 => ⟨h1, h2⟩⟩
  | some k =>
    simp only
    by_cases hs : startsWith url ['/', '/'] = true
    · obtain ⟨r, rfl⟩ := startsWith_two hs
      rw [if_pos hs]
      refine ⟨_, r, hdp, by simp, fun c hc => by simp [hc], fun h1 h2 => ⟨h1, h2⟩⟩
    · rw [if_neg hs]
      unfold protoLen at hpl
      rw [if_neg hs] at hpl
      simp only at hpl
      split at hpl
      · rename_i hk
        obtain ⟨r, hr⟩ := startsWith_three hk.2.2
        have hsplit : url = url.takeWhile isAsciiAlpha ++ ':' :: '/' :: '/' :: r := by
          rw [← hr, drop_length_takeWhile, List.takeWhile_append_dropWhile]
        have hall : ∀ c ∈ url.takeWhile isAsciiAlpha, isAsciiAlpha c = true :=
          fun c hc => mem_takeWhile_s20 _ _ c hc
        refine ⟨url.takeWhile isAsciiAlpha, r, ?_, hsplit, ?_, fun _ _ => ⟨hall, hk.2.1⟩⟩
        · constructor
          · cases hh : url.takeWhile isAsciiAlpha with
            | nil => rw [hh] at hk; simp at hk
            | cons c rr => exact ⟨c, rr, rfl, hall c (by rw [hh]; simp)⟩
          · apply List.all_eq_true.2
            intro c hc
            simp [isSchemeChar, hall c hc]
        · intro c hc
          rw [hsplit]; simp [hc]
      · cases hpl

/-- what `canonicalize_url` hands to the parser: a scheme, `://`, and no control character -/
structure Cleaned (c S rest : Str) : Prop where
  shaped : SchemeShaped S
  eq : c = S ++ ':' :: '/' :: '/' :: rest
  noCtl : NoCtl c

theorem cleanUrl_cleaned (u dp : Str) (hdp : SchemeShaped (rstripChars dp [':', '/'])) :
    ∃ S rest, Cleaned (Canonicalize.cleanUrl u dp) S rest ∧
      ((∀ c ∈ rstripChars dp [':', '/'], isAsciiAlpha c = true) →
        (rstripChars dp [':', '/']).length ≤ 64 →
        (∀ c ∈ S, isAsciiAlpha c = true) ∧ S.length ≤ 64) := by
  unfold Canonicalize.cleanUrl
  obtain ⟨S, rest, hS, he, hsub, hl⟩ :=
    ensureProtocol_shape (upperQuoted (strip (stripControl u))) dp hdp
  refine ⟨S, rest, ⟨hS, he, ?_⟩, hl⟩
  rw [he]
  have h0 : NoCtl (upperQuoted (strip (stripControl u))) :=
    noCtl_upperQuoted (NoCtl.of_subset (strip_subset _) (noCtl_stripControl u))
  apply NoCtl.append hS.noCtl
  intro c hc
  simp only [List.mem_cons] at hc
  rcases hc with rfl | rfl | rfl | hc
  · decide
  · decide
  · decide
  · exact h0 c (hsub hc)

theorem splitScheme_scheme' (sc rest : Str) (h : SchemeShaped sc) :
    splitScheme (sc ++ ':' :: rest) [] = (lower sc, rest) := by
  obtain ⟨⟨c, r, rfl, hc⟩, hall⟩ := h
  unfold splitScheme
  rw [splitFirst_append_sep_s20 _ _ _ (colon_not_mem_of_schemeChars hall)]
  simp only [hc, hall, Bool.and_self, if_true]

/-- `urlsplit` on the cleaned string, stage by stage -/
theorem urlsplit_cleaned {c S rest : Str} (h : Cleaned c S rest) :
    urlsplit c [] =
      (if !netlocOk (rest.takeWhile (fun c => !isNetlocDelim c)) then none
       else some ⟨lower S, rest.takeWhile (fun c => !isNetlocDelim c),
         (splitFirst (splitFirst (rest.dropWhile (fun c => !isNetlocDelim c)) '#').1 '?').1,
         (splitFirst (splitFirst (rest.dropWhile (fun c => !isNetlocDelim c)) '#').1 '?').2.getD [],
         (splitFirst (rest.dropWhile (fun c => !isNetlocDelim c)) '#').2.getD []⟩) := by
  have hclean : Py.cleanUrl c = c := by
    apply cleanUrl_id
    · intro x hx; exact unsafe_of_ctl (h.noCtl x hx)
    · intro x hx
      obtain ⟨⟨d, r, e, hd⟩, _⟩ := h.shaped
      rw [h.eq, e] at hx
      simp only [List.cons_append, List.head?_cons, Option.some.injEq] at hx
      subst hx; exact alpha_not_c0 hd
  unfold urlsplit
  rw [hclean]
  have hs : splitScheme c [] = (lower S, '/' :: '/' :: rest) := by
    rw [h.eq]; exact splitScheme_scheme' S _ h.shaped
  have hn : splitNetloc ('/' :: '/' :: rest) =
      (rest.takeWhile (fun c => !isNetlocDelim c), rest.dropWhile (fun c => !isNetlocDelim c)) := by
    unfold splitNetloc
    simp [startsWith_cons_cons, startsWith_nil]
  simp only [hs, hn]

theorem splitFirst_fst_subset (s : Str) (sep : Char) : (splitFirst s sep).1 ⊆ s := by
  rw [splitFirst_eq]; exact (List.takeWhile_sublist _).subset

theorem splitFirst_snd_subset (s : Str) (sep : Char) : (splitFirst s sep).2.getD [] ⊆ s := by
  have := (splitFirst_spec_s20 s sep).2
  cases hb : (splitFirst s sep).2 with
  | none => simp
  | some b =>
    rw [hb] at this
    simp only [Option.getD_some]
    intro x hx
    rw [this]; simp [hx]

/-- what the proofs need to know about the split result of a cleaned string -/
structure SplitFacts (S rest : Str) (r : SplitResult) : Prop where
  scheme : r.scheme = lower S
  nodelim : ∀ ch ∈ r.netloc, isNetlocDelim ch = false
  ok : netlocOk r.netloc = true
  path_noq : '?' ∉ r.path
  path_noh : '#' ∉ r.path
  query_noh : '#' ∉ r.query
  path_abs : r.path = [] ∨ ∃ q, r.path = '/' :: q
  sub_netloc : r.netloc ⊆ rest
  sub_path : r.path ⊆ rest
  sub_query : r.query ⊆ rest
  sub_fragment : r.fragment ⊆ rest

theorem splitFacts {c S rest : Str} (h : Cleaned c S rest) {r : SplitResult}
    (hr : urlsplit c [] = some r) : SplitFacts S rest r := by
  rw [urlsplit_cleaned h] at hr
  split at hr
  · cases hr
  · rename_i hok
    simp only [Option.some.injEq] at hr
    subst hr
    have hd : rest.dropWhile (fun c => !isNetlocDelim c) ⊆ rest :=
      (List.dropWhile_sublist _).subset
    have hf1 := splitFirst_spec_s20 (rest.dropWhile (fun c => !isNetlocDelim c)) '#'
    have hq1 := splitFirst_spec_s20 (splitFirst (rest.dropWhile (fun c => !isNetlocDelim c)) '#').1 '?'
    have hs1 := splitFirst_fst_subset (rest.dropWhile (fun c => !isNetlocDelim c)) '#'
    have hs2 := splitFirst_fst_subset (splitFirst (rest.dropWhile (fun c => !isNetlocDelim c)) '#').1 '?'
    refine ⟨rfl, ?_, by simpa using hok, hq1.1, ?_, ?_, ?_, (List.takeWhile_sublist _).subset,
      fun x hx => hd (hs1 (hs2 hx)), ?_, fun x hx => hd (splitFirst_snd_subset _ _ hx)⟩
    · intro ch hch
      have := mem_takeWhile_s20 _ _ ch hch
      simpa using this
    · intro hm; exact hf1.1 (hs2 hm)
    · intro hm; exact hf1.1 (splitFirst_snd_subset _ _ hm)
    · -- the path is empty or starts with a slash
      have hhead := List.head?_dropWhile_not (fun c => !isNetlocDelim c) rest
      cases htl : rest.dropWhile (fun c => !isNetlocDelim c) with
      | nil => left; simp [splitFirst_nil_s20]
      | cons d t =>
        rw [htl] at hhead
        simp only [List.head?_cons, Bool.not_eq_false', isNetlocDelim, Bool.or_eq_true,
          decide_eq_true_eq] at hhead
        rcases hhead with (rfl | rfl) | rfl
        · right
          simp only [splitFirst_cons_s20, show ('/' : Char) ≠ '#' by decide,
            show ('/' : Char) ≠ '?' by decide, if_false]
          exact ⟨_, rfl⟩
        · left
          simp only [splitFirst_cons_s20, show ('?' : Char) ≠ '#' by decide, if_false, if_true]
        · left
          simp only [splitFirst_cons_s20, if_true, splitFirst_nil_s20]
    · intro x hx; exact hd (hs1 (splitFirst_snd_subset _ _ hx))

end Ural.CanonRoundTrip
