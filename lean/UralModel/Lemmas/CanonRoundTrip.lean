import UralModel.Lemmas.UrlRoundTrip
import UralModel.Lemmas.Canonicalize
import UralModel.Lemmas.CanonAuth
import UralModel.Model.CanonicalizeUrl
import UralModel.Lemmas.Str
/-!
# `canonicalize_url` prints well-formed 5-tuples

Facts about the string `canonicalize_url` hands to the parser (`cleanUrl`: no control
character, a scheme, `://`), about what the parser (`Py.parseUrl`) returns on it, and about
the components `canonComps` builds from that — enough to show that `canonParts` satisfies
`UrlRoundTrip.WF` and the hypotheses of `accessors_unsplitNetloc`.
-/
set_option linter.unusedSimpArgs false
set_option linter.unusedVariables false
set_option linter.unusedSectionVars false

namespace Ural.CanonRoundTrip
open Ural.Py Ural.UrlParts Ural.Quote Ural.Canonicalize Ural.UrlRoundTrip

/-! ## the cleaned string -/

theorem mem_upperQuoted {c : Char} {s : Str} (h : c ∈ upperQuoted s) :
    ∃ d ∈ s, c = d ∨ c = upperChar d := by
  unfold upperQuoted render at h
  simp only [List.mem_flatMap, List.mem_map] at h
  obtain ⟨t', ⟨t, ht, rfl⟩, hc⟩ := h
  have hsub : ∀ d ∈ renderTok t, d ∈ s := by
    intro d hd
    have : d ∈ render (tokens s) := by unfold render; exact List.mem_flatMap.2 ⟨t, ht, hd⟩
    rwa [render_tokens] at this
  cases t with
  | raw x => exact ⟨c, hsub c hc, Or.inl rfl⟩
  | stray => exact ⟨c, hsub c hc, Or.inl rfl⟩
  | esc h1 h2 =>
    simp only [upperTok, renderTok, List.mem_cons, List.not_mem_nil, or_false] at hc
    rcases hc with rfl | rfl | rfl
    · exact ⟨'%', hsub _ (by simp [renderTok]), Or.inl rfl⟩
    · exact ⟨h1, hsub _ (by simp [renderTok]), Or.inr rfl⟩
    · exact ⟨h2, hsub _ (by simp [renderTok]), Or.inr rfl⟩

theorem noCtl_upperQuoted {s : Str} (h : NoCtl s) : NoCtl (upperQuoted s) := by
  intro c hc
  obtain ⟨d, hd, rfl | rfl⟩ := mem_upperQuoted hc
  · exact h _ hd
  · rw [isControlChar_upperChar]; exact h _ hd

theorem strip_subset (s : Str) : strip s ⊆ s := by
  intro c hc
  unfold strip rstrip lstrip at hc
  have h1 := List.mem_reverse.1 hc
  have h2 := (List.dropWhile_sublist _).subset h1
  have h3 := List.mem_reverse.1 h2
  exact (List.dropWhile_sublist _).subset h3

theorem noCtl_stripControl (s : Str) : NoCtl (stripControl s) := by
  intro c hc
  simp only [stripControl, List.mem_filter, Bool.not_eq_true'] at hc
  exact hc.2

theorem startsWith_three {x : Str} (h : startsWith x [':', '/', '/'] = true) :
    ∃ r, x = ':' :: '/' :: '/' :: r := by
  match x with
  | [] => simp [startsWith] at h
  | [a] => simp [startsWith_cons_cons, startsWith_nil_cons] at h
  | [a, b] => simp [startsWith_cons_cons, startsWith_nil_cons] at h
  | a :: b :: c :: r =>
    simp only [startsWith_cons_cons, startsWith_nil, Bool.and_true, Bool.and_eq_true,
      beq_iff_eq] at h
    obtain ⟨rfl, rfl, rfl⟩ := h
    exact ⟨r, rfl⟩

theorem startsWith_two {x : Str} (h : startsWith x ['/', '/'] = true) :
    ∃ r, x = '/' :: '/' :: r := by
  match x with
  | [] => simp [startsWith] at h
  | [a] => simp [startsWith_cons_cons, startsWith_nil_cons] at h
  | a :: b :: r =>
    simp only [startsWith_cons_cons, startsWith_nil, Bool.and_true, Bool.and_eq_true,
      beq_iff_eq] at h
    obtain ⟨rfl, rfl⟩ := h
    exact ⟨r, rfl⟩

theorem drop_length_takeWhile {α : Type} (p : α → Bool) (l : List α) :
    l.drop (l.takeWhile p).length = l.dropWhile p := by
  induction l with
  | nil => rfl
  | cons a l ih =>
    by_cases h : p a = true
    · simp [List.takeWhile_cons, List.dropWhile_cons, h, ih]
    · simp [List.takeWhile_cons, List.dropWhile_cons, h]

/-- the cleaned string is `scheme://rest`; `Letters` says the scheme is 1–64 ASCII letters
when the default protocol is (what `PROTOCOL_RE` recognises again) -/
theorem ensureProtocol_shape (url dp : Str) (hdp : SchemeShaped (rstripChars dp [':', '/'])) :
    ∃ S rest, SchemeShaped S ∧ ensureProtocol url dp = S ++ ':' :: '/' :: '/' :: rest ∧
      rest ⊆ url ∧
      ((∀ c ∈ rstripChars dp [':', '/'], isAsciiAlpha c = true) →
        (rstripChars dp [':', '/']).length ≤ 64 →
        (∀ c ∈ S, isAsciiAlpha c = true) ∧ S.length ≤ 64) := by
  unfold ensureProtocol
  cases hpl : protoLen url with
  | none =>
    refine ⟨_, url, hdp, by simp, fun c hc => hc, fun h1 h2 => ⟨h1, h2⟩⟩
  | some k =>
    simp only
    by_cases hs : startsWith url ['/', '/'] = true
    · obtain ⟨r, rfl⟩ := startsWith_two hs
      rw [if_pos hs]
      refine ⟨_, r, hdp, by simp, fun c hc => by simp [hc], fun h1 h2 => ⟨h1, h2⟩⟩
    · rw [if_neg hs]
      unfold protoLen at hpl
      rw [if_neg hs] at hpl
      simp only at hpl
      split at hpl
      · rename_i hk
        obtain ⟨r, hr⟩ := startsWith_three hk.2.2
        have hsplit : url = url.takeWhile isAsciiAlpha ++ ':' :: '/' :: '/' :: r := by
          rw [← hr, drop_length_takeWhile, List.takeWhile_append_dropWhile]
        have hall : ∀ c ∈ url.takeWhile isAsciiAlpha, isAsciiAlpha c = true :=
          fun c hc => mem_takeWhile_s20 _ _ c hc
        refine ⟨url.takeWhile isAsciiAlpha, r, ?_, hsplit, ?_, fun _ _ => ⟨hall, hk.2.1⟩⟩
        · constructor
          · cases hh : url.takeWhile isAsciiAlpha with
            | nil => rw [hh] at hk; simp at hk
            | cons c rr => exact ⟨c, rr, rfl, hall c (by rw [hh]; simp)⟩
          · apply List.all_eq_true.2
            intro c hc
            simp [isSchemeChar, hall c hc]
        · intro c hc
          rw [hsplit]; simp [hc]
      · cases hpl

/-- what `canonicalize_url` hands to the parser: a scheme, `://`, and no control character -/
structure Cleaned (c S rest : Str) : Prop where
  shaped : SchemeShaped S
  eq : c = S ++ ':' :: '/' :: '/' :: rest
  noCtl : NoCtl c

theorem cleanUrl_cleaned (u dp : Str) (hdp : SchemeShaped (rstripChars dp [':', '/'])) :
    ∃ S rest, Cleaned (Canonicalize.cleanUrl u dp) S rest ∧
      ((∀ c ∈ rstripChars dp [':', '/'], isAsciiAlpha c = true) →
        (rstripChars dp [':', '/']).length ≤ 64 →
        (∀ c ∈ S, isAsciiAlpha c = true) ∧ S.length ≤ 64) := by
  unfold Canonicalize.cleanUrl
  obtain ⟨S, rest, hS, he, hsub, hl⟩ :=
    ensureProtocol_shape (upperQuoted (strip (stripControl u))) dp hdp
  refine ⟨S, rest, ⟨hS, he, ?_⟩, hl⟩
  rw [he]
  have h0 : NoCtl (upperQuoted (strip (stripControl u))) :=
    noCtl_upperQuoted (NoCtl.of_subset (strip_subset _) (noCtl_stripControl u))
  apply NoCtl.append hS.noCtl
  intro c hc
  simp only [List.mem_cons] at hc
  rcases hc with rfl | rfl | rfl | hc
  · decide
  · decide
  · decide
  · exact h0 c (hsub hc)

theorem splitScheme_scheme' (sc rest : Str) (h : SchemeShaped sc) :
    splitScheme (sc ++ ':' :: rest) [] = (lower sc, rest) := by
  obtain ⟨⟨c, r, rfl, hc⟩, hall⟩ := h
  unfold splitScheme
  rw [splitFirst_append_sep_s20 _ _ _ (colon_not_mem_of_schemeChars hall)]
  simp only [hc, hall, Bool.and_self, if_true]

/-- `urlsplit` on the cleaned string, stage by stage -/
theorem urlsplit_cleaned {c S rest : Str} (h : Cleaned c S rest) :
    urlsplit c [] =
      (if !netlocOk (rest.takeWhile (fun c => !isNetlocDelim c)) then none
       else some ⟨lower S, rest.takeWhile (fun c => !isNetlocDelim c),
         (splitFirst (splitFirst (rest.dropWhile (fun c => !isNetlocDelim c)) '#').1 '?').1,
         (splitFirst (splitFirst (rest.dropWhile (fun c => !isNetlocDelim c)) '#').1 '?').2.getD [],
         (splitFirst (rest.dropWhile (fun c => !isNetlocDelim c)) '#').2.getD []⟩) := by
  have hclean : Py.cleanUrl c = c := by
    apply cleanUrl_id
    · intro x hx; exact unsafe_of_ctl (h.noCtl x hx)
    · intro x hx
      obtain ⟨⟨d, r, e, hd⟩, _⟩ := h.shaped
      rw [h.eq, e] at hx
      simp only [List.cons_append, List.head?_cons, Option.some.injEq] at hx
      subst hx; exact alpha_not_c0 hd
  unfold urlsplit
  rw [hclean]
  have hs : splitScheme c [] = (lower S, '/' :: '/' :: rest) := by
    rw [h.eq]; exact splitScheme_scheme' S _ h.shaped
  have hn : splitNetloc ('/' :: '/' :: rest) =
      (rest.takeWhile (fun c => !isNetlocDelim c), rest.dropWhile (fun c => !isNetlocDelim c)) := by
    unfold splitNetloc
    simp [startsWith_cons_cons, startsWith_nil]
  simp only [hs, hn]

theorem splitFirst_fst_subset (s : Str) (sep : Char) : (splitFirst s sep).1 ⊆ s := by
  rw [splitFirst_eq]; exact (List.takeWhile_sublist _).subset

theorem splitFirst_snd_subset (s : Str) (sep : Char) : (splitFirst s sep).2.getD [] ⊆ s := by
  have := (splitFirst_spec_s20 s sep).2
  cases hb : (splitFirst s sep).2 with
  | none => simp
  | some b =>
    rw [hb] at this
    simp only [Option.getD_some]
    intro x hx
    rw [this]; simp [hx]

/-- what the proofs need to know about the split result of a cleaned string -/
structure SplitFacts (S rest : Str) (r : SplitResult) : Prop where
  scheme : r.scheme = lower S
  nodelim : ∀ ch ∈ r.netloc, isNetlocDelim ch = false
  ok : netlocOk r.netloc = true
  path_noq : '?' ∉ r.path
  path_noh : '#' ∉ r.path
  query_noh : '#' ∉ r.query
  path_abs : r.path = [] ∨ ∃ q, r.path = '/' :: q
  sub_netloc : r.netloc ⊆ rest
  sub_path : r.path ⊆ rest
  sub_query : r.query ⊆ rest
  sub_fragment : r.fragment ⊆ rest

theorem splitFacts {c S rest : Str} (h : Cleaned c S rest) {r : SplitResult}
    (hr : urlsplit c [] = some r) : SplitFacts S rest r := by
  rw [urlsplit_cleaned h] at hr
  split at hr
  · cases hr
  · rename_i hok
    simp only [Option.some.injEq] at hr
    subst hr
    have hd : rest.dropWhile (fun c => !isNetlocDelim c) ⊆ rest :=
      (List.dropWhile_sublist _).subset
    have hf1 := splitFirst_spec_s20 (rest.dropWhile (fun c => !isNetlocDelim c)) '#'
    have hq1 := splitFirst_spec_s20 (splitFirst (rest.dropWhile (fun c => !isNetlocDelim c)) '#').1 '?'
    have hs1 := splitFirst_fst_subset (rest.dropWhile (fun c => !isNetlocDelim c)) '#'
    have hs2 := splitFirst_fst_subset (splitFirst (rest.dropWhile (fun c => !isNetlocDelim c)) '#').1 '?'
    refine ⟨rfl, ?_, by simpa using hok, hq1.1, ?_, ?_, ?_, (List.takeWhile_sublist _).subset,
      fun x hx => hd (hs1 (hs2 hx)), ?_, fun x hx => hd (splitFirst_snd_subset _ _ hx)⟩
    · intro ch hch
      have := mem_takeWhile_s20 _ _ ch hch
      simpa using this
    · intro hm; exact hf1.1 (hs2 hm)
    · intro hm; exact hf1.1 (splitFirst_snd_subset _ _ hm)
    · -- the path is empty or starts with a slash
      have hhead := List.head?_dropWhile_not (fun c => !isNetlocDelim c) rest
      cases htl : rest.dropWhile (fun c => !isNetlocDelim c) with
      | nil => left; simp [splitFirst_nil_s20]
      | cons d t =>
        rw [htl] at hhead
        simp only [List.head?_cons, Bool.not_eq_false', isNetlocDelim, Bool.or_eq_true,
          decide_eq_true_eq] at hhead
        rcases hhead with (rfl | rfl) | rfl
        · right
          simp only [splitFirst_cons_s20, show ('/' : Char) ≠ '#' by decide,
            show ('/' : Char) ≠ '?' by decide, if_false]
          exact ⟨_, rfl⟩
        · left
          simp only [splitFirst_cons_s20, show ('?' : Char) ≠ '#' by decide, if_false, if_true]
        · left
          simp only [splitFirst_cons_s20, if_true, splitFirst_nil_s20]
    · intro x hx; exact hd (hs1 (splitFirst_snd_subset _ _ hx))

/-! ## what the accessors return -/

theorem splitLast_spec (s : Str) (sep : Char) :
    (∀ a, (splitLast s sep).1 = some a → s = a ++ sep :: (splitLast s sep).2) ∧
    ((splitLast s sep).1 = none → (splitLast s sep).2 = s) := by
  unfold splitLast
  rw [span_eq_s20]
  have hcat := List.takeWhile_append_dropWhile (p := fun c => decide (c ≠ sep)) (l := s.reverse)
  have hhead := List.head?_dropWhile_not (fun c => decide (c ≠ sep)) s.reverse
  cases hd : s.reverse.dropWhile (fun c => decide (c ≠ sep)) with
  | nil =>
    rw [hd, List.append_nil] at hcat
    simp only [reduceCtorEq, false_implies, implies_true, true_and, hcat, List.reverse_reverse]
  | cons x a =>
    rw [hd] at hcat hhead
    simp only [List.head?_cons, ne_eq, decide_not, Bool.not_eq_false', decide_eq_true_eq] at hhead
    subst hhead
    simp only [Option.some.injEq, reduceCtorEq, false_implies, and_true]
    intro a' ha'
    subst ha'
    have := congrArg List.reverse hcat
    simp only [List.reverse_append, List.reverse_cons, List.reverse_reverse,
      List.append_assoc, List.singleton_append] at this
    exact this.symm

/-- a character that is not a lower-case ASCII letter is only the image of itself -/
theorem lowerChar_eq_of_not_lower {d c : Char} (h : lowerChar d = c)
    (hc : ¬ (97 ≤ c.toNat ∧ c.toNat ≤ 122)) : d = c := by
  have ht := lowerChar_toNat d
  rw [h] at ht
  split at ht
  · omega
  · rw [← h]; unfold lowerChar
    rename_i hn
    have : ¬ ('A' ≤ d ∧ d ≤ 'Z') := by
      simp only [char_le_iff]
      have e1 : 'A'.toNat = 65 := rfl
      have e2 : 'Z'.toNat = 90 := rfl
      rw [e1, e2]; exact hn
    rw [if_neg this]

/-- `h` is made of characters of `nl`, possibly lower-cased -/
def LowerOf (h nl : Str) : Prop := ∀ ch ∈ h, ∃ d ∈ nl, ch = d ∨ ch = lowerChar d

theorem LowerOf.not_mem {h nl : Str} (hl : LowerOf h nl) {c : Char} (hc : c ∉ nl)
    (hnl : ¬ (97 ≤ c.toNat ∧ c.toNat ≤ 122)) : c ∉ h := by
  intro hm
  obtain ⟨d, hd, rfl | e⟩ := hl c hm
  · exact hc hd
  · have := lowerChar_eq_of_not_lower e.symm hnl
    subst this; exact hc hd

theorem LowerOf.noCtl {h nl : Str} (hl : LowerOf h nl) (hn : NoCtl nl) : NoCtl h := by
  intro c hc
  obtain ⟨d, hd, rfl | rfl⟩ := hl c hc
  · exact hn _ hd
  · rw [isControlChar_lowerChar]; exact hn _ hd

theorem lowerOf_lower (s nl : Str) (h : s ⊆ nl) : LowerOf (lower s) nl := by
  intro c hc
  simp only [Py.lower, List.mem_map] at hc
  obtain ⟨d, hd, rfl⟩ := hc
  exact ⟨d, h hd, Or.inr rfl⟩

theorem lowerOf_lowerHost (h0 nl : Str) (h : h0 ⊆ nl) : LowerOf (lowerHost h0) nl := by
  intro c hc
  unfold lowerHost at hc
  have hspec := splitFirst_spec_s20 h0 '%'
  rcases List.mem_append.1 hc with h1 | h1
  · exact lowerOf_lower _ nl (fun x hx => h (splitFirst_fst_subset h0 '%' hx)) c h1
  · cases hz : (splitFirst h0 '%').2 with
    | none => rw [hz] at h1; simp at h1
    | some z =>
      rw [hz] at h1 hspec
      refine ⟨c, h ?_, Or.inl rfl⟩
      rw [hspec.2]
      simp only [List.mem_cons] at h1
      rcases h1 with rfl | h1
      · exact List.mem_append_right _ (List.mem_cons_self)
      · exact List.mem_append_right _ (List.mem_cons_of_mem _ h1)

structure NetlocFacts (nl : Str) : Prop where
  user_sub : ∀ u, username nl = some u → u ⊆ nl ∧ ':' ∉ u
  pass_sub : ∀ pw, password nl = some pw → pw ⊆ nl
  user_ui : ∀ u, username nl = some u → u ⊆ (splitLast nl '@').1.getD []
  pass_ui : ∀ pw, password nl = some pw → pw ⊆ (splitLast nl '@').1.getD []
  host_lower : ∀ h, hostname nl = some h → LowerOf h nl ∧ '@' ∉ h ∧ h ≠ []
  port_le : ∀ n, Py.port nl = some (some n) → n ≤ 65535

theorem hostPortStr_fst_subset (hi : Str) : (hostPortStr hi).1 ⊆ hi := by
  unfold hostPortStr
  have hspec := splitFirst_spec_s20 hi '['
  cases hb : (splitFirst hi '[').2 with
  | some b =>
    rw [hb] at hspec
    simp only
    intro x hx
    have := splitFirst_fst_subset b ']' hx
    rw [hspec.2]; simp [this]
  | none => exact splitFirst_fst_subset hi ':'

theorem netlocFacts (nl : Str) : NetlocFacts nl := by
  have hsl := splitLast_spec nl '@'
  refine ⟨?_, ?_, ?_, ?_, ?_, ?_⟩
  · intro u hu
    unfold username userinfo at hu
    cases hui : (splitLast nl '@').1 with
    | none => rw [hui] at hu; cases hu
    | some ui =>
      rw [hui] at hu
      simp only [Option.some.injEq] at hu
      subst hu
      have hsub : ui ⊆ nl := by
        intro x hx; rw [hsl.1 ui hui]; simp [hx]
      exact ⟨fun x hx => hsub (splitFirst_fst_subset ui ':' hx), (splitFirst_spec_s20 ui ':').1⟩
  · intro pw hpw
    unfold password userinfo at hpw
    cases hui : (splitLast nl '@').1 with
    | none => rw [hui] at hpw; cases hpw
    | some ui =>
      rw [hui] at hpw
      simp only at hpw
      have hsub : ui ⊆ nl := by
        intro x hx; rw [hsl.1 ui hui]; simp [hx]
      have := splitFirst_snd_subset ui ':'
      rw [hpw] at this
      exact fun x hx => hsub (this hx)
  · intro u hu
    unfold username userinfo at hu
    cases hui : (splitLast nl '@').1 with
    | none => rw [hui] at hu; cases hu
    | some ui =>
      rw [hui] at hu
      simp only [Option.some.injEq] at hu
      subst hu
      simp only [Option.getD_some]
      exact fun x hx => splitFirst_fst_subset ui ':' hx
  · intro pw hpw
    unfold password userinfo at hpw
    cases hui : (splitLast nl '@').1 with
    | none => rw [hui] at hpw; cases hpw
    | some ui =>
      rw [hui] at hpw
      simp only at hpw
      have := splitFirst_snd_subset ui ':'
      rw [hpw] at this
      simp only [Option.getD_some]
      exact fun x hx => this hx
  · intro h hh
    unfold hostname hostinfo at hh
    simp only at hh
    split at hh
    · cases hh
    · rename_i hne
      simp only [Option.some.injEq] at hh
      have hsub0 : hostinfoStr nl ⊆ nl := by
        unfold hostinfoStr
        cases hui : (splitLast nl '@').1 with
        | none => rw [hsl.2 hui]; exact fun x hx => hx
        | some ui => intro x hx; rw [hsl.1 ui hui]; simp [hx]
      have hsub : (hostPortStr (hostinfoStr nl)).1 ⊆ nl :=
        fun x hx => hsub0 (hostPortStr_fst_subset _ hx)
      have hl := lowerOf_lowerHost _ nl hsub
      rw [hh] at hl
      have hat : '@' ∉ (hostPortStr (hostinfoStr nl)).1 := by
        intro hm
        have := hostPortStr_fst_subset _ hm
        exact splitLast_snd_not_mem nl '@' this
      refine ⟨hl, ?_, ?_⟩
      · intro hm
        obtain ⟨d, hd, rfl | e⟩ := lowerOf_lowerHost _ _ (fun x hx => hx) '@' (hh ▸ hm)
        · exact hat hd
        · have := lowerChar_eq_of_not_lower e.symm (by decide)
          subst this; exact hat hd
      · intro he
        subst he
        unfold lowerHost at hh
        have h1 : lower (splitFirst (hostPortStr (hostinfoStr nl)).1 '%').1 = [] := by
          exact (List.append_eq_nil_iff.1 hh).1
        have h2 := (List.append_eq_nil_iff.1 hh).2
        have hspec := splitFirst_spec_s20 (hostPortStr (hostinfoStr nl)).1 '%'
        cases hz : (splitFirst (hostPortStr (hostinfoStr nl)).1 '%').2 with
        | some z => rw [hz] at h2; simp at h2
        | none =>
          rw [hz] at hspec
          have : (splitFirst (hostPortStr (hostinfoStr nl)).1 '%').1 = [] := by
            simpa [Py.lower] using h1
          apply hne
          rw [hspec.2, this]
  · intro n hn
    unfold Py.port at hn
    split at hn
    · cases hn
    · split at hn
      · split at hn
        · simp only [Option.some.injEq] at hn; subst hn; assumption
        · cases hn
      · cases hn

/-! ## the characters the unquoters and the quoter can produce -/

theorem mem_safelyUnquote_cases (U : List UInt8) {c : Char} {s : Str}
    (h : c ∈ safelyUnquote U s) :
    c ∈ s ∨ c = '%' ∨ isHexDigit c = true ∨
      (∃ b : UInt8, c = Char.ofNat b.toNat ∧ b.toNat < 0x80 ∧ keepEsc U b = false ∧ b ≠ 0x20) ∨
      0xa0 ≤ c.toNat := by
  simp only [safelyUnquote, render, List.mem_flatMap] at h
  obtain ⟨t, ht, hch⟩ := h
  have := outTok_unquoteToks U (escapeRaw (tokens s)) (wf_escapeRaw (wf_tokens s)) t ht
  cases this with
  | input c' hc' _ =>
    simp only [renderTok, List.mem_singleton] at hch
    subst hch
    left
    rw [← render_tokens s]
    simp only [render, List.mem_flatMap]
    exact ⟨_, (raw_mem_escapeRaw hc').1, by simp [renderTok]⟩
  | esc h1 h2 a b =>
    simp only [renderTok, List.mem_cons, List.not_mem_nil, or_false] at hch
    rcases hch with h | h | h
    · exact Or.inr (Or.inl h)
    · subst h; exact Or.inr (Or.inr (Or.inl a))
    · subst h; exact Or.inr (Or.inr (Or.inl b))
  | ascii b hlt' hk h20 =>
    simp only [renderTok, List.mem_singleton] at hch
    exact Or.inr (Or.inr (Or.inr (Or.inl ⟨b, hch, hlt', hk, h20⟩)))
  | high c' hc' =>
    simp only [renderTok, List.mem_singleton] at hch
    subst hch
    exact Or.inr (Or.inr (Or.inr (Or.inr hc')))

theorem isHexDigit_toNat {c : Char} (h : isHexDigit c = true) :
    (48 ≤ c.toNat ∧ c.toNat ≤ 57) ∨ (97 ≤ c.toNat ∧ c.toNat ≤ 102) ∨ (65 ≤ c.toNat ∧ c.toNat ≤ 70) := by
  simp only [isHexDigit, isAsciiDigit, Bool.or_eq_true, decide_eq_true_eq, char_le_iff] at h
  have e1 : 'a'.toNat = 97 := rfl
  have e2 : 'f'.toNat = 102 := rfl
  have e3 : 'A'.toNat = 65 := rfl
  have e4 : 'F'.toNat = 70 := rfl
  have e5 : '0'.toNat = 48 := rfl
  have e6 : '9'.toNat = 57 := rfl
  rw [e1, e2, e3, e4, e5, e6] at h
  omega

theorem not_ctl_of_range {c : Char} (h : 0x20 ≤ c.toNat ∧ c.toNat < 0x7f ∨ 0xa0 ≤ c.toNat) :
    isControlChar c = false := by
  cases hc : isControlChar c with
  | false => rfl
  | true => rw [isControlChar_iff] at hc; omega

theorem noCtl_safelyUnquote (U : List UInt8) {s : Str} (h : NoCtl s) :
    NoCtl (safelyUnquote U s) := by
  intro c hc
  rcases mem_safelyUnquote_cases U hc with h1 | rfl | h1 | ⟨b, rfl, hlt, hk, _⟩ | h1
  · exact h c h1
  · decide
  · apply not_ctl_of_range; have := isHexDigit_toNat h1; omega
  · apply not_ctl_of_range
    rw [toNat_ofNat_of_lt (by omega)]
    simp only [keepEsc, Bool.or_eq_false_iff, decide_eq_false_iff_not, beq_eq_false_iff_ne] at hk
    have h1 : ¬ b.toNat < 0x20 := fun hh => hk.1.1 (UInt8.lt_iff_toNat_lt.2 (by simpa using hh))
    have h2 : b.toNat ≠ 0x7f := fun hh => hk.1.2 (UInt8.toNat_inj.1 (by simpa using hh))
    omega
  · exact not_ctl_of_range (Or.inr h1)

theorem quoteSafe_toNat {c : Char} (h : quoteSafe c = true) : 0x20 ≤ c.toNat ∧ c.toNat < 0x7f := by
  simp only [quoteSafe, isAsciiAlpha, isAsciiDigit, Bool.or_eq_true, decide_eq_true_eq,
    char_le_iff] at h
  have e1 : 'a'.toNat = 97 := rfl
  have e2 : 'z'.toNat = 122 := rfl
  have e3 : 'A'.toNat = 65 := rfl
  have e4 : 'Z'.toNat = 90 := rfl
  have e5 : '0'.toNat = 48 := rfl
  have e6 : '9'.toNat = 57 := rfl
  rw [e1, e2, e3, e4, e5, e6] at h
  rcases h with (((((h | h) | h) | h) | h) | h) | h
  · omega
  · omega
  · subst h; decide
  · subst h; decide
  · subst h; decide
  · subst h; decide
  · subst h; decide

theorem mem_safelyQuoteBy_cases {f : Char → Bool} {c : Char} {s : Str} (h : c ∈ safelyQuoteBy f s) :
    f c = true ∨ c = '%' ∨ isHexDigit c = true := by
  simp only [safelyQuoteBy, render, quoteToksBy, List.mem_flatMap] at h
  obtain ⟨t', ⟨t, ht, ht'⟩, hch⟩ := h
  have hw := wf_tokens s t ht
  cases t with
  | raw c0 =>
    simp only [quoteTokBy] at ht'
    split at ht'
    · rename_i hs
      simp only [List.mem_singleton] at ht'
      subst ht'
      simp only [renderTok, List.mem_singleton] at hch
      subst hch; exact Or.inl hs
    · simp only [List.mem_map] at ht'
      obtain ⟨b, _, rfl⟩ := ht'
      have hcan := canon_escOfByte b
      simp only [escOfByte, renderTok, List.mem_cons, List.not_mem_nil, or_false] at hch
      rcases hch with e | e | e
      · exact Or.inr (Or.inl e)
      · subst e; exact Or.inr (Or.inr hcan.1)
      · subst e; exact Or.inr (Or.inr hcan.2)
  | esc h1 h2 =>
    simp only [quoteTokBy, List.mem_singleton] at ht'
    subst ht'
    simp only [renderTok, List.mem_cons, List.not_mem_nil, or_false] at hch
    rcases hch with e | e | e
    · exact Or.inr (Or.inl e)
    · subst e; exact Or.inr (Or.inr hw.1)
    · subst e; exact Or.inr (Or.inr hw.2)
  | stray =>
    simp only [quoteTokBy] at ht'
    split at ht'
    · simp only [List.mem_singleton] at ht'
      subst ht'
      simp only [renderTok, List.mem_singleton] at hch
      exact Or.inr (Or.inl hch)
    · simp only [List.mem_singleton] at ht'
      subst ht'
      simp only [renderTok, List.mem_cons, List.not_mem_nil, or_false] at hch
      rcases hch with e | e | e
      · exact Or.inr (Or.inl e)
      · subst e; exact Or.inr (Or.inr (by decide))
      · subst e; exact Or.inr (Or.inr (by decide))

theorem mem_safelyQuote_cases {c : Char} {s : Str} (h : c ∈ safelyQuote s) :
    quoteSafe c = true ∨ c = '%' ∨ isHexDigit c = true := by
  rw [safelyQuote_eq_by] at h; exact mem_safelyQuoteBy_cases h

theorem noCtl_safelyQuoteBy {f : Char → Bool} (hf : SafeSet f) (s : Str) : NoCtl (safelyQuoteBy f s) := by
  intro c hc
  rcases mem_safelyQuoteBy_cases hc with h1 | rfl | h1
  · apply not_ctl_of_range; have := hf.printable h1; omega
  · decide
  · apply not_ctl_of_range; have := isHexDigit_toNat h1; omega

theorem noCtl_safelyQuote (s : Str) : NoCtl (safelyQuote s) := by
  intro c hc
  rcases mem_safelyQuote_cases hc with h1 | rfl | h1
  · apply not_ctl_of_range; have := quoteSafe_toNat h1; omega
  · decide
  · apply not_ctl_of_range; have := isHexDigit_toNat h1; omega

theorem noCtl_requote (quoted : Bool) (U : List UInt8) {s : Str} (h : NoCtl s) :
    NoCtl (requote quoted (safelyUnquote U) s) := by
  unfold requote
  split
  · exact noCtl_safelyQuote _
  · exact noCtl_safelyUnquote U h

theorem noCtl_requote_auth (quoted : Bool) {s : Str} (h : NoCtl s) :
    NoCtl (requote quoted unquoteAuthItem s) := by
  unfold requote
  split
  · exact noCtl_safelyQuote _
  · intro c hc
    rcases mem_requoteNfkc_cases hc with h1 | rfl | h1
    · exact noCtl_safelyUnquote _ h c h1
    · decide
    · apply not_ctl_of_range; have := isHexDigit_toNat h1; omega

/-- a query key / value as `canonicalize_url` prints it: unquoted, and quoted again with
`safe="/+"` in quoted mode -/
def requoteItem (quoted : Bool) (s : Str) : Str :=
  if quoted then quoteQueryItem (unquoteQueryItem s) else unquoteQueryItem s

theorem noCtl_requoteItem (quoted : Bool) {s : Str} (h : NoCtl s) : NoCtl (requoteItem quoted s) := by
  unfold requoteItem
  split
  · exact noCtl_safelyQuoteBy safeSet_quoteSafeQ _
  · exact noCtl_safelyUnquote _ h

/-! ## shape of `normpath` on an absolute path -/

/-- no two adjacent slashes -/
def NoDbl : Str → Prop
  | a :: b :: r => ¬ (a = '/' ∧ b = '/') ∧ NoDbl (b :: r)
  | _ => True

theorem squeeze_head (s : Str) : (squeezeSlashes s).head? = s.head? := by
  induction s using squeezeSlashes.induct with
  | case1 => rfl
  | case2 rest ih => rw [squeezeSlashes, ih]; rfl
  | case3 c rest hne => rw [squeezeSlashes]; rfl; exact hne

theorem squeeze_subset (s : Str) : squeezeSlashes s ⊆ s := by
  induction s using squeezeSlashes.induct with
  | case1 => simp [squeezeSlashes]
  | case2 rest ih =>
    rw [squeezeSlashes]
    intro x hx; have := ih hx; simp at this ⊢; exact this
  | case3 c rest hne ih =>
    rw [squeezeSlashes]
    · intro x hx; simp only [List.mem_cons] at hx ⊢
      rcases hx with h | h
      · exact Or.inl h
      · exact Or.inr (ih h)
    · exact hne

theorem noDbl_squeeze (s : Str) : NoDbl (squeezeSlashes s) := by
  induction s using squeezeSlashes.induct with
  | case1 => simp [squeezeSlashes, NoDbl]
  | case2 rest ih => rw [squeezeSlashes]; exact ih
  | case3 c rest hne ih =>
    rw [squeezeSlashes]
    · cases hsq : squeezeSlashes rest with
      | nil => simp [NoDbl]
      | cons b r =>
        rw [hsq] at ih
        refine ⟨?_, ih⟩
        rintro ⟨rfl, rfl⟩
        have hh := squeeze_head rest
        rw [hsq] at hh
        cases rest with
        | nil => simp at hh
        | cons d rest' =>
          simp only [List.head?_cons, Option.some.injEq] at hh
          subst hh
          exact hne rest' rfl rfl
    · exact hne

/-- every piece but the first and the last is non-empty -/
def InnerNonempty : List Str → Prop
  | a :: b :: r => (b ≠ [] ∨ r = []) ∧ InnerNonempty (b :: r)
  | _ => True

theorem noDbl_tail {c : Char} {s : Str} (h : NoDbl (c :: s)) : NoDbl s := by
  cases s with
  | nil => simp [NoDbl]
  | cons b r => exact h.2

theorem innerNonempty_splitOn (t : Str) (h : NoDbl t) : InnerNonempty (splitOn t '/') := by
  induction t with
  | nil => simp [splitOn_nil, InnerNonempty]
  | cons c cs ih =>
    have ih' := ih (noDbl_tail h)
    by_cases hc : c = '/'
    · subst hc
      rw [splitOn_cons_sep]
      cases hsp : splitOn cs '/' with
      | nil => exact absurd hsp (splitOn_ne_nil cs '/')
      | cons b r =>
        rw [hsp] at ih'
        refine ⟨?_, ih'⟩
        cases cs with
        | nil => rw [splitOn_nil] at hsp; cases hsp; right; rfl
        | cons d ds =>
          have hd : d ≠ '/' := fun e => h.1 ⟨rfl, e⟩
          rw [splitOn_cons_ne _ _ _ hd] at hsp
          left
          cases h2 : splitOn ds '/' with
          | nil => rw [h2] at hsp; cases hsp; simp
          | cons p ps => rw [h2] at hsp; cases hsp; simp
    · rw [splitOn_cons_ne _ _ _ hc]
      cases hsp : splitOn cs '/' with
      | nil => exact absurd hsp (splitOn_ne_nil cs '/')
      | cons b r =>
        rw [hsp] at ih'
        simp only
        cases r with
        | nil => simp [InnerNonempty]
        | cons b2 r2 => exact ih'

theorem withSlashes_heads (L : List Str) (hs : ∀ x ∈ L, '/' ∉ x) (hi : InnerNonempty L)
    (h1 : ∀ a b r, L = a :: b :: r → a ≠ []) : ∀ seg ∈ withSlashes L, seg.head? ≠ some '/' := by
  induction L with
  | nil => simp [withSlashes]
  | cons a rest ih =>
    cases rest with
    | nil =>
      intro seg hseg
      simp only [withSlashes, List.mem_singleton] at hseg
      subst hseg
      intro hh
      cases seg with
      | nil => cases hh
      | cons c r =>
        simp only [List.head?_cons, Option.some.injEq] at hh
        subst hh; exact hs ('/' :: r) (by simp) (by simp)
    | cons b r =>
      intro seg hseg
      simp only [withSlashes, List.mem_cons] at hseg
      rcases hseg with rfl | hseg
      · have ha := h1 a b r rfl
        cases a with
        | nil => exact absurd rfl ha
        | cons c r' =>
          simp only [List.cons_append, List.head?_cons, ne_eq, Option.some.injEq]
          intro e; subst e; exact hs ('/' :: r') (by simp) (by simp)
      · apply ih (fun x hx => hs x (by simp [hx])) hi.2 ?_ seg
        · simpa [withSlashes] using hseg
        · intro a' b' r' e
          cases e
          rcases hi.1 with h | h
          · exact h
          · cases h

theorem resolveLoop_bottom (W : List Str) (bot : Str) : ∀ init : List Str,
    ∃ rest, resolveLoop W (init ++ [bot]) = bot :: rest ∧ ∀ x ∈ rest, x ∈ init ∨ x ∈ W := by
  induction W with
  | nil =>
    intro init
    refine ⟨init.reverse, by simp [resolveLoop], fun x hx => Or.inl (List.mem_reverse.1 hx)⟩
  | cons seg rest ih =>
    intro init
    unfold resolveLoop
    split
    · split
      · rename_i hlen
        cases init with
        | nil => simp at hlen
        | cons i0 init' =>
          obtain ⟨r, hr, hmem⟩ := ih init'
          refine ⟨r, by simpa using hr, fun x hx => ?_⟩
          rcases hmem x hx with h | h
          · exact Or.inl (by simp [h])
          · exact Or.inr (by simp [h])
      · obtain ⟨r, hr, hmem⟩ := ih init
        exact ⟨r, hr, fun x hx => (hmem x hx).imp id (fun h => by simp [h])⟩
    · split
      · obtain ⟨r, hr, hmem⟩ := ih init
        exact ⟨r, hr, fun x hx => (hmem x hx).imp id (fun h => by simp [h])⟩
      · obtain ⟨r, hr, hmem⟩ := ih (seg :: init)
        refine ⟨r, by simpa using hr, fun x hx => ?_⟩
        rcases hmem x hx with h | h
        · simp only [List.mem_cons] at h
          rcases h with rfl | h
          · exact Or.inr (by simp)
          · exact Or.inl h
        · exact Or.inr (by simp [h])

theorem flatten_head (L : List Str) (h : ∀ x ∈ L, x.head? ≠ some '/') :
    L.flatten.head? ≠ some '/' := by
  induction L with
  | nil => simp
  | cons a r ih =>
    cases a with
    | nil => simpa using ih (fun x hx => h x (by simp [hx]))
    | cons c a' =>
      have := h (c :: a') (by simp)
      simpa using this

/-- `rstrip('/')` of `'/' :: K` when `K` does not start with a slash -/
theorem rstrip_slash_shape (K : Str) (hK : K.head? ≠ some '/') :
    rstripChars ('/' :: K) ['/'] = [] ∨
      ∃ d r, rstripChars ('/' :: K) ['/'] = '/' :: d :: r ∧ d ≠ '/' := by
  -- the result is a prefix that does not end with a slash
  have hpre : ∃ t, '/' :: K = rstripChars ('/' :: K) ['/'] ++ t := by
    unfold rstripChars
    refine ⟨((('/' :: K).reverse.takeWhile (['/'].contains ·))).reverse, ?_⟩
    rw [← List.reverse_append, List.takeWhile_append_dropWhile, List.reverse_reverse]
  obtain ⟨t, ht⟩ := hpre
  cases hR : rstripChars ('/' :: K) ['/'] with
  | nil => left; rfl
  | cons a R' =>
    right
    rw [hR] at ht
    simp only [List.cons_append, List.cons.injEq] at ht
    obtain ⟨rfl, hK'⟩ := ht
    cases R' with
    | nil =>
      exfalso
      have := rstripChars_last_s20 ('/' :: K) ['/'] '/' [] (by simpa using hR)
      simp at this
    | cons d r =>
      refine ⟨d, r, rfl, ?_⟩
      rintro rfl
      rw [hK'] at hK
      simp at hK

/-- **shape of `normpath` on an absolute path**: empty, or a slash followed by a non-slash -/
theorem normpath_abs_shape (q : Str) :
    normpath ('/' :: q) = [] ∨ ∃ d r, normpath ('/' :: q) = '/' :: d :: r ∧ d ≠ '/' := by
  unfold normpath
  have hh := squeeze_head ('/' :: q)
  have hnd := noDbl_squeeze ('/' :: q)
  cases hsq : squeezeSlashes ('/' :: q) with
  | nil => rw [hsq] at hh; simp at hh
  | cons c s' =>
    rw [hsq] at hh hnd
    simp only [List.head?_cons, Option.some.injEq] at hh
    subst hh
    rw [splitOn_cons_sep]
    have hne := splitOn_ne_nil s' '/'
    cases hsp : splitOn s' '/' with
    | nil => exact absurd hsp hne
    | cons a rest =>
      have hW : withSlashes ([] :: a :: rest) = ['/'] :: withSlashes (a :: rest) := by
        simp [withSlashes]
      rw [hW]
      have hstep : resolveLoop (['/'] :: withSlashes (a :: rest)) [] =
          resolveLoop (withSlashes (a :: rest)) ([] ++ [['/']]) := by
        rw [resolveLoop]
        simp
      show (rstripChars (resolveLoop (['/'] :: withSlashes (a :: rest)) []).flatten ['/']) = [] ∨
        ∃ d r, (rstripChars (resolveLoop (['/'] :: withSlashes (a :: rest)) []).flatten ['/']) =
          '/' :: d :: r ∧ d ≠ '/'
      rw [hstep]
      obtain ⟨R, hR, hmem⟩ := resolveLoop_bottom (withSlashes (a :: rest)) ['/'] []
      rw [hR]
      simp only [List.flatten_cons, List.singleton_append]
      apply rstrip_slash_shape
      apply flatten_head
      intro x hx
      rcases hmem x hx with h | h
      · simp at h
      · rw [← hsp] at h
        refine withSlashes_heads (splitOn s' '/') (not_mem_of_mem_splitOn '/' s')
          (innerNonempty_splitOn s' (noDbl_tail hnd)) ?_ x h
        intro a' b' r' e
        -- the first piece is non-empty: `s'` does not start with a slash
        cases s' with
        | nil => rw [splitOn_nil] at e; cases e
        | cons d ds =>
          have hd : d ≠ '/' := fun e' => hnd.1 ⟨rfl, e'⟩
          rw [splitOn_cons_ne _ _ _ hd] at e
          cases h2 : splitOn ds '/' with
          | nil => rw [h2] at e; cases e
          | cons p ps => rw [h2] at e; cases e; simp

theorem mem_resolveLoop (W : List Str) : ∀ (acc : List Str) (x : Str),
    x ∈ resolveLoop W acc → x ∈ acc ∨ x ∈ W := by
  induction W with
  | nil => intro acc x hx; simp only [resolveLoop, List.mem_reverse] at hx; exact Or.inl hx
  | cons seg rest ih =>
    intro acc x hx
    unfold resolveLoop at hx
    split at hx
    · split at hx
      · rcases ih _ x hx with h | h
        · exact Or.inl (List.mem_of_mem_tail h)
        · exact Or.inr (by simp [h])
      · exact (ih _ x hx).imp id (fun h => by simp [h])
    · split at hx
      · exact (ih _ x hx).imp id (fun h => by simp [h])
      · rcases ih _ x hx with h | h
        · simp only [List.mem_cons] at h
          rcases h with rfl | h
          · exact Or.inr (by simp)
          · exact Or.inl h
        · exact Or.inr (by simp [h])

theorem mem_withSlashes (L : List Str) (seg : Str) (h : seg ∈ withSlashes L) :
    ∃ a ∈ L, seg = a ∨ seg = a ++ ['/'] := by
  induction L with
  | nil => simp [withSlashes] at h
  | cons a rest ih =>
    cases rest with
    | nil =>
      simp only [withSlashes, List.mem_singleton] at h
      exact ⟨a, by simp, Or.inl h⟩
    | cons b r =>
      simp only [withSlashes, List.mem_cons] at h
      rcases h with h | h
      · exact ⟨a, by simp, Or.inr h⟩
      · obtain ⟨a', ha', hh⟩ := ih (by simpa [withSlashes] using h)
        exact ⟨a', by simp only [List.mem_cons] at ha' ⊢; exact Or.inr ha', hh⟩

theorem mem_join_of_mem (sep : Str) (L : List Str) (p : Str) (hp : p ∈ L) : p ⊆ join sep L := by
  induction L with
  | nil => simp at hp
  | cons a rest ih =>
    cases rest with
    | nil => simp only [List.mem_singleton] at hp; subst hp; simp [join]
    | cons b r =>
      simp only [join]
      intro x hx
      simp only [List.mem_cons] at hp
      rcases hp with rfl | hp
      · simp [hx]
      · have := ih (by simpa using hp) hx
        simp only [List.mem_append]
        exact Or.inr this

theorem piece_subset (s : Str) (sep : Char) (p : Str) (hp : p ∈ splitOn s sep) : p ⊆ s := by
  have := mem_join_of_mem [sep] _ p hp
  rwa [join_splitOn] at this

/-- `normpath` only rearranges characters of its argument (and slashes) -/
theorem mem_normpath {c : Char} {p : Str} (h : c ∈ normpath p) : c ∈ p ∨ c = '/' := by
  unfold normpath rstripChars at h
  have h1 := (List.dropWhile_sublist _).subset (List.mem_reverse.1 h)
  have h2 := List.mem_reverse.1 h1
  simp only [List.mem_flatten] at h2
  obtain ⟨seg, hseg, hc⟩ := h2
  rcases mem_resolveLoop _ _ _ hseg with h3 | h3
  · simp at h3
  · obtain ⟨a, ha, rfl | rfl⟩ := mem_withSlashes _ _ h3
    · exact Or.inl (squeeze_subset p (piece_subset _ _ _ ha hc))
    · simp only [List.mem_append, List.mem_singleton] at hc
      rcases hc with hc | hc
      · exact Or.inl (squeeze_subset p (piece_subset _ _ _ ha hc))
      · exact Or.inr hc

/-! ## the path rule -/

/-- empty or starting with a slash -/
def AbsPath (p : Str) : Prop := p = [] ∨ ∃ q, p = '/' :: q

theorem safelyUnquote_nil (U : List UInt8) : safelyUnquote U [] = [] := by
  simp [safelyUnquote, tokens, escapeRaw, unquoteToks, assemble, flush, segment, segment.go, render]

theorem safelyUnquote_cons_slash (U : List UInt8) (q : Str) :
    safelyUnquote U ('/' :: q) = '/' :: safelyUnquote U q := by
  have := safelyUnquote_append_sep U (c := '/') ⟨by decide, by decide⟩ (by decide) (by decide) [] q
  simpa [safelyUnquote_nil] using this

theorem mem_canonPath {c : Char} {path : Str} {m : Bool} (h : c ∈ canonPath path m) :
    c ∈ unquotePath path ∨ c = '/' := by
  unfold canonPath at h
  simp only at h
  split at h
  · split at h
    · simp only [List.mem_singleton] at h; exact Or.inr h
    · simp at h
  · split at h
    · simp only [List.mem_append, List.mem_singleton] at h
      rcases h with h | h
      · exact mem_normpath h
      · exact Or.inr h
    · exact mem_normpath h

/-- the canonical path of an absolute path is empty, `/`, or a slash followed by a
non-slash -/
theorem canonPath_shape (path : Str) (m : Bool) (hp : AbsPath path) :
    canonPath path m = [] ∨ canonPath path m = ['/'] ∨
      ∃ d r, canonPath path m = '/' :: d :: r ∧ d ≠ '/' := by
  unfold canonPath
  simp only
  split
  · split
    · right; left; rfl
    · left; rfl
  · rename_i hne
    rcases hp with rfl | ⟨q, rfl⟩
    · exfalso; apply hne; left
      simp [unquotePath, safelyUnquote_nil, normpath, squeezeSlashes, splitOn_nil, withSlashes,
        resolveLoop, rstripChars]
    · have hu : unquotePath ('/' :: q) = '/' :: unquotePath q := safelyUnquote_cons_slash _ q
      rw [hu] at hne ⊢
      rcases normpath_abs_shape (unquotePath q) with h0 | ⟨d, r, h1, hd⟩
      · exfalso; apply hne; left; simp [h0]
      · right; right
        rw [h1]
        split
        · exact ⟨d, r ++ ['/'], by simp, hd⟩
        · exact ⟨d, r, rfl, hd⟩

/-! ## the host rule brings in no delimiter -/

/-- the characters `attempt_to_decode_idna` must not invent: URL delimiters, `%`, control
characters, white space -/
def isPunyBad (c : Char) : Bool :=
  c = '/' || c = '?' || c = '#' || c = '@' || c = ':' || c = '[' || c = ']' || c = '%' ||
    isControlChar c || isSpace c

/-- what the round-trip theorems assume of `attempt_to_decode_idna` on top of `PunyLaws`:
a delimiter, `%`, control or white-space character of the decoded label was in the label,
and a non-empty label does not decode to the empty string (tested on the real codec for
every label decoded in a run) -/
structure PunyClean (puny : Str → Str) : Prop where
  clean : ∀ x c, c ∈ puny x → isPunyBad c = true → c ∈ x
  /-- a label is not decoded to the empty string (the codec's round-trip check `ToASCII`
  rejects an empty label, `attempt_to_decode_idna` then returns its argument) -/
  nonempty : ∀ x, x ≠ [] → puny x ≠ []

theorem punyClean_id : PunyClean id := ⟨fun _ _ h _ => h, fun _ h => h⟩

theorem isSpace_not_lower {c : Char} (h : isSpace c = true) : ¬ (97 ≤ c.toNat ∧ c.toNat ≤ 122) := by
  simp only [isSpace, spaceCodes, List.contains_cons, List.contains_nil, Bool.or_false,
    Bool.or_eq_true, beq_iff_eq] at h
  omega

theorem punyBad_not_lower {c : Char} (h : isPunyBad c = true) :
    ¬ (97 ≤ c.toNat ∧ c.toNat ≤ 122) := by
  simp only [isPunyBad, Bool.or_eq_true, decide_eq_true_eq] at h
  rcases h with ((((((((h | h) | h) | h) | h) | h) | h) | h) | h) | h
  iterate 8 (subst h; decide)
  · rw [isControlChar_iff] at h; omega
  · exact isSpace_not_lower h

theorem mem_lower_bad {c : Char} {s : Str} (hb : ¬ (97 ≤ c.toNat ∧ c.toNat ≤ 122))
    (h : c ∈ lower s) : c ∈ s := by
  simp only [Py.lower, List.mem_map] at h
  obtain ⟨d, hd, e⟩ := h
  have := lowerChar_eq_of_not_lower e hb
  subst this; exact hd

theorem mem_join (sep : Str) (L : List Str) {x : Char} (h : x ∈ join sep L) :
    x ∈ sep ∨ ∃ p ∈ L, x ∈ p := by
  induction L with
  | nil => simp [join] at h
  | cons a rest ih =>
    cases rest with
    | nil => simp only [join] at h; exact Or.inr ⟨a, by simp, h⟩
    | cons b r =>
      simp only [join, List.mem_append] at h
      rcases h with (h | h) | h
      · exact Or.inr ⟨a, by simp, h⟩
      · exact Or.inl h
      · rcases ih h with h' | ⟨p, hp, hx⟩
        · exact Or.inl h'
        · exact Or.inr ⟨p, by simp only [List.mem_cons] at hp ⊢; exact Or.inr hp, hx⟩

/-- a "bad" character of the canonical host was in the host -/
theorem canonHost_bad (puny : Str → Str) (hp : PunyClean puny) (h : Str) {c : Char}
    (hb : isPunyBad c = true) (hc : c ∈ canonHost puny h) : c ∈ h := by
  have hnl := punyBad_not_lower hb
  unfold canonHost at hc
  have h1 := mem_lower_bad hnl hc
  unfold decodePunycodeHostname at h1
  rcases mem_join _ _ h1 with h2 | ⟨q, hq, hx⟩
  · simp only [List.mem_singleton] at h2; subst h2; exact absurd hb (by decide)
  · simp only [List.mem_map] at hq
    obtain ⟨part, hpart, rfl⟩ := hq
    have hsub := piece_subset h '.' part hpart
    split at hx
    · have h3 := hp.clean _ c hx hb
      rcases List.mem_append.1 h3 with h4 | h4
      · exact hsub (List.mem_of_mem_take (mem_lower_bad hnl h4))
      · exact hsub (List.mem_of_mem_drop h4)
    · exact hsub hx

theorem ctl_bad {c : Char} (h : isControlChar c = true) : isPunyBad c = true := by
  simp [isPunyBad, h]

theorem noCtl_canonHost (puny : Str → Str) (hp : PunyClean puny) {h : Str} (hn : NoCtl h) :
    NoCtl (canonHost puny h) := by
  intro c hc
  cases hcc : isControlChar c with
  | false => rfl
  | true =>
    have := canonHost_bad puny hp h (ctl_bad hcc) hc
    rw [hn c this] at hcc; cases hcc

/-! ## the optional text components -/

theorem mem_strOf_canonOpt {q : Bool} {unq : Str → Str} {o : Option Str} {c : Char}
    (h : c ∈ strOf (canonOpt q unq o)) : ∃ u, o = some u ∧ c ∈ requote q unq u := by
  cases o with
  | none => simp [canonOpt, strOf_none] at h
  | some u =>
    by_cases hu : u.isEmpty = true
    · have : u = [] := by simpa using hu
      subst this
      simp [canonOpt, strOf_some] at h
    · simp only [canonOpt, hu, Bool.false_eq_true, if_false, strOf_some] at h
      exact ⟨u, rfl, h⟩

theorem mem_getD_canonOpt {q : Bool} {unq : Str → Str} {o : Option Str} {c : Char}
    (h : c ∈ (canonOpt q unq o).getD []) : ∃ u, o = some u ∧ (c ∈ requote q unq u ∨ c ∈ u) := by
  cases o with
  | none => simp [canonOpt] at h
  | some u =>
    by_cases hu : u.isEmpty = true
    · simp only [canonOpt, hu, if_true, Option.getD_some] at h
      exact ⟨u, rfl, Or.inr h⟩
    · simp only [canonOpt, hu, Bool.false_eq_true, if_false, Option.getD_some] at h
      exact ⟨u, rfl, Or.inl h⟩

/-- the delimiters of the authority are never created in a userinfo item, in either mode
(table obligation: they are all in `UNSAFE_FOR_AUTH_ITEM`) -/
theorem requote_auth_not_mem {d : Char} (hd : d ∈ ['@', ':', '/', '?', '#', '[', ']'])
    (quoted : Bool) (u : Str) (hu : d ∉ u) : d ∉ requote quoted unquoteAuthItem u := by
  have h1 : d ∉ unquoteAuthItem u := not_mem_authItem hd u hu
  unfold requote
  split
  · simp only [List.mem_cons, List.not_mem_nil, or_false] at hd
    rcases hd with rfl | rfl | rfl | rfl | rfl | rfl | rfl <;>
      exact not_mem_safelyQuote_of_not_mem ⟨by decide, by decide⟩ _ h1
  · exact h1

/-! ## the query -/

/-- the keys and values of a list of query items -/
def qslStrs (qsl : List (Str × Option Str)) : List Str :=
  qsl.flatMap fun kv => kv.1 :: kv.2.toList

theorem mem_serialize {c : Char} {qsl : List (Str × Option Str)}
    (h : c ∈ safeSerializeQsl qsl) : c = '&' ∨ c = '=' ∨ ∃ x ∈ qslStrs qsl, c ∈ x := by
  rw [safeSerializeQsl_eq] at h
  rcases mem_join _ _ h with h | ⟨p, hp, hc⟩
  · simp only [List.mem_singleton] at h; exact Or.inl h
  · simp only [List.mem_map] at hp
    obtain ⟨⟨k, v⟩, hkv, rfl⟩ := hp
    cases v with
    | none =>
      simp only [serializeItem] at hc
      exact Or.inr (Or.inr ⟨k, by simp only [qslStrs, List.mem_flatMap]; exact ⟨_, hkv, by simp⟩, hc⟩)
    | some v =>
      simp only [serializeItem, List.mem_append, List.mem_singleton] at hc
      rcases hc with (hc | hc) | hc
      · exact Or.inr (Or.inr ⟨k, by simp only [qslStrs, List.mem_flatMap]; exact ⟨_, hkv, by simp⟩, hc⟩)
      · exact Or.inr (Or.inl hc)
      · exact Or.inr (Or.inr ⟨v, by simp only [qslStrs, List.mem_flatMap]; exact ⟨_, hkv, by simp⟩, hc⟩)

theorem qslStrs_safeQslIter (q : Str) : ∀ x ∈ qslStrs (safeQslIter q), x ⊆ q := by
  intro x hx
  simp only [qslStrs, safeQslIter_eq, List.mem_flatMap, List.mem_map] at hx
  obtain ⟨kv, ⟨item, hitem, rfl⟩, hx⟩ := hx
  have hsub := piece_subset q '&' item hitem
  have hs := splitFirst_spec '=' item
  simp only [List.mem_cons] at hx
  cases h2 : (cutFirst '=' item).2 with
  | none =>
    rw [h2] at hs hx
    simp only [Option.toList_none, List.not_mem_nil, or_false] at hx
    subst hx
    intro y hy; apply hsub; rw [hs.2]; exact hy
  | some v =>
    rw [h2] at hs hx
    simp only [Option.toList_some, List.mem_singleton] at hx
    intro y hy; apply hsub; rw [hs.2]
    rcases hx with rfl | rfl
    · simp [hy]
    · simp [hy]

theorem qslStrs_unquoteQsl (L : List (Str × Option Str)) :
    ∀ x ∈ qslStrs (unquoteQsl L), ∃ y ∈ qslStrs L, x = unquoteQueryItem y := by
  intro x hx
  simp only [qslStrs, unquoteQsl, List.mem_flatMap, List.mem_map] at hx ⊢
  obtain ⟨kv', ⟨⟨k, v⟩, hkv, rfl⟩, hx⟩ := hx
  simp only [List.mem_cons] at hx
  rcases hx with rfl | hx
  · exact ⟨k, ⟨(k, v), hkv, by simp⟩, rfl⟩
  · cases v with
    | none => simp at hx
    | some v0 =>
      simp only [Option.map_some, Option.toList_some, List.mem_singleton] at hx
      exact ⟨v0, ⟨(k, some v0), hkv, by simp⟩, hx⟩

theorem qslStrs_quoteQsl (L : List (Str × Option Str)) :
    ∀ x ∈ qslStrs (quoteQsl L), ∃ y ∈ qslStrs L, x = quoteQueryItem y := by
  intro x hx
  simp only [qslStrs, quoteQsl, List.mem_flatMap, List.mem_map] at hx ⊢
  obtain ⟨kv', ⟨⟨k, v⟩, hkv, rfl⟩, hx⟩ := hx
  simp only [List.mem_cons] at hx
  rcases hx with rfl | hx
  · exact ⟨k, ⟨(k, v), hkv, by simp⟩, rfl⟩
  · cases v with
    | none => simp at hx
    | some v0 =>
      simp only [Option.map_some, Option.toList_some, List.mem_singleton] at hx
      exact ⟨v0, ⟨(k, some v0), hkv, by simp⟩, hx⟩

/-- every character of the canonical query is `&`, `=`, or a character of a re-quoted
piece of the query -/
theorem mem_canonQuery {c : Char} {quoted : Bool} {q : Str} (h : c ∈ canonQuery quoted q) :
    c = '&' ∨ c = '=' ∨ ∃ y, y ⊆ q ∧ c ∈ requoteItem quoted y := by
  unfold canonQuery at h
  simp only at h
  rcases mem_serialize h with h | h | ⟨x, hx, hc⟩
  · exact Or.inl h
  · exact Or.inr (Or.inl h)
  · right; right
    cases quoted with
    | false =>
      simp only [Bool.false_eq_true, if_false] at hx
      obtain ⟨y, hy, rfl⟩ := qslStrs_unquoteQsl _ x hx
      exact ⟨y, qslStrs_safeQslIter q y hy, by simpa [requoteItem] using hc⟩
    | true =>
      simp only [if_true] at hx
      obtain ⟨z, hz, rfl⟩ := qslStrs_quoteQsl _ x hx
      obtain ⟨y, hy, rfl⟩ := qslStrs_unquoteQsl _ z hz
      exact ⟨y, qslStrs_safeQslIter q y hy, by simpa [requoteItem] using hc⟩

/-! ## what `parseUrl` returns on a cleaned string -/

structure FromParse (S rest : Str) (p : Parsed) : Prop where
  split : SplitFacts S rest ⟨p.scheme, p.netloc, p.path, p.query, p.fragment⟩
  user : p.username = username p.netloc
  pass : p.password = password p.netloc
  host : p.hostname = hostname p.netloc
  port : Py.port p.netloc = some p.port
  noCtl_rest : NoCtl rest
  shaped : SchemeShaped S

theorem fromParse {c S rest : Str} (h : Cleaned c S rest) {p : Parsed}
    (hp : parseUrl c = some p) : FromParse S rest p := by
  unfold parseUrl at hp
  cases hr : urlsplit c [] with
  | none => rw [hr] at hp; cases hp
  | some r =>
    rw [hr] at hp
    simp only at hp
    cases hpo : Py.port r.netloc with
    | none => rw [hpo] at hp; cases hp
    | some po =>
      rw [hpo] at hp
      simp only [Option.some.injEq] at hp
      subst hp
      refine ⟨splitFacts h hr, rfl, rfl, rfl, hpo, ?_, h.shaped⟩
      intro x hx
      apply h.noCtl
      rw [h.eq]; simp [hx]

/-! ## more character facts -/

theorem lowerChar_of_not_upper {d : Char} (hn : ¬ (65 ≤ d.toNat ∧ d.toNat ≤ 90)) :
    lowerChar d = d := by
  unfold lowerChar
  have : ¬ ('A' ≤ d ∧ d ≤ 'Z') := by
    simp only [char_le_iff]
    have e1 : 'A'.toNat = 65 := rfl
    have e2 : 'Z'.toNat = 90 := rfl
    rw [e1, e2]; exact hn
  rw [if_neg this]

theorem isAsciiAlpha_iff (c : Char) :
    isAsciiAlpha c = true ↔ (97 ≤ c.toNat ∧ c.toNat ≤ 122) ∨ (65 ≤ c.toNat ∧ c.toNat ≤ 90) := by
  simp only [isAsciiAlpha, Bool.or_eq_true, decide_eq_true_eq, char_le_iff]
  have e1 : 'a'.toNat = 97 := rfl
  have e2 : 'z'.toNat = 122 := rfl
  have e3 : 'A'.toNat = 65 := rfl
  have e4 : 'Z'.toNat = 90 := rfl
  rw [e1, e2, e3, e4]

theorem isAsciiAlpha_lowerChar {c : Char} (h : isAsciiAlpha c = true) :
    isAsciiAlpha (lowerChar c) = true := by
  rw [isAsciiAlpha_iff] at h ⊢
  rw [lowerChar_toNat]
  split <;> omega

theorem isSchemeChar_lowerChar {c : Char} (h : isSchemeChar c = true) :
    isSchemeChar (lowerChar c) = true := by
  by_cases hu : 65 ≤ c.toNat ∧ c.toNat ≤ 90
  · have : isAsciiAlpha (lowerChar c) = true :=
      isAsciiAlpha_lowerChar ((isAsciiAlpha_iff c).2 (Or.inr hu))
    simp [isSchemeChar, this]
  · rw [lowerChar_of_not_upper hu]; exact h

theorem schemeShaped_lower {S : Str} (h : SchemeShaped S) : SchemeShaped (lower S) := by
  obtain ⟨⟨c, r, rfl, hc⟩, hall⟩ := h
  refine ⟨⟨lowerChar c, lower r, rfl, isAsciiAlpha_lowerChar hc⟩, ?_⟩
  apply List.all_eq_true.2
  intro x hx
  simp only [Py.lower, List.mem_map] at hx
  obtain ⟨d, hd, rfl⟩ := hx
  exact isSchemeChar_lowerChar (List.all_eq_true.1 hall d hd)

theorem digit_not_ctl {c : Char} (h : isAsciiDigit c = true) : isControlChar c = false := by
  simp only [isAsciiDigit, decide_eq_true_eq, char_le_iff] at h
  have e5 : '0'.toNat = 48 := rfl
  have e6 : '9'.toNat = 57 := rfl
  rw [e5, e6] at h
  apply not_ctl_of_range; omega

/-! ## membership in the printed netloc -/

theorem mem_authPart {c : Char} {U P : Str} (h : c ∈ authPart U P) :
    c ∈ U ∨ c ∈ P ∨ c = ':' ∨ c = '@' := by
  unfold authPart at h
  split at h
  · simp only [List.mem_append, List.mem_cons, List.not_mem_nil, or_false] at h
    rcases h with (h | h | h) | h
    · exact Or.inl h
    · exact Or.inr (Or.inr (Or.inl h))
    · exact Or.inr (Or.inl h)
    · exact Or.inr (Or.inr (Or.inr h))
  · split at h
    · simp only [List.mem_append, List.mem_cons, List.not_mem_nil, or_false] at h
      rcases h with h | h
      · exact Or.inl h
      · exact Or.inr (Or.inr (Or.inr h))
    · simp at h

theorem mem_strOf_host {puny : Str → Str} {o : Option Str} {c : Char}
    (h : c ∈ strOf (match o with
      | some h => if h.isEmpty then some h else some (canonHost puny h)
      | none => none)) : ∃ h0, o = some h0 ∧ c ∈ canonHost puny h0 := by
  cases o with
  | none => simp [strOf_none] at h
  | some u =>
    by_cases hu : u.isEmpty = true
    · have : u = [] := by simpa using hu
      subst this
      simp [strOf_some] at h
    · simp only [hu, Bool.false_eq_true, if_false, strOf_some] at h
      exact ⟨u, rfl, h⟩

/-! ## the components `canonComps` builds -/

section
variable {puny : Str → Str} (hpc : PunyClean puny) (quoted sf : Bool) {S rest : Str} {p : Parsed}
  (h : FromParse S rest p)
include hpc h

theorem netloc_sub_rest : p.netloc ⊆ rest := h.split.sub_netloc

/-- a character of the new user (password): it comes from re-quoting the old one -/
theorem user_mem {c : Char} (hc : c ∈ strOf (canonComps puny quoted sf p).user) :
    ∃ u, u ⊆ p.netloc ∧ ':' ∉ u ∧ p.username = some u ∧ c ∈ requote quoted unquoteAuthItem u := by
  obtain ⟨u, hu, hcu⟩ := mem_strOf_canonOpt (by simpa [canonComps] using hc)
  have := (netlocFacts p.netloc).user_sub u (by rw [← h.user]; exact hu)
  exact ⟨u, this.1, this.2, hu, hcu⟩

theorem pass_mem {c : Char} (hc : c ∈ strOf (canonComps puny quoted sf p).pass) :
    ∃ u, u ⊆ p.netloc ∧ p.password = some u ∧ c ∈ requote quoted unquoteAuthItem u := by
  obtain ⟨u, hu, hcu⟩ := mem_strOf_canonOpt (by simpa [canonComps] using hc)
  have := (netlocFacts p.netloc).pass_sub u (by rw [← h.pass]; exact hu)
  exact ⟨u, this, hu, hcu⟩

theorem host_mem {c : Char} (hc : c ∈ strOf (canonComps puny quoted sf p).host) :
    ∃ h0, LowerOf h0 p.netloc ∧ '@' ∉ h0 ∧ p.hostname = some h0 ∧ c ∈ canonHost puny h0 := by
  have he : (canonComps puny quoted sf p).host = (match p.hostname with
      | some h => if h.isEmpty then some h else some (canonHost puny h)
      | none => none) := by
    simp only [canonComps]
    cases p.hostname <;> rfl
  rw [he] at hc
  obtain ⟨h0, hh, hch⟩ := mem_strOf_host hc
  have := (netlocFacts p.netloc).host_lower h0 (by rw [← h.host]; exact hh)
  exact ⟨h0, this.1, this.2.1, hh, hch⟩

/-- a delimiter of the authority that is not in the old netloc is not in the new user,
password or host -/
theorem delim_not_in_comps {d : Char} (hd : d ∈ ['/', '?', '#']) :
    d ∉ strOf (canonComps puny quoted sf p).user ∧ d ∉ strOf (canonComps puny quoted sf p).pass ∧
    d ∉ strOf (canonComps puny quoted sf p).host := by
  have hnl : d ∉ p.netloc := by
    intro hm
    have := h.split.nodelim d hm
    simp only [List.mem_cons, List.not_mem_nil, or_false] at hd
    rcases hd with rfl | rfl | rfl <;> exact absurd this (by decide)
  have hd' : d ∈ ['@', ':', '/', '?', '#', '[', ']'] := by
    simp only [List.mem_cons, List.not_mem_nil, or_false] at hd ⊢
    rcases hd with rfl | rfl | rfl <;> simp
  have hbad : isPunyBad d = true := by
    simp only [List.mem_cons, List.not_mem_nil, or_false] at hd
    rcases hd with rfl | rfl | rfl <;> decide
  refine ⟨?_, ?_, ?_⟩
  · intro hm
    obtain ⟨u, hsub, _, _, hcu⟩ := user_mem hpc quoted sf h hm
    exact requote_auth_not_mem hd' quoted u (fun hh => hnl (hsub hh)) hcu
  · intro hm
    obtain ⟨u, hsub, _, hcu⟩ := pass_mem hpc quoted sf h hm
    exact requote_auth_not_mem hd' quoted u (fun hh => hnl (hsub hh)) hcu
  · intro hm
    obtain ⟨h0, hl, _, _, hch⟩ := host_mem hpc quoted sf h hm
    have := canonHost_bad puny hpc h0 hbad hch
    exact hl.not_mem hnl (punyBad_not_lower hbad) this

theorem noCtl_netloc_old : NoCtl p.netloc := NoCtl.of_subset h.split.sub_netloc h.noCtl_rest

theorem noCtl_comps :
    NoCtl (strOf (canonComps puny quoted sf p).user) ∧
    NoCtl (strOf (canonComps puny quoted sf p).pass) ∧
    NoCtl (strOf (canonComps puny quoted sf p).host) := by
  have hn := noCtl_netloc_old hpc h
  refine ⟨?_, ?_, ?_⟩
  · intro c hc
    obtain ⟨u, hsub, _, _, hcu⟩ := user_mem hpc quoted sf h hc
    exact noCtl_requote_auth quoted (NoCtl.of_subset hsub hn) c hcu
  · intro c hc
    obtain ⟨u, hsub, _, hcu⟩ := pass_mem hpc quoted sf h hc
    exact noCtl_requote_auth quoted (NoCtl.of_subset hsub hn) c hcu
  · intro c hc
    obtain ⟨h0, hl, _, _, hch⟩ := host_mem hpc quoted sf h hc
    exact noCtl_canonHost puny hpc (hl.noCtl hn) c hch

/-- the hypotheses of `accessors_unsplitNetloc` hold for the new components, provided the
old host holds no bracket -/
theorem accessor_hyps (hbr : ∀ h0, p.hostname = some h0 → '[' ∉ h0 ∧ ']' ∉ h0) :
    ':' ∉ strOf (canonComps puny quoted sf p).user ∧
    ('@' ∉ strOf (canonComps puny quoted sf p).host ∧ '[' ∉ strOf (canonComps puny quoted sf p).host ∧
      ']' ∉ strOf (canonComps puny quoted sf p).host) ∧
    (∀ n ∈ (canonComps puny quoted sf p).port, n ≤ 65535) := by
  refine ⟨?_, ⟨?_, ?_, ?_⟩, ?_⟩
  · intro hm
    obtain ⟨u, _, hcol, _, hcu⟩ := user_mem hpc quoted sf h hm
    exact requote_auth_not_mem (by simp) quoted u hcol hcu
  · intro hm
    obtain ⟨h0, _, hat, _, hch⟩ := host_mem hpc quoted sf h hm
    exact hat (canonHost_bad puny hpc h0 (by decide) hch)
  · intro hm
    obtain ⟨h0, _, _, hh, hch⟩ := host_mem hpc quoted sf h hm
    exact (hbr h0 hh).1 (canonHost_bad puny hpc h0 (by decide) hch)
  · intro hm
    obtain ⟨h0, _, _, hh, hch⟩ := host_mem hpc quoted sf h hm
    exact (hbr h0 hh).2 (canonHost_bad puny hpc h0 (by decide) hch)
  · intro n hn
    have hle := (netlocFacts p.netloc).port_le
    simp only [canonComps] at hn
    cases hpp : p.port with
    | none => rw [hpp] at hn; simp at hn
    | some m =>
      rw [hpp] at hn
      simp only at hn
      split at hn
      · simp at hn
      · simp only [Option.mem_def, Option.some.injEq] at hn
        subst hn
        exact hle m (by rw [h.port, hpp])

end

/-! ## quoting and unquoting keep the first character of a path segment off `/` -/

theorem pctTok_ne_nil (t : Tok) : pctTok t ≠ [] := by
  cases t with
  | raw c => exact utf8_ne_nil c
  | esc h1 h2 => simp [pctTok]
  | stray => simp [pctTok]

theorem pctStr_eq_nil {y : Str} (h : pctStr y = []) : y = [] := by
  unfold pctStr pct at h
  have ht : tokens y = [] := by
    cases hts : tokens y with
    | nil => rfl
    | cons t ts =>
      rw [hts] at h
      simp only [List.flatMap_cons, List.append_eq_nil_iff] at h
      exact absurd h.1 (pctTok_ne_nil t)
  have := render_tokens y
  rw [ht] at this
  simpa [render] using this.symm

theorem unquotePath_eq_nil {y : Str} (h : unquotePath y = []) : y = [] := by
  apply pctStr_eq_nil
  rw [← pctStr_safelyUnquote Gen.Quote.unsafeForPath (by decide) y]
  show pctStr (unquotePath y) = []
  rw [h]; rfl

theorem safelyQuote_eq_nil {y : Str} (h : safelyQuote y = []) : y = [] := by
  apply pctStr_eq_nil
  rw [← pctStr_safelyQuote y, h]; rfl

theorem head_ne_slash (f : Str → Str)
    (hsplit : ∀ s, splitOn (f s) '/' = (splitOn s '/').map f) (hnil : ∀ y, f y = [] → y = [])
    (d : Char) (r : Str) (hd : d ≠ '/') : (f (d :: r)).head? ≠ some '/' := by
  intro hh
  cases hf : f (d :: r) with
  | nil => rw [hf] at hh; cases hh
  | cons c t =>
    rw [hf] at hh
    simp only [List.head?_cons, Option.some.injEq] at hh
    subst hh
    have h1 := hsplit (d :: r)
    rw [hf, splitOn_cons_sep, splitOn_cons_ne _ _ _ hd] at h1
    cases h2 : splitOn r '/' with
    | nil => exact absurd h2 (splitOn_ne_nil r '/')
    | cons a rest =>
      rw [h2] at h1
      simp only [List.map_cons, List.cons.injEq] at h1
      have := hnil _ h1.1.symm
      cases this

theorem safelyQuote_nil : safelyQuote [] = [] := by
  simp [safelyQuote, tokens, quoteToks, render]

theorem safelyQuote_cons_slash (q : Str) : safelyQuote ('/' :: q) = '/' :: safelyQuote q := by
  have := safelyQuote_append_sep (c := '/') ⟨by decide, by decide⟩ (by decide) [] q
  simpa [safelyQuote_nil] using this

/-- the printed path: the canonical path re-quoted or unquoted once more -/
def finishPath (quoted : Bool) (cp : Str) : Str := if quoted then safelyQuote cp else unquotePath cp

theorem finishPath_nil (quoted : Bool) : finishPath quoted [] = [] := by
  cases quoted <;> simp [finishPath, safelyQuote_nil, unquotePath, safelyUnquote_nil]

theorem finishPath_cons_slash (quoted : Bool) (q : Str) :
    finishPath quoted ('/' :: q) = '/' :: finishPath quoted q := by
  cases quoted
  · simp only [finishPath, Bool.false_eq_true, if_false]; exact safelyUnquote_cons_slash _ q
  · simp only [finishPath, if_true]; exact safelyQuote_cons_slash q

theorem finishPath_head (quoted : Bool) (d : Char) (r : Str) (hd : d ≠ '/') :
    (finishPath quoted (d :: r)).head? ≠ some '/' := by
  cases quoted
  · simp only [finishPath, Bool.false_eq_true, if_false]
    exact head_ne_slash unquotePath
      (fun s => splitOn_safelyUnquote _ ⟨by decide, by decide⟩ (by decide) (by decide) (by decide) s)
      (fun y => unquotePath_eq_nil) d r hd
  · simp only [finishPath, if_true]
    exact head_ne_slash safelyQuote
      (fun s => splitOn_safelyQuote ⟨by decide, by decide⟩ (by decide) s)
      (fun y => safelyQuote_eq_nil) d r hd

/-- the printed path of an absolute path: empty, or a slash not followed by a slash -/
theorem finishPath_shape (quoted : Bool) (path : Str) (m : Bool) (hp : AbsPath path) :
    (finishPath quoted (canonPath path m) = [] ∨ ∃ q, finishPath quoted (canonPath path m) = '/' :: q) ∧
    startsWith (finishPath quoted (canonPath path m)) ['/', '/'] = false := by
  rcases canonPath_shape path m hp with h0 | h1 | ⟨d, r, h2, hd⟩
  · rw [h0, finishPath_nil]; exact ⟨Or.inl rfl, rfl⟩
  · rw [h1, finishPath_cons_slash, finishPath_nil]
    exact ⟨Or.inr ⟨_, rfl⟩, by simp [startsWith_cons_cons, startsWith_nil_cons]⟩
  · rw [h2, finishPath_cons_slash]
    refine ⟨Or.inr ⟨_, rfl⟩, ?_⟩
    have := finishPath_head quoted d r hd
    cases hf : finishPath quoted (d :: r) with
    | nil => simp [startsWith_cons_cons, startsWith_nil_cons]
    | cons c t =>
      rw [hf] at this
      simp only [List.head?_cons, ne_eq, Option.some.injEq] at this
      simp [startsWith_cons_cons, startsWith_nil, this]

theorem mem_finishPath_not {d : Char} (hd : d = '?' ∨ d = '#') (quoted : Bool) (cp : Str)
    (h : d ∉ cp) : d ∉ finishPath quoted cp := by
  cases quoted
  · simp only [finishPath, Bool.false_eq_true, if_false]
    rcases hd with rfl | rfl <;>
      exact not_mem_safelyUnquote _ ⟨by decide, by decide⟩ (by decide) (by decide) cp h
  · simp only [finishPath, if_true]
    rcases hd with rfl | rfl <;>
      exact not_mem_safelyQuote ⟨by decide, by decide⟩ (by decide) cp

theorem noCtl_finishPath (quoted : Bool) {cp : Str} (h : NoCtl cp) : NoCtl (finishPath quoted cp) := by
  cases quoted
  · simp only [finishPath, Bool.false_eq_true, if_false]; exact noCtl_safelyUnquote _ h
  · simp only [finishPath, if_true]; exact noCtl_safelyQuote _

/-! ## the netloc `canonicalize_url` prints, in normal form -/

theorem truthy_iff_strOf (o : Option Str) : truthy o = true ↔ strOf o ≠ [] := by
  cases o with
  | none => simp [truthy, strOf_none]
  | some x => rw [strOf_some]; cases x <;> simp [truthy]

/-- the printed host stands between brackets: the parsed host did, and it is not empty -/
def bflag (puny : Str → Str) (quoted sf : Bool) (p : Parsed) : Bool :=
  decide (strOf (canonComps puny quoted sf p).host ≠ []) && bracketedHost p.netloc

theorem strOf_bracketHost (nl : Str) (o : Option Str) :
    strOf (bracketHost nl o) =
      if (decide (strOf o ≠ []) && bracketedHost nl) = true then '[' :: strOf o ++ [']'] else strOf o := by
  unfold bracketHost
  by_cases ht : truthy o = true
  · have hne := (truthy_iff_strOf o).1 ht
    have hg : o.getD [] = strOf o := by simp [strOf, ht]
    by_cases hB : bracketedHost nl = true
    · simp [ht, hB, hne, strOf_some, hg]
    · simp [ht, hB, hne]
  · have hne : strOf o = [] := by
      cases h0 : strOf o with
      | nil => rfl
      | cons c r => exact absurd ((truthy_iff_strOf o).2 (by rw [h0]; simp)) ht
    simp [ht, hne]

theorem canonParts_netloc_eq (puny : Str → Str) (quoted sf : Bool) (p : Parsed) :
    (canonParts puny quoted sf p).netloc =
      authPart (strOf (canonComps puny quoted sf p).user) (strOf (canonComps puny quoted sf p).pass) ++
        (hostPartB (bflag puny quoted sf p) (strOf (canonComps puny quoted sf p).host) ++
          portPart (canonComps puny quoted sf p).port) := by
  show unsplitNetloc _ _ (bracketHost p.netloc (canonComps puny quoted sf p).host) _ = _
  rw [unsplitNetloc_eq, strOf_bracketHost]
  unfold hostPartB bflag
  split
  · rw [hostPart_bracketed]
  · rfl

/-! ## `canonParts` is well-formed -/

section
variable {puny : Str → Str} (hpc : PunyClean puny) (quoted sf : Bool) {S rest : Str} {p : Parsed}
  (h : FromParse S rest p)
include hpc h

theorem canonComps_path_eq :
    (canonComps puny quoted sf p).path =
      finishPath quoted (canonPath p.path (hasMore puny sf p)) := by
  simp only [canonComps, finishPath]

theorem noCtl_of_sub {x : Str} (hx : x ⊆ rest) : NoCtl x := NoCtl.of_subset hx h.noCtl_rest

theorem noCtl_path : NoCtl (canonComps puny quoted sf p).path := by
  rw [canonComps_path_eq hpc quoted sf h]
  apply noCtl_finishPath
  intro c hc
  rcases mem_canonPath hc with h1 | rfl
  · exact noCtl_safelyUnquote _ (noCtl_of_sub hpc h h.split.sub_path) c h1
  · decide

theorem noCtl_query : NoCtl (canonComps puny quoted sf p).query := by
  intro c hc
  have hc' : c ∈ canonQuery quoted p.query := by simpa [canonComps] using hc
  rcases mem_canonQuery hc' with rfl | rfl | ⟨y, hy, hcy⟩
  · decide
  · decide
  · exact noCtl_requoteItem quoted
      (noCtl_of_sub hpc h (fun x hx => h.split.sub_query (hy hx))) c hcy

theorem noCtl_fragment : NoCtl ((canonComps puny quoted sf p).fragment.getD []) := by
  intro c hc
  have hc' : c ∈ (canonOpt quoted unquoteFragment (if sf then none else some p.fragment)).getD [] := by
    simpa [canonComps] using hc
  obtain ⟨u, hu, hcu⟩ := mem_getD_canonOpt hc'
  have hsub : u ⊆ rest := by
    cases sf
    · simp only [Bool.false_eq_true, if_false, Option.some.injEq] at hu
      subst hu; exact h.split.sub_fragment
    · simp at hu
  rcases hcu with hcu | hcu
  · exact noCtl_requote quoted _ (noCtl_of_sub hpc h hsub) c hcu
  · exact noCtl_of_sub hpc h hsub c hcu

theorem noCtl_netloc_new : NoCtl (canonParts puny quoted sf p).netloc := by
  intro c hc
  rw [canonParts_netloc_eq] at hc
  obtain ⟨hu, hpw, hh⟩ := noCtl_comps hpc quoted sf h
  rcases List.mem_append.1 hc with h1 | h1
  · rcases mem_authPart h1 with h2 | h2 | rfl | rfl
    · exact hu c h2
    · exact hpw c h2
    · decide
    · decide
  · rcases List.mem_append.1 h1 with h2 | h2
    · rcases mem_hostPartB h2 with h3 | rfl | rfl
      · exact hh c h3
      · decide
      · decide
    · rcases mem_portPart h2 with rfl | h3
      · decide
      · exact digit_not_ctl h3

theorem nodelim_netloc_new : ∀ c ∈ (canonParts puny quoted sf p).netloc, isNetlocDelim c = false := by
  intro c hc
  cases hd : isNetlocDelim c with
  | false => rfl
  | true =>
    exfalso
    have hd' : c ∈ ['/', '?', '#'] := by
      simp only [isNetlocDelim, Bool.or_eq_true, decide_eq_true_eq] at hd
      rcases hd with (rfl | rfl) | rfl <;> simp
    obtain ⟨h1, h2, h3⟩ := delim_not_in_comps hpc quoted sf h hd'
    rw [canonParts_netloc_eq] at hc
    rcases List.mem_append.1 hc with hc1 | hc1
    · rcases mem_authPart hc1 with h4 | h4 | rfl | rfl
      · exact h1 h4
      · exact h2 h4
      · revert hd; decide
      · revert hd; decide
    · rcases List.mem_append.1 hc1 with hc2 | hc2
      · rcases mem_hostPartB hc2 with h4 | rfl | rfl
        · exact h3 h4
        · revert hd; decide
        · revert hd; decide
      · rcases mem_portPart hc2 with rfl | h4
        · revert hd; decide
        · simp only [isNetlocDelim, Bool.or_eq_true, decide_eq_true_eq] at hd
          rcases hd with (rfl | rfl) | rfl <;> revert h4 <;> decide

/-- **`canonParts` prints unambiguously**: the 5-tuple `canonicalize_url` hands to
`urlunsplit` is well-formed — for every parse of a cleaned string, every option setting and
every decoder bringing in no delimiter — as soon as the bracket check passes on the new
netloc (`canon_netlocOk_of_no_bracket` discharges that when the netloc holds no bracket) -/
theorem canonParts_wf (hbr : netlocOk (canonParts puny quoted sf p).netloc = true) :
    WF (canonParts puny quoted sf p).scheme (canonParts puny quoted sf p).netloc
      (canonParts puny quoted sf p).path (canonParts puny quoted sf p).query
      ((canonParts puny quoted sf p).fragment.getD []) := by
  have hscheme : (canonParts puny quoted sf p).scheme = lower S := h.split.scheme
  have hsne : lower S ≠ [] := by
    obtain ⟨⟨c, r, e, _⟩, _⟩ := h.shaped; rw [e]; simp [Py.lower]
  have hpath : (canonParts puny quoted sf p).path = (canonComps puny quoted sf p).path := rfl
  have hshape := finishPath_shape quoted p.path (hasMore puny sf p) h.split.path_abs
  refine
    { scheme_ok := Or.inr (by rw [hscheme]; exact ⟨schemeShaped_lower h.shaped, lower_idem S⟩)
      netloc_nodelim := nodelim_netloc_new hpc quoted sf h
      netloc_ok := hbr
      path_noq := ?_
      path_noh := ?_
      query_noh := ?_
      path_abs := fun _ => by rw [hpath, canonComps_path_eq hpc quoted sf h]; exact hshape.1
      path_no2 := fun _ => by rw [hpath, canonComps_path_eq hpc quoted sf h]; exact hshape.2
      rel_nocolon := fun hs => absurd (hscheme ▸ hs) hsne
      rel_nolead := fun hs => absurd (hscheme ▸ hs) hsne
      clean := ?_ }
  · rw [hpath, canonComps_path_eq hpc quoted sf h]
    apply mem_finishPath_not (Or.inl rfl)
    intro hm
    rcases mem_canonPath hm with h1 | h1
    · exact not_mem_safelyUnquote _ ⟨by decide, by decide⟩ (by decide) (by decide) _
        h.split.path_noq h1
    · cases h1
  · rw [hpath, canonComps_path_eq hpc quoted sf h]
    apply mem_finishPath_not (Or.inr rfl)
    intro hm
    rcases mem_canonPath hm with h1 | h1
    · exact not_mem_safelyUnquote _ ⟨by decide, by decide⟩ (by decide) (by decide) _
        h.split.path_noh h1
    · cases h1
  · intro hm
    have hm' : '#' ∈ canonQuery quoted p.query := by simpa [canonParts, canonComps] using hm
    rcases mem_canonQuery hm' with h1 | h1 | ⟨y, hy, hcy⟩
    · cases h1
    · cases h1
    · have hny : '#' ∉ y := fun hh => h.split.query_noh (hy hh)
      have h1 : '#' ∉ unquoteQueryItem y :=
        not_mem_safelyUnquote _ ⟨by decide, by decide⟩ (by decide) (by decide) y hny
      unfold requoteItem at hcy
      split at hcy
      · exact not_mem_quoteQueryItem ⟨by decide, by decide⟩ (by decide) _ hcy
      · exact h1 hcy
  · intro c hc
    apply unsafe_of_ctl
    simp only [List.mem_append] at hc
    rcases hc with (((hc | hc) | hc) | hc) | hc
    · rw [hscheme] at hc; exact (h.shaped.noCtl.lower) c hc
    · exact noCtl_netloc_new hpc quoted sf h c hc
    · exact noCtl_path hpc quoted sf h c hc
    · exact noCtl_query hpc quoted sf h c hc
    · exact noCtl_fragment hpc quoted sf h c hc

end

/-! ## the bracket check on the printed netloc -/

theorem contains_false_of_not_mem {s : Str} {c : Char} (h : c ∉ s) : s.contains c = false := by
  cases hc : s.contains c with
  | false => rfl
  | true => exact absurd (List.contains_iff_mem.1 hc) h

theorem contains_true_of_mem {s : Str} {c : Char} (h : c ∈ s) : s.contains c = true :=
  List.contains_iff_mem.2 h

theorem netlocOk_of_no_bracket {nl : Str} (h1 : '[' ∉ nl) (h2 : ']' ∉ nl) : netlocOk nl = true := by
  unfold netlocOk
  simp only [contains_false_of_not_mem h1, contains_false_of_not_mem h2, bne_self_eq_false,
    Bool.false_eq_true, if_false]

/-- the printed netloc passes the bracket check: the userinfo holds no bracket, the host
is either bare (no bracket, no colon) or stands between brackets and passes the check -/
theorem netlocOk_printed (U P H : Str) (b : Bool) (port : Option Nat)
    (hU : '[' ∉ U ∧ ']' ∉ U) (hP : '[' ∉ P ∧ ']' ∉ P)
    (hb : b = true → ']' ∉ H ∧ bracketedHostOk H = true)
    (hnb : b = false → '[' ∉ H ∧ ']' ∉ H ∧ ':' ∉ H) :
    netlocOk (authPart U P ++ (hostPartB b H ++ portPart port)) = true := by
  have hA : '[' ∉ authPart U P ∧ ']' ∉ authPart U P := by
    constructor <;> intro hm <;> rcases mem_authPart hm with h | h | h | h
    · exact hU.1 h
    · exact hP.1 h
    · cases h
    · cases h
    · exact hU.2 h
    · exact hP.2 h
    · cases h
    · cases h
  have hpp : '[' ∉ portPart port ∧ ']' ∉ portPart port := by
    constructor <;> intro hm <;> rcases mem_portPart hm with h | h
    · cases h
    · revert h; decide
    · cases h
    · revert h; decide
  cases b with
  | true =>
    obtain ⟨hcl, hok⟩ := hb rfl
    simp only [hostPartB, if_true]
    unfold netlocOk
    have hL : (authPart U P ++ ('[' :: H ++ [']'] ++ portPart port)).contains '[' = true :=
      contains_true_of_mem (by simp)
    have hR : (authPart U P ++ ('[' :: H ++ [']'] ++ portPart port)).contains ']' = true :=
      contains_true_of_mem (by simp)
    simp only [hL, hR, bne_self_eq_false, Bool.false_eq_true, if_false, if_true]
    have e : authPart U P ++ ('[' :: H ++ [']'] ++ portPart port) =
        authPart U P ++ ('[' :: (H ++ (']' :: portPart port))) := by simp
    rw [e, dropWhile_append_stop _ _ _ (fun c hc => by
        simp only [ne_eq, decide_eq_true_eq]; rintro rfl; exact hA.1 hc)
        (fun c hc => by simp at hc; simp [← hc])]
    simp only [List.drop_succ_cons, List.drop_zero]
    rw [takeWhile_append_stop _ _ _ (fun c hc => by
        simp only [ne_eq, decide_eq_true_eq]; rintro rfl; exact hcl hc)
        (fun c hc => by simp at hc; simp [← hc])]
    exact hok
  | false =>
    obtain ⟨h1, h2, h3⟩ := hnb rfl
    have hp : hostPartB false H = H := by
      simp only [hostPartB, Bool.false_eq_true, if_false]
      unfold hostPart; simp [h3]
    rw [hp]
    apply netlocOk_of_no_bracket
    · intro hm
      rcases List.mem_append.1 hm with h | h
      · exact hA.1 h
      · rcases List.mem_append.1 h with h | h
        · exact h1 h
        · exact hpp.1 h
    · intro hm
      rcases List.mem_append.1 hm with h | h
      · exact hA.2 h
      · rcases List.mem_append.1 h with h | h
        · exact h2 h
        · exact hpp.2 h

theorem lower_length (s : Str) : (lower s).length = s.length := by simp [Py.lower]

/-- the accessor's lower-casing does nothing to a lower-cased host -/
theorem lowerHost_of_lower_fixed (s : Str) (h : lower s = s) : lowerHost s = s := by
  have hspec := splitFirst_spec_s20 s '%'
  unfold lowerHost
  cases hz : (splitFirst s '%').2 with
  | none =>
    rw [hz] at hspec
    simp only [List.append_nil]
    rw [← hspec.2]; exact h
  | some z =>
    rw [hz] at hspec
    simp only
    have h2 : lower ((splitFirst s '%').1 ++ '%' :: z) = (splitFirst s '%').1 ++ '%' :: z := by
      rw [← hspec.2]; exact h
    rw [lower_append] at h2
    have := (List.append_inj h2 (lower_length _)).1
    rw [this]; exact hspec.2.symm

/-! ## brackets of an accepted netloc: none in the userinfo, at most the pair of an ip literal -/

theorem hostinfoStr_subset (nl : Str) : hostinfoStr nl ⊆ nl := by
  have hsl := splitLast_spec nl '@'
  unfold hostinfoStr
  cases hui : (splitLast nl '@').1 with
  | none => rw [hsl.2 hui]; exact fun x hx => hx
  | some ui => intro x hx; rw [hsl.1 ui hui]; simp [hx]

/-- the netloc is its userinfo, `@`, its host part — or the host part alone -/
theorem netloc_decomp (nl : Str) :
    nl = hostinfoStr nl ∧ (splitLast nl '@').1 = none ∨
    ∃ ui, (splitLast nl '@').1 = some ui ∧ nl = ui ++ '@' :: hostinfoStr nl := by
  have hsl := splitLast_spec nl '@'
  unfold hostinfoStr
  cases hui : (splitLast nl '@').1 with
  | none => exact Or.inl ⟨(hsl.2 hui).symm, rfl⟩
  | some ui => exact Or.inr ⟨ui, rfl, hsl.1 ui hui⟩

theorem userinfoBrackets_false {nl : Str} (h : userinfoBrackets nl = false) :
    '[' ∉ (splitLast nl '@').1.getD [] ∧ ']' ∉ (splitLast nl '@').1.getD [] := by
  unfold userinfoBrackets at h
  rw [Bool.or_eq_false_iff] at h
  constructor
  · intro hm; rw [contains_true_of_mem hm] at h; exact absurd h.1 (by simp)
  · intro hm; rw [contains_true_of_mem hm] at h; exact absurd h.2 (by simp)

/-- a bracket of an accepted netloc stands in its host part -/
theorem mem_hostinfo_of_bracket {nl : Str} (hui : userinfoBrackets nl = false) {c : Char}
    (hc : c = '[' ∨ c = ']') (hm : c ∈ nl) : c ∈ hostinfoStr nl := by
  obtain ⟨h1, h2⟩ := userinfoBrackets_false hui
  rcases netloc_decomp nl with ⟨e, _⟩ | ⟨ui, hu, e⟩
  · rw [← e]; exact hm
  · rw [hu] at h1 h2
    simp only [Option.getD_some] at h1 h2
    rw [e] at hm
    simp only [List.mem_append, List.mem_cons] at hm
    rcases hm with hm | hm | hm
    · rcases hc with rfl | rfl
      · exact absurd hm h1
      · exact absurd hm h2
    · rcases hc with rfl | rfl <;> cases hm
    · exact hm

/-- no bracket at all when the host part opens none -/
theorem no_bracket_of_unbracketed {nl : Str} (hok : netlocOk nl = true)
    (hui : userinfoBrackets nl = false) (hB : bracketedHost nl = false) :
    '[' ∉ nl ∧ ']' ∉ nl := by
  have hL : '[' ∉ nl := by
    intro hm
    have := mem_hostinfo_of_bracket hui (Or.inl rfl) hm
    unfold bracketedHost at hB
    rw [contains_true_of_mem this] at hB; cases hB
  refine ⟨hL, ?_⟩
  intro hR
  unfold netlocOk at hok
  rw [contains_false_of_not_mem hL, contains_true_of_mem hR] at hok
  simp at hok

theorem dropWhile_ne_nil_of_mem {α : Type} (q : α → Bool) (l : List α) (x : α) (hx : x ∈ l)
    (hq : q x = false) : l.dropWhile q ≠ [] := by
  induction l with
  | nil => simp at hx
  | cons c l ih =>
    by_cases hc : q c = true
    · simp only [List.dropWhile_cons, hc, if_true]
      simp only [List.mem_cons] at hx
      rcases hx with rfl | hx
      · rw [hq] at hc; cases hc
      · exact ih hx
    · simp [List.dropWhile_cons, hc]

theorem dropWhile_prefix_stop {α : Type} (q : α → Bool) (a b : List α) (ha : ∀ c ∈ a, q c = true) :
    (a ++ b).dropWhile q = b.dropWhile q := by
  induction a with
  | nil => rfl
  | cons c a ih =>
    simp only [List.cons_append, List.dropWhile_cons, ha c (by simp), if_true]
    exact ih (fun x hx => ha x (by simp [hx]))

/-- **the text the bracket check reads is the host**: in an accepted netloc whose host part
opens a bracket, `urlsplit` validated exactly what `_hostinfo` returns as the host -/
theorem bracket_text {nl : Str} (hok : netlocOk nl = true) (hui : userinfoBrackets nl = false)
    (hB : bracketedHost nl = true) :
    bracketedHostOk (hostPortStr (hostinfoStr nl)).1 = true ∧
      ']' ∉ (hostPortStr (hostinfoStr nl)).1 := by
  have hmem : '[' ∈ hostinfoStr nl := List.contains_iff_mem.1 hB
  -- the host, as `_hostinfo` reads it
  have hhost : (hostPortStr (hostinfoStr nl)).1 =
      (((hostinfoStr nl).dropWhile (· ≠ '[')).drop 1).takeWhile (· ≠ ']') := by
    unfold hostPortStr
    rw [splitFirst_eq (hostinfoStr nl) '[']
    cases hd : (hostinfoStr nl).dropWhile (· ≠ '[') with
    | nil =>
      exact absurd hd (dropWhile_ne_nil_of_mem _ _ '[' hmem (by simp))
    | cons x br =>
      simp only [List.drop_succ_cons, List.drop_zero]
      rw [splitFirst_eq br ']']
  -- the netloc's first `[` is the host part's
  have hdw : nl.dropWhile (· ≠ '[') = (hostinfoStr nl).dropWhile (· ≠ '[') := by
    obtain ⟨h1, _⟩ := userinfoBrackets_false hui
    rcases netloc_decomp nl with ⟨e, _⟩ | ⟨ui, hu, e⟩
    · rw [← e]
    · rw [hu] at h1
      simp only [Option.getD_some] at h1
      have e' : nl = (ui ++ ['@']) ++ hostinfoStr nl := e.trans (by simp)
      conv => lhs; rw [e']
      apply dropWhile_prefix_stop
      intro c hc
      simp only [List.mem_append, List.mem_singleton] at hc
      rcases hc with hc | rfl
      · simp only [ne_eq, decide_eq_true_eq]; rintro rfl; exact h1 hc
      · decide
  have hL : nl.contains '[' = true := contains_true_of_mem (hostinfoStr_subset nl hmem)
  unfold netlocOk at hok
  simp only [hL] at hok
  by_cases hR : nl.contains ']' = true
  · simp only [hR, bne_self_eq_false, Bool.false_eq_true, if_false, if_true] at hok
    rw [hdw, ← hhost] at hok
    refine ⟨hok, ?_⟩
    rw [hhost]
    intro hm
    have := mem_takeWhile_s20 _ _ _ hm
    simp at this
  · have hR' : nl.contains ']' = false := by simpa using hR
    rw [hR'] at hok
    simp at hok

theorem bracketedHostOk_nil : bracketedHostOk [] = false := by decide

/-- the parsed host holds no closing bracket -/
theorem hostname_no_close {nl : Str} (hok : netlocOk nl = true) (hui : userinfoBrackets nl = false)
    (h : Str) (hh : hostname nl = some h) : ']' ∉ h := by
  have hraw : ']' ∉ (hostPortStr (hostinfoStr nl)).1 := by
    by_cases hB : bracketedHost nl = true
    · exact (bracket_text hok hui hB).2
    · have := (no_bracket_of_unbracketed hok hui (by simpa using hB)).2
      exact fun hm => this (hostinfoStr_subset nl (hostPortStr_fst_subset _ hm))
  unfold hostname hostinfo at hh
  simp only at hh
  split at hh
  · cases hh
  · simp only [Option.some.injEq] at hh
    rw [← hh]
    exact (lowerOf_lowerHost _ _ (fun x hx => hx)).not_mem hraw (by decide)

/-- a host that opens no bracket holds no colon (the port was cut off at the first one) -/
theorem hostname_no_colon (nl : Str) (hb : bracketedHost nl = false) (h : Str)
    (hh : hostname nl = some h) : ':' ∉ h := by
  unfold hostname hostinfo at hh
  simp only at hh
  split at hh
  · cases hh
  · simp only [Option.some.injEq] at hh
    have hnb : '[' ∉ hostinfoStr nl := by
      intro hm
      unfold bracketedHost at hb
      rw [contains_true_of_mem hm] at hb; cases hb
    have hps : (hostPortStr (hostinfoStr nl)).1 = (splitFirst (hostinfoStr nl) ':').1 := by
      unfold hostPortStr
      rw [splitFirst_notMem_s20 _ _ hnb]
    have hc : ':' ∉ (hostPortStr (hostinfoStr nl)).1 := by
      rw [hps]; exact (splitFirst_spec_s20 _ ':').1
    rw [← hh]
    exact (lowerOf_lowerHost _ _ (fun x hx => hx)).not_mem hc (by decide)

/-- the host of a bracketed, accepted netloc: the lower-cased text the bracket check read -/
theorem hostname_bracketed {nl : Str} (hok : netlocOk nl = true) (hui : userinfoBrackets nl = false)
    (hB : bracketedHost nl = true) :
    hostname nl = some (lowerHost (hostPortStr (hostinfoStr nl)).1) ∧
      bracketedHostOk (hostPortStr (hostinfoStr nl)).1 = true := by
  obtain ⟨h1, _⟩ := bracket_text hok hui hB
  refine ⟨?_, h1⟩
  unfold hostname hostinfo
  simp only
  split
  · rename_i he
    rw [he] at h1; rw [bracketedHostOk_nil] at h1; cases h1
  · rfl

/-- a netloc without any bracket: nothing to reject, nothing to keep -/
theorem no_bracket_facts {nl : Str} (hb : '[' ∉ nl ∧ ']' ∉ nl) :
    userinfoBrackets nl = false ∧ bracketedHost nl = false := by
  have hsl := splitLast_spec nl '@'
  constructor
  · unfold userinfoBrackets
    cases hui : (splitLast nl '@').1 with
    | none => simp
    | some ui =>
      have hsub : ui ⊆ nl := by intro x hx; rw [hsl.1 ui hui]; simp [hx]
      simp only [Option.getD_some, Bool.or_eq_false_iff]
      exact ⟨contains_false_of_not_mem (fun hm => hb.1 (hsub hm)),
        contains_false_of_not_mem (fun hm => hb.2 (hsub hm))⟩
  · unfold bracketedHost
    exact contains_false_of_not_mem (fun hm => hb.1 (hostinfoStr_subset nl hm))

/-! ## re-parsing the printed result -/

/-- what the parser reads from the printed result, in terms of the printed netloc and the
components `canonComps` computed: a falsy user / password / host reads back as absent (a
password without user gives the empty user) -/
def reparsed (nl : Str) (c : Comps) : Parsed :=
  { scheme := c.scheme, netloc := nl, path := c.path,
    query := c.query, fragment := c.fragment.getD [],
    username := if strOf c.pass ≠ [] ∨ strOf c.user ≠ [] then some (strOf c.user) else none,
    password := if strOf c.pass ≠ [] then some (strOf c.pass) else none,
    hostname := if strOf c.host = [] then none else some (strOf c.host),
    port := c.port }

/-- the parse of what `canonicalize_url` prints for the parse `p` -/
def reparsedOf (puny : Str → Str) (quoted sf : Bool) (p : Parsed) : Parsed :=
  reparsed (canonParts puny quoted sf p).netloc (canonComps puny quoted sf p)

/-- what the proofs need to know about the canonical host `H` and the flag `b` ("printed
between brackets") -/
structure HostFacts (b : Bool) (H : Str) : Prop where
  noAt : '@' ∉ H
  closed : ']' ∉ H
  bare : b = false → '[' ∉ H ∧ ':' ∉ H
  ok : b = true → bracketedHostOk H = true

theorem startsWith_append_left (a b c : Str) : startsWith (a ++ b) (a ++ c) = startsWith b c := by
  induction a with
  | nil => rfl
  | cons x a ih => simp only [List.cons_append, startsWith_cons_cons, ih]; simp

/-- **what `canonicalize_url` prints**: `scheme://netloc path ?query #fragment`, whatever
`uses_netloc` says about the scheme (the `//` of an empty authority is put back) -/
theorem printSplit_normal (s : Split) (hs : s.scheme ≠ [])
    (hpa : s.path = [] ∨ ∃ q, s.path = '/' :: q) (hp2 : startsWith s.path ['/', '/'] = false) :
    printSplit s = s.scheme ++ ':' :: '/' :: '/' :: (s.netloc ++ (s.path ++
      (queryPart s.query ++ fragPart (s.fragment.getD [])))) := by
  unfold printSplit
  simp only
  rw [urlunsplit_eq_urlunsplit20, urlunsplit20_eq]
  have hsp : schemePart s.scheme = s.scheme ++ [':'] := by simp [schemePart, hs]
  rw [hsp]
  by_cases hc : (decide (s.netloc ≠ []) || (decide (s.scheme ≠ []) && inTable usesNetloc20 s.scheme &&
      !startsWith s.path ['/', '/'])) = true
  · rw [bodyOf_true _ _ _ hc hpa]
    have e1 : s.scheme ++ [':'] ++ ('/' :: '/' :: (s.netloc ++ s.path) ++
        (queryPart s.query ++ fragPart (s.fragment.getD []))) =
        s.scheme ++ (':' :: '/' :: '/' :: (s.netloc ++ (s.path ++
          (queryPart s.query ++ fragPart (s.fragment.getD []))))) := by simp
    rw [e1]
    have hsw : startsWith (s.scheme ++ (':' :: '/' :: '/' :: (s.netloc ++ (s.path ++
        (queryPart s.query ++ fragPart (s.fragment.getD [])))))) (s.scheme ++ [':', '/', '/']) = true := by
      rw [startsWith_append_left]
      simp [startsWith_cons_cons, startsWith_nil]
    rw [if_neg (fun hh => hh.2.2 hsw)]
  · rw [bodyOf_false _ _ _ hc]
    have hn : s.netloc = [] := by
      simp only [Bool.or_eq_true, decide_eq_true_eq, not_or] at hc
      exact Classical.not_not.1 hc.1
    have hsw : startsWith (s.scheme ++ [':'] ++ (s.path ++
        (queryPart s.query ++ fragPart (s.fragment.getD [])))) (s.scheme ++ [':', '/', '/']) = false := by
      have e1 : s.scheme ++ [':'] ++ (s.path ++ (queryPart s.query ++ fragPart (s.fragment.getD []))) =
          s.scheme ++ (':' :: (s.path ++ (queryPart s.query ++ fragPart (s.fragment.getD [])))) := by simp
      rw [e1, startsWith_append_left, startsWith_cons_cons]
      have := startsWith2_append s.path (queryPart s.query ++ fragPart (s.fragment.getD [])) hp2
        (fun c hc' => by
          rcases tail_head _ _ c hc' with rfl | rfl <;> decide)
      simp [this]
    have hcond : ¬ s.scheme.isEmpty = true ∧ s.netloc.isEmpty = true ∧
        ¬ startsWith (s.scheme ++ [':'] ++ (s.path ++
          (queryPart s.query ++ fragPart (s.fragment.getD [])))) (s.scheme ++ [':', '/', '/']) = true :=
      ⟨by simpa using hs, by simp [hn], by rw [hsw]; simp⟩
    rw [if_pos hcond, hn]
    have e2 : (s.scheme ++ [':'] ++ (s.path ++ (queryPart s.query ++ fragPart (s.fragment.getD [])))).drop
        (s.scheme.length + 1) = s.path ++ (queryPart s.query ++ fragPart (s.fragment.getD [])) := by
      have : (s.scheme ++ [':']).length = s.scheme.length + 1 := by simp
      rw [← this, List.drop_left]
    rw [e2]
    simp

/-- with a non-empty netloc the patched serialisation is plain `urlunsplit` -/
theorem printSplit_of_netloc (s : Split) (hn : s.netloc ≠ []) : printSplit s = urlunsplit s := by
  unfold printSplit
  simp only
  rw [if_neg]
  intro hh
  exact hn (by simpa using hh.2.1)

section
variable {puny : Str → Str} (hpc : PunyClean puny) (quoted sf : Bool) {S rest : Str} {p : Parsed}
  (h : FromParse S rest p)
include hpc h

theorem host_lower_fixed :
    lower (strOf (canonComps puny quoted sf p).host) = strOf (canonComps puny quoted sf p).host := by
  have he : (canonComps puny quoted sf p).host = (match p.hostname with
      | some h => if h.isEmpty then some h else some (canonHost puny h)
      | none => none) := by
    simp only [canonComps]
    cases p.hostname <;> rfl
  rw [he]
  cases p.hostname with
  | none => simp [strOf_none, Py.lower]
  | some u =>
    by_cases hu : u.isEmpty = true
    · have : u = [] := by simpa using hu
      subst this; simp [strOf_some, Py.lower]
    · simp only [hu, Bool.false_eq_true, if_false, strOf_some]
      unfold canonHost; exact lower_idem _

/-- the new userinfo holds no bracket when the old one holds none -/
theorem new_comps_no_bracket (hui : userinfoBrackets p.netloc = false) :
    ('[' ∉ strOf (canonComps puny quoted sf p).user ∧ ']' ∉ strOf (canonComps puny quoted sf p).user) ∧
    ('[' ∉ strOf (canonComps puny quoted sf p).pass ∧ ']' ∉ strOf (canonComps puny quoted sf p).pass) := by
  obtain ⟨g1, g2⟩ := userinfoBrackets_false hui
  have hf := netlocFacts p.netloc
  refine ⟨⟨?_, ?_⟩, ⟨?_, ?_⟩⟩
  · intro hm
    obtain ⟨u, _, _, hu, hcu⟩ := user_mem hpc quoted sf h hm
    have hs := hf.user_ui u (by rw [← h.user]; exact hu)
    exact requote_auth_not_mem (by simp) quoted u (fun hh => g1 (hs hh)) hcu
  · intro hm
    obtain ⟨u, _, _, hu, hcu⟩ := user_mem hpc quoted sf h hm
    have hs := hf.user_ui u (by rw [← h.user]; exact hu)
    exact requote_auth_not_mem (by simp) quoted u (fun hh => g2 (hs hh)) hcu
  · intro hm
    obtain ⟨u, _, hu, hcu⟩ := pass_mem hpc quoted sf h hm
    have hs := hf.pass_ui u (by rw [← h.pass]; exact hu)
    exact requote_auth_not_mem (by simp) quoted u (fun hh => g1 (hs hh)) hcu
  · intro hm
    obtain ⟨u, _, hu, hcu⟩ := pass_mem hpc quoted sf h hm
    have hs := hf.pass_ui u (by rw [← h.pass]; exact hu)
    exact requote_auth_not_mem (by simp) quoted u (fun hh => g2 (hs hh)) hcu

theorem user_no_colon : ':' ∉ strOf (canonComps puny quoted sf p).user := by
  intro hm
  obtain ⟨u, _, hcol, _, hcu⟩ := user_mem hpc quoted sf h hm
  exact requote_auth_not_mem (by simp) quoted u hcol hcu

theorem port_le : ∀ n ∈ (canonComps puny quoted sf p).port, n ≤ 65535 := by
  intro n hn
  have hle := (netlocFacts p.netloc).port_le
  simp only [canonComps] at hn
  cases hpp : p.port with
  | none => rw [hpp] at hn; simp at hn
  | some m =>
    rw [hpp] at hn
    simp only at hn
    split at hn
    · simp at hn
    · simp only [Option.mem_def, Option.some.injEq] at hn
      subst hn
      exact hle m (by rw [h.port, hpp])

/-- the facts about the canonical host, given that the bracket check still passes on it when
it is an ip literal (`hbr`, discharged by `bracketedHostOk_canon` below) -/
theorem hostFacts (hui : userinfoBrackets p.netloc = false)
    (hbr : bracketedHost p.netloc = true →
      bracketedHostOk (strOf (canonComps puny quoted sf p).host) = true) :
    HostFacts (bflag puny quoted sf p) (strOf (canonComps puny quoted sf p).host) := by
  refine ⟨?_, ?_, ?_, ?_⟩
  · intro hm
    obtain ⟨h0, _, hat, _, hch⟩ := host_mem hpc quoted sf h hm
    exact hat (canonHost_bad puny hpc h0 (by decide) hch)
  · intro hm
    obtain ⟨h0, _, _, hh, hch⟩ := host_mem hpc quoted sf h hm
    exact hostname_no_close h.split.ok hui h0 (by rw [← h.host]; exact hh)
      (canonHost_bad puny hpc h0 (by decide) hch)
  · intro hb
    unfold bflag at hb
    rw [Bool.and_eq_false_iff] at hb
    rcases hb with hb | hb
    · have : strOf (canonComps puny quoted sf p).host = [] := by simpa using hb
      rw [this]; simp
    · obtain ⟨n1, _⟩ := no_bracket_of_unbracketed h.split.ok hui hb
      constructor
      · intro hm
        obtain ⟨h0, hl, _, _, hch⟩ := host_mem hpc quoted sf h hm
        exact hl.not_mem n1 (by decide) (canonHost_bad puny hpc h0 (by decide) hch)
      · intro hm
        obtain ⟨h0, _, _, hh, hch⟩ := host_mem hpc quoted sf h hm
        exact hostname_no_colon p.netloc hb h0 (by rw [← h.host]; exact hh)
          (canonHost_bad puny hpc h0 (by decide) hch)
  · intro hb
    unfold bflag at hb
    rw [Bool.and_eq_true] at hb
    exact hbr hb.2

theorem netlocOk_new (hui : userinfoBrackets p.netloc = false)
    (hbr : bracketedHost p.netloc = true →
      bracketedHostOk (strOf (canonComps puny quoted sf p).host) = true) :
    netlocOk (canonParts puny quoted sf p).netloc = true := by
  have hf := hostFacts hpc quoted sf h hui hbr
  obtain ⟨hu, hpw⟩ := new_comps_no_bracket hpc quoted sf h hui
  rw [canonParts_netloc_eq]
  exact netlocOk_printed _ _ _ _ _ hu hpw (fun hb => ⟨hf.closed, hf.ok hb⟩)
    (fun hb => ⟨(hf.bare hb).1, hf.closed, (hf.bare hb).2⟩)

/-- the printed result, spelled out -/
theorem printed_eq :
    printSplit (canonParts puny quoted sf p) =
      lower S ++ ':' :: '/' :: '/' :: ((canonParts puny quoted sf p).netloc ++
        ((canonParts puny quoted sf p).path ++
          (queryPart (canonParts puny quoted sf p).query ++
            fragPart ((canonParts puny quoted sf p).fragment.getD [])))) := by
  have hscheme : (canonParts puny quoted sf p).scheme = lower S := h.split.scheme
  have hsne : lower S ≠ [] := by
    obtain ⟨⟨c, r, e, _⟩, _⟩ := h.shaped; rw [e]; simp [Py.lower]
  have hshape := finishPath_shape quoted p.path (hasMore puny sf p) h.split.path_abs
  have hpath : (canonParts puny quoted sf p).path =
      finishPath quoted (canonPath p.path (hasMore puny sf p)) := canonComps_path_eq hpc quoted sf h
  rw [printSplit_normal _ (by rw [hscheme]; exact hsne) (by rw [hpath]; exact hshape.1)
    (by rw [hpath]; exact hshape.2), hscheme]

/-- **re-parsing the printed result gives the computed components back** -/
theorem parseUrl_printed (hui : userinfoBrackets p.netloc = false)
    (hbr : bracketedHost p.netloc = true →
      bracketedHostOk (strOf (canonComps puny quoted sf p).host) = true) :
    parseUrl (printSplit (canonParts puny quoted sf p)) = some (reparsedOf puny quoted sf p) := by
  have hok := netlocOk_new hpc quoted sf h hui hbr
  have hwf := canonParts_wf hpc quoted sf h hok
  have hf := hostFacts hpc quoted sf h hui hbr
  have hscheme : (canonParts puny quoted sf p).scheme = lower S := h.split.scheme
  have hshape := finishPath_shape quoted p.path (hasMore puny sf p) h.split.path_abs
  have hpath : (canonParts puny quoted sf p).path =
      finishPath quoted (canonPath p.path (hasMore puny sf p)) := canonComps_path_eq hpc quoted sf h
  obtain ⟨a1, a2, a3, a4, _⟩ := accessors_printed (strOf (canonComps puny quoted sf p).user)
    (strOf (canonComps puny quoted sf p).pass) (strOf (canonComps puny quoted sf p).host)
    (bflag puny quoted sf p) (canonComps puny quoted sf p).port
    (user_no_colon hpc quoted sf h) hf.noAt (fun _ => hf.closed)
    (fun hb => ⟨(hf.bare hb).1, hf.closed⟩) (port_le hpc quoted sf h)
  rw [printed_eq hpc quoted sf h]
  unfold parseUrl
  rw [urlsplit_normal (lower S) _ _ _ _ (schemeShaped_lower h.shaped) (lower_idem S)
    hwf.netloc_nodelim hok hwf.path_noq hwf.path_noh hwf.query_noh
    (by rw [hpath]; exact hshape.1) (by rw [← hscheme]; exact hwf.clean)]
  simp only
  rw [canonParts_netloc_eq, a4]
  simp only [parsedOf, reparsedOf, reparsed, a1, a2, a3, canonParts_netloc_eq,
    lowerHost_of_lower_fixed _ (host_lower_fixed hpc quoted sf h), ← hscheme]
  rfl

/-- the userinfo of the printed netloc holds no bracket: the second call accepts it -/
theorem userinfoBrackets_printed (hui : userinfoBrackets p.netloc = false)
    (hbr : bracketedHost p.netloc = true →
      bracketedHostOk (strOf (canonComps puny quoted sf p).host) = true) :
    userinfoBrackets (canonParts puny quoted sf p).netloc = false := by
  have hf := hostFacts hpc quoted sf h hui hbr
  obtain ⟨⟨u1, u2⟩, ⟨p1, p2⟩⟩ := new_comps_no_bracket hpc quoted sf h hui
  rw [canonParts_netloc_eq]
  unfold userinfoBrackets
  rw [splitLast_auth _ _ _ (at_not_mem_restB _ _ _ hf.noAt)]
  split
  · simp only [Option.getD_some, Bool.or_eq_false_iff]
    constructor <;> apply contains_false_of_not_mem <;> intro hm <;>
      simp only [List.mem_append, List.mem_cons] at hm
    · rcases hm with hm | hm | hm
      · exact u1 hm
      · cases hm
      · exact p1 hm
    · rcases hm with hm | hm | hm
      · exact u2 hm
      · cases hm
      · exact p2 hm
  · split
    · simp only [Option.getD_some, Bool.or_eq_false_iff]
      exact ⟨contains_false_of_not_mem u1, contains_false_of_not_mem u2⟩
    · simp

/-- the host part of the printed netloc opens a bracket exactly when the host is printed
between brackets -/
theorem bracketedHost_printed (hui : userinfoBrackets p.netloc = false)
    (hbr : bracketedHost p.netloc = true →
      bracketedHostOk (strOf (canonComps puny quoted sf p).host) = true) :
    bracketedHost (canonParts puny quoted sf p).netloc = bflag puny quoted sf p := by
  have hf := hostFacts hpc quoted sf h hui hbr
  obtain ⟨_, _, _, _, a5⟩ := accessors_printed (strOf (canonComps puny quoted sf p).user)
    (strOf (canonComps puny quoted sf p).pass) (strOf (canonComps puny quoted sf p).host)
    (bflag puny quoted sf p) (canonComps puny quoted sf p).port
    (user_no_colon hpc quoted sf h) hf.noAt (fun _ => hf.closed)
    (fun hb => ⟨(hf.bare hb).1, hf.closed⟩) (port_le hpc quoted sf h)
  unfold bracketedHost
  rw [canonParts_netloc_eq, a5]
  cases hb : bflag puny quoted sf p with
  | true => exact contains_true_of_mem (by simp [hostPartB])
  | false =>
    apply contains_false_of_not_mem
    intro hm
    rcases List.mem_append.1 hm with h1 | h1
    · have hp : hostPartB false (strOf (canonComps puny quoted sf p).host) =
          strOf (canonComps puny quoted sf p).host := by
        simp only [hostPartB, Bool.false_eq_true, if_false]
        unfold hostPart; simp [(hf.bare hb).2]
      rw [hp] at h1
      exact (hf.bare hb).1 h1
    · rcases mem_portPart h1 with h2 | h2
      · cases h2
      · revert h2; decide

end

end Ural.CanonRoundTrip
