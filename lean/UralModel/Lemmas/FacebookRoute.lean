import UralModel.Lemmas.FacebookQuery
/-!
Routing of the canonical urls (C19 round trip of `ural/facebook.py`): what `parseSplit` does on
a path assembled from good segments (no query) and on the four fixed paths that carry a query.
-/
namespace Ural.Facebook
open Ural.Py Ural

/-! ## the route vocabulary as explicit characters

`simp` must never see `String.toList` of a literal (its `whnf` runs the UTF-8 decoder): every
`lit "…"` of the model is first rewritten (`rw`, by lemmas proved by kernel evaluation) into
an explicit list of characters. -/

def watchL : Str := ['w', 'a', 't', 'c', 'h']
def videosL : Str := ['v', 'i', 'd', 'e', 'o', 's']
def photosL : Str := ['p', 'h', 'o', 't', 'o', 's']
def photoL : Str := ['p', 'h', 'o', 't', 'o']
def photoPhpL : Str := ['p', 'h', 'o', 't', 'o', '.', 'p', 'h', 'p']
def postsL : Str := ['p', 'o', 's', 't', 's']
def permalinkL : Str := ['p', 'e', 'r', 'm', 'a', 'l', 'i', 'n', 'k']
def permalinkPhpL : Str := ['p', 'e', 'r', 'm', 'a', 'l', 'i', 'n', 'k', '.', 'p', 'h', 'p']
def storyPhpL : Str := ['s', 't', 'o', 'r', 'y', '.', 'p', 'h', 'p']
def peopleL : Str := ['p', 'e', 'o', 'p', 'l', 'e']
def profilePhpL : Str := ['p', 'r', 'o', 'f', 'i', 'l', 'e', '.', 'p', 'h', 'p']
def dotPhpL : Str := ['.', 'p', 'h', 'p']

theorem lit_watch : lit "/watch" = '/' :: watchL := by decide
theorem lit_videos : lit "/videos/" = '/' :: (videosL ++ ['/']) := by decide
theorem lit_photo_php : lit "/photo.php" = '/' :: photoPhpL := by decide
theorem lit_photo : lit "/photo" = '/' :: photoL := by decide
theorem lit_photos : lit "/photos/" = '/' :: (photosL ++ ['/']) := by decide
theorem lit_posts : lit "/posts/" = '/' :: (postsL ++ ['/']) := by decide
theorem lit_permalink_php : lit "/permalink.php" = '/' :: permalinkPhpL := by decide
theorem lit_story_php : lit "/story.php" = '/' :: storyPhpL := by decide
theorem lit_groups : lit "/groups/" = '/' :: (groupsL ++ ['/']) := by decide
theorem lit_permalink : lit "/permalink/" = '/' :: (permalinkL ++ ['/']) := by decide
theorem lit_people : lit "/people" = '/' :: peopleL := by decide
theorem lit_profile : lit "/profile.php" = '/' :: profilePhpL := by decide
theorem lit_groups_word : lit "groups" = groupsL := by decide
theorem lit_dotphp : lit ".php" = dotPhpL := by decide

/-- `parseSplit` without string literals -/
theorem parseSplit_eq (sp : SplitResult) :
    parseSplit sp =
      if sp.path.isEmpty || sp.path = ['/'] then .ok none
      else if hasInfix sp.path ('/' :: watchL) then routeWatch sp.query
      else if hasInfix sp.path ('/' :: (videosL ++ ['/'])) then routeVideos sp.path
      else if !sp.query.isEmpty &&
          (endsWith sp.path ('/' :: photoPhpL) || endsWith (rstripChars sp.path ['/']) ('/' :: photoL)) then
        routePhotoQuery sp.query
      else if hasInfix sp.path ('/' :: (photosL ++ ['/'])) then routePhotos sp.path
      else if hasInfix sp.path ('/' :: (postsL ++ ['/'])) then routePosts sp.path
      else if !sp.query.isEmpty &&
          (hasInfix sp.path ('/' :: permalinkPhpL) || hasInfix sp.path ('/' :: storyPhpL)) then
        routePermalink sp.query
      else if hasInfix sp.path ('/' :: (groupsL ++ ['/'])) then routeGroups sp.path
      else if sp.path = '/' :: profilePhpL then routeProfile sp.query
      else if startsWith sp.path ('/' :: peopleL) then routePeople sp.path
      else routeHandle sp.path := by
  unfold parseSplit
  rw [lit_watch, lit_videos, lit_photo_php, lit_photo, lit_photos, lit_posts, lit_permalink_php, lit_story_php,
    lit_groups, lit_profile, lit_people]
  simp only [contains_eq_hasInfix]

/-! ## a path made of good segments, no query -/

theorem slashed_ne_single (a b : Str) (rest : List Str) (w : Str) (hw : '/' ∉ w) :
    slashed (a :: b :: rest) ≠ '/' :: w := by
  intro e
  simp only [slashed, List.cons.injEq, true_and] at e
  exact hw (by rw [← e]; simp)

theorem startsWith_slashed (s : Str) (ss : List Str) (w : Str) (hw : '/' ∉ w) :
    startsWith (slashed (s :: ss)) ('/' :: w) = w.isPrefixOf s := by
  simp only [startsWith, slashed, List.isPrefixOf, beq_self_eq_true, Bool.true_and]
  rcases slashed_head ss with e | ⟨t, e⟩
  · rw [e, List.append_nil]
  · rw [e, isPrefixOf_append_sep w s t '/' hw]

/-- the routing of a query-less url whose path is made of good segments -/
theorem parseSplit_slashed (sc nl fr : Str) (s : Str) (ss : List Str)
    (hok : ∀ x ∈ s :: ss, segOk x = true) :
    parseSplit ⟨sc, nl, slashed (s :: ss), [], fr⟩ =
      if (s :: ss).any (fun x => watchL.isPrefixOf x) then routeWatch []
      else if (s :: ss).dropLast.any (fun x => decide (x = videosL)) then routeVideos (slashed (s :: ss))
      else if (s :: ss).dropLast.any (fun x => decide (x = photosL)) then routePhotos (slashed (s :: ss))
      else if (s :: ss).dropLast.any (fun x => decide (x = postsL)) then routePosts (slashed (s :: ss))
      else if (s :: ss).dropLast.any (fun x => decide (x = groupsL)) then routeGroups (slashed (s :: ss))
      else if slashed (s :: ss) = '/' :: profilePhpL then routeProfile []
      else if peopleL.isPrefixOf s then routePeople (slashed (s :: ss))
      else routeHandle (slashed (s :: ss)) := by
  have hsl : ∀ x ∈ s :: ss, '/' ∉ x := fun x hx => segOk_not_mem_slash (hok x hx)
  rw [parseSplit_eq]
  simp only []
  rw [hasInfix_slashed_prefix _ watchL (by decide) hsl, hasInfix_slashed_exact _ videosL (by decide) hsl,
    hasInfix_slashed_exact _ photosL (by decide) hsl, hasInfix_slashed_exact _ postsL (by decide) hsl,
    hasInfix_slashed_exact _ groupsL (by decide) hsl, startsWith_slashed s ss peopleL (by decide)]
  have h1 : (slashed (s :: ss)).isEmpty = false := rfl
  have h2 : slashed (s :: ss) ≠ ['/'] := by
    intro e
    simp only [slashed, List.cons.injEq, true_and, List.append_eq_nil_iff] at e
    exact (segOk_spec (hok s (by simp))).1 e.1
  simp only [h1, h2, decide_false, Bool.or_self, Bool.false_eq_true, if_false, List.isEmpty_nil,
    Bool.not_true, Bool.false_and]

/-- `pathsplit` of such a path -/
theorem pathsplit_slashed' (s : Str) (ss : List Str) (hok : ∀ x ∈ s :: ss, segOk x = true) :
    pathsplit (slashed (s :: ss)) = s :: ss :=
  pathsplit_slashed (s :: ss) (by simp) hok

/-! ## the four fixed paths that carry a query -/

theorem parseSplit_watch (sc nl fr q : Str) :
    parseSplit ⟨sc, nl, '/' :: (watchL ++ ['/']), q, fr⟩ = routeWatch q := by
  rw [parseSplit_eq]
  have h1 : (('/' :: (watchL ++ ['/'])).isEmpty || decide ('/' :: (watchL ++ ['/']) = ['/'])) = false := by
    decide
  have h3 : hasInfix ('/' :: (watchL ++ ['/'])) ('/' :: watchL) = true := by decide
  simp only [h1, h3, Bool.false_eq_true, if_false, if_true]

theorem parseSplit_photo_php (sc nl fr q : Str) (hq : q ≠ []) :
    parseSplit ⟨sc, nl, '/' :: photoPhpL, q, fr⟩ = routePhotoQuery q := by
  rw [parseSplit_eq]
  have h1 : (('/' :: photoPhpL).isEmpty || decide ('/' :: photoPhpL = ['/'])) = false := by decide
  have h3 : hasInfix ('/' :: photoPhpL) ('/' :: watchL) = false := by decide
  have h4 : hasInfix ('/' :: photoPhpL) ('/' :: (videosL ++ ['/'])) = false := by decide
  have h5 : endsWith ('/' :: photoPhpL) ('/' :: photoPhpL) = true := by decide
  have hq' : q.isEmpty = false := by cases q with | nil => exact absurd rfl hq | cons c cs => rfl
  simp only [h1, h3, h4, h5, hq', Bool.false_eq_true, if_false, Bool.not_false, Bool.true_or, Bool.and_self,
    if_true]

theorem parseSplit_permalink_php (sc nl fr q : Str) (hq : q ≠ []) :
    parseSplit ⟨sc, nl, '/' :: permalinkPhpL, q, fr⟩ = routePermalink q := by
  rw [parseSplit_eq]
  have h1 : (('/' :: permalinkPhpL).isEmpty || decide ('/' :: permalinkPhpL = ['/'])) = false := by decide
  have h3 : hasInfix ('/' :: permalinkPhpL) ('/' :: watchL) = false := by decide
  have h4 : hasInfix ('/' :: permalinkPhpL) ('/' :: (videosL ++ ['/'])) = false := by decide
  have h5 : endsWith ('/' :: permalinkPhpL) ('/' :: photoPhpL) = false := by decide
  have h6 : endsWith (rstripChars ('/' :: permalinkPhpL) ['/']) ('/' :: photoL) = false := by decide
  have h7 : hasInfix ('/' :: permalinkPhpL) ('/' :: (photosL ++ ['/'])) = false := by decide
  have h8 : hasInfix ('/' :: permalinkPhpL) ('/' :: (postsL ++ ['/'])) = false := by decide
  have h9 : hasInfix ('/' :: permalinkPhpL) ('/' :: permalinkPhpL) = true := by decide
  have hq' : q.isEmpty = false := by cases q with | nil => exact absurd rfl hq | cons c cs => rfl
  simp only [h1, h3, h4, h5, h6, h7, h8, h9, hq', Bool.or_self, Bool.false_eq_true, if_false,
    Bool.not_false, Bool.true_or, Bool.and_self, if_true, Bool.and_false]

theorem parseSplit_profile_php (sc nl fr q : Str) :
    parseSplit ⟨sc, nl, '/' :: profilePhpL, q, fr⟩ = routeProfile q := by
  rw [parseSplit_eq]
  have h1 : (('/' :: profilePhpL).isEmpty || decide ('/' :: profilePhpL = ['/'])) = false := by decide
  have h3 : hasInfix ('/' :: profilePhpL) ('/' :: watchL) = false := by decide
  have h4 : hasInfix ('/' :: profilePhpL) ('/' :: (videosL ++ ['/'])) = false := by decide
  have h5 : endsWith ('/' :: profilePhpL) ('/' :: photoPhpL) = false := by decide
  have h6 : endsWith (rstripChars ('/' :: profilePhpL) ['/']) ('/' :: photoL) = false := by decide
  have h7 : hasInfix ('/' :: profilePhpL) ('/' :: (photosL ++ ['/'])) = false := by decide
  have h8 : hasInfix ('/' :: profilePhpL) ('/' :: (postsL ++ ['/'])) = false := by decide
  have h9 : hasInfix ('/' :: profilePhpL) ('/' :: permalinkPhpL) = false := by decide
  have h10 : hasInfix ('/' :: profilePhpL) ('/' :: storyPhpL) = false := by decide
  have h11 : hasInfix ('/' :: profilePhpL) ('/' :: (groupsL ++ ['/'])) = false := by decide
  simp only [h1, h3, h4, h5, h6, h7, h8, h9, h10, h11, Bool.or_self, Bool.false_eq_true,
    if_false, Bool.and_false, if_true]

end Ural.Facebook
