import UralModel.Lemmas.Re
import UralModel.Lemmas.StrSplit
/-!
# Further generic lemmas on the regex framework (used by C17: `canonicalize_url` preserves
# `is_url`)

* inversion / introduction `iff`s for every constructor (`match_cls_iff`, `match_seq_iff`, …);
* repetitions as iteration (`Iter`, `match_rep_iff`) and repetitions of one class
  (`match_rep_cls_iff`);
* `Match.map`: a character map under which every class of an anchor-free pattern is closed
  maps matches to matches (used with ASCII lower-casing);
* projections used to *read off* sub-patterns and classes from a generated term.
-/
namespace Ural.Py.Re
open Ural.Py

theorem match_eps_iff {n s t} : Match n .eps s t ↔ s = t := by
  constructor
  · intro h; cases h; rfl
  · rintro rfl; exact Match.eps _

theorem match_cls_iff {n C s t} : Match n (.cls C) s t ↔ ∃ c, s = c :: t ∧ C.mem c = true := by
  constructor
  · intro h; cases h with | cls _ c _ hc => exact ⟨c, rfl, hc⟩
  · rintro ⟨c, rfl, hc⟩; exact Match.cls C c t hc

theorem match_seq_iff {n p q s u} :
    Match n (.seq p q) s u ↔ ∃ t, Match n p s t ∧ Match n q t u := by
  constructor
  · intro h; cases h with | seq h1 h2 => exact ⟨_, h1, h2⟩
  · rintro ⟨t, h1, h2⟩; exact Match.seq h1 h2

theorem match_alt_iff {n p q s t} : Match n (.alt p q) s t ↔ Match n p s t ∨ Match n q s t := by
  constructor
  · intro h
    cases h with
    | altL h => exact Or.inl h
    | altR h => exact Or.inr h
  · rintro (h | h)
    · exact Match.altL h
    · exact Match.altR h

theorem match_bos_iff {n s t} : Match n .bos s t ↔ s = t ∧ s.length = n := by
  constructor
  · intro h; cases h with | bos _ hl => exact ⟨rfl, hl⟩
  · rintro ⟨rfl, hl⟩; exact Match.bos _ hl

theorem match_eos_iff {n s t} :
    Match n .eos s t ↔ (s = [] ∧ t = []) ∨ (s = ['\n'] ∧ t = ['\n']) := by
  constructor
  · intro h
    cases h with
    | eosEnd => exact Or.inl ⟨rfl, rfl⟩
    | eosNl => exact Or.inr ⟨rfl, rfl⟩
  · rintro (⟨rfl, rfl⟩ | ⟨rfl, rfl⟩)
    · exact Match.eosEnd
    · exact Match.eosNl

/-- `k` successive matches of `p` -/
def Iter (n : Nat) (p : Re) : Nat → List Char → List Char → Prop
  | 0, s, t => s = t
  | k + 1, s, t => ∃ m, Match n p s m ∧ Iter n p k m t

theorem decHi_bound {hi : Option Nat} {k : Nat} (h0 : hi ≠ some 0)
    (h : ∀ b, decHi hi = some b → k ≤ b) : ∀ b, hi = some b → k + 1 ≤ b := by
  intro b hb
  subst hb
  have := h (b - 1) (by simp [decHi])
  have hb0 : b ≠ 0 := fun e => h0 (by rw [e])
  omega

theorem match_rep_iter {n p lo hi g s t} (h : Match n (.rep p lo hi g) s t) :
    ∃ k, Iter n p k s t ∧ lo ≤ k ∧ ∀ b, hi = some b → k ≤ b := by
  generalize hr : Re.rep p lo hi g = r at h
  induction h generalizing lo hi with
  | repStop s =>
    cases hr
    exact ⟨0, rfl, Nat.le_refl 0, fun b _ => Nat.zero_le b⟩
  | repStep hhi h1 _ _ ih2 =>
    cases hr
    obtain ⟨k, hk, hlo, hb⟩ := ih2 rfl
    exact ⟨k + 1, ⟨_, h1, hk⟩, by omega, decHi_bound hhi hb⟩
  | eps => cases hr
  | cls => cases hr
  | seq => cases hr
  | altL => cases hr
  | altR => cases hr
  | bos => cases hr
  | eosEnd => cases hr
  | eosNl => cases hr

theorem iter_match_rep {n p g} : ∀ (k : Nat) {lo hi s t}, Iter n p k s t → lo ≤ k →
    (∀ b, hi = some b → k ≤ b) → Match n (.rep p lo hi g) s t
  | 0, lo, hi, s, t, h, hlo, _ => by
    have : lo = 0 := by omega
    subst this
    cases h
    exact Match.repStop s
  | k + 1, lo, hi, s, t, ⟨m, h1, h2⟩, hlo, hb => by
    have hhi : hi ≠ some 0 := by
      intro e
      have := hb 0 e
      omega
    refine Match.repStep hhi h1 (iter_match_rep k h2 (by omega) ?_)
    intro b hb'
    cases hi with
    | none => simp [decHi] at hb'
    | some c =>
      simp only [decHi, Option.map_some, Option.some.injEq] at hb'
      have := hb c rfl
      omega

/-- a repetition is an iteration whose count respects the bounds -/
theorem match_rep_iff {n p lo hi g s t} :
    Match n (.rep p lo hi g) s t ↔ ∃ k, Iter n p k s t ∧ lo ≤ k ∧ ∀ b, hi = some b → k ≤ b :=
  ⟨match_rep_iter, fun ⟨k, h, hlo, hb⟩ => iter_match_rep k h hlo hb⟩

theorem match_opt_iff {n p s t} : Match n (opt p) s t ↔ s = t ∨ Match n p s t := by
  rw [match_rep_iff]
  constructor
  · rintro ⟨k, hk, _, hb⟩
    have hk1 := hb 1 rfl
    match k, hk with
    | 0, hk => exact Or.inl hk
    | 1, ⟨m, h1, h2⟩ => cases h2; exact Or.inr h1
    | k + 2, _ => omega
  · rintro (rfl | h)
    · exact ⟨0, rfl, Nat.le_refl 0, fun b _ => Nat.zero_le b⟩
    · exact ⟨1, ⟨t, h, rfl⟩, by omega, fun b hb => by cases hb; omega⟩

/-- iterating one class reads a word of that class -/
theorem iter_cls_iff {n C} : ∀ {k s t}, Iter n (.cls C) k s t ↔
    ∃ w, s = w ++ t ∧ w.length = k ∧ ∀ c ∈ w, C.mem c = true
  | 0, s, t => by
    constructor
    · rintro rfl; exact ⟨[], rfl, rfl, by simp⟩
    · rintro ⟨w, rfl, hl, _⟩
      have : w = [] := List.eq_nil_of_length_eq_zero hl
      subst this; rfl
  | k + 1, s, t => by
    constructor
    · rintro ⟨m, h1, h2⟩
      obtain ⟨c, rfl, hc⟩ := match_cls_iff.mp h1
      obtain ⟨w, rfl, hl, hw⟩ := iter_cls_iff.mp h2
      refine ⟨c :: w, rfl, by simp [hl], ?_⟩
      intro d hd
      rcases List.mem_cons.mp hd with rfl | hd
      · exact hc
      · exact hw d hd
    · rintro ⟨w, rfl, hl, hw⟩
      match w, hl, hw with
      | c :: w', hl, hw =>
        refine ⟨w' ++ t, match_cls_iff.mpr ⟨c, rfl, hw c (by simp)⟩, iter_cls_iff.mpr ?_⟩
        exact ⟨w', rfl, by simpa using hl, fun d hd => hw d (by simp [hd])⟩

/-- a repetition of one class reads a word of that class whose length respects the bounds -/
theorem match_rep_cls_iff {n C lo hi g s t} :
    Match n (.rep (.cls C) lo hi g) s t ↔
      ∃ w, s = w ++ t ∧ (∀ c ∈ w, C.mem c = true) ∧ lo ≤ w.length ∧
        ∀ b, hi = some b → w.length ≤ b := by
  rw [match_rep_iff]
  constructor
  · rintro ⟨k, hk, hlo, hb⟩
    obtain ⟨w, rfl, hl, hw⟩ := iter_cls_iff.mp hk
    exact ⟨w, rfl, hw, by omega, fun b e => by have := hb b e; omega⟩
  · rintro ⟨w, rfl, hw, hlo, hb⟩
    exact ⟨w.length, iter_cls_iff.mpr ⟨w, rfl, rfl, hw⟩, hlo, hb⟩

/-! ## character maps -/

/-- `C` is closed under ASCII lower-casing (decidable: 26 tests) -/
def _root_.Ural.Py.CharClass.lowerClosed (C : CharClass) : Bool :=
  (List.range 26).all fun i => !(C.neg != CharClass.inRanges C.ranges (65 + i)) ||
    (C.neg != CharClass.inRanges C.ranges (97 + i))

theorem lowerChar_cases (c : Char) :
    (lowerChar c = c) ∨ (65 ≤ c.toNat ∧ c.toNat ≤ 90 ∧ (lowerChar c).toNat = c.toNat + 32) := by
  unfold lowerChar
  have e1 : 'A'.toNat = 65 := rfl
  have e2 : 'Z'.toNat = 90 := rfl
  by_cases h : 'A' ≤ c ∧ c ≤ 'Z'
  · right
    have h' := h
    rw [char_le_iff, char_le_iff, e1, e2] at h'
    refine ⟨h'.1, h'.2, ?_⟩
    rw [if_pos h, toNat_ofNat_small _ (by omega)]
  · left; rw [if_neg h]

theorem lowerClosed_sound {C : CharClass} (h : C.lowerClosed = true) {c : Char}
    (hc : C.mem c = true) : C.mem (lowerChar c) = true := by
  rcases lowerChar_cases c with e | ⟨h1, h2, e⟩
  · rw [e]; exact hc
  · unfold CharClass.mem at hc ⊢
    rw [e]
    unfold CharClass.lowerClosed at h
    rw [List.all_eq_true] at h
    have := h (c.toNat - 65) (by simp; omega)
    have e1 : 65 + (c.toNat - 65) = c.toNat := by omega
    have e2 : 97 + (c.toNat - 65) = c.toNat + 32 := by omega
    rw [e1, e2] at this
    simp only [Bool.or_eq_true, Bool.not_eq_true'] at this
    rcases this with h' | h'
    · rw [h'] at hc; cases hc
    · exact h'

/-- a map `f` under which every class of the anchor-free `r` is closed maps matches of `r` to
matches of `r` -/
theorem Match.map {n r s t} (h : Match n r s t) (f : Char → Char) {P : CharClass → Bool}
    (hP : ∀ C c, P C = true → C.mem c = true → C.mem (f c) = true)
    (hr : allCls P r = true) (ha : anchorFree r = true) :
    ∀ m, Match m r (s.map f) (t.map f) := by
  induction h with
  | eps s => intro m; exact Match.eps _
  | cls C c s hc =>
    intro m
    simp only [List.map_cons]
    exact Match.cls C (f c) _ (hP C c (by simpa [allCls] using hr) hc)
  | seq _ _ ih1 ih2 =>
    simp only [allCls, anchorFree, Bool.and_eq_true] at hr ha
    intro m
    exact Match.seq (ih1 hr.1 ha.1 m) (ih2 hr.2 ha.2 m)
  | altL _ ih =>
    simp only [allCls, anchorFree, Bool.and_eq_true] at hr ha
    intro m; exact Match.altL (ih hr.1 ha.1 m)
  | altR _ ih =>
    simp only [allCls, anchorFree, Bool.and_eq_true] at hr ha
    intro m; exact Match.altR (ih hr.2 ha.2 m)
  | repStop s => intro m; exact Match.repStop _
  | repStep hhi _ _ ih1 ih2 =>
    simp only [allCls, anchorFree] at hr ha
    intro m
    exact Match.repStep hhi (ih1 hr ha m) (ih2 (by simpa [allCls] using hr) (by simpa [anchorFree] using ha) m)
  | bos s _ => simp [anchorFree] at ha
  | eosEnd => simp [anchorFree] at ha
  | eosNl => simp [anchorFree] at ha

theorem lang_map {r : Re} {w : List Char} (h : Lang r w) (f : Char → Char) {P : CharClass → Bool}
    (hP : ∀ C c, P C = true → C.mem c = true → C.mem (f c) = true)
    (hr : allCls P r = true) (ha : anchorFree r = true) : Lang r (w.map f) := by
  have := Match.map h f hP hr ha (w.map f).length
  simpa [Lang] using this

/-- lower-casing a word of a pattern whose classes are closed under lower-casing -/
theorem lang_lower {r : Re} {w : List Char} (h : Lang r w)
    (hr : allCls CharClass.lowerClosed r = true) (ha : anchorFree r = true) :
    Lang r (lower w) :=
  lang_map h lowerChar (fun _ _ hC hc => lowerClosed_sound hC hc) hr ha

/-! ## an anchor-free pattern in context -/

/-- a match of an anchor-free pattern, as a word of its language followed by the rest -/
theorem match_iff_lang {n r s t} (ha : anchorFree r = true) :
    Match n r s t ↔ ∃ w, s = w ++ t ∧ Lang r w := by
  constructor
  · intro h
    exact ⟨consumed s t, h.eq_consumed, h.lang_consumed ha⟩
  · rintro ⟨w, rfl, hw⟩
    exact (lang_iff_match_anywhere ha).mp hw n t

/-! ## projections (to read sub-patterns and classes off a generated term) -/

def altL : Re → Re | .alt a _ => a | _ => .empty
def altR : Re → Re | .alt _ b => b | _ => .empty
def seqL : Re → Re | .seq a _ => a | _ => .empty
def seqR : Re → Re | .seq _ b => b | _ => .empty
def repBody : Re → Re | .rep p _ _ _ => p | _ => .empty
def clsOf : Re → CharClass | .cls C => C | _ => ⟨false, []⟩

/-- every code point of the class is in the list `ns` (non-negated classes) -/
def _root_.Ural.Py.CharClass.within (C : CharClass) (ns : List Nat) : Bool :=
  !C.neg && C.ranges.all fun r => (List.range (r.2 + 1 - r.1)).all fun i => ns.contains (r.1 + i)

theorem within_sound {C : CharClass} {ns : List Nat} (h : C.within ns = true) {c : Char}
    (hc : C.mem c = true) : c.toNat ∈ ns := by
  unfold CharClass.within at h
  simp only [Bool.and_eq_true, Bool.not_eq_true', List.all_eq_true] at h
  obtain ⟨hn, hr⟩ := h
  unfold CharClass.mem at hc
  rw [hn] at hc
  simp only [Bool.false_bne] at hc
  rw [CharClass.inRanges_iff] at hc
  obtain ⟨r, hr1, hlo, hhi⟩ := hc
  have := hr r hr1 (c.toNat - r.1) (by simp; omega)
  have e : r.1 + (c.toNat - r.1) = c.toNat := by omega
  rw [e] at this
  simpa using this

/-- the complement of the class is inside the list `ns` (negated classes): every character
whose code is not in `ns` is in the class -/
def _root_.Ural.Py.CharClass.coWithin (C : CharClass) (ns : List Nat) : Bool :=
  C.neg && C.ranges.all fun r => (List.range (r.2 + 1 - r.1)).all fun i => ns.contains (r.1 + i)

theorem coWithin_sound {C : CharClass} {ns : List Nat} (h : C.coWithin ns = true) {c : Char}
    (hc : c.toNat ∉ ns) : C.mem c = true := by
  unfold CharClass.coWithin at h
  simp only [Bool.and_eq_true, List.all_eq_true] at h
  obtain ⟨hn, hr⟩ := h
  unfold CharClass.mem
  rw [hn]
  simp only [Bool.true_bne, Bool.not_eq_true']
  cases hin : CharClass.inRanges C.ranges c.toNat with
  | false => rfl
  | true =>
    exfalso
    rw [CharClass.inRanges_iff] at hin
    obtain ⟨r, hr1, hlo, hhi⟩ := hin
    have := hr r hr1 (c.toNat - r.1) (by simp; omega)
    have e : r.1 + (c.toNat - r.1) = c.toNat := by omega
    rw [e] at this
    exact hc (by simpa using this)

end Ural.Py.Re
