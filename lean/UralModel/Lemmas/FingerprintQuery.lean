import UralModel.Lemmas.Fingerprint
import UralModel.Lemmas.Str
/-!
# C06 — `gl` / `hl` items, and what of the hostname the query filter looks at

* `shouldStrip_lang`: with the filter `fingerprint_url` passes, an item whose (lower-cased) key is
  `gl` or `hl` is stripped, whatever the host's per-domain filter says (this depends on the
  regenerated tables: the two keys are in no combo table — a table obligation by `decide`);
* `filterQuery_insert_lang`: inserting such an item at any position of the `&`-separated query
  does not change the kept items;
* `normParts_hostname`: the hostname reaches path / query / fragment of `normalize_url`'s tuple
  only through the per-domain query filter.
-/
set_option linter.unusedSimpArgs false
set_option linter.unusedVariables false

namespace Ural.Fingerprint
open Ural.Py Ural.UrlParts Ural.Normalize Ural.Canonicalize

/-! ## the hostname only matters through the per-domain filter -/

/-- the hostname the per-domain filter is chosen from (decoded, lower-cased) -/
def filterHost (puny : Str → Str) (hn : Option Str) : Option Str :=
  hn.map fun h => if h.isEmpty then h else lower (decodePunycodeHostname puny h)

theorem filterQuery_congr (o : Opts) (h1 h2 : Option Str) (q : Str)
    (hd : domainFilter h1 = domainFilter h2) : filterQuery o h1 q = filterQuery o h2 q := by
  unfold filterQuery
  rw [hd]

theorem normParts_hostname (puny : Str → Str) (o : Opts) (hp : Bool) (p : Parsed) (h' : Option Str)
    (hd : domainFilter (filterHost puny p.hostname) = domainFilter (filterHost puny h')) :
    (normParts puny o hp { p with hostname := h' }).path = (normParts puny o hp p).path ∧
    (normParts puny o hp { p with hostname := h' }).query = (normParts puny o hp p).query ∧
    (normParts puny o hp { p with hostname := h' }).fragment = (normParts puny o hp p).fragment ∧
    (normParts puny o hp { p with hostname := h' }).scheme = (normParts puny o hp p).scheme := by
  have hq := filterQuery_congr o (filterHost puny p.hostname) (filterHost puny h') (fixedQuery o p) hd
  unfold filterHost at hq
  simp only [normParts, normComps, fixedQuery] at hq ⊢
  rw [hq]
  simp

/-! ## `gl` / `hl` -/

/-- **an item whose key is `gl` or `hl` is stripped** by the filter `fingerprint_url` passes,
whatever the per-domain filter `df` of the host -/
theorem shouldStrip_lang (df : Option (List String)) (k : Str) (v : Option Str)
    (hk : lower k = "gl".toList ∨ lower k = "hl".toList) :
    shouldStripQueryItem true .lang df (k, v) = true := by
  unfold shouldStripQueryItem
  rcases hk with hk | hk <;>
  · simp only [hk, if_true]
    split
    · rfl
    · have h1 : (Gen.Normalize.queryCombosCallable.any fun x => x.toList == lower k) = false := by
        rw [hk]; decide
      have h2 : comboLookup Gen.Normalize.queryCombos (lower k) = none := by rw [hk]; decide
      have h3 : comboLookup Gen.Normalize.ampQueryCombos (lower k) = none := by rw [hk]; decide
      have h4 : (Gen.Normalize.langQueryKeys.any fun x => x.toList == lower k) = true := by
        rw [hk]; decide
      rw [hk] at h1 h2 h3 h4
      simp only [h1, h2, h3, h4, Bool.false_eq_true, if_false]
      split <;> simp

theorem mem_join_of_mem (sep : Str) (parts : List Str) (p : Str) (hp : p ∈ parts) (c : Char) (hc : c ∈ p) :
    c ∈ join sep parts := by
  induction parts with
  | nil => cases hp
  | cons q qs ih =>
    cases qs with
    | nil =>
      simp only [List.mem_singleton] at hp
      subst hp; simpa [join] using hc
    | cons r rs =>
      simp only [join, List.mem_append]
      rcases List.mem_cons.1 hp with e | hm
      · subst e; exact Or.inl (Or.inl hc)
      · exact Or.inr (ih hm)

/-- the key of a raw `key=value` item as the filter sees it -/
def itemKey (it : Str) : Str := lower (unquoteQueryItem (cutFirst '=' it).1)

/-- the kept items of a list of raw items (before sorting) -/
def keptOf (o : Opts) (host : Option Str) (parts : List Str) : List QItem :=
  ((if o.lowercase then (unquoteQsl (parts.map (cutFirst '='))).map (fun it => (lower it.1, it.2.map lower))
    else unquoteQsl (parts.map (cutFirst '='))).filter
      (fun it => !shouldStripQueryItem o.normalizeAmp o.queryItemFilter (domainFilter host) it))

theorem filterQuery_parts (o : Opts) (host : Option Str) (parts : List Str) (hne : parts ≠ [])
    (hamp : ∀ x ∈ parts, '&' ∉ x) (hq : join ['&'] parts ≠ []) :
    filterQuery o host (join ['&'] parts) =
      if o.sortQuery then sortQsl (keptOf o host parts) else keptOf o host parts := by
  unfold filterQuery keptOf
  have he : (join ['&'] parts).isEmpty = false := by
    cases h : join ['&'] parts with
    | nil => exact absurd h hq
    | cons a b => rfl
  simp only [he, Bool.false_eq_true, if_false, safeQslIter, Ural.Py.splitOn_join '&' parts hne hamp]

theorem keptOf_insert_lang (host : Option Str) (xs ys : List Str) (it : Str)
    (hkey : itemKey it = "gl".toList ∨ itemKey it = "hl".toList) :
    keptOf fpOpts host (xs ++ it :: ys) = keptOf fpOpts host (xs ++ ys) := by
  unfold keptOf
  have hl : lower (lower (unquoteQueryItem (cutFirst '=' it).1)) = lower (unquoteQueryItem (cutFirst '=' it).1) :=
    lower_idem _
  have hs : shouldStripQueryItem true .lang (domainFilter host)
      (lower (unquoteQueryItem (cutFirst '=' it).1),
        Option.map lower (Option.map unquoteQueryItem (cutFirst '=' it).2)) = true := by
    apply shouldStrip_lang
    rw [hl]; exact hkey
  simp only [fpOpts, if_true, unquoteQsl, List.map_append, List.map_cons, List.filter_append, List.filter_cons,
    hs, Bool.not_true, Bool.false_eq_true, if_false]

/-- **inserting a `gl` / `hl` item at any position of the query does not change what
`normalize_url` keeps of it** (`xs` / `ys`: the raw items before / after the insertion point) -/
theorem filterQuery_insert_lang (host : Option Str) (xs ys : List Str) (it : Str)
    (hamp : ∀ x ∈ xs ++ it :: ys, '&' ∉ x)
    (hkey : itemKey it = "gl".toList ∨ itemKey it = "hl".toList)
    (hbase : join ['&'] (xs ++ ys) = [] → xs ++ ys = []) :
    filterQuery fpOpts host (join ['&'] (xs ++ it :: ys)) = filterQuery fpOpts host (join ['&'] (xs ++ ys)) := by
  have hit : it ≠ [] := by
    intro e
    subst e
    rcases hkey with h | h <;> revert h <;> decide
  have hne1 : xs ++ it :: ys ≠ [] := by simp
  have hq1 : join ['&'] (xs ++ it :: ys) ≠ [] := by
    cases hi : it with
    | nil => exact absurd hi hit
    | cons c cs =>
      intro e
      have := mem_join_of_mem ['&'] (xs ++ it :: ys) it (by simp) c (by simp [hi])
      rw [hi] at this
      rw [e] at this
      cases this
  rw [filterQuery_parts fpOpts host _ hne1 hamp hq1, keptOf_insert_lang host xs ys it hkey]
  by_cases hb : xs ++ ys = []
  · have hk : keptOf fpOpts host (xs ++ ys) = [] := by rw [hb]; simp [keptOf, unquoteQsl]
    rw [hk, hb]
    simp [filterQuery, join, sortQsl]
  · have hq2 : join ['&'] (xs ++ ys) ≠ [] := fun e => hb (hbase e)
    have hamp2 : ∀ x ∈ xs ++ ys, '&' ∉ x := by
      intro x hx
      apply hamp x
      simp only [List.mem_append, List.mem_cons] at hx ⊢
      rcases hx with h | h
      · exact Or.inl h
      · exact Or.inr (Or.inr h)
    rw [filterQuery_parts fpOpts host _ hb hamp2 hq2]

/-- with `strip_trailing_slash` on, whether the query is empty does not matter to the path -/
theorem normPath_query_irrelevant (path fragment q1 q2 : Str) :
    normPath fpOpts path fragment q1 = normPath fpOpts path fragment q2 := by
  unfold normPath
  generalize pathSteps fpOpts path = x
  have hr : rstripChars ['/'] ['/'] = [] := by decide
  have he : endsWith ([] : Str) ['/'] = false := by decide
  have he1 : endsWith ['/'] ['/'] = true := by decide
  by_cases hx : x = ['/']
  · subst hx
    by_cases hf : fragment = [] <;> by_cases h1 : q1 = [] <;> by_cases h2 : q2 = [] <;>
      simp [hf, h1, h2, hr, he, he1, fpOpts]
  · simp [hx]

theorem join_eq_nil_parts (parts : List Str) (hne : parts ≠ []) (h : join ['&'] parts = []) :
    parts = [[]] := by
  cases parts with
  | nil => exact absurd rfl hne
  | cons p ps =>
    cases ps with
    | nil => simp only [join] at h; rw [h]
    | cons q qs => simp [join] at h

theorem sortQsl_single (e : QItem) : sortQsl [e] = [e] := by simp [sortQsl, insertItem]

/-- the serialized query `normalize_url` returns, from the kept items -/
def queryOut (host : Option Str) (q : Str) : Str :=
  safeSerializeQsl (unquoteQsl (filterQuery fpOpts host q))

theorem queryOut_single_empty (host : Option Str) (it : Str)
    (hamp : '&' ∉ it) (hkey : itemKey it = "gl".toList ∨ itemKey it = "hl".toList)
    (parts : List Str) (hp : parts = [[], it] ∨ parts = [it, []]) :
    queryOut host (join ['&'] parts) = [] := by
  have hit : it ≠ [] := by
    intro e; subst e
    rcases hkey with h | h <;> revert h <;> decide
  have hne : parts ≠ [] := by rcases hp with h | h <;> simp [h]
  have hq : join ['&'] parts ≠ [] := by rcases hp with h | h <;> simp [h, join]
  have ha : ∀ x ∈ parts, '&' ∉ x := by
    intro x hx
    have hx' : x = [] ∨ x = it := by
      rcases hp with h | h
      · rw [h] at hx; simpa using hx
      · rw [h] at hx
        simp only [List.mem_cons, List.not_mem_nil, or_false] at hx
        exact hx.symm
    rcases hx' with e | e
    · rw [e]; simp
    · rw [e]; exact hamp
  have hk : keptOf fpOpts host parts = keptOf fpOpts host [[]] := by
    rcases hp with h | h
    · rw [h]; exact keptOf_insert_lang host [[]] [] it hkey
    · rw [h]; exact keptOf_insert_lang host [] [[]] it hkey
  have hu : unquoteQueryItem [] = [] := by decide
  unfold queryOut
  rw [filterQuery_parts fpOpts host parts hne ha hq, hk]
  simp only [fpOpts, if_true, keptOf, unquoteQsl, cutFirst, List.map_cons, List.map_nil, hu, lower,
    Option.map_none, List.filter_cons, List.filter_nil]
  split <;> simp [sortQsl, insertItem, safeSerializeQsl, join, hu]

/-- **the serialized query does not see an inserted `gl` / `hl` item**, at any position and
whatever the other items are (an empty base query included) -/
theorem queryOut_insert_lang (host : Option Str) (xs ys : List Str) (it : Str)
    (hamp : ∀ x ∈ xs ++ it :: ys, '&' ∉ x)
    (hkey : itemKey it = "gl".toList ∨ itemKey it = "hl".toList) :
    queryOut host (join ['&'] (xs ++ it :: ys)) = queryOut host (join ['&'] (xs ++ ys)) := by
  by_cases hb : join ['&'] (xs ++ ys) = [] → xs ++ ys = []
  · unfold queryOut
    rw [filterQuery_insert_lang host xs ys it hamp hkey hb]
  · have hj : join ['&'] (xs ++ ys) = [] := by
      by_cases h : join ['&'] (xs ++ ys) = []
      · exact h
      · exact absurd (fun e => absurd e h) hb
    have hne : xs ++ ys ≠ [] := fun e => hb (fun _ => e)
    have hparts := join_eq_nil_parts _ hne hj
    have hitamp : '&' ∉ it := hamp it (by simp)
    have hcases : (xs = [[]] ∧ ys = []) ∨ (xs = [] ∧ ys = [[]]) := by
      cases xs with
      | nil => right; exact ⟨rfl, by simpa using hparts⟩
      | cons a as =>
        left
        simp only [List.cons_append, List.cons.injEq] at hparts
        have : as = [] ∧ ys = [] := List.append_eq_nil_iff.1 hparts.2
        exact ⟨by rw [hparts.1, this.1], this.2⟩
    have hL : queryOut host (join ['&'] (xs ++ it :: ys)) = [] := by
      apply queryOut_single_empty host it hitamp hkey
      rcases hcases with ⟨h1, h2⟩ | ⟨h1, h2⟩ <;> simp [h1, h2]
    rw [hL, hj]
    simp [queryOut, filterQuery, unquoteQsl, safeSerializeQsl, join]

end Ural.Fingerprint
