import UralModel.Lemmas.Canonicalize
import UralModel.Lemmas.QuoteAuth
/-!
# The userinfo rule of `canonicalize_url` / `normalize_url` after FX-C01-194b1c7

`unquoteAuthItem` is `safely_unquote_auth_item` = the partial followed by `requoteNfkc`
(`Model/QuoteAuth.lean`).  In quoted mode nothing changed (`safely_quote` escapes every
non-ASCII character anyway: `requote_true_auth`); in unquoted mode the facts the theorems use:
same decoded bytes, idempotent, no delimiter created, no raw NFKC look-alike left.
-/
namespace Ural.Canonicalize
open Ural.Py Ural.Quote

theorem unquoteAuthItem_eq (s : Str) : unquoteAuthItem s = safelyUnquoteAuthItem s := rfl

/-- quoted mode: the rule is the one of the bare partial -/
theorem requote_true_auth (s : Str) :
    requote true unquoteAuthItem s = requote true (safelyUnquote Gen.Quote.unsafeForAuthItem) s := by
  simp only [requote, if_true]
  exact safelyQuote_authItem s

theorem canonOpt_true_auth (o : Option Str) :
    canonOpt true unquoteAuthItem o = canonOpt true (safelyUnquote Gen.Quote.unsafeForAuthItem) o := by
  cases o with
  | none => rfl
  | some u => simp only [canonOpt, requote_true_auth]

/-- same decoded bytes, in both modes -/
theorem pct_requote_auth (quoted : Bool) (s : Str) :
    pctStr (requote quoted unquoteAuthItem s) = pctStr s := by
  unfold requote
  split
  · rw [pctStr_safelyQuote]; exact pctStr_authItem s
  · exact pctStr_authItem s

theorem unquoteAuthItem_idem (s : Str) : unquoteAuthItem (unquoteAuthItem s) = unquoteAuthItem s :=
  authItem_idem s

theorem unquoteAuthItem_nil : unquoteAuthItem [] = [] := authItem_nil

/-- the partial undoes the wrapper -/
theorem safelyUnquote_unquoteAuthItem (s : Str) :
    safelyUnquote Gen.Quote.unsafeForAuthItem (unquoteAuthItem s) =
      safelyUnquote Gen.Quote.unsafeForAuthItem s := safelyUnquote_authItem s

/-- **no raw NFKC look-alike of a delimiter** in an unquoted item, in either mode -/
theorem requote_auth_no_nfkc (quoted : Bool) (s : Str) :
    ∀ d ∈ requote quoted unquoteAuthItem s, nfkcDelimChar d = false := by
  intro d hd
  unfold requote at hd
  split at hd
  · -- quoted: every character of the result is ASCII
    cases e : nfkcDelimChar d with
    | false => rfl
    | true =>
      exfalso
      have hge := nfkcDelimChar_high e
      rw [safelyQuote_eq_by] at hd
      simp only [safelyQuoteBy, render, List.mem_flatMap] at hd
      obtain ⟨t, ht, hdt⟩ := hd
      simp only [quoteToksBy, List.mem_flatMap] at ht
      obtain ⟨t0, ht0, ht⟩ := ht
      have := ascii_render_quoteTokBy safeSet_quoteSafe (wf_tokens _ t0 ht0) d
        (by simp only [render, List.mem_flatMap]; exact ⟨t, ht, hdt⟩)
      omega
  · exact authItem_no_nfkc s d hd

end Ural.Canonicalize
