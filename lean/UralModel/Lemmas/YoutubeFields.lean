import UralModel.Lemmas.YoutubeReparse
/-!
What the fields of a record returned by `parse_youtube_url` are made of: a playlist id is a
non-empty run without `&`, `#`, `?`, `/`, `%` (the regex group) and without TAB / CR / LF (they are
removed from the url before the regex runs), a name / channel id is a piece of the path of the
split url (no `/`, `?`, `#`, TAB, CR, LF), hence a piece of a url in which neither continuation
pattern was found.  With these, the hypothesis `Good` of the round trip is discharged for every
record the parser returns (`good_of_fields`).
-/
namespace Ural.Youtube
open Ural Ural.Py Ural.C19 Ural.HostnameTrieSet

/-- a piece of a path handed out by `urlsplit` -/
def PathPiece (s : Str) : Prop := ∀ c ∈ s, c ≠ '/' ∧ c ≠ '?' ∧ c ≠ '#' ∧ isUnsafeUrlChar c = false

/-- what the parser guarantees about the fields of a record: a playlist id is a non-empty run
without `&`, `#`, `?`; a user name / channel id is a piece of the path without `&`, stripped of
white space at both ends; a channel name is a piece of the path without `&` -/
def Fields : Record → Prop
  | .video _ (some p) => PlainPlaylist p
  | .video _ none => True
  | .user name => PathPiece name ∧ '&' ∉ name ∧ Stripped name
  | .channel (some cid) _ => PathPiece cid ∧ '&' ∉ cid ∧ Stripped cid
  | .channel none (some name) => PathPiece name ∧ '&' ∉ name
  | .channel none none => True
  | .short _ => True

/-! ## the playlist -/

theorem queryList_fields (s : Str) (hs : ∀ c ∈ s, isUnsafeUrlChar c = false) (pl : Option Str)
    (h : queryList s = pl) (id : Str) : Fields (.video id pl) := by
  cases pl with
  | none => trivial
  | some p =>
    obtain ⟨h1, h2⟩ := litValueSearch_some _ _ _ _ h
    refine ⟨h1, fun c hc => ?_⟩
    have := h2 c hc
    simp only [stopsList, List.mem_cons, List.not_mem_nil, or_false, not_or] at this
    exact ⟨this.1, this.2.1, this.2.2.1, this.2.2.2.1, this.2.2.2.2,
      hs c ((litValueSearch_infix _ _ _ _ h).subset hc)⟩

/-- the name / id a user or channel record is made of: what its canonical url ends with -/
def nameField : Record → Option Str
  | .user name => some name
  | .channel (some cid) _ => some cid
  | .channel none (some name) => some name
  | _ => none

/-- the name / id of the record, if it has one, is a piece of `path` -/
def InPath (path : Str) (r : Record) : Prop := ∀ x, nameField r = some x → x <:+: path

theorem inPath_video (path id : Str) (pl : Option Str) : InPath path (.video id pl) := by
  intro x hx; simp [nameField] at hx

theorem second_infix (path x : Str) (h : second path = .ok (some x)) : x <:+: path := by
  rcases second_cases path with h2 | ⟨y, h2, hy⟩
  · rw [h2] at h; simp at h
  · rw [h2] at h
    simp only [Except.ok.injEq, Option.some.injEq] at h
    exact h ▸ pathsplit_infix path y hy

/-! ## a path behind a host is empty or starts with `/` -/

theorem splitFirst_fst_head (s : Str) (sep c : Char) (r : Str) (hs : s = c :: r) (hc : c ≠ sep) :
    ∃ r', (splitFirst s sep).1 = c :: r' := by
  rw [hs, splitFirst_cons_s20, if_neg hc]
  exact ⟨_, rfl⟩

theorem urlsplit_path_shape (url dflt : Str) (r : SplitResult) (h : urlsplit url dflt = some r)
    (hn : r.netloc ≠ []) : r.path = [] ∨ ∃ p, r.path = '/' :: p := by
  unfold urlsplit at h
  simp only [] at h
  split at h
  · exact absurd h (by simp)
  · injection h with h
    subst h
    simp only [] at hn ⊢
    generalize (splitScheme (cleanUrl url) dflt).2 = x at hn ⊢
    unfold splitNetloc at hn ⊢
    by_cases hsw : startsWith x ['/', '/'] = true
    · simp only [hsw, if_true] at hn ⊢
      -- what follows the netloc is empty or starts with a delimiter
      cases hd : (x.drop 2).dropWhile (fun c => !isNetlocDelim c) with
      | nil =>
        left
        simp [splitFirst_nil_s20]
      | cons d ds =>
        have hdel : isNetlocDelim d = true := by
          have := List.head?_dropWhile_not (fun c => !isNetlocDelim c) (x.drop 2)
          rw [hd] at this
          simpa using this
        unfold isNetlocDelim at hdel
        simp only [Bool.or_eq_true, decide_eq_true_eq] at hdel
        rcases hdel with (e | e) | e
        · right
          subst e
          obtain ⟨r1, h1⟩ := splitFirst_fst_head ('/' :: ds) '#' '/' ds rfl (by decide)
          rw [h1]
          obtain ⟨r2, h2⟩ := splitFirst_fst_head ('/' :: r1) '?' '/' r1 rfl (by decide)
          exact ⟨r2, h2⟩
        · left
          subst e
          have h1 : (splitFirst ('?' :: ds) '#').1 = '?' :: (splitFirst ds '#').1 := by
            rw [splitFirst_cons_s20, if_neg (by decide)]
          rw [h1, splitFirst_cons_s20, if_pos rfl]
        · left
          subst e
          rw [splitFirst_cons_s20, if_pos rfl]
          simp [splitFirst_nil_s20]
    · simp only [hsw] at hn
      exact absurd rfl hn

/-! ## inversion of the routes -/

theorem second_mem (path x : Str) (h : second path = .ok (some x)) : x ∈ pathsplit path := by
  rcases second_cases path with h2 | ⟨y, h2, hy⟩
  · rw [h2] at h; simp at h
  · rw [h2] at h
    simp only [Except.ok.injEq, Option.some.injEq] at h
    exact h ▸ hy

theorem pathPiece_of_pathsplit (path x : Str)
    (hp : ∀ c ∈ path, c ≠ '?' ∧ c ≠ '#' ∧ isUnsafeUrlChar c = false) (hx : x ∈ pathsplit path) :
    PathPiece x := by
  intro c hc
  obtain ⟨h1, h2⟩ := pathsplit_mem path x hx
  have := hp c (h2 c hc)
  exact ⟨fun e => h1 (e ▸ hc), this.1, this.2.1, this.2.2⟩

theorem pathPiece_lstrip (x : Str) (cs : List Char) (h : PathPiece x) : PathPiece (lstripChars x cs) := by
  intro c hc
  unfold lstripChars at hc
  exact h c (mem_of_mem_dropWhile _ _ _ hc)

theorem pathPiece_cutAmp (x : Str) (h : PathPiece x) : PathPiece (cutAmp x) ∧ '&' ∉ cutAmp x := by
  unfold cutAmp
  refine ⟨fun c hc => h c ((List.takeWhile_sublist _).subset hc), fun hm => ?_⟩
  have := mem_takeWhile_s20 _ _ _ hm
  simp at this

theorem pathPiece_strip (x : Str) (h : PathPiece x) : PathPiece (strip x) :=
  fun c hc => h c (mem_of_mem_strip _ _ hc)

theorem not_mem_strip (x : Str) (c : Char) (h : c ∉ x) : c ∉ strip x :=
  fun hm => h (mem_of_mem_strip _ _ hm)

theorem routeName_fields (path : Str) (r : Record)
    (hp : ∀ c ∈ path, c ≠ '?' ∧ c ≠ '#' ∧ isUnsafeUrlChar c = false)
    (hshape : path = [] ∨ ∃ p, path = '/' :: p) (h : routeName path = some r) :
    Fields r ∧ InPath path r := by
  unfold routeName at h
  simp only [] at h
  split at h
  · rename_i hcount
    split at h
    · simp at h
    · simp only [Option.some.injEq] at h
      subst h
      refine ⟨?_, fun x hx => by
        simp only [nameField, Option.some.injEq] at hx
        subst hx
        exact (((cutAmp_prefix _).isInfix.trans (lstripChars_suffix _ _).isInfix).trans
          (lstripChars_suffix _ _).isInfix).trans (rstripChars_prefix' _ _).isInfix⟩
      -- the stripped path is `/` followed by a `/`-free rest
      have hsub : ∀ c ∈ rstripChars path ['/'], c ∈ path := by
        intro c hc
        obtain ⟨suf, hs⟩ := rstripChars_prefix path ['/']
        rw [hs]; simp [hc]
      show PathPiece _ ∧ _
      apply pathPiece_cutAmp
      apply pathPiece_lstrip
      intro c hc
      have hc1 : c ∈ rstripChars path ['/'] := by
        unfold lstripChars at hc; exact mem_of_mem_dropWhile _ _ _ hc
      have := hp c (hsub c hc1)
      refine ⟨?_, this.1, this.2.1, this.2.2⟩
      intro e
      subst e
      -- a `/` in the name: then the stripped path has two
      rcases hshape with e | ⟨p, e⟩
      · rw [e] at hcount; simp [rstripChars] at hcount
      · obtain ⟨suf, hs⟩ := rstripChars_prefix path ['/']
        cases hr : rstripChars path ['/'] with
        | nil => rw [hr] at hcount; simp at hcount
        | cons a as =>
          rw [hr] at hs hcount hc
          have ha : a = '/' := by
            rw [e] at hs
            simp only [List.cons_append, List.cons.injEq] at hs
            exact hs.1.symm
          subst ha
          rw [List.count_cons_self] at hcount
          have has : '/' ∉ as := by
            intro hm
            have := List.count_pos_iff.mpr hm
            omega
          unfold lstripChars at hc
          rw [List.dropWhile_cons_of_pos (by simp)] at hc
          exact has (mem_of_mem_dropWhile _ _ _ hc)
  · simp at h

theorem routePath_fields (fix : Bool) (path query : Str) (pl : Option Str) (r : Record)
    (hp : ∀ c ∈ path, c ≠ '?' ∧ c ≠ '#' ∧ isUnsafeUrlChar c = false)
    (hshape : path = [] ∨ ∃ p, path = '/' :: p)
    (hpl : ∀ id, Fields (.video id pl))
    (h : routePath fix path query pl = .ok (some r)) : Fields r ∧ InPath path r := by
  unfold routePath at h
  split at h
  · split at h
    · simp only [Except.ok.injEq] at h
      obtain ⟨id, e⟩ := videoOf_shape fix _ pl r h
      rw [e]; exact ⟨hpl id, inPath_video _ _ _⟩
    · simp at h
  · split at h
    · unfold routeVideoFile at h
      split at h
      · simp at h
      · simp only [Except.ok.injEq] at h
        obtain ⟨id, e⟩ := videoOf_shape fix _ pl r h
        rw [e]; exact ⟨hpl id, inPath_video _ _ _⟩
    · split at h
      · unfold routeUser at h
        cases hs : second path with
        | error e => exact absurd hs (second_total path e)
        | ok o =>
          rw [hs] at h
          cases o with
          | none => simp at h
          | some x =>
            simp only [Except.ok.injEq] at h
            split at h
            · simp at h
            · simp only [Option.some.injEq] at h
              subst h
              have hpp := pathPiece_cutAmp x (pathPiece_of_pathsplit path x hp (second_mem path x hs))
              exact ⟨⟨pathPiece_strip _ hpp.1, not_mem_strip _ _ hpp.2, strip_stripped _⟩, fun y hy => by
                simp only [nameField, Option.some.injEq] at hy
                subst hy
                exact ((strip_infix _).trans (cutAmp_prefix _).isInfix).trans (second_infix path x hs)⟩
      · split at h
        · unfold routeC at h
          cases hs : second path with
          | error e => exact absurd hs (second_total path e)
          | ok o =>
            rw [hs] at h
            cases o with
            | none => simp at h
            | some x =>
              simp only [Except.ok.injEq] at h
              split at h
              · simp at h
              · simp only [Option.some.injEq] at h
                subst h
                exact ⟨pathPiece_cutAmp _
                  (pathPiece_lstrip x _ (pathPiece_of_pathsplit path x hp (second_mem path x hs))), fun y hy => by
                  simp only [nameField, Option.some.injEq] at hy
                  subst hy
                  exact ((cutAmp_prefix _).isInfix.trans (lstripChars_suffix _ _).isInfix).trans
                    (second_infix path x hs)⟩
        · split at h
          · unfold routeChannel at h
            cases hs : second path with
            | error e => exact absurd hs (second_total path e)
            | ok o =>
              rw [hs] at h
              cases o with
              | none => simp at h
              | some x =>
                simp only [Except.ok.injEq] at h
                split at h
                · simp at h
                · simp only [Option.some.injEq] at h
                  subst h
                  have hpp := pathPiece_cutAmp x (pathPiece_of_pathsplit path x hp (second_mem path x hs))
                  exact ⟨⟨pathPiece_strip _ hpp.1, not_mem_strip _ _ hpp.2, strip_stripped _⟩, fun y hy => by
                    simp only [nameField, Option.some.injEq] at hy
                    subst hy
                    exact ((strip_infix _).trans (cutAmp_prefix _).isInfix).trans (second_infix path x hs)⟩
          · split at h
            · unfold routeShorts at h
              cases hs : second path with
              | error e => exact absurd hs (second_total path e)
              | ok o =>
                rw [hs] at h
                cases o with
                | none => simp at h
                | some x =>
                  simp only [Except.ok.injEq] at h
                  split at h
                  · simp only [Option.some.injEq] at h
                    subst h
                    exact ⟨trivial, fun y hy => by simp [nameField] at hy⟩
                  · simp at h
            · simp only [Except.ok.injEq] at h
              exact routeName_fields path r hp hshape h

theorem parseSplit_fields (fix : Bool) (parsed : SplitResult) (pl : Option Str) (r : Record)
    (hp : ∀ c ∈ parsed.path, c ≠ '?' ∧ c ≠ '#' ∧ isUnsafeUrlChar c = false)
    (hshape : parsed.path = [] ∨ ∃ p, parsed.path = '/' :: p)
    (hpl : ∀ id, Fields (.video id pl))
    (h : parseSplit fix parsed pl = .ok (some r)) : Fields r ∧ InPath parsed.path r := by
  unfold parseSplit at h
  split at h
  · unfold routeShortHost at h
    split at h
    · split at h
      · simp at h
      · split at h
        · simp at h
        · simp only [Except.ok.injEq] at h
          obtain ⟨id, e⟩ := videoOf_shape fix _ pl r h
          rw [e]; exact ⟨hpl id, inPath_video _ _ _⟩
    · simp at h
  · split at h
    · split at h
      · simp only [Except.ok.injEq, Option.some.injEq] at h
        subst h
        exact ⟨hpl _, inPath_video _ _ _⟩
      · simp at h
    · exact routePath_fields fix _ _ pl r hp hshape hpl h

/-- a hostname means a non-empty netloc -/
theorem netloc_ne_nil_of_youtube (puny : Str → Str) (t : T) (parsed : SplitResult)
    (h : isYoutubeParsed puny t parsed = true) : parsed.netloc ≠ [] := by
  intro e
  unfold isYoutubeParsed hostnameOf at h
  have : pyHostname ([] : Str) = [] := by decide
  rw [e, this] at h
  simp [matchHost] at h

theorem stripUnsafe_safe (u : Str) : ∀ c ∈ stripUnsafe u, isUnsafeUrlChar c = false := by
  intro c hc
  have := (List.mem_filter.mp hc).2
  simpa using this

/-- the path of the split url is a piece of a url without continuation pattern -/
theorem safe_urlsplit_path_noCont (u : Str) (parsed : SplitResult) (hu : ∀ c ∈ u, isUnsafeUrlChar c = false)
    (hn : NoCont u) (hs : safe_urlsplit u = some parsed) : NoCont parsed.path := by
  unfold safe_urlsplit at hs
  split at hs
  · have h1 : ∀ c ∈ "http://".toList ++ u, isUnsafeUrlChar c = false := by
      intro c hc
      rcases List.mem_append.mp hc with h | h
      · exact (show ∀ c ∈ "http://".toList, isUnsafeUrlChar c = false by decide) c h
      · exact hu c h
    exact noCont_of_infix _ _ (urlsplit_path_infix _ _ parsed hs h1)
      (noCont_prefix "http://".toList u (by decide) (by decide) hn)
  · exact noCont_of_infix _ _ (urlsplit_path_infix _ _ parsed hs hu) hn

/-- **what the parser guarantees about the fields of the record it returns**, and: the name /
id of a user or channel holds no continuation pattern -/
theorem parse_fields_noCont (puny : Str → Str) (t : T) (url : Str) (fix : Bool) (r : Record)
    (h : parse_youtube_url puny t url fix = .ok (some r)) :
    Fields r ∧ ∀ x, nameField r = some x → NoCont x := by
  unfold parse_youtube_url at h
  simp only [] at h
  have hsafe := stripUnsafe_safe (infer url)
  have hpl : ∀ id, Fields (.video id (queryList (stripUnsafe (infer url)))) :=
    fun id => queryList_fields _ hsafe _ rfl id
  split at h
  · simp only [Except.ok.injEq] at h
    obtain ⟨id, e⟩ := videoOf_shape fix _ _ r h
    rw [e]; exact ⟨hpl id, fun x hx => by simp [nameField] at hx⟩
  · rename_i hcont
    split at h
    · simp at h
    · rename_i parsed hs
      split at h
      · simp at h
      · rename_i hy
        have hyt : isYoutubeParsed puny t parsed = true := by simpa using hy
        have hshape : parsed.path = [] ∨ ∃ p, parsed.path = '/' :: p := by
          unfold safe_urlsplit at hs
          exact urlsplit_path_shape _ _ parsed hs (netloc_ne_nil_of_youtube puny t parsed hyt)
        have hf := parseSplit_fields fix parsed _ r (safe_urlsplit_path_chars _ parsed hs) hshape hpl h
        have hnc := safe_urlsplit_path_noCont _ parsed hsafe (noCont_of_or _ hcont) hs
        exact ⟨hf.1, fun x hx => noCont_of_infix _ _ (hf.2 x hx) hnc⟩

theorem parse_fields (puny : Str → Str) (t : T) (url : Str) (fix : Bool) (r : Record)
    (h : parse_youtube_url puny t url fix = .ok (some r)) : Fields r :=
  (parse_fields_noCont puny t url fix r h).1

/-- every record the parser returns (with either value of `fix_common_mistakes`) has what the
round trip needs -/
theorem good_of_fields (r : Record) (hv : Valid r) (hf : Fields r)
    (hn : ∀ x, nameField r = some x → NoCont x) : Good r := by
  match r, hv, hf, hn with
  | .video _ none, _, _, _ => trivial
  | .short _, _, _, _ => trivial
  | .video _ (some p), _, hf, _ => exact hf
  | .user name, _, hf, hn =>
    exact ⟨fun c hc => ⟨(hf.1 c hc).1, (hf.1 c hc).2.1, (hf.1 c hc).2.2.1, fun e => hf.2.1 (e ▸ hc),
      (hf.1 c hc).2.2.2⟩, hf.2.2, hn _ rfl⟩
  | .channel (some cid) none, _, hf, hn =>
    exact ⟨fun c hc => ⟨(hf.1 c hc).1, (hf.1 c hc).2.1, (hf.1 c hc).2.2.1, fun e => hf.2.1 (e ▸ hc),
      (hf.1 c hc).2.2.2⟩, hf.2.2, hn _ rfl⟩
  | .channel none (some name), _, hf, hn =>
    exact ⟨fun c hc => ⟨(hf.1 c hc).1, (hf.1 c hc).2.1, (hf.1 c hc).2.2.1, fun e => hf.2 (e ▸ hc),
      (hf.1 c hc).2.2.2⟩, hn _ rfl⟩

end Ural.Youtube
