import UralModel.Model.C19SmallUtil
import UralModel.Lemmas.Re
import UralModel.Lemmas.StrSplit20
import UralModel.Lemmas.Builders
/-!
# Lemmas for the twitter / instagram / telegram models (C19, part `small`)

* positional access: `getIdx` succeeds below the length;
* `subAnchored` returns the replacement followed by a suffix of the subject;
* `safe_urlsplit`: a non-empty fragment holds fewer `#` than the url it was split from
  (the measure that makes the hashbang re-entry of `parse_twitter_url` terminate);
* `searchB` of a pattern that starts with `^` is a match at position 0.
-/
namespace Ural.C19Small
open Ural.Py Ural.Py.Re

/-! ## positional access -/

theorem getIdx_lt {α : Type} (xs : List α) (i : Nat) (h : i < xs.length) :
    getIdx xs i = .ok xs[i] := by
  simp [getIdx, h]

theorem getIdx_ok_mem {α : Type} {xs : List α} {i : Nat} {x : α} (h : getIdx xs i = .ok x) :
    x ∈ xs := by
  unfold getIdx at h
  cases hx : xs[i]? with
  | none => rw [hx] at h; cases h
  | some y =>
    rw [hx] at h
    injection h with h
    subst h
    exact List.mem_of_getElem? hx

theorem getLastE_ne_nil {α : Type} (xs : List α) (h : xs ≠ []) : ∃ x, getLastE xs = .ok x := by
  unfold getLastE
  cases hx : xs.getLast? with
  | none => exact absurd (List.getLast?_eq_none_iff.mp hx) h
  | some x => exact ⟨x, rfl⟩

theorem splitOnce_ne_nil (s sep : Str) : splitOnce s sep ≠ [] := by
  unfold splitOnce
  split <;> simp

/-! ## `subAnchored` -/

/-- `re.sub` of an anchored pattern: the replacement, then a suffix of the subject — or the
subject itself -/
theorem subAnchored_spec (r : Re) (repl s : Str) :
    subAnchored r repl s = s ∨ ∃ t, t <:+ s ∧ subAnchored r repl s = repl ++ t := by
  unfold subAnchored
  cases h : (matchEnds s.length r s).head? with
  | none => exact Or.inl rfl
  | some t =>
    refine Or.inr ⟨t, ?_, rfl⟩
    have hm : t ∈ matchEnds s.length r s := List.mem_of_head? h
    exact (matchEnds_sound hm).isSuffix

theorem count_le_of_suffix {t s : Str} (h : t <:+ s) (c : Char) : t.count c ≤ s.count c :=
  h.sublist.count_le c

/-- with an empty replacement the result is a suffix of the subject -/
theorem subAnchored_nil_suffix (r : Re) (s : Str) : subAnchored r [] s <:+ s := by
  rcases subAnchored_spec r [] s with h | ⟨t, ht, h⟩
  · rw [h]; exact List.suffix_refl s
  · rw [h]; simpa using ht

/-! ## the `#` measure of `safe_urlsplit` -/

theorem cleanUrl_count_le (u : Str) (c : Char) : (cleanUrl u).count c ≤ u.count c := by
  unfold cleanUrl
  exact ((List.filter_sublist).trans (List.dropWhile_sublist _)).count_le c

/-- a non-empty fragment found by `urlsplit` holds at least one `#` less than the url -/
theorem urlsplit_fragment_count (url dflt : Str) (r : SplitResult) (h : urlsplit url dflt = some r)
    (hne : r.fragment ≠ []) : r.fragment.count '#' + 1 ≤ url.count '#' := by
  have hf := (urlsplit_query_fragment url dflt r h).2
  have hspec := (splitFirst_spec_s20 (cleanUrl url) '#').2
  unfold plainFragment splitFragment at hf
  cases hb : (splitFirst (cleanUrl url) '#').2 with
  | none => rw [hb] at hf; exact absurd hf hne
  | some b =>
    rw [hb] at hf hspec
    simp only [Option.getD] at hf
    simp only [] at hspec
    have hc : (cleanUrl url).count '#' = ((splitFirst (cleanUrl url) '#').1).count '#' + (1 + b.count '#') := by
      conv => lhs; rw [hspec]
      rw [List.count_append, List.count_cons]
      simp
      omega
    have := cleanUrl_count_le url '#'
    rw [hf]
    omega

theorem safe_urlsplit_fragment_count (url : Str) (r : SplitResult) (h : safe_urlsplit url = some r)
    (hne : r.fragment ≠ []) : r.fragment.count '#' + 1 ≤ url.count '#' := by
  unfold safe_urlsplit at h
  have := urlsplit_fragment_count _ _ r h hne
  split at this
  · have hc : ("http://".toList ++ url).count '#' = url.count '#' := by
      rw [List.count_append]
      have : "http://".toList.count '#' = 0 := by decide
      omega
    omega
  · exact this

/-! ## `searchB` -/

theorem length_lt_of_mem_tails_tail {s t : Str} : ∀ {c : Char}, t ∈ tails s → t.length ≤ s.length := by
  induction s with
  | nil => intro c h; simp [tails] at h; simp [h]
  | cons a s ih =>
    intro c h
    simp only [tails, List.mem_cons] at h
    rcases h with h | h
    · rw [h]; exact Nat.le_refl _
    · have := @ih c h
      simp only [List.length_cons]
      omega

/-- a pattern that starts with `^` can only match at position 0: `re.search` is `re.match` -/
theorem searchB_bos (q : Re) (s : Str) : searchB (.seq .bos q) s = pyMatch (.seq .bos q) s := by
  unfold searchB pyMatch
  cases s with
  | nil => simp [tails]
  | cons a s =>
    simp only [tails, List.any_cons]
    have : (tails s).any (fun t => !(matchEnds (a :: s).length (.seq .bos q) t).isEmpty) = false := by
      rw [List.any_eq_false]
      intro t ht
      have hl := @length_lt_of_mem_tails_tail s t 'x' ht
      have hne : ¬ (t.length = s.length + 1) := by omega
      simp [matchEnds, hne]
    rw [this, Bool.or_false]

/-! ## validators of the shape `^[class]+$` -/

/-- the class `C` of a pattern `^[C]+$`, if the pattern has that shape -/
def plusClass? : Re → Option CharClass
  | .seq .bos (.seq (.rep (.cls C) 1 none true) .eos) => some C
  | _ => none

theorem plusClass?_eq {r : Re} {C : CharClass} (h : plusClass? r = some C) :
    r = .seq .bos (.seq (.rep (.cls C) 1 none true) .eos) := by
  unfold plusClass? at h
  split at h
  · injection h with h; rw [h]
  · cases h

/-- what a validator `^[C]+$` accepts: a non-empty word over `C`, possibly followed by one
final newline (Python's `$`) -/
def PlusWord (C : CharClass) (v : Str) : Prop :=
  ∃ w, w ≠ [] ∧ (∀ c ∈ w, C.mem c = true) ∧ (v = w ∨ v = w ++ ['\n'])

theorem match_star_cls (n : Nat) (C : CharClass) (w u : Str) (hw : ∀ c ∈ w, C.mem c = true) :
    Match n (.rep (.cls C) 0 none true) (w ++ u) u := by
  induction w with
  | nil => exact Match.repStop u
  | cons a w ih =>
    have h1 : Match n (.cls C) (a :: (w ++ u)) (w ++ u) := Match.cls C a _ (hw a (by simp))
    have h2 := ih (fun c hc => hw c (by simp [hc]))
    exact Match.repStep (by simp) h1 h2

theorem match_plus_cls (n : Nat) (C : CharClass) (w u : Str) (hne : w ≠ [])
    (hw : ∀ c ∈ w, C.mem c = true) : Match n (.rep (.cls C) 1 none true) (w ++ u) u := by
  cases w with
  | nil => exact absurd rfl hne
  | cons a w =>
    have h1 : Match n (.cls C) (a :: (w ++ u)) (w ++ u) := Match.cls C a _ (hw a (by simp))
    have h2 := match_star_cls n C w u (fun c hc => hw c (by simp [hc]))
    exact Match.repStep (by simp) h1 h2

/-- **`re.search` of `^[C]+$`** is membership in `PlusWord C` -/
theorem searchB_plus_iff (r : Re) (C : CharClass) (hr : plusClass? r = some C) (v : Str) :
    searchB r v = true ↔ PlusWord C v := by
  rw [plusClass?_eq hr, searchB_bos, pyMatch_iff (by simp [noNullRep, nullable])]
  constructor
  · rintro ⟨t, ht⟩
    cases ht with
    | seq hb hrest =>
      cases hb with
      | bos _ hl =>
        cases hrest with
        | seq hplus heos =>
          rename_i u
          have hall := hplus.all_of_allCls (P := fun D => D == C) (Q := fun c => C.mem c = true)
            (by intro D c hD hc; simp only [beq_iff_eq] at hD; rw [← hD]; exact hc)
            (by simp [allCls])
          obtain ⟨w, hvw, hw⟩ := hall
          have hprog := hplus.progress (by simp [nullable])
          have hwne : w ≠ [] := by
            intro h0; rw [h0] at hvw; simp only [List.nil_append] at hvw
            rw [hvw] at hprog; omega
          refine ⟨w, hwne, hw, ?_⟩
          cases heos with
          | eosEnd => left; simpa using hvw
          | eosNl => right; exact hvw
  · rintro ⟨w, hne, hw, hv | hv⟩
    · subst hv
      refine ⟨[], Match.seq (Match.bos v rfl) (Match.seq ?_ Match.eosEnd)⟩
      have := match_plus_cls v.length C v [] hne hw
      simpa using this
    · subst hv
      refine ⟨['\n'], Match.seq (Match.bos _ rfl) (Match.seq ?_ Match.eosNl)⟩
      exact match_plus_cls _ C w ['\n'] hne hw

theorem PlusWord.ne_nil {C : CharClass} {v : Str} (h : PlusWord C v) : v ≠ [] := by
  obtain ⟨w, hne, _, hv | hv⟩ := h
  · rw [hv]; exact hne
  · rw [hv]; simp

/-! ## `pathsplit`: the first and the last segment are not empty -/

/-- both ends of a list of segments are non-empty strings -/
def Ends (path : List Str) : Prop :=
  (∀ seg, path.head? = some seg → seg ≠ []) ∧ (∀ seg, path.getLast? = some seg → seg ≠ [])

theorem join_append_nil (sep : Str) (init : List Str) (hne : init ≠ []) :
    join sep (init ++ [[]]) = join sep init ++ sep := by
  induction init with
  | nil => exact absurd rfl hne
  | cons p rest ih =>
    cases rest with
    | nil => simp [join]
    | cons q rest =>
      have := ih (by simp)
      simp only [List.cons_append] at this ⊢
      rw [join_cons_cons_s20, this, join_cons_cons_s20]
      simp

theorem ends_of_join (segs : List Str) (s : Str) (hj : join ['/'] segs = s) (hs : s ≠ [])
    (h1 : ∀ t, s ≠ '/' :: t) (h2 : ∀ pre, s ≠ pre ++ ['/']) : Ends segs := by
  constructor
  · intro seg hh hnil
    subst hnil
    cases segs with
    | nil => cases hh
    | cons p rest =>
      simp only [List.head?_cons, Option.some.injEq] at hh
      subst hh
      cases rest with
      | nil => simp [join] at hj; exact hs hj
      | cons q rest =>
        rw [join_cons_cons_s20] at hj
        exact h1 _ (by rw [← hj]; rfl)
  · intro seg hl hnil
    subst hnil
    obtain ⟨init, hinit⟩ : ∃ init, segs = init ++ [[]] := by
      have hne : segs ≠ [] := by intro h0; rw [h0] at hl; cases hl
      refine ⟨segs.dropLast, ?_⟩
      have := List.dropLast_concat_getLast hne
      rw [List.getLast?_eq_some_getLast hne] at hl
      injection hl with hl
      rw [hl] at this
      exact this.symm
    subst hinit
    by_cases hi : init = []
    · subst hi
      simp [join] at hj
      exact hs hj
    · rw [join_append_nil _ _ hi] at hj
      exact h2 _ hj.symm

/-- **the first and the last segment of `pathsplit` are non-empty** -/
theorem pathsplit_ends (urlpath : Str) : Ends (pathsplit urlpath) := by
  unfold pathsplit
  simp only []
  split
  · exact ⟨fun seg h => by simp at h, fun seg h => by simp at h⟩
  · rename_i hne
    refine ends_of_join _ _ (join_splitOn_s20 _ '/') hne ?_ ?_
    · intro t h
      unfold stripChars at h
      obtain ⟨suf, hsuf⟩ := Ural.rstripChars_prefix (lstripChars (strip urlpath) ['/']) ['/']
      rw [h] at hsuf
      exact lstripChars_head_s20 _ _ _ _ hsuf (by simp)
    · intro pre h
      unfold stripChars at h
      exact rstripChars_last_s20 _ _ _ _ h (by simp)

end Ural.C19Small
