import UralModel.Model.Normalize
import UralModel.Lemmas.Str
import UralModel.Lemmas.Redirect
import UralModel.Lemmas.StrSplit
import UralModel.Lemmas.QuoteIdem
/-!
# Lemmas about the model of `normalize_url` — deletion relations and the hostname

* `DelSub P xs ys`: `ys` is `xs` with some elements removed, every removed element satisfying
  `P` (used for host labels and for query items); `delSubB` decides it.
* the subdomain scanner `subdomainSub` removes whole irrelevant labels only:
  `subdomainSub_labels`.
-/
namespace Ural.Normalize
open Ural Ural.Py Ural.UrlParts Ural.Quote Ural.Canonicalize

/-! ## deletion of elements satisfying a predicate -/

/-- `ys` is `xs` minus some elements, all of which satisfy `P`; order and the kept elements
are untouched -/
inductive DelSub {α : Type} (P : α → Prop) : List α → List α → Prop
  | nil : DelSub P [] []
  | keep (a : α) {xs ys : List α} : DelSub P xs ys → DelSub P (a :: xs) (a :: ys)
  | drop (a : α) {xs ys : List α} : P a → DelSub P xs ys → DelSub P (a :: xs) ys

namespace DelSub
variable {α : Type} {P : α → Prop}

theorem refl (xs : List α) : DelSub P xs xs := by
  induction xs with
  | nil => exact .nil
  | cons a xs ih => exact .keep a ih

theorem sublist {xs ys : List α} (h : DelSub P xs ys) : ys.Sublist xs := by
  induction h with
  | nil => exact .slnil
  | keep a _ ih => exact ih.cons_cons a
  | drop a _ _ ih => exact ih.cons a

theorem mono {Q : α → Prop} (hPQ : ∀ a, P a → Q a) {xs ys : List α} (h : DelSub P xs ys) :
    DelSub Q xs ys := by
  induction h with
  | nil => exact .nil
  | keep a _ ih => exact .keep a ih
  | drop a hp _ ih => exact .drop a (hPQ a hp) ih

/-- filtering is such a deletion -/
theorem filter (p : α → Bool) (xs : List α) : DelSub (fun a => p a = false) xs (xs.filter p) := by
  induction xs with
  | nil => exact .nil
  | cons a xs ih =>
    by_cases h : p a = true
    · simp only [List.filter_cons, h, if_true]; exact .keep a ih
    · simp only [List.filter_cons, h]; exact .drop a (by simpa using h) ih

/-- nothing is removed when no element satisfies the predicate -/
theorem eq_of_forall_not {xs ys : List α} (h : DelSub P xs ys) (hn : ∀ a ∈ xs, ¬ P a) : ys = xs := by
  induction h with
  | nil => rfl
  | keep a _ ih => rw [ih (fun b hb => hn b (List.mem_cons_of_mem a hb))]
  | drop a hp _ _ => exact absurd hp (hn a (List.mem_cons_self ..))

theorem map {β : Type} {Q : β → Prop} (f : α → β) (hf : ∀ a, P a → Q (f a)) {xs ys : List α}
    (h : DelSub P xs ys) : DelSub Q (xs.map f) (ys.map f) := by
  induction h with
  | nil => exact .nil
  | keep a _ ih => exact .keep (f a) ih
  | drop a hp _ ih => exact .drop (f a) (hf a hp) ih

end DelSub

/-- decision procedure for `DelSub` with a boolean predicate -/
def delSubB {α : Type} [DecidableEq α] (p : α → Bool) : List α → List α → Bool
  | [], [] => true
  | [], _ :: _ => false
  | a :: xs, [] => p a && delSubB p xs []
  | a :: xs, b :: ys => (a == b && delSubB p xs ys) || (p a && delSubB p xs (b :: ys))

theorem delSubB_iff {α : Type} [DecidableEq α] (p : α → Bool) (xs ys : List α) :
    delSubB p xs ys = true ↔ DelSub (fun a => p a = true) xs ys := by
  induction xs generalizing ys with
  | nil =>
    cases ys with
    | nil => simp [delSubB, DelSub.nil]
    | cons b ys => simp only [delSubB]; constructor; (intro h; cases h); (intro h; cases h)
  | cons a xs ih =>
    cases ys with
    | nil =>
      simp only [delSubB, Bool.and_eq_true, ih]
      constructor
      · rintro ⟨h1, h2⟩; exact .drop a h1 h2
      · intro h; cases h with
        | drop _ h1 h2 => exact ⟨h1, h2⟩
    | cons b ys =>
      simp only [delSubB, Bool.or_eq_true, Bool.and_eq_true, beq_iff_eq, ih]
      constructor
      · rintro (⟨h1, h2⟩ | ⟨h1, h2⟩)
        · subst h1; exact .keep a h2
        · exact .drop a h1 h2
      · intro h; cases h with
        | keep _ h2 => exact Or.inl ⟨rfl, h2⟩
        | drop _ h1 h2 => exact Or.inr ⟨h1, h2⟩

instance {α : Type} [DecidableEq α] (p : α → Bool) (xs ys : List α) :
    Decidable (DelSub (fun a => p a = true) xs ys) :=
  decidable_of_iff _ (delSubB_iff p xs ys)

/-! ## literal matching -/

/-- `s` is, ignoring case (`re.I`), the literal `pat` -/
def ciEq (pat : String) (s : Str) : Bool := matchLit pat.toList s == some []

theorem ciEq_of {pat : String} {w : Str} (h : matchLit pat.toList w = some []) : ciEq pat w = true := by
  unfold ciEq; rw [h]; simp

theorem matchLit_split (pat : List Char) (s r : Str) (h : matchLit pat s = some r) :
    ∃ pre, s = pre ++ r ∧ pre.length = pat.length ∧ matchLit pat pre = some [] ∧
      (∀ c ∈ pre, ∃ p ∈ pat, ciMatch p c = true) := by
  induction pat generalizing s with
  | nil => simp [matchLit] at h; exact ⟨[], by simp [h, matchLit]⟩
  | cons p ps ih =>
    cases s with
    | nil => simp [matchLit] at h
    | cons c cs =>
      simp only [matchLit] at h
      by_cases hc : ciMatch p c = true
      · simp only [hc, if_true] at h
        obtain ⟨pre, h1, h2, h3, h4⟩ := ih cs h
        refine ⟨c :: pre, by simp [h1], by simp [h2], by simp [matchLit, hc, h3], ?_⟩
        intro x hx
        rcases List.mem_cons.mp hx with rfl | hx
        · exact ⟨p, List.mem_cons_self .., hc⟩
        · obtain ⟨q, hq, hm⟩ := h4 x hx
          exact ⟨q, List.mem_cons_of_mem _ hq, hm⟩
      · simp [hc] at h

theorem matchLit_append (pat : List Char) (pre r : Str) (h : matchLit pat pre = some []) :
    matchLit pat (pre ++ r) = some r := by
  induction pat generalizing pre with
  | nil => cases pre <;> simp_all [matchLit]
  | cons p ps ih =>
    cases pre with
    | nil => simp [matchLit] at h
    | cons c cs =>
      simp only [matchLit, List.cons_append] at h ⊢
      by_cases hc : ciMatch p c = true
      · simp only [hc, if_true] at h ⊢; exact ih cs h
      · simp [hc] at h

/-- a character matched by a pattern character other than `.` is not a dot -/
theorem ciMatch_dot {p : Char} (h : ciMatch p '.' = true) : p = '.' := by
  simp only [ciMatch, Bool.or_eq_true, Bool.and_eq_true, decide_eq_true_eq] at h
  rcases h with ((h | h) | h) | h
  · exact h.symm
  · exact absurd h.2 (by decide)
  · exact absurd h.2 (by decide)
  · exact absurd h.2 (by decide)

/-! ## the irrelevant labels -/

/-- the label set of `IRRELEVANT_SUBDOMAIN(_AMP)_RE`: `www`, `www` + one digit, `mobile`,
`m` and, in the AMP variant, `amp` — ignoring case -/
def isIrrelevantLabel (amp : Bool) (l : Str) : Bool :=
  ciEq "www" l ||
  (match matchLit "www".toList l with | some [d] => isReDigit d | _ => false) ||
  ciEq "mobile" l || (amp && ciEq "amp" l) || ciEq "m" l

theorem afterChar_eq_some {ch : Char} {r e : Str} : afterChar ch r = some e ↔ r = ch :: e := by
  cases r with
  | nil => simp [afterChar]
  | cons c cs =>
    simp only [afterChar]
    by_cases h : c = ch
    · simp [h]
    · simp [h]

theorem afterDigit_eq_some {r e : Str} (h : afterDigit r = some e) :
    ∃ d, r = d :: e ∧ isReDigit d = true := by
  cases r with
  | nil => simp [afterDigit] at h
  | cons c cs =>
    simp only [afterDigit] at h
    by_cases hd : isReDigit c = true
    · simp only [hd, if_true, Option.some.injEq] at h; exact ⟨c, by simp [h], hd⟩
    · simp [hd] at h

private theorem dot_case {pat : String} {s r : Str} (hp : '.' ∉ pat.toList)
    (h : (matchLit pat.toList s).bind (afterChar '.') = some r) :
    ∃ l, s = l ++ '.' :: r ∧ ciEq pat l = true ∧ '.' ∉ l := by
  obtain ⟨r', hm, hr⟩ := Option.bind_eq_some_iff.mp h
  rw [afterChar_eq_some] at hr
  subst hr
  obtain ⟨pre, h1, _, h3, h4⟩ := matchLit_split _ _ _ hm
  refine ⟨pre, h1, by simp [ciEq, h3], ?_⟩
  intro hd
  obtain ⟨p, hp', hm'⟩ := h4 '.' hd
  exact hp (ciMatch_dot hm' ▸ hp')

/-- what `irrelevantLabelHere` matches is an irrelevant label followed by a dot -/
theorem irrelevantLabelHere_spec (amp : Bool) (s r : Str) (h : irrelevantLabelHere amp s = some r) :
    ∃ l, s = l ++ '.' :: r ∧ isIrrelevantLabel amp l = true ∧ '.' ∉ l := by
  unfold irrelevantLabelHere at h
  simp only [Option.or_eq_some_iff] at h
  rcases h with h | ⟨_, h | ⟨_, h | ⟨_, h⟩⟩⟩
  · -- www\d?\.
    obtain ⟨r', hm, hr⟩ := Option.bind_eq_some_iff.mp h
    obtain ⟨pre, h1, _, h3, h4⟩ := matchLit_split _ _ _ hm
    have hpre : '.' ∉ pre := by
      intro hd
      obtain ⟨p, hp', hm'⟩ := h4 '.' hd
      have := ciMatch_dot hm'
      subst this
      revert hp'; decide
    simp only [Option.or_eq_some_iff] at hr
    rcases hr with hr | ⟨_, hr⟩
    · obtain ⟨r'', hd, hdot⟩ := Option.bind_eq_some_iff.mp hr
      obtain ⟨d, rfl, hdig⟩ := afterDigit_eq_some hd
      rw [afterChar_eq_some] at hdot
      subst hdot
      refine ⟨pre ++ [d], by simp [h1], ?_, ?_⟩
      · simp only [isIrrelevantLabel, matchLit_append _ _ [d] h3, hdig, Bool.or_true, Bool.true_or]
      · simp only [List.mem_append, List.mem_singleton, not_or]
        refine ⟨hpre, ?_⟩
        rintro rfl; revert hdig; decide
    · rw [afterChar_eq_some] at hr
      subst hr
      refine ⟨pre, h1, ?_, hpre⟩
      unfold isIrrelevantLabel ciEq
      rw [h3]; simp
  · obtain ⟨l, h1, h2, h3⟩ := dot_case (pat := "mobile") (by decide) h
    exact ⟨l, h1, by simp [isIrrelevantLabel, h2], h3⟩
  · cases amp with
    | false => simp at h
    | true =>
      simp only [if_true] at h
      obtain ⟨l, h1, h2, h3⟩ := dot_case (pat := "amp") (by decide) h
      exact ⟨l, h1, by simp [isIrrelevantLabel, h2], h3⟩
  · obtain ⟨l, h1, h2, h3⟩ := dot_case (pat := "m") (by decide) h
    exact ⟨l, h1, by simp [isIrrelevantLabel, h2], h3⟩

/-! ## the scanner -/

/-- the characters of a match (which ends with a dot) are dropped; a boundary follows -/
theorem subdomainSubFrom_skip (amp : Bool) (xs r : Str) (b : Bool) :
    subdomainSubFrom amp ((xs ++ ['.']) ++ r) b (xs.length + 1) = subdomainSubFrom amp r true 0 := by
  induction xs generalizing b with
  | nil => simp [subdomainSubFrom]
  | cons x xs ih =>
    simp only [List.cons_append, List.length_cons, subdomainSubFrom]
    exact ih (x == '.')

/-- inside a label, characters are copied up to and including the next dot -/
theorem subdomainSubFrom_copy (amp : Bool) (a t : Str) (ha : '.' ∉ a) :
    subdomainSubFrom amp (a ++ '.' :: t) false 0 = a ++ '.' :: subdomainSubFrom amp t true 0 := by
  induction a with
  | nil => simp [subdomainSubFrom]
  | cons c cs ih =>
    have hc : c ≠ '.' := fun e => ha (by simp [e])
    have hcs : '.' ∉ cs := fun e => ha (by simp [e])
    simp only [List.cons_append, subdomainSubFrom, if_false, Bool.false_eq_true]
    have : (c == '.') = false := by simpa using hc
    rw [this, ih hcs]

theorem subdomainSubFrom_copy_last (amp : Bool) (a : Str) (ha : '.' ∉ a) :
    subdomainSubFrom amp a false 0 = a := by
  induction a with
  | nil => simp [subdomainSubFrom]
  | cons c cs ih =>
    have hc : c ≠ '.' := fun e => ha (by simp [e])
    have hcs : '.' ∉ cs := fun e => ha (by simp [e])
    simp only [subdomainSubFrom, if_false, Bool.false_eq_true]
    have : (c == '.') = false := by simpa using hc
    rw [this, ih hcs]

/-- every string is a first label followed by the rest, or a single label -/
theorem label_cases (s : Str) : ('.' ∉ s) ∨ ∃ a t, s = a ++ '.' :: t ∧ '.' ∉ a := by
  induction s with
  | nil => left; simp
  | cons c cs ih =>
    by_cases hc : c = '.'
    · right; exact ⟨[], cs, by simp [hc], by simp⟩
    · rcases ih with h | ⟨a, t, h1, h2⟩
      · left; simp [h, Ne.symm hc]
      · right; exact ⟨c :: a, t, by simp [h1], by simp [h2, Ne.symm hc]⟩

/-- **the subdomain scanner removes whole irrelevant labels only**: the labels of the result
are the labels of the hostname minus some labels of the irrelevant set -/
theorem subdomainSub_labels (amp : Bool) (h : Str) :
    DelSub (fun l => isIrrelevantLabel amp l = true) (splitOn h '.') (splitOn (subdomainSub amp h) '.') := by
  unfold subdomainSub
  generalize hn : h.length = n
  induction n using Nat.strongRecOn generalizing h with
  | _ n ih =>
    cases h with
    | nil => simp [subdomainSubFrom, splitOn_nil]; exact .keep _ .nil
    | cons c cs =>
      cases hm : irrelevantLabelHere amp (c :: cs) with
      | some r =>
        obtain ⟨l, h1, h2, h3⟩ := irrelevantLabelHere_spec amp _ _ hm
        have hlen : r.length < n := by
          rw [← hn, h1]; simp; omega
        have hskip : subdomainSubFrom amp (c :: cs) true 0 = subdomainSubFrom amp r true 0 := by
          simp only [subdomainSubFrom, if_true, hm]
          cases l with
          | nil =>
            simp only [List.nil_append, List.cons.injEq] at h1
            obtain ⟨rfl, rfl⟩ := h1
            simp
          | cons x xs =>
            simp only [List.cons_append, List.cons.injEq] at h1
            obtain ⟨rfl, rfl⟩ := h1
            have hk : (c :: (xs ++ '.' :: r)).length - r.length - 1 = xs.length + 1 := by
              simp; omega
            rw [hk]
            have := subdomainSubFrom_skip amp xs r (c == '.')
            simpa using this
        rw [hskip, h1, splitOn_append_sep _ _ _ h3]
        exact .drop l h2 (ih _ hlen r rfl)
      | none =>
        have hstep : subdomainSubFrom amp (c :: cs) true 0 = c :: subdomainSubFrom amp cs (c == '.') 0 := by
          simp [subdomainSubFrom, hm]
        rcases label_cases (c :: cs) with hnd | ⟨a, t, h1, h2⟩
        · -- a single label: copied
          have hc : (c == '.') = false := by
            have : c ≠ '.' := fun e => hnd (by simp [e])
            simpa using this
          have hcs : '.' ∉ cs := fun e => hnd (by simp [e])
          rw [hstep, hc, subdomainSubFrom_copy_last amp cs hcs]
          exact DelSub.refl _
        · have hlen : t.length < n := by rw [← hn, h1]; simp; omega
          have hout : subdomainSubFrom amp (c :: cs) true 0 = a ++ '.' :: subdomainSubFrom amp t true 0 := by
            rw [hstep]
            cases a with
            | nil =>
              simp at h1
              obtain ⟨rfl, rfl⟩ := h1
              simp
            | cons x xs =>
              simp at h1
              obtain ⟨rfl, rfl⟩ := h1
              have hx : (c == '.') = false := by
                have : c ≠ '.' := fun e => h2 (by simp [e])
                simpa using this
              have hxs : '.' ∉ xs := fun e => h2 (by simp [e])
              rw [hx, subdomainSubFrom_copy amp xs t hxs]
              simp
          rw [hout, h1, splitOn_append_sep _ _ _ h2, splitOn_append_sep _ _ _ h2]
          exact .keep a (ih _ hlen t rfl)

/-! ## query items -/

theorem insertItem_perm (x : QItem) (ys : List QItem) : (insertItem x ys).Perm (x :: ys) := by
  induction ys with
  | nil => exact List.Perm.refl _
  | cons y ys ih =>
    simp only [insertItem]
    by_cases h : qslLe x y = true
    · simp only [h, if_true]; exact List.Perm.refl _
    · simp only [h]
      exact (List.Perm.cons y ih).trans (List.Perm.swap x y ys)

/-- sorting only permutes -/
theorem sortQsl_perm (xs : List QItem) : (sortQsl xs).Perm xs := by
  induction xs with
  | nil => exact List.Perm.refl _
  | cons x xs ih => exact (insertItem_perm x (sortQsl xs)).trans (List.Perm.cons x ih)

/-- unquoting twice is unquoting once (C14 / C02) -/
theorem safelyUnquote_idem' (U : List UInt8) (hU : (0x25 : UInt8) ∈ U) (hA : AsciiSet U) (s : Str) :
    safelyUnquote U (safelyUnquote U s) = safelyUnquote U s := by
  have hw := wf_escapeRaw (wf_tokens s)
  have hout := outTok_unquoteToks U (escapeRaw (tokens s)) hw
  have h : tokens (safelyUnquote U s) = unquoteToks U (escapeRaw (tokens s)) :=
    tokens_render_of_canon _ (fun t ht => canon_of_outTok hU hw (hout t ht))
  unfold safelyUnquote at h ⊢
  rw [h, escapeRaw_unquoteToks, unquoteToks_idem U hU hA]

theorem unquoteQueryItem_idem (s : Str) : unquoteQueryItem (unquoteQueryItem s) = unquoteQueryItem s :=
  safelyUnquote_idem' _ (by decide) (by unfold AsciiSet; decide) s

theorem unquotePath_idem (s : Str) : unquotePath (unquotePath s) = unquotePath s :=
  safelyUnquote_idem' _ (by decide) (by unfold AsciiSet; decide) s

theorem unquoteFragment_idem (s : Str) : unquoteFragment (unquoteFragment s) = unquoteFragment s :=
  safelyUnquote_idem' _ (by decide) (by unfold AsciiSet; decide) s

theorem unquoteQsl_idem (q : List QItem) : unquoteQsl (unquoteQsl q) = unquoteQsl q := by
  simp only [unquoteQsl, List.map_map]
  apply List.map_congr_left
  rintro ⟨k, v⟩ _
  cases v <;> simp [unquoteQueryItem_idem]

/-- an item of an unquoted list is its own unquoted form -/
theorem unquoteQsl_fixed {q l : List QItem} (h : ∀ it ∈ l, it ∈ unquoteQsl q) : unquoteQsl l = l := by
  have key : ∀ it ∈ unquoteQsl q, (unquoteQueryItem it.1, it.2.map unquoteQueryItem) = it := by
    intro it hit
    simp only [unquoteQsl, List.mem_map] at hit
    obtain ⟨⟨k, v⟩, _, rfl⟩ := hit
    cases v <;> simp [unquoteQueryItem_idem]
  induction l with
  | nil => rfl
  | cons a l ih =>
    have ha := key a (h a (List.mem_cons_self ..))
    have := ih (fun it hit => h it (List.mem_cons_of_mem _ hit))
    simp only [unquoteQsl, List.map_cons] at this ⊢
    rw [this]
    obtain ⟨k, v⟩ := a
    simp only at ha ⊢
    rw [ha]

/-! ## prefixes -/

theorem startsWith_eq_append {s p : Str} (h : startsWith s p = true) : s = p ++ s.drop p.length := by
  unfold startsWith at h
  rw [List.isPrefixOf_iff_prefix] at h
  exact (List.prefix_iff_eq_append.mp h).symm

/-- `rstrip(chars)` cuts a (possibly empty) run of those characters from the end -/
theorem rstripChars_spec (p : Str) (cs : List Char) :
    ∃ t, p = rstripChars p cs ++ t ∧ ∀ c ∈ t, c ∈ cs := by
  refine ⟨(p.reverse.takeWhile (cs.contains ·)).reverse, ?_, ?_⟩
  · unfold rstripChars
    rw [← List.reverse_append, List.takeWhile_append_dropWhile, List.reverse_reverse]
  · intro c hc
    rw [List.mem_reverse] at hc
    have := mem_takeWhile_pos _ _ _ hc
    simpa using this

theorem dropWhile_head_false {α : Type} (p : α → Bool) (l : List α) (x : α) (a : List α)
    (h : l.dropWhile p = x :: a) : p x = false := by
  induction l with
  | nil => simp at h
  | cons y ys ih =>
    simp only [List.dropWhile_cons] at h
    cases hp : p y with
    | true => simp only [hp, if_true] at h; exact ih h
    | false =>
      simp only [hp] at h
      simp only [Bool.false_eq_true, if_false, List.cons.injEq] at h
      rw [← h.1]; exact hp

/-- `rsplit(sep, 1)` -/
theorem splitLast_spec (s : Str) (sep : Char) :
    (∃ a b, splitLast s sep = (some a, b) ∧ s = a ++ sep :: b ∧ sep ∉ b) ∨
    (splitLast s sep = (none, s) ∧ sep ∉ s) := by
  have hnm := splitLast_snd_not_mem s sep
  have hsplit := List.takeWhile_append_dropWhile (p := fun x => decide (x ≠ sep)) (l := s.reverse)
  unfold splitLast at *
  rw [span_eq] at *
  cases hd : List.dropWhile (fun x => decide (x ≠ sep)) s.reverse with
  | nil =>
    right
    simp only [hd] at hnm hsplit ⊢
    have hs : (List.takeWhile (fun x => decide (x ≠ sep)) s.reverse).reverse = s := by
      calc _ = (List.takeWhile (fun x => decide (x ≠ sep)) s.reverse ++ []).reverse := by simp
        _ = s.reverse.reverse := by rw [hsplit]
        _ = s := by simp
    rw [hs] at hnm ⊢
    exact ⟨rfl, hnm⟩
  | cons x a =>
    left
    simp only [hd] at hnm hsplit ⊢
    have hx : x = sep := by
      have := dropWhile_head_false _ _ _ _ hd
      simpa using this
    subst hx
    refine ⟨a.reverse, _, rfl, ?_, hnm⟩
    calc s = s.reverse.reverse := by simp
      _ = (List.takeWhile (fun y => decide (y ≠ x)) s.reverse ++ x :: a).reverse := by rw [hsplit]
      _ = _ := by simp

/-! ## the path -/

/-- is the previous character a slash once `m` has been read (`b` before it) -/
def lastSlash : Bool → Str → Bool
  | b, [] => b
  | _, c :: cs => lastSlash (c == '/') cs

/-- `$`-end, or (for `.amp` alone) `.html` followed by the `$`-end -/
def htmlTail (e : Str) : Bool := ((matchLit ".html".toList e).map atDollar).getD false

/-- `m`, found where `e` is what remains after it, is an AMP marker at the end of the path:
`.amp` or, after a slash, `amp` — ignoring case — with an optional slash, followed by the end
of the path (`.amp` alone may also be followed by `.html` and the end) -/
def IsAmpCut (prevSlash : Bool) (m e : Str) : Prop :=
  ∃ w sl, m = w ++ sl ∧ (sl = [] ∨ sl = ['/']) ∧
    ((ciEq ".amp" w = true ∧ (atDollar e = true ∨ (sl = [] ∧ htmlTail e = true))) ∨
     (prevSlash = true ∧ ciEq "amp" w = true ∧ atDollar e = true))

/-- `t` is `s` minus AMP markers standing at its end -/
inductive AmpDel : Bool → Str → Str → Prop
  | nil (b : Bool) : AmpDel b [] []
  | keep (b : Bool) (c : Char) {s t : Str} : AmpDel (c == '/') s t → AmpDel b (c :: s) (c :: t)
  | cut (b : Bool) (m : Str) {e t : Str} : m ≠ [] → IsAmpCut b m e → AmpDel (lastSlash b m) e t →
      AmpDel b (m ++ e) t

theorem AmpDel.sublist {b : Bool} {s t : Str} (h : AmpDel b s t) : t.Sublist s := by
  induction h with
  | nil => exact .slnil
  | keep _ c _ ih => exact ih.cons_cons c
  | cut _ m _ _ _ ih => exact ih.trans (List.sublist_append_right m _)

theorem AmpDel.refl (b : Bool) (s : Str) : AmpDel b s s := by
  induction s generalizing b with
  | nil => exact .nil b
  | cons c cs ih => exact .keep b c (ih _)

theorem ampEnd_spec {r e : Str} (h : ampEnd r = some e) :
    ∃ sl, r = sl ++ e ∧ (sl = [] ∨ sl = ['/']) ∧ atDollar e = true := by
  unfold ampEnd at h
  have tailcase : (if atDollar r = true then some r else none) = some e →
      ∃ sl, r = sl ++ e ∧ (sl = [] ∨ sl = ['/']) ∧ atDollar e = true := by
    intro h
    cases hd : atDollar r with
    | false => simp [hd] at h
    | true =>
      simp only [hd, if_true, Option.some.injEq] at h
      subst h; exact ⟨[], rfl, Or.inl rfl, hd⟩
  cases ha : afterChar '/' r with
  | none => simp only [ha] at h; exact tailcase h
  | some e' =>
    simp only [ha] at h
    rw [afterChar_eq_some] at ha
    cases hd' : atDollar e' with
    | true =>
      simp only [hd', if_true, Option.some.injEq] at h
      subst h; exact ⟨['/'], by simp [ha], Or.inr rfl, hd'⟩
    | false =>
      simp only [hd', Bool.false_eq_true, if_false] at h
      exact tailcase h

theorem ampSuffixHere_spec {prev : Bool} {s e : Str} (h : ampSuffixHere prev s = some e) :
    ∃ m, s = m ++ e ∧ m ≠ [] ∧ IsAmpCut prev m e := by
  unfold ampSuffixHere at h
  simp only [Option.or_eq_some_iff] at h
  rcases h with h | ⟨_, h⟩
  · obtain ⟨r, hm, hr⟩ := Option.bind_eq_some_iff.mp h
    obtain ⟨w, h1, hlen, h3, _⟩ := matchLit_split _ _ _ hm
    have hw : w ≠ [] := by intro e; subst e; simp at hlen
    by_cases hh : ((matchLit ".html".toList r).map atDollar).getD false = true
    · simp only [hh, if_true, Option.some.injEq] at hr
      subst hr
      exact ⟨w, h1, hw, w, [], by simp, Or.inl rfl, Or.inl ⟨ciEq_of h3, Or.inr ⟨rfl, hh⟩⟩⟩
    · simp only [hh] at hr
      obtain ⟨sl, h2, hsl, hd⟩ := ampEnd_spec hr
      exact ⟨w ++ sl, by simp [h1, h2], by simp [hw], w, sl, rfl, hsl, Or.inl ⟨ciEq_of h3, Or.inl hd⟩⟩
  · cases prev with
    | false => simp at h
    | true =>
      simp only [if_true] at h
      obtain ⟨r, hm, hr⟩ := Option.bind_eq_some_iff.mp h
      obtain ⟨w, h1, hlen, h3, _⟩ := matchLit_split _ _ _ hm
      have hw : w ≠ [] := by intro e; subst e; simp at hlen
      obtain ⟨sl, h2, hsl, hd⟩ := ampEnd_spec hr
      exact ⟨w ++ sl, by simp [h1, h2], by simp [hw], w, sl, rfl, hsl, Or.inr ⟨rfl, ciEq_of h3, hd⟩⟩

theorem ampSuffixSubFrom_skip (xs r : Str) (b : Bool) :
    ampSuffixSubFrom (xs ++ r) b xs.length = ampSuffixSubFrom r (lastSlash b xs) 0 := by
  induction xs generalizing b with
  | nil => simp [lastSlash]
  | cons x xs ih =>
    simp only [List.cons_append, List.length_cons, ampSuffixSubFrom, lastSlash]
    exact ih (x == '/')

/-- **`AMP_SUFFIXES_RE.sub` removes AMP markers at the end of the path only** -/
theorem ampSuffixSubFrom_del (s : Str) (prev : Bool) : AmpDel prev s (ampSuffixSubFrom s prev 0) := by
  generalize hn : s.length = n
  induction n using Nat.strongRecOn generalizing s prev with
  | _ n ih =>
    cases s with
    | nil => simp [ampSuffixSubFrom]; exact .nil prev
    | cons c cs =>
      cases hm : ampSuffixHere prev (c :: cs) with
      | none =>
        have : ampSuffixSubFrom (c :: cs) prev 0 = c :: ampSuffixSubFrom cs (c == '/') 0 := by
          simp [ampSuffixSubFrom, hm]
        rw [this]
        exact .keep prev c (ih _ (by rw [← hn]; simp) cs _ rfl)
      | some e =>
        obtain ⟨m, h1, hne, hcut⟩ := ampSuffixHere_spec hm
        cases m with
        | nil => exact absurd rfl hne
        | cons x xs =>
          simp only [List.cons_append, List.cons.injEq] at h1
          obtain ⟨rfl, rfl⟩ := h1
          have hk : (c :: (xs ++ e)).length - e.length - 1 = xs.length := by simp; omega
          have : ampSuffixSubFrom (c :: (xs ++ e)) prev 0 = ampSuffixSubFrom e (lastSlash prev (c :: xs)) 0 := by
            simp only [ampSuffixSubFrom, hm, hk, lastSlash]
            exact ampSuffixSubFrom_skip xs e (c == '/')
          rw [this]
          have hlen : e.length < n := by rw [← hn]; simp; omega
          exact .cut prev (c :: xs) hne hcut (ih _ hlen e _ rfl)

theorem ampSuffixSub_del (p : Str) : AmpDel false p (ampSuffixSub p) := ampSuffixSubFrom_del p false

/-- the last segment is an index page: its `splitext` root is `index` or `default` -/
def isIndexFile (last : Str) : Bool :=
  splitextRoot last == "index".toList || splitextRoot last == "default".toList

/-- `p'` is `p` without its last segment, which is an index page (the slash before it goes
too) -/
def IndexCut (p p' : Str) : Prop :=
  ∃ last, '/' ∉ last ∧ isIndexFile last = true ∧ ((p = p' ++ '/' :: last) ∨ (p = last ∧ p' = []))

theorem stripIndex_spec (p : Str) : stripIndex p = p ∨ IndexCut p (stripIndex p) := by
  unfold stripIndex
  by_cases h : splitextRoot (splitLast p '/').2 = "index".toList ∨ splitextRoot (splitLast p '/').2 = "default".toList
  · right
    simp only [h, if_true]
    have hidx : isIndexFile (splitLast p '/').2 = true := by
      simp only [isIndexFile, Bool.or_eq_true, beq_iff_eq]; exact h
    rcases splitLast_spec p '/' with ⟨a, b, h1, h2, h3⟩ | ⟨h1, h2⟩
    · rw [h1] at hidx ⊢
      exact ⟨b, h3, hidx, Or.inl (by simpa using h2)⟩
    · rw [h1] at hidx ⊢
      exact ⟨p, h2, hidx, Or.inr ⟨rfl, rfl⟩⟩
  · left; simp only [h, if_false]

theorem IndexCut.prefix {p p' : Str} (h : IndexCut p p') : p' <+: p := by
  obtain ⟨last, _, _, h | ⟨_, h⟩⟩ := h
  · exact ⟨_, h.symm⟩
  · subst h; exact List.nil_prefix

/-! ## at most one AMP marker is removed -/

theorem matchLit_cons {p : Char} {ps : List Char} {s r : Str} (h : matchLit (p :: ps) s = some r) :
    ∃ c cs, s = c :: cs ∧ ciMatch p c = true ∧ matchLit ps cs = some r := by
  cases s with
  | nil => simp [matchLit] at h
  | cons c cs =>
    simp only [matchLit] at h
    by_cases hc : ciMatch p c = true
    · simp only [hc, if_true] at h; exact ⟨c, cs, rfl, hc, h⟩
    · simp [hc] at h

theorem ciEq_length {pat : String} {w : Str} (h : ciEq pat w = true) : w.length = pat.toList.length := by
  unfold ciEq at h
  have h' : matchLit pat.toList w = some [] := by simpa using h
  obtain ⟨pre, h1, h2, _, _⟩ := matchLit_split _ _ _ h'
  simp at h1; rw [h1]; exact h2

/-- the first two characters of something that reads `.amp` / `amp` ignoring case -/
theorem ciEq_dotamp_head {w : Str} (h : ciEq ".amp" w = true) :
    ∃ x0 x1 r, w = x0 :: x1 :: r ∧ ciMatch '.' x0 = true ∧ ciMatch 'a' x1 = true := by
  have h' : matchLit ['.', 'a', 'm', 'p'] w = some [] := by simpa [ciEq] using h
  obtain ⟨x0, r0, rfl, h0, h1⟩ := matchLit_cons h'
  obtain ⟨x1, r1, rfl, h2, _⟩ := matchLit_cons h1
  exact ⟨x0, x1, r1, rfl, h0, h2⟩

theorem ciEq_amp_head {w : Str} (h : ciEq "amp" w = true) :
    ∃ x0 r, w = x0 :: r ∧ ciMatch 'a' x0 = true := by
  have h' : matchLit ['a', 'm', 'p'] w = some [] := by simpa [ciEq] using h
  obtain ⟨x0, r0, rfl, h0, _⟩ := matchLit_cons h'
  exact ⟨x0, r0, rfl, h0⟩

/-- the characters of `.html` (ignoring case) and the end: none reads `a`, and only the first
reads `.` — and then the next one reads `h`, not `a` -/
def NoAmpStart : Str → Prop
  | [] => True
  | c :: cs => ciMatch 'a' c = false ∧
      (ciMatch '.' c = true → match cs with | d :: _ => ciMatch 'a' d = false | [] => True) ∧ NoAmpStart cs

theorem noAmpStart_no_cut {e : Str} (hn : NoAmpStart e) (b : Bool) (m e' : Str) (hm : m ≠ [])
    (hcut : IsAmpCut b m e') (a : Str) (he : e = a ++ m ++ e') : False := by
  induction a generalizing e with
  | nil =>
    obtain ⟨w, sl, hw, _, hc | ⟨_, hc, _⟩⟩ := hcut
    · obtain ⟨x0, x1, r, rfl, h0, h1⟩ := ciEq_dotamp_head hc.1
      subst hw; simp only [List.nil_append, List.cons_append] at he
      subst he
      simp only [NoAmpStart] at hn
      have := hn.2.1 h0
      simp [h1] at this
    · obtain ⟨x0, r, rfl, h0⟩ := ciEq_amp_head hc
      subst hw; simp only [List.nil_append, List.cons_append] at he
      subst he
      simp only [NoAmpStart] at hn
      simp [h0] at hn
  | cons x xs ih =>
    simp only [List.cons_append] at he
    subst he
    simp only [NoAmpStart] at hn
    exact ih hn.2.2 rfl

theorem ampDel_noAmpStart {b : Bool} {e t : Str} (h : AmpDel b e t) (hn : NoAmpStart e) : t = e := by
  induction h with
  | nil => rfl
  | keep _ c _ ih =>
    simp only [NoAmpStart] at hn
    rw [ih hn.2.2]
  | cut b m hm hcut _ _ => exact (noAmpStart_no_cut hn b m _ hm hcut [] (by simp)).elim

theorem atDollar_noAmpStart {e : Str} (h : atDollar e = true) : NoAmpStart e := by
  have : e = [] ∨ e = ['\n'] := by
    simp only [atDollar, Bool.or_eq_true, List.isEmpty_iff, beq_iff_eq] at h; exact h
  rcases this with rfl | rfl
  · trivial
  · simp only [NoAmpStart]; decide

theorem ciMatch_two {p q : Char} {c : Char} (hp : ciMatch p c = true) (hq : ciMatch q c = true)
    (hp' : p ≠ 'i' ∧ p ≠ 's' ∧ p ≠ 'k') (hq' : q ≠ 'i' ∧ q ≠ 's' ∧ q ≠ 'k') : p = q := by
  simp only [ciMatch, Bool.or_eq_true, Bool.and_eq_true, decide_eq_true_eq] at hp hq
  have h1 : lowerChar c = p := by
    rcases hp with ((h | h) | h) | h
    · exact h
    · exact absurd h.1 hp'.1
    · exact absurd h.1 hp'.2.1
    · exact absurd h.1 hp'.2.2
  have h2 : lowerChar c = q := by
    rcases hq with ((h | h) | h) | h
    · exact h
    · exact absurd h.1 hq'.1
    · exact absurd h.1 hq'.2.1
    · exact absurd h.1 hq'.2.2
  rw [← h1, ← h2]

theorem htmlTail_noAmpStart {e : Str} (h : htmlTail e = true) : NoAmpStart e := by
  unfold htmlTail at h
  have hl : ".html".toList = ['.', 'h', 't', 'm', 'l'] := rfl
  rw [hl] at h
  cases hm' : matchLit ['.', 'h', 't', 'm', 'l'] e with
  | none => simp [hm'] at h
  | some e2 =>
    simp only [hm', Option.map_some, Option.getD_some] at h
    obtain ⟨c1, r1, rfl, h1, hm1⟩ := matchLit_cons hm'
    obtain ⟨c2, r2, rfl, h2, hm2⟩ := matchLit_cons hm1
    obtain ⟨c3, r3, rfl, h3, hm3⟩ := matchLit_cons hm2
    obtain ⟨c4, r4, rfl, h4, hm4⟩ := matchLit_cons hm3
    obtain ⟨c5, r5, rfl, h5, hm5⟩ := matchLit_cons hm4
    simp only [matchLit, Option.some.injEq] at hm5
    subst hm5
    have na : ∀ {q c : Char}, ciMatch q c = true → (q ≠ 'i' ∧ q ≠ 's' ∧ q ≠ 'k') → q ≠ 'a' → ciMatch 'a' c = false := by
      intro q c hq hq' hne
      cases ha : ciMatch 'a' c with
      | false => rfl
      | true => exact absurd (ciMatch_two ha hq (by decide) hq').symm hne
    have nd : ∀ {q c : Char}, ciMatch q c = true → (q ≠ 'i' ∧ q ≠ 's' ∧ q ≠ 'k') → q ≠ '.' → ciMatch '.' c = false := by
      intro q c hq hq' hne
      cases ha : ciMatch '.' c with
      | false => rfl
      | true => exact absurd (ciMatch_two ha hq (by decide) hq').symm hne
    have t := atDollar_noAmpStart h
    simp only [NoAmpStart]
    refine ⟨na h1 (by decide) (by decide), fun _ => na h2 (by decide) (by decide),
      na h2 (by decide) (by decide), ?_, na h3 (by decide) (by decide), ?_,
      na h4 (by decide) (by decide), ?_, na h5 (by decide) (by decide), ?_, t⟩
    · intro hd; simp [nd h2 (by decide) (by decide)] at hd
    · intro hd; simp [nd h3 (by decide) (by decide)] at hd
    · intro hd; simp [nd h4 (by decide) (by decide)] at hd
    · intro hd; simp [nd h5 (by decide) (by decide)] at hd

/-- what follows an AMP marker holds no further one -/
theorem isAmpCut_tail {b : Bool} {m e : Str} (h : IsAmpCut b m e) : NoAmpStart e := by
  obtain ⟨w, sl, _, _, ⟨_, hd | ⟨_, hd⟩⟩ | ⟨_, _, hd⟩⟩ := h
  · exact atDollar_noAmpStart hd
  · exact htmlTail_noAmpStart hd
  · exact atDollar_noAmpStart hd

/-- `t` is `s`, or `s` minus exactly one AMP marker standing at its end -/
def AmpCutOnce (b : Bool) (s t : Str) : Prop :=
  t = s ∨ ∃ a m e, s = a ++ m ++ e ∧ t = a ++ e ∧ m ≠ [] ∧ IsAmpCut (lastSlash b a) m e

/-- **at most one AMP marker is removed** -/
theorem AmpDel.once {b : Bool} {s t : Str} (h : AmpDel b s t) : AmpCutOnce b s t := by
  induction h with
  | nil => left; rfl
  | keep b c _ ih =>
    rcases ih with rfl | ⟨a, m, e, rfl, rfl, hm, hcut⟩
    · left; rfl
    · right; exact ⟨c :: a, m, e, by simp, by simp, hm, by simpa [lastSlash] using hcut⟩
  | cut b m hm hcut hrest _ =>
    right
    have := ampDel_noAmpStart hrest (isAmpCut_tail hcut)
    subst this
    exact ⟨[], m, _, rfl, rfl, hm, by simpa [lastSlash] using hcut⟩

end Ural.Normalize
