import UralModel.Lemmas.Fingerprint
import UralModel.Props.C08
/-!
# C06 — the public suffix (through C08's `split_spec`)

* `stripSuffix_of_parts`: when the labels of the host are `D ++ S` and the Public Suffix
  algorithm (C08's specification `hostLen`, over the rule *list*) says the suffix has
  `S.length` labels, `split_suffix` leaves `D` — whatever `S` is;
* `WalkLaws`: what the theorems assume of `Env.walkHost` (`safe_urlsplit(hostname).hostname`):
  a plain hostname comes back lower-cased; **proved** for the hand model `pyWalkHost`.
-/
set_option linter.unusedSimpArgs false
set_option linter.unusedVariables false

namespace Ural.Fingerprint
open Ural Ural.Py Ural.UrlParts Ural.Normalize Ural.SuffixTrie Ural.Props.C08

/-- **the suffix goes, the rest stays**: `split_suffix(g)[0]` is `D` when the labels of the host
are `D ++ S` and `S` is its public suffix under the rule list -/
theorem stripSuffix_of_parts (E : Env) (lines : List Str) (ht : E.trie = SuffixTrie.build lines)
    (g w : Str) (D S : List Str) (hwalk : E.walkHost g = .ok (some w))
    (hsp : isSpecialHost w = false) (hparts : hostParts w = D ++ S)
    (hlen : hostLen lines w = some S.length) :
    stripSuffix E g = .ok (join dot D) := by
  unfold stripSuffix
  rw [hwalk]
  simp only [ht, split_spec lines w hsp, hlen, Option.map_some, hparts, List.length_append,
    Nat.add_sub_cancel, List.take_left']

/-- no rule matches: the host is left alone -/
theorem stripSuffix_none (E : Env) (lines : List Str) (ht : E.trie = SuffixTrie.build lines)
    (g w : Str) (hwalk : E.walkHost g = .ok (some w)) (hsp : isSpecialHost w = false)
    (hlen : hostLen lines w = none) : stripSuffix E g = .ok g := by
  unfold stripSuffix
  rw [hwalk]
  simp only [ht, split_spec lines w hsp, hlen, Option.map_none]

/-! ## `safe_urlsplit(hostname).hostname` -/

/-- a character of a plain hostname: no delimiter of the URL or of the authority, no control
character or space -/
def plainHostChar (c : Char) : Bool :=
  decide (0x20 < c.toNat) &&
    !(c = '/' || c = '?' || c = '#' || c = '@' || c = ':' || c = '[' || c = ']' || c = '%')

def PlainHost (h : Str) : Prop := h ≠ [] ∧ ∀ c ∈ h, plainHostChar c = true

/-- what the theorems assume of `Env.walkHost` -/
structure WalkLaws (walk : Str → Except Err (Option Str)) : Prop where
  plain : ∀ h, PlainHost h → walk h = .ok (some (lower h))

theorem plain_not_mem {h : Str} (hp : PlainHost h) (d : Char) (hd : plainHostChar d = false) : d ∉ h := by
  intro hm
  rw [hp.2 d hm] at hd
  cases hd

theorem filter_all {α : Type} (p : α → Bool) (l : List α) (h : ∀ c ∈ l, p c = true) : l.filter p = l :=
  List.filter_eq_self.2 h

theorem pyHostname_plain {h : Str} (hp : PlainHost h) : pyHostname h = some (lower h) := by
  have hat : '@' ∉ h := plain_not_mem hp '@' (by decide)
  have hl : '[' ∉ h := plain_not_mem hp '[' (by decide)
  have hc : ':' ∉ h := plain_not_mem hp ':' (by decide)
  have hpc : '%' ∉ h := plain_not_mem hp '%' (by decide)
  have hi : pyHostinfo h = (h, none) := by
    unfold pyHostinfo
    simp only [splitLast_of_not_mem _ _ hat, splitFirst_notMem_s20 _ _ hl, splitFirst_notMem_s20 _ _ hc]
    simp
  unfold pyHostname
  rw [hi]
  have hne : h.isEmpty = false := by
    cases hh : h with
    | nil => exact absurd hh hp.1
    | cons a b => rfl
  simp only [hne, Bool.false_eq_true, if_false, hostnameView, splitFirst_notMem_s20 _ _ hpc]
  simp

/-- **the hand model of `safe_urlsplit(h).hostname` obeys the law** -/
theorem walkLaws_py : WalkLaws pyWalkHost := by
  refine ⟨?_⟩
  intro h hp
  have hslash : '/' ∉ h := plain_not_mem hp '/' (by decide)
  have hcolon : ':' ∉ h := plain_not_mem hp ':' (by decide)
  -- no protocol in front
  have hproto : hasProtocol h = false := by
    unfold hasProtocol Ural.protoLen
    have h1 : startsWith h ['/', '/'] = false := by
      cases h with
      | nil => rfl
      | cons a b =>
        have : a ≠ '/' := fun e => hslash (by simp [e])
        simp [startsWith, List.isPrefixOf, this.symm]
    have h2 : startsWith (h.dropWhile isAsciiAlpha) [':', '/', '/'] = false := by
      cases hd : h.dropWhile isAsciiAlpha with
      | nil => rfl
      | cons a b =>
        have hm : a ∈ h := (List.dropWhile_sublist isAsciiAlpha).subset (by rw [hd]; simp)
        have : a ≠ ':' := fun e => hcolon (by rw [← e]; exact hm)
        simp [startsWith, List.isPrefixOf, this.symm]
    simp only [h1, h2, Bool.false_eq_true, if_false, Bool.and_false, ite_self, Option.isSome_none]
  unfold pyWalkHost ensureHttp
  simp only [hproto, Bool.false_eq_true, if_false]
  have e : "http://".toList = ['h', 't', 't', 'p', ':', '/', '/'] := by decide
  rw [e]
  -- the cleaning of `urlsplit` leaves the string alone
  have hsafe : ∀ c ∈ h, (!isUnsafeUrlChar c) = true := by
    intro c hc
    have := hp.2 c hc
    simp only [plainHostChar, Bool.and_eq_true, decide_eq_true_eq] at this
    have h20 := this.1
    simp only [isUnsafeUrlChar, Bool.not_eq_true', Bool.or_eq_false_iff, decide_eq_false_iff_not]
    refine ⟨⟨?_, ?_⟩, ?_⟩ <;> (intro e; rw [e] at h20; revert h20; decide)
  have hclean : cleanUrl (['h', 't', 't', 'p', ':', '/', '/'] ++ h) = ['h', 't', 't', 'p', ':', '/', '/'] ++ h := by
    unfold cleanUrl
    have hd : (['h', 't', 't', 'p', ':', '/', '/'] ++ h).dropWhile isC0OrSpace = ['h', 't', 't', 'p', ':', '/', '/'] ++ h := by
      simp [List.dropWhile, isC0OrSpace]
    rw [hd, List.filter_append, filter_all _ h hsafe]
    rfl
  have hdelim : ∀ c ∈ h, (!isNetlocDelim c) = true := by
    intro c hc
    have := hp.2 c hc
    simp only [plainHostChar, Bool.and_eq_true, Bool.not_eq_true', Bool.or_eq_false_iff,
      decide_eq_false_iff_not] at this
    simp only [isNetlocDelim, Bool.not_eq_true', Bool.or_eq_false_iff, decide_eq_false_iff_not]
    exact ⟨⟨this.2.1.1.1.1.1.1.1, this.2.1.1.1.1.1.1.2⟩, this.2.1.1.1.1.1.2⟩
  have hbr : h.contains '[' = false ∧ h.contains ']' = false := by
    constructor
    · simpa using plain_not_mem hp '[' (by decide)
    · simpa using plain_not_mem hp ']' (by decide)
  have hsplit : Py.urlsplit (['h', 't', 't', 'p', ':', '/', '/'] ++ h) =
      some ⟨['h', 't', 't', 'p'], h, [], [], []⟩ := by
    unfold Py.urlsplit
    rw [hclean]
    have hs : splitScheme (['h', 't', 't', 'p', ':', '/', '/'] ++ h) [] = (['h', 't', 't', 'p'], '/' :: '/' :: h) := by
      unfold splitScheme
      have : ['h', 't', 't', 'p', ':', '/', '/'] ++ h = ['h', 't', 't', 'p'] ++ ':' :: ('/' :: '/' :: h) := by simp
      rw [this, splitFirst_append_sep_s20 _ _ ':' (by decide)]
      rfl
    have hn : splitNetloc ('/' :: '/' :: h) = (h, []) := by
      unfold splitNetloc
      simp only [startsWith, List.isPrefixOf, beq_self_eq_true, Bool.and_self, Bool.true_and, if_true, List.drop]
      rw [takeWhile_all _ h hdelim, dropWhile_all _ h hdelim]
    simp only [hs, hn, netlocOk, hbr.1, hbr.2, bne_self_eq_false, Bool.false_eq_true, if_false,
      Bool.not_true, splitFirst_nil_s20]
    simp
  rw [hsplit]
  simp only [pyHostname_plain hp]

end Ural.Fingerprint
