import UralModel.Lemmas.LruTrie
import UralModel.Lemmas.LruSerial
/-!
# The two models of `ural/lru/serialization.py` / `clean_trailing_path` are the same functions

`Model/LruTrie.lean` (C11: accumulator splitter `splitGo`, tag class regenerated into
`Gen.LruSplitter.tags`, `join`) and `Model/Lru.lean` (C12 / C13: `splitBy`, hand-written
`tagChars`, `joinChar`) model the same three Python functions twice.  Here they are proved equal
as functions, so that what C12 proves of the stems of a URL (`Lru.StemsOK`) discharges the
hypothesis `LruTrie.WellTagged` of the C11 theorems.

The only link that is not pure unfolding is the tag class: `tags_same_set` is a table obligation
(`decide` over the regenerated list).
-/
set_option linter.unusedSimpArgs false

namespace Ural.LruTrie
open Ural Ural.Py

/-- **table obligation**: the tag letters read off the compiled `SERIALIZED_LRU_SPLITTER_RE`
(regenerated) are, as a set, the hand-written class of `Model/Lru.lean` -/
theorem tags_same_set :
    (Gen.LruSplitter.tags.all Lru.tagChars.contains &&
      Lru.tagChars.all Gen.LruSplitter.tags.contains) = true := by decide

theorem tags_contains (c : Char) : Gen.LruSplitter.tags.contains c = Lru.tagChars.contains c := by
  have h := tags_same_set
  simp only [Bool.and_eq_true, List.all_eq_true] at h
  obtain ⟨h1, h2⟩ := h
  cases ha : Gen.LruSplitter.tags.contains c with
  | true =>
    have hm : c ∈ Gen.LruSplitter.tags := by simpa using ha
    exact (h1 c hm).symm
  | false =>
    cases hb : Lru.tagChars.contains c with
    | false => rfl
    | true =>
      have hm : c ∈ Lru.tagChars := by simpa using hb
      rw [h2 c hm] at ha
      cases ha

/-- the two look-aheads `(?=[shtpqfuw]:)` -/
theorem startsTag_eq_tagAhead (s : Str) : startsTag s = Lru.tagAhead s := by
  match s with
  | [] => rfl
  | [_] => rfl
  | c :: d :: r =>
    by_cases hd : d = ':'
    · subst hd
      simp only [startsTag, Lru.tagAhead, beq_self_eq_true, Bool.true_and]
      exact tags_contains c
    · have : Lru.tagAhead (c :: d :: r) = false := by
        unfold Lru.tagAhead
        split
        · next a r' heq =>
          simp only [List.cons.injEq] at heq
          exact absurd heq.2.1 hd
        · rfl
      rw [this]
      simp [startsTag, hd]

/-- glue `a` in front of the first piece -/
def prependHead (a : Str) : List Str → List Str
  | [] => [a]
  | h :: t => (a ++ h) :: t

theorem prependHead_nil {l : List Str} (h : l ≠ []) : prependHead [] l = l := by
  cases l with
  | nil => exact absurd rfl h
  | cons x xs => rfl

theorem splitBy_ne_nil' (p : Char → Str → Bool) (s : Str) : splitBy p s ≠ [] := by
  cases s with
  | nil => simp [splitBy]
  | cons c cs =>
    simp only [splitBy]
    split
    · simp
    · cases splitBy p cs <;> simp [consHead]

theorem prependHead_consHead (a : Str) (c : Char) {l : List Str} (h : l ≠ []) :
    prependHead a (consHead c l) = prependHead (a ++ [c]) l := by
  cases l with
  | nil => exact absurd rfl h
  | cons x xs => simp [prependHead, consHead]

/-- the accumulator splitter of `Model/LruTrie.lean` is `splitBy` with the piece in progress
glued in front -/
theorem splitGo_eq (s acc : Str) :
    splitGo s acc =
      prependHead acc.reverse (splitBy (fun c rest => c == '|' && Lru.tagAhead rest) s) := by
  induction s generalizing acc with
  | nil => simp [splitGo, splitBy, prependHead]
  | cons c cs ih =>
    simp only [splitGo, splitBy]
    by_cases h : c = '|' ∧ startsTag cs = true
    · have h' : (c == '|' && Lru.tagAhead cs) = true := by
        rw [← startsTag_eq_tagAhead]; simp [h.1, h.2]
      rw [if_pos h, if_pos h', ih [], List.reverse_nil, prependHead_nil (splitBy_ne_nil' _ cs)]
      simp only [prependHead, List.append_nil]
    · have h' : ¬ ((c == '|' && Lru.tagAhead cs) = true) := by
        rw [← startsTag_eq_tagAhead]
        intro e
        simp only [Bool.and_eq_true, beq_iff_eq] at e
        exact h e
      rw [if_neg h, if_neg h', ih (c :: acc), prependHead_consHead _ _ (splitBy_ne_nil' _ cs)]
      simp

/-- **`unserialize_lru`: the two models are the same function** -/
theorem unserializeLru_eq (lru : Str) : unserializeLru lru = Lru.unserializeLru lru := by
  unfold unserializeLru Lru.unserializeLru
  rw [splitGo_eq]
  exact prependHead_nil (splitBy_ne_nil' _ _)

theorem join_bar_eq (stems : List Str) : join ['|'] stems = joinChar '|' stems := by
  induction stems with
  | nil => rfl
  | cons x xs ih =>
    cases xs with
    | nil => rfl
    | cons y ys => simp only [join, joinChar, ih, List.append_assoc, List.singleton_append]

/-- **`serialize_lru`: the two models are the same function** -/
theorem serializeLru_eq (stems : List Str) : serializeLru stems = Lru.serializeLru stems := by
  unfold serializeLru Lru.serializeLru
  rw [join_bar_eq]

/-- **`clean_trailing_path`: the two models are the same function** -/
theorem cleanTrailingPath_eq (stems : List Str) :
    cleanTrailingPath stems = Lru.cleanTrailingPath stems := by
  unfold cleanTrailingPath Lru.cleanTrailingPath emptyPathStem
  congr 1
  funext s
  by_cases h : s = ['p', ':'] <;> simp [h]

/-- **what C12 proves of the stems of a URL is what the C11 theorems ask for** -/
theorem wellTagged_of_stemsOK {stems : List Str} (h : Lru.StemsOK stems) : WellTagged stems := by
  refine ⟨h.ne, fun l hl c hc e => h.nobar l hl (e ▸ hc), ?_⟩
  intro l hl
  have := h.tagged l hl []
  rw [List.append_nil] at this
  rw [startsTag_eq_tagAhead]
  exact this

/-- … and conversely: the two well-formedness predicates are the same -/
theorem stemsOK_of_wellTagged {stems : List Str} (h : WellTagged stems) : Lru.StemsOK stems := by
  obtain ⟨hne, hbf, htag⟩ := h
  refine ⟨hne, fun s hs hm => hbf s hs '|' hm rfl, ?_⟩
  intro s hs r
  rw [← startsTag_eq_tagAhead]
  exact startsTag_append s r (htag s hs)

end Ural.LruTrie
