import UralModel.Lemmas.C04Base
import UralModel.Lemmas.C04Path
/-!
# C04 — the component lemmas again, for BOTH values of `lowercase`

`Lemmas/C04Query.lean`, `Lemmas/C04Path.lean` and `Lemmas/C04Base.lean` describe how the query and
the path enter the result of `normalize_url` under `lowercase = False` (the documented API).
`fingerprint_url` calls `normalize_url(…, lowercase=True)`: what has just been unescaped is
lower-cased before the case-sensitive steps look at it.  Here the same facts are proved for every
`o : Opts`, the case folding being part of the statement:

* `lcStr o s`  — `s.lower()` under `lowercase`, else `s` (path, fragment);
* `lcItem o it` — key and value lower-cased under `lowercase` (query items).

`outQuery_eq_lc`, `normParts_congr_query_lc`, `pathSteps_trailing_slash_lc`, `pathSteps_index_lc`.
-/
set_option linter.unusedSimpArgs false
namespace Ural.Normalize
open Ural Ural.Py Ural.UrlParts Ural.Quote Ural.Canonicalize Ural.Normpath

/-- `s.lower()` under `lowercase`, else `s` -/
def lcStr (o : Opts) (s : Str) : Str := if o.lowercase then lower s else s

/-- key and value lower-cased under `lowercase` -/
def lcItem (o : Opts) (it : QItem) : QItem :=
  if o.lowercase then (lower it.1, it.2.map lower) else it

theorem lcStr_false (o : Opts) (h : o.lowercase = false) (s : Str) : lcStr o s = s := by
  simp [lcStr, h]

theorem lcItem_false (o : Opts) (h : o.lowercase = false) (it : QItem) : lcItem o it = it := by
  simp [lcItem, h]

theorem lcItem_empty (o : Opts) : lcItem o ([], none) = ([], none) := by
  unfold lcItem; cases o.lowercase <;> rfl

theorem lcStr_nil (o : Opts) : lcStr o [] = [] := by
  unfold lcStr; cases o.lowercase <;> rfl

theorem lcStr_append (o : Opts) (a b : Str) : lcStr o (a ++ b) = lcStr o a ++ lcStr o b := by
  unfold lcStr; cases o.lowercase <;> simp [lower]

theorem lcStr_slash_cons (o : Opts) (a : Str) : lcStr o ('/' :: a) = '/' :: lcStr o a := by
  have h : lowerChar '/' = '/' := by decide
  unfold lcStr; cases o.lowercase <;> simp [lower, h]

theorem lcStr_slash (o : Opts) : lcStr o ['/'] = ['/'] := by
  rw [lcStr_slash_cons, lcStr_nil]

theorem lower_cons' (c : Char) (s : Str) : lower (c :: s) = lowerChar c :: lower s := by simp [lower]

theorem lowerChar_eq_of_small {c : Char} {k : Char} (hk : k.toNat < 65) (h : lowerChar c = k) : c = k := by
  unfold lowerChar at h
  split at h
  · rename_i hr
    exfalso
    have h3 : ('A' : Char).toNat = 65 := by decide
    have h4 : ('Z' : Char).toNat = 90 := by decide
    rw [char_le_iff, char_le_iff, h3, h4] at hr
    have ht : (Char.ofNat (c.toNat + 32)).toNat = c.toNat + 32 := toNat_ofNat_small _ (by omega)
    have : (Char.ofNat (c.toNat + 32)).toNat = k.toNat := by rw [h]
    rw [ht] at this
    omega
  · exact h

theorem lowerChar_slash_iff (c : Char) : lowerChar c = '/' ↔ c = '/' :=
  ⟨lowerChar_eq_of_small (by decide), fun h => by subst h; decide⟩

theorem lowerChar_bang_iff (c : Char) : lowerChar c = '!' ↔ c = '!' :=
  ⟨lowerChar_eq_of_small (by decide), fun h => by subst h; decide⟩

theorem startsWith_one (c a : Char) (s : Str) : startsWith (a :: s) [c] = (c == a) := by
  simp [startsWith, List.isPrefixOf]

theorem startsWith_one_lower (c : Char) (hc : ∀ d, lowerChar d = c ↔ d = c) (s : Str) :
    startsWith (lower s) [c] = startsWith s [c] := by
  cases s with
  | nil => rfl
  | cons a r =>
    rw [lower_cons', startsWith_one, startsWith_one]
    by_cases h : a = c
    · subst h; rw [(hc a).2 rfl]
    · have h' : lowerChar a ≠ c := fun e => h ((hc a).1 e)
      rw [beq_eq_false_iff_ne.2 (Ne.symm h), beq_eq_false_iff_ne.2 (Ne.symm h')]

theorem absPath_lower (u : Str) : absPath (lower u) = absPath u := by
  unfold absPath
  rw [startsWith_one_lower '/' lowerChar_slash_iff]
  cases u <;> rfl

theorem absPath_lcStr (o : Opts) (u : Str) : absPath (lcStr o u) = absPath u := by
  unfold lcStr; cases o.lowercase <;> simp [absPath_lower]

/-! ## the query -/

theorem filterQuery_lc (o : Opts) (host : Option Str) (query : Str) :
    filterQuery o host query =
      if query.isEmpty then []
      else sortIf o.sortQuery (((unquoteQsl (safeQslIter query)).map (lcItem o)).filter (keepItem o host)) := by
  unfold filterQuery sortIf keepItem lcItem
  cases o.lowercase <;> simp

/-- **the query of the result depends on the raw query only through
`(seenItems (decoded q)).map (lcItem o)`**, for both values of `lowercase`: repair, unescape, fold
the case on request, filter, sort on request, quote on request, serialise -/
theorem outQuery_eq_lc (hk : KeepsEmpty) (o : Opts) (host : Option Str) (q : Str) :
    renderQsl o.quoted (filterQuery o host (fixedQ o q)) =
      renderQsl o.quoted (sortIf o.sortQuery
        (((seenItems o.fixCommonMistakes (decoded q)).map (lcItem o)).filter (keepItem o host))) := by
  have hd := decoded_fixedQ' o q
  rw [filterQuery_lc]
  by_cases he : (fixedQ o q).isEmpty = true
  · simp only [he, if_true]
    have hq0 : fixedQ o q = [] := by cases h : fixedQ o q <;> simp_all
    rw [hq0, decoded_nil] at hd
    rw [← hd]
    have hkeep : keepItem o host ([], none) = true := by
      unfold keepItem
      rw [hk o.normalizeAmp o.queryItemFilter (domainFilter host) (domainFilter_cases host)]
      rfl
    simp only [List.map_cons, List.map_nil, lcItem_empty, List.filter_cons, hkeep, if_true,
      List.filter_nil, sortIf_singleton]
    rw [renderQsl_nil, renderQsl_empty_item]
  · have he' : (fixedQ o q).isEmpty = false := by simpa using he
    simp only [he', Bool.false_eq_true, if_false]
    unfold decoded at hd
    rw [hd]
    rfl

/-- the query string of the result, as a function of the decoded items of the raw query -/
theorem normParts_query_lc (hk : KeepsEmpty) (puny : Str → Str) (o : Opts) (hp : Bool) (p : Parsed) :
    (normParts puny o hp p).query =
      renderQsl o.quoted (sortIf o.sortQuery
        (((seenItems o.fixCommonMistakes (decoded p.query)).map (lcItem o)).filter
          (keepItem o (hostKey puny p.hostname)))) := by
  rw [normParts_eq]
  exact outQuery_eq_lc hk o _ _

/-- two parsed URLs that differ in the query only give the same result as soon as the kept,
sorted, re-quoted items serialise alike (`strip_trailing_slash` on; any `lowercase`) -/
theorem normParts_congr_query_lc (hk : KeepsEmpty) (puny : Str → Str) (o : Opts)
    (hts : o.stripTrailingSlash = true) (hp : Bool) (p : Parsed) (q q' : Str)
    (h : renderQsl o.quoted (sortIf o.sortQuery
          (((seenItems o.fixCommonMistakes (decoded q)).map (lcItem o)).filter
            (keepItem o (hostKey puny p.hostname)))) =
        renderQsl o.quoted (sortIf o.sortQuery
          (((seenItems o.fixCommonMistakes (decoded q')).map (lcItem o)).filter
            (keepItem o (hostKey puny p.hostname))))) :
    normParts puny o hp { p with query := q } = normParts puny o hp { p with query := q' } := by
  have h1 := normParts_query_lc hk puny o hp { p with query := q }
  have h2 := normParts_query_lc hk puny o hp { p with query := q' }
  simp only at h1 h2
  rw [normParts_eq, normParts_eq] at *
  simp only at h1 h2 ⊢
  rw [h1, h2, h, normPath_query_irrelevant o hts _ _ (fixedQ o q) (fixedQ o q')]

/-! ## the path -/

/-- the path steps after unescaping and case folding: `normpath`, AMP suffixes, index file -/
def pathTail (o : Opts) (p : Str) : Str :=
  let p := resolveUnquoted o.stripTrailingSlash p
  let p := if o.normalizeAmp then ampSuffixSub p else p
  if o.stripIndex then stripIndex p else p

theorem pathSteps_eq_tail (o : Opts) (path : Str) :
    pathSteps o path = pathTail o (lcStr o (unquotePath path)) := by
  unfold pathSteps pathTail lcStr
  cases o.lowercase <;> rfl

/-- **a trailing slash** (`strip_trailing_slash`, absolute path), any `lowercase` -/
theorem pathSteps_trailing_slash_lc (o : Opts) (hts : o.stripTrailingSlash = true) (path : Str)
    (habs : absPath path = true) : pathSteps o (path ++ ['/']) = pathSteps o path := by
  rw [pathSteps_eq_tail, pathSteps_eq_tail]
  unfold pathTail
  simp only [hts]
  rw [unquotePath_append_slash, unquotePath_nil, lcStr_append, lcStr_slash,
    resolve_append_slash _ (by rw [absPath_lcStr]; exact absPath_unquotePath path habs)]

/-- **a trailing index file name** (`strip_index`, `strip_trailing_slash`, absolute path), any
`lowercase`: the hypotheses of `pathSteps_index`, read on the unescaped **and case-folded** name
`lcStr o (unquotePath name)` and base path -/
theorem pathSteps_index_lc (o : Opts) (hts : o.stripTrailingSlash = true)
    (hi : o.stripIndex = true) (path name : Str) (habs : absPath path = true)
    (hn : '/' ∉ lcStr o (unquotePath name))
    (hroot : splitextRoot (lcStr o (unquotePath name)) = "index".toList ∨
      splitextRoot (lcStr o (unquotePath name)) = "default".toList)
    (hnamp : o.normalizeAmp = true →
      ampSuffixSubFrom (lcStr o (unquotePath name)) true 0 = lcStr o (unquotePath name))
    (hbamp : o.normalizeAmp = true →
      ampSuffixSub (resolveUnquoted true (lcStr o (unquotePath path))) =
        resolveUnquoted true (lcStr o (unquotePath path)))
    (hbidx : stripIndex (resolveUnquoted true (lcStr o (unquotePath path))) =
      resolveUnquoted true (lcStr o (unquotePath path))) :
    pathSteps o (path ++ '/' :: name) = pathSteps o path := by
  generalize hN : lcStr o (unquotePath name) = N at hn hroot hnamp
  have hne : N ≠ [] := by
    intro e; rw [e] at hroot; revert hroot; decide
  have hnl : N ≠ ['\n'] := by
    intro e; rw [e] at hroot; revert hroot; decide
  have hd1 : N ≠ ['.'] := by
    intro e; rw [e] at hroot; revert hroot; decide
  have hd2 : N ≠ ['.', '.'] := by
    intro e; rw [e] at hroot; revert hroot; decide
  have hnormal : Normal N := ⟨hne, hd1, hd2, hn⟩
  have hseg : SegOk N := ⟨hn, hne, hnl⟩
  rw [pathSteps_eq_tail, pathSteps_eq_tail]
  unfold pathTail
  simp only [hts, hi, if_true]
  rw [unquotePath_append_slash, lcStr_append, lcStr_slash_cons, hN,
    resolve_append_segment _ _ (by rw [absPath_lcStr]; exact absPath_unquotePath path habs) hnormal]
  by_cases ha : o.normalizeAmp = true
  · simp only [ha, if_true]
    unfold ampSuffixSub at hbamp ⊢
    rw [ampSub_append_segment _ _ hseg, hnamp ha, hbamp ha,
      stripIndex_append_segment _ _ hn hroot, hbidx]
  · have ha' : o.normalizeAmp = false := by simpa using ha
    simp only [ha', Bool.false_eq_true, if_false]
    rw [stripIndex_append_segment _ _ hn hroot, hbidx]

/-! ## the fragment -/

theorem lower_eq_lit_iff (L : Str) (hL : ∀ c ∈ L, ∀ d, lowerChar d = c ↔ d = c) (f : Str) :
    lower f = L ↔ f = L := by
  induction L generalizing f with
  | nil => cases f <;> simp [lower]
  | cons c cs ih =>
    cases f with
    | nil => simp [lower]
    | cons a r =>
      rw [lower_cons']
      simp only [List.cons.injEq]
      rw [hL c (by simp) a, ih (fun x hx => hL x (List.mem_cons_of_mem _ hx)) r]

theorem shouldStripFragment_lower (f : Str) :
    shouldStripFragment (lower f) = shouldStripFragment f := by
  unfold shouldStripFragment
  have fix : ∀ c ∈ ['!', '/'], ∀ d, lowerChar d = c ↔ d = c := by
    intro c hc d
    simp only [List.mem_cons, List.not_mem_nil, or_false] at hc
    rcases hc with rfl | rfl
    · exact lowerChar_bang_iff d
    · exact lowerChar_slash_iff d
  have e1 : lower f = "!/".toList ↔ f = "!/".toList :=
    lower_eq_lit_iff _ (fun c hc => fix c (by simpa using hc)) f
  have e2 : lower f = "/".toList ↔ f = "/".toList :=
    lower_eq_lit_iff _ (fun c hc => fix c (by simp at hc; simp [hc])) f
  have e3 : lower f = "!".toList ↔ f = "!".toList :=
    lower_eq_lit_iff _ (fun c hc => fix c (by simp at hc; simp [hc])) f
  rw [startsWith_one_lower '/' lowerChar_slash_iff, startsWith_one_lower '!' lowerChar_bang_iff]
  simp only [e1, e2, e3]

theorem shouldStripFragment_lcStr (o : Opts) (f : Str) :
    shouldStripFragment (lcStr o f) = shouldStripFragment f := by
  unfold lcStr; cases o.lowercase <;> simp [shouldStripFragment_lower]

theorem fragStep_eq_lc (o : Opts) (f : Str) :
    fragStep o f = normFragment o.stripFragment (lcStr o (unquoteFragment f)) := by
  unfold fragStep lcStr; cases o.lowercase <;> rfl

end Ural.Normalize
