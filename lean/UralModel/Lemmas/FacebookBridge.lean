import UralModel.Lemmas.FacebookShapes
/-!
From "the parser returned this record" to the hypothesis of the round-trip theorem (C19,
`ural/facebook.py`): the conditions of `reparsable` that say "no earlier route of the parser
takes the canonical url" hold by themselves for a record the parser returned — because those
earlier routes did not take the url it was parsed from.  What is left as a hypothesis is the
character-level condition on the fields (`fieldsOk`) and the absence of the two shapes of the
known findings (`findingShape`).
-/
namespace Ural.Facebook
open Ural.Py Ural

/-! ## a path that starts with a slash contains its segments, slashes included -/

theorem rstrip_prefix (p : Char → Bool) (y : Str) : ∃ suf, y = (y.reverse.dropWhile p).reverse ++ suf := by
  refine ⟨(y.reverse.takeWhile p).reverse, ?_⟩
  rw [← List.reverse_append, List.takeWhile_append_dropWhile, List.reverse_reverse]

theorem hasInfix_mono (a s b x : Str) (h : hasInfix s x = true) : hasInfix (a ++ s ++ b) x = true := by
  obtain ⟨c, d, hcd⟩ := (hasInfix_iff s x).mp h
  exact (hasInfix_iff _ x).mpr ⟨a ++ c, d ++ b, by rw [hcd]; simp⟩

/-- a path that starts with `/` and has segments is `… + "/" + "/".join(segments) + …` -/
theorem pathsplit_decomp (path : Str) (hhead : path.head? = some '/') (hne : pathsplit path ≠ []) :
    ∃ a b, path = a ++ slashed (pathsplit path) ++ b := by
  obtain ⟨t, ht⟩ : ∃ t, path = '/' :: t := by
    cases path with
    | nil => simp at hhead
    | cons c t => simp at hhead; exact ⟨t, by rw [hhead]⟩
  -- strip(): nothing on the left
  have hl : lstrip path = path := by
    unfold lstrip
    rw [ht, List.dropWhile_cons_of_neg (by decide)]
  obtain ⟨ws, hws⟩ := rstrip_prefix isSpace path
  have hs1 : strip path = (path.reverse.dropWhile isSpace).reverse := by
    unfold strip rstrip; rw [hl]
  -- the stripped path still starts with the slash
  have hs1head : ∃ t', strip path = '/' :: t' := by
    rw [hs1, ht]
    have : ('/' :: t).reverse = t.reverse ++ ['/'] := by simp
    rw [this]
    have hdw : ∃ k, (t.reverse ++ ['/']).dropWhile isSpace = k ++ ['/'] := by
      generalize t.reverse = l
      induction l with
      | nil => exact ⟨[], by rw [List.nil_append, List.dropWhile_cons_of_neg (by decide)]⟩
      | cons x xs ih =>
        by_cases hx : isSpace x = true
        · rw [List.cons_append, List.dropWhile_cons_of_pos hx]; exact ih
        · rw [List.cons_append, List.dropWhile_cons_of_neg hx]; exact ⟨x :: xs, rfl⟩
    obtain ⟨k, hk⟩ := hdw
    rw [hk]
    exact ⟨k.reverse, by simp⟩
  obtain ⟨t', ht'⟩ := hs1head
  -- strip("/")
  have hcore : stripChars (strip path) ['/'] ≠ [] := by
    intro e
    apply hne
    unfold pathsplit
    simp [e]
  have hparts : pathsplit path = splitOn (stripChars (strip path) ['/']) '/' := by
    unfold pathsplit
    simp [hcore]
  generalize hs1def : strip path = s1 at hs1 ht' hcore hparts
  have hcoredef : stripChars s1 ['/'] = rstripChars (lstripChars s1 ['/']) ['/'] := rfl
  generalize hm : lstripChars s1 ['/'] = m at hcoredef
  obtain ⟨suf2, hsuf2⟩ := rstripChars_prefix m ['/']
  -- the leading slashes
  have hsl : ∃ pre, s1 = pre ++ '/' :: m := by
    have hsplit : s1 = s1.takeWhile (fun x => ['/'].contains x) ++ m := by
      rw [← hm]; unfold lstripChars; exact (List.takeWhile_append_dropWhile).symm
    have hall : ∀ c ∈ s1.takeWhile (fun x => ['/'].contains x), c = '/' := by
      intro c hc
      have := mem_takeWhile_s20 _ _ c hc
      simpa using this
    have hne' : s1.takeWhile (fun x => ['/'].contains x) ≠ [] := by
      rw [ht', List.takeWhile_cons_of_pos (by simp)]; simp
    obtain ⟨pre, last, hpl⟩ : ∃ pre last, s1.takeWhile (fun x => ['/'].contains x) = pre ++ [last] :=
      ⟨_, _, (List.dropLast_concat_getLast hne').symm⟩
    have hlast : last = '/' := hall last (by rw [hpl]; simp)
    refine ⟨pre, ?_⟩
    rw [hpl, hlast] at hsplit
    rw [hsplit]
    simp
  obtain ⟨pre, hpre⟩ := hsl
  have hjoin : slashed (pathsplit path) = '/' :: stripChars s1 ['/'] := by
    rw [slashed_eq_join _ hne, hparts, join_splitOn]
  refine ⟨pre, suf2 ++ ws, ?_⟩
  rw [hjoin, hcoredef]
  calc path = s1 ++ ws := by rw [hs1]; exact hws
    _ = pre ++ '/' :: m ++ ws := by rw [hpre]
    _ = pre ++ '/' :: (rstripChars m ['/'] ++ suf2) ++ ws := by rw [← hsuf2]
    _ = pre ++ '/' :: rstripChars m ['/'] ++ (suf2 ++ ws) := by simp

theorem pathsplit_no_slash (path : Str) : ∀ x ∈ pathsplit path, '/' ∉ x := by
  unfold pathsplit
  simp only
  split
  · simp
  · exact not_mem_of_mem_splitOn '/' _

/-- a segment of a path that starts with `/` cannot start with `w` when `"/" + w` is not in
the path -/
theorem seg_no_prefix (path w : Str) (hhead : path.head? = some '/') (hw : '/' ∉ w)
    (h : hasInfix path ('/' :: w) = false) : ∀ x ∈ pathsplit path, w.isPrefixOf x = false := by
  intro x hx
  have hne : pathsplit path ≠ [] := List.ne_nil_of_mem hx
  obtain ⟨a, b, hab⟩ := pathsplit_decomp path hhead hne
  cases hp : w.isPrefixOf x with
  | false => rfl
  | true =>
    have : hasInfix (slashed (pathsplit path)) ('/' :: w) = true := by
      rw [hasInfix_slashed_prefix _ w hw (pathsplit_no_slash path)]
      exact List.any_eq_true.mpr ⟨x, hx, hp⟩
    have := hasInfix_mono a _ b _ this
    rw [← hab, h] at this
    exact absurd this (by simp)

/-- a segment but the last of a path that starts with `/` cannot be `w` when `"/" + w + "/"`
is not in the path -/
theorem seg_ne_word (path w : Str) (hhead : path.head? = some '/') (hw : '/' ∉ w)
    (h : hasInfix path ('/' :: (w ++ ['/'])) = false) (i : Nat) (hi : i + 1 < (pathsplit path).length) :
    (pathsplit path)[i]'(by omega) ≠ w := by
  intro e
  have hne : pathsplit path ≠ [] := by intro e'; rw [e'] at hi; simp at hi
  obtain ⟨a, b, hab⟩ := pathsplit_decomp path hhead hne
  have : hasInfix (slashed (pathsplit path)) ('/' :: (w ++ ['/'])) = true := by
    rw [hasInfix_slashed_exact _ w hw (pathsplit_no_slash path)]
    apply List.any_eq_true.mpr
    refine ⟨(pathsplit path)[i]'(by omega), ?_, by simp [e]⟩
    have hlen : i < (pathsplit path).dropLast.length := by simp; omega
    have := List.getElem_mem hlen
    rwa [List.getElem_dropLast] at this
  have := hasInfix_mono a _ b _ this
  rw [← hab, h] at this
  exact absurd this (by simp)

/-! ## route by route: the record returned satisfies `reparsable` -/

/-- `path` is empty or starts with a slash (what `urlsplit` returns after an authority) -/
def PathAbs (path : Str) : Prop := path = [] ∨ path.head? = some '/'

theorem pathsplit_nil : pathsplit [] = [] := by decide

theorem head_of_abs {path : Str} (habs : PathAbs path) (hne : pathsplit path ≠ []) : path.head? = some '/' := by
  rcases habs with h | h
  · rw [h] at hne; exact absurd pathsplit_nil hne
  · exact h

theorem noWatch_of_seg (path : Str) (habs : PathAbs path) (hw : hasInfix path ('/' :: watchL) = false)
    (i : Nat) (hi : i < (pathsplit path).length) : noWatch ((pathsplit path)[i]) = true := by
  have hne : pathsplit path ≠ [] := by intro e; rw [e] at hi; simp at hi
  have := seg_no_prefix path watchL (head_of_abs habs hne) (by decide) hw _ (List.getElem_mem hi)
  unfold noWatch
  rw [lit_watch_word]
  simpa [startsWith] using this

theorem seg_ne_videos (path : Str) (habs : PathAbs path) (h : hasInfix path ('/' :: (videosL ++ ['/'])) = false)
    (i : Nat) (hi : i + 1 < (pathsplit path).length) : (pathsplit path)[i]'(by omega) ≠ lit "videos" := by
  have hne : pathsplit path ≠ [] := by intro e; rw [e] at hi; simp at hi
  rw [lit_videos_word]
  exact seg_ne_word path videosL (head_of_abs habs hne) (by decide) h i hi

theorem seg_ne_photos (path : Str) (habs : PathAbs path) (h : hasInfix path ('/' :: (photosL ++ ['/'])) = false)
    (i : Nat) (hi : i + 1 < (pathsplit path).length) : (pathsplit path)[i]'(by omega) ≠ lit "photos" := by
  have hne : pathsplit path ≠ [] := by intro e; rw [e] at hi; simp at hi
  rw [lit_photos_word]
  exact seg_ne_word path photosL (head_of_abs habs hne) (by decide) h i hi

theorem routeVideos_reparsable (path : Str) (r : Parsed) (habs : PathAbs path)
    (hw : hasInfix path ('/' :: watchL) = false)
    (h : routeVideos path = .ok (some r)) (hf : fieldsOk r = true) : reparsable r = true := by
  unfold routeVideos at h
  by_cases hl : (pathsplit path).length < 3
  · simp [hl] at h
  · have e2 := getIdx_of_lt (pathsplit path) 2 (by omega)
    have e0 := getIdx_of_lt (pathsplit path) 0 (by omega)
    simp only [hl, if_false, bind, Except.bind, e0, e2, pure, Except.pure, Except.ok.injEq,
      Option.some.injEq] at h
    subst h
    simp only [fieldsOk, Bool.and_eq_true] at hf
    simp only [reparsable, videoParentOk, hf.1, hf.2, Bool.true_and,
      noWatch_of_seg path habs hw 0 (by omega), noWatch_of_seg path habs hw 2 (by omega)]

theorem routePhotos_reparsable (path : Str) (r : Parsed) (habs : PathAbs path)
    (hw : hasInfix path ('/' :: watchL) = false) (hv : hasInfix path ('/' :: (videosL ++ ['/'])) = false)
    (h : routePhotos path = .ok (some r)) (hf : fieldsOk r = true) (hn : findingShape r = false) :
    reparsable r = true := by
  unfold routePhotos at h
  by_cases hl : (pathsplit path).length < 4
  · simp [hl] at h
  · have e0 := getIdx_of_lt (pathsplit path) 0 (by omega)
    have e2 := getIdx_of_lt (pathsplit path) 2 (by omega)
    have e3 := getIdx_of_lt (pathsplit path) 3 (by omega)
    have w0 := noWatch_of_seg path habs hw 0 (by omega)
    have w3 := noWatch_of_seg path habs hw 3 (by omega)
    have nv : decide ((pathsplit path)[0]'(by omega) ≠ lit "videos") = true := by
      simpa using seg_ne_videos path habs hv 0 (by omega)
    simp only [hl, if_false, bind, Except.bind, e0, e2, e3, pure, Except.pure] at h
    by_cases hid : is_facebook_id ((pathsplit path)[0]'(by omega)) = true
    · simp only [hid, if_true, Except.ok.injEq, Option.some.injEq] at h
      subst h
      simp only [fieldsOk, Bool.and_eq_true] at hf
      simp only [findingShape, Option.isSome_some, Bool.true_or, Bool.true_and] at hn
      simp only [reparsable, photoPathOk, hf.1.1, hf.1.2, hf.2, w0, w3, nv, hn, hid, Bool.not_false, Bool.and_self]
    · simp only [hid, Bool.false_eq_true, if_false, Except.ok.injEq, Option.some.injEq] at h
      subst h
      simp only [fieldsOk, Bool.and_eq_true] at hf
      simp only [findingShape, Option.isSome_some, Option.isSome_none, Bool.or_true, Bool.true_and] at hn
      have hid' : is_facebook_id ((pathsplit path)[0]'(by omega)) = false := by simpa using hid
      simp only [reparsable, photoPathOk, hf.1.1, hf.1.2, hf.2, w0, w3, nv, hn, hid', Bool.not_false, Bool.and_self]

theorem routePosts_reparsable (path : Str) (r : Parsed) (habs : PathAbs path)
    (hw : hasInfix path ('/' :: watchL) = false) (hv : hasInfix path ('/' :: (videosL ++ ['/'])) = false)
    (hp : hasInfix path ('/' :: (photosL ++ ['/'])) = false)
    (h : routePosts path = .ok (some r)) (hf : fieldsOk r = true) : reparsable r = true := by
  unfold routePosts at h
  by_cases hl : (pathsplit path).length < 3
  · simp [hl] at h
  · have e0 := getIdx_of_lt (pathsplit path) 0 (by omega)
    have e2 := getIdx_of_lt (pathsplit path) 2 (by omega)
    simp only [hl, if_false, bind, Except.bind, e0, e2, pure, Except.pure] at h
    by_cases hg : (pathsplit path)[0]'(by omega) = lit "groups"
    · simp only [hg, if_true] at h
      by_cases h4 : (pathsplit path).length < 4
      · simp [h4] at h
      · have e1 := getIdx_of_lt (pathsplit path) 1 (by omega)
        have e3 := getIdx_of_lt (pathsplit path) 3 (by omega)
        have w1 := noWatch_of_seg path habs hw 1 (by omega)
        have w3 := noWatch_of_seg path habs hw 3 (by omega)
        have nv : decide ((pathsplit path)[1]'(by omega) ≠ lit "videos") = true := by
          simpa using seg_ne_videos path habs hv 1 (by omega)
        have np : decide ((pathsplit path)[1]'(by omega) ≠ lit "photos") = true := by
          simpa using seg_ne_photos path habs hp 1 (by omega)
        simp only [h4, if_false, e1, e3] at h
        by_cases hid : is_facebook_id ((pathsplit path)[1]'(by omega)) = true
        · simp only [hid, if_true, Except.ok.injEq, Option.some.injEq] at h
          subst h
          simp only [fieldsOk, Bool.and_eq_true] at hf
          simp only [reparsable, postGroupOk, hf.1, hf.2, w1, w3, nv, np, hid, Bool.and_self]
        · simp only [hid, Bool.false_eq_true, if_false, Except.ok.injEq, Option.some.injEq] at h
          subst h
          simp only [fieldsOk, Bool.and_eq_true] at hf
          have hid' : is_facebook_id ((pathsplit path)[1]'(by omega)) = false := by simpa using hid
          simp only [reparsable, postGroupOk, hf.1, hf.2, w1, w3, nv, np, hid', Bool.not_false, Bool.and_self]
    · simp only [hg, if_false] at h
      have w0 := noWatch_of_seg path habs hw 0 (by omega)
      have w2 := noWatch_of_seg path habs hw 2 (by omega)
      have nv : decide ((pathsplit path)[0]'(by omega) ≠ lit "videos") = true := by
        simpa using seg_ne_videos path habs hv 0 (by omega)
      have np : decide ((pathsplit path)[0]'(by omega) ≠ lit "photos") = true := by
        simpa using seg_ne_photos path habs hp 0 (by omega)
      have ng : decide ((pathsplit path)[0]'(by omega) ≠ lit "groups") = true := by simpa using hg
      by_cases hid : is_facebook_id ((pathsplit path)[0]'(by omega)) = true
      · simp only [hid, if_true, Except.ok.injEq, Option.some.injEq] at h
        subst h
        simpa [fieldsOk, reparsable] using hf
      · simp only [hid, Bool.false_eq_true, if_false, Except.ok.injEq, Option.some.injEq] at h
        subst h
        simp only [fieldsOk, Bool.and_eq_true] at hf
        have hid' : is_facebook_id ((pathsplit path)[0]'(by omega)) = false := by simpa using hid
        simp only [reparsable, postHandleOk, hf.1, hf.2, w0, w2, nv, np, ng, hid', Bool.not_false, Bool.and_self]

theorem routeGroups_reparsable (path : Str) (r : Parsed) (habs : PathAbs path)
    (hw : hasInfix path ('/' :: watchL) = false) (hv : hasInfix path ('/' :: (videosL ++ ['/'])) = false)
    (hp : hasInfix path ('/' :: (photosL ++ ['/'])) = false)
    (h : routeGroups path = .ok (some r)) (hf : fieldsOk r = true) : reparsable r = true := by
  unfold routeGroups at h
  by_cases hl : (pathsplit path).length < 2
  · simp [hl] at h
  · have e1 := getIdx_of_lt (pathsplit path) 1 (by omega)
    have w1 := noWatch_of_seg path habs hw 1 (by omega)
    simp only [hl, if_false, bind, Except.bind, e1, pure, Except.pure] at h
    by_cases hperm : contains path (lit "/permalink/") = true
    · simp only [hperm, if_true] at h
      by_cases h4 : (pathsplit path).length < 4
      · simp [h4] at h
      · have e3 := getIdx_of_lt (pathsplit path) 3 (by omega)
        have w3 := noWatch_of_seg path habs hw 3 (by omega)
        have nv : decide ((pathsplit path)[1]'(by omega) ≠ lit "videos") = true := by
          simpa using seg_ne_videos path habs hv 1 (by omega)
        have np : decide ((pathsplit path)[1]'(by omega) ≠ lit "photos") = true := by
          simpa using seg_ne_photos path habs hp 1 (by omega)
        simp only [h4, if_false, e3] at h
        by_cases hid : is_facebook_id ((pathsplit path)[1]'(by omega)) = true
        · simp only [hid, if_true, Except.ok.injEq, Option.some.injEq] at h
          subst h
          simp only [fieldsOk, Bool.and_eq_true] at hf
          simp only [reparsable, postGroupOk, hf.1, hf.2, w1, w3, nv, np, hid, Bool.and_self]
        · simp only [hid, Bool.false_eq_true, if_false, Except.ok.injEq, Option.some.injEq] at h
          subst h
          simp only [fieldsOk, Bool.and_eq_true] at hf
          have hid' : is_facebook_id ((pathsplit path)[1]'(by omega)) = false := by simpa using hid
          simp only [reparsable, postGroupOk, hf.1, hf.2, w1, w3, nv, np, hid', Bool.not_false, Bool.and_self]
    · simp only [hperm, Bool.false_eq_true, if_false] at h
      by_cases hid : is_facebook_id ((pathsplit path)[1]'(by omega)) = true
      · simp only [hid, if_true, Except.ok.injEq, Option.some.injEq] at h
        subst h
        simp only [fieldsOk] at hf
        simp only [reparsable, groupOk, hf, w1, hid, Bool.and_self]
      · simp only [hid, Bool.false_eq_true, if_false, Except.ok.injEq, Option.some.injEq] at h
        subst h
        simp only [fieldsOk] at hf
        have hid' : is_facebook_id ((pathsplit path)[1]'(by omega)) = false := by simpa using hid
        simp only [reparsable, groupOk, hf, w1, hid', Bool.not_false, Bool.and_self]

theorem routeHandle_reparsable (path : Str) (r : Parsed) (habs : PathAbs path)
    (hw : hasInfix path ('/' :: watchL) = false)
    (h : routeHandle path = .ok (some r)) (hf : fieldsOk r = true) (hn : findingShape r = false) :
    reparsable r = true := by
  unfold routeHandle at h
  by_cases he : (pathsplit path).isEmpty = true
  · simp [he] at h
  · have hl : 0 < (pathsplit path).length := by
      cases hp : pathsplit path with
      | nil => simp [hp] at he
      | cons x xs => simp
    have e0 := getIdx_of_lt (pathsplit path) 0 hl
    have w0 := noWatch_of_seg path habs hw 0 hl
    simp only [he, Bool.false_eq_true, if_false, bind, Except.bind, e0, pure, Except.pure] at h
    by_cases hphp : endsWith ((pathsplit path)[0]) (lit ".php") = true
    · simp [hphp] at h
    · have hphp' : endsWith ((pathsplit path)[0]) (lit ".php") = false := by simpa using hphp
      simp only [hphp', Bool.not_false, if_true, Except.ok.injEq, Option.some.injEq] at h
      subst h
      simp only [fieldsOk] at hf
      simp only [findingShape] at hn
      simp only [reparsable, handleOk, hf, w0, hn, hphp', Bool.not_false, Bool.and_self]

/-- the routes that copy query values or a path segment into a field that goes to the query of
the canonical url: `fieldsOk` is all `reparsable` asks -/
theorem reparsable_of_fieldsOk_query (r : Parsed) (hf : fieldsOk r = true)
    (hshape : (∃ id, r = .user id none) ∨ (∃ id, r = .video id none) ∨
      (∃ id pid, r = .post id (some pid) none none none) ∨ (∃ id g a, r = .photo id g none none a)) :
    reparsable r = true := by
  rcases hshape with ⟨id, rfl⟩ | ⟨id, rfl⟩ | ⟨id, pid, rfl⟩ | ⟨id, g, a, rfl⟩ <;>
    simpa [fieldsOk, reparsable] using hf

local macro "shape_done" : tactic =>
  `(tactic| (simp only [bind, Except.bind, pure, Except.pure, Functor.map, Except.map]
             repeat' split
             all_goals (intro hr; cases hr)
             all_goals simp))

theorem routeWatch_shape (query : Str) (r : Parsed) : routeWatch query = .ok (some r) → ∃ id, r = .video id none := by
  unfold routeWatch
  by_cases h : qsHas (safe_parse_qs query) (lit "v") = true
  · have e0 := getIdx_of_lt _ 0 (qsValues_pos_of_has _ _ h)
    simp only [h, Bool.not_true, Bool.false_eq_true, if_false, qsItem_of_has, bind, Except.bind, e0]
    shape_done
  · simp [h]

theorem routePhotoQuery_shape (query : Str) (r : Parsed) :
    routePhotoQuery query = .ok (some r) → ∃ id g a, r = .photo id g none none a := by
  unfold routePhotoQuery
  by_cases h : qsHas (safe_parse_qs query) (lit "fbid") = true
  · have e0 := getIdx_of_lt _ 0 (qsValues_pos_of_has _ _ h)
    obtain ⟨ga, hga⟩ := photoSets_total (safe_parse_qs query)
    simp only [h, Bool.not_true, Bool.false_eq_true, if_false, hga, qsItem_of_has, bind, Except.bind, e0]
    shape_done
  · simp [h]

theorem routePermalink_shape (query : Str) (r : Parsed) :
    routePermalink query = .ok (some r) → ∃ id pid, r = .post id (some pid) none none none := by
  unfold routePermalink
  simp only []
  cases h1 : qsGet (safe_parse_qs query) (lit "id") with
  | none => simp
  | some pid =>
    cases h2 : qsGet (safe_parse_qs query) (lit "story_fbid") with
    | none => simp
    | some sid =>
      have e1 := getIdx_of_lt _ 0 (qsGet_some_pos _ _ _ h1)
      have e2 := getIdx_of_lt _ 0 (qsGet_some_pos _ _ _ h2)
      simp only [bind, Except.bind, e1, e2]
      shape_done

theorem routeProfile_shape (query : Str) (r : Parsed) : routeProfile query = .ok (some r) → ∃ id, r = .user id none := by
  unfold routeProfile
  simp only []
  cases h1 : qsGet (safe_parse_qs query) (lit "id") with
  | none => simp
  | some uid =>
    have e1 := getIdx_of_lt _ 0 (qsGet_some_pos _ _ _ h1)
    simp only [bind, Except.bind, e1]
    shape_done

theorem routePeople_shape (path : Str) (r : Parsed) : routePeople path = .ok (some r) → ∃ id, r = .user id none := by
  unfold routePeople
  by_cases h : (pathsplit path).length < 3
  · simp [h]
  · have e2 := getIdx_of_lt (pathsplit path) 2 (by omega)
    simp only [h, if_false, bind, Except.bind, e2]
    shape_done

/-- **a record returned by the router on an absolute path satisfies the hypothesis of the
round-trip theorem as soon as its fields are made of good characters and it is not one of the
two finding shapes** -/
theorem parseSplit_reparsable (sp : SplitResult) (r : Parsed) (habs : PathAbs sp.path)
    (h : parseSplit sp = .ok (some r)) (hf : fieldsOk r = true) (hn : findingShape r = false) :
    reparsable r = true := by
  rw [parseSplit_eq] at h
  split at h
  · cases h
  rename_i h0
  split at h
  · obtain ⟨id, rfl⟩ := routeWatch_shape _ r h
    exact reparsable_of_fieldsOk_query _ hf (Or.inr (Or.inl ⟨id, rfl⟩))
  rename_i hw
  have hw' : hasInfix sp.path ('/' :: watchL) = false := by simpa using hw
  split at h
  · exact routeVideos_reparsable _ r habs hw' h hf
  rename_i hv
  have hv' : hasInfix sp.path ('/' :: (videosL ++ ['/'])) = false := by simpa using hv
  split at h
  · obtain ⟨id, g, a, rfl⟩ := routePhotoQuery_shape _ r h
    exact reparsable_of_fieldsOk_query _ hf (Or.inr (Or.inr (Or.inr ⟨id, g, a, rfl⟩)))
  split at h
  · exact routePhotos_reparsable _ r habs hw' hv' h hf hn
  rename_i hp
  have hp' : hasInfix sp.path ('/' :: (photosL ++ ['/'])) = false := by simpa using hp
  split at h
  · exact routePosts_reparsable _ r habs hw' hv' hp' h hf
  split at h
  · obtain ⟨id, pid, rfl⟩ := routePermalink_shape _ r h
    exact reparsable_of_fieldsOk_query _ hf (Or.inr (Or.inr (Or.inl ⟨id, pid, rfl⟩)))
  split at h
  · exact routeGroups_reparsable _ r habs hw' hv' hp' h hf
  split at h
  · obtain ⟨id, rfl⟩ := routeProfile_shape _ r h
    exact reparsable_of_fieldsOk_query _ hf (Or.inl ⟨id, rfl⟩)
  split at h
  · obtain ⟨id, rfl⟩ := routePeople_shape _ r h
    exact reparsable_of_fieldsOk_query _ hf (Or.inl ⟨id, rfl⟩)
  · exact routeHandle_reparsable _ r habs hw' h hf hn

/-! ## `safe_urlsplit` returns an absolute (or empty) path -/

theorem protoLen_some_shape (v : Str) (n : Nat) (h : protoLen v = some n) :
    (∃ r, v = '/' :: '/' :: r) ∨
    (∃ l r, v = l ++ ':' :: '/' :: '/' :: r ∧ l ≠ [] ∧ ∀ c ∈ l, isAsciiAlpha c = true) := by
  unfold protoLen at h
  simp only at h
  by_cases h0 : (v.takeWhile isAsciiAlpha).length = 0
  · simp only [h0, if_true] at h
    left
    by_cases hs : startsWith v ['/', '/'] = true
    · exact (startsWith_slashes_iff v).mp hs
    · simp [hs] at h
  · simp only [h0, if_false] at h
    right
    by_cases hc : (decide ((v.takeWhile isAsciiAlpha).length ≤ protoMaxLetters) &&
        startsWith (v.dropWhile isAsciiAlpha) [':', '/', '/']) = true
    · simp only [Bool.and_eq_true] at hc
      obtain ⟨r, hr⟩ : ∃ r, v.dropWhile isAsciiAlpha = ':' :: '/' :: '/' :: r := by
        have := List.isPrefixOf_iff_prefix.mp hc.2
        obtain ⟨r, hr⟩ := this
        exact ⟨r, by rw [← hr]; rfl⟩
      refine ⟨v.takeWhile isAsciiAlpha, r, ?_, ?_, ?_⟩
      · rw [← hr, List.takeWhile_append_dropWhile]
      · intro e; rw [e] at h0; simp at h0
      · exact mem_takeWhile_s20 _ _
    · simp [hc] at h

theorem splitScheme_of_head_slash (t dflt : Str) : splitScheme ('/' :: t) dflt = (dflt, '/' :: t) := by
  unfold splitScheme
  rw [splitFirst_cons_s20]
  simp only [show ('/' : Char) ≠ ':' by decide, if_false]
  cases (splitFirst t ':').2 with
  | none => rfl
  | some post => simp [isAsciiAlpha]

/-- what follows the authority is empty or starts with `/`, `?` or `#`, so the path is empty or
starts with `/` -/
theorem path_after_netloc (r' : Str) :
    PathAbs ((splitFirst (splitFirst (splitNetloc ('/' :: '/' :: r')).2 '#').1 '?').1) := by
  unfold splitNetloc
  simp only [startsWith, List.isPrefixOf, beq_self_eq_true, Bool.and_self, if_true, List.drop_succ_cons,
    List.drop_zero]
  cases hrest : r'.dropWhile (fun c => !isNetlocDelim c) with
  | nil => left; simp [splitFirst_nil_s20]
  | cons c t =>
    have hc : isNetlocDelim c = true := by
      have := List.head?_dropWhile_not (fun c => !isNetlocDelim c) r'
      rw [hrest] at this
      simpa using this
    unfold isNetlocDelim at hc
    simp only [Bool.or_eq_true, decide_eq_true_eq] at hc
    rcases hc with (hc | hc) | hc <;> subst hc
    · right
      rw [splitFirst_cons_s20]
      simp only [show ('/' : Char) ≠ '#' by decide, if_false]
      rw [splitFirst_cons_s20]
      simp only [show ('/' : Char) ≠ '?' by decide, if_false]
      rfl
    · left
      rw [splitFirst_cons_s20]
      simp only [show ('?' : Char) ≠ '#' by decide, if_false]
      rw [splitFirst_cons_s20]
      simp
    · left
      rw [splitFirst_cons_s20]
      simp [splitFirst_nil_s20]

theorem urlsplit_path_abs_of_clean (c : Str) (url dflt : Str) (sp : SplitResult) (hclean : cleanUrl url = c)
    (hshape : (∃ r, c = '/' :: '/' :: r) ∨
      (∃ l r, c = l ++ ':' :: '/' :: '/' :: r ∧ l ≠ [] ∧ ∀ x ∈ l, isAsciiAlpha x = true))
    (h : urlsplit url dflt = some sp) : PathAbs sp.path := by
  unfold urlsplit at h
  simp only [hclean] at h
  have hsc : ∃ r', (splitScheme c dflt).2 = '/' :: '/' :: r' := by
    rcases hshape with ⟨r, hr⟩ | ⟨l, r, hr, hne, hall⟩
    · exact ⟨r, by rw [hr, splitScheme_of_head_slash]⟩
    · refine ⟨r, ?_⟩
      rw [hr]
      unfold splitScheme
      have hcolon : ':' ∉ l := fun hm => by
        have := hall _ hm
        exact absurd this (by decide)
      rw [splitFirst_append_sep_s20 l _ ':' hcolon]
      cases l with
      | nil => exact absurd rfl hne
      | cons x xs =>
        have hx := hall x (by simp)
        have hall' : (x :: xs).all isSchemeChar = true := by
          apply List.all_eq_true.mpr
          intro y hy
          have := hall y hy
          simp [isSchemeChar, this]
        simp only [hx, hall', Bool.and_self, if_true]
  obtain ⟨r', hr'⟩ := hsc
  rw [hr'] at h
  split at h
  · cases h
  · injection h with h
    rw [← h]
    exact path_after_netloc r'

theorem cleanUrl_keeps_shape (v : Str)
    (hshape : (∃ r, v = '/' :: '/' :: r) ∨
      (∃ l r, v = l ++ ':' :: '/' :: '/' :: r ∧ l ≠ [] ∧ ∀ x ∈ l, isAsciiAlpha x = true)) :
    (∃ r, cleanUrl v = '/' :: '/' :: r) ∨
      (∃ l r, cleanUrl v = l ++ ':' :: '/' :: '/' :: r ∧ l ≠ [] ∧ ∀ x ∈ l, isAsciiAlpha x = true) := by
  unfold cleanUrl
  rcases hshape with ⟨r, hr⟩ | ⟨l, r, hr, hne, hall⟩
  · left
    refine ⟨r.filter (fun c => !isUnsafeUrlChar c), ?_⟩
    rw [hr, List.dropWhile_cons_of_neg (by decide)]
    simp [isUnsafeUrlChar]
  · right
    refine ⟨l, r.filter (fun c => !isUnsafeUrlChar c), ?_, hne, hall⟩
    have halpha_c0 : ∀ x, isAsciiAlpha x = true → isC0OrSpace x = false ∧ isUnsafeUrlChar x = false := by
      intro x hx
      constructor
      · cases hc : isC0OrSpace x with
        | false => rfl
        | true =>
          exfalso
          unfold isC0OrSpace at hc
          have hle : x.toNat ≤ 0x20 := by simpa using hc
          unfold isAsciiAlpha at hx
          have h1 : ¬ ('a' ≤ x) := by
            intro h'; have : 'a'.toNat ≤ x.toNat := h'; simp at this; omega
          have h2 : ¬ ('A' ≤ x) := by
            intro h'; have : 'A'.toNat ≤ x.toNat := h'; simp at this; omega
          simp [h1, h2] at hx
      · cases hu : isUnsafeUrlChar x with
        | false => rfl
        | true =>
          exfalso
          unfold isUnsafeUrlChar at hu
          simp only [Bool.or_eq_true, decide_eq_true_eq] at hu
          rcases hu with (hu | hu) | hu <;> (rw [hu] at hx; exact absurd hx (by decide))
    rw [hr]
    cases l with
    | nil => exact absurd rfl hne
    | cons x xs =>
      rw [List.cons_append, List.dropWhile_cons_of_neg (by simp [(halpha_c0 x (hall x (by simp))).1])]
      rw [← List.cons_append, List.filter_append]
      have hfl : (x :: xs).filter (fun c => !isUnsafeUrlChar c) = x :: xs := by
        apply List.filter_eq_self.mpr
        intro y hy
        simp [(halpha_c0 y (hall y hy)).2]
      rw [hfl]
      simp [isUnsafeUrlChar]

/-- **the path `safe_urlsplit` returns is empty or starts with a slash** -/
theorem safe_urlsplit_path_abs (u : Str) (sp : SplitResult) (h : safe_urlsplit u = some sp) :
    PathAbs sp.path := by
  unfold safe_urlsplit at h
  have hv : ∃ n, protoLen (if (protoLen u).isNone = true then "http://".toList ++ u else u) = some n := by
    cases hp : protoLen u with
    | none =>
      have hh : AlphaProto "http".toList := by decide
      have := protoLen_proto_sep "http".toList u hh
      have e : "http://".toList ++ u = "http".toList ++ sepFull ++ u := by
        have : "http://".toList = "http".toList ++ sepFull := by decide
        rw [this]
      simp only [Option.isNone_none, if_true]
      rw [e]
      exact ⟨_, this⟩
    | some n => exact ⟨n, by simp [hp]⟩
  obtain ⟨n, hn⟩ := hv
  exact urlsplit_path_abs_of_clean _ _ [] sp rfl (cleanUrl_keeps_shape _ (protoLen_some_shape _ n hn)) h

end Ural.Facebook
