import UralModel.Lemmas.FacebookBlank
/-!
From "the parser returned this record" to the hypothesis of the round-trip theorem (C19,
`ural/facebook.py`): the conditions of `reparsable` that say "no earlier route of the parser
takes the canonical url" hold by themselves for a record the parser returned — because those
earlier routes did not take the url it was parsed from —, and so do the conditions "the field is
not empty" (`Lemmas/FacebookNonempty.lean`: repeated slashes are collapsed before routing,
`parse_qs` holds no blank value, an empty set id is `None`, an empty album is no photo) and "the
path-borne field has no white space at its ends, no `/ ? #`, no TAB CR LF" (`pathFieldsClean`,
from `Lemmas/FacebookBlank.lean`: the blanks around each segment are dropped before routing, the
segments are pieces of the path `urlsplit` returned).  What is left as a hypothesis is `charsOk`:
the characters that fail by design (`;`, dot segments, query metacharacters).
-/
namespace Ural.Facebook
open Ural.Py Ural

/-! ## `charsOk` + no empty field = the fields are good segments / good query values -/

/-- the fields that go to the path of the canonical url are `segOk`, those that go to its query
are `qvalOk`, and the record has one of the field combinations the parser produces -/
def fieldsOk : Parsed → Bool
  | .user id h => h.isNone && qvalOk id
  | .handle h => lastOk h
  | .group id h =>
    (match id, h with
     | some g, none => lastOk g
     | none, some g => lastOk g
     | _, _ => false)
  | .post id pid ph gid gh =>
    (match pid, ph, gid, gh with
     | some p, none, none, none => qvalOk p && qvalOk id
     | none, some x, none, none => segOk x && lastOk id
     | none, none, some g, none => segOk g && lastOk id
     | none, none, none, some g => segOk g && lastOk id
     | _, _, _, _ => false)
  | .video id pid =>
    (match pid with
     | none => qvalOk id
     | some p => segOk p && lastOk id)
  | .photo id gid pid ph aid =>
    (match pid, ph with
     | none, none => photoQueryOk id gid aid
     | some p, none =>
       (match gid, aid with
        | none, some a => segOk p && lastOk id && !a.isEmpty && a.all segChar && !blankLast a
        | _, _ => false)
     | none, some p =>
       (match gid, aid with
        | none, some a => segOk p && lastOk id && !a.isEmpty && a.all segChar && !blankLast a
        | _, _ => false)
     | some _, some _ => false)

theorem segChar_eq_cleanChar : segChar = cleanChar := by funext c; rfl

theorem all_segChar_of {s : Str} (h1 : s.all cleanChar = true) : s.all segChar = true := by
  rw [segChar_eq_cleanChar]; exact h1

/-- not empty (`parsed_fields_nonempty`) + a clean segment (`parsed_path_fields_clean`) + not a dot
segment (`charsOk`) = a good segment -/
theorem segOk_of {s : Str} (h1 : s.isEmpty = false) (h3 : segClean s = true) (h2 : segChars s = true) :
    segOk s = true := by
  unfold segChars at h2
  unfold segClean at h3
  unfold segOk
  simp only [Bool.and_eq_true, Bool.not_eq_true'] at h2 h3
  simp [h1, all_segChar_of h3.1.1, h2, h3.1.2, h3.2]

theorem isDotSeg_of_lastSemiOk {s : Str} (h : lastSemiOk s = true) : isDotSeg s = false := by
  cases hd : isDotSeg s with
  | false => rfl
  | true =>
    unfold isDotSeg at hd
    simp only [Bool.or_eq_true, decide_eq_true_eq] at hd
    rcases hd with hd | hd <;> (rw [hd] at h; exact absurd h (by decide))

/-- the same for the field that ends the canonical path -/
theorem lastOk_of {s : Str} (h1 : s.isEmpty = false) (h3 : segClean s = true) (h2 : lastChars s = true) :
    lastOk s = true := by
  unfold lastChars at h2
  unfold lastOk
  have hd : segChars s = true := by unfold segChars; simp [isDotSeg_of_lastSemiOk h2]
  simp [segOk_of h1 h3 hd, h2]

theorem albumOk_of {a : Str} (h3 : albumClean a = true) :
    a.all segChar = true ∧ blankLast a = false := by
  unfold albumClean at h3
  simp only [Bool.and_eq_true, Bool.not_eq_true'] at h3
  exact ⟨all_segChar_of h3.1, h3.2⟩

theorem qvalOk_of {s : Str} (h1 : s.isEmpty = false) (h2 : qvalChars s = true) : qvalOk s = true := by
  unfold qvalChars at h2
  unfold qvalOk
  simp only [Bool.and_eq_true, Bool.not_eq_true'] at h2
  simp [h1, h2.1, h2.2]

theorem optQvalOk_of {o : Option Str} (h1 : optNe o = true) (h2 : optQvalChars o = true) : optQvalOk o = true := by
  cases o with
  | none => rfl
  | some x =>
    simp only [optNe, Bool.not_eq_true'] at h1
    exact qvalOk_of h1 h2

theorem fieldsOk_of (r : Parsed) (hne : noEmpty r = true) (hcl : pathFieldsClean r = true)
    (hc : charsOk r = true) : fieldsOk r = true := by
  cases r with
  | user id h =>
    simp only [noEmpty, charsOk, Bool.and_eq_true, Bool.not_eq_true'] at hne hc
    simp only [fieldsOk, hc.1, qvalOk_of hne.1 hc.2, Bool.and_self]
  | handle h =>
    simp only [noEmpty, charsOk, pathFieldsClean, Bool.not_eq_true'] at hne hc hcl
    exact lastOk_of hne hcl hc
  | group id h =>
    cases id <;> cases h <;> simp only [noEmpty, charsOk, pathFieldsClean, optNe, Bool.and_eq_true, Bool.not_eq_true',
      Bool.false_eq_true] at hne hc hcl
    · exact lastOk_of hne.2 hcl hc
    · exact lastOk_of hne.1 hcl hc
  | post id pid ph gid gh =>
    cases pid <;> cases ph <;> cases gid <;> cases gh <;>
      simp only [noEmpty, charsOk, pathFieldsClean, optNe, Bool.and_eq_true, Bool.not_eq_true', Bool.false_eq_true,
        and_true] at hne hc hcl
    · simp only [fieldsOk, segOk_of hne.2 hcl.1 hc.1, lastOk_of hne.1 hcl.2 hc.2, Bool.and_self]
    · simp only [fieldsOk, segOk_of hne.2 hcl.1 hc.1, lastOk_of hne.1 hcl.2 hc.2, Bool.and_self]
    · simp only [fieldsOk, segOk_of hne.2 hcl.1 hc.1, lastOk_of hne.1 hcl.2 hc.2, Bool.and_self]
    · simp only [fieldsOk, qvalOk_of hne.2 hc.1, qvalOk_of hne.1 hc.2, Bool.and_self]
  | video id pid =>
    cases pid <;> simp only [noEmpty, charsOk, pathFieldsClean, optNe, Bool.and_eq_true, Bool.not_eq_true',
      and_true] at hne hc hcl
    · exact qvalOk_of hne hc
    · simp only [fieldsOk, segOk_of hne.2 hcl.1 hc.1, lastOk_of hne.1 hcl.2 hc.2, Bool.and_self]
  | photo id gid pid ph aid =>
    cases pid <;> cases ph
    · simp only [noEmpty, charsOk, Bool.and_eq_true, Bool.not_eq_true'] at hne hc
      simp only [fieldsOk, photoQueryOk, qvalOk_of hne.1.1.1.1 hc.1.1, optQvalOk_of hne.1.1.1.2 hc.1.2,
        optQvalOk_of hne.2 hc.2, Bool.and_self]
    · cases gid <;> cases aid <;>
        simp only [noEmpty, charsOk, pathFieldsClean, optNe, Bool.and_eq_true, Bool.not_eq_true', Bool.false_eq_true,
          and_true] at hne hc hcl
      have ha := albumOk_of hcl.2
      simp only [fieldsOk, segOk_of hne.1.2 hcl.1.1 hc.1, lastOk_of hne.1.1 hcl.1.2 hc.2, hne.2, ha.1, ha.2,
        Bool.not_false, Bool.and_self]
    · cases gid <;> cases aid <;>
        simp only [noEmpty, charsOk, pathFieldsClean, optNe, Bool.and_eq_true, Bool.not_eq_true', Bool.false_eq_true,
          and_true] at hne hc hcl
      have ha := albumOk_of hcl.2
      simp only [fieldsOk, segOk_of hne.1.2 hcl.1.1 hc.1, lastOk_of hne.1.1 hcl.1.2 hc.2, hne.2, ha.1, ha.2,
        Bool.not_false, Bool.and_self]
    · simp only [charsOk, Bool.false_eq_true] at hc

/-! ## segments of a path vs. what the path contains -/

/-- a segment of a path that starts with `/` cannot start with `w` when `"/" + w` is not in
the path -/
theorem seg_no_prefix (path w : Str) (hhead : path.head? = some '/') (hw : '/' ∉ w)
    (h : hasInfix path ('/' :: w) = false) : ∀ x ∈ pathsplit path, w.isPrefixOf x = false := by
  intro x hx
  have hne : pathsplit path ≠ [] := List.ne_nil_of_mem hx
  obtain ⟨a, b, hab, _⟩ := pathsplit_decomp path hhead hne
  cases hp : w.isPrefixOf x with
  | false => rfl
  | true =>
    have : hasInfix (slashed (pathsplit path)) ('/' :: w) = true := by
      rw [hasInfix_slashed_prefix _ w hw (pathsplit_no_slash path)]
      exact List.any_eq_true.mpr ⟨x, hx, hp⟩
    have := hasInfix_mono a _ b _ this
    rw [← hab, h] at this
    exact absurd this (by simp)

/-- a segment but the last of a path that starts with `/` cannot be `w` when `"/" + w + "/"`
is not in the path -/
theorem seg_ne_word (path w : Str) (hhead : path.head? = some '/') (hw : '/' ∉ w)
    (h : hasInfix path ('/' :: (w ++ ['/'])) = false) (i : Nat) (hi : i + 1 < (pathsplit path).length) :
    (pathsplit path)[i]'(by omega) ≠ w := by
  intro e
  have hne : pathsplit path ≠ [] := by intro e'; rw [e'] at hi; simp at hi
  obtain ⟨a, b, hab, _⟩ := pathsplit_decomp path hhead hne
  have : hasInfix (slashed (pathsplit path)) ('/' :: (w ++ ['/'])) = true := by
    rw [hasInfix_slashed_exact _ w hw (pathsplit_no_slash path)]
    apply List.any_eq_true.mpr
    refine ⟨(pathsplit path)[i]'(by omega), ?_, by simp [e]⟩
    have hlen : i < (pathsplit path).dropLast.length := by simp; omega
    have := List.getElem_mem hlen
    rwa [List.getElem_dropLast] at this
  have := hasInfix_mono a _ b _ this
  rw [← hab, h] at this
  exact absurd this (by simp)

/-! ## route by route: the record returned satisfies `reparsable` -/

theorem head_of_abs {path : Str} (habs : PathAbs path) (hne : pathsplit path ≠ []) : path.head? = some '/' := by
  rcases habs with h | h
  · rw [h] at hne; exact absurd pathsplit_nil hne
  · exact h

theorem noWatch_of_seg (path : Str) (habs : PathAbs path) (hw : hasInfix path ('/' :: watchL) = false)
    (i : Nat) (hi : i < (pathsplit path).length) : noWatch ((pathsplit path)[i]) = true := by
  have hne : pathsplit path ≠ [] := by intro e; rw [e] at hi; simp at hi
  have := seg_no_prefix path watchL (head_of_abs habs hne) (by decide) hw _ (List.getElem_mem hi)
  unfold noWatch
  rw [lit_watch_word]
  simpa [startsWith] using this

theorem seg_ne_videos (path : Str) (habs : PathAbs path) (h : hasInfix path ('/' :: (videosL ++ ['/'])) = false)
    (i : Nat) (hi : i + 1 < (pathsplit path).length) : (pathsplit path)[i]'(by omega) ≠ lit "videos" := by
  have hne : pathsplit path ≠ [] := by intro e; rw [e] at hi; simp at hi
  rw [lit_videos_word]
  exact seg_ne_word path videosL (head_of_abs habs hne) (by decide) h i hi

theorem seg_ne_photos (path : Str) (habs : PathAbs path) (h : hasInfix path ('/' :: (photosL ++ ['/'])) = false)
    (i : Nat) (hi : i + 1 < (pathsplit path).length) : (pathsplit path)[i]'(by omega) ≠ lit "photos" := by
  have hne : pathsplit path ≠ [] := by intro e; rw [e] at hi; simp at hi
  rw [lit_photos_word]
  exact seg_ne_word path photosL (head_of_abs habs hne) (by decide) h i hi

theorem routeVideos_reparsable (path : Str) (r : Parsed) (habs : PathAbs path)
    (hw : hasInfix path ('/' :: watchL) = false)
    (h : routeVideos path = .ok (some r)) (hf : fieldsOk r = true) : reparsable r = true := by
  unfold routeVideos at h
  by_cases hl : (pathsplit path).length < 3
  · simp [hl] at h
  · have e2 := getIdx_of_lt (pathsplit path) 2 (by omega)
    have e0 := getIdx_of_lt (pathsplit path) 0 (by omega)
    simp only [hl, if_false, bind, Except.bind, e0, e2, pure, Except.pure, Except.ok.injEq,
      Option.some.injEq] at h
    subst h
    simp only [fieldsOk, Bool.and_eq_true] at hf
    simp only [reparsable, videoParentOk, hf.1, hf.2, Bool.true_and,
      noWatch_of_seg path habs hw 0 (by omega), noWatch_of_seg path habs hw 2 (by omega)]

theorem routePhotos_reparsable (path : Str) (r : Parsed) (habs : PathAbs path)
    (hw : hasInfix path ('/' :: watchL) = false) (hv : hasInfix path ('/' :: (videosL ++ ['/'])) = false)
    (h : routePhotos path = .ok (some r)) (hf : fieldsOk r = true) :
    reparsable r = true := by
  unfold routePhotos at h
  by_cases hl : (pathsplit path).length < 4
  · simp [hl] at h
  · have e0 := getIdx_of_lt (pathsplit path) 0 (by omega)
    have e2 := getIdx_of_lt (pathsplit path) 2 (by omega)
    have e3 := getIdx_of_lt (pathsplit path) 3 (by omega)
    have w0 := noWatch_of_seg path habs hw 0 (by omega)
    have w3 := noWatch_of_seg path habs hw 3 (by omega)
    have nv : decide ((pathsplit path)[0]'(by omega) ≠ lit "videos") = true := by
      simpa using seg_ne_videos path habs hv 0 (by omega)
    simp only [hl, if_false, bind, Except.bind, e0, e2, e3, pure, Except.pure] at h
    by_cases ha : (albumOf ((pathsplit path)[2]'(by omega))).isEmpty = true
    · simp [ha] at h
    · simp only [ha, Bool.false_eq_true, if_false] at h
      by_cases hid : is_facebook_id ((pathsplit path)[0]'(by omega)) = true
      · simp only [hid, if_true, Except.ok.injEq, Option.some.injEq] at h
        subst h
        simp only [fieldsOk, Bool.and_eq_true] at hf
        simp only [reparsable, photoPathOk, hf.1.1.1.1, hf.1.1.1.2, hf.1.1.2, hf.1.2, hf.2, w0, w3, nv, hid, Bool.and_self]
      · simp only [hid, Bool.false_eq_true, if_false, Except.ok.injEq, Option.some.injEq] at h
        subst h
        simp only [fieldsOk, Bool.and_eq_true] at hf
        have hid' : is_facebook_id ((pathsplit path)[0]'(by omega)) = false := by simpa using hid
        simp only [reparsable, photoPathOk, hf.1.1.1.1, hf.1.1.1.2, hf.1.1.2, hf.1.2, hf.2, w0, w3, nv, hid', Bool.not_false,
          Bool.and_self]

theorem routePosts_reparsable (path : Str) (r : Parsed) (habs : PathAbs path)
    (hw : hasInfix path ('/' :: watchL) = false) (hv : hasInfix path ('/' :: (videosL ++ ['/'])) = false)
    (hp : hasInfix path ('/' :: (photosL ++ ['/'])) = false)
    (h : routePosts path = .ok (some r)) (hf : fieldsOk r = true) : reparsable r = true := by
  unfold routePosts at h
  by_cases hl : (pathsplit path).length < 3
  · simp [hl] at h
  · have e0 := getIdx_of_lt (pathsplit path) 0 (by omega)
    have e2 := getIdx_of_lt (pathsplit path) 2 (by omega)
    simp only [hl, if_false, bind, Except.bind, e0, e2, pure, Except.pure] at h
    by_cases hg : (pathsplit path)[0]'(by omega) = lit "groups"
    · simp only [hg, if_true] at h
      by_cases h4 : (pathsplit path).length < 4
      · simp [h4] at h
      · have e1 := getIdx_of_lt (pathsplit path) 1 (by omega)
        have e3 := getIdx_of_lt (pathsplit path) 3 (by omega)
        have w1 := noWatch_of_seg path habs hw 1 (by omega)
        have w3 := noWatch_of_seg path habs hw 3 (by omega)
        have nv : decide ((pathsplit path)[1]'(by omega) ≠ lit "videos") = true := by
          simpa using seg_ne_videos path habs hv 1 (by omega)
        have np : decide ((pathsplit path)[1]'(by omega) ≠ lit "photos") = true := by
          simpa using seg_ne_photos path habs hp 1 (by omega)
        simp only [h4, if_false, e1, e3] at h
        by_cases hid : is_facebook_id ((pathsplit path)[1]'(by omega)) = true
        · simp only [hid, if_true, Except.ok.injEq, Option.some.injEq] at h
          subst h
          simp only [fieldsOk, Bool.and_eq_true] at hf
          simp only [reparsable, postGroupOk, hf.1, hf.2, w1, w3, nv, np, hid, Bool.and_self]
        · simp only [hid, Bool.false_eq_true, if_false, Except.ok.injEq, Option.some.injEq] at h
          subst h
          simp only [fieldsOk, Bool.and_eq_true] at hf
          have hid' : is_facebook_id ((pathsplit path)[1]'(by omega)) = false := by simpa using hid
          simp only [reparsable, postGroupOk, hf.1, hf.2, w1, w3, nv, np, hid', Bool.not_false, Bool.and_self]
    · simp only [hg, if_false] at h
      have w0 := noWatch_of_seg path habs hw 0 (by omega)
      have w2 := noWatch_of_seg path habs hw 2 (by omega)
      have nv : decide ((pathsplit path)[0]'(by omega) ≠ lit "videos") = true := by
        simpa using seg_ne_videos path habs hv 0 (by omega)
      have np : decide ((pathsplit path)[0]'(by omega) ≠ lit "photos") = true := by
        simpa using seg_ne_photos path habs hp 0 (by omega)
      have ng : decide ((pathsplit path)[0]'(by omega) ≠ lit "groups") = true := by simpa using hg
      by_cases hid : is_facebook_id ((pathsplit path)[0]'(by omega)) = true
      · simp only [hid, if_true, Except.ok.injEq, Option.some.injEq] at h
        subst h
        simpa [fieldsOk, reparsable] using hf
      · simp only [hid, Bool.false_eq_true, if_false, Except.ok.injEq, Option.some.injEq] at h
        subst h
        simp only [fieldsOk, Bool.and_eq_true] at hf
        have hid' : is_facebook_id ((pathsplit path)[0]'(by omega)) = false := by simpa using hid
        simp only [reparsable, postHandleOk, hf.1, hf.2, w0, w2, nv, np, ng, hid', Bool.not_false, Bool.and_self]

theorem routeGroups_reparsable (path : Str) (r : Parsed) (habs : PathAbs path)
    (hw : hasInfix path ('/' :: watchL) = false) (hv : hasInfix path ('/' :: (videosL ++ ['/'])) = false)
    (hp : hasInfix path ('/' :: (photosL ++ ['/'])) = false)
    (h : routeGroups path = .ok (some r)) (hf : fieldsOk r = true) : reparsable r = true := by
  unfold routeGroups at h
  by_cases hl : (pathsplit path).length < 2
  · simp [hl] at h
  · have e1 := getIdx_of_lt (pathsplit path) 1 (by omega)
    have w1 := noWatch_of_seg path habs hw 1 (by omega)
    simp only [hl, if_false, bind, Except.bind, e1, pure, Except.pure] at h
    by_cases hperm : contains path (lit "/permalink/") = true
    · simp only [hperm, if_true] at h
      by_cases h4 : (pathsplit path).length < 4
      · simp [h4] at h
      · have e3 := getIdx_of_lt (pathsplit path) 3 (by omega)
        have w3 := noWatch_of_seg path habs hw 3 (by omega)
        have nv : decide ((pathsplit path)[1]'(by omega) ≠ lit "videos") = true := by
          simpa using seg_ne_videos path habs hv 1 (by omega)
        have np : decide ((pathsplit path)[1]'(by omega) ≠ lit "photos") = true := by
          simpa using seg_ne_photos path habs hp 1 (by omega)
        simp only [h4, if_false, e3] at h
        by_cases hid : is_facebook_id ((pathsplit path)[1]'(by omega)) = true
        · simp only [hid, if_true, Except.ok.injEq, Option.some.injEq] at h
          subst h
          simp only [fieldsOk, Bool.and_eq_true] at hf
          simp only [reparsable, postGroupOk, hf.1, hf.2, w1, w3, nv, np, hid, Bool.and_self]
        · simp only [hid, Bool.false_eq_true, if_false, Except.ok.injEq, Option.some.injEq] at h
          subst h
          simp only [fieldsOk, Bool.and_eq_true] at hf
          have hid' : is_facebook_id ((pathsplit path)[1]'(by omega)) = false := by simpa using hid
          simp only [reparsable, postGroupOk, hf.1, hf.2, w1, w3, nv, np, hid', Bool.not_false, Bool.and_self]
    · simp only [hperm, Bool.false_eq_true, if_false] at h
      by_cases hid : is_facebook_id ((pathsplit path)[1]'(by omega)) = true
      · simp only [hid, if_true, Except.ok.injEq, Option.some.injEq] at h
        subst h
        simp only [fieldsOk] at hf
        simp only [reparsable, groupOk, hf, w1, hid, Bool.and_self]
      · simp only [hid, Bool.false_eq_true, if_false, Except.ok.injEq, Option.some.injEq] at h
        subst h
        simp only [fieldsOk] at hf
        have hid' : is_facebook_id ((pathsplit path)[1]'(by omega)) = false := by simpa using hid
        simp only [reparsable, groupOk, hf, w1, hid', Bool.not_false, Bool.and_self]

/-- the first segment of a path without `//` that does not start with `/people` does not start
with `people` -/
theorem first_seg_no_prefix (path w : Str) (habs : PathAbs path) (hnd : hasInfix path dblSlash = false)
    (h : startsWith path ('/' :: w) = false) (hl : 0 < (pathsplit path).length) :
    w.isPrefixOf ((pathsplit path)[0]) = false := by
  have hne : pathsplit path ≠ [] := by intro e; rw [e] at hl; simp at hl
  obtain ⟨b, hb⟩ := pathsplit_decomp_noDbl path (head_of_abs habs hne) hne hnd
  cases hp : w.isPrefixOf ((pathsplit path)[0]) with
  | false => rfl
  | true =>
    exfalso
    cases hps : pathsplit path with
    | nil => exact hne hps
    | cons s ss =>
      have hs : w.isPrefixOf s = true := by simpa [hps] using hp
      obtain ⟨t, ht⟩ := List.isPrefixOf_iff_prefix.mp hs
      have : startsWith path ('/' :: w) = true := by
        rw [hb, hps]
        simp only [slashed, startsWith]
        apply List.isPrefixOf_iff_prefix.mpr
        exact ⟨t ++ slashed ss ++ b, by rw [← ht]; simp⟩
      rw [h] at this
      cases this

theorem routeHandle_reparsable (path : Str) (r : Parsed) (habs : PathAbs path)
    (hnd : hasInfix path dblSlash = false)
    (hw : hasInfix path ('/' :: watchL) = false) (hpe : startsWith path ('/' :: peopleL) = false)
    (h : routeHandle path = .ok (some r)) (hf : fieldsOk r = true) :
    reparsable r = true := by
  unfold routeHandle at h
  by_cases he : (pathsplit path).isEmpty = true
  · simp [he] at h
  · have hl : 0 < (pathsplit path).length := by
      cases hp : pathsplit path with
      | nil => simp [hp] at he
      | cons x xs => simp
    have e0 := getIdx_of_lt (pathsplit path) 0 hl
    have w0 := noWatch_of_seg path habs hw 0 hl
    have p0 : startsWith ((pathsplit path)[0]) (lit "people") = false := by
      rw [lit_people_word]
      exact first_seg_no_prefix path peopleL habs hnd hpe hl
    simp only [he, Bool.false_eq_true, if_false, bind, Except.bind, e0, pure, Except.pure] at h
    by_cases hphp : endsWith ((pathsplit path)[0]) (lit ".php") = true
    · simp [hphp] at h
    · have hphp' : endsWith ((pathsplit path)[0]) (lit ".php") = false := by simpa using hphp
      simp only [hphp', Bool.not_false, if_true, Except.ok.injEq, Option.some.injEq] at h
      subst h
      simp only [fieldsOk] at hf
      simp only [reparsable, handleOk, hf, w0, p0, hphp', Bool.not_false, Bool.and_self]

/-- the routes that copy query values or a path segment into a field that goes to the query of
the canonical url: `fieldsOk` is all `reparsable` asks -/
theorem reparsable_of_fieldsOk_query (r : Parsed) (hf : fieldsOk r = true)
    (hshape : (∃ id, r = .user id none) ∨ (∃ id, r = .video id none) ∨
      (∃ id pid, r = .post id (some pid) none none none) ∨ (∃ id g a, r = .photo id g none none a)) :
    reparsable r = true := by
  rcases hshape with ⟨id, rfl⟩ | ⟨id, rfl⟩ | ⟨id, pid, rfl⟩ | ⟨id, g, a, rfl⟩ <;>
    simpa [fieldsOk, reparsable] using hf

local macro "shape_done" : tactic =>
  `(tactic| (simp only [bind, Except.bind, pure, Except.pure, Functor.map, Except.map]
             repeat' split
             all_goals (intro hr; cases hr)
             all_goals simp))

theorem routeWatch_shape (query : Str) (r : Parsed) : routeWatch query = .ok (some r) → ∃ id, r = .video id none := by
  unfold routeWatch
  by_cases h : qsHas (safe_parse_qs query) (lit "v") = true
  · have e0 := getIdx_of_lt _ 0 (qsValues_pos_of_has _ _ h)
    simp only [h, Bool.not_true, Bool.false_eq_true, if_false, qsItem_of_has, bind, Except.bind, e0]
    shape_done
  · simp [h]

theorem routePhotoQuery_shape (query : Str) (r : Parsed) :
    routePhotoQuery query = .ok (some r) → ∃ id g a, r = .photo id g none none a := by
  unfold routePhotoQuery
  by_cases h : qsHas (safe_parse_qs query) (lit "fbid") = true
  · have e0 := getIdx_of_lt _ 0 (qsValues_pos_of_has _ _ h)
    obtain ⟨ga, hga⟩ := photoSets_total (safe_parse_qs query)
    simp only [h, Bool.not_true, Bool.false_eq_true, if_false, hga, qsItem_of_has, bind, Except.bind, e0]
    shape_done
  · simp [h]

theorem routePermalink_shape (query : Str) (r : Parsed) :
    routePermalink query = .ok (some r) → ∃ id pid, r = .post id (some pid) none none none := by
  unfold routePermalink
  simp only []
  cases h1 : qsGet (safe_parse_qs query) (lit "id") with
  | none => simp
  | some pid =>
    cases h2 : qsGet (safe_parse_qs query) (lit "story_fbid") with
    | none => simp
    | some sid =>
      have e1 := getIdx_of_lt _ 0 (qsGet_some_pos _ _ _ h1)
      have e2 := getIdx_of_lt _ 0 (qsGet_some_pos _ _ _ h2)
      simp only [bind, Except.bind, e1, e2]
      shape_done

theorem routeProfile_shape (query : Str) (r : Parsed) : routeProfile query = .ok (some r) → ∃ id, r = .user id none := by
  unfold routeProfile
  simp only []
  cases h1 : qsGet (safe_parse_qs query) (lit "id") with
  | none => simp
  | some uid =>
    have e1 := getIdx_of_lt _ 0 (qsGet_some_pos _ _ _ h1)
    simp only [bind, Except.bind, e1]
    shape_done

theorem routePeople_shape (path : Str) (r : Parsed) : routePeople path = .ok (some r) → ∃ id, r = .user id none := by
  unfold routePeople
  by_cases h : (pathsplit path).length < 3
  · simp [h]
  · have e2 := getIdx_of_lt (pathsplit path) 2 (by omega)
    simp only [h, if_false, bind, Except.bind, e2]
    shape_done

/-! ## route by route: the path-borne fields are clean segments -/

local macro "route_clean" : tactic =>
  `(tactic| (simp only [bind, Except.bind, pure, Except.pure, Functor.map, Except.map]
             repeat' split
             all_goals (intro hr; cases hr)
             all_goals simp_all [pathFieldsClean]))

theorem seg_clean (path : Str) (hseg : ∀ x ∈ pathsplit path, segClean x = true) (i : Nat)
    (hi : i < (pathsplit path).length) : segClean ((pathsplit path)[i]) = true :=
  hseg _ (List.getElem_mem hi)

/-- the album id is the end of the segment `a.<album>` (or that segment): clean when not empty -/
theorem albumClean_albumOf (p2 : Str) (h : segClean p2 = true) : albumClean (albumOf p2) = true := by
  unfold segClean at h
  simp only [Bool.and_eq_true, Bool.not_eq_true', List.all_eq_true] at h
  obtain ⟨⟨hall, _⟩, hl⟩ := h
  unfold albumOf albumClean
  split
  · have h1 : (p2.drop 2).all cleanChar = true :=
      List.all_eq_true.mpr (fun c hc => hall c (List.mem_of_mem_drop hc))
    have h2 : blankLast (p2.drop 2) = false := by
      unfold blankLast at hl ⊢
      rw [List.getLast?_drop]
      split
      · rfl
      · exact hl
    simp [h1, h2]
  · have h1 : p2.all cleanChar = true := List.all_eq_true.mpr hall
    simp [h1, hl]

theorem routeVideos_clean (path : Str) (r : Parsed) (hseg : ∀ x ∈ pathsplit path, segClean x = true) :
    routeVideos path = .ok (some r) → pathFieldsClean r = true := by
  unfold routeVideos
  by_cases h : (pathsplit path).length < 3
  · simp [h]
  · have e2 := getIdx_of_lt (pathsplit path) 2 (by omega)
    have e0 := getIdx_of_lt (pathsplit path) 0 (by omega)
    have n0 := seg_clean path hseg 0 (by omega)
    have n2 := seg_clean path hseg 2 (by omega)
    simp only [h, if_false, bind, Except.bind, e0, e2]
    route_clean

theorem routePhotos_clean (path : Str) (r : Parsed) (hseg : ∀ x ∈ pathsplit path, segClean x = true) :
    routePhotos path = .ok (some r) → pathFieldsClean r = true := by
  unfold routePhotos
  by_cases h : (pathsplit path).length < 4
  · simp [h]
  · have e0 := getIdx_of_lt (pathsplit path) 0 (by omega)
    have e2 := getIdx_of_lt (pathsplit path) 2 (by omega)
    have e3 := getIdx_of_lt (pathsplit path) 3 (by omega)
    have n0 := seg_clean path hseg 0 (by omega)
    have n3 := seg_clean path hseg 3 (by omega)
    have na := albumClean_albumOf _ (seg_clean path hseg 2 (by omega))
    simp only [h, if_false, bind, Except.bind, e0, e2, e3]
    by_cases ha : (albumOf ((pathsplit path)[2]'(by omega))).isEmpty = true
    · simp [ha, pure, Except.pure]
    · have ha' : (albumOf ((pathsplit path)[2]'(by omega))).isEmpty = false := by simpa using ha
      simp only [ha', Bool.false_eq_true, if_false]
      route_clean

theorem routePosts_clean (path : Str) (r : Parsed) (hseg : ∀ x ∈ pathsplit path, segClean x = true) :
    routePosts path = .ok (some r) → pathFieldsClean r = true := by
  unfold routePosts
  by_cases h : (pathsplit path).length < 3
  · simp [h]
  · have e0 := getIdx_of_lt (pathsplit path) 0 (by omega)
    have e2 := getIdx_of_lt (pathsplit path) 2 (by omega)
    have n0 := seg_clean path hseg 0 (by omega)
    have n2 := seg_clean path hseg 2 (by omega)
    simp only [h, if_false, bind, Except.bind, e0, e2]
    by_cases h4 : (pathsplit path).length < 4
    · simp only [h4, if_true]
      route_clean
    · have e1 := getIdx_of_lt (pathsplit path) 1 (by omega)
      have e3 := getIdx_of_lt (pathsplit path) 3 (by omega)
      have n1 := seg_clean path hseg 1 (by omega)
      have n3 := seg_clean path hseg 3 (by omega)
      simp only [h4, if_false, e1, e3]
      route_clean

theorem routeGroups_clean (path : Str) (r : Parsed) (hseg : ∀ x ∈ pathsplit path, segClean x = true) :
    routeGroups path = .ok (some r) → pathFieldsClean r = true := by
  unfold routeGroups
  by_cases h : (pathsplit path).length < 2
  · simp [h]
  · have e1 := getIdx_of_lt (pathsplit path) 1 (by omega)
    have n1 := seg_clean path hseg 1 (by omega)
    simp only [h, if_false, bind, Except.bind, e1]
    by_cases h4 : (pathsplit path).length < 4
    · simp only [h4, if_true]
      route_clean
    · have e3 := getIdx_of_lt (pathsplit path) 3 (by omega)
      have n3 := seg_clean path hseg 3 (by omega)
      simp only [h4, if_false, e3]
      route_clean

theorem routeHandle_clean (path : Str) (r : Parsed) (hseg : ∀ x ∈ pathsplit path, segClean x = true) :
    routeHandle path = .ok (some r) → pathFieldsClean r = true := by
  unfold routeHandle
  by_cases h : (pathsplit path).isEmpty = true
  · simp [h]
  · have hl : 0 < (pathsplit path).length := by
      cases hp : pathsplit path with
      | nil => simp [hp] at h
      | cons x xs => simp
    have e0 := getIdx_of_lt (pathsplit path) 0 hl
    have n0 := seg_clean path hseg 0 hl
    simp only [h, Bool.false_eq_true, if_false, bind, Except.bind, e0]
    route_clean

/-- the router on a path whose segments are clean returns clean path-borne fields -/
theorem parseSplit_clean (sp : SplitResult) (r : Parsed) (hseg : ∀ x ∈ pathsplit sp.path, segClean x = true) :
    parseSplit sp = .ok (some r) → pathFieldsClean r = true := by
  unfold parseSplit
  simp only
  split
  · intro h; cases h
  split
  · intro h; obtain ⟨id, rfl⟩ := routeWatch_shape _ r h; rfl
  split
  · exact routeVideos_clean _ r hseg
  split
  · intro h; obtain ⟨id, g, a, rfl⟩ := routePhotoQuery_shape _ r h; rfl
  split
  · exact routePhotos_clean _ r hseg
  split
  · exact routePosts_clean _ r hseg
  split
  · intro h; obtain ⟨id, pid, rfl⟩ := routePermalink_shape _ r h; rfl
  split
  · exact routeGroups_clean _ r hseg
  split
  · intro h; obtain ⟨id, rfl⟩ := routeProfile_shape _ r h; rfl
  split
  · intro h; obtain ⟨id, rfl⟩ := routePeople_shape _ r h; rfl
  · exact routeHandle_clean _ r hseg

/-- the segments of the path the parser routes — the path `urlsplit` returned, the blanks around
each segment dropped, repeated slashes collapsed — are clean -/
theorem squeezePath_segClean (sp : SplitResult) (habs : PathAbs sp.path)
    (hchars : ∀ c ∈ sp.path, pathChar c = true) :
    ∀ x ∈ pathsplit (squeezePath sp).path, segClean x = true := by
  intro x hx
  have ht := routed_segment_trimmed sp.path habs x hx
  have hc := routed_segment_chars sp.path (fun c => pathChar c = true) hchars x hx
  have hs := pathsplit_no_slash _ x hx
  unfold segClean
  have hall : x.all cleanChar = true := by
    apply List.all_eq_true.mpr
    intro c hcx
    obtain ⟨h1, h2, h3⟩ := pathChar_spec (hc c hcx)
    have h0 : c ≠ '/' := fun e => hs (e ▸ hcx)
    simp [cleanChar, h0, h1, h2, h3]
  simp [hall, ht.1, ht.2]

/-- **a record returned by the router on an absolute path without `//` whose segments are clean
satisfies the hypothesis of the round-trip theorem as soon as `charsOk` holds** -/
theorem parseSplit_reparsable (sp : SplitResult) (r : Parsed) (habs : PathAbs sp.path)
    (hnd : hasInfix sp.path dblSlash = false) (hseg : ∀ x ∈ pathsplit sp.path, segClean x = true)
    (h : parseSplit sp = .ok (some r)) (hc : charsOk r = true) :
    reparsable r = true := by
  have hf : fieldsOk r = true :=
    fieldsOk_of r (parseSplit_noEmpty sp r hnd h) (parseSplit_clean sp r hseg h) hc
  rw [parseSplit_eq] at h
  split at h
  · cases h
  rename_i h0
  split at h
  · obtain ⟨id, rfl⟩ := routeWatch_shape _ r h
    exact reparsable_of_fieldsOk_query _ hf (Or.inr (Or.inl ⟨id, rfl⟩))
  rename_i hw
  have hw' : hasInfix sp.path ('/' :: watchL) = false := by simpa using hw
  split at h
  · exact routeVideos_reparsable _ r habs hw' h hf
  rename_i hv
  have hv' : hasInfix sp.path ('/' :: (videosL ++ ['/'])) = false := by simpa using hv
  split at h
  · obtain ⟨id, g, a, rfl⟩ := routePhotoQuery_shape _ r h
    exact reparsable_of_fieldsOk_query _ hf (Or.inr (Or.inr (Or.inr ⟨id, g, a, rfl⟩)))
  split at h
  · exact routePhotos_reparsable _ r habs hw' hv' h hf
  rename_i hp
  have hp' : hasInfix sp.path ('/' :: (photosL ++ ['/'])) = false := by simpa using hp
  split at h
  · exact routePosts_reparsable _ r habs hw' hv' hp' h hf
  split at h
  · obtain ⟨id, pid, rfl⟩ := routePermalink_shape _ r h
    exact reparsable_of_fieldsOk_query _ hf (Or.inr (Or.inr (Or.inl ⟨id, pid, rfl⟩)))
  split at h
  · exact routeGroups_reparsable _ r habs hw' hv' hp' h hf
  split at h
  · obtain ⟨id, rfl⟩ := routeProfile_shape _ r h
    exact reparsable_of_fieldsOk_query _ hf (Or.inl ⟨id, rfl⟩)
  split at h
  · obtain ⟨id, rfl⟩ := routePeople_shape _ r h
    exact reparsable_of_fieldsOk_query _ hf (Or.inl ⟨id, rfl⟩)
  · rename_i hpe
    have hpe' : startsWith sp.path ('/' :: peopleL) = false := by simpa using hpe
    exact routeHandle_reparsable _ r habs hnd hw' hpe' h hf

/-! ## `safe_urlsplit` returns an absolute (or empty) path -/

theorem protoLen_some_shape (v : Str) (n : Nat) (h : protoLen v = some n) :
    (∃ r, v = '/' :: '/' :: r) ∨
    (∃ l r, v = l ++ ':' :: '/' :: '/' :: r ∧ l ≠ [] ∧ ∀ c ∈ l, isAsciiAlpha c = true) := by
  unfold protoLen at h
  simp only at h
  by_cases h0 : (v.takeWhile isAsciiAlpha).length = 0
  · simp only [h0, if_true] at h
    left
    by_cases hs : startsWith v ['/', '/'] = true
    · exact (startsWith_slashes_iff v).mp hs
    · simp [hs] at h
  · simp only [h0, if_false] at h
    right
    by_cases hc : (decide ((v.takeWhile isAsciiAlpha).length ≤ protoMaxLetters) &&
        startsWith (v.dropWhile isAsciiAlpha) [':', '/', '/']) = true
    · simp only [Bool.and_eq_true] at hc
      obtain ⟨r, hr⟩ : ∃ r, v.dropWhile isAsciiAlpha = ':' :: '/' :: '/' :: r := by
        have := List.isPrefixOf_iff_prefix.mp hc.2
        obtain ⟨r, hr⟩ := this
        exact ⟨r, by rw [← hr]; rfl⟩
      refine ⟨v.takeWhile isAsciiAlpha, r, ?_, ?_, ?_⟩
      · rw [← hr, List.takeWhile_append_dropWhile]
      · intro e; rw [e] at h0; simp at h0
      · exact mem_takeWhile_s20 _ _
    · simp [hc] at h

theorem splitScheme_of_head_slash (t dflt : Str) : splitScheme ('/' :: t) dflt = (dflt, '/' :: t) := by
  unfold splitScheme
  rw [splitFirst_cons_s20]
  simp only [show ('/' : Char) ≠ ':' by decide, if_false]
  cases (splitFirst t ':').2 with
  | none => rfl
  | some post => simp [isAsciiAlpha]

/-- what follows the authority is empty or starts with `/`, `?` or `#`, so the path is empty or
starts with `/` -/
theorem path_after_netloc (r' : Str) :
    PathAbs ((splitFirst (splitFirst (splitNetloc ('/' :: '/' :: r')).2 '#').1 '?').1) := by
  unfold splitNetloc
  simp only [startsWith, List.isPrefixOf, beq_self_eq_true, Bool.and_self, if_true, List.drop_succ_cons,
    List.drop_zero]
  cases hrest : r'.dropWhile (fun c => !isNetlocDelim c) with
  | nil => left; simp [splitFirst_nil_s20]
  | cons c t =>
    have hc : isNetlocDelim c = true := by
      have := List.head?_dropWhile_not (fun c => !isNetlocDelim c) r'
      rw [hrest] at this
      simpa using this
    unfold isNetlocDelim at hc
    simp only [Bool.or_eq_true, decide_eq_true_eq] at hc
    rcases hc with (hc | hc) | hc <;> subst hc
    · right
      rw [splitFirst_cons_s20]
      simp only [show ('/' : Char) ≠ '#' by decide, if_false]
      rw [splitFirst_cons_s20]
      simp only [show ('/' : Char) ≠ '?' by decide, if_false]
      rfl
    · left
      rw [splitFirst_cons_s20]
      simp only [show ('?' : Char) ≠ '#' by decide, if_false]
      rw [splitFirst_cons_s20]
      simp
    · left
      rw [splitFirst_cons_s20]
      simp [splitFirst_nil_s20]

theorem urlsplit_path_abs_of_clean (c : Str) (url dflt : Str) (sp : SplitResult) (hclean : cleanUrl url = c)
    (hshape : (∃ r, c = '/' :: '/' :: r) ∨
      (∃ l r, c = l ++ ':' :: '/' :: '/' :: r ∧ l ≠ [] ∧ ∀ x ∈ l, isAsciiAlpha x = true))
    (h : urlsplit url dflt = some sp) : PathAbs sp.path := by
  unfold urlsplit at h
  simp only [hclean] at h
  have hsc : ∃ r', (splitScheme c dflt).2 = '/' :: '/' :: r' := by
    rcases hshape with ⟨r, hr⟩ | ⟨l, r, hr, hne, hall⟩
    · exact ⟨r, by rw [hr, splitScheme_of_head_slash]⟩
    · refine ⟨r, ?_⟩
      rw [hr]
      unfold splitScheme
      have hcolon : ':' ∉ l := fun hm => by
        have := hall _ hm
        exact absurd this (by decide)
      rw [splitFirst_append_sep_s20 l _ ':' hcolon]
      cases l with
      | nil => exact absurd rfl hne
      | cons x xs =>
        have hx := hall x (by simp)
        have hall' : (x :: xs).all isSchemeChar = true := by
          apply List.all_eq_true.mpr
          intro y hy
          have := hall y hy
          simp [isSchemeChar, this]
        simp only [hx, hall', Bool.and_self, if_true]
  obtain ⟨r', hr'⟩ := hsc
  rw [hr'] at h
  split at h
  · cases h
  · injection h with h
    rw [← h]
    exact path_after_netloc r'

theorem cleanUrl_keeps_shape (v : Str)
    (hshape : (∃ r, v = '/' :: '/' :: r) ∨
      (∃ l r, v = l ++ ':' :: '/' :: '/' :: r ∧ l ≠ [] ∧ ∀ x ∈ l, isAsciiAlpha x = true)) :
    (∃ r, cleanUrl v = '/' :: '/' :: r) ∨
      (∃ l r, cleanUrl v = l ++ ':' :: '/' :: '/' :: r ∧ l ≠ [] ∧ ∀ x ∈ l, isAsciiAlpha x = true) := by
  unfold cleanUrl
  rcases hshape with ⟨r, hr⟩ | ⟨l, r, hr, hne, hall⟩
  · left
    refine ⟨r.filter (fun c => !isUnsafeUrlChar c), ?_⟩
    rw [hr, List.dropWhile_cons_of_neg (by decide)]
    simp [isUnsafeUrlChar]
  · right
    refine ⟨l, r.filter (fun c => !isUnsafeUrlChar c), ?_, hne, hall⟩
    have halpha_c0 : ∀ x, isAsciiAlpha x = true → isC0OrSpace x = false ∧ isUnsafeUrlChar x = false := by
      intro x hx
      constructor
      · cases hc : isC0OrSpace x with
        | false => rfl
        | true =>
          exfalso
          unfold isC0OrSpace at hc
          have hle : x.toNat ≤ 0x20 := by simpa using hc
          unfold isAsciiAlpha at hx
          have h1 : ¬ ('a' ≤ x) := by
            intro h'; have : 'a'.toNat ≤ x.toNat := h'; simp at this; omega
          have h2 : ¬ ('A' ≤ x) := by
            intro h'; have : 'A'.toNat ≤ x.toNat := h'; simp at this; omega
          simp [h1, h2] at hx
      · cases hu : isUnsafeUrlChar x with
        | false => rfl
        | true =>
          exfalso
          unfold isUnsafeUrlChar at hu
          simp only [Bool.or_eq_true, decide_eq_true_eq] at hu
          rcases hu with (hu | hu) | hu <;> (rw [hu] at hx; exact absurd hx (by decide))
    rw [hr]
    cases l with
    | nil => exact absurd rfl hne
    | cons x xs =>
      rw [List.cons_append, List.dropWhile_cons_of_neg (by simp [(halpha_c0 x (hall x (by simp))).1])]
      rw [← List.cons_append, List.filter_append]
      have hfl : (x :: xs).filter (fun c => !isUnsafeUrlChar c) = x :: xs := by
        apply List.filter_eq_self.mpr
        intro y hy
        simp [(halpha_c0 y (hall y hy)).2]
      rw [hfl]
      simp [isUnsafeUrlChar]

/-- **the path `safe_urlsplit` returns is empty or starts with a slash** -/
theorem safe_urlsplit_path_abs (u : Str) (sp : SplitResult) (h : safe_urlsplit u = some sp) :
    PathAbs sp.path := by
  unfold safe_urlsplit at h
  have hv : ∃ n, protoLen (if (protoLen u).isNone = true then "http://".toList ++ u else u) = some n := by
    cases hp : protoLen u with
    | none =>
      have hh : AlphaProto "http".toList := by decide
      have := protoLen_proto_sep "http".toList u hh
      have e : "http://".toList ++ u = "http".toList ++ sepFull ++ u := by
        have : "http://".toList = "http".toList ++ sepFull := by decide
        rw [this]
      simp only [Option.isNone_none, if_true]
      rw [e]
      exact ⟨_, this⟩
    | some n => exact ⟨n, by simp [hp]⟩
  obtain ⟨n, hn⟩ := hv
  exact urlsplit_path_abs_of_clean _ _ [] sp rfl (cleanUrl_keeps_shape _ (protoLen_some_shape _ n hn)) h

/-- collapsing repeated slashes keeps the path empty or absolute -/
theorem squeezePath_abs (sp : SplitResult) (h : PathAbs sp.path) : PathAbs (squeezePath sp).path := by
  unfold squeezePath
  rcases h with h | h
  · left; simp only [h]; rw [stripSegments_nil]; exact squeeze_nil
  · right
    simp only []
    obtain ⟨q, hq⟩ : ∃ q, sp.path = '/' :: q := by
      cases hp : sp.path with
      | nil => rw [hp] at h; simp at h
      | cons c t => rw [hp] at h; simp at h; exact ⟨t, by rw [h]⟩
    rw [squeeze_head, hq, stripSegments_abs]
    rfl

end Ural.Facebook
