import UralModel.Model.Sites
import UralModel.Lemmas.StrSplit20
import UralModel.Lemmas.Protocol
/-!
Lemmas about the models of `urlsplit` / `safe_urlsplit` / `SplitResult.hostname` used by C18:

* `urlsplit` of `http://rest`, `https://rest`, `//rest` is the same function `authSplit` of the
  cleaned `rest`, up to the scheme field (`urlsplit_http`, `urlsplit_https`, `urlsplit_slashes`);
* `hostname_of_authority`: the hostname of an authority `[userinfo@]host[:port]` followed by
  anything that starts with `/`, `?` or `#` is the lower-cased host, whatever the userinfo, the
  port and what follows.
-/
set_option linter.unusedSimpArgs false
set_option linter.unusedVariables false

namespace Ural.Sites
open Ural Ural.Py

/-- removal of TAB, CR, LF (`_UNSAFE_URL_BYTES_TO_REMOVE`) -/
def dropUnsafe (s : Str) : Str := s.filter (fun c => !isUnsafeUrlChar c)

/-- what `urlsplit` does once the scheme is known and `//` was seen: `y` is what follows `//` -/
def authSplit (scheme y : Str) : Option SplitResult :=
  if !netlocOk (y.takeWhile (fun c => !isNetlocDelim c)) then none
  else
    some ⟨scheme, y.takeWhile (fun c => !isNetlocDelim c),
      (splitFirst (splitFirst (y.dropWhile (fun c => !isNetlocDelim c)) '#').1 '?').1,
      ((splitFirst (splitFirst (y.dropWhile (fun c => !isNetlocDelim c)) '#').1 '?').2).getD [],
      ((splitFirst (y.dropWhile (fun c => !isNetlocDelim c)) '#').2).getD []⟩

theorem urlsplit_of_scheme (url sch y : Str) (hs : splitScheme (cleanUrl url) [] = (sch, '/' :: '/' :: y)) :
    urlsplit url [] = authSplit sch y := by
  simp only [urlsplit, hs, splitNetloc, startsWith, List.isPrefixOf, beq_self_eq_true, Bool.and_self,
    if_true, List.drop_succ_cons, List.drop_zero, authSplit]

theorem urlsplit_http (rest : Str) :
    urlsplit ("http://".toList ++ rest) [] = authSplit "http".toList (dropUnsafe rest) := by
  apply urlsplit_of_scheme
  have h1 : cleanUrl ("http://".toList ++ rest) = "http://".toList ++ dropUnsafe rest := by
    simp [cleanUrl, isC0OrSpace, isUnsafeUrlChar, List.filter, dropUnsafe]
  rw [h1]
  simp [splitScheme, splitFirst_cons_s20, isAsciiAlpha, isSchemeChar, lower, lowerChar]

theorem urlsplit_https (rest : Str) :
    urlsplit ("https://".toList ++ rest) [] = authSplit "https".toList (dropUnsafe rest) := by
  apply urlsplit_of_scheme
  have h1 : cleanUrl ("https://".toList ++ rest) = "https://".toList ++ dropUnsafe rest := by
    simp [cleanUrl, isC0OrSpace, isUnsafeUrlChar, List.filter, dropUnsafe]
  rw [h1]
  simp [splitScheme, splitFirst_cons_s20, isAsciiAlpha, isSchemeChar, lower, lowerChar]

theorem splitScheme_slash (x : Str) : splitScheme ('/' :: x) [] = ([], '/' :: x) := by
  unfold splitScheme
  rw [splitFirst_cons_s20]
  have : ('/' : Char) ≠ ':' := by decide
  rw [if_neg this]
  cases h : (splitFirst x ':').2 with
  | none => simp [h]
  | some post => simp [h, isAsciiAlpha]

theorem urlsplit_slashes (rest : Str) :
    urlsplit ("//".toList ++ rest) [] = authSplit [] (dropUnsafe rest) := by
  apply urlsplit_of_scheme
  have h1 : cleanUrl ("//".toList ++ rest) = '/' :: '/' :: dropUnsafe rest := by
    simp [cleanUrl, isC0OrSpace, isUnsafeUrlChar, List.filter, dropUnsafe]
  rw [h1, splitScheme_slash]

theorem protoLen_http (rest : Str) : protoLen ("http://".toList ++ rest) = some 7 := by
  have := protoLen_proto_sep "http".toList rest (by decide)
  simpa [sepFull] using this

theorem protoLen_https (rest : Str) : protoLen ("https://".toList ++ rest) = some 8 := by
  have := protoLen_proto_sep "https".toList rest (by decide)
  simpa [sepFull] using this

theorem safe_urlsplit_http (rest : Str) :
    safe_urlsplit ("http://".toList ++ rest) = authSplit "http".toList (dropUnsafe rest) := by
  unfold safe_urlsplit
  rw [protoLen_http]
  exact urlsplit_http rest

theorem safe_urlsplit_https (rest : Str) :
    safe_urlsplit ("https://".toList ++ rest) = authSplit "https".toList (dropUnsafe rest) := by
  unfold safe_urlsplit
  rw [protoLen_https]
  exact urlsplit_https rest

theorem safe_urlsplit_slashes (rest : Str) :
    safe_urlsplit ("//".toList ++ rest) = authSplit [] (dropUnsafe rest) := by
  unfold safe_urlsplit
  have : protoLen ("//".toList ++ rest) = some 2 := protoLen_slashes rest
  rw [this]
  exact urlsplit_slashes rest

theorem safe_urlsplit_bare (rest : Str) (h : protoLen rest = none) :
    safe_urlsplit rest = authSplit "http".toList (dropUnsafe rest) := by
  unfold safe_urlsplit
  rw [h]
  exact urlsplit_http rest

/-- hostname and path do not depend on the scheme field -/
theorem partsOf_authSplit (s1 s2 y : Str) :
    (authSplit s1 y).map partsOf = (authSplit s2 y).map partsOf := by
  unfold authSplit
  split <;> rfl

/-! ## the hostname of an authority -/

/-- a character that may stand in an authority without ending it, without brackets, and that
`urlsplit` does not remove -/
def authChar (c : Char) : Bool :=
  !isNetlocDelim c && c != '[' && c != ']' && !isUnsafeUrlChar c

/-- a character of a plain host name: additionally no `@`, `:`, `%` -/
def hostChar (c : Char) : Bool := authChar c && c != '@' && c != ':' && c != '%'

theorem takeWhile_append_stop {p : Char → Bool} (a : Str) (c : Char) (t : Str)
    (ha : ∀ x ∈ a, p x = true) (hc : p c = false) :
    (a ++ c :: t).takeWhile p = a ∧ (a ++ c :: t).dropWhile p = c :: t := by
  induction a with
  | nil => simp [List.takeWhile, List.dropWhile, hc]
  | cons x a ih =>
    have hx : p x = true := ha x (by simp)
    have := ih (fun y hy => ha y (by simp [hy]))
    simp [List.takeWhile, List.dropWhile, hx, this.1, this.2]

theorem takeWhile_all {p : Char → Bool} (a : Str) (ha : ∀ x ∈ a, p x = true) :
    a.takeWhile p = a ∧ a.dropWhile p = [] := by
  induction a with
  | nil => simp
  | cons x a ih =>
    have hx : p x = true := ha x (by simp)
    have := ih (fun y hy => ha y (by simp [hy]))
    simp [List.takeWhile, List.dropWhile, hx, this.1, this.2]

theorem afterLast_of_not_mem (sep : Char) (s : Str) (h : sep ∉ s) : afterLast sep s = s := by
  unfold afterLast
  have : ∀ x ∈ s.reverse, (x != sep) = true := by
    intro x hx
    simp only [List.mem_reverse] at hx
    simp only [bne_iff_ne, ne_eq]
    rintro rfl; exact h hx
  rw [(takeWhile_all _ this).1, List.reverse_reverse]

theorem afterLast_append (sep : Char) (a b : Str) (h : sep ∉ b) :
    afterLast sep (a ++ sep :: b) = b := by
  unfold afterLast
  have hr : (a ++ sep :: b).reverse = b.reverse ++ sep :: a.reverse := by simp
  rw [hr]
  have : ∀ x ∈ b.reverse, (x != sep) = true := by
    intro x hx
    simp only [List.mem_reverse] at hx
    simp only [bne_iff_ne, ne_eq]
    rintro rfl; exact h hx
  rw [(takeWhile_append_stop _ sep _ this (by simp)).1, List.reverse_reverse]

theorem splitAtFirst_none (sep : Char) (s : Str) (h : sep ∉ s) : splitAtFirst sep s = none := by
  induction s with
  | nil => rfl
  | cons c s ih =>
    have hc : c ≠ sep := fun e => h (by simp [e])
    have hs : sep ∉ s := fun e => h (by simp [e])
    simp [splitAtFirst, hc, ih hs]

theorem splitAtFirst_append (sep : Char) (a b : Str) (h : sep ∉ a) :
    splitAtFirst sep (a ++ sep :: b) = some (a, b) := by
  induction a with
  | nil => simp [splitAtFirst]
  | cons c a ih =>
    have hc : c ≠ sep := fun e => h (by simp [e])
    have hs : sep ∉ a := fun e => h (by simp [e])
    simp [splitAtFirst, hc, ih hs]

/-- `:port`, if any -/
def portPart (port : Option Str) : Str :=
  match port with
  | some p => ':' :: p
  | none => []

/-- `userinfo@`, if any -/
def uiPart (ui : Option Str) : Str :=
  match ui with
  | some u => u ++ ['@']
  | none => []

/-- the authority `[userinfo@]host[:port]` -/
def authority (ui : Option Str) (h : Str) (port : Option Str) : Str :=
  uiPart ui ++ h ++ portPart port

theorem hostChar_facts {h : Str} (hh : ∀ c ∈ h, hostChar c = true) :
    (∀ c ∈ h, authChar c = true) ∧ '@' ∉ h ∧ ':' ∉ h ∧ '%' ∉ h := by
  refine ⟨fun c hc => ?_, fun hm => ?_, fun hm => ?_, fun hm => ?_⟩
  · have := hh c hc
    simp only [hostChar, Bool.and_eq_true] at this
    exact this.1.1.1
  · exact absurd (hh _ hm) (by decide)
  · exact absurd (hh _ hm) (by decide)
  · exact absurd (hh _ hm) (by decide)

theorem authChar_facts {s : Str} (hs : ∀ c ∈ s, authChar c = true) :
    (∀ c ∈ s, (!isNetlocDelim c) = true) ∧ '[' ∉ s ∧ ']' ∉ s ∧ (∀ c ∈ s, (!isUnsafeUrlChar c) = true) := by
  refine ⟨fun c hc => ?_, fun hm => ?_, fun hm => ?_, fun c hc => ?_⟩
  · have := hs c hc
    simp only [authChar, Bool.and_eq_true] at this
    exact this.1.1.1
  · exact absurd (hs _ hm) (by decide)
  · exact absurd (hs _ hm) (by decide)
  · have := hs c hc
    simp only [authChar, Bool.and_eq_true] at this
    exact this.2

/-- every character of the authority is an `authChar`, and the part after the last `@` is
`host[:port]` -/
theorem authority_facts (ui : Option Str) (h : Str) (port : Option Str)
    (hui : ∀ u, ui = some u → ∀ c ∈ u, authChar c = true)
    (hh : ∀ c ∈ h, hostChar c = true)
    (hport : ∀ p, port = some p → ∀ c ∈ p, (authChar c && c != '@') = true) :
    (∀ c ∈ authority ui h port, authChar c = true) ∧
    afterLast '@' (authority ui h port) = h ++ portPart port := by
  obtain ⟨ha, hat, _, _⟩ := hostChar_facts hh
  have hpa : ∀ c ∈ portPart port, authChar c = true ∧ c ≠ '@' := by
    intro c hc
    cases port with
    | none => simp [portPart] at hc
    | some p =>
      simp only [portPart, List.mem_cons] at hc
      rcases hc with rfl | hc
      · exact ⟨by decide, by decide⟩
      · have := hport p rfl c hc
        simp only [Bool.and_eq_true, bne_iff_ne, ne_eq] at this
        exact this
  have hnat : '@' ∉ h ++ portPart port := by
    intro hm
    rcases List.mem_append.1 hm with hm | hm
    · exact hat hm
    · exact (hpa _ hm).2 rfl
  constructor
  · intro c hc
    simp only [authority, List.mem_append] at hc
    rcases hc with (hc | hc) | hc
    · cases ui with
      | none => simp [uiPart] at hc
      | some u =>
        simp only [uiPart, List.mem_append, List.mem_singleton] at hc
        rcases hc with hc | rfl
        · exact hui u rfl c hc
        · decide
    · exact ha c hc
    · exact (hpa c hc).1
  · cases ui with
    | none =>
      simp only [authority, uiPart, List.nil_append]
      exact afterLast_of_not_mem _ _ hnat
    | some u =>
      simp only [authority, uiPart, List.append_assoc, List.singleton_append]
      exact afterLast_append '@' u _ hnat

/-- **the hostname of an authority.**  Whatever the userinfo and the port (any text without
`/ ? # [ ]` and TAB/CR/LF; the port also without `@`), the hostname `SplitResult.hostname`
extracts is the lower-cased host -/
theorem pyHostname_authority (ui : Option Str) (h : Str) (port : Option Str)
    (hui : ∀ u, ui = some u → ∀ c ∈ u, authChar c = true)
    (hh : ∀ c ∈ h, hostChar c = true)
    (hport : ∀ p, port = some p → ∀ c ∈ p, (authChar c && c != '@') = true) :
    pyHostname (authority ui h port) = lower h := by
  obtain ⟨hall, hal⟩ := authority_facts ui h port hui hh hport
  obtain ⟨ha, hat, hcol, hpct⟩ := hostChar_facts hh
  obtain ⟨_, hlb, _, _⟩ := authChar_facts hall
  have hnb : '[' ∉ h ++ portPart port := by
    intro hm
    apply hlb
    simp only [authority, List.append_assoc, List.mem_append]
    right; exact List.mem_append.1 hm
  have hhost : pyHostinfoHost (authority ui h port) = h := by
    unfold pyHostinfoHost
    simp only [hal]
    rw [splitAtFirst_none '[' _ hnb]
    simp only []
    unfold beforeFirst
    cases port with
    | none => simp only [portPart, List.append_nil]; rw [splitAtFirst_none ':' h hcol]
    | some p => simp only [portPart]; rw [splitAtFirst_append ':' h p hcol]
  unfold pyHostname
  simp only [hhost]
  rw [splitAtFirst_none '%' h hpct]

theorem dropUnsafe_eq_self {s : Str} (h : ∀ c ∈ s, (!isUnsafeUrlChar c) = true) : dropUnsafe s = s := by
  unfold dropUnsafe
  exact List.filter_eq_self.2 h

theorem dropUnsafe_append (a b : Str) : dropUnsafe (a ++ b) = dropUnsafe a ++ dropUnsafe b := by
  simp [dropUnsafe]

/-- what may follow the authority: nothing, or something starting with `/`, `?` or `#` -/
def TailOK (tail : Str) : Prop := tail = [] ∨ ∃ c t, tail = c :: t ∧ isNetlocDelim c = true

theorem netlocDelim_safe {c : Char} (h : isNetlocDelim c = true) : isUnsafeUrlChar c = false := by
  simp only [isNetlocDelim, Bool.or_eq_true, decide_eq_true_eq] at h
  rcases h with (rfl | rfl) | rfl <;> decide

/-- the netloc `authSplit` reads in `authority ++ tail` is the authority -/
theorem authSplit_authority (sch a tail : Str) (ha : ∀ c ∈ a, authChar c = true) (ht : TailOK tail) :
    ∃ r, authSplit sch (dropUnsafe (a ++ tail)) = some r ∧ r.netloc = a := by
  obtain ⟨hnd, hlb, hrb, hsafe⟩ := authChar_facts ha
  have hda : dropUnsafe a = a := dropUnsafe_eq_self hsafe
  have htw : (dropUnsafe (a ++ tail)).takeWhile (fun c => !isNetlocDelim c) = a := by
    rw [dropUnsafe_append, hda]
    rcases ht with rfl | ⟨c, t, rfl, hc⟩
    · simp only [dropUnsafe, List.filter_nil, List.append_nil]
      exact (takeWhile_all a hnd).1
    · have : dropUnsafe (c :: t) = c :: dropUnsafe t := by
        simp [dropUnsafe, List.filter, netlocDelim_safe hc]
      rw [this]
      exact (takeWhile_append_stop a c _ hnd (by simp [hc])).1
  have hok : netlocOk a = true := by
    unfold netlocOk
    have h1 : a.contains '[' = false := by
      cases hc : a.contains '['
      · rfl
      · exact absurd (List.contains_iff_mem.1 hc) hlb
    have h2 : a.contains ']' = false := by
      cases hc : a.contains ']'
      · rfl
      · exact absurd (List.contains_iff_mem.1 hc) hrb
    simp only [h1, h2, bne_self_eq_false, Bool.false_eq_true, if_false]
  unfold authSplit
  rw [htw, hok]
  exact ⟨_, rfl, rfl⟩

/-- a path that `urlsplit` keeps whole: empty, or `/` followed by text without `?`, `#`, TAB,
CR, LF -/
def PathOK (tail : Str) : Prop :=
  tail = [] ∨ ∃ t, tail = '/' :: t ∧ '?' ∉ t ∧ '#' ∉ t ∧ ∀ c ∈ t, (!isUnsafeUrlChar c) = true

theorem PathOK.tailOK {tail : Str} (h : PathOK tail) : TailOK tail := by
  rcases h with rfl | ⟨t, rfl, _⟩
  · exact Or.inl rfl
  · exact Or.inr ⟨'/', t, rfl, by decide⟩

/-- … and the path it reads is what follows the authority, when that holds neither `?` nor `#` -/
theorem authSplit_authority_path (sch a tail : Str) (ha : ∀ c ∈ a, authChar c = true) (ht : PathOK tail) :
    ∃ r, authSplit sch (dropUnsafe (a ++ tail)) = some r ∧ r.netloc = a ∧ r.path = tail := by
  obtain ⟨hnd, hlb, hrb, hsafe⟩ := authChar_facts ha
  obtain ⟨r, hr, hnl⟩ := authSplit_authority sch a tail ha ht.tailOK
  refine ⟨r, hr, hnl, ?_⟩
  have hda : dropUnsafe a = a := dropUnsafe_eq_self hsafe
  have hdw : (dropUnsafe (a ++ tail)).dropWhile (fun c => !isNetlocDelim c) = tail ∧ '#' ∉ tail ∧ '?' ∉ tail := by
    rw [dropUnsafe_append, hda]
    rcases ht with rfl | ⟨t, rfl, hq, hf, hs⟩
    · simp only [dropUnsafe, List.filter_nil, List.append_nil]
      exact ⟨(takeWhile_all a hnd).2, by simp, by simp⟩
    · have : dropUnsafe ('/' :: t) = '/' :: t := by
        apply dropUnsafe_eq_self
        intro c hc
        rcases List.mem_cons.1 hc with rfl | hc
        · decide
        · exact hs c hc
      rw [this]
      refine ⟨(takeWhile_append_stop a '/' t hnd (by decide)).2, ?_, ?_⟩
      · intro hm; rcases List.mem_cons.1 hm with e | hm
        · exact absurd e (by decide)
        · exact hf hm
      · intro hm; rcases List.mem_cons.1 hm with e | hm
        · exact absurd e (by decide)
        · exact hq hm
  unfold authSplit at hr
  split at hr
  · exact absurd hr (by simp)
  · injection hr with hr
    rw [← hr]
    simp only [hdw.1, splitFirst_notMem_s20 _ _ hdw.2.1, splitFirst_notMem_s20 _ _ hdw.2.2]

end Ural.Sites
