import UralModel.Model.Normalize
import UralModel.Lemmas.Canonicalize
import UralModel.Lemmas.Redirect
/-!
# C04 — the hostname: `IRRELEVANT_SUBDOMAIN(_AMP)_RE.sub("", host)` on the label structure

The scanner `subdomainSub` is characterised on `".".join(labels)`: a label that is not the
last one is dropped iff it is `www`, `www<digit>`, `mobile`, `m` (and `amp` in the AMP variant),
ignoring case; the last label always stays (the pattern needs the dot after the label).
-/
set_option linter.unusedSimpArgs false
namespace Ural.Normalize
open Ural Ural.Py Ural.UrlParts Ural.Canonicalize

/-! ## one label -/

/-- `pat` matches the whole label, ignoring case -/
def litOk (pat : String) (lab : Str) : Bool := matchLit pat.toList lab == some []

/-- `www` or `www<digit>`, ignoring case -/
def wwwOk (lab : Str) : Bool :=
  match matchLit "www".toList lab with
  | some r => r.isEmpty || (r.length == 1 && r.all isReDigit)
  | none => false

/-- the labels `(?:www\d?|mobile|amp|m)` (re.I) matches entirely -/
def isIrrLabel (amp : Bool) (lab : Str) : Bool :=
  wwwOk lab || litOk "mobile" lab || (amp && litOk "amp" lab) || litOk "m" lab

def NoDotPat (pat : List Char) : Prop := ∀ c ∈ pat, ciMatch c '.' = false

theorem matchLit_label (pat : List Char) (hpat : NoDotPat pat) (lab rest : Str) :
    matchLit pat (lab ++ '.' :: rest) = (matchLit pat lab).map (· ++ '.' :: rest) := by
  induction pat generalizing lab with
  | nil => simp [matchLit]
  | cons p ps ih =>
    have hps : NoDotPat ps := fun c hc => hpat c (List.mem_cons_of_mem _ hc)
    cases lab with
    | nil => simp [matchLit, hpat p (by simp)]
    | cons c cs =>
      simp only [List.cons_append, matchLit]
      split
      · exact ih hps cs
      · rfl

/-- `\.` after a dot-free remainder -/
def dotHere (r : Str) : Option Str := match r with | '.' :: e => some e | _ => none

theorem dotHere_label (r rest : Str) (hr : '.' ∉ r) :
    dotHere (r ++ '.' :: rest) = if r.isEmpty then some rest else none := by
  cases r with
  | nil => simp [dotHere]
  | cons c cs =>
    have hc : c ≠ '.' := fun e => hr (by simp [e])
    simp only [List.cons_append, List.isEmpty_cons, Bool.false_eq_true, if_false]
    unfold dotHere
    split
    · rename_i e heq
      simp only [List.cons.injEq] at heq
      exact absurd heq.1 hc
    · rfl

theorem not_mem_of_matchLit {pat : List Char} {s r : Str} {c : Char} (h : matchLit pat s = some r)
    (hc : c ∉ s) : c ∉ r := by
  obtain ⟨pre, hpre⟩ := matchLit_suffix pat s r h
  intro hm
  exact hc (by rw [← hpre]; simp [hm])

theorem litDot_label (pat : String) (hpat : NoDotPat pat.toList) (lab rest : Str) (hl : '.' ∉ lab) :
    (matchLit pat.toList (lab ++ '.' :: rest)).bind dotHere =
      if litOk pat lab then some rest else none := by
  rw [matchLit_label _ hpat]
  unfold litOk
  cases h : matchLit pat.toList lab with
  | none => simp
  | some r =>
    simp only [Option.map_some, Option.bind_some]
    rw [dotHere_label r rest (not_mem_of_matchLit h hl)]
    cases r <;> simp

/-- the alternative `www\d?\.` -/
def wwwHere (s : Str) : Option Str :=
  match matchLit "www".toList s with
  | none => none
  | some r =>
    match r with
    | d :: r' => if isReDigit d then (dotHere r').or (dotHere r) else dotHere r
    | [] => none

theorem wwwHere_label (lab rest : Str) (hl : '.' ∉ lab) :
    wwwHere (lab ++ '.' :: rest) = if wwwOk lab then some rest else none := by
  unfold wwwHere wwwOk
  rw [matchLit_label _ (by intro c hc; revert c; decide)]
  cases h : matchLit "www".toList lab with
  | none => simp
  | some r =>
    have hr := not_mem_of_matchLit h hl
    simp only [Option.map_some]
    cases r with
    | nil =>
      have : isReDigit '.' = false := by decide
      simp [dotHere, this]
    | cons d ds =>
      have hd : d ≠ '.' := fun e => hr (by simp [e])
      have hds : '.' ∉ ds := fun e => hr (by simp [e])
      simp only [List.cons_append, List.isEmpty_cons, Bool.false_or, List.length_cons,
        List.all_cons]
      have h1 : dotHere (d :: (ds ++ '.' :: rest)) = none := by
        have := dotHere_label (d :: ds) rest hr
        simpa using this
      rw [h1, dotHere_label ds rest hds]
      cases ds with
      | nil => by_cases hdig : isReDigit d = true <;> simp [hdig]
      | cons e es => by_cases hdig : isReDigit d = true <;> simp [hdig]

theorem afterChar_dot (r : Str) : afterChar '.' r = dotHere r := by
  cases r with
  | nil => rfl
  | cons c cs =>
    by_cases h : c = '.'
    · subst h; simp [afterChar, dotHere]
    · simp only [afterChar, h, if_false]
      unfold dotHere
      split
      · rename_i e heq
        simp only [List.cons.injEq] at heq
        exact absurd heq.1 h
      · rfl

theorem www_eq (s : Str) :
    ((matchLit "www".toList s).bind fun r => ((afterDigit r).bind dotHere).or (dotHere r)) = wwwHere s := by
  unfold wwwHere
  cases matchLit "www".toList s with
  | none => rfl
  | some r =>
    cases r with
    | nil => rfl
    | cons d r' =>
      by_cases hd : isReDigit d = true
      · simp [afterDigit, hd]
      · have hd' : isReDigit d = false := by simpa using hd
        simp [afterDigit, hd']

theorem irrelevantLabelHere_eq (amp : Bool) (s : Str) :
    irrelevantLabelHere amp s =
      (wwwHere s).or (((matchLit "mobile".toList s).bind dotHere).or
        ((if amp then (matchLit "amp".toList s).bind dotHere else none).or
          ((matchLit "m".toList s).bind dotHere))) := by
  have h : afterChar '.' = dotHere := funext afterChar_dot
  unfold irrelevantLabelHere
  simp only [h]
  rw [www_eq]

/-- **locality**: at the start of a dot-free label followed by a dot, the pattern matches iff
the label is one of the irrelevant labels, and then it matches exactly the label and its dot -/
theorem irrelevantLabelHere_label (amp : Bool) (lab rest : Str) (hl : '.' ∉ lab) :
    irrelevantLabelHere amp (lab ++ '.' :: rest) =
      if isIrrLabel amp lab then some rest else none := by
  rw [irrelevantLabelHere_eq, wwwHere_label lab rest hl,
    litDot_label "mobile" (by intro c hc; revert c; decide) lab rest hl,
    litDot_label "m" (by intro c hc; revert c; decide) lab rest hl]
  unfold isIrrLabel
  cases amp with
  | false =>
    simp only [Bool.false_eq_true, if_false, Bool.false_and, Bool.or_false]
    cases wwwOk lab <;> cases litOk "mobile" lab <;> cases litOk "m" lab <;> simp
  | true =>
    simp only [if_true, Bool.true_and]
    rw [litDot_label "amp" (by intro c hc; revert c; decide) lab rest hl]
    cases wwwOk lab <;> cases litOk "mobile" lab <;> cases litOk "amp" lab <;>
      cases litOk "m" lab <;> simp

/-- without a dot, the pattern cannot match -/
theorem irrelevantLabelHere_nodot (amp : Bool) (s : Str) (hs : '.' ∉ s) :
    irrelevantLabelHere amp s = none := by
  have hd : ∀ r : Str, '.' ∉ r → dotHere r = none := by
    intro r hr
    unfold dotHere
    split
    · exact absurd (by simp) hr
    · rfl
  have hb : ∀ pat : String, (matchLit pat.toList s).bind dotHere = none := by
    intro pat
    cases h : matchLit pat.toList s with
    | none => rfl
    | some r => simpa using hd r (not_mem_of_matchLit h hs)
  rw [irrelevantLabelHere_eq, hb, hb, hb]
  have hw : wwwHere s = none := by
    unfold wwwHere
    cases h : matchLit "www".toList s with
    | none => rfl
    | some r =>
      have hr := not_mem_of_matchLit h hs
      cases r with
      | nil => rfl
      | cons d ds =>
        have hds : '.' ∉ ds := fun e => hr (by simp [e])
        simp [hd _ hr, hd _ hds]
  rw [hw]
  cases amp <;> simp

/-! ## the scanner on a label list -/

theorem subFrom_skip (amp : Bool) (m rest : Str) (b : Bool) (hm : m ≠ []) :
    subdomainSubFrom amp (m ++ rest) b m.length =
      subdomainSubFrom amp rest (m.getLast hm == '.') 0 := by
  induction m generalizing b with
  | nil => exact absurd rfl hm
  | cons c cs ih =>
    cases cs with
    | nil => simp [subdomainSubFrom]
    | cons d ds =>
      show subdomainSubFrom amp (c :: ((d :: ds) ++ rest)) b ((d :: ds).length + 1) = _
      rw [subdomainSubFrom, ih (c == '.') (by simp)]
      simp [List.getLast_cons]

theorem subFrom_inside (amp : Bool) (cs rest : Str) (hcs : '.' ∉ cs) :
    subdomainSubFrom amp (cs ++ '.' :: rest) false 0 =
      cs ++ '.' :: subdomainSubFrom amp rest true 0 := by
  induction cs with
  | nil => simp [subdomainSubFrom]
  | cons c cs ih =>
    have hc : c ≠ '.' := fun e => hcs (by simp [e])
    have hcs' : '.' ∉ cs := fun e => hcs (by simp [e])
    simp only [List.cons_append, subdomainSubFrom, Bool.false_eq_true, if_false]
    have : (c == '.') = false := by simpa using hc
    rw [this, ih hcs']

theorem subFrom_inside_last (amp : Bool) (cs : Str) (hcs : '.' ∉ cs) :
    subdomainSubFrom amp cs false 0 = cs := by
  induction cs with
  | nil => simp [subdomainSubFrom]
  | cons c cs ih =>
    have hc : c ≠ '.' := fun e => hcs (by simp [e])
    have hcs' : '.' ∉ cs := fun e => hcs (by simp [e])
    simp only [subdomainSubFrom, Bool.false_eq_true, if_false]
    have : (c == '.') = false := by simpa using hc
    rw [this, ih hcs']

/-- a label followed by a dot, at a label boundary -/
theorem subFrom_label (amp : Bool) (lab rest : Str) (hl : '.' ∉ lab) :
    subdomainSubFrom amp (lab ++ '.' :: rest) true 0 =
      if isIrrLabel amp lab then subdomainSubFrom amp rest true 0
      else lab ++ '.' :: subdomainSubFrom amp rest true 0 := by
  cases lab with
  | nil =>
    have h := irrelevantLabelHere_label amp [] rest (by simp)
    have hirr : isIrrLabel amp [] = false := by cases amp <;> decide
    simp only [List.nil_append, hirr, Bool.false_eq_true, if_false] at h ⊢
    simp [subdomainSubFrom, h]
  | cons c cs =>
    have hc : c ≠ '.' := fun e => hl (by simp [e])
    have hcs : '.' ∉ cs := fun e => hl (by simp [e])
    have h := irrelevantLabelHere_label amp (c :: cs) rest hl
    simp only [List.cons_append] at h ⊢
    simp only [subdomainSubFrom, if_true, h]
    by_cases hirr : isIrrLabel amp (c :: cs) = true
    · simp only [hirr, if_true]
      have hlen : (c :: (cs ++ '.' :: rest)).length - rest.length - 1 = (cs ++ ['.']).length := by
        simp; omega
      rw [hlen]
      have := subFrom_skip amp (cs ++ ['.']) rest (c == '.') (by simp)
      simpa using this
    · have hirr' : isIrrLabel amp (c :: cs) = false := by simpa using hirr
      simp only [hirr', Bool.false_eq_true, if_false]
      have : (c == '.') = false := by simpa using hc
      rw [this, subFrom_inside amp cs rest hcs]

/-- the last label -/
theorem subFrom_last (amp : Bool) (lab : Str) (hl : '.' ∉ lab) :
    subdomainSubFrom amp lab true 0 = lab := by
  cases lab with
  | nil => simp [subdomainSubFrom]
  | cons c cs =>
    have hc : c ≠ '.' := fun e => hl (by simp [e])
    have hcs : '.' ∉ cs := fun e => hl (by simp [e])
    simp only [subdomainSubFrom, if_true, irrelevantLabelHere_nodot amp (c :: cs) hl]
    have : (c == '.') = false := by simpa using hc
    rw [this, subFrom_inside_last amp cs hcs]

/-- labels that survive: every label but the last is dropped iff it is irrelevant -/
def keepLabels (amp : Bool) : List Str → List Str
  | [] => []
  | [l] => [l]
  | l :: l' :: ls => if isIrrLabel amp l then keepLabels amp (l' :: ls) else l :: keepLabels amp (l' :: ls)

theorem keepLabels_ne_nil (amp : Bool) (ls : List Str) (h : ls ≠ []) : keepLabels amp ls ≠ [] := by
  induction ls with
  | nil => exact absurd rfl h
  | cons l ls ih =>
    cases ls with
    | nil => simp [keepLabels]
    | cons l' ls' =>
      simp only [keepLabels]
      split
      · exact ih (by simp)
      · simp

theorem join_dot_cons (l : Str) (ls : List Str) (h : ls ≠ []) :
    join ['.'] (l :: ls) = l ++ '.' :: join ['.'] ls := by
  cases ls with
  | nil => exact absurd rfl h
  | cons l' ls' => simp [join]

/-- **`IRRELEVANT_SUBDOMAIN(_AMP)_RE.sub("", host)` on the label list** -/
theorem subdomainSub_join (amp : Bool) (ls : List Str) (hne : ls ≠ []) (hd : ∀ l ∈ ls, '.' ∉ l) :
    subdomainSub amp (join ['.'] ls) = join ['.'] (keepLabels amp ls) := by
  unfold subdomainSub
  induction ls with
  | nil => exact absurd rfl hne
  | cons l ls ih =>
    cases ls with
    | nil => simpa [join, keepLabels] using subFrom_last amp l (hd l (by simp))
    | cons l' ls' =>
      rw [join_dot_cons l _ (by simp), subFrom_label amp l _ (hd l (by simp)),
        ih (by simp) (fun x hx => hd x (List.mem_cons_of_mem _ hx))]
      simp only [keepLabels]
      split
      · rfl
      · rw [join_dot_cons l _ (keepLabels_ne_nil amp _ (by simp))]

/-- an irrelevant label in front of a dot, at any label position, does not change what survives -/
theorem keepLabels_insert (amp : Bool) (L1 L2 : List Str) (lab : Str) (h2 : L2 ≠ [])
    (hlab : isIrrLabel amp lab = true) :
    keepLabels amp (L1 ++ lab :: L2) = keepLabels amp (L1 ++ L2) := by
  induction L1 with
  | nil =>
    cases L2 with
    | nil => exact absurd rfl h2
    | cons l ls => simp [keepLabels, hlab]
  | cons x xs ih =>
    cases xs with
    | nil =>
      cases L2 with
      | nil => exact absurd rfl h2
      | cons l ls =>
        simp only [List.cons_append, List.nil_append, keepLabels] at ih ⊢
        rw [ih]
    | cons y ys =>
      simp only [List.cons_append, keepLabels] at ih ⊢
      rw [ih]

/-! ## the hostname steps after decoding -/

/-- lines 360–366, 377–383 on the decoded, lower-cased hostname -/
def hostTail (puny : Str → Str) (o : Opts) (c : Str) : Str :=
  let c := if o.stripIrrelevantSubdomains then subdomainSub o.normalizeAmp c else c
  if o.normalizeAmp then stripAmpPrefix puny o.stripIrrelevantSubdomains c else c

/-- the hostname after the irrelevant-subdomain step -/
def afterSub (o : Opts) (c : Str) : Str :=
  if o.stripIrrelevantSubdomains then subdomainSub o.normalizeAmp c else c

theorem hostTail_eq (puny : Str → Str) (o : Opts) (c : Str) :
    hostTail puny o c =
      if o.normalizeAmp then stripAmpPrefix puny o.stripIrrelevantSubdomains (afterSub o c) else afterSub o c := rfl

theorem subdomainSub_nil (amp : Bool) : subdomainSub amp [] = [] := by
  simp [subdomainSub, subdomainSubFrom]

theorem canonHost_nil (puny : Str → Str) : canonHost puny [] = [] := by
  simp [canonHost, decodePunycodeHostname, splitOn, splitOn.go, join, lower]

/-- the hostname enters the result only through its decoded, lower-cased form -/
theorem normHost_eq_tail (puny : Str → Str) (o : Opts) (h : Str) :
    normHost puny o h = hostTail puny o (canonHost puny h) := by
  unfold normHost hostTail
  by_cases hh : h = []
  · subst hh
    rw [canonHost_nil]
    simp [subdomainSub_nil, stripAmpPrefix, startsWith, ampDash]
  · have : h.isEmpty = false := by cases h <;> simp_all
    simp only [this, Bool.false_eq_true, if_false]
    show _ = (if o.normalizeAmp = true then _ else _)
    by_cases hc : (lower (decodePunycodeHostname puny h)) = []
    · have e : canonHost puny h = [] := hc
      simp only [canonHost] at e ⊢
      simp [e, hc, subdomainSub_nil]
    · have : (lower (decodePunycodeHostname puny h)).isEmpty = false := by
        cases hx : lower (decodePunycodeHostname puny h) <;> simp_all
      simp [this, canonHost]

/-! ## what the `amp-` cut reveals: second label pass -/

theorem mem_keepLabels (amp : Bool) (ls : List Str) (x : Str) (h : x ∈ keepLabels amp ls) : x ∈ ls := by
  induction ls with
  | nil => simp [keepLabels] at h
  | cons l ls ih =>
    cases ls with
    | nil => simpa [keepLabels] using h
    | cons l' ls' =>
      simp only [keepLabels] at h
      split at h
      · exact List.mem_cons_of_mem _ (ih h)
      · rcases List.mem_cons.mp h with h | h
        · rw [h]; simp
        · exact List.mem_cons_of_mem _ (ih h)

/-- the label pass is idempotent -/
theorem keepLabels_idem (amp : Bool) (ls : List Str) : keepLabels amp (keepLabels amp ls) = keepLabels amp ls := by
  induction ls with
  | nil => rfl
  | cons l ls ih =>
    cases ls with
    | nil => rfl
    | cons l' ls' =>
      simp only [keepLabels]
      split
      · exact ih
      · rename_i hl
        cases hk : keepLabels amp (l' :: ls') with
        | nil => exact absurd hk (keepLabels_ne_nil amp _ (by simp))
        | cons a as =>
          rw [hk] at ih
          simp only [keepLabels, hl, if_false]
          rw [ih]
          simp

/-- a second pass over a kept first label and the already filtered rest is one pass over all -/
theorem keepLabels_cons_keep (amp : Bool) (l : Str) (ls : List Str) (h : ls ≠ []) :
    keepLabels amp (l :: keepLabels amp ls) = keepLabels amp (l :: ls) := by
  cases ls with
  | nil => exact absurd rfl h
  | cons l' ls' =>
    cases hk : keepLabels amp (l' :: ls') with
    | nil => exact absurd hk (keepLabels_ne_nil amp _ (by simp))
    | cons a as =>
      have hi := keepLabels_idem amp (l' :: ls')
      rw [hk] at hi
      simp only [keepLabels]
      rw [hi, hk]

/-- `decode_punycode_hostname` works label by label: labels that are their own decoding stay -/
theorem decode_join_fixed (puny : Str → Str) (L : List Str) (hne : L ≠ []) (hd : ∀ x ∈ L, '.' ∉ x)
    (hdec : ∀ x ∈ L, decodePunycodeHostname puny x = x) :
    decodePunycodeHostname puny (join ['.'] L) = join ['.'] L := by
  unfold decodePunycodeHostname
  rw [splitOn_join '.' L hne hd]
  congr 1
  have : ∀ x ∈ L, (fun part : Str =>
      if lower (part.take 4) = "xn--".toList then puny (lower (part.take 4) ++ part.drop 4) else part) x = x := by
    intro x hx
    have h := hdec x hx
    unfold decodePunycodeHostname at h
    have e : splitOn x '.' = [x] := by
      have := splitOn_join '.' [x] (by simp) (by intro p hp; simp at hp; rw [hp]; exact hd x hx)
      simpa [join] using this
    rw [e] at h
    simpa [join] using h
  calc L.map _ = L.map id := List.map_congr_left this
    _ = L := List.map_id _

/-- the decoded, lower-cased hostname of `".".join(labels)` -/
theorem canonHost_join (puny : Str → Str) (H : List Str) (hne : H ≠ []) (hd : ∀ l ∈ H, '.' ∉ l) :
    canonHost puny (join ['.'] H) = join ['.'] (H.map (canonLabel puny)) := by
  rw [canonHost_eq, splitOn_join '.' H hne hd]

end Ural.Normalize
