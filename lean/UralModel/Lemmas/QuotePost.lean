import UralModel.Lemmas.QuoteRoundTrip
/-!
# The safe unquoters in the order of the Python code

`unquote` decodes first and re-escapes afterwards, on the decoded string:
`NON_PRINTABLE_RE.sub(_requote_match, q)`, then `q.replace(" ", "%20")`
(`Model/Quote.lean` `safelyUnquotePost`).  The model the theorems are about,
`safelyUnquote U = render ∘ unquoteToks U ∘ escapeRaw ∘ tokens`, escapes the RAW non-printable
characters of the input before decoding and handles the decoded ones in `flush`.

`safelyUnquotePost_eq`: the two are the same function, for every unsafe set of ASCII bytes.

The only step that is not bookkeeping: a raw non-printable character `c` that stands between
two runs of decoded bytes (`%E2\xa0%A0`) is, in the model, spelled as escapes first, so that its
bytes join the pending run — `segment_insert` (self-synchronisation of UTF-8: the first byte
of an encoding is never a continuation byte) says the run still splits at `c`, and `flush`
escapes `c` like the regex does afterwards.
-/
set_option linter.unusedSimpArgs false
set_option linter.unusedVariables false

namespace Ural.Quote
open Ural.Py

/-! ### the two string passes, token by token -/

/-- `q.replace(" ", "%20")` on one token -/
def spTok : Tok → Tok
  | .raw c => if c = ' ' then .esc '2' '0' else .raw c
  | t => t

/-- the two passes that follow decoding, on tokens -/
def postToks (ts : List Tok) : List Tok := (escapeRaw ts).map spTok

theorem map_id_of {α : Type} {f : α → α} (l : List α) (h : ∀ x ∈ l, f x = x) : l.map f = l := by
  induction l with
  | nil => rfl
  | cons a r ih =>
    simp only [List.map_cons]
    rw [h a (by simp), ih (fun x hx => h x (by simp [hx]))]

/-- every escape token has hex digits (so that its characters are ASCII and no space) -/
def EscHex (ts : List Tok) : Prop := ∀ h1 h2, Tok.esc h1 h2 ∈ ts → isHexDigit h1 = true ∧ isHexDigit h2 = true

theorem requoteNonPrintable_append (a b : Str) :
    requoteNonPrintable (a ++ b) = requoteNonPrintable a ++ requoteNonPrintable b := by
  simp [requoteNonPrintable]

theorem normalizeSpace_append (a b : Str) :
    normalizeSpace (a ++ b) = normalizeSpace a ++ normalizeSpace b := by
  simp [normalizeSpace]

theorem requoteNonPrintable_ascii {s : Str} (h : ∀ c ∈ s, c.toNat < 0x80) :
    requoteNonPrintable s = s := by
  induction s with
  | nil => rfl
  | cons c r ih =>
    have hc := staysEscaped_of_lt (h c (by simp))
    have := ih (fun x hx => h x (by simp [hx]))
    simp only [requoteNonPrintable, List.flatMap_cons, hc, Bool.false_eq_true, if_false] at this ⊢
    rw [this]; rfl

theorem normalizeSpace_nospace {s : Str} (h : ' ' ∉ s) : normalizeSpace s = s := by
  induction s with
  | nil => rfl
  | cons c r ih =>
    have hc : c ≠ ' ' := fun e => h (by simp [e])
    have := ih (fun hx => h (by simp [hx]))
    simp only [normalizeSpace, List.flatMap_cons, hc, if_false] at this ⊢
    rw [this]; rfl

/-- the characters of rendered `%XX` escapes of bytes: ASCII, no space -/
theorem render_escOfByte_chars (bs : List UInt8) :
    (∀ c ∈ render (bs.map escOfByte), c.toNat < 0x80) ∧ ' ' ∉ render (bs.map escOfByte) := by
  induction bs with
  | nil => simp
  | cons b r ih =>
    have hb := b.toNat_lt
    have h1 := hexDigitUpper_not_special (b.toNat / 16) (by omega)
    have h2 := hexDigitUpper_not_special (b.toNat % 16) (by omega)
    have l1 := hexDigitUpper_lt (b.toNat / 16) (by omega)
    have l2 := hexDigitUpper_lt (b.toNat % 16) (by omega)
    constructor
    · intro c hc
      simp only [List.map_cons, render_cons, escOfByte, renderTok, List.cons_append, List.nil_append,
        List.mem_cons] at hc
      rcases hc with rfl | rfl | rfl | hc
      · decide
      · exact l1
      · exact l2
      · exact ih.1 c hc
    · intro hc
      simp only [List.map_cons, render_cons, escOfByte, renderTok, List.cons_append, List.nil_append,
        List.mem_cons] at hc
      rcases hc with e | e | e | hc
      · revert e; decide
      · exact h1.2.1 e.symm
      · exact h2.2.1 e.symm
      · exact ih.2 hc

/-- **the string passes are the token passes** on every token list whose escapes are escapes -/
theorem post_render (ts : List Tok) (h : EscHex ts) :
    normalizeSpace (requoteNonPrintable (render ts)) = render (postToks ts) := by
  induction ts with
  | nil => rfl
  | cons t r ih =>
    have ihr := ih (fun h1 h2 hm => h h1 h2 (by simp [hm]))
    simp only [postToks, escapeRaw_cons, List.map_append, render_append] at ihr ⊢
    rw [render_cons, requoteNonPrintable_append, normalizeSpace_append, ihr]
    congr 1
    cases t with
    | raw c =>
      simp only [renderTok, escTok]
      by_cases hs : staysEscaped c = true
      · have e : requoteNonPrintable [c] = render ((utf8 c).map escOfByte) := by
          simp [requoteNonPrintable, hs]
        rw [e, if_pos hs, normalizeSpace_nospace (render_escOfByte_chars _).2]
        congr 1
        refine (map_id_of _ ?_).symm
        intro x hx
        simp only [List.mem_map] at hx
        obtain ⟨b, _, rfl⟩ := hx
        rfl
      · have hs' : staysEscaped c = false := by simpa using hs
        have e : requoteNonPrintable [c] = [c] := by simp [requoteNonPrintable, hs']
        rw [e, if_neg hs]
        by_cases hc : c = ' '
        · subst hc; rfl
        · simp [normalizeSpace, spTok, hc, renderTok]
    | esc h1 h2 =>
      obtain ⟨a, b⟩ := h h1 h2 (by simp)
      have pa := isHexDigit_props a
      have pb := isHexDigit_props b
      have e1 : requoteNonPrintable ['%', h1, h2] = ['%', h1, h2] := by
        apply requoteNonPrintable_ascii
        intro c hc
        simp only [List.mem_cons, List.not_mem_nil, or_false] at hc
        rcases hc with rfl | rfl | rfl
        · decide
        · exact pa.1
        · exact pb.1
      have e2 : normalizeSpace ['%', h1, h2] = ['%', h1, h2] := by
        apply normalizeSpace_nospace
        intro hc
        simp only [List.mem_cons, List.not_mem_nil, or_false] at hc
        rcases hc with e | e | e
        · revert e; decide
        · exact pa.2.2.1 e.symm
        · exact pb.2.2.1 e.symm
      simp only [renderTok, escTok, List.map_cons, List.map_nil, spTok, render_cons, render_nil,
        List.append_nil]
      rw [e1, e2]
    | stray =>
      simp only [renderTok, escTok, List.map_cons, List.map_nil, spTok, render_cons, render_nil,
        List.append_nil]
      decide

/-! ### decoding first: the token passes after `assemblePlain` are `assemble` after `escapeRaw` -/

theorem flushPlain_post (bs : List UInt8) (hb : ∀ b ∈ bs, 0x80 ≤ b.toNat) :
    postToks (flushPlain bs) = flush bs := by
  have key : ∀ x ∈ segment bs, SegHigh x := segment_high bs hb
  rw [flush_eq]
  unfold flushPlain postToks escapeRaw
  generalize segment bs = segs at key
  induction segs with
  | nil => rfl
  | cons x r ih =>
    have ihr := ih (fun y hy => key y (by simp [hy]))
    simp only [List.flatMap_cons, List.flatMap_append, List.map_append] at ihr ⊢
    rw [ihr]
    congr 1
    cases x with
    | inr b => simp [escTok, escOfByte, spTok, tokOfSeg]
    | inl c =>
      have hc : 0x80 ≤ c.toNat := key (.inl c) (by simp)
      have hne : c ≠ ' ' := by
        rintro rfl
        have : (' ' : Char).toNat = 32 := rfl
        omega
      simp only [List.flatMap_cons, List.flatMap_nil, List.append_nil, escTok, tokOfSeg]
      split
      · apply map_id_of
        intro x hx
        simp only [List.mem_map] at hx
        obtain ⟨b, _, rfl⟩ := hx
        rfl
      · simp [spTok, hne]

/-- pending bytes that contain an encoded character: the run splits at the character, which
comes out as `flush` writes it (raw, or escaped again when `NON_PRINTABLE_RE` matches it) -/
theorem assemble_insert_any (c : Char) (acc : List UInt8) :
    ∀ (r : List Item) (bs : List UInt8),
      assemble r (acc ++ (utf8 c ++ bs)) = flush acc ++ (tokOfSeg (.inl c) ++ assemble r bs) := by
  have hf : ∀ bs, flush (acc ++ (utf8 c ++ bs)) = flush acc ++ (tokOfSeg (.inl c) ++ flush bs) := by
    intro bs
    simp only [flush_eq, segment_insert, List.flatMap_append, List.flatMap_cons]
  intro r
  induction r with
  | nil => intro bs; simp only [assemble]; exact hf bs
  | cons it r ih =>
    intro bs
    cases it with
    | lit t =>
      simp only [assemble]
      rw [hf bs]
      simp
    | byte b =>
      simp only [assemble]
      have := ih (bs ++ [b])
      simpa [List.append_assoc] using this

theorem char_ofNat_eq_space {b : UInt8} (hlt : b.toNat < 0x80) :
    Char.ofNat b.toNat = ' ' ↔ b = 0x20 := by
  constructor
  · intro e
    have := congrArg Char.toNat e
    rw [toNat_ofNat_of_lt (by omega)] at this
    exact UInt8.toNat_inj.1 (by simpa using this)
  · rintro rfl; rfl

/-- **decode, then the two passes = escape the raw non-printables, then the model's `assemble`** -/
theorem post_assemblePlain (U : List UInt8) (hU : AsciiSet U) (ts : List Tok) :
    ∀ (acc : List UInt8), (∀ b ∈ acc, 0x80 ≤ b.toNat) →
      postToks (assemblePlain (ts.map (itemOfPlain U)) acc) =
        assemble ((escapeRaw ts).map (itemOf U)) acc := by
  have postToks_append : ∀ a b : List Tok, postToks (a ++ b) = postToks a ++ postToks b := by
    intro a b; simp [postToks, escapeRaw_append]
  have postToks_cons : ∀ (t : Tok) (r : List Tok), postToks (t :: r) = (escTok t).map spTok ++ postToks r := by
    intro t r; simp [postToks, escapeRaw_cons]
  induction ts with
  | nil =>
    intro acc hacc
    simp only [List.map_nil, assemblePlain, escapeRaw, List.flatMap_nil, assemble]
    exact flushPlain_post acc hacc
  | cons t r ih =>
    intro acc hacc
    rw [escapeRaw_cons, List.map_append, List.map_cons]
    cases t with
    | stray =>
      simp only [itemOfPlain, assemblePlain, escTok, List.map_cons, List.map_nil, itemOf,
        List.singleton_append, assemble]
      rw [postToks_append, postToks_cons, flushPlain_post acc hacc, ih [] (by simp)]
      simp [escTok, spTok]
    | raw c =>
      simp only [itemOfPlain, assemblePlain]
      rw [postToks_append, postToks_cons, flushPlain_post acc hacc, ih [] (by simp)]
      simp only [escTok]
      by_cases hs : staysEscaped c = true
      · have hc : 0x80 ≤ c.toNat := staysEscaped_high hs
        simp only [hs, if_true, List.map_map]
        have e1 : (utf8 c).map (itemOf U ∘ escOfByte) = (utf8 c).map Item.byte := by
          apply List.map_congr_left
          intro b hb
          exact itemOf_escOfByte U hU b (utf8_high hc b hb)
        rw [e1, assemble_bytes]
        have := assemble_insert_any c acc ((escapeRaw r).map (itemOf U)) []
        simp only [List.append_nil] at this
        rw [this]
        simp only [tokOfSeg, hs, if_true]
        congr 2
      · simp only [hs, Bool.false_eq_true, if_false, List.map_cons, List.map_nil, List.singleton_append,
          itemOf]
        by_cases hc : c = ' ' <;> simp [hc, spTok, assemble]
    | esc h1 h2 =>
      simp only [escTok, List.map_cons, List.map_nil, List.singleton_append, itemOfPlain, itemOf]
      by_cases hk : keepEsc U (byteOf h1 h2) = true
      · simp only [hk, if_true, assemblePlain, assemble]
        rw [postToks_append, postToks_cons, flushPlain_post acc hacc, ih [] (by simp)]
        simp [escTok, spTok]
      · simp only [hk, Bool.false_eq_true, if_false]
        by_cases hlt : byteOf h1 h2 < 0x80
        · have hlt' : (byteOf h1 h2).toNat < 0x80 := by
            have := UInt8.lt_iff_toNat_lt.1 hlt; simpa using this
          simp only [hlt, if_true, assemblePlain]
          rw [postToks_append, postToks_cons, flushPlain_post acc hacc, ih [] (by simp)]
          have hst : staysEscaped (Char.ofNat (byteOf h1 h2).toNat) = false :=
            staysEscaped_of_lt (by rw [toNat_ofNat_of_lt (by omega)]; exact hlt')
          by_cases h20 : byteOf h1 h2 = 0x20
          · have e32 : Char.ofNat (byteOf h1 h2).toNat = ' ' := (char_ofNat_eq_space hlt').2 h20
            rw [e32] at hst ⊢
            simp [h20, assemble, escTok, spTok, hst]
          · have hsp : Char.ofNat (byteOf h1 h2).toNat ≠ ' ' := fun e => h20 ((char_ofNat_eq_space hlt').1 e)
            simp [h20, assemble, escTok, spTok, hst, hsp]
        · have hge : 0x80 ≤ (byteOf h1 h2).toNat := by
            have : ¬ (byteOf h1 h2).toNat < 0x80 := fun h => hlt (UInt8.lt_iff_toNat_lt.2 (by simpa using h))
            omega
          simp only [hlt, if_false, assemblePlain, assemble]
          exact ih (acc ++ [byteOf h1 h2]) (by
            intro b hb
            simp only [List.mem_append, List.mem_singleton] at hb
            rcases hb with hb | rfl
            · exact hacc b hb
            · exact hge)

/-! ### the decoded token list only holds escapes that are escapes -/

theorem escHex_flushPlain (bs : List UInt8) : EscHex (flushPlain bs) := by
  intro h1 h2 hm
  simp only [flushPlain, List.mem_flatMap] at hm
  obtain ⟨x, _, hx⟩ := hm
  cases x with
  | inl c => simp at hx
  | inr b =>
    simp only [List.mem_singleton] at hx
    have := canon_escOfByte b
    rw [← hx] at this
    exact this

theorem escHex_assemblePlain (U : List UInt8) (ts : List Tok) (hw : ∀ t ∈ ts, WfTok t) :
    ∀ acc, EscHex (assemblePlain (ts.map (itemOfPlain U)) acc) := by
  induction ts with
  | nil => intro acc; exact escHex_flushPlain acc
  | cons t r ih =>
    intro acc
    have ihr := ih (fun x hx => hw x (by simp [hx]))
    have hlit : ∀ (t' : Tok), (∀ h1 h2, t' = .esc h1 h2 → isHexDigit h1 = true ∧ isHexDigit h2 = true) →
        EscHex (flushPlain acc ++ t' :: assemblePlain (r.map (itemOfPlain U)) []) := by
      intro t' ht' h1 h2 hm
      simp only [List.mem_append, List.mem_cons] at hm
      rcases hm with hm | hm | hm
      · exact escHex_flushPlain acc h1 h2 hm
      · exact ht' h1 h2 hm.symm
      · exact ihr [] h1 h2 hm
    cases t with
    | raw c => exact hlit _ (fun _ _ e => by cases e)
    | stray =>
      simp only [List.map_cons, itemOfPlain, assemblePlain]
      exact hlit _ (fun h1 h2 e => by cases e; exact ⟨by decide, by decide⟩)
    | esc g1 g2 =>
      have hg : isHexDigit g1 = true ∧ isHexDigit g2 = true := hw (.esc g1 g2) (by simp)
      simp only [List.map_cons, itemOfPlain]
      split
      · exact hlit _ (fun h1 h2 e => by cases e; exact hg)
      · split
        · exact hlit _ (fun _ _ e => by cases e)
        · exact ihr _

/-! ### the theorem -/

/-- **the model in the order of the code is the model the theorems are about**: decoding
first and re-escaping the non-printable characters / the spaces of the decoded string
afterwards (`unquote` of `quote.py`, step by step) gives `safelyUnquote U s`, for every string
and every unsafe set of ASCII bytes (the four regenerated sets are: `tables_ascii`) -/
theorem safelyUnquotePost_eq (U : List UInt8) (hU : AsciiSet U) (s : Str) :
    safelyUnquotePost U s = safelyUnquote U s := by
  unfold safelyUnquotePost decodeOnly safelyUnquote unquoteToks
  rw [post_render _ (escHex_assemblePlain U (tokens s) (wf_tokens s) []),
    post_assemblePlain U hU (tokens s) [] (by simp)]

end Ural.Quote
