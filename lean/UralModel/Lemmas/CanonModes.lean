import UralModel.Lemmas.Canonicalize
import UralModel.Lemmas.QuoteRoundTrip
/-!
# The quoted and the unquoted mode of `canonicalize_url`, component by component

For a text component `u` with safe unquoter `unq`, the unquoted mode returns `unq u` and the
quoted mode `quote (unq u)`.  A second pass over the result of a first pass:

* first pass unquoted: `unq (unq u) = unq u` (idempotence, `unquoteToks_idem`) — no hypothesis;
* first pass quoted: `unq (quote (unq u)) = unq u` needs every raw character of `u` to survive
  a quote/unquote cycle (`cleanStr U u`): a raw character that `quote` escapes and that is in
  the component's unsafe set (`:` or `@` in a password, `=` in a query value: the known finding
  KF-C02-1) stays escaped.  The hypothesis is exactly the exclusion of that class.
-/
set_option linter.unusedSimpArgs false
set_option linter.unusedVariables false

namespace Ural.Canonicalize
open Ural.Py Ural.UrlParts Ural.Quote

theorem safelyUnquote_idem' (U : List UInt8) (hU : (0x25 : UInt8) ∈ U) (hA : AsciiSet U) (s : Str) :
    safelyUnquote U (safelyUnquote U s) = safelyUnquote U s := by
  show render (unquoteToks U (escapeRaw (tokens (safelyUnquote U s)))) = _
  rw [tokens_safelyUnquote U hU, escapeRaw_unquoteToks, unquoteToks_idem U hU hA]
  rfl

/-- what the second pass's unquoter sees is what the first pass's unquoter produced -/
theorem unquote_requote (U : List UInt8) (hU : (0x25 : UInt8) ∈ U) (hA : AsciiSet U) (q1 : Bool)
    (u : Str) (hcl : q1 = true → cleanStr U u = true) :
    safelyUnquote U (requote q1 (safelyUnquote U) u) = safelyUnquote U u := by
  cases q1 with
  | false => simp only [requote, Bool.false_eq_true, if_false]; exact safelyUnquote_idem' U hU hA u
  | true => simp only [requote, if_true]; exact safelyUnquote_quote_unquote U hU hA u (hcl rfl)

theorem requote_modes (U : List UInt8) (hU : (0x25 : UInt8) ∈ U) (hA : AsciiSet U) (q1 q2 : Bool)
    (u : Str) (hcl : q1 = true → cleanStr U u = true) :
    requote q2 (safelyUnquote U) (requote q1 (safelyUnquote U) u) = requote q2 (safelyUnquote U) u := by
  have h := unquote_requote U hU hA q1 u hcl
  unfold requote at h ⊢
  cases q2 <;> simp only [Bool.false_eq_true, if_false, if_true, h]

theorem pctStr_eq_nil {s : Str} (h : pctStr s = []) : s = [] := by
  have : tokens s = [] := by
    cases ht : tokens s with
    | nil => rfl
    | cons t r =>
      exfalso
      simp only [pctStr, pct, ht, List.flatMap_cons, List.append_eq_nil_iff] at h
      cases t with
      | raw c => exact utf8_ne_nil c h.1
      | esc h1 h2 => simp [pctTok] at h
      | stray => simp [pctTok] at h
  rw [← render_tokens s, this]; rfl

theorem requote_ne_nil (U : List UInt8) (hU : (0x25 : UInt8) ∈ U) (q : Bool) {u : Str} (h : u ≠ []) :
    requote q (safelyUnquote U) u ≠ [] := by
  intro e
  have := pct_requote q U hU u
  rw [e] at this
  exact h (pctStr_eq_nil this.symm)

/-- **mode round trips of an optional text component** (user, password, fragment) -/
theorem canonOpt_modes (U : List UInt8) (hU : (0x25 : UInt8) ∈ U) (hA : AsciiSet U) (q1 q2 : Bool)
    (o : Option Str) (hcl : q1 = true → ∀ u, o = some u → cleanStr U u = true) :
    canonOpt q2 (safelyUnquote U) (canonOpt q1 (safelyUnquote U) o) = canonOpt q2 (safelyUnquote U) o := by
  cases o with
  | none => rfl
  | some u =>
    simp only [canonOpt]
    by_cases h : u.isEmpty
    · simp [h]
    · simp only [h, Bool.false_eq_true, if_false]
      have hne : u ≠ [] := by intro e; rw [e] at h; exact h rfl
      have h2 : (requote q1 (safelyUnquote U) u).isEmpty = false := by
        cases hx : requote q1 (safelyUnquote U) u with
        | nil => exact absurd hx (requote_ne_nil U hU q1 hne)
        | cons _ _ => rfl
      simp only [h2, Bool.false_eq_true, if_false]
      rw [requote_modes U hU hA q1 q2 u (fun e => hcl e u rfl)]

/-- a query key / value whose raw characters all survive `safely_quote(…, safe="/+")` followed
by the safe unquoter of query items -/
def cleanItem (s : Str) : Bool := cleanStrBy quoteSafeQ Gen.Quote.unsafeForQueryItem s

/-- `safely_unquote_query_item ∘ safely_quote(…, safe="/+") ∘ safely_unquote_query_item` on a
clean key / value -/
theorem unquote_quoteQueryItem {s : Str} (h : cleanItem s = true) :
    unquoteQueryItem (quoteQueryItem (unquoteQueryItem s)) = unquoteQueryItem s :=
  safelyUnquote_quoteBy_unquote safeSet_quoteSafeQ Gen.Quote.unsafeForQueryItem (by decide)
    (by unfold AsciiSet; decide) s h

/-- every key and value of the query is clean -/
def QslClean (x : Str) : Prop :=
  ∀ kv ∈ safeQslIter x, cleanItem kv.1 = true ∧ ∀ v ∈ kv.2, cleanItem v = true

def modeQsl (q : Bool) (qsl : List (Str × Option Str)) : List (Str × Option Str) :=
  if q then quoteQsl (unquoteQsl qsl) else unquoteQsl qsl

theorem canonQuery_eq (q : Bool) (x : Str) :
    canonQuery q x = safeSerializeQsl (modeQsl q (safeQslIter x)) := by
  unfold canonQuery modeQsl
  cases q <;> rfl

/-- **mode round trips of the query** -/
theorem canonQuery_modes (q1 q2 : Bool) (x : Str) (hcl : q1 = true → QslClean x) :
    canonQuery q2 (canonQuery q1 x) = canonQuery q2 x := by
  have hne : safeQslIter x ≠ [] := by
    rw [safeQslIter_eq]; simpa using splitOn_ne_nil x '&'
  have hU : (0x25 : UInt8) ∈ Gen.Quote.unsafeForQueryItem := by decide
  have hA : AsciiSet Gen.Quote.unsafeForQueryItem := by unfold AsciiSet; decide
  have hwf1 : ∀ kv ∈ modeQsl q1 (safeQslIter x), ItemWf kv := by
    unfold modeQsl
    cases q1
    · exact wf_unquoteQsl _ (wf_safeQslIter x)
    · exact wf_quoteQsl _
  have hne1 : modeQsl q1 (safeQslIter x) ≠ [] := by
    unfold modeQsl
    cases q1 <;> simpa [unquoteQsl, quoteQsl] using hne
  rw [canonQuery_eq q1, canonQuery_eq q2, canonQuery_eq q2, safeQslIter_serialize _ hne1 hwf1]
  congr 1
  have key : unquoteQsl (modeQsl q1 (safeQslIter x)) = unquoteQsl (safeQslIter x) := by
    unfold modeQsl
    cases q1 with
    | false =>
      simp only [Bool.false_eq_true, if_false, unquoteQsl, List.map_map]
      apply List.map_congr_left
      intro kv _
      obtain ⟨k, v⟩ := kv
      simp only [Function.comp, unquoteQueryItem, safelyUnquote_idem' _ hU hA]
      cases v <;> simp [safelyUnquote_idem' _ hU hA]
    | true =>
      have hc := hcl rfl
      simp only [if_true, unquoteQsl, quoteQsl, List.map_map]
      apply List.map_congr_left
      intro kv hkv
      obtain ⟨k, v⟩ := kv
      have hk := (hc _ hkv).1
      simp only [Function.comp, unquote_quoteQueryItem hk]
      cases v with
      | none => rfl
      | some v0 =>
        have hv := (hc _ hkv).2 v0 rfl
        simp [unquote_quoteQueryItem hv]
  unfold modeQsl at key ⊢
  cases q2
  · simp only [Bool.false_eq_true, if_false]; exact key
  · simp only [if_true]; rw [key]

end Ural.Canonicalize
