import UralModel.Lemmas.FacebookRe
import UralModel.Lemmas.FacebookUrlTotal
import UralModel.Lemmas.LruHostname
/-!
`convert_facebook_url_to_mobile` (C19, `ural/facebook.py:100-131`) and the urls the module itself
calls facebook urls: the function tests `"facebook" in splitted.netloc.lower()` on
`urlsplit(ensure_protocol(url))`, `is_facebook_url` tests `FACEBOOK_DOMAIN_RE` on
`safe_urlsplit(url).hostname`.  The two splits give the same netloc (they differ only on a url
that starts with `//`, where `ensure_protocol` puts `http:` in front and `safe_urlsplit` nothing),
the hostname is a piece of the netloc, and a host accepted by the pattern contains `facebook` or
`fb.me`.
-/
namespace Ural.Facebook
open Ural.Py Ural

/-! ## the hostname is a piece of the netloc -/

theorem afterLast_suffix (sep : Char) (s : Str) : ∃ a, s = a ++ afterLast sep s := by
  refine ⟨(s.reverse.dropWhile (· != sep)).reverse, ?_⟩
  unfold afterLast
  rw [← List.reverse_append, List.takeWhile_append_dropWhile, List.reverse_reverse]

theorem beforeFirst_prefix (sep : Char) (s : Str) : ∃ b, s = beforeFirst sep s ++ b := by
  unfold beforeFirst
  cases h : splitAtFirst sep s with
  | none => exact ⟨[], by simp⟩
  | some ab =>
    obtain ⟨a, b⟩ := ab
    exact ⟨sep :: b, (splitAtFirst_eq_some.mp h).1⟩

theorem pyHostinfoHost_infix (n : Str) : ∃ a b, n = a ++ pyHostinfoHost n ++ b := by
  obtain ⟨a0, h0⟩ := afterLast_suffix '@' n
  unfold pyHostinfoHost
  simp only
  cases hs : splitAtFirst '[' (afterLast '@' n) with
  | none =>
    obtain ⟨b, hb⟩ := beforeFirst_prefix ':' (afterLast '@' n)
    exact ⟨a0, b, by rw [List.append_assoc, ← hb, ← h0]⟩
  | some xy =>
    obtain ⟨x, y⟩ := xy
    have e := (splitAtFirst_eq_some.mp hs).1
    obtain ⟨b, hb⟩ := beforeFirst_prefix ']' y
    refine ⟨a0 ++ x ++ ['['], b, ?_⟩
    simp only
    calc n = a0 ++ afterLast '@' n := h0
      _ = a0 ++ (x ++ '[' :: y) := by rw [e]
      _ = a0 ++ (x ++ '[' :: (beforeFirst ']' y ++ b)) := by rw [← hb]
      _ = _ := by simp

/-- a word found in the lower-cased `.hostname` is found in the lower-cased netloc -/
theorem hasInfix_lower_netloc (n w : Str) (h : hasInfix (lower (pyHostname n)) w = true) :
    hasInfix (lower n) w = true := by
  rw [Lru.lower_pyHostname] at h
  obtain ⟨a, b, e⟩ := (hasInfix_iff _ _).mp h
  obtain ⟨x, y, hn⟩ := pyHostinfoHost_infix n
  apply (hasInfix_iff _ _).mpr
  refine ⟨lower x ++ a, b ++ lower y, ?_⟩
  have := congrArg lower hn
  rw [Lru.lower_append, Lru.lower_append, e] at this
  rw [this]; simp

/-! ## the two splits give the same netloc -/

theorem cleanUrl_http_colon (t : Str) :
    cleanUrl ("http:".toList ++ t) = "http:".toList ++ t.filter (fun c => !isUnsafeUrlChar c) := by
  unfold cleanUrl
  simp [isC0OrSpace, isUnsafeUrlChar, List.filter_cons]

theorem splitScheme_http_colon (y dflt : Str) : splitScheme ("http:".toList ++ y) dflt = ("http".toList, y) := by
  unfold splitScheme
  have : "http:".toList ++ y = "http".toList ++ ':' :: y := by simp
  rw [this, splitFirst_append_sep_s20 _ _ ':' (by decide)]
  rfl

/-- `urlsplit("http:" + "//…")` and `urlsplit("//…")` differ by the scheme only -/
theorem urlsplit_http_slashes (r : Str) :
    urlsplit ("http:".toList ++ '/' :: '/' :: r) [] =
      (urlsplit ('/' :: '/' :: r) []).map fun sp => { sp with scheme := "http".toList } := by
  unfold urlsplit
  rw [cleanUrl_http_colon, cleanUrl_slash]
  simp only [List.filter_cons, show (!isUnsafeUrlChar '/') = true by decide, if_true,
    splitScheme_http_colon, splitScheme_of_head_slash]
  split <;> rfl

/-- **`urlsplit(ensure_protocol(url))` and `safe_urlsplit(url)` agree but for the scheme** -/
theorem urlsplit_ensure_protocol (url : Str) :
    (urlsplit (ensure_protocol url (lit "http")) []).map (fun sp => sp.netloc) =
      (safe_urlsplit url).map (fun sp => sp.netloc) := by
  unfold ensure_protocol safe_urlsplit
  have hn : normProto (lit "http") = "http".toList := by decide
  cases hp : protoLen url with
  | none =>
    simp only [hn, Option.isNone_none, if_true]
    rfl
  | some k =>
    simp only [hn, Option.isNone_some, Bool.false_eq_true, if_false]
    by_cases hs : startsWith url ['/', '/'] = true
    · obtain ⟨r, hr⟩ := (startsWith_slashes_iff url).mp hs
      simp only [hs, if_true]
      subst hr
      have : "http".toList ++ [':'] ++ '/' :: '/' :: r = "http:".toList ++ '/' :: '/' :: r := by simp
      rw [this, urlsplit_http_slashes]
      cases urlsplit ('/' :: '/' :: r) [] <;> rfl
    · simp only [hs, Bool.false_eq_true, if_false]

/-! ## when `convert_facebook_url_to_mobile` returns -/

theorem convert_ok_iff (url : Str) :
    (∃ s, convert_facebook_url_to_mobile url = .ok s) ↔
      ∃ sp, urlsplit (ensure_protocol url (lit "http")) = some sp ∧
        contains (lower sp.netloc) (lit "facebook") = true := by
  unfold convert_facebook_url_to_mobile
  simp only
  cases hs : urlsplit (ensure_protocol url (lit "http")) with
  | none => simp
  | some sp =>
    simp only [Option.some.injEq, exists_eq_left']
    by_cases hc : contains (lower sp.netloc) (lit "facebook") = true
    · simp only [hc, Bool.not_true, Bool.false_eq_true, if_false, iff_true]
      have hne : ∀ s : Str, splitStr1 s (lit "://") ≠ [] := by
        intro s; unfold splitStr1; cases find s (lit "://") <;> simp
      split
      · rw [getLastIdx_of_ne_nil _ (hne _)]; exact ⟨_, rfl⟩
      · exact ⟨_, rfl⟩
    · have hc' : contains (lower sp.netloc) (lit "facebook") = false := by simpa using hc
      simp [hc']

end Ural.Facebook
