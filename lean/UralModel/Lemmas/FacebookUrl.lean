import UralModel.Lemmas.FacebookValid
import UralModel.Lemmas.Builders
/-!
`urljoin(BASE_FACEBOOK_URL, path)` and `safe_urlsplit` of the result, for the paths the
record builders of `ural/facebook.py` make (C19 round trip).
-/
namespace Ural.Facebook
open Ural.Py Ural

/-- `"?" + q` when there is a query -/
def qs (q : Str) : Str := if q.isEmpty then [] else '?' :: q

/-- `"https"` and `"www.facebook.com"` as explicit characters (`simp` does not look into
`String.toList` of a literal) -/
def httpsL : Str := ['h', 't', 't', 'p', 's']
def hostL : Str := ['w', 'w', 'w', '.', 'f', 'a', 'c', 'e', 'b', 'o', 'o', 'k', '.', 'c', 'o', 'm']

theorem httpsL_eq : httpsL = "https".toList := by decide
theorem hostL_eq : hostL = "www.facebook.com".toList := by decide

/-- the base as explicit characters -/
theorem BASE_eq : BASE = httpsL ++ ':' :: '/' :: '/' :: hostL := by decide

theorem urlsplit_BASE : urlsplit BASE [] = some ⟨httpsL, hostL, [], [], []⟩ := by
  decide

/-! ## list helpers -/

theorem takeWhile_append_stop {α : Type} (f : α → Bool) (a : List α) (c : α) (t : List α)
    (ha : ∀ x ∈ a, f x = true) (hc : f c = false) : (a ++ c :: t).takeWhile f = a := by
  induction a with
  | nil => simp [hc]
  | cons x xs ih =>
    have hx := ha x (by simp)
    simp [hx, ih (fun y hy => ha y (by simp [hy]))]

theorem dropWhile_append_stop {α : Type} (f : α → Bool) (a : List α) (c : α) (t : List α)
    (ha : ∀ x ∈ a, f x = true) (hc : f c = false) : (a ++ c :: t).dropWhile f = c :: t := by
  induction a with
  | nil => simp [hc]
  | cons x xs ih =>
    have hx := ha x (by simp)
    simp [hx, ih (fun y hy => ha y (by simp [hy]))]

theorem takeWhile_all {α : Type} (f : α → Bool) (a : List α) (ha : ∀ x ∈ a, f x = true) :
    a.takeWhile f = a := by
  induction a with
  | nil => rfl
  | cons x xs ih => simp [ha x (by simp), ih (fun y hy => ha y (by simp [hy]))]

theorem dropWhile_all {α : Type} (f : α → Bool) (a : List α) (ha : ∀ x ∈ a, f x = true) :
    a.dropWhile f = [] := by
  induction a with
  | nil => rfl
  | cons x xs ih => simp [ha x (by simp), ih (fun y hy => ha y (by simp [hy]))]

/-! ## the dot-segment loop of `urljoin` -/

theorem resolve_foldl (segs acc : List Str) (h : ∀ s ∈ segs, isDotSeg s = false) :
    segs.foldl (fun (acc : List Str) seg =>
      if seg = ['.', '.'] then acc.dropLast else if seg = ['.'] then acc else acc ++ [seg]) acc
      = acc ++ segs := by
  induction segs generalizing acc with
  | nil => simp
  | cons s ss ih =>
    have hs := h s (by simp)
    unfold isDotSeg at hs
    simp only [Bool.or_eq_false_iff, decide_eq_false_iff_not] at hs
    simp only [List.foldl_cons, hs.1, hs.2, if_false]
    rw [ih _ (fun x hx => h x (by simp [hx]))]
    simp

/-- without `.` / `..` segments the loop is the identity -/
theorem resolveSegments_of_no_dots (segs : List Str) (h : ∀ s ∈ segs, isDotSeg s = false) :
    resolveSegments segs = segs := by
  unfold resolveSegments
  simp only [resolve_foldl segs [] h, List.nil_append]
  cases hl : segs.getLast? with
  | none => rfl
  | some l =>
    have hm : l ∈ segs := List.mem_of_getLast? hl
    have := h l hm
    unfold isDotSeg at this
    simp only [Bool.or_eq_false_iff, decide_eq_false_iff_not] at this
    simp [this.1, this.2]

/-! ## `urlsplit` of a path-absolute reference and of a canonical url -/

/-- the characters of a path the builders make: no `?`, `#`, TAB, CR, LF -/
def pathChar (c : Char) : Bool := c ≠ '?' && c ≠ '#' && !isUnsafeUrlChar c
/-- the characters of a query the builders make: no `#`, TAB, CR, LF -/
def queryChar (c : Char) : Bool := c ≠ '#' && !isUnsafeUrlChar c

theorem pathChar_spec {c : Char} (h : pathChar c = true) : c ≠ '?' ∧ c ≠ '#' ∧ isUnsafeUrlChar c = false := by
  unfold pathChar at h
  simp only [Bool.and_eq_true, decide_eq_true_eq, Bool.not_eq_true'] at h
  exact ⟨h.1.1, h.1.2, h.2⟩

theorem queryChar_spec {c : Char} (h : queryChar c = true) : c ≠ '#' ∧ isUnsafeUrlChar c = false := by
  unfold queryChar at h
  simp only [Bool.and_eq_true, decide_eq_true_eq, Bool.not_eq_true'] at h
  exact h

theorem not_mem_of_all {p : Str} {f : Char → Bool} {d : Char} (h : ∀ c ∈ p, f c = true) (hd : f d = false) :
    d ∉ p := fun hm => by rw [h d hm] at hd; exact absurd hd (by simp)

/-- the `#` and `?` steps of `urlsplit` on `path + "?" + query` -/
theorem split_path_query (p q : Str) (hp : ∀ c ∈ p, pathChar c = true) (hq : ∀ c ∈ q, queryChar c = true) :
    splitFirst (p ++ qs q) '#' = (p ++ qs q, none) ∧
    splitFirst (p ++ qs q) '?' = (p, if q.isEmpty then none else some q) := by
  have hp1 : '#' ∉ p := not_mem_of_all hp (by decide)
  have hp2 : '?' ∉ p := not_mem_of_all hp (by decide)
  have hq1 : '#' ∉ q := not_mem_of_all hq (by decide)
  constructor
  · apply splitFirst_notMem_s20
    unfold qs
    split <;> simp [hp1, hq1]
  · unfold qs
    by_cases hqe : q.isEmpty = true
    · simp only [hqe, if_true, List.append_nil]
      exact splitFirst_notMem_s20 _ _ hp2
    · simp only [hqe, Bool.false_eq_true, if_false]
      exact splitFirst_append_sep_s20 p q '?' hp2

theorem cleanUrl_path_query (p q : Str) (c0 : Char) (p' : Str) (hp0 : p = c0 :: p')
    (hc0 : isC0OrSpace c0 = false)
    (hp : ∀ c ∈ p, pathChar c = true) (hq : ∀ c ∈ q, queryChar c = true) :
    cleanUrl (p ++ qs q) = p ++ qs q := by
  apply cleanUrl_eq_self
  · intro c rest h
    rw [hp0] at h
    simp only [List.cons_append, List.cons.injEq] at h
    rw [← h.1]; exact hc0
  · intro c hc
    simp only [List.mem_append] at hc
    rcases hc with hc | hc
    · exact (pathChar_spec (hp c hc)).2.2
    · unfold qs at hc
      split at hc
      · simp at hc
      · simp only [List.mem_cons] at hc
        rcases hc with hc | hc
        · rw [hc]; decide
        · exact (queryChar_spec (hq c hc)).2

/-- `urlsplit(path + "?" + query, scheme)` for a path starting with a single slash -/
theorem urlsplit_abs_path (p' q dflt : Str) (hns : p'.head? ≠ some '/')
    (hp : ∀ c ∈ '/' :: p', pathChar c = true) (hq : ∀ c ∈ q, queryChar c = true) :
    urlsplit ('/' :: p' ++ qs q) dflt = some ⟨dflt, [], '/' :: p', q, []⟩ := by
  have hclean := cleanUrl_path_query ('/' :: p') q '/' p' rfl (by decide) hp hq
  obtain ⟨h1, h2⟩ := split_path_query ('/' :: p') q hp hq
  unfold urlsplit
  simp only [hclean]
  have hsch : splitScheme ('/' :: p' ++ qs q) dflt = (dflt, '/' :: p' ++ qs q) := by
    unfold splitScheme
    rw [List.cons_append, splitFirst_cons_s20]
    simp only [show ('/' : Char) ≠ ':' by decide, if_false]
    cases (splitFirst (p' ++ qs q) ':').2 with
    | none => rfl
    | some post => simp [isAsciiAlpha]
  have hnl : splitNetloc ('/' :: p' ++ qs q) = ([], '/' :: p' ++ qs q) := by
    have : startsWith ('/' :: p' ++ qs q) ['/', '/'] = false := by
      cases p' with
      | nil =>
        unfold qs
        split <;> simp [startsWith, List.isPrefixOf]
      | cons c cs =>
        have : c ≠ '/' := fun e => hns (by simp [e])
        simp [startsWith, List.isPrefixOf, Ne.symm this]
    unfold splitNetloc
    simp only [this, Bool.false_eq_true, if_false]
  simp only [hsch, hnl, h1, h2]
  have : netlocOk [] = true := by decide
  simp only [this, Bool.not_true, Bool.false_eq_true, if_false]
  by_cases hqe : q.isEmpty = true
  · have : q = [] := List.isEmpty_iff.mp hqe
    simp [this]
  · simp [hqe]

theorem protoLen_canonical (rest : Str) : protoLen (BASE ++ rest) = some 8 := by
  rw [BASE_eq]
  unfold protoLen
  have h1 : (httpsL ++ ':' :: '/' :: '/' :: hostL ++ rest).takeWhile isAsciiAlpha = httpsL := by
    rw [List.append_assoc]
    exact takeWhile_append_stop _ _ _ _ (by decide) (by decide)
  have h2 : (httpsL ++ ':' :: '/' :: '/' :: hostL ++ rest).dropWhile isAsciiAlpha
      = ':' :: ('/' :: '/' :: hostL ++ rest) := by
    rw [List.append_assoc]
    exact dropWhile_append_stop _ _ _ _ (by decide) (by decide)
  simp only [h1, h2]
  simp [httpsL, startsWith, List.isPrefixOf, protoMaxLetters]

/-- **`safe_urlsplit` of a canonical url**: scheme, the canonical host, the path and the
query the builder put there -/
theorem safe_urlsplit_canonical (p' q : Str)
    (hp : ∀ c ∈ '/' :: p', pathChar c = true) (hq : ∀ c ∈ q, queryChar c = true) :
    safe_urlsplit (BASE ++ ('/' :: p' ++ qs q)) =
      some ⟨httpsL, hostL, '/' :: p', q, []⟩ := by
  unfold safe_urlsplit
  rw [protoLen_canonical]
  simp only [Option.isNone_some, Bool.false_eq_true, if_false]
  obtain ⟨h1, h2⟩ := split_path_query ('/' :: p') q hp hq
  have hclean : cleanUrl (BASE ++ ('/' :: p' ++ qs q)) = BASE ++ ('/' :: p' ++ qs q) := by
    apply cleanUrl_eq_self
    · intro c rest h
      rw [BASE_eq] at h
      simp only [List.append_assoc] at h
      have : c = 'h' := by
        have := congrArg List.head? h
        simpa [httpsL] using this.symm
      rw [this]; decide
    · intro c hc
      simp only [List.mem_append] at hc
      rcases hc with hc | hc
      · revert c; decide
      · rcases hc with hc | hc
        · exact (pathChar_spec (hp c hc)).2.2
        · unfold qs at hc
          split at hc
          · simp at hc
          · simp only [List.mem_cons] at hc
            rcases hc with hc | hc
            · rw [hc]; decide
            · exact (queryChar_spec (hq c hc)).2
  unfold urlsplit
  simp only [hclean]
  have hsch : splitScheme (BASE ++ ('/' :: p' ++ qs q)) [] =
      (httpsL, '/' :: '/' :: hostL ++ ('/' :: p' ++ qs q)) := by
    unfold splitScheme
    rw [BASE_eq]
    have : httpsL ++ ':' :: '/' :: '/' :: hostL ++ ('/' :: p' ++ qs q) =
        httpsL ++ ':' :: ('/' :: '/' :: hostL ++ ('/' :: p' ++ qs q)) := by simp
    rw [this, splitFirst_append_sep_s20 _ _ ':' (by decide)]
    rfl
  have hnl : splitNetloc ('/' :: '/' :: hostL ++ ('/' :: p' ++ qs q)) =
      (hostL, '/' :: p' ++ qs q) := by
    unfold splitNetloc
    simp only [List.cons_append, startsWith, List.isPrefixOf, beq_self_eq_true, Bool.and_self, if_true,
      List.drop_succ_cons, List.drop_zero]
    rw [takeWhile_append_stop _ _ _ _ (by decide) (by decide),
      dropWhile_append_stop _ _ _ _ (by decide) (by decide)]
  have hok : netlocOk hostL = true := by decide
  simp only [hsch, hnl, hok, Bool.not_true, Bool.false_eq_true, if_false, h1, h2]
  by_cases hqe : q.isEmpty = true
  · have : q = [] := List.isEmpty_iff.mp hqe
    simp [this]
  · simp [hqe]

/-! ## `urljoin(BASE_FACEBOOK_URL, …)` -/

theorem pathParams_no_semi (scheme path : Str) (h : ';' ∉ path) : pathParams scheme path = (path, []) := by
  unfold pathParams
  simp only [Bool.and_eq_true, List.contains_iff_mem, h, and_false, if_false]

/-- **`urljoin(BASE, "/…?query")`** for a path-absolute reference without `.`/`..` segments, `#`,
TAB, CR, LF, whose `;params` (split from the last segment by `urlparse`) are put back as they
were: the base followed by the reference -/
theorem urljoin_base_abs_params (p' q a b : Str) (hns : p'.head? ≠ some '/')
    (hp : ∀ c ∈ '/' :: p', pathChar c = true)
    (hq : ∀ c ∈ q, queryChar c = true)
    (hpar : pathParams httpsL ('/' :: p') = (a, b))
    (hre : (if b ≠ [] then a ++ ';' :: b else a) = '/' :: p')
    (ha : startsWith a ['/'] = true)
    (hdots : ∀ s ∈ splitOn a '/', isDotSeg s = false) :
    urljoin BASE ('/' :: p' ++ qs q) = some (BASE ++ ('/' :: p' ++ qs q)) := by
  unfold urljoin
  have hb : BASE ≠ [] := by decide
  have hu : ('/' :: p' ++ qs q) ≠ [] := by simp
  simp only [hb, hu, if_false, urlsplit_BASE, urlsplit_abs_path p' q httpsL hns hp hq]
  rw [hpar, pathParams_no_semi _ [] (by simp)]
  have t1 : inTable usesRelative httpsL = true := by decide
  have t2 : inTable usesNetloc20 httpsL = true := by decide
  have hane : a ≠ [] := by intro e; rw [e] at ha; simp [startsWith, List.isPrefixOf] at ha
  have hj : join ['/'] (resolveSegments (splitOn a '/')) = a := by
    rw [resolveSegments_of_no_dots _ hdots, join_splitOn]
  simp only [t1, t2, ha, hj, hane, ne_eq, not_true_eq_false, decide_false, Bool.not_true, Bool.or_self,
    Bool.false_eq_true, if_false, Bool.and_false, reduceCtorEq, Bool.false_and, if_true]
  unfold urlunparse
  have hre' : (if b ≠ [] then a ++ ';' :: b else a) = '/' :: p' := hre
  simp only [ne_eq] at hre'
  rw [hre']
  unfold urlunsplit20
  rw [BASE_eq]
  by_cases hqe : q = []
  · subst hqe
    simp [qs, hostL, httpsL, startsWith, List.isPrefixOf]
  · have : q.isEmpty = false := by simpa using hqe
    simp [qs, this, hqe, hostL, httpsL, startsWith, List.isPrefixOf]

/-- **`urljoin(BASE, "/…?query")`** for a path-absolute reference without `;`, `.`/`..`
segments, `#`, TAB, CR, LF: the base followed by the reference -/
theorem urljoin_base_abs (p' q : Str) (hns : p'.head? ≠ some '/')
    (hp : ∀ c ∈ '/' :: p', pathChar c = true) (hsemi : ';' ∉ p')
    (hq : ∀ c ∈ q, queryChar c = true)
    (hdots : ∀ s ∈ splitOn ('/' :: p') '/', isDotSeg s = false) :
    urljoin BASE ('/' :: p' ++ qs q) = some (BASE ++ ('/' :: p' ++ qs q)) := by
  have hsemi' : ';' ∉ '/' :: p' := by simp [hsemi]
  exact urljoin_base_abs_params p' q ('/' :: p') [] hns hp hq (pathParams_no_semi _ _ hsemi') (by simp)
    (by simp [startsWith, List.isPrefixOf]) hdots

/-! ### `urlparse`'s params: split from the last segment at its first `;` -/

theorem splitLast_append_seg (r n : Str) (hn : '/' ∉ n) : splitLast (r ++ '/' :: n) '/' = (some r, n) := by
  unfold splitLast
  rw [span_eq_s20]
  have hrev : (r ++ '/' :: n).reverse = n.reverse ++ '/' :: r.reverse := by simp
  rw [hrev]
  have hall : ∀ c ∈ n.reverse, (decide (c ≠ '/')) = true := by
    intro c hc
    have : c ∈ n := by simpa using hc
    simp only [decide_eq_true_eq]
    intro e; exact hn (e ▸ this)
  rw [List.takeWhile_append_of_pos hall, List.dropWhile_append_of_pos hall]
  simp

/-- the params step on a path whose last segment is `n`: the segment is cut at its first `;` -/
theorem pathParams_last (r n : Str) (hn : '/' ∉ n) :
    pathParams httpsL (r ++ '/' :: n) = (r ++ '/' :: (splitFirst n ';').1, ((splitFirst n ';').2).getD []) := by
  unfold pathParams
  have t : inTable usesParams httpsL = true := by decide
  simp only [t, Bool.true_and]
  have hspec := splitFirst_spec_s20 n ';'
  by_cases hc : (r ++ '/' :: n).contains ';' = true
  · simp only [hc, if_true]
    unfold splitparams
    rw [splitLast_append_seg r n hn]
    simp only
    cases hsf : splitFirst n ';' with
    | mk x ob =>
      cases ob with
      | none =>
        rw [hsf] at hspec
        simp only at hspec
        simp only [Option.getD_none]
        rw [hspec.2]
      | some y => simp
  · simp only [hc, Bool.false_eq_true, if_false]
    have : ';' ∉ n := by
      intro hm
      apply hc
      simp [hm]
    rw [splitFirst_notMem_s20 n ';' this]
    rfl

/-- what `lastSemiOk n` says: the part of `n` before its first `;` is no dot segment, the part
after it (if any) is not empty, and putting `;params` back when they are not empty gives `n` -/
theorem lastSemiOk_spec {n : Str} (h : lastSemiOk n = true) :
    isDotSeg (splitFirst n ';').1 = false ∧ (splitFirst n ';').2 ≠ some [] ∧
    (if ((splitFirst n ';').2).getD [] ≠ [] then (splitFirst n ';').1 ++ ';' :: ((splitFirst n ';').2).getD []
     else (splitFirst n ';').1) = n ∧
    ∀ c ∈ (splitFirst n ';').1, c ∈ n := by
  unfold lastSemiOk at h
  simp only [Bool.and_eq_true, Bool.not_eq_true', decide_eq_true_eq] at h
  have hspec := splitFirst_spec_s20 n ';'
  refine ⟨h.1, h.2, ?_, ?_⟩
  · cases hb : (splitFirst n ';').2 with
    | none =>
      rw [hb] at hspec
      simp only [Option.getD_none, ne_eq, not_true_eq_false, if_false]
      exact hspec.2.symm
    | some y =>
      rw [hb] at hspec
      have hy : y ≠ [] := by intro e; apply h.2; rw [hb, e]
      simp only [Option.getD_some, ne_eq, hy, not_false_eq_true, if_true]
      exact hspec.2.symm
  · intro c hc
    cases hb : (splitFirst n ';').2 with
    | none => rw [hb] at hspec; rw [hspec.2]; exact hc
    | some y => rw [hb] at hspec; rw [hspec.2]; simp [hc]

/-- the params step on a path whose last segment `n` is `lastSemiOk` -/
theorem params_of_last (r n : Str) (hn : '/' ∉ n) (hsemi : lastSemiOk n = true) :
    ∃ x y, pathParams httpsL (r ++ '/' :: n) = (r ++ '/' :: x, y) ∧
      (if y ≠ [] then x ++ ';' :: y else x) = n ∧ isDotSeg x = false ∧ ∀ c ∈ x, c ∈ n := by
  obtain ⟨hdot, _, hspec, hx⟩ := lastSemiOk_spec hsemi
  exact ⟨_, _, pathParams_last r n hn, hspec, hdot, hx⟩

/-- `"groups"` as explicit characters -/
def groupsL : Str := ['g', 'r', 'o', 'u', 'p', 's']

theorem groupsL_eq : groupsL = "groups".toList := by decide

/-- **`urljoin(BASE, "groups/" + h)`** (the builder of `FacebookGroup` gives a *relative*
reference) for a one-segment `h` -/
theorem urljoin_base_groups (h : Str) (hp : ∀ c ∈ h, pathChar c = true) (hsemi : lastSemiOk h = true)
    (hslash : '/' ∉ h) :
    urljoin BASE (groupsL ++ '/' :: h) = some (BASE ++ ('/' :: groupsL ++ '/' :: h)) := by
  have hpath : ∀ c ∈ groupsL ++ '/' :: h, pathChar c = true := by
    intro c hc
    simp only [List.mem_append, List.mem_cons] at hc
    rcases hc with hc | hc | hc
    · revert c; decide
    · rw [hc]; decide
    · exact hp c hc
  have h1 : '#' ∉ groupsL ++ '/' :: h := not_mem_of_all hpath (by decide)
  have h2 : '?' ∉ groupsL ++ '/' :: h := not_mem_of_all hpath (by decide)
  -- urlsplit of the reference
  have hus : urlsplit (groupsL ++ '/' :: h) httpsL = some ⟨httpsL, [], groupsL ++ '/' :: h, [], []⟩ := by
    unfold urlsplit
    have hclean : cleanUrl (groupsL ++ '/' :: h) = groupsL ++ '/' :: h := by
      apply cleanUrl_eq_self
      · intro c rest e
        have : c = 'g' := by
          have := congrArg List.head? e
          simpa [groupsL] using this.symm
        rw [this]; decide
      · intro c hc; exact (pathChar_spec (hpath c hc)).2.2
    simp only [hclean]
    have hsch : splitScheme (groupsL ++ '/' :: h) httpsL = (httpsL, groupsL ++ '/' :: h) := by
      unfold splitScheme
      have e : groupsL ++ '/' :: h = (groupsL ++ ['/']) ++ h := by simp
      rw [e, splitFirst_append_left_s20 _ _ ':' (by decide)]
      cases (splitFirst h ':').2 with
      | none => rfl
      | some post =>
        simp only [groupsL, List.cons_append, List.nil_append, List.all_cons, isSchemeChar, isAsciiAlpha,
          isAsciiDigit]
        simp
    have hnl : splitNetloc (groupsL ++ '/' :: h) = ([], groupsL ++ '/' :: h) := by
      unfold splitNetloc
      simp [groupsL, startsWith, List.isPrefixOf]
    have hok : netlocOk [] = true := by decide
    simp only [hsch, hnl, hok, Bool.not_true, Bool.false_eq_true, if_false,
      splitFirst_notMem_s20 _ _ h1, splitFirst_notMem_s20 _ _ h2]
    rfl
  unfold urljoin
  have hb : BASE ≠ [] := by decide
  have hu : (groupsL ++ '/' :: h) ≠ [] := by simp [groupsL]
  simp only [hb, hu, if_false, urlsplit_BASE, hus]
  obtain ⟨x, y, hpar, hre0, hdot, hx⟩ := params_of_last groupsL h hslash hsemi
  rw [hpar, pathParams_no_semi _ [] (by simp)]
  have t1 : inTable usesRelative httpsL = true := by decide
  have t2 : inTable usesNetloc20 httpsL = true := by decide
  have hxs : '/' ∉ x := fun hm => hslash (hx _ hm)
  have hsw : startsWith (groupsL ++ '/' :: x) ['/'] = false := by
    simp [groupsL, startsWith, List.isPrefixOf]
  have hsp : splitOn (groupsL ++ '/' :: x) '/' = [groupsL, x] := by
    rw [splitOn_append_sep '/' groupsL _ (by decide), splitOn_of_not_mem '/' _ hxs]
  have hsegs : filterInner (([[]] : List Str) ++ [groupsL, x]) = [[], groupsL, x] := by
    simp [filterInner, groupsL]
  have hres : resolveSegments [[], groupsL, x] = [[], groupsL, x] := by
    apply resolveSegments_of_no_dots
    intro s hs
    simp only [List.mem_cons, List.not_mem_nil, or_false] at hs
    rcases hs with hs | hs | hs
    · rw [hs]; decide
    · rw [hs]; decide
    · rw [hs]; exact hdot
  have hj : join ['/'] [[], groupsL, x] = '/' :: groupsL ++ '/' :: x := by simp [join]
  have hbp : splitOn ([] : Str) '/' = [[]] := splitOn_nil '/'
  have hne1 : ¬ (groupsL ++ '/' :: x = []) := by simp [groupsL]
  simp only [t1, t2, hsw, hsp, hbp, ne_eq, not_true_eq_false, decide_false, Bool.not_true, Bool.or_self,
    Bool.false_eq_true, if_false, Bool.and_false, if_true, hne1, Bool.false_and,
    List.getLast?_singleton, hsegs, hres, hj]
  unfold urlunparse
  have hre : (if y ≠ [] then ('/' :: groupsL ++ '/' :: x) ++ ';' :: y else '/' :: groupsL ++ '/' :: x)
      = '/' :: groupsL ++ '/' :: h := by
    rw [← hre0]
    by_cases hy : y = []
    · simp [hy]
    · simp [hy]
  have hne2 : ¬ ('/' :: groupsL ++ '/' :: x = []) := by simp
  simp only [hne2, if_false]
  rw [hre]
  unfold urlunsplit20
  rw [BASE_eq]
  simp [hostL, httpsL, groupsL, startsWith, List.isPrefixOf]

/-! ## parsing a canonical url -/

theorem hostname_canonical : pyHostname hostL = hostL := by decide

theorem domain_accepts_hostL : reSearch Gen.C19Facebook.FACEBOOK_DOMAIN_RE hostL = true := by decide

theorem isFacebookUrlB_canonical (p' q : Str)
    (hp : ∀ c ∈ '/' :: p', pathChar c = true) (hq : ∀ c ∈ q, queryChar c = true) :
    isFacebookUrlB (BASE ++ ('/' :: p' ++ qs q)) = true := by
  unfold isFacebookUrlB
  rw [safe_urlsplit_canonical p' q hp hq]
  simp only [hostnameOf, hostname_canonical]
  have : hostL.isEmpty = false := by decide
  simp only [this, Bool.false_eq_true, if_false]
  exact domain_accepts_hostL

theorem startsWith_https_canonical (rest : Str) : startsWith (BASE ++ rest) (lit "https://") = true := by
  have : lit "https://" = httpsL ++ [':', '/', '/'] := by decide
  rw [this, BASE_eq]
  simp [httpsL, startsWith, List.isPrefixOf]

/-- **parsing a canonical url is routing its path and query**, whatever `allow_relative_urls`
(the builders' paths have no blank around a segment and no repeated slash: the strip and the
squeeze leave them alone) -/
theorem parse_canonical (p' q : Str) (rel : Bool)
    (hp : ∀ c ∈ '/' :: p', pathChar c = true) (hq : ∀ c ∈ q, queryChar c = true)
    (hnd : hasInfix ('/' :: p') dblSlash = false) (hst : stripSegments ('/' :: p') = '/' :: p') :
    parse_facebook_url (BASE ++ ('/' :: p' ++ qs q)) rel = parseSplit ⟨httpsL, hostL, '/' :: p', q, []⟩ := by
  rw [parse_facebook_url_eq]
  have hres : resolved (BASE ++ ('/' :: p' ++ qs q)) rel = some (BASE ++ ('/' :: p' ++ qs q)) := by
    unfold resolved
    simp only [startsWith_https_canonical, Bool.not_true, Bool.and_false, Bool.false_and, Bool.false_eq_true,
      if_false, isFacebookUrlB_canonical p' q hp hq, if_true]
  rw [hres]
  simp only [safe_urlsplit_canonical p' q hp hq, squeezePath, hst, squeeze_of_noDbl _ hnd]

end Ural.Facebook
