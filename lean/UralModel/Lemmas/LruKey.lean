import UralModel.Lemmas.LruPrefix
import UralModel.Lemmas.LruHostname
/-!
# The cleaned stems of a URL (`clean_trailing_path ∘ lru_stems`) and their prefix order
-/
set_option linter.unusedSimpArgs false
namespace Ural.Lru
open Ural Ural.Py

variable (sp : Str → Option (Str × Str))

/-- path stems without the empty ones -/
def cleanPathStems (path : Str) : List TStem := (cleanSegs path).map (fun e => ('p', e))

/-- the stems of a URL, empty path stems aside, as pairs -/
def keyStems (sa : Bool) (p : Parts) : List TStem :=
  strStem 's' p.scheme ++ (portStems (portSplit (hostportOf p.netloc)) ++
    (hostStems sp sa p.netloc ((portSplit (hostportOf p.netloc)).headD []) ++ (cleanPathStems p.path ++
    (strStem 'q' p.query ++ (strStem 'f' p.fragment ++
    (optStem 'u' (userOf p.netloc) ++ optStem 'w' (passwordOf p.netloc)))))))

theorem render_injective (a b : TStem) (h : render a = render b) : a = b := by
  obtain ⟨a1, a2⟩ := a; obtain ⟨b1, b2⟩ := b
  simp only [render, List.cons.injEq, true_and] at h
  simp [h.1, h.2]

theorem filter_clean_of_tag {G : List TStem} (h : ∀ t ∈ G, t.1 ≠ 'p') :
    G.filter ((fun s => s != ['p', ':']) ∘ render) = G := by
  rw [List.filter_eq_self]
  intro t ht
  have := h t ht
  simp [render, this]

theorem filter_clean_pathStems (path : Str) :
    (pathStems path).filter ((fun s => s != ['p', ':']) ∘ render) = cleanPathStems path := by
  simp only [pathStems, cleanPathStems, cleanSegs, List.filter_map]
  congr 1

/-- `clean_trailing_path(lru_stems(u))` are the rendered key stems -/
theorem clean_lruStems (sa : Bool) (p : Parts) :
    cleanTrailingPath (lruStems sp sa p) = (keyStems sp sa p).map render := by
  unfold cleanTrailingPath lruStems
  rw [List.filter_map, lruStemsT_groups]
  simp only [List.filter_append, filter_clean_pathStems]
  rw [filter_clean_of_tag (fun t h => by rw [tag_strStem h]; decide),
    filter_clean_of_tag (fun t h => by rw [tag_portStems h]; decide),
    filter_clean_of_tag (fun t h => by rw [tag_hostStems sp h]; decide),
    filter_clean_of_tag (G := strStem 'q' p.query) (fun t h => by rw [tag_strStem h]; decide),
    filter_clean_of_tag (G := strStem 'f' p.fragment) (fun t h => by rw [tag_strStem h]; decide),
    filter_clean_of_tag (G := optStem 'u' _) (fun t h => by rw [tag_optStem h]; decide),
    filter_clean_of_tag (G := optStem 'w' _) (fun t h => by rw [tag_optStem h]; decide)]
  rfl

/-! ## the groups as relations on components -/

theorem strStem_eq_iff (tag : Char) (x y : Str) : strStem tag x = strStem tag y ↔ x = y := by
  unfold strStem
  by_cases hx : x = [] <;> by_cases hy : y = [] <;> simp [hx, hy]

theorem strStem_eq_nil_iff (tag : Char) (x : Str) : strStem tag x = [] ↔ x = [] := by
  unfold strStem; by_cases hx : x = [] <;> simp [hx]

theorem strStem_prefix_iff (tag : Char) (x y : Str) :
    strStem tag x <+: strStem tag y ↔ x = [] ∨ x = y := by
  unfold strStem
  by_cases hx : x = [] <;> by_cases hy : y = [] <;> simp [hx, hy, List.cons_prefix_cons]

theorem portStems_eq_iff (h1 h2 : Str) (o1 o2 : Option Str) :
    portStems (h1 :: o1.toList) = portStems (h2 :: o2.toList) ↔ o1 = o2 := by
  cases o1 <;> cases o2 <;> simp [portStems]

theorem cleanPathStems_eq_iff (a b : Str) : cleanPathStems a = cleanPathStems b ↔ cleanSegs a = cleanSegs b := by
  unfold cleanPathStems
  constructor
  · intro h
    have := congrArg (List.map (·.2)) h
    simpa [List.map_map, Function.comp_def] using this
  · intro h; rw [h]

theorem cleanPathStems_prefix_iff (a b : Str) :
    cleanPathStems a <+: cleanPathStems b ↔ cleanSegs a <+: cleanSegs b :=
  map_prefix_of_injective _ (fun x y h => by simpa using h)

theorem cleanPathStems_eq_nil_iff (a : Str) : cleanPathStems a = [] ↔ cleanSegs a = [] := by
  simp [cleanPathStems]

theorem tag_cleanPathStems {path : Str} {t : TStem} (h : t ∈ cleanPathStems path) : t.1 = 'p' := by
  simp only [cleanPathStems, List.mem_map] at h
  obtain ⟨l, _, rfl⟩ := h; rfl

theorem optStem_of_noUserinfo {n : Str} (h : noUserinfo n = true) :
    optStem 'u' (userOf n) = [] ∧ optStem 'w' (passwordOf n) = [] := by
  simp only [noUserinfo, Bool.and_eq_true, beq_iff_eq] at h
  constructor
  · cases hu : userOf n with
    | none => rfl
    | some x => simp [hu] at h; simp [optStem, strStem, h.1]
  · cases hw : passwordOf n with
    | none => rfl
    | some x => simp [hw] at h; simp [optStem, strStem, h.2]

/-! ## the same for any reading of the path segments -/

/-- the path stems of a list of segments -/
def segStems (segs : List Str) : List TStem := segs.map (fun e => ('p', e))

/-- the stems of a URL as pairs, the path read through `segs` (`cleanSegs`: `keyStems`;
`rawSegs`: `lruStemsT` itself) -/
def keyStemsG (segs : Str → List Str) (sa : Bool) (p : Parts) : List TStem :=
  strStem 's' p.scheme ++ (portStems (portSplit (hostportOf p.netloc)) ++
    (hostStems sp sa p.netloc ((portSplit (hostportOf p.netloc)).headD []) ++ (segStems (segs p.path) ++
    (strStem 'q' p.query ++ (strStem 'f' p.fragment ++
    (optStem 'u' (userOf p.netloc) ++ optStem 'w' (passwordOf p.netloc)))))))

theorem keyStems_eq_G (sa : Bool) (p : Parts) : keyStems sp sa p = keyStemsG sp cleanSegs sa p := rfl

/-- the stems `lru_stems` emits, as they are -/
theorem lruStemsT_eq_G (sa : Bool) (p : Parts) : lruStemsT sp sa p = keyStemsG sp rawSegs sa p := by
  rw [lruStemsT_groups]; rfl

theorem segStems_eq_iff (a b : List Str) : segStems a = segStems b ↔ a = b := by
  unfold segStems
  constructor
  · intro h
    have := congrArg (List.map (·.2)) h
    simpa [List.map_map, Function.comp_def] using this
  · intro h; rw [h]

theorem segStems_prefix_iff (a b : List Str) : segStems a <+: segStems b ↔ a <+: b :=
  map_prefix_of_injective _ (fun x y h => by simpa using h)

theorem segStems_eq_nil_iff (a : List Str) : segStems a = [] ↔ a = [] := by
  simp [segStems]

theorem tag_segStems {l : List Str} {t : TStem} (h : t ∈ segStems l) : t.1 = 'p' := by
  simp only [segStems, List.mem_map] at h
  obtain ⟨l, _, rfl⟩ := h; rfl

/-- **the prefix order on stems, group by group** (`u` without userinfo), for any reading `segs`
of the path segments (`cleanSegs`: empty path stems aside; `rawSegs`: the stems as emitted): same scheme,
same port, then host / path / query / fragment may each be extended only when everything after
it is absent from `u` -/
theorem keyStemsG_prefix_iff (segs : Str → List Str) (sa : Bool) (u v : Parts) (hu : noUserinfo u.netloc = true)
    (hwu : wfNetloc u.netloc = true) (hwv : wfNetloc v.netloc = true) :
    keyStemsG sp segs sa u <+: keyStemsG sp segs sa v ↔
      u.scheme = v.scheme ∧ specPort u.netloc = specPort v.netloc ∧
      ((hostStems sp sa u.netloc (specHost u.netloc) = hostStems sp sa v.netloc (specHost v.netloc) ∧
          ((segs u.path = segs v.path ∧
              ((u.query = v.query ∧ (u.fragment = [] ∨ u.fragment = v.fragment)) ∨
               (u.fragment = [] ∧ (u.query = [] ∨ u.query = v.query)))) ∨
           (u.query = [] ∧ u.fragment = [] ∧ segs u.path <+: segs v.path))) ∨
       (segs u.path = [] ∧ u.query = [] ∧ u.fragment = [] ∧
          hostStems sp sa u.netloc (specHost u.netloc) <+: hostStems sp sa v.netloc (specHost v.netloc))) := by
  obtain ⟨hU, hW⟩ := optStem_of_noUserinfo hu
  unfold keyStemsG
  rw [hU, hW, portSplit_wf hwu, portSplit_wf hwv]
  simp only [List.headD_cons, List.append_nil]
  -- tags of the tails
  have tS : ∀ (x : Str) t, t ∈ strStem 's' x → t.1 = 's' := fun _ _ h => tag_strStem h
  have tQ : ∀ (x : Str) t, t ∈ strStem 'q' x → t.1 = 'q' := fun _ _ h => tag_strStem h
  have tF : ∀ (x : Str) t, t ∈ strStem 'f' x → t.1 = 'f' := fun _ _ h => tag_strStem h
  have tT : ∀ (l : List Str) t, t ∈ portStems l → t.1 = 't' := fun _ _ h => tag_portStems h
  have tH : ∀ n h0 t, t ∈ hostStems sp sa n h0 → t.1 = 'h' := fun _ _ _ h => tag_hostStems sp h
  have tP : ∀ (x : Str) t, t ∈ segStems (segs x) → t.1 = 'p' := fun _ _ h => tag_segStems h
  have tU : ∀ t, t ∈ optStem 'u' (userOf v.netloc) → t.1 = 'u' := fun _ h => tag_optStem h
  have tW : ∀ t, t ∈ optStem 'w' (passwordOf v.netloc) → t.1 = 'w' := fun _ h => tag_optStem h
  have hHne : hostStems sp sa u.netloc (specHost u.netloc) ≠ [] := by
    have h1 : normalHostStems (specHost u.netloc) ≠ [] := by
      unfold normalHostStems
      split
      · simp
      · have : splitChar '.' (specHost u.netloc) ≠ [] := splitBy_ne_nil _
        simpa [labelStems] using this
    rw [hostStems_eq]
    split
    · cases splitSuffixParsed sp u.netloc with
      | none => exact h1
      | some ds => simp [hostStemsOfSplit]
    · exact h1
  rw [prefix_group (x := 's') (tS _) (tS _)
    (by intro t ht; simp only [List.mem_append] at ht
        rcases ht with h | h | h | h | h
        · rw [tT _ _ h]; decide
        · rw [tH _ _ _ h]; decide
        · rw [tP _ _ h]; decide
        · rw [tQ _ _ h]; decide
        · rw [tF _ _ h]; decide)
    (by intro t ht; simp only [List.mem_append] at ht
        rcases ht with h | h | h | h | h | h | h
        · rw [tT _ _ h]; decide
        · rw [tH _ _ _ h]; decide
        · rw [tP _ _ h]; decide
        · rw [tQ _ _ h]; decide
        · rw [tF _ _ h]; decide
        · rw [tU _ h]; decide
        · rw [tW _ h]; decide)]
  rw [prefix_group (x := 't') (tT _) (tT _)
    (by intro t ht; simp only [List.mem_append] at ht
        rcases ht with h | h | h | h
        · rw [tH _ _ _ h]; decide
        · rw [tP _ _ h]; decide
        · rw [tQ _ _ h]; decide
        · rw [tF _ _ h]; decide)
    (by intro t ht; simp only [List.mem_append] at ht
        rcases ht with h | h | h | h | h | h
        · rw [tH _ _ _ h]; decide
        · rw [tP _ _ h]; decide
        · rw [tQ _ _ h]; decide
        · rw [tF _ _ h]; decide
        · rw [tU _ h]; decide
        · rw [tW _ h]; decide)]
  rw [prefix_group (x := 'h') (tH _ _) (tH _ _)
    (by intro t ht; simp only [List.mem_append] at ht
        rcases ht with h | h | h
        · rw [tP _ _ h]; decide
        · rw [tQ _ _ h]; decide
        · rw [tF _ _ h]; decide)
    (by intro t ht; simp only [List.mem_append] at ht
        rcases ht with h | h | h | h | h
        · rw [tP _ _ h]; decide
        · rw [tQ _ _ h]; decide
        · rw [tF _ _ h]; decide
        · rw [tU _ h]; decide
        · rw [tW _ h]; decide)]
  rw [prefix_group (x := 'p') (tP _) (tP _)
    (by intro t ht; simp only [List.mem_append] at ht
        rcases ht with h | h
        · rw [tQ _ _ h]; decide
        · rw [tF _ _ h]; decide)
    (by intro t ht; simp only [List.mem_append] at ht
        rcases ht with h | h | h | h
        · rw [tQ _ _ h]; decide
        · rw [tF _ _ h]; decide
        · rw [tU _ h]; decide
        · rw [tW _ h]; decide)]
  rw [prefix_group (x := 'q') (tQ _) (tQ _)
    (by intro t ht; rw [tF _ _ ht]; decide)
    (by intro t ht; simp only [List.mem_append] at ht
        rcases ht with h | h | h
        · rw [tF _ _ h]; decide
        · rw [tU _ h]; decide
        · rw [tW _ h]; decide)]
  have hF : strStem 'f' u.fragment <+:
      strStem 'f' v.fragment ++ (optStem 'u' (userOf v.netloc) ++ optStem 'w' (passwordOf v.netloc)) ↔
      (u.fragment = [] ∨ u.fragment = v.fragment) := by
    have := prefix_group (x := 'f') (A1 := strStem 'f' u.fragment) (A2 := strStem 'f' v.fragment)
      (B1 := []) (B2 := optStem 'u' (userOf v.netloc) ++ optStem 'w' (passwordOf v.netloc))
      (tF _) (tF _) (by simp)
      (by intro t ht; simp only [List.mem_append] at ht
          rcases ht with h | h
          · rw [tU _ h]; decide
          · rw [tW _ h]; decide)
    simp only [List.append_nil] at this
    rw [this, strStem_eq_iff, strStem_prefix_iff]
    constructor
    · rintro (⟨h, _⟩ | ⟨_, h⟩)
      · exact Or.inr h
      · exact h
    · intro h; exact Or.inr ⟨trivial, h⟩
  simp only [hF, strStem_eq_iff, strStem_prefix_iff, strStem_eq_nil_iff, portStems_eq_iff,
    segStems_eq_iff, segStems_prefix_iff, segStems_eq_nil_iff,
    List.append_eq_nil_iff, hHne, false_and, and_false, or_false, and_assoc]

/-- the cleaned reading (`clean_trailing_path` on both sides) -/
theorem keyStems_prefix_iff (sa : Bool) (u v : Parts) (hu : noUserinfo u.netloc = true)
    (hwu : wfNetloc u.netloc = true) (hwv : wfNetloc v.netloc = true) :
    keyStems sp sa u <+: keyStems sp sa v ↔
      u.scheme = v.scheme ∧ specPort u.netloc = specPort v.netloc ∧
      ((hostStems sp sa u.netloc (specHost u.netloc) = hostStems sp sa v.netloc (specHost v.netloc) ∧
          ((cleanSegs u.path = cleanSegs v.path ∧
              ((u.query = v.query ∧ (u.fragment = [] ∨ u.fragment = v.fragment)) ∨
               (u.fragment = [] ∧ (u.query = [] ∨ u.query = v.query)))) ∨
           (u.query = [] ∧ u.fragment = [] ∧ cleanSegs u.path <+: cleanSegs v.path))) ∨
       (cleanSegs u.path = [] ∧ u.query = [] ∧ u.fragment = [] ∧
          hostStems sp sa u.netloc (specHost u.netloc) <+: hostStems sp sa v.netloc (specHost v.netloc))) := by
  rw [keyStems_eq_G, keyStems_eq_G]
  exact keyStemsG_prefix_iff sp cleanSegs sa u v hu hwu hwv

end Ural.Lru
