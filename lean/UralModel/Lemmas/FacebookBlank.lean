import UralModel.Lemmas.FacebookNonempty
/-!
What `parse_facebook_url` does to the path before routing it (C19, `ural/facebook.py`):

    path = "/".join(part.strip() for part in splitted.path.split("/"))
    splitted = splitted._replace(path=SLASH_SQUEEZE_RE.sub("/", path))

and what follows for the segments `pathsplit` then returns — the fields of the records:

* every segment is `strip()` of a segment of the path `urlsplit` returned, hence neither starts
  nor ends with white space (`routed_segment_trimmed`);
* every character of a segment is a character of that path, hence no `?`, `#`, TAB, CR, LF
  (`safe_urlsplit_path_chars`, `routed_segment_chars`), and no `/` (`pathsplit_no_slash`).

So the white-space and delimiter conditions of the round trip are *derived* for the records the
parser returns; the bridge (`Lemmas/FacebookBridge.lean`) uses them.
-/
namespace Ural.Facebook
open Ural.Py Ural Ural.UrlParts

/-- `path` is empty or starts with a slash (what `urlsplit` returns after an authority) -/
def PathAbs (path : Str) : Prop := path = [] ∨ path.head? = some '/'

theorem pathsplit_nil : pathsplit [] = [] := by decide

/-! ## `strip()` -/

theorem mem_of_mem_strip {s : Str} {c : Char} (h : c ∈ strip s) : c ∈ s := by
  unfold strip rstrip lstrip at h
  have h1 : c ∈ (s.dropWhile isSpace).reverse.dropWhile isSpace :=
    List.mem_reverse.mp h
  have h2 := (List.dropWhile_suffix isSpace).subset h1
  exact (List.dropWhile_suffix isSpace).subset (List.mem_reverse.mp h2)

theorem blankHead_lstrip (s : Str) : blankHead (lstrip s) = false := by
  unfold blankHead lstrip
  have := List.head?_dropWhile_not isSpace s
  cases h : (s.dropWhile isSpace).head? with
  | none => rfl
  | some x => rw [h] at this; simpa using this

theorem blankHead_rstrip (t : Str) (h : blankHead t = false) : blankHead (rstrip t) = false := by
  obtain ⟨suf, hsuf⟩ := rstrip_prefix isSpace t
  have e : rstrip t = (t.reverse.dropWhile isSpace).reverse := rfl
  rw [← e] at hsuf
  cases hr : rstrip t with
  | nil => rfl
  | cons d r =>
    rw [hr] at hsuf
    rw [hsuf] at h
    simpa [blankHead] using h

theorem blankLast_rstrip (t : Str) : blankLast (rstrip t) = false := by
  unfold blankLast rstrip
  rw [List.getLast?_reverse]
  have := List.head?_dropWhile_not isSpace t.reverse
  cases h : (t.reverse.dropWhile isSpace).head? with
  | none => rfl
  | some x => rw [h] at this; simpa using this

/-- **`s.strip()` neither starts nor ends with white space** -/
theorem strip_trimmed (s : Str) : blankHead (strip s) = false ∧ blankLast (strip s) = false :=
  ⟨blankHead_rstrip _ (blankHead_lstrip s), blankLast_rstrip _⟩

/-! ## `SLASH_SQUEEZE_RE.sub("/", …)` on a path given by its segments -/

theorem fsq_of_not_mem (s : Str) (h : '/' ∉ s) : squeezeSlashes s = s := by
  induction s with
  | nil => exact squeeze_nil
  | cons c r ih =>
    rw [fsq_cons_ne c r (fun e => h (by simp [e])), ih (fun e => h (by simp [e]))]

theorem fsq_append_slash (s rest : Str) (h : '/' ∉ s) :
    squeezeSlashes (s ++ '/' :: rest) = s ++ squeezeSlashes ('/' :: rest) := by
  induction s with
  | nil => rfl
  | cons c r ih =>
    simp only [List.cons_append]
    rw [fsq_cons_ne c _ (fun e => h (by simp [e])), ih (fun e => h (by simp [e]))]

/-- what the squeeze does to the list of segments: every empty segment but the last disappears -/
def squeezeSegs : List Str → List Str
  | [] => []
  | [s] => [s]
  | s :: rest => if s = [] then squeezeSegs rest else s :: squeezeSegs rest

theorem squeezeSegs_cons_cons (s t : Str) (r : List Str) :
    squeezeSegs (s :: t :: r) = if s = [] then squeezeSegs (t :: r) else s :: squeezeSegs (t :: r) := by
  rw [squeezeSegs]; intro h; cases h

theorem squeezeSegs_ne_nil : ∀ (ds : List Str), ds ≠ [] → squeezeSegs ds ≠ []
  | [], h => absurd rfl h
  | [s], _ => by simp [squeezeSegs]
  | s :: t :: r, _ => by
    rw [squeezeSegs_cons_cons]
    split
    · exact squeezeSegs_ne_nil (t :: r) (by simp)
    · simp

theorem mem_squeezeSegs : ∀ (ds : List Str) (x : Str), x ∈ squeezeSegs ds → x ∈ ds
  | [], x, h => by simp [squeezeSegs] at h
  | [s], x, h => by simpa [squeezeSegs] using h
  | s :: t :: r, x, h => by
    rw [squeezeSegs_cons_cons] at h
    split at h
    · exact List.mem_cons_of_mem _ (mem_squeezeSegs (t :: r) x h)
    · simp only [List.mem_cons] at h
      rcases h with rfl | h
      · simp
      · exact List.mem_cons_of_mem _ (mem_squeezeSegs (t :: r) x (by simpa using h))

theorem join_cons_of_ne_nil' (sep a : Str) (r : List Str) (h : r ≠ []) :
    join sep (a :: r) = a ++ sep ++ join sep r := by
  cases r with
  | nil => exact absurd rfl h
  | cons b r => rfl

/-- squeezing an absolute path given by its segments -/
theorem fsq_join : ∀ (ds : List Str), ds ≠ [] → (∀ s ∈ ds, '/' ∉ s) →
    squeezeSlashes ('/' :: join ['/'] ds) = '/' :: join ['/'] (squeezeSegs ds)
  | [], h, _ => absurd rfl h
  | [s], _, hs => by
    have h1 : '/' ∉ s := hs s (by simp)
    simp only [join, squeezeSegs]
    cases s with
    | nil => exact fsq_slash_nil
    | cons c r =>
      have hc : c ≠ '/' := fun e => h1 (by simp [e])
      rw [fsq_slash_ne c r hc, fsq_of_not_mem _ h1]
  | s :: t :: r, _, hs => by
    have ih := fsq_join (t :: r) (by simp) (fun x hx => hs x (List.mem_cons_of_mem _ hx))
    have h1 : '/' ∉ s := hs s (by simp)
    rw [join_cons_cons_s20, squeezeSegs_cons_cons]
    cases s with
    | nil =>
      simp only [List.nil_append, List.singleton_append, if_true]
      rw [fsq_slash_slash, ih]
    | cons c r' =>
      have hc : c ≠ '/' := fun e => h1 (by simp [e])
      have hne : (c :: r') ≠ [] := by simp
      simp only [hne, if_false]
      rw [join_cons_of_ne_nil' _ _ _ (squeezeSegs_ne_nil (t :: r) (by simp))]
      have e : c :: r' ++ ['/'] ++ join ['/'] (t :: r) = (c :: r') ++ '/' :: join ['/'] (t :: r) := by simp
      rw [e, List.cons_append, fsq_slash_ne c _ hc, ← List.cons_append, fsq_append_slash _ _ h1, ih]
      simp

/-! ## the segments `pathsplit` returns are segments of the stripped path -/

theorem mem_splitOn_lstripSlash (t x : Str) (h : x ∈ splitOn (lstripChars t ['/']) '/') : x ∈ splitOn t '/' := by
  induction t with
  | nil => exact h
  | cons c cs ih =>
    by_cases hc : c = '/'
    · subst hc
      have e : lstripChars ('/' :: cs) ['/'] = lstripChars cs ['/'] := by
        unfold lstripChars; rw [List.dropWhile_cons_of_pos (by simp)]
      rw [e] at h
      rw [splitOn_cons_sep]
      exact List.mem_cons_of_mem _ (ih h)
    · have e : lstripChars (c :: cs) ['/'] = c :: cs := by
        unfold lstripChars; rw [List.dropWhile_cons_of_neg (by simpa using hc)]
      rw [e] at h
      exact h

theorem mem_splitOn_append_slashes (suf : Str) (hs : ∀ c ∈ suf, c = '/') :
    ∀ (a x : Str), x ∈ splitOn a '/' → x ∈ splitOn (a ++ suf) '/' := by
  induction suf with
  | nil => intro a x h; simpa using h
  | cons c s' ih =>
    intro a x h
    have hc : c = '/' := hs c (by simp)
    subst hc
    have e : a ++ '/' :: s' = (a ++ ['/']) ++ s' := by simp
    rw [e]
    apply ih (fun d hd => hs d (by simp [hd]))
    rw [splitOn_append_sep_s20 a [] '/']
    exact List.mem_append_left _ h

theorem mem_splitOn_rstripSlash (t x : Str) (h : x ∈ splitOn (rstripChars t ['/']) '/') : x ∈ splitOn t '/' := by
  have hsuf : t = rstripChars t ['/'] ++ (t.reverse.takeWhile (fun x => ['/'].contains x)).reverse := by
    unfold rstripChars
    rw [← List.reverse_append, List.takeWhile_append_dropWhile, List.reverse_reverse]
  have hall : ∀ c ∈ (t.reverse.takeWhile (fun x => ['/'].contains x)).reverse, c = '/' := by
    intro c hc
    have := mem_takeWhile_s20 _ _ c (List.mem_reverse.mp hc)
    simpa using this
  have := mem_splitOn_append_slashes _ hall _ x h
  rwa [← hsuf] at this

/-- **a segment returned by `pathsplit` is one of `urlpath.strip().split("/")`** -/
theorem mem_pathsplit_splitOn (p x : Str) (h : x ∈ pathsplit p) : x ∈ splitOn (strip p) '/' := by
  unfold pathsplit at h
  simp only at h
  split at h
  · simp at h
  · exact mem_splitOn_lstripSlash _ x (mem_splitOn_rstripSlash _ x h)

theorem join_getLast_cases (S : List Str) (c : Char) (h : (join ['/'] S).getLast? = some c) :
    c = '/' ∨ ∃ s ∈ S, s.getLast? = some c := by
  induction S with
  | nil => simp [join] at h
  | cons p ps ih =>
    cases ps with
    | nil => right; exact ⟨p, by simp, by simpa [join] using h⟩
    | cons q qs =>
      rw [join_cons_cons_s20, List.getLast?_append] at h
      cases hj : (join ['/'] (q :: qs)).getLast? with
      | none =>
        rw [hj] at h
        left
        simp at h
        exact h.symm
      | some d =>
        rw [hj] at h
        simp only [Option.some_or, Option.some.injEq] at h
        subst h
        rcases ih hj with e | ⟨s, hs, hl⟩
        · left; exact e
        · right; exact ⟨s, by simp [hs], hl⟩

/-- `"/".join(part.strip() for part in path.split("/"))` of an absolute path, by segments -/
theorem stripSegments_abs (q : Str) :
    stripSegments ('/' :: q) = '/' :: join ['/'] ((splitOn q '/').map strip) := by
  unfold stripSegments
  rw [splitOn_cons_sep, List.map_cons]
  have hne : (splitOn q '/').map strip ≠ [] := by
    simpa using splitOn_ne_nil q '/'
  have : strip ([] : Str) = [] := rfl
  rw [this, join_cons_of_ne_nil' _ _ _ hne]
  rfl

theorem stripSegments_nil : stripSegments [] = [] := by decide

/-- **every segment the routes read is `strip()` of a segment of the path `urlsplit` returned** -/
theorem routed_segment (path : Str) (habs : PathAbs path) :
    ∀ x ∈ pathsplit (squeezeSlashes (stripSegments path)), ∃ y ∈ splitOn path '/', x = strip y := by
  rcases habs with h | h
  · subst h
    rw [stripSegments_nil, squeeze_nil]
    intro x hx
    rw [pathsplit_nil] at hx
    cases hx
  · obtain ⟨q, rfl⟩ : ∃ q, path = '/' :: q := by
      cases path with
      | nil => simp at h
      | cons c t => simp at h; exact ⟨t, by rw [h]⟩
    have hL : (splitOn q '/').map strip ≠ [] := by simpa using splitOn_ne_nil q '/'
    have hfree : ∀ s ∈ (splitOn q '/').map strip, '/' ∉ s := by
      intro s hs hm
      obtain ⟨y, hy, rfl⟩ := List.mem_map.mp hs
      exact not_mem_of_mem_splitOn '/' q y hy (mem_of_mem_strip hm)
    have hS := squeezeSegs_ne_nil _ hL
    have hSfree : ∀ s ∈ squeezeSegs ((splitOn q '/').map strip), '/' ∉ s :=
      fun s hs => hfree s (mem_squeezeSegs _ s hs)
    have hSmem : ∀ s ∈ squeezeSegs ((splitOn q '/').map strip), ∃ y ∈ splitOn q '/', s = strip y := by
      intro s hs
      obtain ⟨y, hy, e⟩ := List.mem_map.mp (mem_squeezeSegs _ s hs)
      exact ⟨y, hy, e.symm⟩
    rw [stripSegments_abs, fsq_join _ hL hfree]
    generalize squeezeSegs ((splitOn q '/').map strip) = S at hS hSfree hSmem ⊢
    intro x hx
    have hx' := mem_pathsplit_splitOn _ x hx
    have hstrip : strip ('/' :: join ['/'] S) = '/' :: join ['/'] S := by
      apply strip_of_ends
      · rfl
      · unfold blankLast
        by_cases hJ : join ['/'] S = []
        · rw [hJ]; rfl
        · rw [getLast?_cons_of_ne_nil _ _ hJ]
          cases hl : (join ['/'] S).getLast? with
          | none => rfl
          | some c =>
            rcases join_getLast_cases S c hl with e | ⟨s, hs, hsl⟩
            · rw [e]; rfl
            · obtain ⟨y, _, rfl⟩ := hSmem s hs
              have := (strip_trimmed y).2
              unfold blankLast at this
              rw [hsl] at this
              exact this
    rw [hstrip, splitOn_cons_sep, splitOn_join '/' S hS hSfree] at hx'
    rw [splitOn_cons_sep]
    simp only [List.mem_cons] at hx'
    rcases hx' with e | hxS
    · exact ⟨[], by simp, by rw [e]; rfl⟩
    · obtain ⟨y, hy, e⟩ := hSmem x hxS
      exact ⟨y, List.mem_cons_of_mem _ hy, e⟩

/-- **no segment the routes read starts or ends with white space** -/
theorem routed_segment_trimmed (path : Str) (habs : PathAbs path) :
    ∀ x ∈ pathsplit (squeezeSlashes (stripSegments path)), blankHead x = false ∧ blankLast x = false := by
  intro x hx
  obtain ⟨y, _, rfl⟩ := routed_segment path habs x hx
  exact strip_trimmed y

/-! ## the characters of the routed path are characters of the path `urlsplit` returned -/

theorem mem_of_mem_squeeze (s : Str) (c : Char) (h : c ∈ squeezeSlashes s) : c ∈ s := by
  induction s with
  | nil => rw [squeeze_nil] at h; exact h
  | cons a r ih =>
    by_cases ha : a = '/'
    · subst ha
      cases r with
      | nil => rw [fsq_slash_nil] at h; exact h
      | cons d r' =>
        by_cases hd : d = '/'
        · subst hd; rw [fsq_slash_slash] at h; exact List.mem_cons_of_mem _ (ih h)
        · rw [fsq_slash_ne d r' hd] at h
          rcases List.mem_cons.mp h with e | e
          · rw [e]; simp
          · exact List.mem_cons_of_mem _ (ih e)
    · rw [fsq_cons_ne a r ha] at h
      rcases List.mem_cons.mp h with e | e
      · rw [e]; simp
      · exact List.mem_cons_of_mem _ (ih e)

theorem mem_join_of_mem' (sep : Str) (parts : List Str) (x : Str) (c : Char) (hx : x ∈ parts) (hc : c ∈ x) :
    c ∈ join sep parts := by
  induction parts with
  | nil => cases hx
  | cons p ps ih =>
    cases ps with
    | nil =>
      have : x = p := by simpa using hx
      simpa [join, this] using hc
    | cons q qs =>
      rw [join_cons_cons_s20]
      rcases List.mem_cons.mp hx with e | e
      · rw [e] at hc; simp [hc]
      · have := ih e
        simp [this]

theorem mem_of_mem_splitOn' {p x : Str} {sep c : Char} (hx : x ∈ splitOn p sep) (hc : c ∈ x) : c ∈ p := by
  rw [← join_splitOn sep p]
  exact mem_join_of_mem' _ _ x c hx hc

theorem mem_of_mem_stripSegments {p : Str} {c : Char} (h : c ∈ stripSegments p) : c = '/' ∨ c ∈ p := by
  unfold stripSegments at h
  rcases mem_join h with h | ⟨x, hx, hc⟩
  · left; simpa using h
  · right
    obtain ⟨y, hy, rfl⟩ := List.mem_map.mp hx
    exact mem_of_mem_splitOn' hy (mem_of_mem_strip hc)

theorem mem_of_mem_pathsplit {p x : Str} {c : Char} (hx : x ∈ pathsplit p) (hc : c ∈ x) : c ∈ p :=
  mem_of_mem_strip (mem_of_mem_splitOn' (mem_pathsplit_splitOn p x hx) hc)

/-- **every character of a segment the routes read is a character of the path `urlsplit`
returned** -/
theorem routed_segment_chars (path : Str) (P : Char → Prop) (hP : ∀ c ∈ path, P c) :
    ∀ x ∈ pathsplit (squeezeSlashes (stripSegments path)), ∀ c ∈ x, P c := by
  intro x hx c hc
  have h1 := mem_of_mem_squeeze _ c (mem_of_mem_pathsplit hx hc)
  rcases mem_of_mem_stripSegments h1 with e | e
  · exact absurd (e ▸ hc) (pathsplit_no_slash _ x hx)
  · exact hP c e

theorem splitFirst_fst_mem (s : Str) (sep c : Char) (h : c ∈ (splitFirst s sep).1) : c ∈ s ∧ c ≠ sep := by
  obtain ⟨h1, h2⟩ := splitFirst_spec_s20 s sep
  generalize (splitFirst s sep).1 = f at h h1 h2
  refine ⟨?_, fun e => h1 (e ▸ h)⟩
  cases hb : (splitFirst s sep).2 with
  | none => rw [hb] at h2; simp only at h2; rw [h2]; exact h
  | some b => rw [hb] at h2; simp only at h2; rw [h2]; exact List.mem_append_left _ h

theorem mem_splitScheme_snd (u d : Str) (c : Char) (h : c ∈ (splitScheme u d).2) : c ∈ u := by
  unfold splitScheme at h
  obtain ⟨_, h2⟩ := splitFirst_spec_s20 u ':'
  generalize splitFirst u ':' = sf at h h2
  obtain ⟨pre, post⟩ := sf
  cases post with
  | none => simpa using h
  | some post =>
    simp only at h h2
    cases pre with
    | nil => simpa using h
    | cons x xs =>
      simp only at h
      split at h
      · rw [h2]; simp [h]
      · exact h

theorem mem_splitNetloc_snd (u : Str) (c : Char) (h : c ∈ (splitNetloc u).2) : c ∈ u := by
  unfold splitNetloc at h
  split at h
  · exact List.mem_of_mem_drop ((List.dropWhile_suffix _).subset h)
  · exact h

/-- **the path `urlsplit` returns has no `?`, no `#`, no TAB, CR, LF** -/
theorem urlsplit_path_chars (url dflt : Str) (sp : SplitResult) (h : urlsplit url dflt = some sp) :
    ∀ c ∈ sp.path, pathChar c = true := by
  unfold urlsplit at h
  simp only at h
  split at h
  · cases h
  · injection h with h
    rw [← h]
    intro c hc
    simp only at hc
    obtain ⟨hc1, hq⟩ := splitFirst_fst_mem _ _ _ hc
    obtain ⟨hc2, hf⟩ := splitFirst_fst_mem _ _ _ hc1
    have hc3 := mem_splitScheme_snd _ _ _ (mem_splitNetloc_snd _ _ hc2)
    unfold cleanUrl at hc3
    have hu : isUnsafeUrlChar c = false := by
      have := (List.mem_filter.mp hc3).2
      simpa using this
    simp [pathChar, hq, hf, hu]

theorem safe_urlsplit_path_chars (u : Str) (sp : SplitResult) (h : safe_urlsplit u = some sp) :
    ∀ c ∈ sp.path, pathChar c = true := by
  unfold safe_urlsplit at h
  exact urlsplit_path_chars _ _ sp h

end Ural.Facebook
